(* C04: responses are paired with their requests, in order, under pipelining -- base layer.
   The invariants of PSegRes.v (one transaction, number 0) generalised to "transaction number k of n": the response side works on
   the slot  pw_pre w ++ [Some t] ++ pw_post w  at position k = |pw_pre w|; the slots before it (responses already complete) and
   after it (requests not answered yet) are a frame.  Same shape of lemmas as PSegRes.v (pr_ instead of sr_), with the world w
   as an implicit parameter. *)
Require Import Htp.Model.Base Htp.Model.MBstr Htp.Model.MConnTypes Htp.Model.MTxCommon Htp.Model.MResLine Htp.Model.MTxRes.
Require Import Htp.Model.MReq Htp.Model.MRes Htp.Model.MConnp.
Require Import Htp.Spec.SWire Htp.Proof.PWire Htp.Proof.PWireHdr Htp.Proof.PWireBlock Htp.Proof.PWireConn Htp.Proof.PWireExch.
Require Import Htp.Proof.PWireRun Htp.Proof.PWirePres Htp.Proof.PWireGlue Htp.Proof.PSeg Htp.Proof.PSegRes.

(* the part of the transaction list that does not change while response number |pw_pre w| is parsed *)
Record pr_world := mk_pr_world { pw_pre : list (option tx); pw_post : list (option tx) }.
Definition pr_k (w : pr_world) : nat := length (pw_pre w).
Definition pr_txs (w : pr_world) (t : tx) : list (option tx) := pw_pre w ++ Some t :: pw_post w.

(* ---- the invariants ---- *)
(* between two passes of the loop, transaction number pr_k w being answered: p = the bytes of the current line seen so far *)
Record pr_cinw (w : pr_world) (c : connp) (d : bytes) (rd : nat) (p : bytes) (hdr : option bytes) (st : res_state) (prev : option res_state)
              (rh : option nat) (t : tx) : Prop := mk_pr_cin {
  pi_status : sg_live (c_out_status c);
  pi_state : c_out_state c = st;
  pi_prev : c_out_state_previous c = prev;
  pi_data : k_data (c_out c) = Some d;
  pi_len : k_len (c_out c) = length d;
  pi_read : k_read (c_out c) = rd;
  pi_rd : (rd <= length d)%nat;
  pi_cons : (k_consume (c_out c) <= rd)%nat;
  pi_seen : sg_olist (k_buf (c_out c)) ++ firstn (rd - k_consume (c_out c)) (skipn (k_consume (c_out c)) d) = p;
  pi_hdr : k_header (c_out c) = hdr;
  pi_rh : k_receiver_hook (c_out c) = rh;
  pi_rcv : (k_receiver (c_out c) <= rd)%nat;
  pi_tx : c_out_tx c = Some (pr_k w);
  pi_txs : c_txs c = (pr_txs w t);
  pi_shift : c_txs_shifted c = 0%nat;
  pi_intx : c_in_tx c = None;
  pi_other : c_out_data_other_at_tx_end c = false;
  pi_next : c_out_next_tx_index c = S (pr_k w) }.

(* between two calls of htp_connp_res_data *)
Record pr_midw (w : pr_world) (c : connp) (p : bytes) (hdr : option bytes) (st : res_state) (rh : option nat) (t : tx) : Prop := mk_pr_mid {
  pm_status : sg_live (c_out_status c);
  pm_state : c_out_state c = st;
  pm_prev : c_out_state_previous c = Some st;
  pm_buf : sg_olist (k_buf (c_out c)) = p;
  pm_hdr : k_header (c_out c) = hdr;
  pm_rh : k_receiver_hook (c_out c) = rh;
  pm_tx : c_out_tx c = Some (pr_k w);
  pm_txs : c_txs c = (pr_txs w t);
  pm_shift : c_txs_shifted c = 0%nat;
  pm_intx : c_in_tx c = None;
  pm_other : c_out_data_other_at_tx_end c = false;
  pm_next : c_out_next_tx_index c = S (pr_k w) }.

Arguments pi_status {w}. Arguments pi_state {w}. Arguments pi_prev {w}. Arguments pi_data {w}. Arguments pi_len {w}. Arguments pi_read {w}.
Arguments pi_rd {w}. Arguments pi_cons {w}. Arguments pi_seen {w}. Arguments pi_hdr {w}. Arguments pi_rh {w}. Arguments pi_rcv {w}.
Arguments pi_tx {w}. Arguments pi_txs {w}. Arguments pi_shift {w}. Arguments pi_intx {w}. Arguments pi_other {w}. Arguments pi_next {w}.
Arguments pm_status {w}. Arguments pm_state {w}. Arguments pm_prev {w}. Arguments pm_buf {w}. Arguments pm_hdr {w}. Arguments pm_rh {w}.
Arguments pm_tx {w}. Arguments pm_txs {w}. Arguments pm_shift {w}. Arguments pm_intx {w}. Arguments pm_other {w}. Arguments pm_next {w}.

Lemma pr_nth_mid {A} (l1 : list A) x l2 : nth_error (l1 ++ x :: l2) (length l1) = Some x.
Proof. rewrite nth_error_app2 by lia. rewrite Nat.sub_diag. reflexivity. Qed.
Lemma pr_slot_at c w t : c_txs c = pr_txs w t -> c_txs_shifted c = 0%nat -> tx_slot c (pr_k w) = Some t.
Proof.
  intros H1 H2. unfold tx_slot. rewrite H2, H1. assert (E0 : (pr_k w <? 0)%nat = false) by reflexivity. rewrite E0.
  rewrite Nat.sub_0_r. unfold pr_txs, pr_k. rewrite pr_nth_mid. reflexivity.
Qed.
Lemma pr_tx_put_at c w t t' : c_txs c = pr_txs w t -> c_txs_shifted c = 0%nat -> tx_put c (pr_k w) t' = c <| c_txs := pr_txs w t' |>.
Proof.
  intros H1 H2. unfold tx_put. rewrite H2, H1. assert (E0 : (pr_k w <? 0)%nat = false) by reflexivity. rewrite E0, Nat.sub_0_r.
  assert (L : (pr_k w <? length (pr_txs w t))%nat = true) by (apply Nat.ltb_lt; unfold pr_txs, pr_k; rewrite app_length; cbn [length]; lia). rewrite L.
  unfold pr_txs, pr_k. rewrite wr_upd_app_exact. reflexivity.
Qed.

Section World.
Context {w : pr_world}.
Notation pr_cin := (pr_cinw w).
Notation pr_mid := (pr_midw w).

Lemma pr_cin_slot c d rd p hdr st prev rh t : pr_cin c d rd p hdr st prev rh t -> tx_slot c (pr_k w) = Some t.
Proof. intros H. apply pr_slot_at; [exact (pi_txs _ _ _ _ _ _ _ _ _ H)|exact (pi_shift _ _ _ _ _ _ _ _ _ H)]. Qed.

(* a parser that differs only outside the fields of the invariant *)
Lemma pr_cin_ext c c' d rd p hdr st prev rh t : pr_cin c d rd p hdr st prev rh t ->
  c_out_status c' = c_out_status c -> c_out_state c' = c_out_state c -> c_out_state_previous c' = c_out_state_previous c ->
  c_out c' = c_out c -> c_out_tx c' = c_out_tx c -> c_txs c' = c_txs c -> c_txs_shifted c' = c_txs_shifted c ->
  c_in_tx c' = c_in_tx c -> c_out_data_other_at_tx_end c' = c_out_data_other_at_tx_end c ->
  c_out_next_tx_index c' = c_out_next_tx_index c ->
  pr_cin c' d rd p hdr st prev rh t.
Proof.
  intros [A1 A2 A3 A4 A5 A6 A7 A8 A9 A10 A11 A12 A13 A14 A15 A16 A17 A18] E1 E2 E3 E4 E5 E6 E7 E8 E9 E10.
  constructor; rewrite ?E1, ?E2, ?E3, ?E4, ?E5, ?E6, ?E7, ?E8, ?E9, ?E10; assumption.
Qed.
Lemma pr_cin_txs c d rd p hdr st prev rh t t' : pr_cin c d rd p hdr st prev rh t -> pr_cin (c <| c_txs := pr_txs w t' |>) d rd p hdr st prev rh t'.
Proof. intros [A1 A2 A3 A4 A5 A6 A7 A8 A9 A10 A11 A12 A13 A14 A15 A16 A17 A18]. constructor; try assumption; reflexivity. Qed.
Lemma pr_cin_state c d rd p hdr st prev rh t st' : pr_cin c d rd p hdr st prev rh t -> pr_cin (rs_set_state st' c) d rd p hdr st' prev rh t.
Proof. intros [A1 A2 A3 A4 A5 A6 A7 A8 A9 A10 A11 A12 A13 A14 A15 A16 A17 A18]. constructor; try assumption; reflexivity. Qed.
Lemma pr_cin_prev c d rd p hdr st prev rh t pv : pr_cin c d rd p hdr st prev rh t -> pr_cin (c <| c_out_state_previous := pv |>) d rd p hdr st pv rh t.
Proof. intros [A1 A2 A3 A4 A5 A6 A7 A8 A9 A10 A11 A12 A13 A14 A15 A16 A17 A18]. constructor; try assumption; reflexivity. Qed.
Lemma pr_cin_header c d rd p hdr st prev rh t h : pr_cin c d rd p hdr st prev rh t ->
  pr_cin (rs_set_out (fun k => k <| k_header := h |>) c) d rd p h st prev rh t.
Proof. intros [A1 A2 A3 A4 A5 A6 A7 A8 A9 A10 A11 A12 A13 A14 A15 A16 A17 A18]. constructor; try assumption; reflexivity. Qed.
Lemma pr_cin_next c d rd p hdr st prev rh t nb : pr_cin c d rd p hdr st prev rh t ->
  pr_cin (rs_set_out (fun k => k <| k_next_byte := nb |>) c) d rd p hdr st prev rh t.
Proof. intros [A1 A2 A3 A4 A5 A6 A7 A8 A9 A10 A11 A12 A13 A14 A15 A16 A17 A18]. constructor; try assumption; reflexivity. Qed.
Lemma pr_cin_fault c d rd p hdr st prev rh t : pr_cin c d rd p hdr st prev rh t -> pr_cin (rs_fault c) d rd p hdr st prev rh t.
Proof. intros H. apply (pr_cin_ext c); try reflexivity. exact H. Qed.
(* htp_connp_res_clear_buffer *)
Lemma pr_cin_clear c d rd p hdr st prev rh t : pr_cin c d rd p hdr st prev rh t -> pr_cin (rs_clear_buffer c) d rd [] hdr st prev rh t.
Proof.
  intros [A1 A2 A3 A4 A5 A6 A7 A8 A9 A10 A11 A12 A13 A14 A15 A16 A17 A18]. constructor; try assumption; try reflexivity.
  - cbn [rs_clear_buffer rs_set_out c_out set k_consume k_read]. cbn. rewrite A6. lia.
  - cbn [rs_clear_buffer rs_set_out c_out set k_consume k_read k_buf sg_olist]. cbn. rewrite A6, Nat.sub_diag. reflexivity.
Qed.
(* a callback that answered HTP_OK *)
Lemma pr_cin_hook c d rd p hdr st prev rh t h i data last : pr_cin c d rd p hdr st prev rh t -> pr_cin (wr_hook_ev h i data last c) d rd p hdr st prev rh t.
Proof. intros H. apply (pr_cin_ext c); try reflexivity. exact H. Qed.

(* one byte copied (OUT_COPY_BYTE) *)
Lemma pr_cin_adv c d rd p hdr st prev rh t b : pr_cin c d rd p hdr st prev rh t -> nth_error d rd = Some b ->
  pr_cin (rs_set_out (wr_kadv b) c) d (S rd) (p ++ [b]) hdr st prev rh t.
Proof.
  intros [A1 A2 A3 A4 A5 A6 A7 A8 A9 A10 A11 A12 A13 A14 A15 A16 A17 A18] Hn.
  assert (L : (rd < length d)%nat) by (apply nth_error_Some; rewrite Hn; discriminate).
  constructor; try assumption; try reflexivity.
  - cbn. rewrite A6. reflexivity.
  - change (k_consume (c_out (rs_set_out (wr_kadv b) c))) with (k_consume (c_out c)). lia.
  - change (k_consume (c_out (rs_set_out (wr_kadv b) c))) with (k_consume (c_out c)). change (k_buf (c_out (rs_set_out (wr_kadv b) c))) with (k_buf (c_out c)).
    rewrite (sg_slice_S d _ rd b A8 Hn), app_assoc, A9. reflexivity.
  - change (k_receiver (c_out (rs_set_out (wr_kadv b) c))) with (k_receiver (c_out c)). lia.
Qed.


End World.

Section Prim.
Variable cb : cb_oracle.
Variable g : cfg.
Hypothesis Hcb : wr_all_ok cb.
Context {w : pr_world}.
Notation pr_cin := (pr_cinw w).
Notation pr_mid := (pr_midw w).

(* transaction updates through connp->out_tx *)
Lemma pr_tx_upd0 c d rd p hdr st prev rh t f : pr_cin c d rd p hdr st prev rh t -> tx_upd c (pr_k w) f = c <| c_txs := (pr_txs w (f t)) |>.
Proof.
  intros H. rewrite (wr_tx_upd_ok c (pr_k w) t f (pr_cin_slot _ _ _ _ _ _ _ _ _ H)).
  apply (pr_tx_put_at c w t _ (pi_txs _ _ _ _ _ _ _ _ _ H) (pi_shift _ _ _ _ _ _ _ _ _ H)).
Qed.
Lemma pr_otx c d rd p hdr st prev rh t f : pr_cin c d rd p hdr st prev rh t -> rs_otx f c = c <| c_txs := (pr_txs w (f t)) |>.
Proof. intros H. unfold rs_otx. rewrite (pi_tx _ _ _ _ _ _ _ _ _ H). apply (pr_tx_upd0 c d rd p hdr st prev rh t f H). Qed.
Lemma pr_rs_tx c d rd p hdr st prev rh t : pr_cin c d rd p hdr st prev rh t -> rs_tx c = t.
Proof. intros H. unfold rs_tx, tx_get. rewrite (pi_tx _ _ _ _ _ _ _ _ _ H), (pr_cin_slot _ _ _ _ _ _ _ _ _ H). reflexivity. Qed.
Lemma pr_tx_get c d rd p hdr st prev rh t : pr_cin c d rd p hdr st prev rh t -> tx_get c (pr_k w) = t.
Proof. intros H. unfold tx_get. rewrite (pr_cin_slot _ _ _ _ _ _ _ _ _ H). reflexivity. Qed.

(* htp_connp_res_buffer: what is in the chunk between consume and read goes to out_buf; the seen bytes are now all there *)
Lemma pr_res_buffer c d rd p hdr st prev rh t : pr_cin c d rd p hdr st prev rh t ->
  (length p + length (sg_olist hdr) <= g_field_limit_hard g)%nat ->
  exists c', rs_res_buffer g c = (ST_OK, c') /\ pr_cin c' d rd p hdr st prev rh t /\ k_buf (c_out c') = Some p /\ k_consume (c_out c') = rd.
Proof.
  intros H Hlim. pose proof H as [A1 A2 A3 A4 A5 A6 A7 A8 A9 A10 A11 A12 A13 A14 A15 A16 A17 A18].
  assert (E1 : (rd <? k_consume (c_out c))%nat = false) by (apply Nat.ltb_ge; lia).
  unfold rs_res_buffer. rewrite A4. cbv zeta. rewrite A6, E1, A13.
  unfold rs_sub. pose proof (sg_slice_length d _ rd A8 A7) as SL. rewrite SL, A10.
  assert (Lp : length p = (length (sg_olist (k_buf (c_out c))) + (rd - k_consume (c_out c)))%nat) by (rewrite <- A9, app_length, SL; reflexivity).
  assert (E3 : (g_field_limit_hard g <? match k_buf (c_out c) with Some b => length b | None => 0 end + (rd - k_consume (c_out c)) +
                                         match hdr with Some h => length h | None => 0 end)%nat = false).
  { apply Nat.ltb_ge. unfold sg_olist in *. destruct (k_buf (c_out c)), hdr; cbn [length] in *; lia. }
  rewrite E3.
  assert (B : match k_buf (c_out c) with Some b => b ++ firstn (rd - k_consume (c_out c)) (skipn (k_consume (c_out c)) d)
              | None => firstn (rd - k_consume (c_out c)) (skipn (k_consume (c_out c)) d) end = p).
  { rewrite <- A9. destruct (k_buf (c_out c)); reflexivity. }
  rewrite B. eexists. split; [reflexivity|]. split; [|split].
  - constructor; try assumption; try reflexivity.
    + cbn. rewrite A6. lia.
    + cbn [rs_set_out c_out set k_consume k_read k_buf sg_olist]. cbn. rewrite A6, Nat.sub_diag. cbn [firstn]. apply app_nil_r.
  - reflexivity.
  - cbn. exact A6.
Qed.

(* htp_connp_res_consolidate_data hands over exactly the seen bytes (as a non-NULL pointer) *)
Lemma pr_consolidate c d rd p hdr st prev rh t : pr_cin c d rd p hdr st prev rh t ->
  (length p + length (sg_olist hdr) <= g_field_limit_hard g)%nat ->
  exists c', rs_consolidate g c = (Some (Some p), c') /\ pr_cin c' d rd p hdr st prev rh t.
Proof.
  intros H Hlim. pose proof H as [A1 A2 A3 A4 A5 A6 A7 A8 A9 A10 A11 A12 A13 A14 A15 A16 A17 A18].
  unfold rs_consolidate. destruct (k_buf (c_out c)) as [b|] eqn:Eb.
  - destruct (pr_res_buffer c d rd p hdr st prev rh t H Hlim) as (c' & E & H' & B & _). rewrite E.
    exists c'. split; [rewrite B; reflexivity|exact H'].
  - rewrite A4, A6. assert (E1 : (rd <? k_consume (c_out c))%nat = false) by (apply Nat.ltb_ge; lia). rewrite E1.
    exists c. split; [|exact H]. cbn [sg_olist app] in A9. unfold rs_sub. rewrite A9. reflexivity.
Qed.

(* htp_connp_res_receiver_send_data: the raw bytes go to the receiver hook, which answers HTP_OK *)
Lemma pr_send_data c d rd p hdr st prev rh t last : pr_cin c d rd p hdr st prev rh t ->
  exists c', res_receiver_send_data cb last c = (ST_OK, c') /\ pr_cin c' d rd p hdr st prev rh t /\ c_out_body_data_left c' = c_out_body_data_left c.
Proof.
  intros H. pose proof H as [A1 A2 A3 A4 A5 A6 A7 A8 A9 A10 A11 A12 A13 A14 A15 A16 A17 A18].
  unfold res_receiver_send_data. rewrite A11. destruct rh as [h|]; [|exists c; split; [reflexivity|split; [exact H|reflexivity]]].
  assert (E1 : (k_read (c_out c) <? k_receiver (c_out c))%nat = false) by (apply Nat.ltb_ge; rewrite A6; exact A12).
  assert (E2 : (match cur_slice (c_out c) (k_receiver (c_out c)) (k_read (c_out c)) with Some s => length s | None => 0%nat end
                <? k_read (c_out c) - k_receiver (c_out c))%nat = false).
  { apply Nat.ltb_ge. unfold cur_slice. rewrite A4, A6, (sg_slice_length d _ rd A12 A7). lia. }
  cbv zeta. rewrite E1, E2, A4, A13.
  unfold run_data_hook. rewrite (wr_run_hook_ex cb Hcb). cbv iota.
  eexists. split; [reflexivity|]. split; [|reflexivity].
  match goal with |- pr_cin (rs_set_out _ ?x) _ _ _ _ _ _ _ _ => set (c1 := x) end.
  assert (H1 : pr_cin c1 d rd p hdr st prev (Some h) t) by (unfold c1; apply pr_cin_hook; exact H).
  clearbody c1. destruct H1 as [B1 B2 B3 B4 B5 B6 B7 B8 B9 B10 B11 B12 B13 B14 B15 B16 B17 B18].
  constructor; try assumption; try reflexivity. cbn. rewrite B6. lia.
Qed.

(* the HTP_DATA_BUFFER exit of the loop *)
Lemma pr_exit_buffer c d p hdr st rh t : pr_cin c d (length d) p hdr st (Some st) rh t ->
  (length p + length (sg_olist hdr) <= g_field_limit_hard g)%nat ->
  exists c', rs_res_exit cb g ST_DATA_BUFFER c = (c', c_HTP_STREAM_DATA) /\ pr_mid c' p hdr st rh t.
Proof.
  intros H Hlim. unfold rs_res_exit.
  destruct (pr_send_data c d _ p hdr st _ rh t false H) as (c1 & E1 & H1 & _). rewrite E1. cbn [snd].
  destruct (pr_res_buffer c1 d _ p hdr st _ rh t H1 Hlim) as (c2 & E2 & H2 & B2 & _). rewrite E2.
  eexists. split; [reflexivity|].
  destruct H2 as [A1 A2 A3 A4 A5 A6 A7 A8 A9 A10 A11 A12 A13 A14 A15 A16 A17 A18].
  constructor; try assumption; try reflexivity.
  - right. reflexivity.
  - cbn. rewrite B2. reflexivity.
Qed.

(* htp_res_handle_state_change, for a new state other than RES_HEADERS *)
Lemma pr_state_change c d rd p hdr st prev rh t : pr_cin c d rd p hdr st prev rh t -> st <> RES_HEADERS ->
  rs_handle_state_change cb c = (ST_OK, c <| c_out_state_previous := Some st |>) \/
  (rs_handle_state_change cb c = (ST_OK, c) /\ prev = Some st).
Proof.
  intros [A1 A2 A3 A4 A5 A6 A7 A8 A9 A10 A11 A12 A13 A14 A15 A16 A17 A18] Hne.
  unfold rs_handle_state_change. rewrite A3, A2.
  destruct (match prev with Some s => res_state_eqb s st | None => false end) eqn:E.
  - right. split; [reflexivity|]. destruct prev as [s|]; [|discriminate]. destruct s, st; try discriminate; reflexivity.
  - left. assert (E2 : res_state_eqb st RES_HEADERS = false) by (destruct st; try reflexivity; contradiction). rewrite E2, A2. reflexivity.
Qed.

(* a pass whose state function returned HTP_OK in a state other than RES_HEADERS goes round again *)
Lemma pr_iter_ok c c1 d rd p hdr st prev rh t :
  rs_state_fn cb g (c_out_state c) c = (ST_OK, c1) -> pr_cin c1 d rd p hdr st prev rh t -> st <> RES_HEADERS ->
  exists c', sr_iter cb g c = inr c' /\ pr_cin c' d rd p hdr st (Some st) rh t.
Proof.
  intros E H Hne. unfold sr_iter. rewrite E. rewrite (sg_live_tunnel _ (pi_status _ _ _ _ _ _ _ _ _ H)).
  destruct (pr_state_change c1 d rd p hdr st prev rh t H Hne) as [E2|[E2 Ep]]; rewrite E2.
  - eexists. split; [reflexivity|]. eapply pr_cin_prev. exact H.
  - eexists. split; [reflexivity|]. rewrite <- Ep. exact H.
Qed.

(* entering htp_connp_res_data with a non-empty chunk *)
Lemma pr_enter c p hdr st rh t x : pr_mid c p hdr st rh t -> x <> [] ->
  exists c1, connp_res_data cb g (Some x) (length x) c = rs_res_loop cb g (rs_res_fuel (length x)) false c1 /\
             pr_cin c1 x 0 p hdr st (Some st) rh t.
Proof.
  intros [A1 A2 A3 A4 A5 A6 A7 A8 A9 A10 A11 A12] Hne. unfold connp_res_data.
  rewrite (sg_live_stop _ A1), (sg_live_error _ A1), A7.
  assert (L0 : (length x =? 0)%nat = false) by (destruct x; [contradiction|reflexivity]). rewrite L0. cbn [andb].
  match goal with |- context [(c_out_status ?y =? c_HTP_STREAM_TUNNEL)%Z] => change (c_out_status y) with (c_out_status c) end.
  rewrite (sg_live_tunnel _ A1).
  eexists. split; [reflexivity|].
  constructor; try assumption; try reflexivity; cbn; try lia.
  rewrite app_nil_r; exact A4.
Qed.

(* the same, keeping track of out_body_data_left *)
Lemma pr_iter_ok_left c c1 d rd p hdr st prev rh t :
  rs_state_fn cb g (c_out_state c) c = (ST_OK, c1) -> pr_cin c1 d rd p hdr st prev rh t -> st <> RES_HEADERS ->
  exists c', sr_iter cb g c = inr c' /\ pr_cin c' d rd p hdr st (Some st) rh t /\ c_out_body_data_left c' = c_out_body_data_left c1.
Proof.
  intros E H Hne. unfold sr_iter. rewrite E. rewrite (sg_live_tunnel _ (pi_status _ _ _ _ _ _ _ _ _ H)).
  destruct (pr_state_change c1 d rd p hdr st prev rh t H Hne) as [E2|[E2 Ep]]; rewrite E2.
  - eexists. split; [reflexivity|]. split; [eapply pr_cin_prev; exact H|reflexivity].
  - eexists. split; [reflexivity|]. split; [rewrite <- Ep; exact H|reflexivity].
Qed.
Lemma pr_enter_left c p hdr st rh t x : pr_mid c p hdr st rh t -> x <> [] ->
  exists c1, connp_res_data cb g (Some x) (length x) c = rs_res_loop cb g (rs_res_fuel (length x)) false c1 /\
             pr_cin c1 x 0 p hdr st (Some st) rh t /\ c_out_body_data_left c1 = c_out_body_data_left c.
Proof.
  intros [A1 A2 A3 A4 A5 A6 A7 A8 A9 A10 A11 A12] Hne. unfold connp_res_data.
  rewrite (sg_live_stop _ A1), (sg_live_error _ A1), A7.
  assert (L0 : (length x =? 0)%nat = false) by (destruct x; [contradiction|reflexivity]). rewrite L0. cbn [andb].
  match goal with |- context [(c_out_status ?y =? c_HTP_STREAM_TUNNEL)%Z] => change (c_out_status y) with (c_out_status c) end.
  rewrite (sg_live_tunnel _ A1).
  eexists. split; [reflexivity|]. split; [|reflexivity].
  constructor; try assumption; try reflexivity; cbn; try lia.
  rewrite app_nil_r; exact A4.
Qed.
End Prim.
