(* C03, response direction: the theorems.  After a grammar request has been delivered, a response of the wire grammar --
   status line (reason phrase free of CR and LF), header fields possibly written on several lines (obs-fold), empty line,
   Content-Length body -- is delivered in ANY segmentation into non-empty chunks: the transactions reported at the end are
   those of the single-chunk delivery (all fields; a fortiori up to HTP_MULTI_PACKET_HEAD, which only the request direction sets). *)
Require Import Htp.Model.Base Htp.Model.MBstr Htp.Model.MConnTypes Htp.Model.MTxCommon Htp.Model.MResLine Htp.Model.MTxRes.
Require Import Htp.Model.MReq Htp.Model.MRes Htp.Model.MConnp.
Require Import Htp.Spec.SWire Htp.Proof.PWire Htp.Proof.PWireHdr Htp.Proof.PWireBlock Htp.Proof.PWireConn Htp.Proof.PWireExch.
Require Import Htp.Proof.PWireRun Htp.Proof.PWirePres Htp.Proof.PWireGlue Htp.Proof.PSeg Htp.Proof.PSegLine Htp.Proof.PSegHdr Htp.Proof.PSegGen Htp.Proof.PSegRun.
Require Import Htp.Proof.PSegFold Htp.Proof.PSegRes Htp.Proof.PSegResLine Htp.Proof.PSegResHdr Htp.Proof.PSegResGen Htp.Proof.PSegResRun Htp.Proof.PSegResReq.

(* ---- the response on the wire: r with its fields written as `cuts` says (SWire.wr_folded_lines), followed by the body ---- *)
Definition sr_line0 (r : wr_response) : bytes := wr_ser_status_line (wp_protocol r) (wp_status r) (wp_reason r).
Definition sr_lines (r : wr_response) (cuts : list (list bytes)) : list sg_fl := sg_block_flat (combine (wp_fields r) cuts).
Definition sr_wire (r : wr_response) (cuts : list (list bytes)) (body : bytes) : bytes :=
  sr_line0 r ++ [CR; LF] ++ sg_fwire (sr_lines r cuts) ++ [CR; LF] ++ body.
(* the unfolded response: one piece per field *)
Definition sr_cuts_whole (r : wr_response) : list (list bytes) := map (fun f => [wf_lws1 f ++ wf_value f ++ wf_lws2 f]) (wp_fields r).
Lemma sr_wire_whole r body : sr_wire r (sr_cuts_whole r) body = wr_response_wire r ++ body.
Proof.
  destruct r as [p s rs fs]. unfold sr_wire, sr_cuts_whole, wr_response_wire, sr_line0, sr_lines. cbn [wp_protocol wp_status wp_reason wp_fields].
  assert (E : sg_fwire (sg_block_flat (combine fs (map (fun f => [wf_lws1 f ++ wf_value f ++ wf_lws2 f]) fs))) = wr_block_wire fs).
  { induction fs as [|f fs IH]; [reflexivity|].
    cbn [map combine]. unfold sg_block_flat, sg_fwire, wr_block_wire in *. cbn [flat_map sg_field_flat fst snd map app concat]. rewrite IH. reflexivity. }
  rewrite <- !app_assoc. do 2 (apply f_equal). apply (f_equal (fun z => z ++ [CR; LF] ++ body)). exact E.
Qed.

(* well-formedness: status line of the grammar with a reason phrase without CR / LF (finding F2 otherwise), fields of the grammar *)
Definition sr_response_ok (r : wr_response) : bool :=
  sr_status_ok (wp_protocol r) (wp_status r) (wp_reason r) && forallb wr_field_ok (wp_fields r).
Definition sr_cuts_ok (r : wr_response) (cuts : list (list bytes)) : bool :=
  (length cuts =? length (wp_fields r))%nat && forallb sg_fold_ok (combine (wp_fields r) cuts).
(* the limits (exact: see sr_limit_premise_needed) *)
Definition sr_p11_line (line : bytes) : bool := (rsl_protocol_number (rs_parse_response_line line) =? c_HTP_PROTOCOL_1_1)%Z.
Definition sr_fits (g : cfg) (r : wr_response) (cuts : list (list bytes)) : bool :=
  (length (sr_line0 r) + 2 <=? g_field_limit_hard g)%nat && sr_ffit (g_field_limit_hard g) (sr_p11_line (sr_line0 r)) None (sr_lines r cuts).
(* the transaction the request left behind, and the one at the end of the header block *)
Definition sr_treq (cb : cb_oracle) (g : cfg) (rq : wr_request) : tx :=
  match c_txs (fst (cp_run cb g connp_new [OpOpen; OpReqData (wr_request_wire rq)])) with Some t :: _ => t | _ => tx_new 0 0 end.
Definition sr_tend (t0 : tx) (r : wr_response) (cuts : list (list bytes)) : tx := sr_lrun (sr_lines r cuts) (None, sr_th0 t0 (sr_line0 r)).
(* the framing: Content-Length n, no Transfer-Encoding, not the answer to HEAD / CONNECT, not 100 Continue (the model's own decision) *)
Definition sr_framed (cb : cb_oracle) (g : cfg) (rq : wr_request) (r : wr_response) (cuts : list (list bytes)) (body : bytes) : bool :=
  sr_frame_ok (sr_tend (sr_treq cb g rq) r cuts) (length body).
(* F1, exactly: a body that starts with CR must not arrive in the chunk in which the LF of the empty line is at the top of the
   loop of RES_HEADERS: the chunk that starts with that LF, or that starts with the LF of the last header line and goes on *)
Fixpoint sr_f1_free (body : bytes) (has_hdr : bool) (chunks : list bytes) : bool :=
  match chunks with
  | [] => true
  | x :: rest =>
    match body with
    | b :: _ => if (b =? CR)%N then
                  (if (length (concat chunks) =? length body + 1)%nat then (length x =? 1)%nat else true) &&
                  (if has_hdr && (length (concat chunks) =? length body + 3)%nat then (length x <=? 3)%nat else true)
                else true
    | [] => true
    end && sr_f1_free body has_hdr rest
  end.

Lemma sr_f1_free_oks body has_hdr : forall chunks, sr_f1_free body has_hdr chunks = true -> sr_oks (sr_f1_local body has_hdr) chunks.
Proof.
  induction chunks as [|x rest IH]; intros H; [exact I|]. cbn [sr_f1_free] in H. apply andb_prop in H. destruct H as [H1 H2].
  cbn [sr_oks]. split; [|apply IH; exact H2]. unfold sr_f1_local. destruct body as [|b body']; [exact I|]. intros Hb. rewrite Hb in H1.
  apply andb_prop in H1. destruct H1 as [A B]. cbn [concat] in A, B. split.
  - intros L. apply Nat.eqb_eq in L. rewrite L in A. apply Nat.eqb_eq. exact A.
  - intros Hh L. apply Nat.eqb_eq in L. rewrite Hh, L in B. cbn [andb] in B. apply Nat.leb_le. exact B.
Qed.

Lemma sr_p11_th0 t line : sr_p11 (sr_th0 t line) = sr_p11_line line.
Proof.
  unfold sr_p11, sr_th0, sr_tx_line, sr_line_fix, rs_apply_response_line, sr_p11_line.
  repeat match goal with |- context [if ?b then _ else _] => destruct b end; reflexivity.
Qed.
Lemma sr_forallb_combine_fst {A B} (p : A -> bool) : forall (l : list A) (l' : list B), forallb p l = true -> forallb (fun x => p (fst x)) (combine l l') = true.
Proof.
  induction l as [|a l IH]; intros [|b l'] H; try reflexivity. cbn [combine forallb fst] in *. apply andb_prop in H. destruct H as [H1 H2]. rewrite H1, (IH l' H2). reflexivity.
Qed.
Lemma sr_run_app cb g : forall ops1 c ops2, fst (cp_run cb g c (ops1 ++ ops2)) = fst (cp_run cb g (fst (cp_run cb g c ops1)) ops2).
Proof.
  induction ops1 as [|o ops1 IH]; intros c ops2; [reflexivity|]. cbn [app cp_run]. destruct (cp_step cb g c o) as [c1 x].
  specialize (IH c1 ops2). destruct (cp_run cb g c1 (ops1 ++ ops2)) as [c2 xs]. destruct (cp_run cb g c1 ops1) as [c3 ys]. cbn [fst] in *. exact IH.
Qed.

(* ================= C03, response direction ================= *)
Theorem sr_response_chunking : forall cb g rq r (cuts : list (list bytes)) (body : bytes) (chunks : list bytes),
  wr_all_ok cb -> g_allow_space_uri g = false -> wr_request_ok rq = true ->
  sr_response_ok r = true -> sr_cuts_ok r cuts = true -> sr_framed cb g rq r cuts body = true -> sr_fits g r cuts = true ->
  Forall (fun x => x <> []) chunks -> concat chunks = sr_wire r cuts body ->
  sr_f1_free body (negb (sr_is_nil (sr_lines r cuts))) chunks = true ->
  c_txs (fst (cp_run cb g connp_new (OpOpen :: OpReqData (wr_request_wire rq) :: map OpResData chunks))) =
  sr_final g (sr_after_hdr (length body) (sr_tend (sr_treq cb g rq) r cuts)).
Proof.
  intros cb g rq r cuts body chunks Hcb Hsp Wq Wr Wc Hfr Hfit Hall Hc Hf1.
  destruct (sr_after_request cb g rq Hcb Hsp Wq) as (t0 & Hr & Rep).
  assert (Et : sr_treq cb g rq = t0) by (unfold sr_treq; rewrite (ry_txs _ _ Hr); reflexivity).
  unfold sr_framed in Hfr. rewrite Et in *.
  change (OpOpen :: OpReqData (wr_request_wire rq) :: map OpResData chunks) with ([OpOpen; OpReqData (wr_request_wire rq)] ++ map OpResData chunks).
  rewrite sr_run_app.
  unfold sr_response_ok in Wr. apply andb_prop in Wr. destruct Wr as [Wl Wf].
  unfold sr_cuts_ok in Wc. apply andb_prop in Wc. destruct Wc as [_ Wc].
  destruct (sg_block_flat_ok (combine (wp_fields r) cuts) (sr_forallb_combine_fst wr_field_ok _ cuts Wf) Wc) as [Okl Hnp].
  unfold sr_fits in Hfit. apply andb_prop in Hfit. destruct Hfit as [Hl0 Hfit]. apply Nat.leb_le in Hl0.
  unfold wr_reported in Rep. destruct Rep as (_ & _ & _ & _ & _ & H09 & _ & Hreq).
  rewrite <- (sr_p11_th0 t0 (sr_line0 r)) in Hfit.
  apply (sr_run_all_chunks cb g Hcb (wp_protocol r) (wp_status r) (wp_reason r) (sr_lines r cuts) body t0 Wl Okl Hnp H09 Hreq Hfr Hl0 Hfit _ chunks Hr Hall Hc).
  apply sr_f1_free_oks. exact Hf1.
Qed.
Print Assumptions sr_response_chunking.

(* ---- the single-chunk delivery is one of the chunkings ---- *)
Lemma sr_f1_free_single r cuts body has_hdr : sr_response_ok r = true -> sr_f1_free body has_hdr [sr_wire r cuts body] = true.
Proof.
  intros Wr. unfold sr_response_ok in Wr. apply andb_prop in Wr. destruct Wr as [Wl _].
  destruct (sr_status_line_shape _ _ _ Wl) as (_ & l & El).
  cbn [sr_f1_free concat]. rewrite andb_true_r, app_nil_r. destruct body as [|b body']; [reflexivity|]. destruct (b =? CR)%N; [|reflexivity].
  assert (L : (length (b :: body') + 8 <= length (sr_wire r cuts (b :: body')))%nat).
  { unfold sr_wire, sr_line0. rewrite El, !app_length. cbn [length]. lia. }
  assert (E1 : (length (sr_wire r cuts (b :: body')) =? length (b :: body') + 1)%nat = false) by (apply Nat.eqb_neq; lia).
  assert (E2 : (length (sr_wire r cuts (b :: body')) =? length (b :: body') + 3)%nat = false) by (apply Nat.eqb_neq; lia).
  rewrite E1, E2, andb_false_r. reflexivity.
Qed.
Lemma sr_wire_ne r cuts body : sr_wire r cuts body <> [].
Proof. unfold sr_wire. intro E. apply app_eq_nil in E. destruct E as [_ E]. discriminate. Qed.

(* the statement as an equation between two runs (Properties_C03: c03_obs = PSegRun.sg_obs): chunked delivery = single-chunk delivery *)
Theorem sr_response_chunking_obs : forall cb g rq r (cuts : list (list bytes)) (body : bytes) (chunks : list bytes),
  wr_all_ok cb -> g_allow_space_uri g = false -> wr_request_ok rq = true ->
  sr_response_ok r = true -> sr_cuts_ok r cuts = true -> sr_framed cb g rq r cuts body = true -> sr_fits g r cuts = true ->
  Forall (fun x => x <> []) chunks -> concat chunks = sr_wire r cuts body ->
  sr_f1_free body (negb (sr_is_nil (sr_lines r cuts))) chunks = true ->
  sg_obs cb g (OpOpen :: OpReqData (wr_request_wire rq) :: map OpResData chunks) =
  sg_obs cb g [OpOpen; OpReqData (wr_request_wire rq); OpResData (sr_wire r cuts body)].
Proof.
  intros cb g rq r cuts body chunks Hcb Hsp Wq Wr Wc Hfr Hfit Hall Hc Hf1.
  pose proof (sr_response_chunking cb g rq r cuts body chunks Hcb Hsp Wq Wr Wc Hfr Hfit Hall Hc Hf1) as E1.
  pose proof (sr_response_chunking cb g rq r cuts body [sr_wire r cuts body] Hcb Hsp Wq Wr Wc Hfr Hfit) as E2.
  unfold sg_obs. rewrite E1. cbn [map] in E2. rewrite E2; [reflexivity| | |].
  - constructor; [apply sr_wire_ne|constructor].
  - cbn [concat]. apply app_nil_r.
  - apply sr_f1_free_single. exact Wr.
Qed.
(* any two admissible chunkings report the same transactions, field by field *)
Theorem sr_response_two_chunkings : forall cb g rq r (cuts : list (list bytes)) (body : bytes) (chunks1 chunks2 : list bytes),
  wr_all_ok cb -> g_allow_space_uri g = false -> wr_request_ok rq = true ->
  sr_response_ok r = true -> sr_cuts_ok r cuts = true -> sr_framed cb g rq r cuts body = true -> sr_fits g r cuts = true ->
  Forall (fun x => x <> []) chunks1 -> concat chunks1 = sr_wire r cuts body -> sr_f1_free body (negb (sr_is_nil (sr_lines r cuts))) chunks1 = true ->
  Forall (fun x => x <> []) chunks2 -> concat chunks2 = sr_wire r cuts body -> sr_f1_free body (negb (sr_is_nil (sr_lines r cuts))) chunks2 = true ->
  c_txs (fst (cp_run cb g connp_new (OpOpen :: OpReqData (wr_request_wire rq) :: map OpResData chunks1))) =
  c_txs (fst (cp_run cb g connp_new (OpOpen :: OpReqData (wr_request_wire rq) :: map OpResData chunks2))).
Proof.
  intros cb g rq r cuts body ch1 ch2 Hcb Hsp Wq Wr Wc Hfr Hfit A1 B1 C1 A2 B2 C2.
  rewrite (sr_response_chunking cb g rq r cuts body ch1 Hcb Hsp Wq Wr Wc Hfr Hfit A1 B1 C1).
  rewrite (sr_response_chunking cb g rq r cuts body ch2 Hcb Hsp Wq Wr Wc Hfr Hfit A2 B2 C2). reflexivity.
Qed.

(* ---- Stages 1-2 as a special case: header fields one line each (wire = wr_response_wire r ++ body) ---- *)
Lemma sr_cuts_whole_ok r : sr_cuts_ok r (sr_cuts_whole r) = true.
Proof.
  unfold sr_cuts_ok, sr_cuts_whole. rewrite map_length, Nat.eqb_refl. cbn [andb]. induction (wp_fields r) as [|f fs IH]; [reflexivity|].
  cbn [map combine forallb]. rewrite IH, andb_true_r. unfold sg_fold_ok. cbn [fst snd wr_fold_ok forallb concat tl]. rewrite app_nil_r, wr_eqb_refl. reflexivity.
Qed.
Theorem sr_response_chunking_unfolded : forall cb g rq r (body : bytes) (chunks : list bytes),
  wr_all_ok cb -> g_allow_space_uri g = false -> wr_request_ok rq = true ->
  sr_response_ok r = true -> sr_framed cb g rq r (sr_cuts_whole r) body = true -> sr_fits g r (sr_cuts_whole r) = true ->
  Forall (fun x => x <> []) chunks -> concat chunks = wr_response_wire r ++ body ->
  sr_f1_free body (negb (sr_is_nil (wp_fields r))) chunks = true ->
  sg_obs cb g (OpOpen :: OpReqData (wr_request_wire rq) :: map OpResData chunks) =
  sg_obs cb g [OpOpen; OpReqData (wr_request_wire rq); OpResData (wr_response_wire r ++ body)].
Proof.
  intros cb g rq r body chunks Hcb Hsp Wq Wr Hfr Hfit Hall Hc Hf1. rewrite <- sr_wire_whole in *.
  apply (sr_response_chunking_obs cb g rq r (sr_cuts_whole r) body chunks Hcb Hsp Wq Wr (sr_cuts_whole_ok r) Hfr Hfit Hall Hc).
  assert (E : sr_is_nil (sr_lines r (sr_cuts_whole r)) = sr_is_nil (wp_fields r)).
  { unfold sr_lines, sr_cuts_whole. destruct (wp_fields r) as [|f fs]; reflexivity. }
  rewrite E. exact Hf1.
Qed.
Print Assumptions sr_response_chunking_obs.
Print Assumptions sr_response_two_chunkings.
Print Assumptions sr_response_chunking_unfolded.

(* ================= non-vacuity, the vm_compute harness, refutations ================= *)
Definition sr_str_CL : bytes := [67;111;110;116;101;110;116;45;76;101;110;103;116;104]%N.   (* "Content-Length" *)
Definition sr_ex_run (g : cfg) (chunks : list bytes) : list (option tx) :=
  c_txs (fst (cp_run sg_ex_ok g connp_new (OpOpen :: OpReqData (wr_request_wire wr_ex_req) :: map OpResData chunks))).
(* what is compared when a difference has to be shown: progress, entity length, number of headers, flags *)
Definition sr_fp (l : list (option tx)) : list (option (Z * Z * nat * N)) :=
  map (option_map (fun t => (t_response_progress t, t_response_entity_len t, length (t_response_headers t), t_flags t))) l.
Definition sr_fp_eqb (a b : list (option (Z * Z * nat * N))) : bool :=
  match a, b with
  | [Some (p1, e1, n1, f1)], [Some (p2, e2, n2, f2)] => (p1 =? p2)%Z && (e1 =? e2)%Z && (n1 =? n2)%nat && (f1 =? f2)%N
  | _, _ => false
  end.

(* (1) HTTP/1.1 200 OK | X-A: a b | Content-Length: 3 | x-a:\tc || abc   (fields one line each) *)
Definition sr_ex1 : wr_response := mk_wr_response wr_http11 [50;48;48]%N [79;75]%N
   [mk_wr_field [88;45;65]%N [SP] [97;32;98]%N [SP]; mk_wr_field sr_str_CL [SP] [51]%N []; mk_wr_field [120;45;97]%N [HT] [99]%N []].
Definition sr_ex1_body : bytes := [97;98;99]%N.
Definition sr_ex1_wire : bytes := wr_response_wire sr_ex1 ++ sr_ex1_body.
Example sr_ex1_premises :
  sr_response_ok sr_ex1 = true /\ sr_framed sg_ex_ok (sg_ex_cfg 18000) wr_ex_req sr_ex1 (sr_cuts_whole sr_ex1) sr_ex1_body = true /\
  sr_fits (sg_ex_cfg 18000) sr_ex1 (sr_cuts_whole sr_ex1) = true /\
  forallb (sr_f1_free sr_ex1_body true) (sg_cuts1 sr_ex1_wire ++ sg_cuts2 sr_ex1_wire) = true.
Proof. split; [vm_compute; reflexivity|]. split; [vm_compute; reflexivity|]. split; vm_compute; reflexivity. Qed.
(* the statement was checked by evaluation on every single cut, every double cut and the byte-by-byte delivery before it was proved;
   the response is reported complete, with its three fields merged into two headers and 3 body bytes *)
Example sr_ex1_single_cuts : map (sr_ex_run (sg_ex_cfg 18000)) (sg_cuts1 sr_ex1_wire) = repeat (sr_ex_run (sg_ex_cfg 18000) [sr_ex1_wire]) 59.
Proof. vm_compute. reflexivity. Qed.
Example sr_ex1_double_cuts : map (sr_ex_run (sg_ex_cfg 18000)) (sg_cuts2 sr_ex1_wire) = repeat (sr_ex_run (sg_ex_cfg 18000) [sr_ex1_wire]) 1711.
Proof. vm_compute. reflexivity. Qed.
Example sr_ex1_bytewise :
  sr_ex_run (sg_ex_cfg 18000) (sg_bytewise sr_ex1_wire) = sr_ex_run (sg_ex_cfg 18000) [sr_ex1_wire] /\
  sr_fp (sr_ex_run (sg_ex_cfg 18000) [sr_ex1_wire]) = [Some (c_HTP_RESPONSE_COMPLETE, 3%Z, 2%nat, 0%N)].
Proof. split; vm_compute; reflexivity. Qed.

(* (2) folded, with a continuation line that contains ':' under HTTP/1.1 (C02 finding K2), body starting with CR:
       HTTP/1.1 200 OK | X-A: a| b:c | Content-Length:| 3 || CR a b *)
Definition sr_ex2 : wr_response := mk_wr_response wr_http11 [50;48;48]%N [79;75]%N
   [mk_wr_field [88;45;65]%N [SP] [97;32;98;58;99]%N []; mk_wr_field sr_str_CL [SP] [51]%N []].
Definition sr_ex2_cuts : list (list bytes) := [[[SP; 97]; [SP; 98; 58; 99]]; [[]; [SP; 51]]]%N.
Definition sr_ex2_body : bytes := [CR; 97; 98]%N.
Definition sr_ex2_wire : bytes := sr_wire sr_ex2 sr_ex2_cuts sr_ex2_body.
Example sr_ex2_premises :
  sr_response_ok sr_ex2 = true /\ sr_cuts_ok sr_ex2 sr_ex2_cuts = true /\
  sr_framed sg_ex_ok (sg_ex_cfg 18000) wr_ex_req sr_ex2 sr_ex2_cuts sr_ex2_body = true /\ sr_fits (sg_ex_cfg 18000) sr_ex2 sr_ex2_cuts = true.
Proof. split; [vm_compute; reflexivity|]. split; [vm_compute; reflexivity|]. split; vm_compute; reflexivity. Qed.
(* K2 is a FOLDING dependence (three headers instead of two, HTP_INVALID_FOLDING), not a chunking dependence: no premise excludes it,
   and every admissible single cut gives the same transactions as the single-chunk delivery *)
Example sr_ex2_k2_not_chunking :
  sr_fp (sr_ex_run (sg_ex_cfg 18000) [sr_ex2_wire]) = [Some (c_HTP_RESPONSE_COMPLETE, 3%Z, 3%nat, c_HTP_INVALID_FOLDING)] /\
  sr_fp (sr_ex_run (sg_ex_cfg 18000) [sr_wire sr_ex2 (sr_cuts_whole sr_ex2) sr_ex2_body]) = [Some (c_HTP_RESPONSE_COMPLETE, 3%Z, 2%nat, 0%N)] /\
  map (sr_ex_run (sg_ex_cfg 18000)) (filter (sr_f1_free sr_ex2_body true) (sg_cuts1 sr_ex2_wire)) =
  repeat (sr_ex_run (sg_ex_cfg 18000) [sr_ex2_wire]) 54.
Proof. split; [vm_compute; reflexivity|]. split; vm_compute; reflexivity. Qed.
(* F1 is excluded EXACTLY: among all 1540 double cuts the 106 that sr_f1_free rejects are those whose transactions differ *)
Example sr_ex2_f1_exact :
  forallb (fun ch => if sr_f1_free sr_ex2_body true ch
                     then sr_fp_eqb (sr_fp (sr_ex_run (sg_ex_cfg 18000) ch)) (sr_fp (sr_ex_run (sg_ex_cfg 18000) [sr_ex2_wire]))
                     else negb (sr_fp_eqb (sr_fp (sr_ex_run (sg_ex_cfg 18000) ch)) (sr_fp (sr_ex_run (sg_ex_cfg 18000) [sr_ex2_wire]))))
          (sg_cuts2 sr_ex2_wire) = true /\
  length (sg_cuts2 sr_ex2_wire) = 1540%nat /\ length (filter (fun ch => negb (sr_f1_free sr_ex2_body true ch)) (sg_cuts2 sr_ex2_wire)) = 106%nat.
Proof. split; [vm_compute; reflexivity|]. split; vm_compute; reflexivity. Qed.
(* F1 refuted (the listed finding, on the wire grammar): cut between the CR and the LF of the empty line, body CR a b in the chunk of the LF *)
Example sr_f1_refuted :
  let w := sr_ex2_wire in
  sr_f1_free sr_ex2_body true [firstn 53 w; skipn 53 w] = false /\
  sr_fp (sr_ex_run (sg_ex_cfg 18000) [w]) = [Some (c_HTP_RESPONSE_COMPLETE, 3%Z, 3%nat, c_HTP_INVALID_FOLDING)] /\
  sr_fp_eqb (sr_fp (sr_ex_run (sg_ex_cfg 18000) [firstn 53 w; skipn 53 w])) (sr_fp (sr_ex_run (sg_ex_cfg 18000) [w])) = false.
Proof. split; [vm_compute; reflexivity|]. split; vm_compute; reflexivity. Qed.

(* (3) F2 -- a chunking dependence that was NOT listed: a bare CR in the status line.  After a CR, RES_LINE peeks at the next byte:
       not there yet (chunk end) -> HTP_DATA_BUFFER, and the next call goes on as if the CR were an ordinary byte; there and not LF ->
       the line ends at the bare CR.  "HTTP/1.0 200 O CR K" satisfies SWire.wr_wf_status_line; sr_response_ok requires a reason
       phrase without CR / LF.  One chunk: message "O" and a header without name; cut after the CR: message "O CR K", no such header *)
Definition sr_ex3 : wr_response := mk_wr_response wr_http10 [50;48;48]%N [79;CR;75]%N [mk_wr_field sr_str_CL [SP] [48]%N []].
Example sr_f2_refuted :
  let w := wr_response_wire sr_ex3 in
  wr_wf_status_line (wp_protocol sr_ex3) (wp_status sr_ex3) (wp_reason sr_ex3) = true /\ sr_response_ok sr_ex3 = false /\
  map (option_map (fun t => (t_response_message t, length (t_response_headers t), t_flags t))) (sr_ex_run (sg_ex_cfg 18000) [w]) =
    [Some (Some [79%N], 2%nat, N.lor c_HTP_FIELD_UNPARSEABLE c_HTP_FIELD_INVALID)] /\
  map (option_map (fun t => (t_response_message t, length (t_response_headers t), t_flags t))) (sr_ex_run (sg_ex_cfg 18000) [firstn 15 w; skipn 15 w]) =
    [Some (Some [79%N; CR; 75%N], 1%nat, 0%N)].
Proof. split; [vm_compute; reflexivity|]. split; [vm_compute; reflexivity|]. split; vm_compute; reflexivity. Qed.

(* (4) the limit premise: "every line with its CR LF fits field_limit_hard" is not enough.  HTTP/1.0 200 OK | Content-Length: 0 with the
       limit 19: both lines fit (17 and 19 bytes with CR LF), the single-chunk delivery completes; with the cut between the CR and the
       LF of the last header line the next chunk LF CR LF makes LF CR the line end (F1, harmless here) and the buffered line 20 bytes:
       htp_connp_res_buffer refuses it, the response stays in its headers *)
Definition sr_ex4 : wr_response := mk_wr_response wr_http10 [50;48;48]%N [79;75]%N [mk_wr_field sr_str_CL [SP] [48]%N []].
Example sr_limit_premise_needed :
  let w := wr_response_wire sr_ex4 in
  sr_fits (sg_ex_cfg 19) sr_ex4 (sr_cuts_whole sr_ex4) = false /\ sr_fits (sg_ex_cfg 20) sr_ex4 (sr_cuts_whole sr_ex4) = true /\
  forallb (fun l => (length (snd l) + 2 <=? 19)%nat) (sr_lines sr_ex4 (sr_cuts_whole sr_ex4)) = true /\
  map (option_map t_response_progress) (sr_ex_run (sg_ex_cfg 19) [w]) = [Some c_HTP_RESPONSE_COMPLETE] /\
  map (option_map t_response_progress) (sr_ex_run (sg_ex_cfg 19) [firstn 35 w; skipn 35 w]) = [Some c_HTP_RESPONSE_HEADERS] /\
  map (option_map t_response_progress) (sr_ex_run (sg_ex_cfg 20) [firstn 35 w; skipn 35 w]) = [Some c_HTP_RESPONSE_COMPLETE].
Proof. split; [vm_compute; reflexivity|]. split; [vm_compute; reflexivity|]. split; [vm_compute; reflexivity|]. split; [vm_compute; reflexivity|]. split; vm_compute; reflexivity. Qed.

(* (5) F2 in the header block (outside the wire grammar: field values have no CR): a bare CR in a response header line.  RES_HEADERS ends the
       line at a CR that is followed by neither LF nor CR when that byte is in the chunk, and treats the CR as data when the chunk ends with it.
       HTTP/1.0 200 OK | X: a CR b | Content-Length: 0 -- one chunk: "X: a" and a header without name; cut after the CR: X = "a CR b" *)
Example sr_f2_header_refuted :
  let w := wr_ser_status_line wr_http10 [50;48;48]%N [79;75]%N ++ [CR; LF] ++ [88;58;32;97;CR;98;CR;LF]%N ++ sr_str_CL ++ [58;32;48;CR;LF;CR;LF]%N in
  map (option_map (fun t => (t_response_progress t, map h_value (t_response_headers t), t_flags t))) (sr_ex_run (sg_ex_cfg 18000) [w]) =
    [Some (c_HTP_RESPONSE_COMPLETE, [[97%N]; [98%N]; [48%N]], N.lor c_HTP_FIELD_UNPARSEABLE c_HTP_FIELD_INVALID)] /\
  map (option_map (fun t => (t_response_progress t, map h_value (t_response_headers t), t_flags t))) (sr_ex_run (sg_ex_cfg 18000) [firstn 22 w; skipn 22 w]) =
    [Some (c_HTP_RESPONSE_COMPLETE, [[97%N; CR; 98%N]; [48%N]], 0%N)].
Proof. split; vm_compute; reflexivity. Qed.

(* ================= THEOREMS FOR RE-EXPORT (Properties_C03.v), response direction, Stages 1-4 =================
   sr_response_chunking            c_txs (OpOpen :: OpReqData request :: map OpResData chunks) = sr_final g (sr_after_hdr |body| (sr_tend (sr_treq cb g rq) r cuts))
                                   (every admissible chunking; ALL transaction fields, no mask needed)
   sr_response_chunking_obs        sg_obs (chunked run) = sg_obs [OpOpen; OpReqData request; OpResData (sr_wire r cuts body)]     (sg_obs / sg_mask = c03_obs / c03_mask)
   sr_response_two_chunkings       two admissible chunkings of the same response wire: equal c_txs
   sr_response_chunking_unfolded   the same as _obs for fields one line each: wire = wr_response_wire r ++ body                  (Stages 1, 2, 4)
   premises: wr_all_ok cb, g_allow_space_uri g = false, wr_request_ok rq = true,
             sr_response_ok r = true          status line of SWire with a reason phrase free of CR / LF (F2), fields wr_field_ok
             sr_cuts_ok r cuts = true         the folding (as PSegFold.sg_cuts_ok); sr_cuts_whole r = no folding
             sr_framed cb g rq r cuts body    executable: the model's RES_BODY_DETERMINE decision at the end of the header block is
                                              "Content-Length = |body|, no Transfer-Encoding, request neither HEAD nor CONNECT, not 100 Continue"
             sr_fits g r cuts = true          limits: status line; every wire line + what is pending; the last line one byte more (sr_limit_premise_needed)
             Forall (fun x => x <> []) chunks, concat chunks = sr_wire r cuts body
             sr_f1_free body has_hdr chunks   F1 excluded exactly (sr_ex2_f1_exact); vacuous unless the body starts with CR
   refutations by evaluation: sr_f1_refuted (F1 on the grammar), sr_f2_refuted / sr_f2_header_refuted (NEW: bare CR in the status line / in a header line), sr_limit_premise_needed,
   sr_ex2_k2_not_chunking (K2 is a folding dependence only).
   Also: PSegResReq.sr_after_request (the parser after OpOpen; OpReqData request), PSegResRun.sr_run_all_chunks (from any ready state). *)
Print Assumptions sr_response_chunking.
Print Assumptions sr_response_chunking_obs.
Print Assumptions sr_response_two_chunkings.
Print Assumptions sr_response_chunking_unfolded.
