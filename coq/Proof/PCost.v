(* C08: where work is linear and where it provably is not. *)
Require Import Htp.Model.Base Htp.Model.MBstr Htp.Model.MTable Htp.Model.MCost Htp.Proof.PBstr.

Definition flatn (names : list bytes) : list elem := flat_map (fun n => [EK n; EV 1]) names.

Lemma tscan_cost_le p l : cs_tscan_cost p l <= Nat.div2 (length l).
Proof.
  assert (H : forall n l, length l <= n -> cs_tscan_cost p l <= Nat.div2 (length l)).
  { induction n as [n IH] using lt_wf_ind. intros l0 Hl. destruct l0 as [|[k|v] [|[k2|v2] r]]; cbn [cs_tscan_cost]; try lia.
    destruct (p k); cbn [length Nat.div2]; [lia|]. apply le_n_S. apply (IH (length r)); cbn in Hl; lia. }
  apply (H (length l)). lia.
Qed.

(* a lookup that finds nothing examines every stored name *)
Lemma tscan_cost_absent p names : (forall n, In n names -> p n = false) ->
  cs_tscan_cost p (flatn names) = length names /\ tscan p (flatn names) = None.
Proof.
  induction names as [|n r IH]; intros H; [split; reflexivity|].
  cbn [flatn flat_map app cs_tscan_cost tscan length]. rewrite (H n (or_introl eq_refl)).
  destruct IH as [H1 H2]; [intros m Hm; apply H; right; exact Hm|]. unfold flatn in *. rewrite H1, H2. split; reflexivity.
Qed.

Definition pairwise_distinct (names : list bytes) : Prop :=
  forall i j a b, i < j -> nth_error names i = Some a -> nth_error names j = Some b -> cs_name_eq a b = false.

Lemma insert_all_distinct : forall names done acc,
  (forall a b, In a done -> In b names -> cs_name_eq a b = false) ->
  pairwise_distinct names ->
  snd (cs_insert_all names (flatn done) acc) =
    acc + length names * length done + (length names * (length names - 1)) / 2.
Proof.
  induction names as [|n r IH]; intros done acc Hd Hp.
  - cbn. lia.
  - cbn [cs_insert_all].
    destruct (tscan_cost_absent (fun k => cs_name_eq k n) done) as [Hc Hn].
    { intros m Hm. apply Hd; [exact Hm|left; reflexivity]. }
    rewrite Hc, Hn.
    replace (flatn done ++ [EK n; EV 1]) with (flatn (done ++ [n])) by (unfold flatn; rewrite flat_map_app; reflexivity).
    rewrite IH.
    + rewrite app_length. cbn [length].
      assert (E : S (length r) * (S (length r) - 1) = length r * (length r - 1) + 2 * length r) by (destruct (length r) as [|p]; [reflexivity|replace (S (S p) - 1) with (S p) by lia; replace (S p - 1) with p by lia; nia]).
      rewrite E. replace (2 * length r) with (length r * 2) by lia. rewrite Nat.div_add by lia. lia.
    + intros a b Ha Hb. apply in_app_or in Ha. destruct Ha as [Ha|[Ha|[]]].
      * apply Hd; [exact Ha|right; exact Hb].
      * subst a. apply In_nth_error in Hb. destruct Hb as [j Hj].
        apply (Hp 0 (S j) n b); [lia|reflexivity|exact Hj].
    + intros i j a b Hij Ha Hb. apply (Hp (S i) (S j) a b); [lia|exact Ha|exact Hb].
Qed.

(* k header lines with pairwise different names cost exactly k(k-1)/2 name comparisons: quadratic *)
Theorem distinct_headers_quadratic names : pairwise_distinct names ->
  cs_header_cost names = (length names * (length names - 1)) / 2.
Proof.
  intros H. unfold cs_header_cost. change (@nil elem) with (flatn []).
  rewrite insert_all_distinct; [cbn [length]; lia|intros a b []|exact H].
Qed.

(* hence no linear bound exists for this construct *)
Corollary distinct_headers_not_linear (mk : nat -> list bytes) :
  (forall k, length (mk k) = k /\ pairwise_distinct (mk k)) ->
  forall a b, exists k, cs_header_cost (mk k) > a * k + b.
Proof.
  intros H a b. exists (2 * a + 2 * b + 4). destruct (H (2 * a + 2 * b + 4)) as [Hl Hp].
  rewrite distinct_headers_quadratic by exact Hp. rewrite Hl.
  set (k := 2 * a + 2 * b + 4).
  assert (E : k * (k - 1) = 2 * ((a + b + 2) * (k - 1))) by (unfold k; lia).
  rewrite E. rewrite Nat.mul_comm, Nat.div_mul by lia. unfold k. nia.
Qed.

Lemma tscan_flat_hit p done : (exists n, In n done /\ p n = true) -> tscan p (flatn done) <> None.
Proof.
  induction done as [|m r IH]; intros [n [Hi Hp]]; [destruct Hi|].
  cbn [flatn flat_map app tscan]. destruct (p m) eqn:E; [discriminate|].
  apply IH. destruct Hi as [Hi|Hi]; [subst; congruence|exists n; auto].
Qed.

(* k lines all carrying one and the same name: the first lookup finds nothing, every later one hits the first slot *)
Theorem same_header_linear n k : cs_name_eq n n = true -> cs_header_cost (repeat n (S k)) = k.
Proof.
  intros Hn. unfold cs_header_cost. cbn [repeat cs_insert_all cs_tscan_cost tscan app].
  assert (H : forall k acc, snd (cs_insert_all (repeat n k) [EK n; EV 1] acc) = acc + k).
  { induction k0 as [|k0 IH]; intros acc; [cbn; lia|].
    cbn [repeat cs_insert_all cs_tscan_cost tscan]. rewrite Hn. rewrite IH. lia. }
  rewrite H. lia.
Qed.

(* chunk-length probing: a line of w control bytes followed by d hex digits in one chunk makes every digit
   after the buffered part reached 8 bytes rescan the w control bytes *)
Lemma probe_scan_ctl w rest n : forallb is_chunk_ctl (repeat 32%N w) = true ->
  cs_probe_scan (repeat 32%N w ++ rest) n = cs_probe_scan rest (n + w).
Proof.
  intros _. revert n. induction w as [|w IH]; intros n; cbn [repeat app cs_probe_scan]; [f_equal; lia|].
  change (is_chunk_ctl 32%N) with true. cbn iota. rewrite IH. f_equal. lia.
Qed.

Lemma repeat_snoc {A} (x : A) n : repeat x n ++ [x] = repeat x (S n).
Proof. induction n as [|n IH]; cbn; [reflexivity|]. f_equal. exact IH. Qed.

Lemma line_cost_digits w : 8 <= w -> forall d j pre_rev acc,
  rev pre_rev = repeat 32%N w ++ repeat 48%N j ->
  cs_line_cost pre_rev (repeat 48%N d) acc = acc + d * S w.
Proof.
  intros Hw. induction d as [|d IH]; intros j pre_rev acc Hp; [cbn; lia|].
  cbn [repeat cs_line_cost]. change ((48 =? 10)%N) with false. change (is_chunk_ctl 48%N) with false. cbn iota.
  cbn [rev]. rewrite Hp. rewrite <- app_assoc, repeat_snoc.
  unfold cs_probe. rewrite app_length, !repeat_length.
  assert (E : Nat.ltb (w + S j) 8 = false) by (apply Nat.ltb_ge; lia). rewrite E.
  rewrite probe_scan_ctl by (clear; induction w; [reflexivity|exact IHw]).
  cbn [repeat cs_probe_scan]. change (is_chunk_ctl 48%N) with false. change (is_hex_digit 48%N) with true. cbn iota.
  rewrite (IH (S j)); [lia|]. cbn [rev]. rewrite Hp, <- app_assoc, repeat_snoc. reflexivity.
Qed.

(* a chunk-length line of w >= 8 blanks followed by d digits, arriving in one piece, costs d * (w + 1) probe steps:
   quadratic when both grow *)
Theorem chunk_line_probe_quadratic w d : 8 <= w ->
  cs_chunk_line_cost (repeat 32%N w ++ repeat 48%N d) = d * S w.
Proof.
  intros Hw. unfold cs_chunk_line_cost.
  assert (H : forall k pre_rev, rev pre_rev = repeat 32%N (w - k) -> k <= w ->
              cs_line_cost pre_rev (repeat 32%N k ++ repeat 48%N d) 0 = d * S w).
  { induction k as [|k IH]; intros pre_rev Hp Hk.
    - cbn [repeat app]. rewrite (line_cost_digits w Hw d 0 pre_rev 0); [lia|]. rewrite Hp. cbn [repeat]. rewrite app_nil_r. f_equal. lia.
    - cbn [repeat app cs_line_cost]. change ((32 =? 10)%N) with false. change (is_chunk_ctl 32%N) with true. cbn iota.
      apply IH; [|lia]. cbn [rev]. rewrite Hp, repeat_snoc. f_equal. lia. }
  apply (H w []); [rewrite Nat.sub_diag; reflexivity|lia].
Qed.
