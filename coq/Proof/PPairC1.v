(* C04: responses are paired with their requests, in order, under pipelining -- base layer.
   The invariants of PSegRes.v (one transaction, number 0) generalised to "transaction number k of n": the response side works on
   the slot  jw_pre w ++ [Some t] ++ jw_post w  at position k = |jw_pre w|; the slots before it (responses already complete) and
   after it (requests not answered yet) are a frame.  Same shape of lemmas as PSegRes.v (pr_ instead of sr_), with the world w
   as an implicit parameter. *)
Require Import Htp.Model.Base Htp.Model.MBstr Htp.Model.MConnTypes Htp.Model.MTxCommon Htp.Model.MResLine Htp.Model.MTxRes.
Require Import Htp.Model.MReq Htp.Model.MRes Htp.Model.MConnp.
Require Import Htp.Spec.SWire Htp.Proof.PWire Htp.Proof.PWireHdr Htp.Proof.PWireBlock Htp.Proof.PWireConn Htp.Proof.PWireExch.
Require Import Htp.Proof.PWireRun Htp.Proof.PWirePres Htp.Proof.PWireGlue Htp.Proof.PSeg Htp.Proof.PSegRes.

(* the part of the transaction list that does not change while response number |jw_pre w| is parsed *)
(* the request side of the parser as the response side sees it: it is left alone *)
Definition pj_in := (Z * req_state * option req_state * cursor * option nat)%type.
(* (the chunk of the last request call is forgotten when the call returns: MConnp.forget_chunks) *)
Definition pj_qin (c : connp) : pj_in := (c_in_status c, c_in_state c, c_in_state_previous c, forget_one (c_in c), c_in_tx c).
Lemma pj_forget_idem k : forget_one (forget_one k) = forget_one k.
Proof. unfold forget_one. destruct (k_data k) eqn:E; [cbn; reflexivity|rewrite E; reflexivity]. Qed.
Lemma pj_qin_finish c : pj_qin (forget_chunks c <| c_events := [] |>) = pj_qin c.
Proof. unfold pj_qin. cbn [forget_chunks c_in_status c_in_state c_in_state_previous c_in c_in_tx set]. cbn. rewrite pj_forget_idem. reflexivity. Qed.
Definition pj_intx (i : pj_in) : option nat := snd i.
Lemma pj_qin_intx c i : pj_qin c = i -> c_in_tx c = pj_intx i.
Proof. intros E. rewrite <- E. reflexivity. Qed.
(* the stream status of the request side: htp_tx_state_response_complete_ex yields to a request side that waits (HTP_STREAM_DATA_OTHER) *)
Definition pj_instat (i : pj_in) : Z := fst (fst (fst (fst i))).
Lemma pj_qin_instat c i : pj_qin c = i -> c_in_status c = pj_instat i.
Proof. intros E. rewrite <- E. reflexivity. Qed.
Record pj_world := mk_pj_world { jw_pre : list (option tx); jw_post : list (option tx); jw_in : pj_in }.
Definition pj_k (w : pj_world) : nat := length (jw_pre w).
Definition pj_txs (w : pj_world) (t : tx) : list (option tx) := jw_pre w ++ Some t :: jw_post w.

(* ---- the invariants ---- *)
(* between two passes of the loop, transaction number pj_k w being answered: p = the bytes of the current line seen so far *)
Record pj_cinw (w : pj_world) (c : connp) (d : bytes) (rd : nat) (p : bytes) (hdr : option bytes) (st : res_state) (prev : option res_state)
              (rh : option nat) (t : tx) : Prop := mk_pj_cin {
  ji_status : sg_live (c_out_status c);
  ji_state : c_out_state c = st;
  ji_prev : c_out_state_previous c = prev;
  ji_data : k_data (c_out c) = Some d;
  ji_len : k_len (c_out c) = length d;
  ji_read : k_read (c_out c) = rd;
  ji_rd : (rd <= length d)%nat;
  ji_cons : (k_consume (c_out c) <= rd)%nat;
  ji_seen : sg_olist (k_buf (c_out c)) ++ firstn (rd - k_consume (c_out c)) (skipn (k_consume (c_out c)) d) = p;
  ji_hdr : k_header (c_out c) = hdr;
  ji_rh : k_receiver_hook (c_out c) = rh;
  ji_rcv : (k_receiver (c_out c) <= rd)%nat;
  ji_tx : c_out_tx c = Some (pj_k w);
  ji_txs : c_txs c = (pj_txs w t);
  ji_shift : c_txs_shifted c = 0%nat;
  ji_intx : (c_in_status c =? c_HTP_STREAM_DATA_OTHER)%Z = false;
  ji_other : c_out_data_other_at_tx_end c = false;
  ji_next : c_out_next_tx_index c = S (pj_k w);
  ji_in : pj_qin c = jw_in w }.

(* between two calls of htp_connp_res_data *)
Record pj_midw (w : pj_world) (c : connp) (p : bytes) (hdr : option bytes) (st : res_state) (rh : option nat) (t : tx) : Prop := mk_pj_mid {
  jm_status : sg_live (c_out_status c);
  jm_state : c_out_state c = st;
  jm_prev : c_out_state_previous c = Some st;
  jm_buf : sg_olist (k_buf (c_out c)) = p;
  jm_hdr : k_header (c_out c) = hdr;
  jm_rh : k_receiver_hook (c_out c) = rh;
  jm_tx : c_out_tx c = Some (pj_k w);
  jm_txs : c_txs c = (pj_txs w t);
  jm_shift : c_txs_shifted c = 0%nat;
  jm_intx : (c_in_status c =? c_HTP_STREAM_DATA_OTHER)%Z = false;
  jm_other : c_out_data_other_at_tx_end c = false;
  jm_next : c_out_next_tx_index c = S (pj_k w);
  jm_in : pj_qin c = jw_in w }.

Arguments ji_status {w}. Arguments ji_state {w}. Arguments ji_prev {w}. Arguments ji_data {w}. Arguments ji_len {w}. Arguments ji_read {w}.
Arguments ji_rd {w}. Arguments ji_cons {w}. Arguments ji_seen {w}. Arguments ji_hdr {w}. Arguments ji_rh {w}. Arguments ji_rcv {w}.
Arguments ji_tx {w}. Arguments ji_txs {w}. Arguments ji_shift {w}. Arguments ji_intx {w}. Arguments ji_other {w}. Arguments ji_next {w}. Arguments ji_in {w}.
Arguments jm_status {w}. Arguments jm_state {w}. Arguments jm_prev {w}. Arguments jm_buf {w}. Arguments jm_hdr {w}. Arguments jm_rh {w}.
Arguments jm_tx {w}. Arguments jm_txs {w}. Arguments jm_shift {w}. Arguments jm_intx {w}. Arguments jm_other {w}. Arguments jm_next {w}. Arguments jm_in {w}.

Lemma pj_nth_mid {A} (l1 : list A) x l2 : nth_error (l1 ++ x :: l2) (length l1) = Some x.
Proof. rewrite nth_error_app2 by lia. rewrite Nat.sub_diag. reflexivity. Qed.
Lemma pj_slot_at c w t : c_txs c = pj_txs w t -> c_txs_shifted c = 0%nat -> tx_slot c (pj_k w) = Some t.
Proof.
  intros H1 H2. unfold tx_slot. rewrite H2, H1. assert (E0 : (pj_k w <? 0)%nat = false) by reflexivity. rewrite E0.
  rewrite Nat.sub_0_r. unfold pj_txs, pj_k. rewrite pj_nth_mid. reflexivity.
Qed.
Lemma pj_tx_put_at c w t t' : c_txs c = pj_txs w t -> c_txs_shifted c = 0%nat -> tx_put c (pj_k w) t' = c <| c_txs := pj_txs w t' |>.
Proof.
  intros H1 H2. unfold tx_put. rewrite H2, H1. assert (E0 : (pj_k w <? 0)%nat = false) by reflexivity. rewrite E0, Nat.sub_0_r.
  assert (L : (pj_k w <? length (pj_txs w t))%nat = true) by (apply Nat.ltb_lt; unfold pj_txs, pj_k; rewrite app_length; cbn [length]; lia). rewrite L.
  unfold pj_txs, pj_k. rewrite wr_upd_app_exact. reflexivity.
Qed.

Section World.
Context {w : pj_world}.
Notation pj_cin := (pj_cinw w).
Notation pj_mid := (pj_midw w).

Lemma pj_cin_slot c d rd p hdr st prev rh t : pj_cin c d rd p hdr st prev rh t -> tx_slot c (pj_k w) = Some t.
Proof. intros H. apply pj_slot_at; [exact (ji_txs _ _ _ _ _ _ _ _ _ H)|exact (ji_shift _ _ _ _ _ _ _ _ _ H)]. Qed.

(* a parser that differs only outside the fields of the invariant *)
Lemma pj_cin_ext c c' d rd p hdr st prev rh t : pj_cin c d rd p hdr st prev rh t ->
  c_out_status c' = c_out_status c -> c_out_state c' = c_out_state c -> c_out_state_previous c' = c_out_state_previous c ->
  c_out c' = c_out c -> c_out_tx c' = c_out_tx c -> c_txs c' = c_txs c -> c_txs_shifted c' = c_txs_shifted c ->
  c_in_tx c' = c_in_tx c -> c_out_data_other_at_tx_end c' = c_out_data_other_at_tx_end c ->
  c_out_next_tx_index c' = c_out_next_tx_index c -> pj_qin c' = pj_qin c ->
  pj_cin c' d rd p hdr st prev rh t.
Proof.
  intros [A1 A2 A3 A4 A5 A6 A7 A8 A9 A10 A11 A12 A13 A14 A15 A16 A17 A18 A19] E1 E2 E3 E4 E5 E6 E7 E8 E9 E10 E11.
  pose proof (f_equal pj_instat E11) as Es. unfold pj_instat, pj_qin in Es. cbn [fst] in Es.
  constructor; rewrite ?E1, ?E2, ?E3, ?E4, ?E5, ?E6, ?E7, ?E8, ?E9, ?E10, ?E11, ?Es; assumption.
Qed.
Lemma pj_cin_txs c d rd p hdr st prev rh t t' : pj_cin c d rd p hdr st prev rh t -> pj_cin (c <| c_txs := pj_txs w t' |>) d rd p hdr st prev rh t'.
Proof. intros [A1 A2 A3 A4 A5 A6 A7 A8 A9 A10 A11 A12 A13 A14 A15 A16 A17 A18 A19]. constructor; try assumption; reflexivity. Qed.
Lemma pj_cin_state c d rd p hdr st prev rh t st' : pj_cin c d rd p hdr st prev rh t -> pj_cin (rs_set_state st' c) d rd p hdr st' prev rh t.
Proof. intros [A1 A2 A3 A4 A5 A6 A7 A8 A9 A10 A11 A12 A13 A14 A15 A16 A17 A18 A19]. constructor; try assumption; reflexivity. Qed.
Lemma pj_cin_prev c d rd p hdr st prev rh t pv : pj_cin c d rd p hdr st prev rh t -> pj_cin (c <| c_out_state_previous := pv |>) d rd p hdr st pv rh t.
Proof. intros [A1 A2 A3 A4 A5 A6 A7 A8 A9 A10 A11 A12 A13 A14 A15 A16 A17 A18 A19]. constructor; try assumption; reflexivity. Qed.
Lemma pj_cin_header c d rd p hdr st prev rh t h : pj_cin c d rd p hdr st prev rh t ->
  pj_cin (rs_set_out (fun k => k <| k_header := h |>) c) d rd p h st prev rh t.
Proof. intros [A1 A2 A3 A4 A5 A6 A7 A8 A9 A10 A11 A12 A13 A14 A15 A16 A17 A18 A19]. constructor; try assumption; reflexivity. Qed.
Lemma pj_cin_next c d rd p hdr st prev rh t nb : pj_cin c d rd p hdr st prev rh t ->
  pj_cin (rs_set_out (fun k => k <| k_next_byte := nb |>) c) d rd p hdr st prev rh t.
Proof. intros [A1 A2 A3 A4 A5 A6 A7 A8 A9 A10 A11 A12 A13 A14 A15 A16 A17 A18 A19]. constructor; try assumption; reflexivity. Qed.
Lemma pj_cin_fault c d rd p hdr st prev rh t : pj_cin c d rd p hdr st prev rh t -> pj_cin (rs_fault c) d rd p hdr st prev rh t.
Proof. intros H. apply (pj_cin_ext c); try reflexivity. exact H. Qed.
(* htp_connp_res_clear_buffer *)
Lemma pj_cin_clear c d rd p hdr st prev rh t : pj_cin c d rd p hdr st prev rh t -> pj_cin (rs_clear_buffer c) d rd [] hdr st prev rh t.
Proof.
  intros [A1 A2 A3 A4 A5 A6 A7 A8 A9 A10 A11 A12 A13 A14 A15 A16 A17 A18 A19]. constructor; try assumption; try reflexivity.
  - cbn [rs_clear_buffer rs_set_out c_out set k_consume k_read]. cbn. rewrite A6. lia.
  - cbn [rs_clear_buffer rs_set_out c_out set k_consume k_read k_buf sg_olist]. cbn. rewrite A6, Nat.sub_diag. reflexivity.
Qed.
(* a callback that answered HTP_OK *)
Lemma pj_cin_hook c d rd p hdr st prev rh t h i data last : pj_cin c d rd p hdr st prev rh t -> pj_cin (wr_hook_ev h i data last c) d rd p hdr st prev rh t.
Proof. intros H. apply (pj_cin_ext c); try reflexivity. exact H. Qed.

(* one byte copied (OUT_COPY_BYTE) *)
Lemma pj_cin_adv c d rd p hdr st prev rh t b : pj_cin c d rd p hdr st prev rh t -> nth_error d rd = Some b ->
  pj_cin (rs_set_out (wr_kadv b) c) d (S rd) (p ++ [b]) hdr st prev rh t.
Proof.
  intros [A1 A2 A3 A4 A5 A6 A7 A8 A9 A10 A11 A12 A13 A14 A15 A16 A17 A18 A19] Hn.
  assert (L : (rd < length d)%nat) by (apply nth_error_Some; rewrite Hn; discriminate).
  constructor; try assumption; try reflexivity.
  - cbn. rewrite A6. reflexivity.
  - change (k_consume (c_out (rs_set_out (wr_kadv b) c))) with (k_consume (c_out c)). lia.
  - change (k_consume (c_out (rs_set_out (wr_kadv b) c))) with (k_consume (c_out c)). change (k_buf (c_out (rs_set_out (wr_kadv b) c))) with (k_buf (c_out c)).
    rewrite (sg_slice_S d _ rd b A8 Hn), app_assoc, A9. reflexivity.
  - change (k_receiver (c_out (rs_set_out (wr_kadv b) c))) with (k_receiver (c_out c)). lia.
Qed.


End World.

Section Prim.
Variable cb : cb_oracle.
Variable g : cfg.
Hypothesis Hcb : wr_all_ok cb.
Context {w : pj_world}.
Notation pj_cin := (pj_cinw w).
Notation pj_mid := (pj_midw w).

(* transaction updates through connp->out_tx *)
Lemma pj_tx_upd0 c d rd p hdr st prev rh t f : pj_cin c d rd p hdr st prev rh t -> tx_upd c (pj_k w) f = c <| c_txs := (pj_txs w (f t)) |>.
Proof.
  intros H. rewrite (wr_tx_upd_ok c (pj_k w) t f (pj_cin_slot _ _ _ _ _ _ _ _ _ H)).
  apply (pj_tx_put_at c w t _ (ji_txs _ _ _ _ _ _ _ _ _ H) (ji_shift _ _ _ _ _ _ _ _ _ H)).
Qed.
Lemma pj_otx c d rd p hdr st prev rh t f : pj_cin c d rd p hdr st prev rh t -> rs_otx f c = c <| c_txs := (pj_txs w (f t)) |>.
Proof. intros H. unfold rs_otx. rewrite (ji_tx _ _ _ _ _ _ _ _ _ H). apply (pj_tx_upd0 c d rd p hdr st prev rh t f H). Qed.
Lemma pj_rs_tx c d rd p hdr st prev rh t : pj_cin c d rd p hdr st prev rh t -> rs_tx c = t.
Proof. intros H. unfold rs_tx, tx_get. rewrite (ji_tx _ _ _ _ _ _ _ _ _ H), (pj_cin_slot _ _ _ _ _ _ _ _ _ H). reflexivity. Qed.
Lemma pj_tx_get c d rd p hdr st prev rh t : pj_cin c d rd p hdr st prev rh t -> tx_get c (pj_k w) = t.
Proof. intros H. unfold tx_get. rewrite (pj_cin_slot _ _ _ _ _ _ _ _ _ H). reflexivity. Qed.

(* htp_connp_res_buffer: what is in the chunk between consume and read goes to out_buf; the seen bytes are now all there *)
Lemma pj_res_buffer c d rd p hdr st prev rh t : pj_cin c d rd p hdr st prev rh t ->
  (length p + length (sg_olist hdr) <= g_field_limit_hard g)%nat ->
  exists c', rs_res_buffer g c = (ST_OK, c') /\ pj_cin c' d rd p hdr st prev rh t /\ k_buf (c_out c') = Some p /\ k_consume (c_out c') = rd.
Proof.
  intros H Hlim. pose proof H as [A1 A2 A3 A4 A5 A6 A7 A8 A9 A10 A11 A12 A13 A14 A15 A16 A17 A18 A19].
  assert (E1 : (rd <? k_consume (c_out c))%nat = false) by (apply Nat.ltb_ge; lia).
  unfold rs_res_buffer. rewrite A4. cbv zeta. rewrite A6, E1, A13.
  unfold rs_sub. pose proof (sg_slice_length d _ rd A8 A7) as SL. rewrite SL, A10.
  assert (Lp : length p = (length (sg_olist (k_buf (c_out c))) + (rd - k_consume (c_out c)))%nat) by (rewrite <- A9, app_length, SL; reflexivity).
  assert (E3 : (g_field_limit_hard g <? match k_buf (c_out c) with Some b => length b | None => 0 end + (rd - k_consume (c_out c)) +
                                         match hdr with Some h => length h | None => 0 end)%nat = false).
  { apply Nat.ltb_ge. unfold sg_olist in *. destruct (k_buf (c_out c)), hdr; cbn [length] in *; lia. }
  rewrite E3.
  assert (B : match k_buf (c_out c) with Some b => b ++ firstn (rd - k_consume (c_out c)) (skipn (k_consume (c_out c)) d)
              | None => firstn (rd - k_consume (c_out c)) (skipn (k_consume (c_out c)) d) end = p).
  { rewrite <- A9. destruct (k_buf (c_out c)); reflexivity. }
  rewrite B. eexists. split; [reflexivity|]. split; [|split].
  - constructor; try assumption; try reflexivity.
    + cbn. rewrite A6. lia.
    + cbn [rs_set_out c_out set k_consume k_read k_buf sg_olist]. cbn. rewrite A6, Nat.sub_diag. cbn [firstn]. apply app_nil_r.
  - reflexivity.
  - cbn. exact A6.
Qed.

(* htp_connp_res_consolidate_data hands over exactly the seen bytes (as a non-NULL pointer) *)
Lemma pj_consolidate c d rd p hdr st prev rh t : pj_cin c d rd p hdr st prev rh t ->
  (length p + length (sg_olist hdr) <= g_field_limit_hard g)%nat ->
  exists c', rs_consolidate g c = (Some (Some p), c') /\ pj_cin c' d rd p hdr st prev rh t.
Proof.
  intros H Hlim. pose proof H as [A1 A2 A3 A4 A5 A6 A7 A8 A9 A10 A11 A12 A13 A14 A15 A16 A17 A18 A19].
  unfold rs_consolidate. destruct (k_buf (c_out c)) as [b|] eqn:Eb.
  - destruct (pj_res_buffer c d rd p hdr st prev rh t H Hlim) as (c' & E & H' & B & _). rewrite E.
    exists c'. split; [rewrite B; reflexivity|exact H'].
  - rewrite A4, A6. assert (E1 : (rd <? k_consume (c_out c))%nat = false) by (apply Nat.ltb_ge; lia). rewrite E1.
    exists c. split; [|exact H]. cbn [sg_olist app] in A9. unfold rs_sub. rewrite A9. reflexivity.
Qed.

(* htp_connp_res_receiver_send_data: the raw bytes go to the receiver hook, which answers HTP_OK *)
Lemma pj_send_data c d rd p hdr st prev rh t last : pj_cin c d rd p hdr st prev rh t ->
  exists c', res_receiver_send_data cb last c = (ST_OK, c') /\ pj_cin c' d rd p hdr st prev rh t /\ c_out_body_data_left c' = c_out_body_data_left c.
Proof.
  intros H. pose proof H as [A1 A2 A3 A4 A5 A6 A7 A8 A9 A10 A11 A12 A13 A14 A15 A16 A17 A18 A19].
  unfold res_receiver_send_data. rewrite A11. destruct rh as [h|]; [|exists c; split; [reflexivity|split; [exact H|reflexivity]]].
  assert (E1 : (k_read (c_out c) <? k_receiver (c_out c))%nat = false) by (apply Nat.ltb_ge; rewrite A6; exact A12).
  assert (E2 : (match cur_slice (c_out c) (k_receiver (c_out c)) (k_read (c_out c)) with Some s => length s | None => 0%nat end
                <? k_read (c_out c) - k_receiver (c_out c))%nat = false).
  { apply Nat.ltb_ge. unfold cur_slice. rewrite A4, A6, (sg_slice_length d _ rd A12 A7). lia. }
  cbv zeta. rewrite E1, E2, A4, A13.
  unfold run_data_hook. rewrite (wr_run_hook_ex cb Hcb). cbv iota.
  eexists. split; [reflexivity|]. split; [|reflexivity].
  match goal with |- pj_cin (rs_set_out _ ?x) _ _ _ _ _ _ _ _ => set (c1 := x) end.
  assert (H1 : pj_cin c1 d rd p hdr st prev (Some h) t) by (unfold c1; apply pj_cin_hook; exact H).
  clearbody c1. destruct H1 as [B1 B2 B3 B4 B5 B6 B7 B8 B9 B10 B11 B12 B13 B14 B15 B16 B17 B18 B19].
  constructor; try assumption; try reflexivity. cbn. rewrite B6. lia.
Qed.

(* the HTP_DATA_BUFFER exit of the loop *)
Lemma pj_exit_buffer c d p hdr st rh t : pj_cin c d (length d) p hdr st (Some st) rh t ->
  (length p + length (sg_olist hdr) <= g_field_limit_hard g)%nat ->
  exists c', rs_res_exit cb g ST_DATA_BUFFER c = (c', c_HTP_STREAM_DATA) /\ pj_mid c' p hdr st rh t.
Proof.
  intros H Hlim. unfold rs_res_exit.
  destruct (pj_send_data c d _ p hdr st _ rh t false H) as (c1 & E1 & H1 & _). rewrite E1. cbn [snd].
  destruct (pj_res_buffer c1 d _ p hdr st _ rh t H1 Hlim) as (c2 & E2 & H2 & B2 & _). rewrite E2.
  eexists. split; [reflexivity|].
  destruct H2 as [A1 A2 A3 A4 A5 A6 A7 A8 A9 A10 A11 A12 A13 A14 A15 A16 A17 A18 A19].
  constructor; try assumption; try reflexivity.
  - right. reflexivity.
  - cbn. rewrite B2. reflexivity.
Qed.

(* htp_res_handle_state_change, for a new state other than RES_HEADERS *)
Lemma pj_state_change c d rd p hdr st prev rh t : pj_cin c d rd p hdr st prev rh t -> st <> RES_HEADERS ->
  rs_handle_state_change cb c = (ST_OK, c <| c_out_state_previous := Some st |>) \/
  (rs_handle_state_change cb c = (ST_OK, c) /\ prev = Some st).
Proof.
  intros [A1 A2 A3 A4 A5 A6 A7 A8 A9 A10 A11 A12 A13 A14 A15 A16 A17 A18 A19] Hne.
  unfold rs_handle_state_change. rewrite A3, A2.
  destruct (match prev with Some s => res_state_eqb s st | None => false end) eqn:E.
  - right. split; [reflexivity|]. destruct prev as [s|]; [|discriminate]. destruct s, st; try discriminate; reflexivity.
  - left. assert (E2 : res_state_eqb st RES_HEADERS = false) by (destruct st; try reflexivity; contradiction). rewrite E2, A2. reflexivity.
Qed.

(* a pass whose state function returned HTP_OK in a state other than RES_HEADERS goes round again *)
Lemma pj_iter_ok c c1 d rd p hdr st prev rh t :
  rs_state_fn cb g (c_out_state c) c = (ST_OK, c1) -> pj_cin c1 d rd p hdr st prev rh t -> st <> RES_HEADERS ->
  exists c', sr_iter cb g c = inr c' /\ pj_cin c' d rd p hdr st (Some st) rh t.
Proof.
  intros E H Hne. unfold sr_iter. rewrite E. rewrite (sg_live_tunnel _ (ji_status _ _ _ _ _ _ _ _ _ H)).
  destruct (pj_state_change c1 d rd p hdr st prev rh t H Hne) as [E2|[E2 Ep]]; rewrite E2.
  - eexists. split; [reflexivity|]. eapply pj_cin_prev. exact H.
  - eexists. split; [reflexivity|]. rewrite <- Ep. exact H.
Qed.

(* entering htp_connp_res_data with a non-empty chunk *)
Lemma pj_enter c p hdr st rh t x : pj_mid c p hdr st rh t -> x <> [] ->
  exists c1, connp_res_data cb g (Some x) (length x) c = rs_res_loop cb g (rs_res_fuel (length x)) false c1 /\
             pj_cin c1 x 0 p hdr st (Some st) rh t.
Proof.
  intros [A1 A2 A3 A4 A5 A6 A7 A8 A9 A10 A11 A12 A13] Hne. unfold connp_res_data.
  rewrite (sg_live_stop _ A1), (sg_live_error _ A1), A7.
  assert (L0 : (length x =? 0)%nat = false) by (destruct x; [contradiction|reflexivity]). rewrite L0. cbn [andb].
  match goal with |- context [(c_out_status ?y =? c_HTP_STREAM_TUNNEL)%Z] => change (c_out_status y) with (c_out_status c) end.
  rewrite (sg_live_tunnel _ A1).
  eexists. split; [reflexivity|].
  constructor; try assumption; try reflexivity; cbn; try lia.
  rewrite app_nil_r; exact A4.
Qed.

(* the same, keeping track of out_body_data_left *)
Lemma pj_iter_ok_left c c1 d rd p hdr st prev rh t :
  rs_state_fn cb g (c_out_state c) c = (ST_OK, c1) -> pj_cin c1 d rd p hdr st prev rh t -> st <> RES_HEADERS ->
  exists c', sr_iter cb g c = inr c' /\ pj_cin c' d rd p hdr st (Some st) rh t /\ c_out_body_data_left c' = c_out_body_data_left c1.
Proof.
  intros E H Hne. unfold sr_iter. rewrite E. rewrite (sg_live_tunnel _ (ji_status _ _ _ _ _ _ _ _ _ H)).
  destruct (pj_state_change c1 d rd p hdr st prev rh t H Hne) as [E2|[E2 Ep]]; rewrite E2.
  - eexists. split; [reflexivity|]. split; [eapply pj_cin_prev; exact H|reflexivity].
  - eexists. split; [reflexivity|]. split; [rewrite <- Ep; exact H|reflexivity].
Qed.
Lemma pj_enter_left c p hdr st rh t x : pj_mid c p hdr st rh t -> x <> [] ->
  exists c1, connp_res_data cb g (Some x) (length x) c = rs_res_loop cb g (rs_res_fuel (length x)) false c1 /\
             pj_cin c1 x 0 p hdr st (Some st) rh t /\ c_out_body_data_left c1 = c_out_body_data_left c.
Proof.
  intros [A1 A2 A3 A4 A5 A6 A7 A8 A9 A10 A11 A12 A13] Hne. unfold connp_res_data.
  rewrite (sg_live_stop _ A1), (sg_live_error _ A1), A7.
  assert (L0 : (length x =? 0)%nat = false) by (destruct x; [contradiction|reflexivity]). rewrite L0. cbn [andb].
  match goal with |- context [(c_out_status ?y =? c_HTP_STREAM_TUNNEL)%Z] => change (c_out_status y) with (c_out_status c) end.
  rewrite (sg_live_tunnel _ A1).
  eexists. split; [reflexivity|]. split; [|reflexivity].
  constructor; try assumption; try reflexivity; cbn; try lia.
  rewrite app_nil_r; exact A4.
Qed.
End Prim.
