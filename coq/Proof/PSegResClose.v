(* C03, response direction, close-delimited response bodies: a response without Content-Length and without Transfer-Encoding
   (status with a body allowed) whose body is every byte up to htp_connp_close.  After a grammar request, the response head
   (status line, header fields possibly folded, empty line) and the body are delivered in ANY segmentation, then OpClose:
   the transaction list is the one of the one-chunk delivery + OpClose (ALL fields); response_entity_len =
   response_message_len = |body|, progress COMPLETE after the close.  RES_BODY_DETERMINE with this framing, one pass of
   RES_BODY_IDENTITY_STREAM_CLOSE per call, the call htp_connp_close makes on a closed stream (request side: REQ_IDLE with
   nothing to do; response side: RES_BODY_IDENTITY_STREAM_CLOSE -> RES_FINALIZE -> htp_tx_state_response_complete_ex -> RES_IDLE). *)
Require Import Htp.Model.Base Htp.Model.MBstr Htp.Model.MConnTypes Htp.Model.MTxCommon Htp.Model.MResLine Htp.Model.MTxRes.
Require Import Htp.Model.MReq Htp.Model.MRes Htp.Model.MConnp.
Require Import Htp.Spec.SWire Htp.Proof.PWire Htp.Proof.PWireHdr Htp.Proof.PWireBlock Htp.Proof.PWireConn Htp.Proof.PWireExch.
Require Import Htp.Proof.PWireRun Htp.Proof.PWirePres Htp.Proof.PWireGlue Htp.Proof.PSeg Htp.Proof.PSegLine Htp.Proof.PSegHdr Htp.Proof.PSegGen Htp.Proof.PSegRun.
Require Import Htp.Proof.PSegFold Htp.Proof.PSegRes Htp.Proof.PSegResLine Htp.Proof.PSegResHdr Htp.Proof.PSegResGen Htp.Proof.PSegResRun Htp.Proof.PSegResReq Htp.Proof.PSegResThm.
Require Import Htp.Proof.PSegResChGen.

(* ---- the framing decision of htp_connp_RES_BODY_DETERMINE: identity body up to the close ---- *)
Definition sr_frame_close_ok (t : tx) : bool :=
  negb (t_request_method_number t =? c_HTP_M_CONNECT)%Z && negb (t_request_method_number t =? c_HTP_M_HEAD)%Z &&
  match rs_hdr_get_c (t_response_headers t) rs_str_transfer_encoding with Some _ => false | None => true end &&
  match rs_hdr_get_c (t_response_headers t) rs_str_content_length with Some _ => false | None => true end &&
  negb (((100 <=? t_response_status_number t)%Z && (t_response_status_number t <=? 199)%Z) || (t_response_status_number t =? 204)%Z
        || (t_response_status_number t =? 304)%Z) &&
  match rs_hdr_get_c (t_response_headers t) rs_str_content_type with
  | Some h => (index_of_mem_nocase (h_value h) rs_str_multipart_byteranges =? -1)%Z
  | None => true
  end.
Definition sr_det_tx_close (t : tx) : tx :=
  let t1 := match rs_hdr_get_c (t_response_headers t) rs_str_content_type with
            | Some hc => t <| t_response_content_type := Some (rs_content_type (h_value hc)) |>
            | None => t
            end in
  t1 <| t_response_transfer_coding := c_HTP_CODING_IDENTITY |> <| t_response_progress := c_HTP_RESPONSE_BODY |>.
Definition sr_hdrs_tx_close (t : tx) : tx := (sr_det_tx_close t) <| t_res_cep := c_HTP_COMPRESSION_NONE |>.

Section Close.
Variable cb : cb_oracle.
Variable g : cfg.
Hypothesis Hcb : wr_all_ok cb.

Lemma sr_pass_determine_close c d rd t : sr_cin c d rd [] None RES_BODY_DETERMINE (Some RES_BODY_DETERMINE) (Some H_RESPONSE_HEADER_DATA) t ->
  sr_frame_close_ok t = true ->
  exists c', sr_iter cb g c = inr c' /\
    sr_cin c' d rd [] None RES_BODY_IDENTITY_STREAM_CLOSE (Some RES_BODY_IDENTITY_STREAM_CLOSE) None (sr_hdrs_tx_close t).
Proof.
  intros H Hf. unfold sr_frame_close_ok in Hf. apply andb_prop in Hf. destruct Hf as [Hf Hct]. apply andb_prop in Hf. destruct Hf as [Hf Hsn].
  apply andb_prop in Hf. destruct Hf as [Hf Hcl]. apply andb_prop in Hf. destruct Hf as [Hf Hte].
  apply andb_prop in Hf. destruct Hf as [Hm Hhd]. apply negb_true_iff in Hm. apply negb_true_iff in Hhd. apply negb_true_iff in Hsn.
  assert (Ef : rs_state_fn cb g (c_out_state c) c = rs_RES_BODY_DETERMINE cb c) by (rewrite (ri_state _ _ _ _ _ _ _ _ _ H); reflexivity).
  destruct (rs_hdr_get_c (t_response_headers t) rs_str_transfer_encoding) as [hte|] eqn:Ete; [discriminate|].
  destruct (rs_hdr_get_c (t_response_headers t) rs_str_content_length) as [hcl|] eqn:Ecl; [discriminate|].
  assert (E101 : (t_response_status_number t =? 101)%Z = false).
  { destruct (t_response_status_number t =? 101)%Z eqn:E; [|reflexivity]. apply Z.eqb_eq in E. rewrite E in Hsn. discriminate. }
  assert (E100 : (t_response_status_number t =? 100)%Z = false).
  { destruct (t_response_status_number t =? 100)%Z eqn:E; [|reflexivity]. apply Z.eqb_eq in E. rewrite E in Hsn. discriminate. }
  unfold rs_RES_BODY_DETERMINE in Ef. rewrite (sr_rs_tx c d rd _ _ _ _ _ t H) in Ef. cbv zeta in Ef. rewrite Hm, Hhd, Ete, Ecl, E101, E100 in Ef. cbn [andb] in Ef.
  set (cE := if (400 <=? t_response_status_number t)%Z && (t_response_status_number t <=? 499)%Z && (0 <? c_in_content_length c)%Z &&
                (c_in_body_data_left c =? c_in_content_length c)%Z
             then match rs_hdr_get_c (t_request_headers t) rs_str_expect with
                  | Some e => if (cmp_mem_nocase (h_value e) rs_str_100_continue =? 0)%Z then c <| c_in_state := REQ_FINALIZE |> else c
                  | None => c
                  end
             else c) in Ef.
  assert (HE : sr_cin cE d rd [] None RES_BODY_DETERMINE (Some RES_BODY_DETERMINE) (Some H_RESPONSE_HEADER_DATA) t).
  { unfold cE.
    repeat match goal with
    | |- sr_cin (if ?b then _ else _) _ _ _ _ _ _ _ _ => destruct b
    | |- sr_cin (match ?x with _ => _ end) _ _ _ _ _ _ _ _ => destruct x
    end; try exact H; apply (sr_cin_ext c); try reflexivity; exact H. }
  clearbody cE.
  rewrite Hsn in Ef.
  rewrite (ri_state _ _ _ _ _ _ _ _ _ HE) in Ef. cbn [res_state_eqb negb] in Ef.
  set (t1 := match rs_hdr_get_c (t_response_headers t) rs_str_content_type with
             | Some hc => t <| t_response_content_type := Some (rs_content_type (h_value hc)) |>
             | None => t
             end).
  assert (HT : exists cT, match rs_hdr_get_c (t_response_headers t) rs_str_content_type with
                          | Some h0 => rs_otx (fun t => t <| t_response_content_type := Some (rs_content_type (h_value h0)) |>) cE
                          | None => cE
                          end = cT /\ sr_cin cT d rd [] None RES_BODY_DETERMINE (Some RES_BODY_DETERMINE) (Some H_RESPONSE_HEADER_DATA) t1).
  { unfold t1. destruct (rs_hdr_get_c (t_response_headers t) rs_str_content_type) as [hc|].
    - rewrite (sr_otx cE d rd _ _ _ _ _ t _ HE). eexists. split; [reflexivity|]. eapply sr_cin_txs. exact HE.
    - exists cE. split; [reflexivity|exact HE]. }
  destruct HT as (cT & ET & HT). rewrite ET in Ef. clear ET.
  assert (Ebr : match rs_hdr_get_c (t_response_headers t) rs_str_content_type with
                | Some h => negb (index_of_mem_nocase (h_value h) rs_str_multipart_byteranges =? -1)%Z
                | None => false
                end = false).
  { destruct (rs_hdr_get_c (t_response_headers t) rs_str_content_type) as [hc|]; [rewrite Hct; reflexivity|reflexivity]. }
  rewrite Ebr in Ef.
  set (c2 := rs_set_state RES_BODY_IDENTITY_STREAM_CLOSE cT) in Ef.
  assert (H2 : sr_cin c2 d rd [] None RES_BODY_IDENTITY_STREAM_CLOSE (Some RES_BODY_DETERMINE) (Some H_RESPONSE_HEADER_DATA) t1) by (eapply sr_cin_state; exact HT).
  rewrite (sr_otx c2 d rd _ _ _ _ _ t1 _ H2) in Ef.
  match type of Ef with context [rs_response_headers cb ((c2 <| c_txs := [Some ?tt] |>) <| c_out_body_data_left := _ |>)] => set (t3 := tt) in * end.
  assert (H4 : sr_cin ((c2 <| c_txs := [Some t3] |>) <| c_out_body_data_left := (-1)%Z |>) d rd [] None RES_BODY_IDENTITY_STREAM_CLOSE (Some RES_BODY_DETERMINE) (Some H_RESPONSE_HEADER_DATA) t3).
  { apply (sr_cin_ext (c2 <| c_txs := [Some t3] |>)); try reflexivity. eapply sr_cin_txs. exact H2. }
  destruct (sr_response_headers cb Hcb _ d rd _ _ t3 H4) as (c5 & E5 & H5 & _). rewrite E5 in Ef.
  destruct (sr_iter_ok cb g c c5 d rd _ _ _ _ _ _ Ef H5) as (c6 & E6 & H6); [discriminate|].
  exists c6. split; [exact E6|exact H6].
Qed.

(* ---- one pass of RES_BODY_IDENTITY_STREAM_CLOSE: everything that is left in the chunk is delivered ---- *)
Lemma sr_close_pass c d rd t k : sr_cin c d rd [] None RES_BODY_IDENTITY_STREAM_CLOSE (Some RES_BODY_IDENTITY_STREAM_CLOSE) None (sr_body_add' k t) ->
  t_res_cep t = c_HTP_COMPRESSION_NONE ->
  exists c', sr_iter cb g c = inl (rs_set_out_status c_HTP_STREAM_DATA c', c_HTP_STREAM_DATA) /\
    sr_mid (rs_set_out_status c_HTP_STREAM_DATA c') [] None RES_BODY_IDENTITY_STREAM_CLOSE None (sr_body_add' (k + (length d - rd)) t).
Proof.
  intros H Hcep. pose proof H as [A1 A2 A3 A4 A5 A6 A7 A8 A9 A10 A11 A12 A13 A14 A15 A16 A17].
  assert (Ef : rs_state_fn cb g (c_out_state c) c = rs_RES_BODY_IDENTITY_STREAM_CLOSE cb c) by (rewrite A2; reflexivity).
  unfold rs_RES_BODY_IDENTITY_STREAM_CLOSE in Ef. rewrite A5, A6 in Ef.
  assert (E1 : (length d <? rd)%nat = false) by (apply Nat.ltb_ge; lia). rewrite E1 in Ef.
  destruct (length d - rd)%nat as [|j'] eqn:Ej.
  - cbn [Nat.eqb] in Ef. unfold rs_closed in Ef. rewrite (sg_live_closed _ A1) in Ef.
    exists c. split; [unfold sr_iter; rewrite Ef; destruct (sr_exit_data cb g c d rd None _ _ H) as [E _]; rewrite E; reflexivity|].
    rewrite Nat.add_0_r. apply (sr_exit_data cb g c d rd None _ _ H).
  - rewrite <- Ej in *. set (j := (length d - rd)%nat) in *.
    assert (Ej0 : (j =? 0)%nat = false) by (apply Nat.eqb_neq; lia). rewrite Ej0 in Ef.
    unfold rs_body_slice in Ef. rewrite A4 in Ef.
    assert (Hcep' : t_res_cep (sr_body_add' k t) = c_HTP_COMPRESSION_NONE) by (destruct (sr_body_add'_facts k t) as (X & _); rewrite X; exact Hcep).
    destruct (sr_process_body cb Hcb c d rd [] None _ _ None _ (Some (firstn j (skipn (k_read (c_out c)) d))) j H Hcep' ltac:(cbv beta iota; lia)) as (c1 & E1' & H1 & _).
    rewrite E1' in Ef.
    assert (Hadv : sr_cin (rs_advance j c1) d (length d) [] None RES_BODY_IDENTITY_STREAM_CLOSE (Some RES_BODY_IDENTITY_STREAM_CLOSE) None (sr_body_add j (sr_body_add' k t))).
    { replace (length d) with (rd + j)%nat by (unfold j; lia). apply sr_cin_advance; [exact H1|unfold j; lia]. }
    unfold rs_closed in Ef. rewrite (sg_live_closed _ (ri_status _ _ _ _ _ _ _ _ _ Hadv)) in Ef.
    rewrite (sr_body_add_fuse j k t ltac:(lia)) in Hadv.
    exists (rs_advance j c1). split; [unfold sr_iter; rewrite Ef; destruct (sr_exit_data cb g _ d _ None _ _ Hadv) as [E _]; rewrite E; reflexivity|].
    apply (sr_exit_data cb g _ d _ None _ _ Hadv).
Qed.
End Close.

(* ================= the body phase, up to the last data call ================= *)
Section CloseRun.
Variable cb : cb_oracle.
Variable g : cfg.
Hypothesis Hcb : wr_all_ok cb.
Variables ps s r : bytes.
Variable ls : list sg_fl.
Variable body : bytes.
Variable t0 : tx.
Let line0 := wr_ser_status_line ps s r.
Let th0 := sr_th0 t0 line0.
Let Tend := sr_lrun ls (None, th0).
Let n := length body.
Let TH := sr_hdrs_tx_close Tend.
Hypothesis Hframe : sr_frame_close_ok Tend = true.
Variable bwt : bytes.
Variable hlog : option bytes -> tx -> bytes -> bytes -> Prop.

(* when the whole wire has been delivered: the parser waits in RES_BODY_IDENTITY_STREAM_CLOSE, n bytes delivered *)
Definition sr_clfin (c : connp) : Prop := sr_mid c [] None RES_BODY_IDENTITY_STREAM_CLOSE None (sr_body_add' n TH).
(* between two calls while the body is read: k bytes delivered so far *)
Definition sr_clext (c : connp) (rw : bytes) : Prop :=
  exists k, (k < n)%nat /\ sr_mid c [] None RES_BODY_IDENTITY_STREAM_CLOSE None (sr_body_add' k TH) /\ rw = skipn k body.
Let post := sr_postF ps s r t0 bwt hlog sr_clfin sr_clext.

Lemma sr_TH_cep : t_res_cep TH = c_HTP_COMPRESSION_NONE. Proof. reflexivity. Qed.

Lemma sr_close_run c d rd k (rw' : bytes) F :
  sr_cin c d rd [] None RES_BODY_IDENTITY_STREAM_CLOSE (Some RES_BODY_IDENTITY_STREAM_CLOSE) None (sr_body_add' k TH) ->
  (k <= n)%nat -> skipn rd d ++ rw' = skipn k body -> (1 <= F)%nat ->
  exists cF rc, rs_res_loop cb g F false c = (cF, rc) /\ post cF rw'.
Proof.
  intros H Hk Hw HF. pose proof (ri_rd _ _ _ _ _ _ _ _ _ H) as Hrd.
  assert (Lw : (length d - rd + length rw' = n - k)%nat).
  { assert (L : length (skipn rd d ++ rw') = length (skipn k body)) by (rewrite Hw; reflexivity). rewrite app_length, !skipn_length in L. fold n in L. exact L. }
  destruct (sr_close_pass cb g Hcb c d rd TH k H sr_TH_cep) as (c1 & E1 & M1).
  destruct F as [|F1]; [lia|]. rewrite (sr_loop_inl cb g _ _ _ E1). eexists _, _. split; [reflexivity|].
  set (j := (length d - rd)%nat) in *.
  assert (Erw : rw' = skipn (k + j) body).
  { assert (E : skipn j (skipn rd d ++ rw') = rw') by (rewrite skipn_app, skipn_all2 by (rewrite skipn_length; unfold j; lia); rewrite skipn_length; fold j; rewrite Nat.sub_diag; reflexivity).
    rewrite Hw, sr_skipn_skipn in E. rewrite <- E. reflexivity. }
  destruct rw' as [|b0 rw0].
  - right. split; [reflexivity|]. cbn [length] in Lw. unfold sr_clfin. replace n with (k + j)%nat by lia. exact M1.
  - left. split; [discriminate|]. right. right. exists (k + j)%nat. cbn [length] in Lw. split; [lia|]. split; [exact M1|exact Erw].
Qed.

Lemma sr_clext_step (okc : bytes -> bytes -> Prop) c (rw x rw' : bytes) : sr_clext c rw -> x <> [] -> rw = x ++ rw' -> okc x rw' ->
  exists c' rc, connp_res_data cb g (Some x) (length x) c = (c', rc) /\ post c' rw'.
Proof.
  intros (k & Hk & Hm & Erw) Hne Ex _.
  destruct (sr_enter cb g c [] None _ _ _ x Hm Hne) as (c1 & E1 & H1). unfold bytes in *. rewrite E1.
  apply (sr_close_run c1 x 0 k rw' _ H1); [lia|cbn [skipn]; rewrite <- Ex; exact Erw|unfold rs_res_fuel; lia].
Qed.
Lemma sr_clext_finish c rw : sr_clext c rw -> sr_clext (forget_chunks c <| c_events := [] |>) rw.
Proof. intros (k & Hk & Hm & Erw). exists k. split; [exact Hk|]. split; [apply sr_mid_finish; exact Hm|exact Erw]. Qed.
Lemma sr_clfin_finish c : sr_clfin c -> sr_clfin (forget_chunks c <| c_events := [] |>).
Proof. apply sr_mid_finish. Qed.

(* ---- after the empty line: RES_BODY_DETERMINE, then what the chunk has of the body ---- *)
Lemma sr_cltail c c1 d rd1 (rw' : bytes) F : c_out_state c = RES_HEADERS -> rs_state_fn cb g RES_HEADERS c = (ST_OK, c1) ->
  sr_cin c1 d rd1 [] None RES_BODY_DETERMINE (Some RES_HEADERS) (Some H_RESPONSE_HEADER_DATA) Tend -> skipn rd1 d ++ rw' = body ->
  (sr_need d rd1 <= F)%nat ->
  exists cF rc, rs_res_loop cb g F false c = (cF, rc) /\ post cF rw'.
Proof.
  intros Es Ef H1 Hw HF. rewrite <- Es in Ef.
  destruct (sr_iter_ok cb g c c1 d rd1 _ _ _ _ _ _ Ef H1) as (c2 & E2 & H2); [discriminate|].
  unfold sr_need in HF. destruct F as [|F1]; [lia|]. destruct F1 as [|F2]; [lia|].
  rewrite (sr_loop_inr cb g _ _ _ E2).
  destruct (sr_pass_determine_close cb g Hcb c2 d rd1 Tend H2 Hframe) as (c3 & E3 & H3). rewrite (sr_loop_inr cb g _ _ _ E3).
  apply (sr_close_run c3 d rd1 0 rw' F2 H3); [lia|exact Hw|lia].
Qed.
End CloseRun.

(* ================= htp_connp_close ================= *)
(* what the response direction and the transaction list consist of *)
Definition sr_ofr (c : connp) :=
  (c_out_status c, c_out_state c, c_out_state_previous c, c_out c, c_out_tx c, c_txs c, c_txs_shifted c, c_in_tx c, c_out_data_other_at_tx_end c).
Lemma sr_ofr_split a b : sr_ofr a = sr_ofr b ->
  c_out_status a = c_out_status b /\ c_out_state a = c_out_state b /\ c_out_state_previous a = c_out_state_previous b /\ c_out a = c_out b /\
  c_out_tx a = c_out_tx b /\ c_txs a = c_txs b /\ c_txs_shifted a = c_txs_shifted b /\ c_in_tx a = c_in_tx b /\
  c_out_data_other_at_tx_end a = c_out_data_other_at_tx_end b.
Proof. unfold sr_ofr. intros H. injection H as H1 H2 H3 H4 H5 H6 H7 H8 H9. repeat split; assumption. Qed.
(* the transaction being answered, as far as htp_tx_state_response_complete_ex needs it (no cursor, no stream status) *)
Record sr_txi (c : connp) (t : tx) : Prop := mk_sr_txi {
  xi_tx : c_out_tx c = Some 0%nat;
  xi_txs : c_txs c = [Some t];
  xi_shift : c_txs_shifted c = 0%nat;
  xi_intx : c_in_tx c = None;
  xi_other : c_out_data_other_at_tx_end c = false;
  xi_rh : k_receiver_hook (c_out c) = None }.
Lemma sr_txi_slot c t : sr_txi c t -> tx_slot c 0 = Some t.
Proof. intros H. unfold tx_slot. rewrite (xi_shift _ _ H), (xi_txs _ _ H). reflexivity. Qed.
Lemma sr_txi_txs c t t' : sr_txi c t -> sr_txi (c <| c_txs := [Some t'] |>) t'.
Proof. intros [A1 A2 A3 A4 A5 A6]. constructor; try assumption; reflexivity. Qed.
Lemma sr_txi_ext c c' t : sr_txi c t -> c_out_tx c' = c_out_tx c -> c_txs c' = c_txs c -> c_txs_shifted c' = c_txs_shifted c ->
  c_in_tx c' = c_in_tx c -> c_out_data_other_at_tx_end c' = c_out_data_other_at_tx_end c -> k_receiver_hook (c_out c') = k_receiver_hook (c_out c) ->
  sr_txi c' t.
Proof. intros [A1 A2 A3 A4 A5 A6] E1 E2 E3 E4 E5 E6. constructor; rewrite ?E1, ?E2, ?E3, ?E4, ?E5, ?E6; assumption. Qed.
Lemma sr_txi_upd0 c t f : sr_txi c t -> tx_upd c 0 f = c <| c_txs := [Some (f t)] |>.
Proof. intros H. rewrite (wr_tx_upd_ok c 0 t f (sr_txi_slot _ _ H)). apply (wr_tx_put0 c t _ (xi_txs _ _ H) (xi_shift _ _ H)). Qed.
Lemma sr_txi_get c t : sr_txi c t -> tx_get c 0 = t.
Proof. intros H. unfold tx_get. rewrite (sr_txi_slot _ _ H). reflexivity. Qed.
Lemma sr_txi_hook c t h i data last : sr_txi c t -> sr_txi (wr_hook_ev h i data last c) t.
Proof. intros H. apply (sr_txi_ext c); try reflexivity. exact H. Qed.

Section CloseCall.
Variable cb : cb_oracle.
Variable g : cfg.
Hypothesis Hcb : wr_all_ok cb.

(* ---- the request direction at close: nothing is in flight (in_tx = NULL); whatever the request state, the response direction and the
        transaction list are left alone ---- *)
Lemma sr_req_close_frame c : c_in_tx c = None -> (c_out_status c =? c_HTP_STREAM_DATA_OTHER)%Z = false ->
  sr_ofr (fst (connp_req_data cb g None 0 c)) = sr_ofr c.
Proof.
  intros Hin Ho. unfold connp_req_data.
  destruct (c_in_status c =? c_HTP_STREAM_STOP)%Z; [reflexivity|]. destruct (c_in_status c =? c_HTP_STREAM_ERROR)%Z; [reflexivity|].
  rewrite Hin. destruct (req_state_eqb (c_in_state c) REQ_IDLE) eqn:Es; cbn [negb andb].
  2: { destruct (c_in_status c =? c_HTP_STREAM_TUNNEL)%Z eqn:Et; cbn [negb]; [|reflexivity].
       cbn [Nat.eqb andb]. destruct (negb (c_in_status c =? c_HTP_STREAM_CLOSED)%Z); [reflexivity|]. cbv zeta.
       match goal with |- context [(c_in_status ?y =? c_HTP_STREAM_TUNNEL)%Z] => change (c_in_status y) with (c_in_status c) end.
       rewrite Et. reflexivity. }
  assert (Est : c_in_state c = REQ_IDLE) by (destruct (c_in_state c); try discriminate; reflexivity).
  cbn [Nat.eqb andb]. destruct (negb (c_in_status c =? c_HTP_STREAM_CLOSED)%Z); [reflexivity|].
  match goal with |- context [rq_loop cb g _ _ ?x] => set (c2 := x) end.
  match goal with |- context [(c_in_status ?y =? c_HTP_STREAM_TUNNEL)%Z] => destruct (c_in_status y =? c_HTP_STREAM_TUNNEL)%Z; [reflexivity|] end.
  assert (E2 : c2 = rq_set_in (fun k => k <| k_data := None |> <| k_len := 0%nat |> <| k_read := 0%nat |> <| k_consume := 0%nat |> <| k_receiver := 0%nat |>) c
                      <| c_in_chunk_count ::= S |> <| c_in_data_counter ::= Z.add (Z.of_nat 0) |>).
  { unfold c2. match goal with |- context [(c_out_status ?y =? c_HTP_STREAM_DATA_OTHER)%Z] => change (c_out_status y) with (c_out_status c) end. rewrite Ho. reflexivity. }
  assert (F2 : sr_ofr c2 = sr_ofr c) by (rewrite E2; reflexivity).
  assert (S2 : c_in_state c2 = REQ_IDLE) by (rewrite E2; exact Est).
  assert (L2 : rq_at_end c2 = true) by (rewrite E2; reflexivity).
  clearbody c2. change (rq_fuel 0) with 16%nat. change (0 <? 0)%nat with false. rewrite wr_rq_loop_S.
  unfold rq_iter. cbv zeta. rewrite S2. cbn [rq_state_fn]. unfold REQ_IDLE_fn. rewrite L2.
  unfold rq_exit, req_receiver_send_data.
  destruct (k_receiver_hook (c_in c2)) as [h|]; [|cbn [fst]; rewrite <- F2; reflexivity].
  cbv zeta. unfold run_data_hook. rewrite (wr_run_hook_ex cb Hcb).
  match goal with |- context [if ?b then _ else _] => destruct b end; cbn [fst]; rewrite <- F2; reflexivity.
Qed.


(* ---- htp_tx_res_process_body_data_ex(tx, NULL, 0): the end-of-body marker ---- *)
Lemma sr_txi_tx_hooks k h i data last c t : sr_txi c t ->
  sr_txi (run_tx_hooks k h i data last c) t /\ c_out (run_tx_hooks k h i data last c) = c_out c /\
  c_out_status (run_tx_hooks k h i data last c) = c_out_status c /\ c_out_state (run_tx_hooks k h i data last c) = c_out_state c /\
  c_out_state_previous (run_tx_hooks k h i data last c) = c_out_state_previous c /\ c_in_status (run_tx_hooks k h i data last c) = c_in_status c.
Proof.
  revert c. induction k as [|k IH]; intros c H; [split; [exact H|]; split; [reflexivity|]; split; [reflexivity|]; split; [reflexivity|]; split; reflexivity|].
  cbn [run_tx_hooks]. destruct (IH (emit (bump_hook c h) (mkev h i data last None))) as (A & B1 & B2 & B3 & B4 & B5); [apply (sr_txi_hook c t h i data last H)|].
  split; [exact A|]. rewrite B1, B2, B3, B4, B5. split; [reflexivity|]; split; [reflexivity|]; split; [reflexivity|]; split; reflexivity.
Qed.
(* what stays of the parser while htp_tx_state_response_complete_ex works on the transaction *)
Definition sr_ofc (c : connp) := (c_out c, c_out_status c, c_out_state_previous c, c_in_status c).
Lemma sr_txi_end_marker c t : sr_txi c t -> t_res_cep t = c_HTP_COMPRESSION_NONE ->
  exists c', tx_res_process_body_data_ex cb 0 None 0 c = (ST_OK, c') /\ sr_txi c' (sr_body_add 0 t) /\ sr_ofc c' = sr_ofc c /\ c_out_state c' = c_out_state c.
Proof.
  intros H Hcep. unfold tx_res_process_body_data_ex.
  rewrite (sr_txi_upd0 c t _ H).
  set (t1 := t <| t_response_message_len ::= Z.add (Z.of_nat 0) |>). set (c1 := c <| c_txs := [Some t1] |>).
  assert (H1 : sr_txi c1 t1) by (eapply sr_txi_txs; exact H).
  rewrite (sr_txi_get c1 _ H1). change (t_res_cep t1) with (t_res_cep t). rewrite Hcep, Z.eqb_refl.
  rewrite (sr_txi_upd0 c1 t1 _ H1).
  set (c2 := c1 <| c_txs := [Some (t1 <| t_response_entity_len ::= Z.add (Z.of_nat 0) |>)] |>).
  assert (H2 : sr_txi c2 (sr_body_add 0 t)) by (eapply sr_txi_txs; exact H1).
  unfold res_run_hook_body_data. rewrite (xi_tx _ _ H2).
  destruct (sr_txi_tx_hooks (t_hook_response_body (tx_get c2 0)) H_TX_RESPONSE_BODY_DATA 0 None false c2 _ H2) as (H3 & B1 & B2 & B3 & B4 & B5).
  unfold run_data_hook. rewrite (wr_run_hook_ex cb Hcb).
  eexists. split; [reflexivity|]. split; [apply sr_txi_hook; exact H3|]. split.
  - unfold sr_ofc. cbn [wr_hook_ev emit bump_hook c_out c_out_status c_out_state_previous c_in_status set]. cbn. rewrite B1, B2, B4, B5. reflexivity.
  - cbn. rewrite B3. reflexivity.
Qed.

(* ---- htp_tx_state_response_complete_ex on the transaction being answered, the request side not waiting for it ---- *)
Lemma sr_response_complete_at c t : sr_txi c t ->
  t_res_cep t = c_HTP_COMPRESSION_NONE -> (t_response_transfer_coding t =? c_HTP_CODING_NO_BODY)%Z = false ->
  (t_response_progress t =? c_HTP_RESPONSE_COMPLETE)%Z = false -> t_request_progress t = c_HTP_REQUEST_COMPLETE ->
  exists c', rs_response_complete cb g c = (ST_OK, c') /\ c_txs c' = sr_final g (sr_tcomplete t) /\ c_out_state c' = RES_IDLE /\
             c_out c' = c_out c /\ c_out_status c' = c_out_status c /\ c_out_state_previous c' = c_out_state_previous c.
Proof.
  intros H Hcep Hcod Hprog Hreq.
  unfold rs_response_complete. rewrite (xi_tx _ _ H). unfold tx_state_response_complete_ex.
  rewrite (sr_txi_get c t H), Hprog. cbn [negb].
  rewrite (sr_txi_upd0 c t _ H).
  set (t1 := t <| t_response_progress := c_HTP_RESPONSE_COMPLETE |>). set (c1 := c <| c_txs := [Some t1] |>).
  assert (H1 : sr_txi c1 t1) by (eapply sr_txi_txs; exact H).
  rewrite (sr_txi_get c1 _ H1). change (t_response_transfer_coding t1) with (t_response_transfer_coding t). rewrite Hcod. cbn [negb].
  destruct (sr_txi_end_marker c1 t1 H1 Hcep) as (c2 & E2 & H2 & F2 & S2). rewrite E2. cbn [snd].
  fold (sr_tcomplete t) in H2.
  rewrite (wr_run_hook cb Hcb). unfold res_receiver_finalize_clear.
  set (c3 := wr_hook_ev H_RESPONSE_COMPLETE 0 None false c2).
  assert (H3 : sr_txi c3 (sr_tcomplete t)) by (apply sr_txi_hook; exact H2).
  assert (F3 : sr_ofc c3 = sr_ofc c) by (transitivity (sr_ofc c2); [reflexivity|rewrite F2; reflexivity]).
  rewrite (xi_rh _ _ H3). cbv zeta. rewrite (xi_intx _ _ H3), (xi_tx _ _ H3), andb_false_r. cbn [negb andb].
  rewrite (xi_other _ _ H3).
  unfold tx_finalize. rewrite (sr_txi_slot _ _ H3).
  assert (Ec : tx_is_complete (sr_tcomplete t) = true).
  { unfold tx_is_complete. change (t_request_progress (sr_tcomplete t)) with (t_request_progress t). rewrite Hreq. reflexivity. }
  rewrite Ec. cbn [negb]. unfold run_hook_ex. rewrite Hcb.
  set (c4 := emit (bump_hook c3 H_TRANSACTION_COMPLETE) (mkev H_TRANSACTION_COMPLETE 0 None false (Some (sr_tcomplete t)))).
  assert (H4 : sr_txi c4 (sr_tcomplete t)) by (apply (sr_txi_ext c3); try reflexivity; exact H3).
  assert (F4 : sr_ofc c4 = sr_ofc c) by (rewrite <- F3; reflexivity).
  rewrite (sr_txi_slot _ _ H4).
  set (c5 := if g_tx_auto_destroy g then tx_destroy c4 0 else c4).
  assert (H5 : c_txs c5 = sr_final g (sr_tcomplete t) /\ sr_ofc c5 = sr_ofc c4).
  { unfold c5, sr_final. destruct (g_tx_auto_destroy g); [|split; [exact (xi_txs _ _ H4)|reflexivity]].
    unfold tx_destroy. rewrite (sr_txi_slot _ _ H4), Ec. unfold tx_destroy_incomplete.
    rewrite (xi_shift _ _ H4). cbn [Nat.ltb Nat.leb Nat.sub].
    match goal with |- context [c_in_tx ?x] => change (c_in_tx x) with (c_in_tx c4) end. rewrite (xi_intx _ _ H4).
    match goal with |- context [c_out_tx ?x] => change (c_out_tx x) with (c_out_tx c4) end. rewrite (xi_tx _ _ H4). cbn [Nat.eqb].
    cbn [c_txs set]. rewrite (xi_txs _ _ H4). split; reflexivity. }
  destruct H5 as (T5 & F5). clearbody c5.
  eexists. split; [reflexivity|]. cbn [c_txs c_out_state c_out c_out_status c_out_state_previous set].
  rewrite F4 in F5. unfold sr_ofc in F5. injection F5 as G1 G2 G3 _.
  split; [exact T5|]. split; [reflexivity|]. split; [exact G1|]. split; [exact G2|exact G3].
Qed.
End CloseCall.

(* ---- the response direction at close: htp_connp_res_data(NULL, 0) on a closed stream, the parser waiting in RES_BODY_IDENTITY_STREAM_CLOSE ---- *)
Record sr_cl (c : connp) (st : res_state) (prev : option res_state) (t : tx) : Prop := mk_sr_cl {
  cl_status : c_out_status c = c_HTP_STREAM_CLOSED;
  cl_state : c_out_state c = st;
  cl_prev : c_out_state_previous c = prev;
  cl_data : k_data (c_out c) = None;
  cl_len : k_len (c_out c) = 0%nat;
  cl_read : k_read (c_out c) = 0%nat;
  cl_cons : k_consume (c_out c) = 0%nat;
  cl_buf : sg_olist (k_buf (c_out c)) = [];
  cl_txi : sr_txi c t }.

Section CloseRes.
Variable cb : cb_oracle.
Variable g : cfg.
Hypothesis Hcb : wr_all_ok cb.

Lemma sr_cl_pass1 c t : sr_cl c RES_BODY_IDENTITY_STREAM_CLOSE (Some RES_BODY_IDENTITY_STREAM_CLOSE) t ->
  exists c', sr_iter cb g c = inr c' /\ sr_cl c' RES_FINALIZE (Some RES_FINALIZE) t.
Proof.
  intros [A1 A2 A3 A4 A5 A6 A7 A8 A9]. unfold sr_iter. rewrite A2. cbn [rs_state_fn].
  unfold rs_RES_BODY_IDENTITY_STREAM_CLOSE. rewrite A5, A6. cbn [Nat.sub Nat.ltb Nat.leb Nat.eqb]. unfold rs_closed. rewrite A1.
  change ((c_HTP_STREAM_CLOSED =? c_HTP_STREAM_CLOSED)%Z) with true. cbv iota.
  change (c_out_status (rs_set_state RES_FINALIZE c)) with (c_out_status c). rewrite A1.
  change ((c_HTP_STREAM_CLOSED =? c_HTP_STREAM_TUNNEL)%Z) with false. cbv iota.
  unfold rs_handle_state_change. change (c_out_state_previous (rs_set_state RES_FINALIZE c)) with (c_out_state_previous c). rewrite A3.
  change (c_out_state (rs_set_state RES_FINALIZE c)) with RES_FINALIZE. cbn [res_state_eqb].
  eexists. split; [reflexivity|].
  constructor; try assumption; try reflexivity. apply (sr_txi_ext c); try reflexivity. exact A9.
Qed.

Lemma sr_cl_pass2 c t : sr_cl c RES_FINALIZE (Some RES_FINALIZE) t ->
  t_res_cep t = c_HTP_COMPRESSION_NONE -> (t_response_transfer_coding t =? c_HTP_CODING_NO_BODY)%Z = false ->
  (t_response_progress t =? c_HTP_RESPONSE_COMPLETE)%Z = false -> t_request_progress t = c_HTP_REQUEST_COMPLETE ->
  exists c', sr_iter cb g c = inr c' /\ c_txs c' = sr_final g (sr_tcomplete t) /\ c_out_state c' = RES_IDLE /\
             k_len (c_out c') = 0%nat /\ k_read (c_out c') = 0%nat /\ k_receiver_hook (c_out c') = None.
Proof.
  intros [A1 A2 A3 A4 A5 A6 A7 A8 A9] Hcep Hcod Hprog Hreq.
  assert (Etail : rs_finalize_tail cb g c = rs_response_complete cb g c).
  { unfold rs_finalize_tail, rs_consolidate, rs_res_buffer. destruct (k_buf (c_out c)) as [[|b0 bb]|] eqn:Eb; [| cbn [sg_olist] in A8; discriminate |].
    - rewrite A4. rewrite Eb. reflexivity.
    - rewrite A4, A6, A7. reflexivity. }
  destruct (sr_response_complete_at cb g Hcb c t A9 Hcep Hcod Hprog Hreq) as (c1 & E1 & T1 & S1 & O1 & U1 & P1).
  unfold sr_iter. rewrite A2. cbn [rs_state_fn]. unfold rs_RES_FINALIZE, rs_closed. rewrite A1.
  change ((c_HTP_STREAM_CLOSED =? c_HTP_STREAM_CLOSED)%Z) with true. cbn [negb]. rewrite Etail, E1.
  rewrite U1, A1. change ((c_HTP_STREAM_CLOSED =? c_HTP_STREAM_TUNNEL)%Z) with false. cbv iota.
  unfold rs_handle_state_change. rewrite P1, A3, S1. cbn [res_state_eqb].
  eexists. split; [reflexivity|]. cbn [c_txs c_out_state c_out set]. rewrite O1.
  split; [exact T1|]. split; [exact S1|]. split; [exact A5|]. split; [exact A6|exact (xi_rh _ _ A9)].
Qed.

(* ---- htp_connp_close when the whole response wire has been delivered ---- *)
Lemma sr_connp_close_txs c t : sr_mid c [] None RES_BODY_IDENTITY_STREAM_CLOSE None t ->
  t_res_cep t = c_HTP_COMPRESSION_NONE -> (t_response_transfer_coding t =? c_HTP_CODING_NO_BODY)%Z = false ->
  (t_response_progress t =? c_HTP_RESPONSE_COMPLETE)%Z = false -> t_request_progress t = c_HTP_REQUEST_COMPLETE ->
  c_txs (connp_close cb g c) = sr_final g (sr_tcomplete t).
Proof.
  intros [A1 A2 A3 A4 A5 A6 A7 A8 A9 A10 A11] Hcep Hcod Hprog Hreq. unfold connp_close.
  set (ca := if negb (c_in_status c =? c_HTP_STREAM_ERROR)%Z then c <| c_in_status := c_HTP_STREAM_CLOSED |> else c).
  assert (Fa : sr_ofr ca = sr_ofr c) by (unfold ca; destruct (negb _); reflexivity).
  assert (Ea : c_out_status ca = c_out_status c) by (unfold ca; destruct (negb _); reflexivity).
  rewrite Ea, (sg_live_error _ A1). cbn [negb].
  set (cc := ca <| c_out_status := c_HTP_STREAM_CLOSED |>).
  destruct (sr_ofr_split _ _ Fa) as (_ & G2 & G3 & G4 & G5 & G6 & G7 & G8 & G9).
  assert (Icc : c_in_tx cc = None) by (unfold cc; cbn [c_in_tx set]; rewrite G8; exact A10).
  destruct (sr_ofr_split _ _ (sr_req_close_frame cb g Hcb cc Icc eq_refl)) as (R1 & R2 & R3 & R4 & R5 & R6 & R7 & R8 & R9).
  set (cr := fst (connp_req_data cb g None 0 cc)) in *. clearbody cr.
  change (c_out_status cc) with c_HTP_STREAM_CLOSED in R1. change (c_out_state cc) with (c_out_state ca) in R2. change (c_out_state_previous cc) with (c_out_state_previous ca) in R3.
  change (c_out cc) with (c_out ca) in R4. change (c_out_tx cc) with (c_out_tx ca) in R5. change (c_txs cc) with (c_txs ca) in R6.
  change (c_txs_shifted cc) with (c_txs_shifted ca) in R7. change (c_in_tx cc) with (c_in_tx ca) in R8. change (c_out_data_other_at_tx_end cc) with (c_out_data_other_at_tx_end ca) in R9.
  rewrite G2 in R2. rewrite G3 in R3. rewrite G4 in R4. rewrite G5 in R5. rewrite G6 in R6. rewrite G7 in R7. rewrite G8 in R8. rewrite G9 in R9.
  clear Fa Ea Icc G2 G3 G4 G5 G6 G7 G8 G9. clearbody cc. clear ca.
  unfold connp_res_data. rewrite R1, R5, A7.
  change ((c_HTP_STREAM_CLOSED =? c_HTP_STREAM_STOP)%Z) with false. change ((c_HTP_STREAM_CLOSED =? c_HTP_STREAM_ERROR)%Z) with false. cbv iota.
  unfold rs_closed. rewrite R1. change ((c_HTP_STREAM_CLOSED =? c_HTP_STREAM_CLOSED)%Z) with true. cbn [Nat.eqb negb andb].
  match goal with |- context [rs_res_loop cb g _ _ ?y] => set (c1 := y) end.
  match goal with |- context [(c_out_status ?y =? c_HTP_STREAM_TUNNEL)%Z] => change (c_out_status y) with (c_out_status cr) end.
  rewrite R1. change ((c_HTP_STREAM_CLOSED =? c_HTP_STREAM_TUNNEL)%Z) with false. cbv iota.
  assert (H1 : sr_cl c1 RES_BODY_IDENTITY_STREAM_CLOSE (Some RES_BODY_IDENTITY_STREAM_CLOSE) t).
  { unfold c1. constructor; cbn [c_out_status c_out_state c_out_state_previous c_out set rs_set_out k_data k_len k_read k_consume k_buf]; try reflexivity.
    - exact R1.
    - rewrite R2. exact A2.
    - rewrite R3. exact A3.
    - cbn. rewrite R4. exact A4.
    - constructor; cbn; rewrite ?R4, ?R5, ?R6, ?R7, ?R8, ?R9; assumption. }
  clearbody c1. change (rs_res_fuel 0) with (S (S (S 61))). change (0 <? 0)%nat with false.
  destruct (sr_cl_pass1 c1 t H1) as (c2 & E2 & H2). rewrite (sr_loop_inr cb g _ _ _ E2).
  destruct (sr_cl_pass2 c2 t H2 Hcep Hcod Hprog Hreq) as (c3 & E3 & T3 & S3 & L3 & D3 & Rh3). rewrite (sr_loop_inr cb g _ _ _ E3).
  rewrite sr_loop_S. unfold sr_iter. rewrite S3. cbn [rs_state_fn]. unfold rs_RES_IDLE, rs_has_byte. rewrite L3, D3. cbn [Nat.ltb Nat.leb negb].
  unfold rs_res_exit, res_receiver_send_data. rewrite Rh3. cbn [snd fst]. exact T3.
Qed.
End CloseRes.

(* ================= the theorem ================= *)
Definition sr_framed_close (cb : cb_oracle) (g : cfg) (rq : wr_request) (r : wr_response) (cuts : list (list bytes)) : bool :=
  sr_frame_close_ok (sr_tend (sr_treq cb g rq) r cuts).
(* the transaction such a response has to produce (t0 = the transaction the request left), n = the number of body bytes before the close *)
Definition sr_tclose (t0 : tx) (r : wr_response) (cuts : list (list bytes)) (n : nat) : tx :=
  sr_tcomplete (sr_body_add' n (sr_hdrs_tx_close (sr_tend t0 r cuts))).

Lemma sr_hdrs_tx_close_facts t :
  t_res_cep (sr_hdrs_tx_close t) = c_HTP_COMPRESSION_NONE /\ (t_response_transfer_coding (sr_hdrs_tx_close t) =? c_HTP_CODING_NO_BODY)%Z = false /\
  (t_response_progress (sr_hdrs_tx_close t) =? c_HTP_RESPONSE_COMPLETE)%Z = false /\ t_request_progress (sr_hdrs_tx_close t) = t_request_progress t.
Proof.
  unfold sr_hdrs_tx_close, sr_det_tx_close. cbv zeta. destruct (rs_hdr_get_c (t_response_headers t) rs_str_content_type); repeat split; reflexivity.
Qed.
Lemma sr_cp_run_close cb g c : c_txs (fst (cp_run cb g c [OpClose])) = c_txs (connp_close cb g c).
Proof. reflexivity. Qed.

Theorem sr_response_close_chunking : forall cb g rq r (cuts : list (list bytes)) (body : bytes) (chunks : list bytes),
  wr_all_ok cb -> g_allow_space_uri g = false -> wr_request_ok rq = true ->
  sr_response_ok r = true -> sr_cuts_ok r cuts = true -> sr_framed_close cb g rq r cuts = true -> sr_fits g r cuts = true ->
  Forall (fun x => x <> []) chunks -> concat chunks = sr_wire r cuts body ->
  sr_f1_free body (negb (sr_is_nil (sr_lines r cuts))) chunks = true ->
  c_txs (fst (cp_run cb g connp_new (OpOpen :: OpReqData (wr_request_wire rq) :: map OpResData chunks ++ [OpClose]))) =
  sr_final g (sr_tclose (sr_treq cb g rq) r cuts (length body)).
Proof.
  intros cb g rq r cuts body chunks Hcb Hsp Wq Wr Wc Hfr Hfit Hall Hc Hf1.
  destruct (sr_after_request cb g rq Hcb Hsp Wq) as (t0 & Hr & Rep).
  assert (Et : sr_treq cb g rq = t0) by (unfold sr_treq; rewrite (ry_txs _ _ Hr); reflexivity).
  unfold sr_framed_close in Hfr. rewrite Et in *.
  change (OpOpen :: OpReqData (wr_request_wire rq) :: map OpResData chunks ++ [OpClose]) with ([OpOpen; OpReqData (wr_request_wire rq)] ++ (map OpResData chunks ++ [OpClose])).
  rewrite sr_run_app, sr_run_app, sr_cp_run_close.
  unfold sr_response_ok in Wr. apply andb_prop in Wr. destruct Wr as [Wl Wf].
  unfold sr_cuts_ok in Wc. apply andb_prop in Wc. destruct Wc as [_ Wc].
  destruct (sg_block_flat_ok (combine (wp_fields r) cuts) (sr_forallb_combine_fst wr_field_ok _ cuts Wf) Wc) as [Okl Hnp].
  unfold sr_fits in Hfit. apply andb_prop in Hfit. destruct Hfit as [Hl0 Hfit]. apply Nat.leb_le in Hl0.
  unfold wr_reported in Rep. destruct Rep as (_ & _ & _ & _ & _ & H09 & _ & Hreq).
  rewrite <- (sr_p11_th0 t0 (sr_line0 r)) in Hfit.
  fold (sr_lines r cuts) in Okl, Hnp. set (ls := sr_lines r cuts) in *.
  set (bwt := sg_fwire ls ++ [CR; LF] ++ body).
  set (Tend := sr_lrun ls (None, sr_th0 t0 (sr_line0 r))).
  set (hlog := sr_hlog g Tend body (negb (sr_is_nil ls))).
  set (fin := sr_clfin (wp_protocol r) (wp_status r) (wp_reason r) ls body t0).
  set (ext := sr_clext (wp_protocol r) (wp_status r) (wp_reason r) ls body t0).
  assert (Htail : forall c c1 d rd1 (rw' : bytes) F, c_out_state c = RES_HEADERS -> rs_state_fn cb g RES_HEADERS c = (ST_OK, c1) ->
            sr_cin c1 d rd1 [] None RES_BODY_DETERMINE (Some RES_HEADERS) (Some H_RESPONSE_HEADER_DATA) Tend -> skipn rd1 d ++ rw' = body ->
            (sr_need d rd1 <= F)%nat ->
            exists cF rc, rs_res_loop cb g F false c = (cF, rc) /\ sr_postF (wp_protocol r) (wp_status r) (wp_reason r) t0 bwt hlog fin ext cF rw').
  { intros c c1 d rd1 rw' F. apply (sr_cltail cb g Hcb (wp_protocol r) (wp_status r) (wp_reason r) ls body t0 Hfr bwt hlog). }
  pose proof (sr_all_chunksF cb g Hcb (wp_protocol r) (wp_status r) (wp_reason r) Wl Hl0 t0 H09 bwt hlog fin ext (sr_f1_local body (negb (sr_is_nil ls)))
                (sr_clfin_finish _ _ _ ls body t0)
                (sr_clext_finish _ _ _ ls body t0)
                (sr_clext_step cb g Hcb _ _ _ ls body t0 bwt hlog (sr_f1_local body (negb (sr_is_nil ls))))
                (sr_call_hdrsF cb g Hcb _ _ _ t0 ls body fin ext Htail)
                (sr_call_startF cb g Hcb _ _ _ t0 ls body Okl Hnp Hfit fin ext Htail)
                _ chunks Hr Hall Hc (sr_f1_free_oks _ _ _ Hf1)) as T.
  unfold fin, sr_clfin in T.
  destruct (sr_hdrs_tx_close_facts Tend) as (F1 & F2 & F3 & F4).
  destruct (sr_body_add'_facts (length body) (sr_hdrs_tx_close Tend)) as (B1 & B2 & B3 & B4).
  assert (Rq : t_request_progress Tend = c_HTP_REQUEST_COMPLETE).
  { unfold Tend. destruct (sr_lrun_keep ls (None, sr_th0 t0 (sr_line0 r))) as [A _]. cbn [snd] in A. rewrite A.
    destruct (sr_th0_keep t0 (sr_line0 r)) as [C _]. rewrite C. exact Hreq. }
  assert (G1 : t_res_cep (sr_body_add' (length body) (sr_hdrs_tx_close Tend)) = c_HTP_COMPRESSION_NONE) by (rewrite B1; exact F1).
  assert (G2 : (t_response_transfer_coding (sr_body_add' (length body) (sr_hdrs_tx_close Tend)) =? c_HTP_CODING_NO_BODY)%Z = false) by (rewrite B2; exact F2).
  assert (G3 : (t_response_progress (sr_body_add' (length body) (sr_hdrs_tx_close Tend)) =? c_HTP_RESPONSE_COMPLETE)%Z = false) by (rewrite B3; exact F3).
  assert (G4 : t_request_progress (sr_body_add' (length body) (sr_hdrs_tx_close Tend)) = c_HTP_REQUEST_COMPLETE) by (rewrite B4, F4; exact Rq).
  exact (sr_connp_close_txs cb g Hcb _ _ T G1 G2 G3 G4).
Qed.
Print Assumptions sr_response_close_chunking.
