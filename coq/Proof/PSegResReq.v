(* C03, response direction: the state in which the delivery of a grammar request (one chunk) leaves the parser, as far as the
   response direction is concerned.  The request-side state functions do not touch the response side of the parser (sr_fr:
   out_status, out_state, the out cursor and buffers, out_tx, out_next_tx_index, ...) -- shown for the seven states a request
   without body goes through -- and the passes of PWireGlue tell the rest. *)
Require Import Htp.Model.Base Htp.Model.MBstr Htp.Model.MConnTypes Htp.Model.MTxCommon Htp.Model.MReqLine Htp.Model.MReqUri Htp.Model.MTxReq.
Require Import Htp.Model.MReq Htp.Model.MRes Htp.Model.MConnp.
Require Import Htp.Spec.SWire Htp.Proof.PWire Htp.Proof.PWireHdr Htp.Proof.PWireBlock Htp.Proof.PWireConn Htp.Proof.PWireExch.
Require Import Htp.Proof.PWireRun Htp.Proof.PWirePres Htp.Proof.PWireGlue Htp.Proof.PSeg.

(* the response side of the parser *)
Definition sr_fr (c : connp) :=
  (c_out_status c, c_out_state c, c_out_state_previous c, c_out c, c_out_tx c, c_out_next_tx_index c, c_txs_shifted c,
   c_out_data_other_at_tx_end c).

Ltac fr_brk := repeat match goal with
  | |- context [match ?x with _ => _ end] => destruct x
  | |- context [if ?b then _ else _] => destruct b
  end.
(* c1 is the connp component of the pair E : F = (a, c1), L : sr_fr (snd F) = sr_fr c *)
Ltac fr_of E L := match type of E with _ = (?a, ?b) => change b with (snd (a, b)); rewrite <- E; apply L end.

Lemma fr_set_in f c : sr_fr (rq_set_in f c) = sr_fr c. Proof. reflexivity. Qed.
Lemma fr_fault c : sr_fr (rq_fault c) = sr_fr c. Proof. reflexivity. Qed.
Lemma fr_tx_put c i t : sr_fr (tx_put c i t) = sr_fr c. Proof. unfold tx_put. fr_brk; reflexivity. Qed.
Lemma fr_tx_upd c i f : sr_fr (tx_upd c i f) = sr_fr c. Proof. unfold tx_upd. fr_brk; try apply fr_tx_put; reflexivity. Qed.
Lemma fr_rq_tx_upd f c : sr_fr (rq_tx_upd f c) = sr_fr c. Proof. unfold rq_tx_upd. fr_brk; try apply fr_tx_upd; reflexivity. Qed.
Lemma fr_hook_ev h i data last c : sr_fr (wr_hook_ev h i data last c) = sr_fr c. Proof. reflexivity. Qed.
Lemma fr_read_byte c : sr_fr (fst (rq_read_byte c)) = sr_fr c. Proof. unfold rq_read_byte. fr_brk; reflexivity. Qed.
Lemma fr_slice c a b : sr_fr (fst (rq_slice c a b)) = sr_fr c. Proof. unfold rq_slice. fr_brk; reflexivity. Qed.
Lemma fr_peek_next c : sr_fr (rq_peek_next c) = sr_fr c.
Proof. unfold rq_peek_next. destruct (rq_at_end c); [reflexivity|]. pose proof (fr_read_byte c) as X. destruct (rq_read_byte c) as [c1 b]. exact X. Qed.
Lemma fr_copy_byte c c1 : rq_copy_byte c = Some c1 -> sr_fr c1 = sr_fr c.
Proof.
  unfold rq_copy_byte. destruct (rq_at_end c); [discriminate|]. pose proof (fr_read_byte c) as X. destruct (rq_read_byte c) as [c2 b]. intros E. inversion E. exact X.
Qed.
Lemma fr_clear_buffer c : sr_fr (req_clear_buffer c) = sr_fr c. Proof. reflexivity. Qed.

Section Frame.
Variable cb : cb_oracle.
Variable g : cfg.
Hypothesis Hcb : wr_all_ok cb.

Lemma fr_run_hook h i c : sr_fr (snd (run_hook cb h i c)) = sr_fr c. Proof. rewrite (wr_run_hook cb Hcb). reflexivity. Qed.
Lemma fr_run_tx_hooks k h i data last c : sr_fr (run_tx_hooks k h i data last c) = sr_fr c.
Proof. revert c. induction k as [|k IH]; intros c; [reflexivity|]. cbn [run_tx_hooks]. rewrite IH. reflexivity. Qed.

Lemma fr_req_buffer c : sr_fr (snd (req_buffer g c)) = sr_fr c.
Proof.
  unfold req_buffer. destruct (k_data (c_in c)); [|reflexivity]. cbv zeta.
  set (c0 := if (k_read (c_in c) <? k_consume (c_in c))%nat then rq_fault c else c).
  assert (X0 : sr_fr c0 = sr_fr c) by (unfold c0; destruct (_ <? _)%nat; reflexivity). clearbody c0.
  destruct (_ =? 0)%nat; [exact X0|].
  set (c1 := match c_in_tx c0 with Some _ => c0 | None => rq_fault c0 end).
  assert (X1 : sr_fr c1 = sr_fr c) by (unfold c1; destruct (c_in_tx c0); exact X0). clearbody c1.
  destruct (_ <? _)%nat; [exact X1|].
  pose proof (fr_slice c1 (k_consume (c_in c1)) (k_read (c_in c1))) as X. destruct (rq_slice c1 _ _) as [c2 piece]. cbn [fst] in X.
  cbn [snd]. rewrite fr_set_in, X. exact X1.
Qed.
Lemma fr_consolidate c : sr_fr (snd (fst (req_consolidate_data g c))) = sr_fr c.
Proof.
  unfold req_consolidate_data. destruct (k_buf (c_in c)).
  - pose proof (fr_req_buffer c) as X. destruct (req_buffer g c) as [rc c1]. cbn [snd] in X. destruct rc; cbn [fst snd]; exact X.
  - pose proof (fr_slice c (k_consume (c_in c)) (k_read (c_in c))) as X. destruct (rq_slice c _ _) as [c1 d]. exact X.
Qed.
Lemma fr_receiver_send last c : sr_fr (snd (req_receiver_send_data cb last c)) = sr_fr c.
Proof.
  unfold req_receiver_send_data. destruct (k_receiver_hook (c_in c)); [|reflexivity]. cbv zeta. unfold run_data_hook. rewrite (wr_run_hook_ex cb Hcb).
  cbn [snd]. fr_brk; reflexivity.
Qed.
Lemma fr_receiver_clear c : sr_fr (snd (req_receiver_finalize_clear cb c)) = sr_fr c.
Proof.
  unfold req_receiver_finalize_clear. destruct (k_receiver_hook (c_in c)); [|reflexivity].
  pose proof (fr_receiver_send true c) as X. destruct (req_receiver_send_data cb true c) as [rc c1]. exact X.
Qed.
Lemma fr_receiver_set h c : sr_fr (snd (req_receiver_set cb h c)) = sr_fr c.
Proof. unfold req_receiver_set. pose proof (fr_receiver_clear c) as X. destruct (req_receiver_finalize_clear cb c) as [rc c1]. exact X. Qed.
Lemma fr_state_change c : sr_fr (snd (req_handle_state_change cb c)) = sr_fr c.
Proof.
  unfold req_handle_state_change. destruct (match c_in_state_previous c with Some s => _ | None => false end); [reflexivity|].
  destruct (req_state_eqb (c_in_state c) REQ_HEADERS); [|reflexivity].
  set (c0 := match c_in_tx c with Some _ => c | None => rq_fault c end).
  assert (X0 : sr_fr c0 = sr_fr c) by (unfold c0; destruct (c_in_tx c); reflexivity). clearbody c0. cbv zeta.
  destruct (_ =? c_HTP_REQUEST_HEADERS)%Z.
  - pose proof (fr_receiver_set H_REQUEST_HEADER_DATA c0) as X. destruct (req_receiver_set cb H_REQUEST_HEADER_DATA c0) as [rc c1]. cbn [snd] in X.
    destruct rc; cbn [snd]; rewrite <- X0, <- X; reflexivity.
  - destruct (_ =? c_HTP_REQUEST_TRAILER)%Z; [|cbn [snd]; exact X0].
    pose proof (fr_receiver_set H_REQUEST_TRAILER_DATA c0) as X. destruct (req_receiver_set cb H_REQUEST_TRAILER_DATA c0) as [rc c1]. cbn [snd] in X.
    destruct rc; cbn [snd]; rewrite <- X0, <- X; reflexivity.
Qed.
Lemma fr_exit rc c : sr_fr (fst (rq_exit cb g rc c)) = sr_fr c.
Proof.
  unfold rq_exit. destruct rc; try reflexivity.
  - pose proof (fr_receiver_send false c) as X. destruct (req_receiver_send_data cb false c) as [r1 c1]. exact X.
  - destruct (rq_at_end c); reflexivity.
  - pose proof (fr_receiver_send false c) as X. destruct (req_receiver_send_data cb false c) as [r1 c1]. cbn [snd] in X.
    pose proof (fr_req_buffer c1) as Y. destruct (req_buffer g c1) as [r2 c2]. cbn [snd] in Y. destruct r2; cbn [fst]; rewrite <- X, <- Y; reflexivity.
Qed.

(* ---- REQ_IDLE ---- *)
Lemma fr_tx_create c : sr_fr (snd (connp_tx_create g c)) = sr_fr c.
Proof. unfold connp_tx_create. fr_brk; reflexivity. Qed.
Lemma fr_request_start i c : sr_fr (snd (tx_state_request_start cb i c)) = sr_fr c.
Proof. unfold tx_state_request_start. rewrite (wr_run_hook cb Hcb). cbn [snd]. fr_brk; rewrite ?fr_tx_upd; reflexivity. Qed.
Lemma fr_REQ_IDLE c : sr_fr (snd (REQ_IDLE_fn cb g c)) = sr_fr c.
Proof.
  unfold REQ_IDLE_fn. destruct (rq_at_end c); [reflexivity|].
  pose proof (fr_tx_create c) as X. destruct (connp_tx_create g c) as [[i|] c1]; cbn [snd] in *; [rewrite fr_request_start; exact X|rewrite <- X; reflexivity].
Qed.

(* ---- REQ_LINE ---- *)
Lemma fr_request_line i c : sr_fr (snd (tx_state_request_line cb g i c)) = sr_fr c.
Proof.
  unfold tx_state_request_line. cbv zeta. destruct (rq_uri_pipeline_opt g _ _ _) as [t'|]; [|reflexivity].
  rewrite !(wr_run_hook cb Hcb). cbn [snd]. change (sr_fr (tx_put c i t') = sr_fr c). apply fr_tx_put.
Qed.
Lemma fr_with_tx (f : nat -> connp -> st * connp) c : (forall i x, sr_fr (snd (f i x)) = sr_fr x) -> sr_fr (snd (rq_with_tx f c)) = sr_fr c.
Proof. intros Hf. unfold rq_with_tx. destruct (c_in_tx c); [apply Hf|reflexivity]. Qed.
Lemma fr_LINE_complete c : sr_fr (snd (REQ_LINE_complete cb g c)) = sr_fr c.
Proof.
  unfold REQ_LINE_complete. pose proof (fr_consolidate c) as X. destruct (req_consolidate_data g c) as [[rc c1] data]. cbn [fst snd] in X.
  destruct rc; try exact X. destruct data as [|b data]; [cbn [snd]; exact X|].
  destruct (htp_is_line_ignorable _ _); [cbn [snd]; rewrite fr_clear_buffer, fr_rq_tx_upd; exact X|]. cbv zeta.
  match goal with |- context [rq_with_tx ?f ?x] => pose proof (fr_with_tx f x (fr_request_line)) as Y; destruct (rq_with_tx f x) as [r2 c2] end.
  cbn [snd] in Y. rewrite fr_rq_tx_upd in Y. destruct r2; cbn [snd]; rewrite ?fr_clear_buffer, Y; exact X.
Qed.
Lemma fr_LINE_loop : forall n c, sr_fr (snd (REQ_LINE_loop cb g n c)) = sr_fr c.
Proof.
  induction n as [|n IH]; intros c; cbn [REQ_LINE_loop]; cbv zeta.
  all: pose proof (fr_peek_next c) as X; set (c0 := rq_peek_next c) in *; clearbody c0.
  all: destruct (_ && _); [rewrite fr_LINE_complete; exact X|].
  all: destruct (rq_copy_byte c0) as [c1|] eqn:E; [|exact X]; pose proof (fr_copy_byte c0 c1 E) as Y.
  all: destruct (rq_next_is c1 LF); [rewrite fr_LINE_complete, Y; exact X|].
  - cbn [snd]. rewrite fr_fault, Y. exact X.
  - rewrite IH, Y. exact X.
Qed.

(* ---- REQ_PROTOCOL ---- *)
Lemma fr_to_headers c : sr_fr (rq_to_headers c) = sr_fr c. Proof. unfold rq_to_headers. rewrite fr_rq_tx_upd. reflexivity. Qed.
Lemma fr_PROTOCOL c : sr_fr (snd (REQ_PROTOCOL_fn c)) = sr_fr c.
Proof.
  unfold REQ_PROTOCOL_fn. destruct (negb _); [cbn [snd]; apply fr_to_headers|]. cbv zeta.
  destruct (_ <? _)%nat; [cbn [snd]; rewrite fr_to_headers; apply fr_rq_tx_upd|].
  pose proof (fr_slice c (k_read (c_in c)) (k_len (c_in c))) as X. destruct (rq_slice c _ _) as [c1 rest]. cbn [fst] in X.
  destruct (forallb _ _); cbn [snd]; [exact X|rewrite fr_to_headers, fr_rq_tx_upd; exact X].
Qed.

(* ---- REQ_HEADERS ---- *)
Lemma fr_process_header line c : sr_fr (rq_process_header line c) = sr_fr c. Proof. apply fr_rq_tx_upd. Qed.
Lemma fr_flush_header c : sr_fr (rq_flush_header c) = sr_fr c.
Proof. unfold rq_flush_header. destruct (k_header (c_in c)); [rewrite fr_set_in; apply fr_process_header|reflexivity]. Qed.
Lemma fr_process_request_headers i c : sr_fr (snd (tx_process_request_headers cb i c)) = sr_fr c.
Proof.
  unfold tx_process_request_headers. cbv zeta. destruct (match t_parsed_uri _ with Some nu => _ | None => _ end) as [t fault].
  set (c0 := if fault then _ else _). assert (X0 : sr_fr c0 = sr_fr c) by (unfold c0; destruct fault; [change (sr_fr (tx_put c i (rq_content_type t)) = sr_fr c)|]; apply fr_tx_put).
  clearbody c0. pose proof (fr_receiver_clear c0) as X. destruct (req_receiver_finalize_clear cb c0) as [rc c1]. cbn [snd] in X.
  destruct rc; cbn [snd]; rewrite ?fr_run_hook, X; exact X0.
Qed.
Lemma fr_request_headers i c : sr_fr (snd (tx_state_request_headers cb i c)) = sr_fr c.
Proof.
  unfold tx_state_request_headers. cbv zeta. destruct (_ <? _)%Z.
  - rewrite (wr_run_hook cb Hcb). match goal with |- context [req_receiver_finalize_clear cb ?x] => pose proof (fr_receiver_clear x) as X; destruct (req_receiver_finalize_clear cb x) as [rc c1] end.
    cbn [snd] in X. destruct rc; cbn [snd]; (change (sr_fr c1 = sr_fr c) || idtac); rewrite X; reflexivity.
  - destruct (_ <=? _)%Z; [|reflexivity].
    set (c0 := if negb _ then _ else c). assert (X0 : sr_fr c0 = sr_fr c) by (unfold c0; destruct (negb _); [apply fr_tx_upd|reflexivity]). clearbody c0.
    pose proof (fr_process_request_headers i c0) as X. destruct (tx_process_request_headers cb i c0) as [rc c1]. cbn [snd] in X.
    destruct rc; cbn [snd]; rewrite <- X0, <- X; reflexivity.
Qed.
Lemma fr_header_line c : sr_fr (snd (rq_header_line cb g c)) = sr_fr c /\
  match fst (rq_header_line cb g c) with Some r => sr_fr (snd r) = sr_fr c | None => True end.
Proof.
  unfold rq_header_line. pose proof (fr_consolidate c) as X. destruct (req_consolidate_data g c) as [[rc c1] data]. cbn [fst snd] in X.
  destruct rc; cbn [fst snd]; try (split; exact X).
  destruct (htp_is_line_terminator _ _ _).
  - cbv zeta. cbn [fst snd]. rewrite fr_clear_buffer, fr_flush_header. split; [exact X|].
    rewrite (fr_with_tx _ _ fr_request_headers), fr_clear_buffer, fr_flush_header. exact X.
  - cbv zeta. cbn [fst snd]. split; [|exact I]. rewrite fr_clear_buffer.
    destruct (_ =? 0)%Z.
    + match goal with |- context [rq_peek_next ?x] => pose proof (fr_peek_next x) as Y; set (c2 := rq_peek_next x) in *; clearbody c2 end.
      rewrite fr_flush_header in Y.
      destruct (k_next_byte (c_in c2)) as [b|]; [destruct (negb _)|]; rewrite ?fr_process_header, ?fr_set_in, Y; exact X.
    + destruct (k_header (c_in c1)); [destruct (_ <? _)%Z|]; rewrite ?fr_set_in, ?fr_rq_tx_upd; exact X.
Qed.
Lemma fr_HEADERS_loop : forall n c, sr_fr (snd (REQ_HEADERS_loop cb g n c)) = sr_fr c.
Proof.
  induction n as [|n IH]; intros c; cbn [REQ_HEADERS_loop].
  - destruct (_ =? c_HTP_STREAM_CLOSED)%Z; [cbv zeta; rewrite (fr_with_tx _ _ fr_request_headers), fr_rq_tx_upd, fr_clear_buffer, fr_flush_header; reflexivity|].
    destruct (rq_copy_byte c) as [c1|] eqn:E; [|reflexivity]. pose proof (fr_copy_byte c c1 E) as Y.
    destruct (rq_next_is c1 LF); [|cbn [snd]; rewrite fr_fault; exact Y].
    destruct (fr_header_line c1) as [A B]. destruct (rq_header_line cb g c1) as [[r|] c2]; cbn [fst snd] in A, B.
    + rewrite B. exact Y.
    + cbn [snd]. rewrite fr_fault, A. exact Y.
  - destruct (_ =? c_HTP_STREAM_CLOSED)%Z; [cbv zeta; rewrite (fr_with_tx _ _ fr_request_headers), fr_rq_tx_upd, fr_clear_buffer, fr_flush_header; reflexivity|].
    destruct (rq_copy_byte c) as [c1|] eqn:E; [|reflexivity]. pose proof (fr_copy_byte c c1 E) as Y.
    destruct (rq_next_is c1 LF); [|rewrite IH; exact Y].
    destruct (fr_header_line c1) as [A B]. destruct (rq_header_line cb g c1) as [[r|] c2]; cbn [fst snd] in A, B.
    + rewrite B. exact Y.
    + rewrite IH, A. exact Y.
Qed.

(* ---- REQ_CONNECT_CHECK, REQ_BODY_DETERMINE ---- *)
Lemma fr_CONNECT_CHECK c : sr_fr (snd (REQ_CONNECT_CHECK_fn c)) = sr_fr c. Proof. unfold REQ_CONNECT_CHECK_fn. fr_brk; reflexivity. Qed.
Lemma fr_BODY_DETERMINE c : sr_fr (snd (REQ_BODY_DETERMINE_fn c)) = sr_fr c.
Proof. unfold REQ_BODY_DETERMINE_fn. cbv zeta. fr_brk; cbn [snd]; rewrite ?fr_rq_tx_upd; reflexivity. Qed.

(* ---- REQ_FINALIZE ---- *)
Lemma fr_otx a b : sr_fr a = sr_fr b -> c_out_tx b = None -> c_out_tx a = None.
Proof. unfold sr_fr. intros H E. inversion H. congruence. Qed.
Lemma fr_destroy_incomplete c i : c_out_tx c = None -> sr_fr (tx_destroy_incomplete c i) = sr_fr c.
Proof.
  intros E. unfold tx_destroy_incomplete.
  set (c1 := if (i <? c_txs_shifted c)%nat then c else _). assert (X1 : sr_fr c1 = sr_fr c) by (unfold c1; destruct (_ <? _)%nat; reflexivity). clearbody c1.
  set (c2 := match c_in_tx c1 with Some j => _ | None => c1 end).
  assert (X2 : sr_fr c2 = sr_fr c) by (unfold c2; destruct (c_in_tx c1) as [j|]; [destruct (j =? i)%nat|]; exact X1). clearbody c2.
  rewrite (fr_otx c2 c X2 E). exact X2.
Qed.
Lemma fr_destroy c i : c_out_tx c = None -> sr_fr (tx_destroy c i) = sr_fr c.
Proof. intros E. unfold tx_destroy. destruct (tx_slot c i) as [t|]; [|reflexivity]. destruct (tx_is_complete t); [apply fr_destroy_incomplete; exact E|reflexivity]. Qed.
Lemma fr_finalize i c : c_out_tx c = None -> sr_fr (snd (tx_finalize cb g i c)) = sr_fr c.
Proof.
  intros E. unfold tx_finalize. destruct (tx_slot c i) as [t|]; [|reflexivity]. destruct (negb _); [reflexivity|].
  unfold run_hook_ex. rewrite Hcb.
  set (c1 := emit _ _). assert (X1 : sr_fr c1 = sr_fr c) by reflexivity. clearbody c1.
  destruct (tx_slot c1 i); [|cbn [snd]; exact X1]. cbn [snd]. destruct (g_tx_auto_destroy g); [|exact X1].
  rewrite (fr_destroy c1 i (fr_otx c1 c X1 E)). exact X1.
Qed.
Lemma fr_req_body_data i data n c : sr_fr (snd (tx_req_process_body_data_ex cb i data n c)) = sr_fr c.
Proof.
  unfold tx_req_process_body_data_ex. cbv zeta.
  set (c1 := tx_upd c i _). assert (X1 : sr_fr c1 = sr_fr c) by apply fr_tx_upd. clearbody c1.
  assert (X : sr_fr (snd (req_run_hook_body_data cb data (match data with Some _ => false | None => (n =? 0)%nat end) c1)) = sr_fr c1).
  { unfold req_run_hook_body_data. destruct data as [[|b d]|]; try reflexivity.
    all: destruct (c_in_tx c1); [|reflexivity]; unfold run_data_hook; rewrite (wr_run_hook_ex cb Hcb); cbn [snd]; rewrite fr_hook_ev, fr_run_tx_hooks; reflexivity. }
  destruct (req_run_hook_body_data cb data _ c1) as [rc c2]. cbn [snd] in X. destruct rc; cbn [snd]; rewrite X; exact X1.
Qed.
Lemma fr_complete_partial i c : sr_fr (snd (tx_state_request_complete_partial cb i c)) = sr_fr c.
Proof.
  unfold tx_state_request_complete_partial.
  assert (X0 : sr_fr (snd (if tx_req_has_body (tx_get c i) then tx_req_process_body_data_ex cb i None 0 c else (ST_OK, c))) = sr_fr c)
    by (destruct (tx_req_has_body _); [apply fr_req_body_data|reflexivity]).
  destruct (if tx_req_has_body (tx_get c i) then _ else _) as [rc c1]. cbn [snd] in X0. destruct rc; cbn [snd]; try exact X0.
  rewrite (wr_run_hook cb Hcb). match goal with |- context [req_receiver_finalize_clear cb ?x] => rewrite (fr_receiver_clear x) end.
  rewrite fr_hook_ev, fr_tx_upd. exact X0.
Qed.
Lemma fr_request_complete i c : c_out_tx c = None -> sr_fr (snd (tx_state_request_complete cb g i c)) = sr_fr c.
Proof.
  intros E. unfold tx_state_request_complete. destruct (tx_slot c i) as [t0|]; [|reflexivity].
  assert (X0 : sr_fr (snd (if negb (t_request_progress t0 =? c_HTP_REQUEST_COMPLETE)%Z then tx_state_request_complete_partial cb i c else (ST_OK, c))) = sr_fr c)
    by (destruct (negb _); [apply fr_complete_partial|reflexivity]).
  destruct (if negb _ then _ else _) as [rc c1]. cbn [snd] in X0. destruct rc; cbn [snd]; try exact X0.
  set (c2 := match tx_slot c1 i with None => _ | Some t => _ end).
  assert (X2 : sr_fr c2 = sr_fr c) by (unfold c2; destruct (tx_slot c1 i); exact X0). clearbody c2.
  pose proof (fr_finalize i c2 (fr_otx c2 c X2 E)) as X3. destruct (tx_finalize cb g i c2) as [r3 c3]. cbn [snd] in *. rewrite <- X2, <- X3. reflexivity.
Qed.
Lemma fr_rq_request_complete c : c_out_tx c = None -> sr_fr (snd (rq_request_complete cb g c)) = sr_fr c.
Proof. intros E. unfold rq_request_complete, rq_with_tx. destruct (c_in_tx c); [apply fr_request_complete; exact E|reflexivity]. Qed.
Lemma fr_peek_copy_until stop : forall n c, sr_fr (snd (rq_peek_copy_until stop n c)) = sr_fr c.
Proof.
  induction n as [|n IH]; intros c; cbn [rq_peek_copy_until]; cbv zeta.
  all: pose proof (fr_peek_next c) as X; set (c0 := rq_peek_next c) in *; clearbody c0.
  all: destruct (match k_next_byte (c_in c0) with Some b => stop b | None => false end); [exact X|].
  all: destruct (rq_copy_byte c0) as [c1|] eqn:E; [|exact X]; pose proof (fr_copy_byte c0 c1 E) as Y.
  - cbn [snd]. rewrite fr_fault, Y. exact X.
  - rewrite IH, Y. exact X.
Qed.
Lemma fr_FINALIZE c : c_out_tx c = None -> sr_fr (snd (REQ_FINALIZE_fn cb g c)) = sr_fr c.
Proof.
  intros E. unfold REQ_FINALIZE_fn.
  assert (Xs : match rq_finalize_scan c with RF_complete c1 | RF_buffer c1 | RF_probe c1 => sr_fr c1 = sr_fr c end).
  { unfold rq_finalize_scan. destruct (_ =? c_HTP_STREAM_CLOSED)%Z; [reflexivity|]. cbv zeta.
    pose proof (fr_peek_next c) as X; set (c0 := rq_peek_next c) in *; clearbody c0.
    destruct (k_next_byte (c_in c0)) as [b|]; [|exact X]. destruct (_ || _); [|exact X].
    pose proof (fr_peek_copy_until (fun b => (b =? LF)%N) (k_len (c_in c0) - k_read (c_in c0)) c0) as Y.
    destruct (rq_peek_copy_until _ _ c0) as [[|] c1]; cbn [snd] in Y; rewrite Y; exact X. }
  destruct (rq_finalize_scan c) as [c1|c1|c1].
  - rewrite (fr_rq_request_complete c1 (fr_otx c1 c Xs E)). exact Xs.
  - exact Xs.
  - pose proof (fr_consolidate c1) as X. destruct (req_consolidate_data g c1) as [[rc c2] data]. cbn [fst snd] in X.
    assert (X2 : sr_fr c2 = sr_fr c) by (rewrite X; exact Xs).
    destruct rc; cbn [snd]; try exact X2.
    destruct data as [|b0 data0]; [rewrite (fr_rq_request_complete c2 (fr_otx c2 c X2 E)); exact X2|].
    destruct (rq_probe_method (b0 :: data0)) as [mstart pos]. cbv zeta.
    destruct (_ && negb _).
    + match goal with |- context [rq_request_complete cb g ?x] => assert (X3 : sr_fr x = sr_fr c) by exact X2; rewrite (fr_rq_request_complete x (fr_otx x c X3 E)) end. exact X2.
    + set (c3 := if (mstart <? pos)%nat && _ then _ else c2). assert (X3 : sr_fr c3 = sr_fr c) by (unfold c3; destruct (_ && _); exact X2). clearbody c3.
      destruct (rq_next_is c3 LF).
      * destruct (rq_copy_byte c3) as [c4|] eqn:E4; [|exact X3]. pose proof (fr_copy_byte c3 c4 E4) as X4.
        pose proof (fr_consolidate c4) as X5. destruct (req_consolidate_data g c4) as [[r5 c5] d5]. cbn [fst snd] in X5.
        assert (X6 : forall dd, sr_fr (snd (let '(rc, c) := rq_with_tx (fun i => tx_req_process_body_data_ex cb i (Some dd) 0) c5 in (rc, req_clear_buffer c))) = sr_fr c).
        { intros dd. pose proof (fr_with_tx (fun i => tx_req_process_body_data_ex cb i (Some dd) 0) c5 (fun i x => fr_req_body_data i (Some dd) 0 x)) as Z.
          destruct (rq_with_tx _ c5) as [r6 c6]. cbn [snd] in *. rewrite fr_clear_buffer, Z, X5, X4. exact X3. }
        destruct r5; apply X6.
      * pose proof (fr_with_tx (fun i => tx_req_process_body_data_ex cb i (Some (b0 :: data0)) 0) c3 (fun i x => fr_req_body_data i (Some (b0 :: data0)) 0 x)) as Z.
        destruct (rq_with_tx _ c3) as [r6 c6]. cbn [snd] in *. rewrite fr_clear_buffer, Z. exact X3.
Qed.

(* ---- one pass of the loop of htp_connp_req_data, in one of the states a request without body goes through ---- *)
Definition sr_safe_state (s : req_state) : Prop :=
  s = REQ_IDLE \/ s = REQ_LINE \/ s = REQ_PROTOCOL \/ s = REQ_HEADERS \/ s = REQ_CONNECT_CHECK \/ s = REQ_BODY_DETERMINE \/ s = REQ_FINALIZE.
Lemma fr_state_fn c : sr_safe_state (c_in_state c) -> c_out_tx c = None -> sr_fr (snd (rq_state_fn cb g (c_in_state c) c)) = sr_fr c.
Proof.
  intros [S|[S|[S|[S|[S|[S|S]]]]]] E; rewrite S; cbn [rq_state_fn].
  - apply fr_REQ_IDLE.
  - apply fr_LINE_loop.
  - apply fr_PROTOCOL.
  - apply fr_HEADERS_loop.
  - apply fr_CONNECT_CHECK.
  - apply fr_BODY_DETERMINE.
  - apply fr_FINALIZE. exact E.
Qed.
Lemma fr_iter c : sr_safe_state (c_in_state c) -> c_out_tx c = None ->
  match rq_iter cb g false c with inl r => sr_fr (fst r) = sr_fr c | inr c' => sr_fr c' = sr_fr c end.
Proof.
  intros S E. unfold rq_iter. cbv zeta. pose proof (fr_state_fn c S E) as X. destruct (rq_state_fn cb g (c_in_state c) c) as [rc c1]. cbn [snd] in X.
  destruct rc; try (rewrite fr_exit; exact X).
  destruct (_ =? c_HTP_STREAM_TUNNEL)%Z; [exact X|].
  pose proof (fr_state_change c1) as Y. destruct (req_handle_state_change cb c1) as [r2 c2]. cbn [snd] in Y.
  destruct r2; try (rewrite fr_exit); rewrite Y; exact X.
Qed.
End Frame.

(* ================= the parser after  htp_connp_open ; htp_connp_req_data(whole grammar request) ================= *)
Require Import Htp.Proof.PSegLine Htp.Proof.PSegHdr Htp.Proof.PSegGen Htp.Proof.PSegRun Htp.Proof.PSegFold Htp.Proof.PSegRes Htp.Proof.PSegResLine Htp.Proof.PSegResHdr Htp.Proof.PSegResGen.

Lemma sr_fr_next cb g (Hcb : wr_all_ok cb) c c' base : sr_safe_state (c_in_state c) -> sr_fr c = base -> (let '(_, _, _, _, otx, _, _, _) := base in otx = None) ->
  rq_iter cb g false c = inr c' -> sr_fr c' = base.
Proof.
  intros S F O E. assert (Eo : c_out_tx c = None). { rewrite <- F in O. unfold sr_fr in O. exact O. }
  pose proof (fr_iter cb g Hcb c S Eo) as X. rewrite E in X. rewrite X. exact F.
Qed.

Theorem sr_after_request : forall cb g r, wr_all_ok cb -> g_allow_space_uri g = false -> wr_request_ok r = true ->
  exists t, sr_ready t (fst (cp_run cb g connp_new [OpOpen; OpReqData (wr_request_wire r)])) /\ wr_reported t r.
Proof.
  intros cb g [m u p fs] Hcb Hsp Wr.
  set (c0 := forget_chunks (connp_open connp_new) <| c_events := [] |>).
  assert (Ecp : fst (cp_run cb g connp_new [OpOpen; OpReqData (wr_request_wire (mk_wr_request m u p fs))]) =
                forget_chunks (fst (connp_req_data cb g (Some (wr_request_wire (mk_wr_request m u p fs))) (length (wr_request_wire (mk_wr_request m u p fs))) c0)) <| c_events := [] |>).
  { unfold cp_run, cp_step, finish_call. fold c0. destruct (connp_req_data cb g _ _ c0) as [c rc]. reflexivity. }
  rewrite Ecp. clear Ecp.
  pose proof Wr as Wr0. unfold wr_request_ok in Wr. cbn [wq_method wq_uri wq_protocol wq_fields] in Wr.
  apply andb_prop in Wr. destruct Wr as [Wr Wc]. apply andb_prop in Wr. destruct Wr as [Wr Wnf]. apply andb_prop in Wr. destruct Wr as [Wl Wb].
  apply negb_true_iff in Wnf. apply negb_true_iff in Wc.
  unfold wr_request_wire. cbn [wq_method wq_uri wq_protocol wq_fields].
  set (d := wr_ser_request m u p fs).
  assert (Ed : d = wr_ser_request_line m u p ++ [CR; LF] ++ (wr_block_wire fs ++ [CR; LF])) by reflexivity.
  assert (Hne : d <> []).
  { rewrite Ed. destruct (wr_reqline_bytes m u p Wl) as (_ & _ & (m0 & y & l & E & _)). rewrite E. discriminate. }
  assert (Hlen0 : (length d =? 0)%nat = false) by (destruct d; [contradiction|reflexivity]).
  unfold connp_req_data. change (c_in_status c0) with c_HTP_STREAM_OPEN.
  change ((c_HTP_STREAM_OPEN =? c_HTP_STREAM_STOP)%Z) with false. change ((c_HTP_STREAM_OPEN =? c_HTP_STREAM_ERROR)%Z) with false. cbv iota.
  change (c_in_tx c0) with (@None nat). change (c_in_state c0) with REQ_IDLE. cbn [req_state_eqb negb]. rewrite Hlen0. cbn [andb].
  match goal with |- context [rq_loop cb g _ _ ?x] => set (c1 := x) end.
  assert (St1 : (c_in_status (rq_set_in (fun k => k <| k_data := Some d |> <| k_len := length d |> <| k_read := 0%nat |> <| k_consume := 0%nat |> <| k_receiver := 0%nat |>) c0
                   <| c_in_chunk_count ::= S |> <| c_in_data_counter ::= Z.add (Z.of_nat (length d)) |>) =? c_HTP_STREAM_TUNNEL)%Z = false) by reflexivity.
  rewrite St1 in *. clear St1.
  assert (Idle1 : wr_idle c1 d) by (unfold c1; constructor; reflexivity).
  set (base := (c_HTP_STREAM_OPEN, RES_IDLE, @None res_state, cursor_new, @None nat, 0%nat, 0%nat, false)).
  assert (F1 : sr_fr c1 = base) by reflexivity.
  assert (Ob : let '(_, _, _, _, otx, _, _, _) := base in otx = @None nat) by reflexivity.
  clearbody c1.
  replace (rq_fuel (length d)) with (S (S (S (S (S (S (S (S (16 * length d + 8))))))))) by (unfold rq_fuel; lia).
  (* 1 *)
  destruct (wr_pass_idle cb g Hcb c1 d Idle1 Hne) as (c2 & E1 & Inv2). rewrite wr_rq_loop_S, E1.
  assert (F2 : sr_fr c2 = base) by (apply (sr_fr_next cb g Hcb c1 c2 base); [left; apply (id_state _ _ Idle1)|exact F1|exact Ob|exact E1]).
  (* 2 *)
  destruct (wr_pass_line cb g Hcb Hsp c2 d wr_t1 m u p (wr_block_wire fs ++ [CR; LF]) Inv2 eq_refl Wl Ed) as (c3 & t3 & E2 & Inv3 & F3 & Hh3 & Hr3 & Pg3 & Rp3 & (nu & Pu3)).
  rewrite wr_rq_loop_S, E2.
  assert (G3 : sr_fr c3 = base) by (apply (sr_fr_next cb g Hcb c2 c3 base); [right; left; apply (iv_state _ _ _ _ _ _ _ _ Inv2)|exact F2|exact Ob|exact E2]).
  set (r1 := (length (wr_ser_request_line m u p) + 2)%nat) in *.
  (* 3 *)
  assert (Z3 : t_is_protocol_0_9 t3 = false) by (unfold wr_line_fields in F3; decompose [and] F3; assumption).
  destruct (wr_pass_protocol cb g c3 d r1 t3 Inv3 Z3) as (c4 & E3 & Inv4). rewrite wr_rq_loop_S, E3.
  assert (G4 : sr_fr c4 = base) by (apply (sr_fr_next cb g Hcb c3 c4 base); [right; right; left; apply (iv_state _ _ _ _ _ _ _ _ Inv3)|exact G3|exact Ob|exact E3]).
  set (t4 := t3 <| t_request_progress := c_HTP_REQUEST_HEADERS |>) in *.
  (* 4 *)
  assert (Hseg : wr_seg_at d r1 (wr_block_wire fs ++ [CR; LF])).
  { exists (wr_ser_request_line m u p ++ [CR; LF]), []. split; [rewrite app_nil_r, Ed, <- !app_assoc; reflexivity|unfold r1; rewrite app_length; reflexivity]. }
  assert (Hlen : length d = (r1 + length (wr_block_wire fs) + 2)%nat) by (rewrite Ed, !app_length; unfold r1; cbn [length]; lia).
  destruct (wr_pass_headers cb g Hcb c4 d r1 t4 fs nu Inv4 eq_refl Hh3 Hr3 Pu3 Wb Wnf Hseg Hlen) as (c5 & t5 & E4 & Inv5 & Hd5 & K5 & Tc5).
  rewrite wr_rq_loop_S, E4.
  assert (G5 : sr_fr c5 = base) by (apply (sr_fr_next cb g Hcb c4 c5 base); [right; right; right; left; apply (iv_state _ _ _ _ _ _ _ _ Inv4)|exact G4|exact Ob|exact E4]).
  unfold wr_keep_l in K5. destruct K5 as (K51 & K52 & K53 & K54 & K55 & K56 & K57 & K58 & K59).
  unfold wr_line_fields in F3. destruct F3 as (F31 & F32 & F33 & F34 & F35 & F36).
  (* 5 *)
  assert (M5 : (t_request_method_number t5 =? c_HTP_M_CONNECT)%Z = false).
  { rewrite K52. change (t_request_method_number t4) with (t_request_method_number t3). rewrite F32. apply wr_not_connect. exact Wc. }
  destruct (wr_pass_connect_check cb g c5 d _ _ _ t5 Inv5 M5) as (c6 & E5 & Inv6). rewrite wr_rq_loop_S, E5.
  assert (G6 : sr_fr c6 = base) by (apply (sr_fr_next cb g Hcb c5 c6 base); [right; right; right; right; left; apply (iv_state _ _ _ _ _ _ _ _ Inv5)|exact G5|exact Ob|exact E5]).
  (* 6 *)
  destruct (wr_pass_body_determine cb g c6 d _ _ _ t5 Inv6 Tc5) as (c7 & E6 & Inv7). rewrite wr_rq_loop_S, E6.
  assert (G7 : sr_fr c7 = base) by (apply (sr_fr_next cb g Hcb c6 c7 base); [right; right; right; right; right; left; apply (iv_state _ _ _ _ _ _ _ _ Inv6)|exact G6|exact Ob|exact E6]).
  (* 7 *)
  assert (Pg5 : t_request_progress t5 = c_HTP_REQUEST_HEADERS) by (rewrite K57; reflexivity).
  assert (Rp5 : (t_response_progress t5 =? c_HTP_RESPONSE_COMPLETE)%Z = false).
  { rewrite K58. change (t_response_progress t4) with (t_response_progress t3). rewrite Rp3. reflexivity. }
  assert (Z5 : t_is_protocol_0_9 t5 = false) by (rewrite K56; exact Z3).
  destruct (wr_pass_finalize cb g Hcb c7 d t5 Inv7 Tc5 Pg5 Rp5 Z5) as (c8 & E7 & Dn8 & St8 & Ln8 & Rd8 & Rh8). rewrite wr_rq_loop_S, E7.
  assert (G8 : sr_fr c8 = base) by (apply (sr_fr_next cb g Hcb c7 c8 base); [right; right; right; right; right; right; apply (iv_state _ _ _ _ _ _ _ _ Inv7)|exact G7|exact Ob|exact E7]).
  (* 8 *)
  rewrite wr_rq_loop_S, (wr_pass_idle_end cb g c8 _ (length d) Dn8 St8 Ln8 Rd8 Rh8). cbn [fst].
  exists (t5 <| t_request_progress := c_HTP_REQUEST_COMPLETE |>). split.
  - apply sr_ready_finish. unfold sr_fr, base in G8. inversion G8 as [[A1 A2 A3 A4 A5 A6 A7 A8]].
    constructor; cbn [c_out_status c_out_state c_out_state_previous c_out c_out_tx c_out_next_tx_index c_txs c_txs_shifted c_in_tx c_out_data_other_at_tx_end set];
      try assumption; try (rewrite A4; reflexivity); try (rewrite A7; exact A6); try (rewrite A1; left; reflexivity);
      try apply (dn_txs _ _ Dn8); try apply (dn_tx _ _ Dn8).
  - unfold wr_reported. cbn [wq_method wq_uri wq_protocol wq_fields t_request_method t_request_method_number t_request_uri t_request_protocol
      t_request_protocol_number t_is_protocol_0_9 t_request_headers t_request_progress set].
    repeat split; try congruence.
    + rewrite K51. exact F31.
    + rewrite K52. exact F32.
    + rewrite K53. exact F33.
    + rewrite K54. exact F34.
    + rewrite K55. exact F35.
Qed.
Print Assumptions sr_after_request.
