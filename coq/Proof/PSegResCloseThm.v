(* C03, response direction, close-delimited response bodies: corollaries (the statement as an equation between the chunked and the
   single-chunk run, both followed by htp_connp_close), what the reference transaction says (response_entity_len =
   response_message_len = |body|, progress COMPLETE), the vm_compute harness the statements were tested with before they were
   proved, and the block of theorems for re-export (chunk-coded AND close-delimited response bodies). *)
Require Import Htp.Model.Base Htp.Model.MBstr Htp.Model.MConnTypes Htp.Model.MTxCommon Htp.Model.MResLine Htp.Model.MTxRes.
Require Import Htp.Model.MReq Htp.Model.MRes Htp.Model.MConnp.
Require Import Htp.Spec.SWire Htp.Spec.SBody Htp.Proof.PWire Htp.Proof.PWireHdr Htp.Proof.PWireBlock Htp.Proof.PWireConn Htp.Proof.PWireExch.
Require Import Htp.Proof.PWireRun Htp.Proof.PWirePres Htp.Proof.PWireGlue Htp.Proof.PSeg Htp.Proof.PSegLine Htp.Proof.PSegHdr Htp.Proof.PSegGen Htp.Proof.PSegRun.
Require Import Htp.Proof.PSegFold Htp.Proof.PSegRes Htp.Proof.PSegResLine Htp.Proof.PSegResHdr Htp.Proof.PSegResGen Htp.Proof.PSegResRun Htp.Proof.PSegResReq Htp.Proof.PSegResThm.
Require Import Htp.Proof.PSegResChGen Htp.Proof.PSegResCh Htp.Proof.PSegResChRun Htp.Proof.PSegResChThm Htp.Proof.PSegResClose.

(* ================= chunked delivery + close = single-chunk delivery + close ================= *)
Theorem sr_response_close_chunking_obs : forall cb g rq r (cuts : list (list bytes)) (body : bytes) (chunks : list bytes),
  wr_all_ok cb -> g_allow_space_uri g = false -> wr_request_ok rq = true ->
  sr_response_ok r = true -> sr_cuts_ok r cuts = true -> sr_framed_close cb g rq r cuts = true -> sr_fits g r cuts = true ->
  Forall (fun x => x <> []) chunks -> concat chunks = sr_wire r cuts body ->
  sr_f1_free body (negb (sr_is_nil (sr_lines r cuts))) chunks = true ->
  c_txs (fst (cp_run cb g connp_new (OpOpen :: OpReqData (wr_request_wire rq) :: map OpResData chunks ++ [OpClose]))) =
  c_txs (fst (cp_run cb g connp_new [OpOpen; OpReqData (wr_request_wire rq); OpResData (sr_wire r cuts body); OpClose])).
Proof.
  intros cb g rq r cuts body chunks Hcb Hsp Wq Wr Wc Hfr Hfit Hall Hc Hf1.
  rewrite (sr_response_close_chunking cb g rq r cuts body chunks Hcb Hsp Wq Wr Wc Hfr Hfit Hall Hc Hf1).
  pose proof (sr_response_close_chunking cb g rq r cuts body [sr_wire r cuts body] Hcb Hsp Wq Wr Wc Hfr Hfit) as E2.
  cbn [map app] in E2. rewrite E2; [reflexivity| | |].
  - constructor; [apply sr_wire_ne|constructor].
  - cbn [concat]. apply app_nil_r.
  - apply sr_f1_free_single. exact Wr.
Qed.
Theorem sr_response_close_two_chunkings : forall cb g rq r (cuts : list (list bytes)) (body : bytes) (chunks1 chunks2 : list bytes),
  wr_all_ok cb -> g_allow_space_uri g = false -> wr_request_ok rq = true ->
  sr_response_ok r = true -> sr_cuts_ok r cuts = true -> sr_framed_close cb g rq r cuts = true -> sr_fits g r cuts = true ->
  Forall (fun x => x <> []) chunks1 -> concat chunks1 = sr_wire r cuts body -> sr_f1_free body (negb (sr_is_nil (sr_lines r cuts))) chunks1 = true ->
  Forall (fun x => x <> []) chunks2 -> concat chunks2 = sr_wire r cuts body -> sr_f1_free body (negb (sr_is_nil (sr_lines r cuts))) chunks2 = true ->
  sg_obs cb g (OpOpen :: OpReqData (wr_request_wire rq) :: map OpResData chunks1 ++ [OpClose]) =
  sg_obs cb g (OpOpen :: OpReqData (wr_request_wire rq) :: map OpResData chunks2 ++ [OpClose]).
Proof.
  intros cb g rq r cuts body ch1 ch2 Hcb Hsp Wq Wr Wc Hfr Hfit A1 B1 C1 A2 B2 C2. unfold sg_obs.
  rewrite (sr_response_close_chunking cb g rq r cuts body ch1 Hcb Hsp Wq Wr Wc Hfr Hfit A1 B1 C1).
  rewrite (sr_response_close_chunking cb g rq r cuts body ch2 Hcb Hsp Wq Wr Wc Hfr Hfit A2 B2 C2). reflexivity.
Qed.

(* ================= what the reference transaction says ================= *)
Lemma rlk_hdrs_tx_close t : sr_rlk (sr_hdrs_tx_close t) = sr_rlk t.
Proof. unfold sr_hdrs_tx_close, sr_det_tx_close. cbv zeta. destruct (rs_hdr_get_c (t_response_headers t) rs_str_content_type); reflexivity. Qed.
Theorem sr_tclose_lens : forall t0 r (cuts : list (list bytes)) (n : nat),
  t_response_entity_len (sr_tclose t0 r cuts n) = (t_response_entity_len t0 + Z.of_nat n)%Z /\
  t_response_message_len (sr_tclose t0 r cuts n) = (t_response_message_len t0 + Z.of_nat n)%Z /\
  t_response_progress (sr_tclose t0 r cuts n) = c_HTP_RESPONSE_COMPLETE.
Proof.
  intros t0 r cuts n. unfold sr_tclose.
  destruct (rlk_split _ _ (rlk_tend t0 r cuts)) as [K0e K0m]. destruct (rlk_split _ _ (rlk_hdrs_tx_close (sr_tend t0 r cuts))) as [K1e K1m].
  set (TH := sr_hdrs_tx_close (sr_tend t0 r cuts)) in *. clearbody TH.
  split; [|split; [|reflexivity]].
  - change (t_response_entity_len (sr_tcomplete ?x)) with (Z.of_nat 0 + t_response_entity_len x)%Z.
    destruct n as [|n']; cbn [sr_body_add']; [lia|]. change (t_response_entity_len (sr_body_add (S n') TH)) with (Z.of_nat (S n') + t_response_entity_len TH)%Z. lia.
  - change (t_response_message_len (sr_tcomplete ?x)) with (Z.of_nat 0 + t_response_message_len x)%Z.
    destruct n as [|n']; cbn [sr_body_add']; [lia|]. change (t_response_message_len (sr_body_add (S n') TH)) with (Z.of_nat (S n') + t_response_message_len TH)%Z. lia.
Qed.
(* every folding and chunking: after the close, the body was counted exactly once *)
Theorem sr_response_close_counted : forall cb g rq r (cuts : list (list bytes)) (body : bytes) (chunks : list bytes),
  wr_all_ok cb -> g_allow_space_uri g = false -> wr_request_ok rq = true -> sg_fits g rq = true -> g_tx_auto_destroy g = false ->
  sr_response_ok r = true -> sr_cuts_ok r cuts = true -> sr_framed_close cb g rq r cuts = true -> sr_fits g r cuts = true ->
  Forall (fun x => x <> []) chunks -> concat chunks = sr_wire r cuts body ->
  sr_f1_free body (negb (sr_is_nil (sr_lines r cuts))) chunks = true ->
  exists t, c_txs (fst (cp_run cb g connp_new (OpOpen :: OpReqData (wr_request_wire rq) :: map OpResData chunks ++ [OpClose]))) = [Some t] /\
    t_response_entity_len t = Z.of_nat (length body) /\ t_response_message_len t = Z.of_nat (length body) /\
    t_response_progress t = c_HTP_RESPONSE_COMPLETE.
Proof.
  intros cb g rq r cuts body chunks Hcb Hsp Wq Hfq Had Wr Wc Hfr Hfit Hall Hc Hf1.
  pose proof (sr_response_close_chunking cb g rq r cuts body chunks Hcb Hsp Wq Wr Wc Hfr Hfit Hall Hc Hf1) as T.
  unfold sr_final in T. rewrite Had in T.
  exists (sr_tclose (sr_treq cb g rq) r cuts (length body)). split; [exact T|].
  destruct (sr_tclose_lens (sr_treq cb g rq) r cuts (length body)) as (L1 & L2 & L3).
  pose proof (sr_treq_lens cb g rq Hcb Hsp Wq Hfq) as L0. unfold sr_rlk in L0.
  assert (L0e : t_response_entity_len (sr_treq cb g rq) = 0%Z) by (revert L0; generalize (sr_treq cb g rq); intros X L0; injection L0 as A _; exact A).
  assert (L0m : t_response_message_len (sr_treq cb g rq) = 0%Z) by (revert L0; generalize (sr_treq cb g rq); intros X L0; injection L0 as _ A; exact A).
  rewrite L0e in L1. rewrite L0m in L2. cbn [Z.add] in L1, L2.
  split; [exact L1|]. split; [exact L2|exact L3].
Qed.

(* ================= non-vacuity and the vm_compute harness (evaluated BEFORE the proofs were written) ================= *)
Require Coq.Strings.String.
Import Coq.Strings.String.StringSyntax.
Local Open Scope string_scope.
Local Notation "a +++ b" := (@app N a b) (at level 60, right associativity).
Definition sr_ex_runc (g : cfg) (chunks : list bytes) : list (option tx) :=
  c_txs (fst (cp_run sg_ex_ok g connp_new (OpOpen :: OpReqData (wr_request_wire wr_ex_req) :: map OpResData chunks ++ [OpClose]))).
(* HTTP/1.1 200 OK | X-A: b || LF HTTP/1.1 200 OK CRLF CR   -- a body that looks like the start of another response *)
Definition sr_ex_clr : wr_response := mk_wr_response wr_http11 (bd_str "200") (bd_str "OK") [mk_wr_field (bd_str "X-A") [SP] (bd_str "b") []].
Definition sr_ex_clbody : bytes := [LF] +++ bd_lines ["HTTP/1.1 200 OK"] +++ [CR].
Definition sr_ex_clwire : bytes := sr_wire sr_ex_clr (sr_cuts_whole sr_ex_clr) sr_ex_clbody.
Example sr_ex_close_premises :
  sr_response_ok sr_ex_clr = true /\ sr_framed_close sg_ex_ok (sg_ex_cfg 18000) wr_ex_req sr_ex_clr (sr_cuts_whole sr_ex_clr) = true /\
  sr_fits (sg_ex_cfg 18000) sr_ex_clr (sr_cuts_whole sr_ex_clr) = true /\ length sr_ex_clwire = 46%nat /\ length sr_ex_clbody = 19%nat /\
  (* 204 / 304 / 1xx / Content-Length / Transfer-Encoding are other framings *)
  sr_framed_close sg_ex_ok (sg_ex_cfg 18000) wr_ex_req (mk_wr_response wr_http11 (bd_str "204") (bd_str "No") []) [] = false /\
  sr_framed_close sg_ex_ok (sg_ex_cfg 18000) wr_ex_req sr_ex1 (sr_cuts_whole sr_ex1) = false.
Proof. split; [vm_compute; reflexivity|]. split; [vm_compute; reflexivity|]. split; [vm_compute; reflexivity|]. split; [vm_compute; reflexivity|]. split; [vm_compute; reflexivity|]. split; vm_compute; reflexivity. Qed.
(* every single cut, every double cut and the byte-by-byte delivery, each followed by OpClose, report what the single chunk + OpClose
   reports: the transaction of the theorem, 19 body bytes, complete; without the close the response stays in its body *)
Example sr_ex_close_cuts :
  map (sr_ex_runc (sg_ex_cfg 18000)) (sg_cuts1 sr_ex_clwire) = repeat (sr_ex_runc (sg_ex_cfg 18000) [sr_ex_clwire]) 45 /\
  map (sr_ex_runc (sg_ex_cfg 18000)) (sg_cuts2 sr_ex_clwire) = repeat (sr_ex_runc (sg_ex_cfg 18000) [sr_ex_clwire]) 990 /\
  sr_ex_runc (sg_ex_cfg 18000) (sg_bytewise sr_ex_clwire) = sr_ex_runc (sg_ex_cfg 18000) [sr_ex_clwire] /\
  sr_ex_clens (sr_ex_runc (sg_ex_cfg 18000) [sr_ex_clwire]) = [Some (c_HTP_RESPONSE_COMPLETE, 19%Z, 19%Z, [bd_str "X-A"])] /\
  sr_ex_clens (sr_ex_run (sg_ex_cfg 18000) [sr_ex_clwire]) = [Some (c_HTP_RESPONSE_BODY, 19%Z, 19%Z, [bd_str "X-A"])] /\
  sr_ex_runc (sg_ex_cfg 18000) [sr_ex_clwire] =
    sr_final (sg_ex_cfg 18000) (sr_tclose (sr_treq sg_ex_ok (sg_ex_cfg 18000) wr_ex_req) sr_ex_clr (sr_cuts_whole sr_ex_clr) 19).
Proof. split; [vm_compute; reflexivity|]. split; [vm_compute; reflexivity|]. split; [vm_compute; reflexivity|]. split; [vm_compute; reflexivity|]. split; vm_compute; reflexivity. Qed.
(* no body byte at all before the close *)
Example sr_ex_close_empty :
  let w := sr_wire sr_ex_clr (sr_cuts_whole sr_ex_clr) [] in
  map (sr_ex_runc (sg_ex_cfg 18000)) (sg_cuts1 w ++ sg_cuts2 w) = repeat (sr_ex_runc (sg_ex_cfg 18000) [w]) (26 + 325) /\
  sr_ex_clens (sr_ex_runc (sg_ex_cfg 18000) [w]) = [Some (c_HTP_RESPONSE_COMPLETE, 0%Z, 0%Z, [bd_str "X-A"])].
Proof. split; vm_compute; reflexivity. Qed.
(* F1 (C03.json F1-lfcr) is excluded EXACTLY for a body that starts with CR: among the single and double cuts of
   HTTP/1.1 200 OK | X-A: b || CR a b  those that sr_f1_free rejects are those whose transactions differ *)
Definition sr_ex_clwire2 : bytes := sr_wire sr_ex_clr (sr_cuts_whole sr_ex_clr) ([CR] +++ bd_str "ab").
Example sr_ex_close_f1_exact :
  forallb (fun ch => Bool.eqb (sr_f1_free ([CR] +++ bd_str "ab") true ch)
                       (sr_fp_eqb (sr_fp (sr_ex_runc (sg_ex_cfg 18000) ch)) (sr_fp (sr_ex_runc (sg_ex_cfg 18000) [sr_ex_clwire2]))))
          (sg_cuts1 sr_ex_clwire2 ++ sg_cuts2 sr_ex_clwire2) = true /\
  length (sg_cuts1 sr_ex_clwire2 ++ sg_cuts2 sr_ex_clwire2) = 435%nat /\
  length (filter (fun ch => negb (sr_f1_free ([CR] +++ bd_str "ab") true ch)) (sg_cuts1 sr_ex_clwire2 ++ sg_cuts2 sr_ex_clwire2)) = 54%nat.
Proof. split; [vm_compute; reflexivity|]. split; vm_compute; reflexivity. Qed.

(* ================= FINAL THEOREMS FOR RE-EXPORT (Properties_C03.v / Properties_C06.v): RESPONSE direction, the framings other than Content-Length =================
   common setting: OpOpen; OpReqData (one grammar request in ONE chunk); then the response = status line (reason free of CR / LF), header fields in
   any folding `cuts`, empty line, body -- delivered in ANY chunking into non-empty chunks.  Common premises (as PSegResThm.sr_response_chunking):
   wr_all_ok cb, g_allow_space_uri g = false, wr_request_ok rq, sr_response_ok r (excludes F2), sr_cuts_ok r cuts, sr_fits g r cuts,
   Forall (fun x => x <> []) chunks, concat chunks = sr_wire r cuts <body wire>, sr_f1_free <body wire> has_hdr chunks (excludes F1, exactly).

   (R1) CHUNK-CODED bodies with trailers                                                                       files PSegResChGen / PSegResCh / PSegResChRun / PSegResChThm
   PSegResChRun.sr_response_chunked_chunking         c_txs (.. map OpResData chunks) = sr_final g (sr_tchunked (sr_treq cb g rq) r cuts ks last tr tcuts)      ALL fields
   PSegResChThm.sr_response_chunked_chunking_obs     c_txs (chunked run) = c_txs (one-chunk run)
   PSegResChThm.sr_response_chunked_two_chunkings    sg_obs equal for two admissible chunkings
   PSegResChThm.sr_response_chunked_chunking_digit   no F1 premise when the coded body does not start with CR
   PSegResChThm.sr_response_chunked_chunking_encoder no F1 premise for SBody.bd_enc_body (lower-case hex size, optional extension, CR LF)
   PSegResChThm.sr_tchunked_lens / sr_tchunked_headers / sr_response_chunked_counted
        response_entity_len = |bd_chunks_data ks|, response_message_len = |bd_chunks_wire ks| + |last| (the trailer block and the final CR LF are not counted),
        progress COMPLETE, response_headers = trailer lines processed on top of the header block's table (_counted: + sg_fits g rq, tx_auto_destroy = false)
     extra premises: sr_framed_ch cb g rq r cuts (model's RES_BODY_DETERMINE decision: TE has `chunked`, request neither HEAD nor CONNECT),
                     sr_cfbody_ok g r ks last tr tcuts (bd_chunk_ok bd_rs_line_value, bd_last_ok, bd_lines_fit, trailer fields wr_field_ok / sg_fold_ok / sr_ffit)
     nothing refuted; the chunk-length look-ahead (out_buf ++ unconsumed) never fires on a line whose value is >= 0, whatever the cut.

   (R2) CLOSE-DELIMITED bodies (ops = .. map OpResData chunks ++ [OpClose])                                   files PSegResClose / PSegResCloseThm
   PSegResClose.sr_response_close_chunking           c_txs (.. map OpResData chunks ++ [OpClose]) = sr_final g (sr_tclose (sr_treq cb g rq) r cuts |body|)        ALL fields
   sr_response_close_chunking_obs                    c_txs (chunked run + OpClose) = c_txs [OpOpen; OpReqData request; OpResData (whole response); OpClose]
   sr_response_close_two_chunkings                   sg_obs equal for two admissible chunkings (each followed by OpClose)
   sr_tclose_lens / sr_response_close_counted        response_entity_len = response_message_len = |body|, progress COMPLETE after the close
     extra premise: sr_framed_close cb g rq r cuts (model's decision: no Transfer-Encoding, no Content-Length, request neither HEAD nor CONNECT,
                    status not 1xx / 204 / 304, Content-Type not multipart/byteranges)
     also: PSegResClose.sr_req_close_frame (htp_connp_close's request-side call leaves the response side and the transaction list alone when in_tx = NULL),
           PSegResClose.sr_connp_close_txs (htp_connp_close from the waiting state), PSegResClose.sr_response_complete_at (htp_tx_state_response_complete_ex).
     nothing refuted; F1 exact for a body that starts with CR (sr_ex_close_f1_exact: 54 of 435 single / double cuts). *)
Print Assumptions sr_response_chunked_chunking.
Print Assumptions sr_response_chunked_chunking_obs.
Print Assumptions sr_response_chunked_two_chunkings.
Print Assumptions sr_response_chunked_chunking_digit.
Print Assumptions sr_response_chunked_chunking_encoder.
Print Assumptions sr_tchunked_lens.
Print Assumptions sr_tchunked_headers.
Print Assumptions sr_response_chunked_counted.
Print Assumptions sr_response_close_chunking.
Print Assumptions sr_response_close_chunking_obs.
Print Assumptions sr_response_close_two_chunkings.
Print Assumptions sr_tclose_lens.
Print Assumptions sr_response_close_counted.
