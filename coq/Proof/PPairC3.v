(* C04, response direction for transaction number k: RES_HEADERS with the header lines cut anywhere.  PSegResHdr.v (Section Hdr)
   over the world of PPair.v; the meaning of a block (sr_lstep / sr_lrun), the relation parser-vs-meaning (sr_rel), the local F1
   condition (sr_f1_local) and the logical state between two calls (sr_hlog) are those of PSegResHdr.v. *)
Require Import Htp.Model.Base Htp.Model.MBstr Htp.Model.MConnTypes Htp.Model.MTxCommon Htp.Model.MResLine Htp.Model.MTxRes.
Require Import Htp.Model.MReq Htp.Model.MRes Htp.Model.MConnp.
Require Import Htp.Spec.SWire Htp.Proof.PWire Htp.Proof.PWireHdr Htp.Proof.PWireBlock Htp.Proof.PWireConn Htp.Proof.PWireExch.
Require Import Htp.Proof.PWireRun Htp.Proof.PWirePres Htp.Proof.PWireGlue Htp.Proof.PSeg Htp.Proof.PSegLine Htp.Proof.PSegHdr Htp.Proof.PSegGen Htp.Proof.PSegRun.
Require Import Htp.Proof.PSegFold Htp.Proof.PSegRes Htp.Proof.PSegResLine Htp.Proof.PSegResHdr.
Require Import Htp.Proof.PPairC1 Htp.Proof.PPairC2.

Section Hdr.
Variable cb : cb_oracle.
Variable g : cfg.
Hypothesis Hcb : wr_all_ok cb.
Context {w : pj_world}.
Notation pj_cin := (pj_cinw w).
Notation pj_mid := (pj_midw w).

(* a byte that is neither CR nor LF *)
Lemma pj_hdr_loop_plain c d rd p hdr prev rh t b n lf : pj_cin c d rd p hdr RES_HEADERS prev rh t -> nth_error d rd = Some b ->
  (b =? CR)%N = false -> (b =? LF)%N = false ->
  rs_headers_loop cb g (S n) lf c = rs_headers_loop cb g n false (rs_set_out (wr_kadv b) c).
Proof.
  intros H Hn H1 H2. pose proof H as [A1 A2 A3 A4 A5 A6 A7 A8 A9 A10 A11 A12 A13 A14 A15 A16 A17 A18 A19].
  rewrite (sr_headers_loop_S cb g). unfold rs_closed. rewrite (sg_live_closed _ A1).
  assert (Hn0 : nth_error d (k_read (c_out c)) = Some b) by (rewrite A6; exact Hn).
  rewrite (sr_copy_byte c d b A4 A5 Hn0).
  set (c1 := rs_set_out (wr_kadv b) c).
  assert (N1 : rs_nb_is c1 CR = false) by (unfold rs_nb_is, rs_nb; cbn; exact H1). rewrite N1.
  assert (N2 : rs_nb_is c1 LF = false) by (unfold rs_nb_is, rs_nb; cbn; exact H2). rewrite N2. reflexivity.
Qed.
Lemma pj_hdr_scan_plain d hdr prev rh t : forall s c rd p n r lf,
  pj_cin c d rd p hdr RES_HEADERS prev rh t -> skipn rd d = s ++ r -> sr_plain s = true ->
  exists c', rs_headers_loop cb g (length s + n) lf c = rs_headers_loop cb g n (match s with [] => lf | _ => false end) c' /\
             pj_cin c' d (rd + length s) (p ++ s) hdr RES_HEADERS prev rh t /\ skipn (rd + length s) d = r.
Proof.
  induction s as [|b s IH]; intros c rd p n r lf H Hu Hp.
  - exists c. cbn [length Nat.add app] in *. rewrite Nat.add_0_r, app_nil_r. split; [reflexivity|]. split; assumption.
  - cbn [app] in Hu. destruct (sg_skipn_cons d rd b _ Hu) as (Hnth & Hu' & Hlt).
    destruct (sr_plain_cons b s Hp) as (H1 & H2 & Hp').
    cbn [length Nat.add]. rewrite (pj_hdr_loop_plain c d rd p hdr prev rh t b _ lf H Hnth H1 H2).
    destruct (IH (rs_set_out (wr_kadv b) c) (S rd) (p ++ [b]) n r false (pj_cin_adv _ _ _ _ _ _ _ _ _ b H Hnth) Hu' Hp') as (c' & E & H' & Hr').
    exists c'. split; [rewrite E; destruct s; reflexivity|]. replace (rd + S (length s))%nat with (S rd + length s)%nat by lia. rewrite <- app_assoc in H'. split; assumption.
Qed.

(* the chunk ends: nothing left, or a CR whose successor is not there yet *)
Lemma pj_hdr_loop_end c d p hdr prev rh t n lf : pj_cin c d (length d) p hdr RES_HEADERS prev rh t ->
  rs_headers_loop cb g (S n) lf c = (ST_DATA_BUFFER, c).
Proof.
  intros [A1 A2 A3 A4 A5 A6 A7 A8 A9 A10 A11 A12 A13 A14 A15 A16 A17 A18 A19].
  rewrite (sr_headers_loop_S cb g). unfold rs_closed. rewrite (sg_live_closed _ A1). rewrite (sr_copy_none c d A5 A6). reflexivity.
Qed.
Lemma pj_hdr_loop_cr_end c d rd p hdr prev rh t n lf : pj_cin c d rd p hdr RES_HEADERS prev rh t -> skipn rd d = [CR] ->
  exists c', rs_headers_loop cb g (S n) lf c = (ST_DATA_BUFFER, c') /\ pj_cin c' d (length d) (p ++ [CR]) hdr RES_HEADERS prev rh t.
Proof.
  intros H Hu. destruct (sg_skipn_cons d rd CR _ Hu) as (Hnth & Hu' & Hlt). pose proof (sg_skipn_nil _ _ Hu') as Hl.
  pose proof H as [A1 A2 A3 A4 A5 A6 A7 A8 A9 A10 A11 A12 A13 A14 A15 A16 A17 A18 A19].
  assert (Erd : S rd = length d) by lia.
  rewrite (sr_headers_loop_S cb g). unfold rs_closed. rewrite (sg_live_closed _ A1).
  assert (Hn0 : nth_error d (k_read (c_out c)) = Some CR) by (rewrite A6; exact Hnth).
  rewrite (sr_copy_byte c d CR A4 A5 Hn0).
  set (c1 := rs_set_out (wr_kadv CR) c).
  assert (H1 : pj_cin c1 d (S rd) (p ++ [CR]) hdr RES_HEADERS prev rh t) by (apply pj_cin_adv; assumption).
  assert (N1 : rs_nb_is c1 CR = true) by reflexivity. assert (N2 : rs_nb_is c1 LF = false) by reflexivity. rewrite N1, N2. cbn [negb andb].
  rewrite (sr_peek c1 d (ji_data _ _ _ _ _ _ _ _ _ H1) (ji_len _ _ _ _ _ _ _ _ _ H1)), (ji_read _ _ _ _ _ _ _ _ _ H1).
  assert (Nn : nth_error d (S rd) = None) by (apply nth_error_None; lia). rewrite Nn.
  eexists. split; [reflexivity|]. apply pj_cin_next. rewrite <- Erd. exact H1.
Qed.
(* CR LF in the chunk (no LF CR line end just before) *)
Lemma pj_hdr_loop_crlf c d rd p hdr prev rh t n u2 : pj_cin c d rd p hdr RES_HEADERS prev rh t -> skipn rd d = CR :: LF :: u2 ->
  exists c', rs_headers_loop cb g (S n) false c = sr_hcont cb g n true false c' /\
             pj_cin c' d (S (S rd)) (p ++ [CR; LF]) hdr RES_HEADERS prev rh t /\ skipn (S (S rd)) d = u2.
Proof.
  intros H Hu. destruct (sg_skipn_cons d rd CR _ Hu) as (Hnth & Hu' & Hlt). destruct (sg_skipn_cons d (S rd) LF _ Hu') as (Hnth2 & Hu2 & Hlt2).
  pose proof H as [A1 A2 A3 A4 A5 A6 A7 A8 A9 A10 A11 A12 A13 A14 A15 A16 A17 A18 A19].
  rewrite (sr_headers_loop_S cb g). unfold rs_closed. rewrite (sg_live_closed _ A1).
  assert (Hn0 : nth_error d (k_read (c_out c)) = Some CR) by (rewrite A6; exact Hnth).
  rewrite (sr_copy_byte c d CR A4 A5 Hn0).
  set (c1 := rs_set_out (wr_kadv CR) c).
  assert (H1 : pj_cin c1 d (S rd) (p ++ [CR]) hdr RES_HEADERS prev rh t) by (apply pj_cin_adv; assumption).
  assert (N1 : rs_nb_is c1 CR = true) by reflexivity. assert (N2 : rs_nb_is c1 LF = false) by reflexivity. rewrite N1, N2. cbn [negb andb].
  rewrite (sr_peek c1 d (ji_data _ _ _ _ _ _ _ _ _ H1) (ji_len _ _ _ _ _ _ _ _ _ H1)), (ji_read _ _ _ _ _ _ _ _ _ H1), Hnth2.
  set (c2 := rs_set_out (fun k => k <| k_next_byte := Some LF |>) c1).
  assert (H2 : pj_cin c2 d (S rd) (p ++ [CR]) hdr RES_HEADERS prev rh t) by (apply pj_cin_next; exact H1).
  change (rs_nb c2) with (Some LF). cbv beta iota zeta. rewrite N.eqb_refl.
  assert (Hn2 : nth_error d (k_read (c_out c2)) = Some LF) by (rewrite (ji_read _ _ _ _ _ _ _ _ _ H2); exact Hnth2).
  unfold sr_copy_or_fault. rewrite (sr_copy_byte c2 d LF (ji_data _ _ _ _ _ _ _ _ _ H2) (ji_len _ _ _ _ _ _ _ _ _ H2) Hn2).
  exists (rs_set_out (wr_kadv LF) c2). split; [reflexivity|]. split; [|exact Hu2].
  replace (p ++ [CR; LF]) with ((p ++ [CR]) ++ [LF]) by (rewrite <- app_assoc; reflexivity). apply pj_cin_adv; assumption.
Qed.
(* an LF at the top of the loop (its CR came with an earlier chunk, or was taken by an LF CR line end) *)
Lemma pj_hdr_loop_lf c d rd p hdr prev rh t n lf u2 : pj_cin c d rd p hdr RES_HEADERS prev rh t -> skipn rd d = LF :: u2 ->
  match u2 with b :: _ => (b =? CR)%N = false | [] => True end ->
  exists c', rs_headers_loop cb g (S n) lf c = sr_hcont cb g n false false c' /\
             pj_cin c' d (S rd) (p ++ [LF]) hdr RES_HEADERS prev rh t /\ skipn (S rd) d = u2.
Proof.
  intros H Hu Hnx. destruct (sg_skipn_cons d rd LF _ Hu) as (Hnth & Hu' & Hlt).
  pose proof H as [A1 A2 A3 A4 A5 A6 A7 A8 A9 A10 A11 A12 A13 A14 A15 A16 A17 A18 A19].
  rewrite (sr_headers_loop_S cb g). unfold rs_closed. rewrite (sg_live_closed _ A1).
  assert (Hn0 : nth_error d (k_read (c_out c)) = Some LF) by (rewrite A6; exact Hnth).
  rewrite (sr_copy_byte c d LF A4 A5 Hn0).
  set (c1 := rs_set_out (wr_kadv LF) c).
  assert (H1 : pj_cin c1 d (S rd) (p ++ [LF]) hdr RES_HEADERS prev rh t) by (apply pj_cin_adv; assumption).
  assert (N1 : rs_nb_is c1 CR = false) by reflexivity. assert (N2 : rs_nb_is c1 LF = true) by reflexivity. rewrite N1, N2. cbn [negb andb].
  rewrite (sr_peek c1 d (ji_data _ _ _ _ _ _ _ _ _ H1) (ji_len _ _ _ _ _ _ _ _ _ H1)), (ji_read _ _ _ _ _ _ _ _ _ H1).
  set (c2 := rs_set_out (fun k => k <| k_next_byte := nth_error d (S rd) |>) c1).
  assert (H2 : pj_cin c2 d (S rd) (p ++ [LF]) hdr RES_HEADERS prev rh t) by (apply pj_cin_next; exact H1).
  assert (N3 : rs_nb_is c2 CR = false).
  { unfold rs_nb_is, rs_nb. change (k_next_byte (c_out c2)) with (nth_error d (S rd)). destruct u2 as [|b u2'].
    - pose proof (sg_skipn_nil _ _ Hu') as L. assert (N : nth_error d (S rd) = None) by (apply nth_error_None; exact L). rewrite N. reflexivity.
    - destruct (sg_skipn_cons _ _ _ _ Hu') as (N & _ & _). rewrite N. exact Hnx. }
  cbv zeta. rewrite N3. exists c2. split; [reflexivity|]. split; [exact H2|exact Hu'].
Qed.
Lemma pj_hdr_loop_lfcr c d rd p hdr prev rh t n lf u3 : pj_cin c d rd p hdr RES_HEADERS prev rh t -> skipn rd d = LF :: CR :: u3 ->
  exists c', rs_headers_loop cb g (S n) lf c = sr_hcont cb g n false true c' /\
             pj_cin c' d (S (S rd)) (p ++ [LF; CR]) hdr RES_HEADERS prev rh t /\ skipn (S (S rd)) d = u3.
Proof.
  intros H Hu. destruct (sg_skipn_cons d rd LF _ Hu) as (Hnth & Hu' & Hlt). destruct (sg_skipn_cons d (S rd) CR _ Hu') as (Hnth2 & Hu2 & Hlt2).
  pose proof H as [A1 A2 A3 A4 A5 A6 A7 A8 A9 A10 A11 A12 A13 A14 A15 A16 A17 A18 A19].
  rewrite (sr_headers_loop_S cb g). unfold rs_closed. rewrite (sg_live_closed _ A1).
  assert (Hn0 : nth_error d (k_read (c_out c)) = Some LF) by (rewrite A6; exact Hnth).
  rewrite (sr_copy_byte c d LF A4 A5 Hn0).
  set (c1 := rs_set_out (wr_kadv LF) c).
  assert (H1 : pj_cin c1 d (S rd) (p ++ [LF]) hdr RES_HEADERS prev rh t) by (apply pj_cin_adv; assumption).
  assert (N1 : rs_nb_is c1 CR = false) by reflexivity. assert (N2 : rs_nb_is c1 LF = true) by reflexivity. rewrite N1, N2. cbn [negb andb].
  rewrite (sr_peek c1 d (ji_data _ _ _ _ _ _ _ _ _ H1) (ji_len _ _ _ _ _ _ _ _ _ H1)), (ji_read _ _ _ _ _ _ _ _ _ H1), Hnth2.
  set (c2 := rs_set_out (fun k => k <| k_next_byte := Some CR |>) c1).
  assert (H2 : pj_cin c2 d (S rd) (p ++ [LF]) hdr RES_HEADERS prev rh t) by (apply pj_cin_next; exact H1).
  assert (N3 : rs_nb_is c2 CR = true) by reflexivity. cbv zeta. rewrite N3.
  assert (Hn2 : nth_error d (k_read (c_out c2)) = Some CR) by (rewrite (ji_read _ _ _ _ _ _ _ _ _ H2); exact Hnth2).
  unfold sr_copy_or_fault. rewrite (sr_copy_byte c2 d CR (ji_data _ _ _ _ _ _ _ _ _ H2) (ji_len _ _ _ _ _ _ _ _ _ H2) Hn2).
  exists (rs_set_out (wr_kadv CR) c2). split; [reflexivity|]. split; [|exact Hu2].
  replace (p ++ [LF; CR]) with ((p ++ [LF]) ++ [CR]) by (rewrite <- app_assoc; reflexivity). apply pj_cin_adv; assumption.
Qed.

(* ---- what htp_connp_RES_HEADERS does with a complete line ---- *)
Lemma pj_cin_chk c d rd p hdr st prev rh t : pj_cin c d rd p hdr st prev rh t ->
  pj_cin (if rs_has_byte c then match rs_cur_byte c (k_read (c_out c)) with Some _ => c | None => rs_fault c end else c) d rd p hdr st prev rh t.
Proof. intros H. destruct (rs_has_byte c); [destruct (rs_cur_byte c _); [exact H|apply pj_cin_fault; exact H]|exact H]. Qed.
(* "Parse previous header, if any." *)
Lemma pj_flush_header c d rd p hdr st prev rh t : pj_cin c d rd p hdr st prev rh t ->
  pj_cin (rs_flush_header c) d rd p None st prev rh (sr_flush hdr t).
Proof.
  intros H. unfold rs_flush_header. rewrite (ji_hdr _ _ _ _ _ _ _ _ _ H). destruct hdr as [h|]; [|exact H].
  unfold rs_process_header. rewrite (pj_otx c d rd _ _ _ _ _ t _ H). eapply pj_cin_header. eapply pj_cin_txs. exact H.
Qed.

(* the empty line (or what is left of it when its CR went into an LF CR line end) *)
Lemma pj_hcont_term c d rd data hdr prev rh t n e lf : data = [CR; LF] \/ data = [LF] -> (e = true -> data = [CR; LF]) ->
  pj_cin c d rd data hdr RES_HEADERS prev rh t -> (length data + length (sg_olist hdr) <= g_field_limit_hard g)%nat ->
  t_response_progress (sr_flush hdr t) = c_HTP_RESPONSE_HEADERS ->
  exists c', sr_hcont cb g n e lf c = (ST_OK, c') /\ pj_cin c' d rd [] None RES_BODY_DETERMINE prev rh (sr_flush hdr t).
Proof.
  intros Hd He H Hlim Hp. unfold sr_hcont.
  destruct (pj_consolidate g c d rd _ hdr _ _ _ t H Hlim) as (c1 & E1 & H1). rewrite E1. cbn [rs_dbytes].
  assert (L2 : e && (length data <? 2)%nat = false).
  { destruct e; [|reflexivity]. rewrite (He eq_refl). reflexivity. }
  rewrite L2. unfold rs_headers_line. cbv zeta.
  pose proof (pj_cin_chk c1 d rd _ _ _ _ _ _ H1) as HK.
  set (cK := if rs_has_byte c1 then match rs_cur_byte c1 (k_read (c_out c1)) with Some _ => c1 | None => rs_fault c1 end else c1) in *.
  clearbody cK.
  assert (T : forall nx, rs_is_line_terminator (g_personality g) data nx = true) by (intros nx; destruct Hd as [E|E]; subst data; [apply sr_term_crlf|apply sr_term_lf]).
  rewrite T.
  pose proof (pj_flush_header cK d rd _ _ _ _ _ _ HK) as HF.
  assert (HC : pj_cin (rs_clear_buffer (rs_flush_header cK)) d rd [] None RES_HEADERS prev rh (sr_flush hdr t)) by (eapply pj_cin_clear; exact HF).
  set (cC := rs_clear_buffer (rs_flush_header cK)) in *. clearbody cC.
  rewrite (pj_rs_tx cC d rd _ _ _ _ _ _ HC), Hp.
  change ((c_HTP_RESPONSE_HEADERS =? c_HTP_RESPONSE_HEADERS)%Z) with true. cbv iota.
  eexists. split; [reflexivity|]. eapply pj_cin_state. exact HC.
Qed.

(* a complete first line of a field *)
Lemma pj_hcont_start c d rd hdr prev rh t l eol n e lf : sg_start_ok l = true -> sr_eol eol ->
  pj_cin c d rd (l ++ eol) hdr RES_HEADERS prev rh t ->
  (length (l ++ eol) + length (sg_olist hdr) <= g_field_limit_hard g)%nat ->
  exists c', sr_hcont cb g n e lf c = rs_headers_loop cb g n lf c' /\
    match nth_error d rd with
    | Some b => if htp_is_folding_char b then pj_cin c' d rd [] (Some l) RES_HEADERS prev rh (sr_flush hdr t)
                else pj_cin c' d rd [] None RES_HEADERS prev rh (rs_process_response_header l (sr_flush hdr t))
    | None => pj_cin c' d rd [] (Some l) RES_HEADERS prev rh (sr_flush hdr t)
    end.
Proof.
  intros Wl Heol H Hlim. unfold sr_hcont.
  destruct (pj_consolidate g c d rd _ hdr _ _ _ t H Hlim) as (c1 & E1 & H1). rewrite E1. cbn [rs_dbytes].
  assert (L2 : e && (length (l ++ eol) <? 2)%nat = false).
  { assert (X : (length (l ++ eol) <? 2)%nat = false) by (apply Nat.ltb_ge; rewrite app_length; destruct Heol as [E|E]; subst eol; cbn [length]; lia).
    rewrite X. apply andb_false_r. }
  rewrite L2. unfold rs_headers_line. cbv zeta.
  pose proof (pj_cin_chk c1 d rd _ _ _ _ _ _ H1) as HK.
  set (cK := if rs_has_byte c1 then match rs_cur_byte c1 (k_read (c_out c1)) with Some _ => c1 | None => rs_fault c1 end else c1) in *.
  clearbody cK.
  rewrite (sr_start_not_term _ l eol _ Wl Heol).
  pose proof Wl as Wl0. unfold sg_start_ok in Wl0. apply andb_prop in Wl0. destruct Wl0 as [Wt Wv].
  assert (Pl : wr_last_plain l) by (apply wr_plain_last; [destruct l; discriminate|exact Wv]).
  rewrite (sr_chomp_eol l eol Heol Pl).
  assert (Fo : rs_is_line_folded l = 0%Z).
  { destruct l as [|n0 [|y l']]; try discriminate. cbn [rs_is_line_folded]. rewrite (wr_token_not_folding n0 Wt). reflexivity. }
  rewrite Fo. cbn [Z.eqb].
  pose proof (pj_flush_header cK d rd _ _ _ _ _ _ HK) as HF.
  rewrite (sr_peek _ d (ji_data _ _ _ _ _ _ _ _ _ HF) (ji_len _ _ _ _ _ _ _ _ _ HF)), (ji_read _ _ _ _ _ _ _ _ _ HF).
  set (cP := rs_set_out (fun k => k <| k_next_byte := nth_error d rd |>) (rs_flush_header cK)).
  assert (HP : pj_cin cP d rd (l ++ eol) None RES_HEADERS prev rh (sr_flush hdr t)) by (apply pj_cin_next; exact HF).
  change (rs_nb cP) with (nth_error d rd). clearbody cP.
  destruct (nth_error d rd) as [b|].
  - destruct (htp_is_folding_char b); cbn [negb].
    + eexists. split; [reflexivity|]. eapply pj_cin_clear. unfold rs_set_header. eapply pj_cin_header. exact HP.
    + unfold rs_process_header. rewrite (pj_otx cP d rd _ _ _ _ _ _ _ HP).
      eexists. split; [reflexivity|]. eapply pj_cin_clear. eapply pj_cin_txs. exact HP.
  - eexists. split; [reflexivity|]. eapply pj_cin_clear. unfold rs_set_header. eapply pj_cin_header. exact HP.
Qed.

(* a complete continuation line, a header being pending *)
Lemma pj_hcont_cont c d rd h prev rh t l eol n e lf : sg_cont_line_ok l = true -> sr_eol eol ->
  pj_cin c d rd (l ++ eol) (Some h) RES_HEADERS prev rh t ->
  (length (l ++ eol) + length h <= g_field_limit_hard g)%nat ->
  exists c', sr_hcont cb g n e lf c = rs_headers_loop cb g n lf c' /\
    pj_cin c' d rd [] (fst (sr_lstep (Some h, t) (false, l))) RES_HEADERS prev rh (snd (sr_lstep (Some h, t) (false, l))).
Proof.
  intros Wl Heol H Hlim. unfold sr_hcont.
  destruct (pj_consolidate g c d rd _ (Some h) _ _ _ t H Hlim) as (c1 & E1 & H1). rewrite E1. cbn [rs_dbytes].
  assert (L2 : e && (length (l ++ eol) <? 2)%nat = false).
  { assert (X : (length (l ++ eol) <? 2)%nat = false) by (apply Nat.ltb_ge; rewrite app_length; destruct Heol as [E|E]; subst eol; cbn [length]; lia).
    rewrite X. apply andb_false_r. }
  rewrite L2. unfold rs_headers_line. cbv zeta.
  pose proof (pj_cin_chk c1 d rd _ _ _ _ _ _ H1) as HK.
  set (cK := if rs_has_byte c1 then match rs_cur_byte c1 (k_read (c_out c1)) with Some _ => c1 | None => rs_fault c1 end else c1) in *.
  clearbody cK.
  rewrite (sr_cont_not_term _ l eol _ Wl Heol).
  pose proof Wl as Wl0. unfold sg_cont_line_ok in Wl0. apply andb_prop in Wl0. destruct Wl0 as [Wl0 Wv]. apply andb_prop in Wl0. destruct Wl0 as [Wc Wt].
  assert (Pl : wr_last_plain l) by (apply wr_plain_last; [destruct l; discriminate|exact Wv]).
  rewrite (sr_chomp_eol l eol Heol Pl).
  assert (Fo : rs_is_line_folded l = 1%Z).
  { destruct l as [|x l']; [discriminate|]. cbn [wr_cont_ok] in Wc. cbn [rs_is_line_folded]. rewrite (sg_lws_folding x Wc). reflexivity. }
  rewrite Fo. cbn [Z.eqb]. rewrite (ji_hdr _ _ _ _ _ _ _ _ _ HK).
  rewrite (pj_rs_tx cK d rd _ _ _ _ _ _ HK).
  unfold sr_lstep, sr_hstep, sr_hcont_step. cbn [fst snd].
  fold (sr_p11 t). fold (sr_k2 (sr_p11 t) h l).
  destruct (sr_k2 (sr_p11 t) h l).
  - unfold rs_flag_invalid_folding. rewrite (pj_otx cK d rd _ _ _ _ _ _ _ HK).
    set (c2 := cK <| c_txs := (pj_txs w ((t <| t_flags := flag_set (t_flags t) c_HTP_INVALID_FOLDING |>))) |>).
    assert (H2 : pj_cin c2 d rd (l ++ eol) (Some h) RES_HEADERS prev rh (sr_flag_fold t)) by (eapply pj_cin_txs; exact HK).
    unfold rs_process_header. rewrite (pj_otx c2 d rd _ _ _ _ _ _ _ H2).
    eexists. split; [reflexivity|]. eapply pj_cin_clear. unfold rs_set_header. eapply pj_cin_header. eapply pj_cin_txs. exact H2.
  - destruct (Z.of_nat (length h) <? c_HTP_MAX_HEADER_FOLDED)%Z.
    + eexists. split; [reflexivity|]. eapply pj_cin_clear. unfold rs_set_header. eapply pj_cin_header. exact HK.
    + eexists. split; [reflexivity|]. eapply pj_cin_clear. exact HK.
Qed.

(* ---- the rest of the chunk lies inside the current line ---- *)
Lemma pj_hdr_partial c d rd p hdr prev rh t s r0 n lf : pj_cin c d rd p hdr RES_HEADERS prev rh t ->
  skipn rd d = s ++ r0 -> sr_plain s = true -> r0 = [] \/ r0 = [CR] -> (length d - rd < n)%nat ->
  exists c', rs_headers_loop cb g n lf c = (ST_DATA_BUFFER, c') /\ pj_cin c' d (length d) (p ++ skipn rd d) hdr RES_HEADERS prev rh t.
Proof.
  intros H Hu Ps Hr0 Hn. pose proof (ji_rd _ _ _ _ _ _ _ _ _ H) as Hrd.
  assert (Lu : length (skipn rd d) = (length d - rd)%nat) by apply skipn_length. rewrite Hu, app_length in Lu.
  replace n with (length s + S (n - length s - 1))%nat by lia.
  destruct (pj_hdr_scan_plain d hdr prev rh t s c rd p (S (n - length s - 1)) r0 lf H Hu Ps) as (c1 & E1 & H1 & R1). rewrite E1, Hu.
  destruct Hr0 as [E|E]; subst r0.
  - cbn [length] in Lu. assert (Erd : (rd + length s)%nat = length d) by lia. rewrite Erd in H1. rewrite app_nil_r.
    exists c1. split; [apply (pj_hdr_loop_end c1 d _ hdr _ _ t _ _ H1)|exact H1].
  - destruct (pj_hdr_loop_cr_end c1 d _ _ hdr _ _ t (n - length s - 1) (match s with [] => lf | _ => false end) H1 R1) as (c2 & E2 & H2).
    exists c2. split; [exact E2|]. rewrite <- app_assoc in H2. exact H2.
Qed.

(* ---- the rest of the current line  cur CR LF  lies in the chunk: how its end is recognised ---- *)
Lemma pj_hdr_line_scan c d rd p q cur u2 hdr prev rh t n lf : pj_cin c d rd p hdr RES_HEADERS prev rh t ->
  sr_plain cur = true -> p ++ q = cur ++ [CR; LF] -> q <> [] -> skipn rd d = q ++ u2 -> lf = false -> rd = 0%nat \/ p = [] ->
  (length d - rd < n)%nat ->
  exists c1 n1 (e lf1 : bool) eol rd1 u3, rs_headers_loop cb g n lf c = sr_hcont cb g n1 e lf1 c1 /\
    pj_cin c1 d rd1 (cur ++ eol) hdr RES_HEADERS prev rh t /\ skipn rd1 d = u3 /\ (length d - rd1 < n1)%nat /\ (e = true -> eol = [CR; LF]) /\
    ((eol = [CR; LF] /\ lf1 = false /\ u3 = u2) \/
     (eol = [CR; LF; CR] /\ lf1 = true /\ u2 = CR :: u3 /\ q = [LF] /\ rd = 0%nat /\ rd1 = 2%nat /\ firstn 2 d = [LF; CR])).
Proof.
  intros H Pc Hpq Hq Hu Hlf Htop Hn. subst lf. pose proof (ji_rd _ _ _ _ _ _ _ _ _ H) as Hrd.
  assert (Lu : length (skipn rd d) = (length d - rd)%nat) by apply skipn_length. rewrite Hu, app_length in Lu.
  destruct (sr_suffix_shape cur p q Pc Hpq Hq) as [[Eq Ep]|(q0 & Eq & Ep & Pq)].
  - (* the LF is at the top of the loop: the chunk starts with it *)
    subst q. assert (E0 : rd = 0%nat) by (destruct Htop as [E|E]; [exact E|subst p; destruct cur; discriminate]). subst rd.
    destruct n as [|n]; [lia|]. cbn [app] in Hu.
    destruct u2 as [|b0 u3].
    + destruct (pj_hdr_loop_lf c d 0 p hdr _ _ t n false [] H Hu I) as (c1 & E1 & H1 & R1).
      exists c1, n, false, false, [CR; LF], 1%nat, []. split; [exact E1|]. rewrite Ep, <- app_assoc in H1. split; [exact H1|]. split; [exact R1|]. split; [cbn [length] in Lu; lia|].
      split; [discriminate|]. left. repeat split.
    + destruct (b0 =? CR)%N eqn:Eb.
      * apply N.eqb_eq in Eb. subst b0.
        destruct (pj_hdr_loop_lfcr c d 0 p hdr _ _ t n false u3 H Hu) as (c1 & E1 & H1 & R1).
        exists c1, n, false, true, [CR; LF; CR], 2%nat, u3. split; [exact E1|]. rewrite Ep, <- app_assoc in H1. split; [exact H1|]. split; [exact R1|]. split; [cbn [length] in Lu; lia|].
        split; [discriminate|]. right. repeat split. cbn [skipn] in Hu. rewrite Hu. reflexivity.
      * destruct (pj_hdr_loop_lf c d 0 p hdr _ _ t n false (b0 :: u3) H Hu Eb) as (c1 & E1 & H1 & R1).
        exists c1, n, false, false, [CR; LF], 1%nat, (b0 :: u3). split; [exact E1|]. rewrite Ep, <- app_assoc in H1. split; [exact H1|]. split; [exact R1|]. split; [cbn [length] in Lu; lia|].
        split; [discriminate|]. left. repeat split.
  - (* bytes of the line, CR, LF *)
    subst q. rewrite !app_length in Lu. cbn [length] in Lu.
    replace n with (length q0 + S (n - length q0 - 1))%nat by lia.
    assert (Hu' : skipn rd d = q0 ++ CR :: LF :: u2) by (rewrite Hu, <- app_assoc; reflexivity).
    destruct (pj_hdr_scan_plain d hdr prev rh t q0 c rd p (S (n - length q0 - 1)) _ false H Hu' Pq) as (c1 & E1 & H1 & R1). rewrite E1.
    assert (Elf : match q0 with [] => false | _ => false end = false) by (destruct q0; reflexivity). rewrite Elf.
    destruct (pj_hdr_loop_crlf c1 d _ _ hdr _ _ t (n - length q0 - 1) u2 H1 R1) as (c2 & E2 & H2 & R2).
    exists c2, (n - length q0 - 1)%nat, true, false, [CR; LF], (S (S (rd + length q0))), u2. split; [exact E2|].
    rewrite <- app_assoc, app_assoc, Ep in H2. split; [exact H2|]. split; [exact R2|]. split; [lia|]. split; [reflexivity|]. left. repeat split.
Qed.

Lemma pj_hdrs_loop d rw' Tend tailw has_hdr : sr_f1_local tailw has_hdr d rw' -> forall rem c rd p q hdr t pend tl n lf (eaten : bool),
  pj_cin c d rd p hdr RES_HEADERS (Some RES_HEADERS) (Some H_RESPONSE_HEADER_DATA) t ->
  sr_rel hdr t pend tl rem -> forallb sg_fl_ok rem = true -> (sg_needs_pending rem = true -> pend <> None) ->
  sr_lrun rem (pend, tl) = Tend -> t_response_progress tl = c_HTP_RESPONSE_HEADERS ->
  (eaten = false -> p ++ q = sg_fnext rem /\ q <> []) -> (eaten = true -> rem = [] /\ p = [] /\ q = [LF] /\ has_hdr = true) ->
  skipn rd d ++ rw' = q ++ sg_fafter tailw rem ->
  sr_ffit (g_field_limit_hard g) (sr_p11 tl) pend rem = true -> (rem <> [] -> has_hdr = true) ->
  (lf = true -> eaten = true) -> (rd = 0%nat \/ p = []) -> (eaten = true -> rd = 0%nat \/ (rd = 2%nat /\ firstn 2 d = [LF; CR])) ->
  (length d - rd < n)%nat ->
  (exists c' p' hdr' t', rs_headers_loop cb g n lf c = (ST_DATA_BUFFER, c') /\
     pj_cin c' d (length d) p' hdr' RES_HEADERS (Some RES_HEADERS) (Some H_RESPONSE_HEADER_DATA) t' /\
     sr_hlog g Tend tailw has_hdr hdr' t' p' rw' /\ rw' <> []) \/
  (exists c' rd1, rs_headers_loop cb g n lf c = (ST_OK, c') /\
     pj_cin c' d rd1 [] None RES_BODY_DETERMINE (Some RES_HEADERS) (Some H_RESPONSE_HEADER_DATA) Tend /\ skipn rd1 d ++ rw' = tailw).
Proof.
  intros Hf1. induction rem as [|[b l] r IH]; intros c rd p q hdr t pend tl n lf eaten H Hrel Ok Hnp Hrun Hprog Hne Hea Hw Hfit Hhh Hlf Htop Htop2 Hn.
  all: pose proof (ji_rd _ _ _ _ _ _ _ _ _ H) as Hrd.
  all: assert (Lu : length (skipn rd d) = (length d - rd)%nat) by apply skipn_length.
  all: pose proof (sr_rel_len _ _ _ _ _ Hrel) as Lh.
  all: pose proof (sr_cur_plain _ Ok) as Pc.
  all: destruct n as [|n]; [lia|].
  all: destruct eaten.
  (* ---- the empty line, its CR already taken ---- *)
  - destruct (Hea eq_refl) as (_ & Ep & Eq & Ehh). subst p q. cbn [sg_fafter app] in Hw.
    pose proof (sr_ffit_next _ _ _ _ Hfit) as Hl. cbn [sg_fnext length] in Hl.
    destruct (skipn rd d) as [|x u2] eqn:Eu.
    + (* the chunk ends *)
      assert (Erd : rd = length d) by (cbn [length] in Lu; lia). subst rd.
      left. exists c, [], hdr, t. split; [apply (pj_hdr_loop_end c d [] hdr _ _ t n lf H)|]. split; [exact H|]. split.
      * exists pend, tl, [], [LF], true. split; [exact Hrel|]. split; [exact Ok|]. split; [exact Hnp|]. split; [exact Hrun|]. split; [exact Hprog|].
        split; [intros X; discriminate|]. split; [intros _; repeat split; exact Ehh|]. cbn [app] in Hw. split; [rewrite Hw; reflexivity|]. split; [exact Hfit|exact Hhh].
      * cbn [app] in Hw. rewrite Hw. discriminate.
    + cbn [app] in Hw. injection Hw as Ex Hw2. subst x.
      assert (Hnx : match u2 with b0 :: _ => (b0 =? CR)%N = false | [] => True end).
      { destruct u2 as [|b0 u3]; [exact I|]. destruct (b0 =? CR)%N eqn:Eb; [|reflexivity]. exfalso.
        cbn [app] in Hw2. unfold sr_f1_local in Hf1. rewrite <- Hw2 in Hf1. destruct (Hf1 Eb) as [F1 F2].
        assert (Ed : d = firstn rd d ++ LF :: b0 :: u3) by (rewrite <- Eu; symmetry; apply firstn_skipn).
        assert (Lf : length (firstn rd d) = rd) by (apply firstn_length_le; exact Hrd).
        destruct (Htop2 eq_refl) as [E0|[E2 E3]].
        - subst rd. cbn [firstn app] in Ed. assert (L1 : length d = 1%nat).
          { apply F1. rewrite Ed. cbn [app length]. rewrite app_length. cbn [length]. lia. }
          rewrite Ed in L1. cbn [length] in L1. lia.
        - subst rd. rewrite E3 in Ed. assert (L3 : (length d <= 3)%nat).
          { apply (F2 Ehh). rewrite Ed. cbn [app length]. rewrite app_length. cbn [length]. lia. }
          rewrite Ed in L3. cbn [app length] in L3. lia. }
      destruct (pj_hdr_loop_lf c d rd [] hdr _ _ t n lf u2 H Eu Hnx) as (c1 & E1 & H1 & R1). rewrite E1. cbn [app] in H1.
      assert (Hp : t_response_progress (sr_flush hdr t) = c_HTP_RESPONSE_HEADERS).
      { rewrite (sr_rel_flush _ _ _ _ _ Hrel). destruct (sr_flush_keep pend tl) as [_ B]. rewrite B. exact Hprog. }
      destruct (pj_hcont_term c1 d _ [LF] hdr _ _ t n false false (or_intror eq_refl) ltac:(discriminate) H1 ltac:(cbn [length]; lia) Hp) as (c2 & E2 & H2).
      right. exists c2, (S rd). split; [exact E2|]. split; [|rewrite R1; exact Hw2].
      rewrite (sr_rel_flush _ _ _ _ _ Hrel) in H2. unfold sr_lrun in Hrun. cbn [fold_left fst snd] in Hrun. rewrite Hrun in H2. exact H2.
  (* ---- the empty line ---- *)
  - destruct (Hne eq_refl) as (Hpq & Hq). rewrite sr_fnext_cur in Hpq. cbn [sg_fafter] in Hw.
    pose proof (sr_ffit_next _ _ _ _ Hfit) as Hl. cbn [sg_fnext length] in Hl.
    assert (Elf : lf = false) by (destruct lf; [specialize (Hlf eq_refl); discriminate|reflexivity]).
    destruct (sg_app_cases (skipn rd d) rw' q _ Hw) as [Clt Cge].
    destruct (Nat.lt_ge_cases (length (skipn rd d)) (length q)) as [Llt|Lge].
    + (* the chunk ends inside the empty line *)
      destruct (Clt Llt) as (q2 & Eq & Hq2 & Erw).
      assert (Hpq' : p ++ skipn rd d ++ q2 = sr_cur [] ++ [CR; LF]) by (rewrite <- Eq; exact Hpq).
      destruct (sr_prefix_shape _ p (skipn rd d) q2 Pc Hpq' Hq2) as (s & r0 & Eu & Ps & Hr0).
      destruct (pj_hdr_partial c d rd p hdr _ _ t s r0 (S n) lf H Eu Ps Hr0 Hn) as (c' & E & H').
      left. exists c', (p ++ skipn rd d), hdr, t. split; [exact E|]. split; [exact H'|]. split.
      * exists pend, tl, [], q2, false. split; [exact Hrel|]. split; [exact Ok|]. split; [exact Hnp|]. split; [exact Hrun|]. split; [exact Hprog|].
        split; [intros _; split; [rewrite sr_fnext_cur, <- app_assoc; exact Hpq'|exact Hq2]|]. split; [intros X; discriminate|]. split; [exact Erw|]. split; [exact Hfit|exact Hhh].
      * rewrite Erw. destruct q2; [contradiction|discriminate].
    + (* the empty line is complete in this chunk *)
      destruct (Cge Lge) as (u2 & Eu & Eaft).
      destruct (pj_hdr_line_scan c d rd p q _ u2 hdr _ _ t (S n) lf H Pc Hpq Hq Eu Elf Htop Hn) as (c1 & n1 & e & lf1 & eol & rd1 & u3 & E1 & H1 & R1 & Hn1 & He & Hcase).
      rewrite E1.
      destruct Hcase as [(Eeol & Elf1 & Eu3)|(Eeol & Elf1 & Eu2 & Eq & Erd & Erd1 & Efn)].
      * subst eol lf1. rewrite Eu3 in R1. cbn [sr_cur app] in H1.
        assert (Hp : t_response_progress (sr_flush hdr t) = c_HTP_RESPONSE_HEADERS).
        { rewrite (sr_rel_flush _ _ _ _ _ Hrel). destruct (sr_flush_keep pend tl) as [_ B]. rewrite B. exact Hprog. }
        destruct (pj_hcont_term c1 d _ [CR; LF] hdr _ _ t n1 e false (or_introl eq_refl) (fun _ => eq_refl) H1 ltac:(cbn [length]; lia) Hp) as (c2 & E2 & H2).
        right. exists c2, rd1. split; [exact E2|]. split; [|rewrite R1; symmetry; exact Eaft].
        rewrite (sr_rel_flush _ _ _ _ _ Hrel) in H2. unfold sr_lrun in Hrun. cbn [fold_left fst snd] in Hrun. rewrite Hrun in H2. exact H2.
      * (* F1: the body would start with CR in the chunk that starts with the LF of the empty line *)
        exfalso. subst q rd u2. cbn [skipn app] in Eu. unfold sr_f1_local in Hf1. rewrite Eaft in Hf1. cbn [app] in Hf1.
        destruct (Hf1 eq_refl) as [F1 _].
        assert (L1 : length d = 1%nat) by (apply F1; rewrite Eu; cbn [app length]; rewrite !app_length; cbn [length]; lia).
        rewrite Eu in L1. cbn [length] in L1. lia.
  - destruct (Hea eq_refl) as (X & _). discriminate.
  - destruct (Hne eq_refl) as (Hpq & Hq). rewrite sr_fnext_cur in Hpq. cbn [sr_cur snd] in Hpq, Pc.
    assert (Elf : lf = false) by (destruct lf; [specialize (Hlf eq_refl); discriminate|reflexivity]).
    pose proof Ok as Ok0. cbn [forallb] in Ok. apply andb_prop in Ok. destruct Ok as [Okl Ok'].
    pose proof Hfit as Hfit0. cbn [sr_ffit] in Hfit. apply andb_prop in Hfit. destruct Hfit as [Hf1' Hf2]. apply Nat.leb_le in Hf1'. cbn [snd] in Hf1'.
    assert (Hh1 : has_hdr = true) by (apply Hhh; discriminate).
    destruct (sg_app_cases (skipn rd d) rw' q _ Hw) as [Clt Cge].
    destruct (Nat.lt_ge_cases (length (skipn rd d)) (length q)) as [Llt|Lge].
    + (* the chunk ends inside the current line *)
      destruct (Clt Llt) as (q2 & Eq & Hq2 & Erw).
      assert (Hpq' : p ++ skipn rd d ++ q2 = l ++ [CR; LF]) by (rewrite <- Eq; exact Hpq).
      destruct (sr_prefix_shape _ p (skipn rd d) q2 Pc Hpq' Hq2) as (s & r0 & Eu & Ps & Hr0).
      destruct (pj_hdr_partial c d rd p hdr _ _ t s r0 (S n) lf H Eu Ps Hr0 Hn) as (c' & E & H').
      left. exists c', (p ++ skipn rd d), hdr, t. split; [exact E|]. split; [exact H'|]. split.
      * exists pend, tl, ((b, l) :: r), q2, false. split; [exact Hrel|]. split; [exact Ok0|]. split; [exact Hnp|]. split; [exact Hrun|]. split; [exact Hprog|].
        split; [intros _; split; [rewrite sr_fnext_cur, <- app_assoc; exact Hpq'|exact Hq2]|]. split; [intros X; discriminate|]. split; [exact Erw|]. split; [exact Hfit0|exact Hhh].
      * rewrite Erw. destruct q2; [contradiction|discriminate].
    + (* the current line is complete in this chunk *)
      destruct (Cge Lge) as (u2 & Eu & Eaft). cbn [sg_fafter] in Eaft. rewrite sg_fwire_split in Eaft.
      destruct (pj_hdr_line_scan c d rd p q _ u2 hdr _ _ t (S n) lf H Pc Hpq Hq Eu Elf Htop Hn) as (c1 & n1 & e & lf1 & eol & rd1 & u3 & E1 & H1 & R1 & Hn1 & He & Hcase).
      rewrite E1. destruct (sr_fnext_head_cr r Ok') as (b0 & r0 & Eh & Fh & Hcr).
      (* what remains after the line, and whether the CR of the empty line went into the line end *)
      assert (Hst : sr_eol eol /\ (eol = [CR; LF; CR] -> r = []) /\
                    skipn rd1 d ++ rw' = (if lf1 then [LF] else sg_fnext r) ++ sg_fafter tailw r /\
                    (lf1 = true -> r = [] /\ (rd1 = 0%nat \/ (rd1 = 2%nat /\ firstn 2 d = [LF; CR]))) /\
                    match nth_error d rd1 with Some b1 => htp_is_folding_char b1 = false -> sg_needs_pending r = false | None => True end).
      { destruct Hcase as [(Eeol & Elf1 & Eu3)|(Eeol & Elf1 & Eu2 & Eq & Erd & Erd1 & Efn)].
        - subst eol lf1. rewrite Eu3 in R1. split; [left; reflexivity|]. split; [discriminate|]. split; [rewrite R1; symmetry; exact Eaft|]. split; [discriminate|].
          destruct u2 as [|b1 u2'].
          + pose proof (sg_skipn_nil _ _ R1) as L. assert (N : nth_error d rd1 = None) by (apply nth_error_None; exact L). rewrite N. exact I.
          + destruct (sg_skipn_cons _ _ _ _ R1) as (N & _ & _). rewrite N. rewrite Eh in Eaft. cbn [app] in Eaft. injection Eaft as Eb _. subst b1. rewrite <- Fh. intros X; exact X.
        - subst eol lf1 u2. rewrite Eh in Eaft. cbn [app] in Eaft. injection Eaft as Eb Eaft. subst b0. specialize (Hcr eq_refl). subst r.
          cbn [sg_fnext] in Eh. injection Eh as Eh. subst r0. cbn [sg_fafter app] in Eaft |- *.
          split; [right; reflexivity|]. split; [reflexivity|]. split; [rewrite R1; symmetry; exact Eaft|]. split; [intros _; split; [reflexivity|right; split; assumption]|].
          destruct u3 as [|b1 u3'].
          + pose proof (sg_skipn_nil _ _ R1) as L. assert (N : nth_error d rd1 = None) by (apply nth_error_None; exact L). rewrite N. exact I.
          + destruct (sg_skipn_cons _ _ _ _ R1) as (N & _ & _). rewrite N. intros _. reflexivity. }
      destruct Hst as (Heol & Heol3 & Hw2 & Hlf1 & Hnext).
      assert (Hlim : (length (l ++ eol) + length (sg_olist hdr) <= g_field_limit_hard g)%nat).
      { rewrite app_length. destruct Heol as [E|E]; subst eol; cbn [length]; [destruct r; lia|rewrite (Heol3 eq_refl) in Hf1'; lia]. }
      rewrite sr_lrun_cons in Hrun.
      destruct (sr_lstep_keep (pend, tl) (b, l)) as [Kp Kg]. cbn [snd] in Kp, Kg.
      assert (Hnp' : sg_needs_pending r = true -> fst (sr_lstep (pend, tl) (b, l)) <> None) by (intros _; rewrite sr_lstep_hdr; apply sr_hstep_some).
      assert (Hfit' : sr_ffit (g_field_limit_hard g) (sr_p11 (snd (sr_lstep (pend, tl) (b, l)))) (fst (sr_lstep (pend, tl) (b, l))) r = true) by (rewrite Kp, sr_lstep_hdr; exact Hf2).
      assert (Hprog' : t_response_progress (snd (sr_lstep (pend, tl) (b, l))) = c_HTP_RESPONSE_HEADERS) by (rewrite Kg; exact Hprog).
      assert (Hhh' : r <> [] -> has_hdr = true) by (intros _; exact Hh1).
      assert (Hne' : lf1 = false -> [] ++ (if lf1 then [LF] else sg_fnext r) = sg_fnext r /\ (if lf1 then [LF] else sg_fnext r) <> []).
      { intros X. rewrite X. split; [reflexivity|apply sg_fnext_ne]. }
      assert (Hea' : lf1 = true -> r = [] /\ @nil N = [] /\ (if lf1 then [LF] else sg_fnext r) = [LF] /\ has_hdr = true).
      { intros X. destruct (Hlf1 X) as [Er _]. rewrite X. repeat split; assumption. }
      assert (Htop2' : lf1 = true -> rd1 = 0%nat \/ (rd1 = 2%nat /\ firstn 2 d = [LF; CR])) by (intros X; apply (Hlf1 X)).
      assert (Hcase2 : exists c2 hdr' t', sr_hcont cb g n1 e lf1 c1 = rs_headers_loop cb g n1 lf1 c2 /\
                pj_cin c2 d rd1 [] hdr' RES_HEADERS (Some RES_HEADERS) (Some H_RESPONSE_HEADER_DATA) t' /\
                sr_rel hdr' t' (fst (sr_lstep (pend, tl) (b, l))) (snd (sr_lstep (pend, tl) (b, l))) r).
      { destruct b.
        - (* a first line *)
          unfold sg_fl_ok in Okl. cbn [fst snd] in Okl.
          destruct (pj_hcont_start c1 d rd1 hdr _ _ t l eol n1 e lf1 Okl Heol H1 Hlim) as (c2 & E2 & H2).
          rewrite (sr_rel_flush _ _ _ _ _ Hrel) in H2. unfold sr_lstep, sr_hstep. cbn [fst snd].
          destruct (nth_error d rd1) as [b1|].
          + destruct (htp_is_folding_char b1) eqn:Fb.
            * exists c2, (Some l), (sr_flush pend tl). split; [exact E2|]. split; [exact H2|]. left. split; reflexivity.
            * exists c2, None, (rs_process_response_header l (sr_flush pend tl)). split; [exact E2|]. split; [exact H2|]. right. split; [reflexivity|]. split; [reflexivity|]. apply Hnext. reflexivity.
          + exists c2, (Some l), (sr_flush pend tl). split; [exact E2|]. split; [exact H2|]. left. split; reflexivity.
        - (* a continuation line *)
          unfold sg_fl_ok in Okl. cbn [fst snd] in Okl.
          destruct pend as [h|]; [|exfalso; apply (Hnp eq_refl); reflexivity].
          destruct Hrel as [[Eh' Et]|[_ [_ Hx]]]; [|discriminate]. subst hdr t.
          cbn [sg_olist] in Hlim.
          destruct (pj_hcont_cont c1 d rd1 h _ _ tl l eol n1 e lf1 Okl Heol H1 Hlim) as (c2 & E2 & H2).
          eexists c2, _, _. split; [exact E2|]. split; [exact H2|]. left. split; reflexivity. }
      destruct Hcase2 as (c2 & hdr' & t' & E2 & H2 & Hrel'). rewrite E2.
      destruct (IH c2 rd1 [] (if lf1 then [LF] else sg_fnext r) hdr' t' _ _ n1 lf1 lf1 H2 Hrel' Ok' Hnp' Hrun Hprog' Hne' Hea' Hw2 Hfit' Hhh' (fun X => X) (or_intror eq_refl) Htop2' Hn1) as [HA|HB].
      * left. exact HA.
      * right. exact HB.
Qed.
End Hdr.
