(* C02, block level: processing the header lines of a block in wire order builds exactly the table of the spec
   (distinct names in first-occurrence order, values joined with ", ", Content-Length keeps the first value, REPEATED flag),
   under the repetition cap; case-insensitive first-match lookup in that table. Request and response processors. *)
Require Import Htp.Model.Base Htp.Model.MBstr Htp.Model.MTable Htp.Model.MConnTypes Htp.Model.MReqLine Htp.Model.MResLine.
Require Import Htp.Spec.SWire Htp.Proof.PBstr Htp.Proof.PTable Htp.Proof.PWire Htp.Proof.PWireHdr.

(* ---------------------------------------------------------------- names are compared through lower-casing: an equivalence *)
Lemma wr_same_iff a b : wr_same a b = true <-> lower a = lower b.
Proof.
  unfold wr_same. rewrite nocase_eq. destruct (list_eq_dec N.eq_dec (lower a) (lower b)); split; intros H; try assumption; try reflexivity; try discriminate.
  contradiction.
Qed.
Lemma wr_same_refl a : wr_same a a = true. Proof. apply wr_same_iff. reflexivity. Qed.
Lemma wr_same_sym a b : wr_same a b = wr_same b a.
Proof.
  destruct (wr_same a b) eqn:E1; destruct (wr_same b a) eqn:E2; try reflexivity.
  - apply wr_same_iff in E1. symmetry in E1. apply wr_same_iff in E1. congruence.
  - apply wr_same_iff in E2. symmetry in E2. apply wr_same_iff in E2. congruence.
Qed.
Lemma wr_same_trans a b c : wr_same a b = true -> wr_same b c = wr_same a c.
Proof.
  intros H. apply wr_same_iff in H.
  destruct (wr_same b c) eqn:E1; destruct (wr_same a c) eqn:E2; try reflexivity.
  - apply wr_same_iff in E1. rewrite <- H in E1. apply wr_same_iff in E1. congruence.
  - apply wr_same_iff in E2. rewrite H in E2. apply wr_same_iff in E2. congruence.
Qed.

(* ---------------------------------------------------------------- list facts *)
Lemma wr_existsb_filter {A} (p q : A -> bool) l : (forall x, p x = true -> q x = true) -> existsb p (filter q l) = existsb p l.
Proof.
  intros H. induction l as [|x l IH]; [reflexivity|]. cbn [filter existsb]. destruct (q x) eqn:Q.
  - cbn [existsb]. rewrite IH. reflexivity.
  - rewrite IH. destruct (p x) eqn:P; [rewrite (H x P) in Q; discriminate|reflexivity].
Qed.
Lemma wr_existsb_false {A} (p : A -> bool) l : existsb p l = false -> forall y, In y l -> p y = false.
Proof.
  induction l as [|x l IH]; intros H y Hy; [destruct Hy|]. cbn [existsb] in H. apply orb_false_iff in H. destruct H as [H1 H2].
  destruct Hy as [Hy|Hy]; [subst; exact H1|apply IH; assumption].
Qed.
Lemma wr_filter_none {A} (p : A -> bool) l : existsb p l = false -> filter p l = [].
Proof.
  induction l as [|x l IH]; [reflexivity|]. cbn [existsb filter]. intros H. apply orb_false_iff in H. destruct H as [H1 H2]. rewrite H1. apply IH. exact H2.
Qed.
Lemma wr_upd_app_exact {A} (l1 : list A) x l2 z : upd (l1 ++ x :: l2) (length l1) z = l1 ++ z :: l2.
Proof. induction l1 as [|a l1 IH]; [reflexivity|]. cbn [app length upd]. rewrite IH. reflexivity. Qed.

Lemma wr_nth_map_exact {A B} (f : A -> B) l1 x l2 d : nth (length l1) (map f (l1 ++ x :: l2)) d = f x.
Proof. induction l1 as [|a l1 IH]; [reflexivity|]. cbn [app length map nth]. exact IH. Qed.
Lemma wr_upd_map_exact {A B} (f : A -> B) l1 x l2 z : upd (map f (l1 ++ x :: l2)) (length l1) z = map f l1 ++ z :: map f l2.
Proof. induction l1 as [|a l1 IH]; [reflexivity|]. cbn [app length map upd]. rewrite IH. reflexivity. Qed.

(* ---------------------------------------------------------------- the spec's components under one more field *)
Lemma wr_values_snoc x seen n v : wr_values_of x (seen ++ [(n, v)]) = wr_values_of x seen ++ (if wr_same n x then [v] else []).
Proof. unfold wr_values_of. rewrite filter_app, map_app. cbn [filter fst]. destruct (wr_same n x); reflexivity. Qed.

Lemma wr_first_names_snoc seen n v :
  wr_first_names (seen ++ [(n, v)]) =
  if existsb (fun x => wr_same x n) (wr_first_names seen) then wr_first_names seen else wr_first_names seen ++ [n].
Proof.
  induction seen as [|[a w] r IH]; [reflexivity|]. cbn [app wr_first_names existsb]. rewrite IH. destruct (wr_same a n) eqn:San; cbn [orb].
  - destruct (existsb (fun x => wr_same x n) (wr_first_names r)); [reflexivity|].
    rewrite filter_app. cbn [filter]. rewrite wr_same_sym, San. cbn [negb]. rewrite app_nil_r. reflexivity.
  - rewrite wr_existsb_filter.
    + destruct (existsb (fun x => wr_same x n) (wr_first_names r)); [reflexivity|].
      rewrite filter_app. cbn [filter]. rewrite wr_same_sym, San. reflexivity.
    + intros x Hx. apply negb_true_iff. destruct (wr_same x a) eqn:E; [|reflexivity].
      rewrite wr_same_sym in E. rewrite (wr_same_trans a x n E) in Hx. congruence.
Qed.

(* the first-occurrence names and the names of the fields agree on "is there a field of this name" *)
Lemma wr_first_names_exists seen n :
  existsb (fun x => wr_same x n) (wr_first_names seen) = existsb (fun h => wr_same (fst h) n) seen.
Proof.
  induction seen as [|[a w] r IH]; [reflexivity|]. cbn [wr_first_names existsb fst]. destruct (wr_same a n) eqn:San; [reflexivity|]. cbn [orb].
  rewrite wr_existsb_filter; [exact IH|].
  intros x Hx. apply negb_true_iff. destruct (wr_same x a) eqn:E; [|reflexivity].
  rewrite wr_same_sym in E. rewrite (wr_same_trans a x n E) in Hx. congruence.
Qed.
Lemma wr_values_none seen n : existsb (fun x => wr_same x n) (wr_first_names seen) = false -> wr_values_of n seen = [].
Proof. rewrite wr_first_names_exists. intros H. unfold wr_values_of. rewrite (wr_filter_none _ _ H). reflexivity. Qed.
Lemma wr_first_names_in seen x : In x (wr_first_names seen) -> In x (map fst seen).
Proof.
  revert x. induction seen as [|[a w] r IH]; intros x H; [exact H|]. cbn [wr_first_names map fst] in *. destruct H as [H|H]; [left; exact H|].
  right. apply IH. apply filter_In in H. apply H.
Qed.
Lemma wr_values_some seen x : In x (wr_first_names seen) -> exists v0 vr, wr_values_of x seen = v0 :: vr.
Proof.
  intros H. apply wr_first_names_in in H. apply in_map_iff in H. destruct H as ([a w] & E & Hin). cbn in E. subst a.
  unfold wr_values_of. destruct (filter (fun h => wr_same (fst h) x) seen) as [|h0 hr] eqn:F.
  - assert (Hf : In (x, w) (filter (fun h => wr_same (fst h) x) seen)) by (apply filter_In; split; [exact Hin|apply wr_same_refl]).
    rewrite F in Hf. destruct Hf.
  - exists (snd h0), (map snd hr). reflexivity.
Qed.
Lemma wr_values_same seen a b : wr_same a b = true -> wr_values_of a seen = wr_values_of b seen.
Proof.
  intros H. unfold wr_values_of. f_equal. apply filter_ext. intros h.
  rewrite (wr_same_sym (fst h) a), (wr_same_sym (fst h) b). apply wr_same_trans. rewrite wr_same_sym. exact H.
Qed.

(* first-occurrence names are pairwise different (case-insensitively) *)
Fixpoint wr_nodup (l : list bytes) : bool :=
  match l with [] => true | x :: r => forallb (fun y => negb (wr_same y x)) r && wr_nodup r end.
Lemma wr_nodup_filter q l : wr_nodup l = true -> wr_nodup (filter q l) = true.
Proof.
  induction l as [|x l IH]; [reflexivity|]. cbn [wr_nodup filter]. intros H. apply andb_prop in H. destruct H as [H1 H2].
  destruct (q x); [|apply IH; exact H2]. cbn [wr_nodup]. rewrite (IH H2), andb_true_r.
  rewrite forallb_forall in *. intros y Hy. apply H1. apply filter_In in Hy. apply Hy.
Qed.
Lemma wr_first_names_nodup seen : wr_nodup (wr_first_names seen) = true.
Proof.
  induction seen as [|[a w] r IH]; [reflexivity|]. cbn [wr_first_names wr_nodup]. rewrite (wr_nodup_filter _ _ IH), andb_true_r.
  apply forallb_forall. intros y Hy. apply filter_In in Hy. apply Hy.
Qed.
Lemma wr_nodup_split l1 x l2 : wr_nodup (l1 ++ x :: l2) = true ->
  forallb (fun y => negb (wr_same y x)) l2 = true /\ forallb (fun y => negb (wr_same y x)) l1 = true.
Proof.
  induction l1 as [|a l1 IH]; cbn [app wr_nodup forallb]; intros H; apply andb_prop in H; destruct H as [H1 H2].
  - split; [exact H1|reflexivity].
  - destruct (IH H2) as [A B]. split; [exact A|]. rewrite B, andb_true_r.
    rewrite forallb_app in H1. apply andb_prop in H1. destruct H1 as [_ H1]. cbn [forallb] in H1. apply andb_prop in H1. destruct H1 as [H1 _].
    rewrite wr_same_sym. exact H1.
Qed.

(* the table lookup of the code, on a table built by map from names *)
Fixpoint wr_index (p : bytes -> bool) (l : list bytes) (i : nat) : option nat :=
  match l with [] => None | x :: r => if p x then Some i else wr_index p r (S i) end.
Lemma wr_hdr_index_map p (f : bytes -> header) l : (forall x, h_name (f x) = x) ->
  forall i, rq_hdr_index p (map f l) i = wr_index p l i.
Proof. intros Hf. induction l as [|x l IH]; intros i; [reflexivity|]. cbn [map rq_hdr_index wr_index]. rewrite Hf. destruct (p x); [reflexivity|apply IH]. Qed.
Lemma wr_index_none p l i : wr_index p l i = None -> existsb p l = false.
Proof. revert i. induction l as [|x l IH]; intros i; [reflexivity|]. cbn [wr_index existsb]. destruct (p x); [discriminate|]. apply IH. Qed.
Lemma wr_index_some p l : forall i0 i, wr_index p l i0 = Some i ->
  exists l1 x l2, l = l1 ++ x :: l2 /\ i = (i0 + length l1)%nat /\ p x = true /\ existsb p l1 = false.
Proof.
  induction l as [|a l IH]; intros i0 i H; [discriminate|]. cbn [wr_index] in H. destruct (p a) eqn:P.
  - inversion H; subst. exists [], a, l. cbn. repeat split; try assumption; lia.
  - destruct (IH _ _ H) as (l1 & x & l2 & E & Ei & Px & Pl). exists (a :: l1), x, l2. cbn [app length existsb]. rewrite P, Pl, E. repeat split; try assumption. lia.
Qed.
Lemma rs_hdr_index_rq p hs : forall i, rs_hdr_index p hs i = rq_hdr_index p hs i.
Proof. induction hs as [|h hs IH]; intros i; [reflexivity|]. cbn. rewrite IH. reflexivity. Qed.
Lemma wr_entry_name hs x : h_name (wr_entry hs x) = x. Proof. reflexivity. Qed.

(* ---------------------------------------------------------------- the processing step on (table, repetition counter) *)
Definition wr_tab_step (tab : list header) (reps : nat) (h : header) : list header * nat :=
  match rq_hdr_find tab (h_name h) with
  | Some i =>
    let ex := nth i tab h in
    let repeated := flag_has (h_flags ex) c_HTP_FIELD_REPEATED in
    if repeated && negb (Z.of_nat reps <? c_HTP_MAX_HEADERS_REPETITIONS)%Z then (tab, reps)
    else
      let ex := mkhdr (h_name ex) (h_value ex) (flag_set (h_flags ex) c_HTP_FIELD_REPEATED) in
      let ex := if wr_is_cl (h_name h) then ex else mkhdr (h_name ex) (h_value ex ++ wr_sep ++ h_value h) (h_flags ex) in
      (upd tab i ex, if repeated then S reps else reps)
  | None => (tab ++ [h], reps)
  end.

Lemma wr_req_process_step line t h :
  htp_parse_request_header_generic line = (h, 0%N) ->
  let t' := htp_process_request_header_generic line t in
  (t_request_headers t', t_req_header_repetitions t') = wr_tab_step (t_request_headers t) (t_req_header_repetitions t) h.
Proof.
  intros Hp. unfold htp_process_request_header_generic, wr_tab_step. rewrite Hp. cbv zeta.
  cbn [t_request_headers t_req_header_repetitions set]. 
  destruct (rq_hdr_find (t_request_headers t) (h_name h)) as [i|]; [|reflexivity].
  set (ex := nth i (t_request_headers t) h).
  destruct (flag_has (h_flags ex) c_HTP_FIELD_REPEATED && negb (Z.of_nat (t_req_header_repetitions t) <? c_HTP_MAX_HEADERS_REPETITIONS)%Z); [reflexivity|].
  unfold wr_is_cl, wr_same. change wr_str_content_length with rq_str_content_length.
  destruct (flag_has (h_flags ex) c_HTP_FIELD_REPEATED); destruct (cmp_mem_nocase (h_name h) rq_str_content_length =? 0)%Z; reflexivity.
Qed.
Lemma wr_res_process_step line t h :
  rs_parse_response_header line (t_flags t) = (h, t_flags t) ->
  let t' := rs_process_response_header line t in
  (t_response_headers t', t_res_header_repetitions t') = wr_tab_step (t_response_headers t) (t_res_header_repetitions t) h.
Proof.
  intros Hp. unfold rs_process_response_header, wr_tab_step. rewrite Hp. cbv zeta.
  unfold rs_hdr_find, rq_hdr_find. rewrite rs_hdr_index_rq.
  cbn [t_response_headers t_res_header_repetitions set].
  destruct (rq_hdr_index (fun c => (cmp_mem_nocase c (h_name h) =? 0)%Z) (t_response_headers t) 0) as [i|]; [|reflexivity].
  set (ex := nth i (t_response_headers t) h).
  destruct (flag_has (h_flags ex) c_HTP_FIELD_REPEATED && negb (Z.of_nat (t_res_header_repetitions t) <? c_HTP_MAX_HEADERS_REPETITIONS)%Z); [reflexivity|].
  unfold wr_is_cl, wr_same. change wr_str_content_length with rs_str_Content_Length.
  destruct (flag_has (h_flags ex) c_HTP_FIELD_REPEATED); destruct (cmp_mem_nocase (h_name h) rs_str_Content_Length =? 0)%Z; reflexivity.
Qed.

(* flags *)
Lemma wr_flag_rep : flag_has c_HTP_FIELD_REPEATED c_HTP_FIELD_REPEATED = true /\ flag_has 0%N c_HTP_FIELD_REPEATED = false /\
  flag_set c_HTP_FIELD_REPEATED c_HTP_FIELD_REPEATED = c_HTP_FIELD_REPEATED /\ flag_set 0%N c_HTP_FIELD_REPEATED = c_HTP_FIELD_REPEATED.
Proof. repeat split; reflexivity. Qed.

Lemma wr_join_snoc v0 vr v : wr_join ((v0 :: vr) ++ [v]) = wr_join (v0 :: vr) ++ wr_sep ++ v.
Proof. cbn [app wr_join]. rewrite fold_left_app. reflexivity. Qed.

(* the invariant step: the table of `seen`, the counter of `seen`, one more well-parsed field inside the cap *)
Lemma wr_tab_step_spec seen n v :
  (Z.of_nat (wr_excess_from [] seen + (if (2 <=? length (wr_values_of n seen))%nat then 1 else 0)) <= c_HTP_MAX_HEADERS_REPETITIONS)%Z ->
  wr_tab_step (wr_table seen) (wr_excess_from [] seen) (mkhdr n v 0%N) =
  (wr_table (seen ++ [(n, v)]), (wr_excess_from [] seen + (if (2 <=? length (wr_values_of n seen))%nat then 1 else 0))%nat).
Proof.
  intros Cap. unfold wr_tab_step, rq_hdr_find, wr_table. cbn [h_name h_value].
  rewrite (wr_hdr_index_map _ (wr_entry seen) _ (wr_entry_name seen)).
  rewrite wr_first_names_snoc.
  destruct (wr_index (fun c => (cmp_mem_nocase c n =? 0)%Z) (wr_first_names seen) 0) as [i|] eqn:Ei.
  - (* a field of this name is already in the table *)
    destruct (wr_index_some _ _ _ _ Ei) as (l1 & x & l2 & El & Hi & Px & Pl). cbn [Nat.add] in Hi. subst i.
    change ((cmp_mem_nocase x n =? 0)%Z) with (wr_same x n) in Px.
    assert (Hex : existsb (fun x0 => wr_same x0 n) (wr_first_names seen) = true).
    { rewrite El, existsb_app. cbn [existsb]. rewrite Px. rewrite orb_true_r. reflexivity. }
    rewrite Hex.
    assert (Hin : In x (wr_first_names seen)) by (rewrite El; apply in_or_app; right; left; reflexivity).
    destruct (wr_values_some seen x Hin) as (v0 & vr & Ev).
    assert (Evn : wr_values_of n seen = v0 :: vr) by (rewrite <- Ev; apply wr_values_same; rewrite wr_same_sym; exact Px).
    rewrite Evn in *. cbn [length] in *.
    rewrite El. rewrite wr_nth_map_exact, wr_upd_map_exact.
    assert (Eex : wr_entry seen x = mkhdr x (if wr_is_cl x then v0 else wr_join (v0 :: vr)) (if (1 <? S (length vr))%nat then c_HTP_FIELD_REPEATED else 0%N)).
    { unfold wr_entry. rewrite Ev. reflexivity. }
    rewrite Eex. cbn [h_flags h_name h_value].
    destruct wr_flag_rep as (F1 & F2 & F3 & F4).
    assert (Hcl : wr_is_cl n = wr_is_cl x) by (unfold wr_is_cl; apply wr_same_trans; exact Px).
    pose proof (wr_first_names_nodup seen) as Nd. rewrite El in Nd. destruct (wr_nodup_split _ _ _ Nd) as [Nd2 Nd1].
    (* the other rows do not change *)
    assert (Hrow : forall l, forallb (fun y => negb (wr_same y x)) l = true -> map (wr_entry (seen ++ [(n, v)])) l = map (wr_entry seen) l).
    { intros l Hl. apply map_ext_in. intros y Hy. rewrite forallb_forall in Hl. specialize (Hl y Hy). apply negb_true_iff in Hl.
      unfold wr_entry. rewrite wr_values_snoc.
      assert (Hny : wr_same n y = false).
      { destruct (wr_same n y) eqn:E; [|reflexivity]. rewrite (wr_same_trans n y x E) in Hl. rewrite wr_same_sym, Px in Hl. discriminate. }
      rewrite Hny, app_nil_r. reflexivity. }
    assert (Hnew : wr_entry (seen ++ [(n, v)]) x =
                   mkhdr x (if wr_is_cl x then v0 else wr_join (v0 :: vr) ++ wr_sep ++ v) c_HTP_FIELD_REPEATED).
    { unfold wr_entry. rewrite wr_values_snoc, (wr_same_sym n x), Px, Ev. rewrite wr_join_snoc. cbn [app hd length].
      rewrite app_length. cbn [length]. replace (1 <? S (length vr + 1))%nat with true by (symmetry; apply Nat.ltb_lt; lia). reflexivity. }
    rewrite !map_app. cbn [map]. rewrite (Hrow l1 Nd1), (Hrow l2 Nd2), Hnew, Hcl.
    destruct vr as [|v1 vr'].
    + (* second occurrence: not yet flagged, not counted *)
      cbn [length Nat.ltb Nat.leb]. rewrite F2, F4. cbn [andb]. rewrite Nat.add_0_r.
      destruct (wr_is_cl x); reflexivity.
    + (* third or later occurrence: flagged, counted, inside the cap *)
      cbn [length] in *. replace (1 <? S (S (length vr')))%nat with true by reflexivity.
      replace (2 <=? S (S (length vr')))%nat with true in * by reflexivity. rewrite F1, F3. cbn [andb].
      assert (Hlt : (Z.of_nat (wr_excess_from [] seen) <? c_HTP_MAX_HEADERS_REPETITIONS)%Z = true) by (apply Z.ltb_lt; lia).
      rewrite Hlt. cbn [negb]. rewrite Nat.add_1_r. destruct (wr_is_cl x); reflexivity.
  - (* first field of this name *)
    apply wr_index_none in Ei. change (fun c => (cmp_mem_nocase c n =? 0)%Z) with (fun c => wr_same c n) in Ei.
    rewrite Ei. rewrite (wr_values_none seen n Ei). cbn [length Nat.leb]. rewrite Nat.add_0_r.
    rewrite map_app. cbn [map]. f_equal. f_equal.
    + apply map_ext_in. intros y Hy. unfold wr_entry. rewrite wr_values_snoc.
      assert (Hny : wr_same n y = false).
      { rewrite wr_same_sym. apply (wr_existsb_false _ _ Ei y Hy). }
      rewrite Hny, app_nil_r. reflexivity.
    + unfold wr_entry. rewrite wr_values_snoc, wr_same_refl, (wr_values_none seen n Ei). cbn. destruct (wr_is_cl n); reflexivity.
Qed.

(* ---------------------------------------------------------------- the repetition counter of the spec *)
Lemma wr_excess_app : forall a s b, wr_excess_from s (a ++ b) = (wr_excess_from s a + wr_excess_from (s ++ a) b)%nat.
Proof.
  induction a as [|[n v] a IH]; intros s b; [cbn [app wr_excess_from]; rewrite app_nil_r; reflexivity|].
  cbn [app wr_excess_from]. rewrite IH, <- app_assoc. cbn [app]. lia.
Qed.
Lemma wr_excess_snoc seen n v :
  wr_excess_from [] (seen ++ [(n, v)]) = (wr_excess_from [] seen + (if (2 <=? length (wr_values_of n seen))%nat then 1 else 0))%nat.
Proof. rewrite wr_excess_app. cbn [app wr_excess_from]. lia. Qed.

(* ---------------------------------------------------------------- (4) a whole block *)
Definition wr_step_nv (st : list header * nat) (nv : bytes * bytes) : list header * nat :=
  wr_tab_step (fst st) (snd st) (mkhdr (fst nv) (snd nv) 0%N).

Lemma wr_fold_tab : forall hs seen, (Z.of_nat (wr_excess_from [] (seen ++ hs)) <= c_HTP_MAX_HEADERS_REPETITIONS)%Z ->
  fold_left wr_step_nv hs (wr_table seen, wr_excess_from [] seen) = (wr_table (seen ++ hs), wr_excess_from [] (seen ++ hs)).
Proof.
  induction hs as [|[n v] hs IH]; intros seen Cap; [rewrite app_nil_r; reflexivity|].
  cbn [fold_left]. unfold wr_step_nv at 2. cbn [fst snd].
  assert (Cap1 : (Z.of_nat (wr_excess_from [] (seen ++ [(n, v)])) <= c_HTP_MAX_HEADERS_REPETITIONS)%Z).
  { replace (seen ++ (n, v) :: hs) with ((seen ++ [(n, v)]) ++ hs) in Cap by (rewrite <- app_assoc; reflexivity).
    rewrite wr_excess_app in Cap. lia. }
  rewrite wr_excess_snoc in Cap1. rewrite (wr_tab_step_spec seen n v Cap1), <- (wr_excess_snoc seen n v).
  replace (seen ++ (n, v) :: hs) with ((seen ++ [(n, v)]) ++ hs) in * by (rewrite <- app_assoc; reflexivity).
  apply IH. exact Cap.
Qed.

Lemma wr_req_block_gen : forall fs e seen t, forallb wr_field_ok fs = true -> wr_eol e = true ->
  (Z.of_nat (wr_excess_from [] (seen ++ map wr_field_nv fs)) <= c_HTP_MAX_HEADERS_REPETITIONS)%Z ->
  t_request_headers t = wr_table seen -> t_req_header_repetitions t = wr_excess_from [] seen ->
  let t' := fold_left (fun t l => htp_process_request_header_generic l t) (map (fun f => wr_field_line f ++ e) fs) t in
  t_request_headers t' = wr_table (seen ++ map wr_field_nv fs) /\ t_req_header_repetitions t' = wr_excess_from [] (seen ++ map wr_field_nv fs).
Proof.
  induction fs as [|f fs IH]; intros e seen t Ok He Cap Ht Hr; cbn [map fold_left] in *; [rewrite app_nil_r; split; assumption|].
  cbn [forallb] in Ok. apply andb_prop in Ok. destruct Ok as [Okf Ok].
  unfold wr_field_ok in Okf. apply andb_prop in Okf. destruct Okf as [Okf L2]. apply andb_prop in Okf. destruct Okf as [W L1].
  pose proof (wr_req_header_roundtrip _ _ _ _ e W L1 L2 He) as Hp.
  pose proof (wr_req_process_step (wr_field_line f ++ e) t _ Hp) as Hs. cbv zeta in Hs.
  assert (Cap1 : (Z.of_nat (wr_excess_from [] (seen ++ [wr_field_nv f])) <= c_HTP_MAX_HEADERS_REPETITIONS)%Z).
  { replace (seen ++ wr_field_nv f :: map wr_field_nv fs) with ((seen ++ [wr_field_nv f]) ++ map wr_field_nv fs) in Cap by (rewrite <- app_assoc; reflexivity).
    rewrite wr_excess_app in Cap. lia. }
  unfold wr_field_nv at 1 in Cap1. rewrite wr_excess_snoc in Cap1.
  rewrite Ht, Hr, (wr_tab_step_spec seen _ _ Cap1), <- (wr_excess_snoc seen (wf_name f) (wf_value f)) in Hs. inversion Hs as [[Ht' Hr']].
  replace (seen ++ wr_field_nv f :: map wr_field_nv fs) with ((seen ++ [wr_field_nv f]) ++ map wr_field_nv fs) in * by (rewrite <- app_assoc; reflexivity).
  apply IH; assumption.
Qed.

Theorem wr_req_header_block : forall fs e t, wr_block_ok fs = true -> wr_eol e = true ->
  t_request_headers t = [] -> t_req_header_repetitions t = 0%nat ->
  let t' := fold_left (fun t l => htp_process_request_header_generic l t) (map (fun f => wr_field_line f ++ e) fs) t in
  t_request_headers t' = wr_table (map wr_field_nv fs) /\ t_req_header_repetitions t' = wr_excess (map wr_field_nv fs).
Proof.
  intros fs e t Ok He Ht Hr. unfold wr_block_ok in Ok. apply andb_prop in Ok. destruct Ok as [Ok Cap]. unfold wr_cap_ok in Cap. apply Z.leb_le in Cap.
  exact (wr_req_block_gen fs e [] t Ok He Cap Ht Hr).
Qed.

Lemma wr_res_block_gen : forall fs e seen t, forallb wr_field_ok fs = true -> wr_eol e = true ->
  (Z.of_nat (wr_excess_from [] (seen ++ map wr_field_nv fs)) <= c_HTP_MAX_HEADERS_REPETITIONS)%Z ->
  t_response_headers t = wr_table seen -> t_res_header_repetitions t = wr_excess_from [] seen ->
  let t' := fold_left (fun t l => rs_process_response_header l t) (map (fun f => wr_field_line f ++ e) fs) t in
  t_response_headers t' = wr_table (seen ++ map wr_field_nv fs) /\ t_res_header_repetitions t' = wr_excess_from [] (seen ++ map wr_field_nv fs)
  /\ t_flags t' = t_flags t.
Proof.
  induction fs as [|f fs IH]; intros e seen t Ok He Cap Ht Hr; cbn [map fold_left] in *; [rewrite app_nil_r; repeat split; assumption|].
  cbn [forallb] in Ok. apply andb_prop in Ok. destruct Ok as [Okf Ok].
  unfold wr_field_ok in Okf. apply andb_prop in Okf. destruct Okf as [Okf L2]. apply andb_prop in Okf. destruct Okf as [W L1].
  pose proof (wr_res_header_roundtrip _ _ _ _ e (t_flags t) W L1 L2 He) as Hp.
  pose proof (wr_res_process_step (wr_field_line f ++ e) t _ Hp) as Hs. cbv zeta in Hs.
  assert (Hfl : t_flags (rs_process_response_header (wr_field_line f ++ e) t) = t_flags t).
  { unfold rs_process_response_header. unfold wr_field_line. rewrite Hp. cbv zeta.
    destruct (rs_hdr_find _ _); [|reflexivity]. destruct (_ && _); [reflexivity|]. destruct (flag_has _ _); reflexivity. }
  assert (Cap1 : (Z.of_nat (wr_excess_from [] (seen ++ [wr_field_nv f])) <= c_HTP_MAX_HEADERS_REPETITIONS)%Z).
  { replace (seen ++ wr_field_nv f :: map wr_field_nv fs) with ((seen ++ [wr_field_nv f]) ++ map wr_field_nv fs) in Cap by (rewrite <- app_assoc; reflexivity).
    rewrite wr_excess_app in Cap. lia. }
  unfold wr_field_nv at 1 in Cap1. rewrite wr_excess_snoc in Cap1.
  rewrite Ht, Hr, (wr_tab_step_spec seen _ _ Cap1), <- (wr_excess_snoc seen (wf_name f) (wf_value f)) in Hs. inversion Hs as [[Ht' Hr']].
  replace (seen ++ wr_field_nv f :: map wr_field_nv fs) with ((seen ++ [wr_field_nv f]) ++ map wr_field_nv fs) in * by (rewrite <- app_assoc; reflexivity).
  rewrite <- Hfl. apply IH; assumption.
Qed.

Theorem wr_res_header_block : forall fs e t, wr_block_ok fs = true -> wr_eol e = true ->
  t_response_headers t = [] -> t_res_header_repetitions t = 0%nat ->
  let t' := fold_left (fun t l => rs_process_response_header l t) (map (fun f => wr_field_line f ++ e) fs) t in
  t_response_headers t' = wr_table (map wr_field_nv fs) /\ t_res_header_repetitions t' = wr_excess (map wr_field_nv fs) /\ t_flags t' = t_flags t.
Proof.
  intros fs e t Ok He Ht Hr. unfold wr_block_ok in Ok. apply andb_prop in Ok. destruct Ok as [Ok Cap]. unfold wr_cap_ok in Cap. apply Z.leb_le in Cap.
  exact (wr_res_block_gen fs e [] t Ok He Cap Ht Hr).
Qed.

(* ---------------------------------------------------------------- (5) lookup by any casing *)
Lemma wr_nonzero_id s : wr_no_nul s = true -> PBstr.nonzero s = s.
Proof.
  unfold wr_no_nul, PBstr.nonzero. induction s as [|x s IH]; [reflexivity|]. cbn [forallb filter]. intros H. apply andb_prop in H. destruct H as [H1 H2].
  rewrite H1, (IH H2). reflexivity.
Qed.
Lemma wr_index_ext_in p q l : (forall x, In x l -> p x = q x) -> forall i, wr_index p l i = wr_index q l i.
Proof.
  induction l as [|x l IH]; intros H i; [reflexivity|]. cbn [wr_index]. rewrite (H x) by (left; reflexivity).
  destruct (q x); [reflexivity|]. apply IH. intros y Hy. apply H. right. exact Hy.
Qed.
Lemma wr_find_filter {A} (p q : A -> bool) l : (forall x, q x = false -> p x = false) -> find p (filter q l) = find p l.
Proof.
  intros H. induction l as [|x l IH]; [reflexivity|]. cbn [filter find]. destruct (q x) eqn:Q.
  - cbn [find]. rewrite IH. reflexivity.
  - rewrite (H x Q). exact IH.
Qed.
Lemma wr_find_first_names hs k : find (fun x => wr_same x k) (wr_first_names hs) = find (fun x => wr_same x k) (map fst hs).
Proof.
  induction hs as [|[a w] r IH]; [reflexivity|]. cbn [wr_first_names map fst find]. destruct (wr_same a k) eqn:E; [reflexivity|].
  rewrite wr_find_filter; [exact IH|].
  intros x Hx. apply negb_false_iff in Hx. rewrite wr_same_sym in Hx. rewrite (wr_same_trans a x k Hx). exact E.
Qed.
Lemma wr_index_find p l : forall i0,
  match wr_index p l i0 with
  | Some i => exists x, find p l = Some x /\ (i0 <= i)%nat /\ nth_error l (i - i0) = Some x
  | None => find p l = None
  end.
Proof.
  induction l as [|a l IH]; intros i0; [reflexivity|]. cbn [wr_index find]. destruct (p a).
  - exists a. rewrite Nat.sub_diag. repeat split. lia.
  - specialize (IH (S i0)). destruct (wr_index p l (S i0)) as [i|]; [|exact IH].
    destruct IH as (x & F & L & N). exists x. split; [exact F|]. split; [lia|]. replace (i - i0)%nat with (S (i - S i0)) by lia. exact N.
Qed.
Lemma wr_nth_error_map {A B} (f : A -> B) l : forall i, nth_error (map f l) i = option_map f (nth_error l i).
Proof. induction l as [|x l IH]; intros [|i]; try reflexivity. apply IH. Qed.

Theorem wr_lookup_nocase : forall hs k, forallb (fun h => wr_no_nul (fst h)) hs = true ->
  rq_hdr_get_c (wr_table hs) k = option_map (wr_entry hs) (wr_first_spelling hs k).
Proof.
  intros hs k Nz. unfold rq_hdr_get_c, wr_table, wr_first_spelling.
  rewrite (wr_hdr_index_map _ (wr_entry hs) _ (wr_entry_name hs)).
  rewrite (wr_index_ext_in _ (fun x => wr_same x k)).
  - rewrite <- wr_find_first_names.
    pose proof (wr_index_find (fun x => wr_same x k) (wr_first_names hs) 0) as H.
    destruct (wr_index (fun x => wr_same x k) (wr_first_names hs) 0) as [i|].
    + destruct H as (x & F & _ & N). rewrite Nat.sub_0_r in N. rewrite F, wr_nth_error_map, N. reflexivity.
    + rewrite H. reflexivity.
  - intros x Hx. apply wr_first_names_in in Hx. apply in_map_iff in Hx. destruct Hx as (h & E & Hin).
    rewrite forallb_forall in Nz. specialize (Nz h Hin). rewrite E in Nz.
    rewrite cmp_mem_nocasenorzero_spec, (wr_nonzero_id x Nz). reflexivity.
Qed.
Lemma rs_hdr_get_c_rq tab k : rs_hdr_get_c tab k = rq_hdr_get_c tab k.
Proof. unfold rs_hdr_get_c, rq_hdr_get_c. rewrite rs_hdr_index_rq. reflexivity. Qed.
Theorem wr_lookup_nocase_res : forall hs k, forallb (fun h => wr_no_nul (fst h)) hs = true ->
  rs_hdr_get_c (wr_table hs) k = option_map (wr_entry hs) (wr_first_spelling hs k).
Proof. intros. rewrite rs_hdr_get_c_rq. apply wr_lookup_nocase. assumption. Qed.

(* tokens carry no NUL: the premise of the lookup theorem holds for well-formed fields *)
Lemma wr_fields_no_nul fs : forallb wr_field_ok fs = true -> forallb (fun h => wr_no_nul (fst h)) (map wr_field_nv fs) = true.
Proof.
  induction fs as [|f fs IH]; [reflexivity|]. cbn [forallb map]. intros H. apply andb_prop in H. destruct H as [Hf H]. rewrite (IH H), andb_true_r.
  unfold wr_field_ok, wr_wf_header, wr_token in Hf. repeat (apply andb_prop in Hf; destruct Hf as [Hf ?]).
  unfold wr_field_nv, wr_no_nul. cbn [fst]. eapply wr_forallb_impl; [|eassumption].
  intros b Hb. destruct (wr_token_facts b Hb) as (_ & _ & C & _). rewrite C. reflexivity.
Qed.
