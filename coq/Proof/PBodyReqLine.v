(* C06, part D (request side): the two byte loops (chunk-length line, end of chunk data) and
   "line assembly is chunking-invariant": REQ_BODY_CHUNKED_LENGTH fed ANY chunking of line ++ rest hands exactly
   `line` to htp_parse_chunked_length (also layer 1 of C03); then the chunked decode/encode theorem. *)
Require Import Htp.Model.MConnTypes Htp.Model.MBstr Htp.Model.MTxCommon Htp.Model.MReqLine Htp.Model.MTxReq Htp.Model.MReq.
Require Import Htp.Spec.SBody Htp.Proof.PBody Htp.Proof.PBodyReq Htp.Proof.PBodyReqRun.
Local Open Scope Z_scope.

Ltac bd_splits := repeat match goal with |- _ /\ _ => split end.

Section Req.
Variable cb : cb_oracle.
Variable g : cfg.
Hypothesis cb_ok : forall n, cb H_REQUEST_BODY_DATA n = CB_OK.

(* ================= byte loops: closed forms ================= *)
Definition bd_olist (o : option bytes) : bytes := match o with Some b => b | None => [] end.
(* k bytes copied (IN_COPY_BYTE): read offset advanced, in_next_byte = the last one *)
Definition bd_rq_copied (k : nat) (nb : option N) (c : connp) : connp :=
  rq_set_in (fun cur => cur <| k_next_byte := nb |> <| k_read := (k_read cur + k)%nat |>) c.
(* k bytes taken (IN_NEXT_BYTE): read and consume offsets advanced *)
Definition bd_rq_taken (k : nat) (nb : option N) (c : connp) : connp :=
  rq_set_in (fun cur => cur <| k_next_byte := nb |> <| k_read := (k_read cur + k)%nat |> <| k_consume := (k_consume cur + k)%nat |>) c.

Lemma bd_cursor_eta (a b : cursor) :
  k_data a = k_data b -> k_len a = k_len b -> k_read a = k_read b -> k_consume a = k_consume b -> k_receiver a = k_receiver b ->
  k_next_byte a = k_next_byte b -> k_buf a = k_buf b -> k_header a = k_header b -> k_receiver_hook a = k_receiver_hook b -> a = b.
Proof. destruct a, b; cbn; intros; subst; reflexivity. Qed.

Lemma bd_set_in_set_in f h c : rq_set_in f (rq_set_in h c) = rq_set_in (fun k => f (h k)) c.
Proof. destruct c; reflexivity. Qed.
Lemma bd_set_in_ext f h c : f (c_in c) = h (c_in c) -> rq_set_in f c = rq_set_in h c.
Proof. intros H. destruct c; unfold rq_set_in, set; cbn in *. rewrite H. reflexivity. Qed.
Lemma bd_rq_copied_copied k nb b c : bd_rq_copied 1 (Some b) (bd_rq_copied k nb c) = bd_rq_copied (S k) (Some b) c.
Proof.
  unfold bd_rq_copied. rewrite bd_set_in_set_in. apply bd_set_in_ext. apply bd_cursor_eta; cbn; try reflexivity. lia.
Qed.
Lemma bd_rq_copied_add j k nb nb' c : bd_rq_copied k nb (bd_rq_copied j nb' c) = bd_rq_copied (j + k) nb c.
Proof.
  unfold bd_rq_copied. rewrite bd_set_in_set_in. apply bd_set_in_ext. apply bd_cursor_eta; cbn; try reflexivity. lia.
Qed.
Lemma bd_rq_taken_taken k nb b c : bd_rq_taken 1 (Some b) (bd_rq_taken k nb c) = bd_rq_taken (S k) (Some b) c.
Proof.
  unfold bd_rq_taken. rewrite bd_set_in_set_in. apply bd_set_in_ext. apply bd_cursor_eta; cbn; try reflexivity; lia.
Qed.

Lemma bd_rest_cons c b tl : bd_rq_rest c = b :: tl ->
  (exists d, k_data (c_in c) = Some d /\ k_len (c_in c) = length d) ->
  rq_at_end c = false /\ rq_read_byte c = (c, b).
Proof.
  intros H (d & Hd & Hl). unfold bd_rq_rest in H. rewrite Hd in H. unfold rq_at_end, rq_read_byte. rewrite Hd, Hl.
  assert (L : (k_read (c_in c) < length d)%nat).
  { destruct (Nat.lt_ge_cases (k_read (c_in c)) (length d)); [assumption|]. rewrite skipn_all2 in H by lia. discriminate. }
  split; [apply Nat.leb_gt; exact L|].
  assert (nth_error d (k_read (c_in c)) = Some b).
  { rewrite <- (firstn_skipn (k_read (c_in c)) d) at 1. rewrite nth_error_app2; rewrite firstn_length; [|lia].
    replace (k_read (c_in c) - Nat.min (k_read (c_in c)) (length d))%nat with 0%nat by lia. rewrite H. reflexivity. }
  rewrite H0. reflexivity.
Qed.
Lemma bd_rest_nil c : bd_rq_rest c = [] ->
  (exists d, k_data (c_in c) = Some d /\ k_len (c_in c) = length d /\ (k_read (c_in c) <= length d)%nat) -> rq_at_end c = true.
Proof.
  intros H (d & Hd & Hl & Hr). unfold bd_rq_rest in H. rewrite Hd in H. unfold rq_at_end. rewrite Hl. apply Nat.leb_le.
  assert (length (skipn (k_read (c_in c)) d) = 0%nat) by (rewrite H; reflexivity). rewrite skipn_length in H0. lia.
Qed.
Lemma bd_rq_copy_byte c b tl : bd_rq_rest c = b :: tl ->
  (exists d, k_data (c_in c) = Some d /\ k_len (c_in c) = length d) ->
  rq_copy_byte c = Some (bd_rq_copied 1 (Some b) c).
Proof.
  intros H Hd. destruct (bd_rest_cons c b tl H Hd) as (A & B). unfold rq_copy_byte. rewrite A, B.
  unfold bd_rq_copied. f_equal. apply bd_set_in_ext. apply bd_cursor_eta; cbn; try reflexivity. lia.
Qed.
Lemma bd_rq_next_byte c b tl : bd_rq_rest c = b :: tl ->
  (exists d, k_data (c_in c) = Some d /\ k_len (c_in c) = length d) ->
  rq_next_byte c = Some (bd_rq_taken 1 (Some b) c).
Proof.
  intros H Hd. destruct (bd_rest_cons c b tl H Hd) as (A & B). unfold rq_next_byte. rewrite A, B.
  unfold bd_rq_taken. f_equal. apply bd_set_in_ext. apply bd_cursor_eta; cbn; try reflexivity; lia.
Qed.
Lemma bd_rq_rest_copied k nb c tl pre :
  bd_rq_rest c = pre ++ tl -> length pre = k -> bd_rq_rest (bd_rq_copied k nb c) = tl.
Proof.
  intros H L. unfold bd_rq_rest in *. cbn. destruct (k_data (c_in c)) as [d|].
  - rewrite <- bd_skipn_skipn, H, skipn_app, <- L, Nat.sub_diag, skipn_all. reflexivity.
  - destruct pre; [cbn in *; subst; reflexivity|discriminate].
Qed.
Lemma bd_rq_rest_taken k nb c tl pre :
  bd_rq_rest c = pre ++ tl -> length pre = k -> bd_rq_rest (bd_rq_taken k nb c) = tl.
Proof. apply bd_rq_rest_copied. Qed.
Lemma bd_data_copied k nb c x : k_data (c_in c) = x -> k_data (c_in (bd_rq_copied k nb c)) = x. Proof. auto. Qed.

(* the continuation of REQ_BODY_CHUNKED_LENGTH once the LF has been copied *)
Definition bd_rq_line_done (c : connp) : st * connp :=
  match req_consolidate_data g c with
  | (ST_OK, c, data) =>
    let c := rq_tx_upd (fun t => t <| t_request_message_len ::= Z.add (Z.of_nat (length data)) |>) c in
    let '(v, _) := parse_chunked_length (htp_chomp data) in
    let c := req_clear_buffer (c <| c_in_chunked_length := v |>) in
    if 0 <? v then (ST_OK, c <| c_in_state := REQ_BODY_CHUNKED_DATA |>)
    else if v =? 0 then
      (ST_OK, rq_tx_upd (fun t => t <| t_request_progress := c_HTP_REQUEST_TRAILER |>) (c <| c_in_state := REQ_HEADERS |>))
    else (ST_ERROR, c)
  | (_, c, _) => (ST_ERROR, c)
  end.

Lemma bd_rq_length_loop : forall pre c n tl,
  (exists d, k_data (c_in c) = Some d /\ k_len (c_in c) = length d /\ (k_read (c_in c) <= length d)%nat) ->
  bd_rq_rest c = pre ++ tl -> bd_no_lf pre = true -> (length (bd_rq_rest c) <= n)%nat ->
  match tl with [] => True | b :: _ => b = LF end ->
  REQ_BODY_CHUNKED_LENGTH_loop g n c =
    match tl with
    | [] => (ST_DATA_BUFFER, match pre with [] => c | _ => bd_rq_copied (length pre) (Some (last pre 0%N)) c end)
    | _ :: _ => bd_rq_line_done (bd_rq_copied (S (length pre)) (Some LF) c)
    end.
Proof.
  induction pre as [|a pre IH]; intros c n tl Hd Hr Hnl Hn Htl.
  - cbn [app] in Hr. destruct tl as [|b tl].
    + destruct n; cbn [REQ_BODY_CHUNKED_LENGTH_loop]; unfold rq_copy_byte; rewrite (bd_rest_nil c Hr Hd); reflexivity.
    + subst b.
      assert (Hd' : exists d, k_data (c_in c) = Some d /\ k_len (c_in c) = length d) by (destruct Hd as (d & A & B & _); eauto).
      destruct n; cbn [REQ_BODY_CHUNKED_LENGTH_loop]; rewrite (bd_rq_copy_byte c LF tl Hr Hd');
        unfold rq_next_is; cbn [bd_rq_copied rq_set_in c_in set k_next_byte]; cbn; reflexivity.
  - cbn [app] in Hr. cbn [bd_no_lf forallb] in Hnl. apply andb_true_iff in Hnl. destruct Hnl as (Ha & Hnl).
    assert (Hd' : exists d, k_data (c_in c) = Some d /\ k_len (c_in c) = length d) by (destruct Hd as (d & A & B & _); eauto).
    rewrite Hr in Hn. cbn [length] in Hn. destruct n as [|n]; [lia|].
    cbn [REQ_BODY_CHUNKED_LENGTH_loop]. rewrite (bd_rq_copy_byte c a _ Hr Hd').
    assert (Hna : rq_next_is (bd_rq_copied 1 (Some a) c) LF = false).
    { unfold rq_next_is. cbn. apply negb_true_iff in Ha. exact Ha. }
    rewrite Hna.
    assert (Hr1 : bd_rq_rest (bd_rq_copied 1 (Some a) c) = pre ++ tl) by (apply (bd_rq_rest_copied 1 _ c _ [a]); [exact Hr|reflexivity]).
    assert (Hd1 : exists d, k_data (c_in (bd_rq_copied 1 (Some a) c)) = Some d /\ k_len (c_in (bd_rq_copied 1 (Some a) c)) = length d /\
                            (k_read (c_in (bd_rq_copied 1 (Some a) c)) <= length d)%nat).
    { destruct Hd as (d & A & B & C). exists d. cbn. repeat split; auto.
      unfold bd_rq_rest in Hr. rewrite A in Hr.
      assert (length (skipn (k_read (c_in c)) d) = length (a :: pre ++ tl)) by (rewrite Hr; reflexivity).
      rewrite skipn_length in H. cbn in H. lia. }
    rewrite (IH _ n tl Hd1 Hr1 Hnl); [|rewrite Hr1; lia|exact Htl].
    destruct tl as [|b tl'].
    + f_equal. destruct pre as [|p pre'].
      * reflexivity.
      * rewrite bd_rq_copied_add. reflexivity.
    + rewrite bd_rq_copied_add. reflexivity.
Qed.

(* htp_connp_req_buffer when there is something to buffer and it fits *)
Lemma bd_req_buffer_spec i c1 d :
  k_data (c_in c1) = Some d -> k_header (c_in c1) = None -> c_in_tx c1 = Some i ->
  (k_consume (c_in c1) < k_read (c_in c1))%nat -> (k_read (c_in c1) <= length d)%nat ->
  (length (bd_olist (k_buf (c_in c1))) + (k_read (c_in c1) - k_consume (c_in c1)) <= g_field_limit_hard g)%nat ->
  req_buffer g c1 =
    (ST_OK, rq_set_in (fun k => k <| k_buf := Some (bd_olist (k_buf (c_in c1)) ++
                                                  firstn (k_read (c_in c1) - k_consume (c_in c1)) (skipn (k_consume (c_in c1)) d)) |>
                                  <| k_consume := k_read k |>) c1).
Proof.
  intros Hd Hh Hi Hlt Hle Hhard. unfold req_buffer. rewrite Hd.
  assert (E1 : (k_read (c_in c1) <? k_consume (c_in c1))%nat = false) by (apply Nat.ltb_ge; lia). rewrite E1.
  assert (E2 : (k_read (c_in c1) - k_consume (c_in c1) =? 0)%nat = false) by (apply Nat.eqb_neq; lia). rewrite E2.
  rewrite Hi. unfold rq_buf_size, rq_header_len. rewrite Hh.
  assert (E3 : (g_field_limit_hard g <? match k_buf (c_in c1) with Some b => length b | None => 0 end + (k_read (c_in c1) - k_consume (c_in c1)) + 0)%nat = false).
  { apply Nat.ltb_ge. unfold bd_olist in Hhard. destruct (k_buf (c_in c1)); cbn in *; lia. }
  rewrite E3. unfold rq_slice. rewrite Hd.
  assert (E4 : (k_read (c_in c1) <=? length d)%nat = true) by (apply Nat.leb_le; lia). rewrite E4.
  unfold bd_olist. reflexivity.
Qed.
Lemma bd_rq_slice_spec c1 d from to : k_data (c_in c1) = Some d -> (to <= length d)%nat ->
  rq_slice c1 from to = (c1, firstn (to - from) (skipn from d)).
Proof. intros Hd Hle. unfold rq_slice. rewrite Hd. apply Nat.leb_le in Hle. rewrite Hle. reflexivity. Qed.

(* ---- the line is complete: what REQ_BODY_CHUNKED_LENGTH does with it ---- *)
Definition bd_rq_line_rc (v : Z) : st := if 0 <? v then ST_OK else if v =? 0 then ST_OK else ST_ERROR.
Definition bd_rq_line_state (v : Z) : req_state :=
  if 0 <? v then REQ_BODY_CHUNKED_DATA else if v =? 0 then REQ_HEADERS else REQ_BODY_CHUNKED_LENGTH.

Lemma bd_firstn_exact {B} (a b : list B) n : n = length a -> firstn n (a ++ b) = a.
Proof. intros ->. rewrite firstn_app, Nat.sub_diag, firstn_all. cbn. apply app_nil_r. Qed.

Lemma bd_rq_length_final i t c l tl :
  bd_rq_inv i c -> c_in_state c = REQ_BODY_CHUNKED_LENGTH -> k_consume (c_in c) = k_read (c_in c) ->
  bd_rq_rest c = l ++ LF :: tl -> bd_no_lf l = true ->
  (length (bd_olist (k_buf (c_in c))) + length l + 1 <= g_field_limit_hard g)%nat ->
  tx_slot c i = Some t ->
  let line := bd_olist (k_buf (c_in c)) ++ l ++ [LF] in
  let v := bd_rq_line_value line in
  exists c',
    REQ_BODY_CHUNKED_LENGTH_fn g c = (bd_rq_line_rc v, c') /\
    c_in_tx c' = Some i /\ c_in_status c' = c_in_status c /\ c_events c' = c_events c /\
    c_in_body_data_left c' = c_in_body_data_left c /\ c_in_chunked_length c' = v /\
    c_in_state c' = bd_rq_line_state v /\ c_in_state_previous c' = c_in_state_previous c /\
    k_data (c_in c') = k_data (c_in c) /\ k_len (c_in c') = k_len (c_in c) /\
    k_read (c_in c') = (k_read (c_in c) + length l + 1)%nat /\ k_consume (c_in c') = k_read (c_in c') /\
    k_buf (c_in c') = None /\ k_header (c_in c') = None /\ k_receiver_hook (c_in c') = None /\
    exists t', tx_slot c' i = Some t' /\ t_hook_request_body t' = t_hook_request_body t /\
               t_request_entity_len t' = t_request_entity_len t /\
               t_request_message_len t' = t_request_message_len t + Z.of_nat (length line) /\
               (v = 0 -> t_request_progress t' = c_HTP_REQUEST_TRAILER).
Proof.
  intros Inv Hs Hc Hr Hnl Hhard Hl line v.
  destruct Inv as [Hi _ Hrcv Hhd Hst (d & Hd & Hlen & Hrd)].
  unfold REQ_BODY_CHUNKED_LENGTH_fn.
  rewrite (bd_rq_length_loop l c _ (LF :: tl)); [|exists d; auto|exact Hr|exact Hnl|rewrite Hlen; unfold bd_rq_rest; rewrite Hd, skipn_length; lia|reflexivity].
  assert (Hrd2 : (k_read (c_in c) + length l + 1 <= length d)%nat).
  { unfold bd_rq_rest in Hr. rewrite Hd in Hr. assert (length (skipn (k_read (c_in c)) d) = length (l ++ LF :: tl)) by (rewrite Hr; reflexivity).
    rewrite skipn_length, app_length in H. cbn in H. lia. }
  assert (Hpiece : firstn (S (length l)) (skipn (k_read (c_in c)) d) = l ++ [LF]).
  { unfold bd_rq_rest in Hr. rewrite Hd in Hr. rewrite Hr. change (LF :: tl) with ([LF] ++ tl). rewrite app_assoc.
    apply bd_firstn_exact. rewrite app_length. cbn. lia. }
  set (c1 := bd_rq_copied (S (length l)) (Some LF) c).
  assert (F1 : c_in c1 = (c_in c) <| k_next_byte := Some LF |> <| k_read := (k_read (c_in c) + S (length l))%nat |>) by reflexivity.
  assert (F2 : c_in_tx c1 = Some i /\ c_in_status c1 = c_in_status c /\ c_events c1 = c_events c /\
               c_in_body_data_left c1 = c_in_body_data_left c /\ c_in_state c1 = c_in_state c /\
               c_in_state_previous c1 = c_in_state_previous c /\ tx_slot c1 i = Some t).
  { repeat split; try assumption; try (rewrite <- Hl; apply bd_slot_ext; reflexivity). }
  clearbody c1. destruct F2 as (G1 & G2 & G3 & G4 & G5 & G6 & G7).
  (* consolidation hands over exactly `line` *)
  assert (Hcons : exists c2, req_consolidate_data g c1 = (ST_OK, c2, line) /\
             c_in_tx c2 = Some i /\ c_in_status c2 = c_in_status c /\ c_events c2 = c_events c /\
             c_in_body_data_left c2 = c_in_body_data_left c /\ c_in_state c2 = c_in_state c /\
             c_in_state_previous c2 = c_in_state_previous c /\ tx_slot c2 i = Some t /\
             k_data (c_in c2) = Some d /\ k_len (c_in c2) = k_len (c_in c) /\ k_read (c_in c2) = (k_read (c_in c) + S (length l))%nat /\
             k_header (c_in c2) = None /\ k_receiver_hook (c_in c2) = None).
  { assert (P1 : k_data (c_in c1) = Some d) by (rewrite F1; exact Hd).
    assert (P2 : k_header (c_in c1) = None) by (rewrite F1; exact Hhd).
    assert (P3 : k_read (c_in c1) = (k_read (c_in c) + S (length l))%nat) by (rewrite F1; reflexivity).
    assert (P4 : k_consume (c_in c1) = k_read (c_in c)) by (rewrite F1; exact Hc).
    assert (P5 : k_buf (c_in c1) = k_buf (c_in c)) by (rewrite F1; reflexivity).
    assert (P6 : k_len (c_in c1) = k_len (c_in c) /\ k_receiver_hook (c_in c1) = None) by (rewrite F1; split; [reflexivity|exact Hrcv]).
    assert (Hsl : firstn (k_read (c_in c1) - k_consume (c_in c1)) (skipn (k_consume (c_in c1)) d) = l ++ [LF]).
    { rewrite P3, P4. replace (k_read (c_in c) + S (length l) - k_read (c_in c))%nat with (S (length l)) by lia. exact Hpiece. }
    unfold req_consolidate_data. destruct (k_buf (c_in c1)) as [b|] eqn:Eb.
    - rewrite (bd_req_buffer_spec i c1 d P1 P2 G1); [|lia|lia|rewrite Eb, P3, P4; rewrite <- P5 in Hhard; cbn [bd_olist] in *; lia].
      rewrite Eb, Hsl. cbn [bd_olist].
      eexists. split; [cbn; unfold line; rewrite <- P5; reflexivity|].
      cbn. rewrite P1, P2, P3. destruct P6 as (P6 & P7). rewrite P6, P7.
      repeat split; try assumption; try (rewrite <- G7; apply bd_slot_ext; reflexivity).
    - rewrite (bd_rq_slice_spec c1 d _ _ P1); [|lia]. rewrite Hsl.
      exists c1. split; [unfold line; rewrite <- P5; reflexivity|]. destruct P6 as (P6 & P7). repeat split; assumption. }
  destruct Hcons as (c2 & Hcons & H1 & H2 & H3 & H4 & H5 & H6 & H7 & K1 & K2 & K3 & K4 & K5).
  set (t1 := t <| t_request_message_len ::= Z.add (Z.of_nat (length line)) |>).
  assert (Hup : rq_tx_upd (fun t => t <| t_request_message_len ::= Z.add (Z.of_nat (length line)) |>) c2 = bd_set_tx i t1 c2)
    by (unfold rq_tx_upd; rewrite H1; apply bd_tx_upd_eq; exact H7).
  unfold bd_rq_line_done. rewrite Hcons. cbv zeta. rewrite Hup.
  set (c3 := bd_set_tx i t1 c2).
  assert (H7' : tx_slot c3 i = Some t1) by (apply (bd_slot_set _ _ _ _ H7)).
  assert (F3 : c_in c3 = c_in c2 /\ c_in_tx c3 = Some i /\ c_in_status c3 = c_in_status c /\ c_events c3 = c_events c /\
               c_in_body_data_left c3 = c_in_body_data_left c /\ c_in_state c3 = c_in_state c /\ c_in_state_previous c3 = c_in_state_previous c)
    by (repeat split; assumption).
  clearbody c3. destruct F3 as (J0 & J1 & J2 & J3 & J4 & J5 & J6).
  fold (bd_rq_line_value line). fold v.
  destruct (parse_chunked_length (htp_chomp line)) as [v0 ext] eqn:Ep.
  assert (Hv : v0 = v) by (unfold v, bd_rq_line_value; rewrite Ep; reflexivity). subst v0.
  set (c4 := req_clear_buffer (c3 <| c_in_chunked_length := v |>)).
  assert (F4 : c_in c4 = (c_in c3) <| k_consume := k_read (c_in c3) |> <| k_buf := None |> /\ c_in_tx c4 = Some i /\
               c_in_status c4 = c_in_status c /\ c_events c4 = c_events c /\ c_in_body_data_left c4 = c_in_body_data_left c /\
               c_in_state c4 = c_in_state c /\ c_in_state_previous c4 = c_in_state_previous c /\ c_in_chunked_length c4 = v /\ tx_slot c4 i = Some t1).
  { repeat split; try assumption; try (rewrite <- H7'; apply bd_slot_ext; reflexivity). }
  clearbody c4. destruct F4 as (L0 & L1 & L2 & L3 & L4 & L5 & L6 & L7 & L8).
  assert (Lcur : k_data (c_in c4) = k_data (c_in c) /\ k_len (c_in c4) = k_len (c_in c) /\
                 k_read (c_in c4) = (k_read (c_in c) + length l + 1)%nat /\ k_consume (c_in c4) = k_read (c_in c4) /\
                 k_buf (c_in c4) = None /\ k_header (c_in c4) = None /\ k_receiver_hook (c_in c4) = None).
  { rewrite L0, J0. cbn. rewrite K1, K2, K3, K4, K5, Hd. repeat split. lia. }
  destruct Lcur as (Q1 & Q2 & Q3 & Q4 & Q5 & Q6 & Q7).
  unfold bd_rq_line_rc, bd_rq_line_state.
  destruct (0 <? v) eqn:Ev1; [|destruct (v =? 0) eqn:Ev2].
  - eexists. split; [reflexivity|]. cbn. repeat split; try assumption.
    exists t1. split; [rewrite <- L8; apply bd_slot_ext; reflexivity|]. subst t1. cbn. repeat split; try lia.
    all: try (intros Hv0; apply Z.ltb_lt in Ev1; lia).
  - unfold rq_tx_upd. change (c_in_tx (c4 <| c_in_state := REQ_HEADERS |>)) with (c_in_tx c4). rewrite L1.
    assert (L8' : tx_slot (c4 <| c_in_state := REQ_HEADERS |>) i = Some t1) by (rewrite <- L8; apply bd_slot_ext; reflexivity).
    rewrite (bd_tx_upd_eq _ _ _ _ L8').
    eexists. split; [reflexivity|]. cbn. repeat split; try assumption.
    eexists. split; [apply (bd_slot_set _ _ _ _ L8')|]. subst t1. cbn. repeat split; try lia.
  - eexists. split; [reflexivity|]. repeat split; try assumption.
    + rewrite L5. exact Hs.
    + exists t1. split; [exact L8|]. subst t1. cbn. repeat split; try lia.
      all: try (intros Hv0; apply Z.eqb_neq in Ev2; lia).
Qed.

(* ---- leaving the call with HTP_DATA_BUFFER: the pending bytes go to in_buf ---- *)
Lemma bd_req_buffer_zero c d : k_data (c_in c) = Some d -> k_consume (c_in c) = k_read (c_in c) -> req_buffer g c = (ST_OK, c).
Proof.
  intros Hd Hc. unfold req_buffer. rewrite Hd, Hc, Nat.ltb_irrefl, Nat.sub_diag. reflexivity.
Qed.
Lemma bd_rq_iter_buffer c c1 c2 :
  rq_state_fn cb g (c_in_state c) c = (ST_DATA_BUFFER, c1) -> k_receiver_hook (c_in c1) = None ->
  req_buffer g c1 = (ST_OK, c2) ->
  rq_iter cb g false c = inl (c2 <| c_in_status := c_HTP_STREAM_DATA |>, c_HTP_STREAM_DATA).
Proof. intros H1 H2 H3. unfold rq_iter. rewrite H1. unfold rq_exit, req_receiver_send_data. rewrite H2, H3. reflexivity. Qed.

(* c2 observes the same transactions, events and counters as c *)
Definition bd_rq_same (c c2 : connp) : Prop :=
  c_events c2 = c_events c /\ (forall j, tx_slot c2 j = tx_slot c j) /\
  c_in_body_data_left c2 = c_in_body_data_left c /\ c_in_chunked_length c2 = c_in_chunked_length c.
Lemma bd_rq_same_refl c : bd_rq_same c c. Proof. repeat split. Qed.
Lemma bd_rq_same_trans a b c : bd_rq_same a b -> bd_rq_same b c -> bd_rq_same a c.
Proof. intros (A1 & A2 & A3 & A4) (B1 & B2 & B3 & B4). repeat split; try congruence; try (intros j; rewrite B2; apply A2). Qed.

Lemma bd_no_lf_app a b : bd_no_lf (a ++ b) = bd_no_lf a && bd_no_lf b.
Proof. apply forallb_app. Qed.

(* ================= line assembly: up to the TCP chunk that contains the LF ================= *)
Lemma bd_rq_assemble i : forall rem c lrest rest,
  bd_rq_inv i c -> c_in_state c = REQ_BODY_CHUNKED_LENGTH -> k_consume (c_in c) = k_read (c_in c) ->
  bd_rq_rest c ++ concat rem = lrest ++ LF :: rest -> bd_no_lf lrest = true ->
  (length (bd_olist (k_buf (c_in c))) + length lrest + 1 <= g_field_limit_hard g)%nat ->
  Forall (fun d => d <> []) rem ->
  exists c2 rem2 l2 tl2,
    bd_rq_reach cb g c rem c2 rem2 /\ bd_rq_inv i c2 /\ c_in_state c2 = REQ_BODY_CHUNKED_LENGTH /\
    k_consume (c_in c2) = k_read (c_in c2) /\
    bd_rq_rest c2 = l2 ++ LF :: tl2 /\ bd_no_lf l2 = true /\
    bd_olist (k_buf (c_in c2)) ++ l2 = bd_olist (k_buf (c_in c)) ++ lrest /\
    tl2 ++ concat rem2 = rest /\ Forall (fun d => d <> []) rem2 /\ bd_rq_same c c2.
Proof.
  induction rem as [|d' rem IH]; intros c lrest rest Inv Hs Hc Hw Hnl Hhard Hrem.
  - cbn [concat] in Hw. rewrite app_nil_r in Hw.
    exists c, [], lrest, rest. bd_splits; auto; try constructor; try apply app_nil_r; try apply bd_rq_same_refl.
  - destruct (Nat.lt_ge_cases (length lrest) (length (bd_rq_rest c))) as [Hlt|Hge].
    + (* the LF is in the current chunk *)
      assert (exists tl, bd_rq_rest c = lrest ++ LF :: tl /\ tl ++ concat (d' :: rem) = rest) as (tl & E1 & E2).
      { destruct (bd_app_prefix lrest (bd_rq_rest c) (LF :: rest) (concat (d' :: rem))) as (x & X1 & X2); [symmetry; exact Hw|lia|].
        destruct x as [|x0 x]; [rewrite app_nil_r in X1; rewrite X1 in Hlt; lia|].
        cbn in X2. inversion X2; subst x0. exists x. split; [exact X1|reflexivity]. }
      exists c, (d' :: rem), lrest, tl. bd_splits; auto; try constructor; try apply bd_rq_same_refl.
    + (* the whole rest of the chunk belongs to the line; it is buffered and the next call continues *)
      destruct (bd_app_prefix (bd_rq_rest c) lrest (concat (d' :: rem)) (LF :: rest) Hw Hge) as (lrest' & Hb & Hw').
      pose proof (Forall_inv Hrem) as Hd'. pose proof (Forall_inv_tail Hrem) as Hrem'. cbn beta in Hd'.
      assert (Hnl2 : bd_no_lf (bd_rq_rest c) = true /\ bd_no_lf lrest' = true).
      { rewrite Hb, bd_no_lf_app in Hnl. apply andb_true_iff in Hnl. exact Hnl. }
      destruct Hnl2 as (Hnl1 & Hnl2).
      destruct (bq_data _ _ Inv) as (d & Hd & Hlen & Hrd).
      assert (Hfn : rq_state_fn cb g (c_in_state c) c = REQ_BODY_CHUNKED_LENGTH_fn g c) by (rewrite Hs; reflexivity).
      pose proof (bd_rq_length_loop (bd_rq_rest c) c (k_len (c_in c) - k_read (c_in c)) []) as Hloop.
      rewrite app_nil_r in Hloop. specialize (Hloop (ex_intro _ d (conj Hd (conj Hlen Hrd))) eq_refl Hnl1).
      assert (Hn : (length (bd_rq_rest c) <= k_len (c_in c) - k_read (c_in c))%nat)
        by (rewrite Hlen; unfold bd_rq_rest; rewrite Hd, skipn_length; lia).
      specialize (Hloop Hn I).
      assert (Hlr : length lrest = (length (bd_rq_rest c) + length lrest')%nat) by (rewrite Hb at 1; apply app_length).
      (* the parser after the exit: c2 *)
      assert (Hexit : exists c2, rq_iter cb g false c = inl (c2 <| c_in_status := c_HTP_STREAM_DATA |>, c_HTP_STREAM_DATA) /\
                bd_rq_inv i c2 /\ c_in_state c2 = REQ_BODY_CHUNKED_LENGTH /\ bd_rq_same c c2 /\
                bd_olist (k_buf (c_in c2)) = bd_olist (k_buf (c_in c)) ++ bd_rq_rest c).
      { destruct (bd_rq_rest c) as [|p0 pp] eqn:Er.
        - exists c. split; [|bd_splits; auto; try (symmetry; apply app_nil_r); apply bd_rq_same_refl].
          eapply bd_rq_iter_buffer; [rewrite Hfn; exact Hloop|apply (bq_rcv _ _ Inv)|]. eapply bd_req_buffer_zero; eauto.
        - set (k := length (p0 :: pp)) in *. set (nb := Some (last (p0 :: pp) 0%N)) in *.
          set (c1 := bd_rq_copied k nb c) in *.
          assert (F1 : c_in c1 = (c_in c) <| k_next_byte := nb |> <| k_read := (k_read (c_in c) + k)%nat |>) by reflexivity.
          assert (Hk : (k_read (c_in c) + k <= length d)%nat).
          { unfold bd_rq_rest in Er. rewrite Hd in Er. assert (length (skipn (k_read (c_in c)) d) = k) by (rewrite Er; reflexivity).
            rewrite skipn_length in H. lia. }
          assert (Hsl : firstn (k_read (c_in c1) - k_consume (c_in c1)) (skipn (k_consume (c_in c1)) d) = p0 :: pp).
          { rewrite F1. cbn [k_read k_consume set k_next_byte]. rewrite Hc.
            replace (k_read (c_in c) + k - k_read (c_in c))%nat with k by lia.
            unfold bd_rq_rest in Er. rewrite Hd in Er. rewrite Er. unfold k. apply firstn_all. }
          assert (Hbuf : req_buffer g c1 = (ST_OK, rq_set_in (fun cur => cur <| k_buf := Some (bd_olist (k_buf (c_in c1)) ++ p0 :: pp) |>
                                                                           <| k_consume := k_read cur |>) c1)).
          { rewrite <- Hsl. apply (bd_req_buffer_spec i c1 d); rewrite ?F1; cbn [k_data k_header k_read k_consume k_buf set k_next_byte];
              try assumption; try (apply (bq_hdr _ _ Inv)); try (apply (bq_tx _ _ Inv)); try lia.
            unfold k in *. cbn [length] in *. lia. }
          eexists. split; [eapply bd_rq_iter_buffer; [rewrite Hfn; exact Hloop|apply (bq_rcv _ _ Inv)|exact Hbuf]|].
          destruct Inv as [A (t & B1 & B2) C D E F].
          split; [|split; [|split]].
          + constructor; try assumption.
            * exists t. split; [|exact B2]. rewrite <- B1. apply bd_slot_ext; reflexivity.
            * exists d. cbn. repeat split; auto.
          + exact Hs.
          + unfold bd_rq_same. bd_splits; try reflexivity; try (intros j; apply bd_slot_ext; reflexivity).
          + cbn. reflexivity. }
      destruct Hexit as (c2 & Hit & Inv2 & Hs2 & Same2 & Hbuf2).
      set (c3 := bd_req_begin d' (c2 <| c_in_status := c_HTP_STREAM_DATA |>)).
      destruct (bd_begin_misc d' (c2 <| c_in_status := c_HTP_STREAM_DATA |>)) as (Ev & St & L1 & L2 & Bf & Sl).
      destruct (IH c3 lrest' rest) as (c4 & rem4 & l4 & tl4 & R4 & I4 & S4 & C4 & Rs4 & N4 & B4 & W4 & F4 & Sm4); auto.
      { apply bd_inv_begin. apply bd_inv_status. exact Inv2. }
      { unfold c3. rewrite St. exact Hs2. }
      { unfold c3, bd_req_begin. cbv zeta. match goal with |- context [if ?b then _ else _] => destruct b end; reflexivity. }
      { unfold c3. rewrite bd_begin_rest. exact Hw'. }
      { unfold c3. rewrite Bf. cbn [c_in set]. rewrite Hbuf2, app_length. lia. }
      exists c4, rem4, l4, tl4. bd_splits; auto; [| |unfold bd_rq_same; bd_splits].
      * eapply bd_rr_next; [exact Hit|exact R4].
      * rewrite B4. unfold c3. rewrite Bf. cbn [c_in set]. rewrite Hbuf2, Hb, app_assoc. reflexivity.
      * destruct Sm4 as (X1 & X2 & X3 & X4). destruct Same2 as (Y1 & Y2 & Y3 & Y4).
        rewrite X1. unfold c3. rewrite Ev. exact Y1.
      * destruct Sm4 as (X1 & X2 & X3 & X4). destruct Same2 as (Y1 & Y2 & Y3 & Y4). intros j. rewrite X2. unfold c3. rewrite Sl.
        rewrite <- Y2. apply bd_slot_ext; reflexivity.
      * destruct Sm4 as (X1 & X2 & X3 & X4). destruct Same2 as (Y1 & Y2 & Y3 & Y4). rewrite X3. unfold c3. rewrite L1. exact Y3.
      * destruct Sm4 as (X1 & X2 & X3 & X4). destruct Same2 as (Y1 & Y2 & Y3 & Y4). rewrite X4. unfold c3. rewrite L2. exact Y4.
Qed.

(* ================= C06_line_assembly (request side) =================
   REQ_BODY_CHUNKED_LENGTH fed ANY chunking of  lrest ++ LF :: rest  (the bytes already buffered are `pending`):
   the value stored in in_chunked_length is that of the WHOLE line, request_message_len grows by its length, the
   parser is positioned right after the LF, nothing is delivered. *)
Theorem bd_rq_line_assembly i rem c lrest rest t :
  bd_rq_inv i c -> c_in_state c = REQ_BODY_CHUNKED_LENGTH -> k_consume (c_in c) = k_read (c_in c) ->
  bd_rq_rest c ++ concat rem = lrest ++ LF :: rest -> bd_no_lf lrest = true ->
  (length (bd_olist (k_buf (c_in c))) + length lrest + 1 <= g_field_limit_hard g)%nat ->
  Forall (fun d => d <> []) rem -> tx_slot c i = Some t ->
  let line := bd_olist (k_buf (c_in c)) ++ lrest ++ [LF] in
  let v := bd_rq_line_value line in
  exists c2 rem2 c',
    bd_rq_reach cb g c rem c2 rem2 /\
    rq_state_fn cb g (c_in_state c2) c2 = (bd_rq_line_rc v, c') /\
    c_in_chunked_length c' = v /\ c_in_state c' = bd_rq_line_state v /\
    bd_rq_rest c' ++ concat rem2 = rest /\ Forall (fun d => d <> []) rem2 /\
    c_events c' = c_events c /\ c_in_body_data_left c' = c_in_body_data_left c /\
    c_in_tx c' = Some i /\ c_in_status c' = c_in_status c2 /\ bd_rq_inv i c2 /\
    k_consume (c_in c') = k_read (c_in c') /\ k_buf (c_in c') = None /\ k_header (c_in c') = None /\ k_receiver_hook (c_in c') = None /\
    (exists d, k_data (c_in c') = Some d /\ k_len (c_in c') = length d /\ (k_read (c_in c') <= length d)%nat) /\
    exists t', tx_slot c' i = Some t' /\ t_hook_request_body t' = t_hook_request_body t /\
               t_request_entity_len t' = t_request_entity_len t /\
               t_request_message_len t' = t_request_message_len t + Z.of_nat (length line) /\
               (v = 0 -> t_request_progress t' = c_HTP_REQUEST_TRAILER).
Proof.
  intros Inv Hs Hc Hw Hnl Hhard Hrem Hl line v.
  destruct (bd_rq_assemble i rem c lrest rest Inv Hs Hc Hw Hnl Hhard Hrem)
    as (c2 & rem2 & l2 & tl2 & R2 & I2 & S2 & C2 & Rs2 & N2 & B2 & W2 & F2 & (Sm1 & Sm2 & Sm3 & Sm4)).
  assert (Hl2 : tx_slot c2 i = Some t) by (rewrite Sm2; exact Hl).
  assert (Hh2 : (length (bd_olist (k_buf (c_in c2))) + length l2 + 1 <= g_field_limit_hard g)%nat).
  { assert (length (bd_olist (k_buf (c_in c2)) ++ l2) = length (bd_olist (k_buf (c_in c)) ++ lrest)) by (rewrite B2; reflexivity).
    rewrite !app_length in H. lia. }
  destruct (bd_rq_length_final i t c2 l2 tl2 I2 S2 C2 Rs2 N2 Hh2 Hl2)
    as (c' & Hfn & A1 & A2 & A3 & A4 & A5 & A6 & A7 & A8 & A9 & A10 & A11 & A12 & A13 & A14 & t' & T1 & T2 & T3 & T4 & T5).
  assert (Hline : bd_olist (k_buf (c_in c2)) ++ l2 ++ [LF] = line) by (unfold line; rewrite !app_assoc, B2; reflexivity).
  rewrite Hline in *. fold v in Hfn, A5, A6, T5.
  destruct (bq_data _ _ I2) as (d & Hd & Hlen & Hrd).
  assert (Hrd' : (k_read (c_in c2) + length l2 + 1 <= length d)%nat).
  { unfold bd_rq_rest in Rs2. rewrite Hd in Rs2. assert (length (skipn (k_read (c_in c2)) d) = length (l2 ++ LF :: tl2)) by (rewrite Rs2; reflexivity).
    rewrite skipn_length, app_length in H. cbn in H. lia. }
  exists c2, rem2, c'. bd_splits; auto.
  - rewrite S2. exact Hfn.
  - unfold bd_rq_rest. rewrite A8, Hd, A10. unfold bd_rq_rest in Rs2. rewrite Hd in Rs2.
    replace (k_read (c_in c2) + length l2 + 1)%nat with (k_read (c_in c2) + (length l2 + 1))%nat by lia.
    rewrite <- bd_skipn_skipn, Rs2. change (LF :: tl2) with ([LF] ++ tl2). rewrite app_assoc, skipn_app.
    replace (length l2 + 1 - length (l2 ++ [LF]))%nat with 0%nat by (rewrite app_length; cbn; lia).
    rewrite skipn_all2 by (rewrite app_length; cbn; lia). cbn. exact W2.
  - rewrite A3. exact Sm1.
  - rewrite A4. exact Sm3.
  - exists d. rewrite A8, A9, A10. bd_splits; auto.
  - exists t'. bd_splits; auto.
Qed.
End Req.
