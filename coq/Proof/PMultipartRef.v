(* C14 (b): every chunked run of the model is related, call by call, to the byte-level reference run of
   Spec/SMultipart.v; hence the observation after finalize does not depend on the chunking (under the premises). *)
Require Import Htp.Model.Base Htp.Model.MBstr Htp.Model.MMultipart Htp.Spec.SMultipart.
Require Import Htp.Proof.PMultipartSafe Htp.Proof.PMultipartHd.
Require Import Lia.

(* ------------------------------------------------------------------ slices *)
Definition mp_slc (d : bytes) (a b : nat) : bytes := firstn (b - a) (skipn a d).

Lemma skipn_skipn' {A} (x y : nat) (l : list A) : skipn x (skipn y l) = skipn (y + x) l.
Proof. revert l. induction y as [|y IH]; intros l; [reflexivity|]. destruct l; [destruct x; reflexivity|]. cbn. apply IH. Qed.

Lemma slc_nil d a : mp_slc d a a = [].
Proof. unfold mp_slc. rewrite Nat.sub_diag. reflexivity. Qed.

Lemma slc_app d a b c : a <= b -> b <= c -> c <= length d -> mp_slc d a c = mp_slc d a b ++ mp_slc d b c.
Proof.
  intros Hab Hbc Hc. unfold mp_slc.
  replace (c - a) with ((b - a) + (c - b)) by lia.
  rewrite <- (firstn_skipn (b - a) (firstn (b - a + (c - b)) (skipn a d))).
  rewrite firstn_firstn. replace (Nat.min (b - a) (b - a + (c - b))) with (b - a) by lia.
  f_equal. rewrite skipn_firstn_comm. replace (b - a + (c - b) - (b - a)) with (c - b) by lia.
  rewrite skipn_skipn'. replace (a + (b - a)) with b by lia. reflexivity.
Qed.

Lemma slc_one d i c : nth_error d i = Some c -> mp_slc d i (i + 1) = [c].
Proof.
  intros H. unfold mp_slc. replace (i + 1 - i) with 1 by lia.
  revert i H. induction d as [|x d IH]; intros [|i] H; cbn in *; try discriminate.
  - injection H as ->. reflexivity.
  - apply IH. exact H.
Qed.

Lemma slc_length d a b : a <= b -> b <= length d -> length (mp_slc d a b) = b - a.
Proof. intros. unfold mp_slc. rewrite firstn_length, skipn_length. lia. Qed.

Lemma slice_slc d a n : a + n <= length d -> mp_slice d a n = Some (mp_slc d a (a + n)).
Proof. intros H. rewrite slice_some by exact H. unfold mp_slc. replace (a + n - a) with n by lia. reflexivity. Qed.

Lemma slc_whole d : mp_slc d 0 (length d) = d.
Proof. unfold mp_slc. cbn. rewrite Nat.sub_0_r. apply firstn_all. Qed.

Lemma slc_snoc d a i c : a <= i -> nth_error d i = Some c -> mp_slc d a (i + 1) = mp_slc d a i ++ [c].
Proof.
  intros Ha H. assert (i < length d) by (apply nth_error_Some; congruence).
  rewrite (slc_app d a i (i + 1)) by lia. rewrite (slc_one d i c H). reflexivity.
Qed.

(* ------------------------------------------------------------------ the reference run: bookkeeping *)
Lemma ahd_ok pl ok d l : snd (mp_ahd pl ok d l) = true -> ok = true /\ (d = [] \/ mp_dupb pl = false).
Proof.
  unfold mp_ahd. cbn [snd]. intros H. apply andb_true_iff in H. destruct H as [H1 H2]. split; [exact H1|].
  apply orb_true_iff in H2. destruct H2 as [H2|H2]; [left; destruct d; [reflexivity|discriminate]|right].
  destruct (mp_dupb pl); [discriminate|reflexivity].
Qed.

Lemma astep_data_ok b pl ok crp c : ma_ok (mp_astep_data b pl ok crp c) = true -> ok = true.
Proof.
  unfold mp_astep_data. destruct (c =? CR)%N.
  - destruct crp.
    + destruct (mp_ahd pl ok [CR] false) as [pl1 ok1] eqn:E. cbn. intros ->.
      pose proof (ahd_ok pl ok [CR] false) as H. rewrite E in H. apply H. reflexivity.
    + cbn. tauto.
  - destruct (c =? LF)%N; [cbn; tauto|].
    destruct (mp_ahd pl ok (if crp then [CR; c] else [c]) false) as [pl1 ok1] eqn:E. cbn. intros ->.
    pose proof (ahd_ok pl ok (if crp then [CR; c] else [c]) false) as H. rewrite E in H. apply H. reflexivity.
Qed.

Lemma arelease_ok b pl ok held k : snd (mp_arelease b pl ok held k) = true -> ok = true.
Proof.
  unfold mp_arelease. destruct (mp_ahd pl ok held true) as [pl1 ok1] eqn:E.
  intros H. apply ahd_ok in H. destruct H as [-> _].
  pose proof (ahd_ok pl ok held true) as H. rewrite E in H. apply H. reflexivity.
Qed.

Lemma astep_ok a c : ma_ok (mp_astep a c) = true -> ma_ok a = true.
Proof.
  unfold mp_astep. cbv zeta. destruct (ma_m a).
  - apply astep_data_ok.
  - destruct (c =? _)%N.
    + destruct (S k =? _); cbn; [intros H; apply andb_true_iff in H; tauto|tauto].
    + destruct (mp_arelease (ma_b a) (ma_pl a) (ma_ok a) held k) as [pl1 ok1] eqn:E.
      intros H. apply astep_data_ok in H. subst ok1.
      pose proof (arelease_ok (ma_b a) (ma_pl a) (ma_ok a) held k) as H. rewrite E in H. apply H. reflexivity.
  - mp_break; cbn; tauto.
  - mp_break; cbn; tauto.
  - mp_break; cbn; tauto.
  - mp_break; cbn; tauto.
Qed.

Lemma afold_ok xs : forall a, ma_ok (fold_left mp_astep xs a) = true -> ma_ok a = true.
Proof. induction xs as [|x xs IH]; intros a H; cbn in *; [exact H|]. apply astep_ok with x. apply IH. exact H. Qed.

Lemma astep_b a c : ma_b (mp_astep a c) = ma_b a.
Proof.
  unfold mp_astep, mp_astep_data, mp_arelease. cbv zeta.
  destruct (ma_m a); mp_break; reflexivity.
Qed.

(* ------------------------------------------------------------------ the relation *)
Ltac mp_fields :=
  cbn [mps_boundary mps_pl mps_state mps_mpos mps_bpieces mps_cand mps_cr mps_fault mp_set_pl mp_set_state mp_set_mpos
       mp_set_bpieces mp_set_cr mp_set_fault mp_sflag mp_shd mp_to_boundary ma_b ma_pl ma_m ma_ok] in *.

Definition mp_nocr_end (r : bytes) : Prop := r = [] \/ last r 0%N <> CR.

Record mp_base (s : mp_state) (A : mp_ast) : Prop := mk_mp_base {
  mb_b : ma_b A = mps_boundary s;
  mb_fault : mps_fault s = false;
  mb_wf : mp_plwf (mps_pl s);
  mb_bok : exists b, mps_boundary s = [CR; LF; mp_DASH; mp_DASH] ++ b /\ mp_bnd_okb b = true
}.

(* shape of a boundary candidate: data d, then the line ending under test (none at the very start) *)
Definition mp_eolshape (cr : bool) (d eol : bytes) : Prop :=
  (cr = false /\ eol = [] /\ d = []) \/ (cr = false /\ eol = [LF] /\ mp_nocr_end d) \/
  (cr = false /\ eol = [CR; LF]) \/ (cr = true /\ eol = [LF] /\ d = []).

Definition mp_single_corr (st : mp_pstate) (m : mp_am) : Prop :=
  match st, m with
  | MpsIsLast2, AmIsLast2 | MpsIsLast1, AmIsLast1 | MpsEatLws, AmEatLws | MpsEatLwsCr, AmEatLwsCr => True
  | _, _ => False
  end.

Inductive mp_rm (data : bytes) (s : mp_state) (pos sp drp : nat) (A : mp_ast) : Prop :=
| RmData (crp : bool) (reg : bytes) :
    mps_state s = MpsData -> mps_bpieces s = [] -> ma_m A = AmData crp ->
    ma_pl A = mp_hd (mps_pl s) reg false ->
    sp <= pos -> pos <= length data ->
    ((mps_cr s = true /\ crp = true /\ pos = sp /\ reg = []) \/
     (mps_cr s = false /\ mp_slc data sp pos = reg ++ (if crp then [CR] else []) /\
      (crp = false -> mp_nocr_end reg) /\
      (crp = true -> exists c, nth_error data pos = Some c /\ c <> LF))) ->
    mp_rm data s pos sp drp A
| RmBnd (held : bytes) (k : nat) (d eol : bytes) :
    mps_state s = MpsBoundary -> ma_m A = AmBnd held k -> mps_mpos s = k ->
    2 <= k -> k < length (mps_boundary s) ->
    firstn (mps_cand s) (concat (mps_bpieces s) ++ mp_slc data sp pos) = d ++ eol ->
    skipn (mps_cand s) (concat (mps_bpieces s) ++ mp_slc data sp pos) = mp_matched (mps_boundary s) k ->
    held = (if mps_cr s then [CR] else []) ++ eol -> mp_eolshape (mps_cr s) d eol ->
    ma_pl A = mp_hd (mps_pl s) d false ->
    (eol = [] -> mp_dupb (mps_pl s) = false) ->
    sp <= pos -> pos <= length data ->
    (mps_bpieces s = [] -> mps_cand s + sp = drp /\ sp <= drp /\ drp <= pos) ->
    (forall (p1 : bytes) (r : list bytes), mps_bpieces s = p1 :: r -> mps_cand s <= length p1 /\ sp = 0 /\ drp = 0) ->
    mp_rm data s pos sp drp A
| RmSingle :
    mp_single_corr (mps_state s) (ma_m A) -> mps_bpieces s = [] -> mps_cr s = false -> ma_pl A = mps_pl s ->
    sp <= pos -> pos <= length data ->
    mp_rm data s pos sp drp A.

(* handing x after reg on the reference side, when the step was accepted by the premise *)
Lemma ahd_after pl reg ok x l :
  snd (mp_ahd (mp_hd pl reg false) ok x l) = true -> x <> [] ->
  fst (mp_ahd (mp_hd pl reg false) ok x l) = mp_hd pl (reg ++ x) l /\ mp_dupb pl = false.
Proof.
  intros H Hx. apply ahd_ok in H. destruct H as [_ [H|H]]; [congruence|].
  assert (Hd : mp_dupb pl = false).
  { destruct (mp_dupb pl) eqn:E; [|reflexivity]. rewrite (mp_dupb_hd pl reg E) in H. discriminate. }
  split; [|exact Hd]. cbn [mp_ahd fst].
  destruct reg as [|r0 reg]; [reflexivity|].
  apply mp_hd_split; [exact Hd|discriminate|exact Hx].
Qed.

Lemma skipn_cons_nth (d : bytes) i c : nth_error d i = Some c -> skipn i d = c :: skipn (i + 1) d.
Proof.
  revert i. induction d as [|x d IH]; intros [|i] H; cbn in *; try discriminate.
  - injection H as ->. reflexivity.
  - apply IH. exact H.
Qed.

Lemma slc_cons_nth (d : bytes) i j c : nth_error d i = Some c -> i < j -> mp_slc d i j = c :: mp_slc d (i + 1) j.
Proof.
  intros H Hj. unfold mp_slc. rewrite (skipn_cons_nth d i c H).
  replace (j - i) with (S (j - (i + 1))) by lia. reflexivity.
Qed.

Lemma nocr_end_snoc r c : c <> CR -> mp_nocr_end (r ++ [c]).
Proof. intros H. right. rewrite last_last. exact H. Qed.

Lemma base_shd s A d l pl' m' ok' :
  mp_base s A -> mp_base (mp_shd s d l) (mk_mp_ast (ma_b A) pl' m' ok').
Proof.
  intros [H1 H2 H3 H4]. split; mp_fields; try assumption. apply mp_plwf_hd. exact H3.
Qed.

Lemma rm_data_inv data s pos sp drp A :
  mp_rm data s pos sp drp A -> mps_state s = MpsData ->
  exists crp reg, mps_bpieces s = [] /\ ma_m A = AmData crp /\ ma_pl A = mp_hd (mps_pl s) reg false /\
    sp <= pos /\ pos <= length data /\
    ((mps_cr s = true /\ crp = true /\ pos = sp /\ reg = []) \/
     (mps_cr s = false /\ mp_slc data sp pos = reg ++ (if crp then [CR] else []) /\
      (crp = false -> mp_nocr_end reg) /\
      (crp = true -> exists c, nth_error data pos = Some c /\ c <> LF))).
Proof.
  intros [crp reg H1 H2 H3 H4 H5 H6 H7|held k d eol H1|H1] Hs.
  - exists crp, reg. tauto.
  - congruence.
  - rewrite Hs in H1. destruct (ma_m A); contradiction.
Qed.

(* the reference side of one DATA byte, in terms of what has been handed over *)
Lemma astep_data_cr b pl reg ok crp :
  let a := mp_astep_data b (mp_hd pl reg false) ok crp CR in
  ma_ok a = true ->
  ma_b a = b /\ ma_m a = AmData true /\ ma_pl a = mp_hd pl (reg ++ (if crp then [CR] else [])) false.
Proof.
  unfold mp_astep_data. change (CR =? CR)%N with true. cbv iota. destruct crp.
  - destruct (mp_ahd (mp_hd pl reg false) ok [CR] false) as [pl1 ok1] eqn:E. cbn. intros ->.
    pose proof (ahd_after pl reg ok [CR] false) as H. rewrite E in H. destruct (H eq_refl ltac:(discriminate)) as [H1 _].
    cbn in H1. subst pl1. tauto.
  - cbn. rewrite app_nil_r. tauto.
Qed.

Lemma astep_data_other b pl reg ok crp c :
  (c =? CR)%N = false -> (c =? LF)%N = false ->
  let a := mp_astep_data b (mp_hd pl reg false) ok crp c in
  ma_ok a = true ->
  ma_b a = b /\ ma_m a = AmData false /\ ma_pl a = mp_hd pl (reg ++ (if crp then [CR; c] else [c])) false /\ mp_dupb pl = false.
Proof.
  intros E1 E2. unfold mp_astep_data. rewrite E1, E2.
  destruct (mp_ahd (mp_hd pl reg false) ok (if crp then [CR; c] else [c]) false) as [pl1 ok1] eqn:E. cbn. intros ->.
  pose proof (ahd_after pl reg ok (if crp then [CR; c] else [c]) false) as H. rewrite E in H.
  destruct (H eq_refl ltac:(destruct crp; discriminate)) as [H1 H2]. cbn in H1. subst pl1. tauto.
Qed.

Lemma astep_data_lf b pl ok crp :
  let a := mp_astep_data b pl ok crp LF in
  ma_b a = b /\ ma_m a = AmBnd (if crp then [CR; LF] else [LF]) 2 /\
  ma_pl a = mp_pl_flag pl (if crp then c_mp_CRLF_LINE else c_mp_LF_LINE) /\ ma_ok a = ok.
Proof. unfold mp_astep_data. change (LF =? CR)%N with false. change (LF =? LF)%N with true. cbn. tauto. Qed.

Lemma astep_unfold_data a c crp : ma_m a = AmData crp -> mp_astep a c = mp_astep_data (ma_b a) (ma_pl a) (ma_ok a) crp c.
Proof. intros H. unfold mp_astep. rewrite H. reflexivity. Qed.

Lemma neqb_neq (a b : N) : (a =? b)%N = false -> a <> b.
Proof. apply N.eqb_neq. Qed.

(* ------------------------------------------------------------------ case STATE_DATA *)
Lemma data_loop_pos n : forall data s pos sp drp,
  match mp_data_loop n data s pos sp drp with
  | MpGoto _ p' _ _ => pos < p' /\ p' <= length data
  | _ => True
  end.
Proof.
  induction n as [|n IH]; intros data s pos sp drp; cbn [mp_data_loop].
  - destruct (mp_sub pos sp); [|exact I]. destruct (mp_sub _ _); [|exact I]. destruct (mp_slice _ _ _); exact I.
  - unfold mp_rd. destruct (nth_error data pos) as [c|] eqn:Ec; [|exact I].
    assert (pos < length data) by (apply nth_error_Some; congruence).
    destruct (c =? CR)%N.
    + destruct (pos + 1 =? length data).
      * specialize (IH data (mp_set_cr s true) (pos + 1) sp drp). destruct (mp_data_loop _ _ _ _ _ _); try exact I. lia.
      * destruct (nth_error data (pos + 1)) eqn:Ec2; [|exact I].
        assert (pos + 1 < length data) by (apply nth_error_Some; congruence).
        destruct (n0 =? LF)%N.
        -- destruct (mp_sub _ _); [lia|exact I].
        -- specialize (IH data (mp_set_cr s false) (pos + 1) sp drp). destruct (mp_data_loop _ _ _ _ _ _); try exact I. lia.
    + destruct (c =? LF)%N.
      * destruct (mp_sub _ _); [lia|exact I].
      * match goal with |- match mp_data_loop n data ?s1 _ _ _ with _ => _ end => specialize (IH data s1 (pos + 1) sp drp) end.
        destruct (mp_data_loop _ _ _ _ _ _); try exact I. lia.
Qed.

Lemma data_loop_sim n : forall data s pos sp drp A,
  pos + n = length data -> mp_base s A -> mp_rm data s pos sp drp A -> mps_state s = MpsData ->
  (mps_cr s = true -> nth_error data pos <> Some CR) ->
  ma_ok (fold_left mp_astep (skipn pos data) A) = true ->
  match mp_data_loop n data s pos sp drp with
  | MpBreak s' _ _ _ =>
      let A' := fold_left mp_astep (skipn pos data) A in mp_base s' A' /\ mp_rm [] s' 0 0 0 A'
  | MpGoto s' p' sp' d' =>
      let A' := fold_left mp_astep (mp_slc data pos p') A in mp_base s' A' /\ mp_rm data s' p' sp' d' A'
  | _ => True
  end.
Proof.
  induction n as [|n IH]; intros data s pos sp drp A Hn HB HR Hst Hhz Hok;
    destruct (rm_data_inv _ _ _ _ _ _ HR Hst) as (crp & reg & Hbp & Hm & Hpl & Hsp & Hpl' & Hfl); cbn [mp_data_loop].
  - (* end of the chunk *)
    rewrite sub_some by lia.
    destruct Hfl as [(Hcr & _ & Hps & _)|(Hcr & Hslc & Hnc & Hnx)].
    + rewrite Hcr. subst sp. rewrite Nat.sub_diag. cbn. exact I.
    + rewrite Hcr. cbn [mp_sub Nat.leb]. rewrite Nat.sub_0_r. rewrite slice_slc by lia.
      replace (sp + (pos - sp)) with pos by lia.
      replace (skipn pos data) with (@nil N) by (symmetry; apply skipn_all2; lia). cbn [fold_left].
      assert (Hcrp : crp = false).
      { destruct crp; [|reflexivity]. destruct (Hnx eq_refl) as (c & Hc & _).
        assert (nth_error data pos = None) by (apply nth_error_None; lia). congruence. }
      subst crp. rewrite app_nil_r in Hslc.
      split.
      * destruct HB as [H1 H2 H3 H4]. split; mp_fields; try assumption. apply mp_plwf_hd. exact H3.
      * apply RmData with (crp := false) (reg := []); mp_fields; try assumption; try lia.
        -- rewrite Hslc. exact Hpl.
        -- right. repeat split; try assumption; try reflexivity; [left; reflexivity|discriminate].
  - destruct (nth_error data pos) as [c|] eqn:Ec; unfold mp_rd; rewrite Ec; [|exact I].
    assert (Hlt : pos < length data) by (apply nth_error_Some; congruence).
    rewrite (skipn_cons_nth data pos c Ec) in Hok |- *. cbn [fold_left] in Hok |- *.
    assert (Hok1 : ma_ok (mp_astep A c) = true) by (eapply afold_ok; exact Hok).
    destruct (c =? CR)%N eqn:E1.
    + apply N.eqb_eq in E1. subst c.
      (* a set-aside CR followed by CR is the excluded hazard *)
      destruct Hfl as [(Hcr & _)|(Hcr & Hslc & Hnc & Hnx)]; [exfalso; apply (Hhz Hcr); reflexivity|].
      pose proof Hok1 as Hok1'. rewrite (astep_unfold_data A CR crp Hm), Hpl in Hok1'.
      destruct (astep_data_cr (ma_b A) (mps_pl s) reg (ma_ok A) crp Hok1') as (Hb1 & Hm1 & Hpl1).
      assert (HA1 : mp_astep A CR = mp_astep_data (ma_b A) (mp_hd (mps_pl s) reg false) (ma_ok A) crp CR)
        by (rewrite (astep_unfold_data A CR crp Hm), Hpl; reflexivity).
      rewrite <- HA1 in Hb1, Hm1, Hpl1. clear Hok1' HA1.
      destruct (pos + 1 =? length data) eqn:El.
      * (* CR is the last byte: set aside *)
        apply Nat.eqb_eq in El. assert (n = 0) by lia. subst n. cbn [mp_data_loop].
        rewrite sub_some by lia. cbn [mp_set_cr mps_cr]. rewrite sub_some by lia. rewrite slice_slc by lia.
        replace (sp + (pos + 1 - sp - 1)) with pos by lia.
        replace (skipn (pos + 1) data) with (@nil N) by (symmetry; apply skipn_all2; lia).
        cbn [fold_left].
        split.
        -- destruct HB as [H1 H2 H3 H4]. split; mp_fields; try assumption; try congruence. apply mp_plwf_hd. exact H3.
        -- apply RmData with (crp := true) (reg := []); mp_fields; try assumption; try lia.
           ++ rewrite Hpl1, <- Hslc. reflexivity.
           ++ left. tauto.
      * apply Nat.eqb_neq in El.
        destruct (nth_error data (pos + 1)) as [c2|] eqn:Ec2; [|exact I].
        assert (Hp1 : pos + 1 < length data) by (apply nth_error_Some; congruence).
        destruct (c2 =? LF)%N eqn:E2.
        -- (* CR LF: boundary test *)
           apply N.eqb_eq in E2. subst c2. rewrite sub_some by lia.
           rewrite (slc_cons_nth data pos (pos + 2) CR Ec) by lia.
           rewrite (slc_cons_nth data (pos + 1) (pos + 2) LF Ec2) by lia.
           replace (pos + 1 + 1) with (pos + 2) by lia. rewrite slc_nil. cbn [fold_left].
           rewrite (astep_unfold_data (mp_astep A CR) LF true Hm1).
           destruct (astep_data_lf (ma_b (mp_astep A CR)) (ma_pl (mp_astep A CR)) (ma_ok (mp_astep A CR)) true) as (Hb2 & Hm2 & Hpl2 & _).
           split.
           ++ destruct HB as [H1 H2 H3 H4]. split; mp_fields; try assumption; try congruence.
           ++ apply RmBnd with (held := [CR; LF]) (k := 2) (d := reg ++ (if crp then [CR] else [])) (eol := [CR; LF]);
                cbn [mp_to_boundary mp_sflag mp_set_pl mps_state mps_mpos mps_bpieces mps_cand mps_cr mps_boundary mps_pl];
                try assumption; try reflexivity; try lia; try (intros HH; discriminate HH).
              ** destruct HB as [_ _ _ (b & Hb & _)]. rewrite Hb. cbn. lia.
              ** rewrite Hbp. cbn [concat app]. rewrite (slc_app data sp pos (pos + 2)) by lia.
                 rewrite (slc_cons_nth data pos (pos + 2) CR Ec) by lia.
                 rewrite (slc_cons_nth data (pos + 1) (pos + 2) LF Ec2) by lia.
                 replace (pos + 1 + 1) with (pos + 2) by lia. rewrite slc_nil, Hslc.
                 apply firstn_all2. rewrite !app_length. rewrite <- app_length, <- Hslc, slc_length by lia. cbn. lia.
              ** rewrite Hbp. cbn [concat app]. unfold mp_matched. cbn [Nat.sub firstn].
                 apply skipn_all2. rewrite slc_length by lia. lia.
              ** rewrite Hcr. reflexivity.
              ** rewrite Hcr. right. right. left. tauto.
              ** rewrite Hpl2, Hpl1. rewrite mp_hd_flag by exact mp_neutral_crlf. reflexivity.
              ** intros p1 r Hp. rewrite Hbp in Hp. discriminate.
        -- (* CR x: stays data *)
           pose proof (data_loop_pos n data (mp_set_cr s false) (pos + 1) sp drp) as HP.
           specialize (IH data (mp_set_cr s false) (pos + 1) sp drp (mp_astep A CR) ltac:(lia)).
           assert (HB1 : mp_base (mp_set_cr s false) (mp_astep A CR))
             by (destruct HB as [H1 H2 H3 H4]; split; cbn; try assumption; congruence).
           assert (HR1 : mp_rm data (mp_set_cr s false) (pos + 1) sp drp (mp_astep A CR)).
           { apply RmData with (crp := true) (reg := reg ++ (if crp then [CR] else [])); mp_fields; try assumption; try lia.
             right. split; [reflexivity|]. split; [|split; [discriminate|]].
             + rewrite (slc_snoc data sp pos CR) by (try lia; exact Ec). rewrite Hslc. reflexivity.
             + intros _. exists c2. split; [exact Ec2|apply neqb_neq; exact E2]. }
           specialize (IH HB1 HR1 Hst ltac:(cbn; discriminate) Hok).
           destruct (mp_data_loop n data (mp_set_cr s false) (pos + 1) sp drp) as [s' p' sp' d'|s' p' sp' d'|s'|]; try exact I.
           ++ rewrite (slc_cons_nth data pos p' CR Ec) by lia. exact IH.
           ++ exact IH.
    + destruct (c =? LF)%N eqn:E2.
      * (* LF: boundary test *)
        apply N.eqb_eq in E2. subst c. rewrite sub_some by lia.
        rewrite (slc_cons_nth data pos (pos + 1) LF Ec) by lia. rewrite slc_nil. cbn [fold_left].
        rewrite (astep_unfold_data A LF crp Hm).
        destruct (astep_data_lf (ma_b A) (ma_pl A) (ma_ok A) crp) as (Hb2 & Hm2 & Hpl2 & _).
        split.
        -- destruct HB as [H1 H2 H3 H4]. split; mp_fields; try assumption; try congruence.
        -- destruct Hfl as [(Hcr & Hcrp & Hps & Hreg)|(Hcr & Hslc & Hnc & Hnx)].
           ++ (* the CR was set aside by the previous call *)
              subst crp reg sp.
              apply RmBnd with (held := [CR; LF]) (k := 2) (d := []) (eol := [LF]);
                cbn [mp_to_boundary mp_sflag mp_set_pl mps_state mps_mpos mps_bpieces mps_cand mps_cr mps_boundary mps_pl];
                try assumption; try reflexivity; try lia; try (intros HH; discriminate HH).
              ** destruct HB as [_ _ _ (b & Hb & _)]. rewrite Hb. cbn. lia.
              ** rewrite Hbp. cbn [concat app]. rewrite (slc_cons_nth data pos (pos + 1) LF Ec) by lia. rewrite slc_nil.
                 replace (pos + 1 - pos) with 1 by lia. reflexivity.
              ** rewrite Hbp. cbn [concat app]. rewrite (slc_cons_nth data pos (pos + 1) LF Ec) by lia. rewrite slc_nil.
                 replace (pos + 1 - pos) with 1 by lia. reflexivity.
              ** rewrite Hcr. reflexivity.
              ** rewrite Hcr. right. right. right. tauto.
              ** rewrite Hpl2, Hpl, Hcr. reflexivity.
              ** intros p1 r Hp. rewrite Hbp in Hp. discriminate.
           ++ assert (Hcrp : crp = false).
              { destruct crp; [|reflexivity]. destruct (Hnx eq_refl) as (c & Hc & Hne). congruence. }
              subst crp. rewrite app_nil_r in Hslc.
              apply RmBnd with (held := [LF]) (k := 2) (d := reg) (eol := [LF]);
                cbn [mp_to_boundary mp_sflag mp_set_pl mps_state mps_mpos mps_bpieces mps_cand mps_cr mps_boundary mps_pl];
                try assumption; try reflexivity; try lia; try (intros HH; discriminate HH).
              ** destruct HB as [_ _ _ (b & Hb & _)]. rewrite Hb. cbn. lia.
              ** rewrite Hbp. cbn [concat app]. rewrite (slc_snoc data sp pos LF) by (try lia; exact Ec). rewrite Hslc.
                 apply firstn_all2. rewrite app_length, <- Hslc, slc_length by lia. cbn. lia.
              ** rewrite Hbp. cbn [concat app]. unfold mp_matched. cbn [Nat.sub firstn].
                 apply skipn_all2. rewrite slc_length by lia. lia.
              ** rewrite Hcr. reflexivity.
              ** rewrite Hcr. right. left. split; [reflexivity|]. split; [reflexivity|]. apply Hnc. reflexivity.
              ** rewrite Hpl2, Hpl, Hcr. rewrite mp_hd_flag by exact mp_neutral_lf. reflexivity.
              ** intros p1 r Hp. rewrite Hbp in Hp. discriminate.
      * (* ordinary byte *)
        pose proof Hok1 as Hok1'. rewrite (astep_unfold_data A c crp Hm), Hpl in Hok1'.
        destruct (astep_data_other (ma_b A) (mps_pl s) reg (ma_ok A) crp c E1 E2 Hok1') as (Hb1 & Hm1 & Hpl1 & Hnd).
        assert (HA1 : mp_astep A c = mp_astep_data (ma_b A) (mp_hd (mps_pl s) reg false) (ma_ok A) crp c)
          by (rewrite (astep_unfold_data A c crp Hm), Hpl; reflexivity).
        rewrite <- HA1 in Hb1, Hm1, Hpl1. clear Hok1' HA1.
        set (s1 := if mps_cr s then mp_set_cr (mp_shd s [CR] false) false else s).
        pose proof (data_loop_pos n data s1 (pos + 1) sp drp) as HP.
        specialize (IH data s1 (pos + 1) sp drp (mp_astep A c) ltac:(lia)).
        assert (HB1 : mp_base s1 (mp_astep A c)).
        { destruct HB as [H1 H2 H3 H4]. subst s1. destruct (mps_cr s); split; mp_fields; try assumption; try congruence.
          apply mp_plwf_hd. exact H3. }
        assert (HR1 : mp_rm data s1 (pos + 1) sp drp (mp_astep A c)).
        { destruct Hfl as [(Hcr & Hcrp & Hps & Hreg)|(Hcr & Hslc & Hnc & Hnx)].
          - subst crp reg sp. subst s1. rewrite Hcr.
            apply RmData with (crp := false) (reg := [c]); mp_fields; try assumption; try lia.
            + rewrite Hpl1. cbn [app]. change [CR; c] with ([CR] ++ [c]).
              symmetry. apply mp_hd_split_nl. exact Hnd.
            + right. split; [reflexivity|]. split; [|split; [|discriminate]].
              * rewrite (slc_cons_nth data pos (pos + 1) c Ec) by lia. rewrite slc_nil. reflexivity.
              * intros _. right. cbn. apply neqb_neq. exact E1.
          - subst s1. rewrite Hcr.
            apply RmData with (crp := false) (reg := reg ++ (if crp then [CR; c] else [c])); try assumption; try lia.
            right. split; [exact Hcr|]. split; [|split; [|discriminate]].
            + rewrite (slc_snoc data sp pos c) by (try lia; exact Ec). rewrite Hslc, app_nil_r.
              destruct crp; rewrite <- app_assoc; reflexivity.
            + intros _. destruct crp.
              * change [CR; c] with ([CR] ++ [c]). rewrite app_assoc. apply nocr_end_snoc. apply neqb_neq. exact E1.
              * apply nocr_end_snoc. apply neqb_neq. exact E1. }
        assert (Hhz1 : mps_cr s1 = true -> nth_error data (pos + 1) <> Some CR)
          by (subst s1; destruct (mps_cr s) eqn:Ecr; mp_fields; intros HH; congruence).
        assert (Hst1 : mps_state s1 = MpsData) by (subst s1; destruct (mps_cr s); cbn; exact Hst).
        specialize (IH HB1 HR1 Hst1 Hhz1 Hok).
        destruct (mp_data_loop n data s1 (pos + 1) sp drp) as [s' p' sp' d'|s' p' sp' d'|s'|]; try exact I.
        -- rewrite (slc_cons_nth data pos p' c Ec) by lia. exact IH.
        -- exact IH.
Qed.

(* ------------------------------------------------------------------ process_aside without a match, as one hand-over *)
Definition mp_crb (s : mp_state) : bytes := if mps_cr s then [CR] else [].

Lemma fold_hd_all_nil pieces : forall pl, concat pieces = [] -> fold_left (fun a x => mp_hd a x false) pieces pl = pl.
Proof.
  induction pieces as [|x r IH]; intros pl H; cbn [fold_left]; [reflexivity|].
  cbn in H. apply app_eq_nil in H. destruct H as [-> H]. apply IH. exact H.
Qed.

Lemma pa_false_data s :
  mpl_mode (mps_pl s) = MpData -> mp_dupb (mps_pl s) = false ->
  mp_process_aside s false =
  MpOk (mp_set_bpieces (mp_set_cr (mp_set_pl s (mp_hd (mps_pl s) (mp_crb s ++ concat (mps_bpieces s)) false)) false) []).
Proof.
  intros Hm Hd. unfold mp_process_aside, mp_crb. rewrite Hm. cbn [orb]. cbv zeta. f_equal.
  destruct (mps_cr s) eqn:Ecr.
  - rewrite mp_fold_shd_pl. mp_fields. rewrite mp_fold_hd_concat.
    + rewrite mp_hd_split_nl by exact Hd. destruct s; reflexivity.
    + destruct (mp_dupb (mp_hd (mps_pl s) [CR] false)) eqn:E; [|reflexivity]. apply mp_dupb_hd_rev in E. congruence.
  - rewrite mp_fold_shd_pl. rewrite mp_fold_hd_concat by exact Hd. destruct s; cbn in *. subst. reflexivity.
Qed.

Lemma pa_false_line_nil s :
  mpl_mode (mps_pl s) = MpLine -> mps_bpieces s = [] ->
  mp_process_aside s false = MpOk (mp_set_cr (mp_set_pl s (mp_hd (mps_pl s) (mp_crb s) false)) false).
Proof.
  intros Hm Hb. unfold mp_process_aside, mp_crb. rewrite Hm. cbn [orb negb andb]. cbv zeta.
  destruct (mps_cr s) eqn:Ecr; mp_fields; rewrite Hb; reflexivity.
Qed.

Lemma pa_false_line_cons s p1 rest :
  mpl_mode (mps_pl s) = MpLine -> mps_bpieces s = p1 :: rest -> mps_cand s <= length p1 ->
  mp_dupb (mps_pl s) = false -> (mps_cr s = true -> firstn (mps_cand s) p1 <> []) ->
  let P1 := mp_hd (mps_pl s) (mp_crb s ++ firstn (mps_cand s) p1) true in
  let P2 := skipn (mps_cand s) p1 ++ concat rest in
  (mp_dupb P1 = false \/ P2 = []) ->
  mp_process_aside s false = MpOk (mp_set_bpieces (mp_set_cr (mp_set_pl s (mp_hd P1 P2 false)) false) []).
Proof.
  intros Hm Hb Hc Hd Hf P1 P2 Hd1. unfold mp_process_aside. rewrite Hm. cbn [orb negb andb]. cbv zeta.
  set (s1 := if mps_cr s then mp_set_cr (mp_shd s [CR] false) false else mp_set_cr s false).
  assert (Hs1 : mps_bpieces s1 = p1 :: rest /\ mps_cand s1 = mps_cand s).
  { subst s1. destruct (mps_cr s); mp_fields; tauto. }
  destruct Hs1 as [Hb1 Hc1]. rewrite Hb1, Hc1.
  rewrite slice_some by lia. rewrite sub_some by lia. rewrite slice_some by lia. cbn [skipn].
  f_equal. rewrite mp_fold_shd_pl. mp_fields.
  assert (HP1 : mp_hd (mps_pl s1) (firstn (mps_cand s) p1) true = P1).
  { subst s1 P1. unfold mp_crb. destruct (mps_cr s) eqn:Ecr; mp_fields; [|reflexivity].
    apply mp_hd_split_line; [exact Hd|apply Hf; reflexivity]. }
  rewrite HP1.
  replace (firstn (length p1 - mps_cand s) (skipn (mps_cand s) p1)) with (skipn (mps_cand s) p1)
    by (symmetry; apply firstn_all2; rewrite skipn_length; lia).
  assert (HPL : fold_left (fun a x => mp_hd a x false) rest (mp_hd P1 (skipn (mps_cand s) p1) false) = mp_hd P1 P2 false).
  { subst P2. destruct Hd1 as [Hd1|Hd1].
    - rewrite mp_fold_hd_concat.
      + apply mp_hd_split_nl. exact Hd1.
      + destruct (mp_dupb (mp_hd P1 (skipn (mps_cand s) p1) false)) eqn:E; [|reflexivity]. apply mp_dupb_hd_rev in E. congruence.
    - apply app_eq_nil in Hd1. destruct Hd1 as [E1 E2]. rewrite E1, E2. cbn [app]. rewrite !mp_hd_nil.
      apply fold_hd_all_nil. exact E2. }
  rewrite HPL. subst s1. destruct s; destruct mps_cr; reflexivity.
Qed.

(* ------------------------------------------------------------------ boundary facts *)
Lemma firstn_S_nth {A} (l : list A) n d : n < length l -> firstn (S n) l = firstn n l ++ [nth n l d].
Proof.
  revert n. induction l as [|x l IH]; intros n H; cbn in H; [lia|].
  destruct n; [reflexivity|]. cbn [firstn nth app]. f_equal. apply IH. lia.
Qed.

Lemma nth_skipn' {A} (l : list A) a i d : nth i (skipn a l) d = nth (a + i) l d.
Proof. revert l. induction a as [|a IH]; intros l; [reflexivity|]. destruct l; [destruct i; reflexivity|]. cbn. apply IH. Qed.

Lemma matched_S b k : 2 <= k -> k < length b -> mp_matched b (S k) = mp_matched b k ++ [nth k b 0%N].
Proof.
  intros H2 Hk. unfold mp_matched. replace (S k - 2) with (S (k - 2)) by lia.
  rewrite (firstn_S_nth _ _ 0%N) by (rewrite skipn_length; lia).
  rewrite nth_skipn'. replace (2 + (k - 2)) with k by lia. reflexivity.
Qed.

Lemma rd_boundary b k : k < length b -> mp_rd (b ++ [0%N]) k = Some (nth k b 0%N).
Proof. intros H. unfold mp_rd. rewrite nth_error_app1 by exact H. apply nth_error_nth'. exact H. Qed.

Lemma nth_boundary b k : k < length b -> nth k (b ++ [0%N]) 0%N = nth k b 0%N.
Proof. intros H. apply app_nth1. exact H. Qed.

Lemma firstn_In' {A} (x : A) n l : In x (firstn n l) -> In x l.
Proof. revert l. induction n as [|n IH]; intros l H; [contradiction|]. destruct l; [contradiction|]. cbn in H. destruct H as [H|H]; [left; exact H|right; apply IH; exact H]. Qed.

Definition mp_plain (c : N) : Prop := c <> CR /\ c <> LF.

Lemma matched_plain b0 k x : mp_bnd_okb b0 = true -> In x (mp_matched ([CR; LF; mp_DASH; mp_DASH] ++ b0) k) -> mp_plain x.
Proof.
  intros Hb Hin. unfold mp_matched in Hin. apply firstn_In' in Hin. cbn [app skipn] in Hin.
  destruct Hin as [<-|[<-|Hin]]; [split; discriminate|split; discriminate|].
  unfold mp_bnd_okb in Hb. rewrite forallb_forall in Hb. specialize (Hb x Hin).
  apply andb_true_iff in Hb. destruct Hb as [H1 H2]. split; apply N.eqb_neq; [destruct (x =? CR)%N|destruct (x =? LF)%N]; try reflexivity; discriminate.
Qed.

(* rescanning matched bytes in STATE_DATA does nothing *)
Lemma data_loop_skip m : forall n data s p sp drp,
  mps_cr s = false ->
  (forall i, p <= i -> i < p + m -> exists c, nth_error data i = Some c /\ mp_plain c) ->
  mp_data_loop (m + n) data s p sp drp = mp_data_loop n data s (p + m) sp drp.
Proof.
  induction m as [|m IH]; intros n data s p sp drp Hcr Hall.
  - replace (p + 0) with p by lia. reflexivity.
  - cbn [Nat.add mp_data_loop]. destruct (Hall p ltac:(lia) ltac:(lia)) as (c & Hc & Hc1 & Hc2).
    unfold mp_rd. rewrite Hc.
    destruct (c =? CR)%N eqn:E1; [apply N.eqb_eq in E1; congruence|].
    destruct (c =? LF)%N eqn:E2; [apply N.eqb_eq in E2; congruence|].
    rewrite Hcr. rewrite IH; [f_equal; lia|exact Hcr|].
    intros i H1 H2. apply Hall; lia.
Qed.

(* ------------------------------------------------------------------ line-end trimming before a delimiter *)
Lemma firstn_last_nth (b : bytes) n X y : firstn n b = X ++ [y] -> n <= length b -> nth_error b (n - 1) = Some y /\ n = S (length X).
Proof.
  intros H Hn. assert (Hl : n = S (length X)).
  { apply (f_equal (@length N)) in H. rewrite firstn_length, app_length in H. cbn in H. lia. }
  split; [|exact Hl]. rewrite <- (firstn_skipn n b) at 1. rewrite nth_error_app1 by (rewrite firstn_length; lia).
  rewrite H. rewrite nth_error_app2 by lia. replace (n - 1 - length X) with 0 by lia. reflexivity.
Qed.

Lemma firstn_app_exact {A} (X Y : list A) : firstn (length X) (X ++ Y) = X.
Proof. rewrite firstn_app, Nat.sub_diag, firstn_all. cbn. apply app_nil_r. Qed.

Lemma firstn_firstn_le (b : bytes) m n : m <= n -> firstn m (firstn n b) = firstn m b.
Proof. intros H. rewrite firstn_firstn. f_equal. lia. Qed.

Lemma nocr_last (d : bytes) c : mp_nocr_end (d ++ [c]) -> c <> CR.
Proof. intros [H|H]; [destruct d; discriminate|]. rewrite last_last in H. exact H. Qed.

(* the two reads of htp_martp_process_aside(matched) on the first stored piece *)
Lemma pa_trim_spec (b : bytes) cand cr d eol :
  cand <= length b -> firstn cand b = d ++ eol -> mp_eolshape cr d eol ->
  exists l2,
    (let lx1 := if 0 <? cand then match mp_rd b (cand - 1) with Some c => Some (if (c =? LF)%N then cand - 1 else cand) | None => None end
                else Some cand in
     match lx1 with
     | None => None
     | Some l1 => if (l1 <? cand) && (0 <? l1)
                  then match mp_rd b (l1 - 1) with Some c => Some (if (c =? CR)%N then l1 - 1 else l1) | None => None end
                  else Some l1
     end) = Some l2 /\ firstn l2 b = d.
Proof.
  intros Hc Hf Hs. unfold mp_rd.
  destruct Hs as [(_ & -> & ->)|[(_ & -> & Hn)|[(_ & ->)|(_ & -> & ->)]]].
  - (* nothing before: cand = 0 *)
    assert (cand = 0) by (apply (f_equal (@length N)) in Hf; rewrite firstn_length in Hf; cbn in Hf; lia). subst cand.
    cbn. eauto.
  - destruct (firstn_last_nth b cand d LF Hf Hc) as [Hr Hl].
    replace (0 <? cand) with true by (symmetry; apply Nat.ltb_lt; lia). rewrite Hr. change (LF =? LF)%N with true. cbv iota.
    replace (cand - 1 <? cand) with true by (symmetry; apply Nat.ltb_lt; lia). cbn [andb].
    assert (Hfd : firstn (cand - 1) b = d).
    { rewrite <- (firstn_firstn_le b (cand - 1) cand) by lia. rewrite Hf. replace (cand - 1) with (length d) by lia. apply firstn_app_exact. }
    destruct (0 <? cand - 1) eqn:E0.
    + apply Nat.ltb_lt in E0.
      destruct d as [|d0 d'] using rev_ind; [cbn in Hl; lia|]. clear IHd'.
      destruct (firstn_last_nth b (cand - 1) d' d0 Hfd ltac:(lia)) as [Hr2 Hl2]. rewrite Hr2.
      assert (d0 <> CR) by (eapply nocr_last; exact Hn).
      destruct (d0 =? CR)%N eqn:E; [apply N.eqb_eq in E; congruence|]. eauto.
    + eauto.
  - change [CR; LF] with ([CR] ++ [LF]) in Hf. rewrite app_assoc in Hf.
    destruct (firstn_last_nth b cand (d ++ [CR]) LF Hf Hc) as [Hr Hl]. rewrite app_length in Hl. cbn in Hl.
    replace (0 <? cand) with true by (symmetry; apply Nat.ltb_lt; lia). rewrite Hr. change (LF =? LF)%N with true. cbv iota.
    replace (cand - 1 <? cand) with true by (symmetry; apply Nat.ltb_lt; lia).
    replace (0 <? cand - 1) with true by (symmetry; apply Nat.ltb_lt; lia). cbn [andb].
    assert (Hfd : firstn (cand - 1) b = d ++ [CR]).
    { rewrite <- (firstn_firstn_le b (cand - 1) cand) by lia. rewrite Hf. replace (cand - 1) with (length (d ++ [CR])) by (rewrite app_length; cbn; lia).
      apply firstn_app_exact. }
    destruct (firstn_last_nth b (cand - 1) d CR Hfd ltac:(lia)) as [Hr2 Hl2]. rewrite Hr2. change (CR =? CR)%N with true. cbv iota.
    eexists; split; [reflexivity|].
    rewrite <- (firstn_firstn_le b (cand - 1 - 1) (cand - 1)) by lia. rewrite Hfd. replace (cand - 1 - 1) with (length d) by lia. apply firstn_app_exact.
  - cbn [app] in Hf. destruct (firstn_last_nth b cand [] LF Hf Hc) as [Hr Hl]. cbn in Hl. subst cand. cbn in Hr |- *. rewrite Hr. cbn. eauto.
Qed.

Lemma nth_error_skipn' {A} (l : list A) a i : nth_error (skipn a l) i = nth_error l (a + i).
Proof. revert l. induction a as [|a IH]; intros l; [reflexivity|]. destruct l; [destruct i; reflexivity|]. cbn. apply IH. Qed.

Lemma pa_trim_le (b : bytes) cand l2 :
    (let lx1 := if 0 <? cand then match mp_rd b (cand - 1) with Some c => Some (if (c =? LF)%N then cand - 1 else cand) | None => None end
                else Some cand in
     match lx1 with
     | None => None
     | Some l1 => if (l1 <? cand) && (0 <? l1)
                  then match mp_rd b (l1 - 1) with Some c => Some (if (c =? CR)%N then l1 - 1 else l1) | None => None end
                  else Some l1
     end) = Some l2 -> l2 <= cand.
Proof.
  cbv zeta. destruct (0 <? cand).
  - destruct (mp_rd b (cand - 1)) as [c|]; [|discriminate].
    destruct (c =? LF)%N.
    + destruct ((cand - 1 <? cand) && (0 <? cand - 1)).
      * destruct (mp_rd b (cand - 1 - 1)) as [c2|]; [|discriminate]. destruct (c2 =? CR)%N; intros H; injection H as <-; lia.
      * intros H; injection H as <-; lia.
    + destruct ((cand <? cand) && (0 <? cand)).
      * destruct (mp_rd b (cand - 1)) as [c2|]; [|discriminate]. destruct (c2 =? CR)%N; intros H; injection H as <-; lia.
      * intros H; injection H as <-; lia.
  - destruct ((cand <? cand) && (0 <? cand)).
    + destruct (mp_rd b (cand - 1)) as [c2|]; [|discriminate]. destruct (c2 =? CR)%N; intros H; injection H as <-; lia.
    + intros H; injection H as <-; lia.
Qed.

(* the two independent reads of htp_mpartp_parse on the current chunk *)
Lemma parse_trim_spec data sp drp cr d eol :
  sp <= drp -> drp <= length data -> mp_slc data sp drp = d ++ eol -> mp_eolshape cr d eol ->
  exists dl2,
    (let dlen := drp - sp in
     let d1 := if 0 <? dlen then match mp_rd data (sp + dlen - 1) with Some c => Some (if (c =? LF)%N then dlen - 1 else dlen) | None => None end
               else Some dlen in
     match d1 with
     | None => None
     | Some dl1 => if 0 <? dl1 then match mp_rd data (sp + dl1 - 1) with Some c => Some (if (c =? CR)%N then dl1 - 1 else dl1) | None => None end
                   else Some dl1
     end) = Some dl2 /\ mp_slc data sp (sp + dl2) = d.
Proof.
  intros H1 H2 Hf Hs.
  (* reduce to the piece lemma on b := skipn sp data, reading through the same indices *)
  set (b := skipn sp data).
  assert (Hrd : forall i, mp_rd data (sp + i) = nth_error b i) by (intros i; unfold mp_rd, b; rewrite nth_error_skipn'; reflexivity).
  assert (Hfb : firstn (drp - sp) b = d ++ eol) by exact Hf.
  assert (Hcb : drp - sp <= length b) by (unfold b; rewrite skipn_length; lia).
  cbv zeta.
  destruct Hs as [(_ & -> & ->)|[(_ & -> & Hn)|[(_ & ->)|(_ & -> & ->)]]].
  - assert (drp - sp = 0) by (apply (f_equal (@length N)) in Hfb; rewrite firstn_length in Hfb; cbn in Hfb; lia).
    rewrite H. cbn. exists 0. split; [reflexivity|]. replace (sp + 0) with sp by lia. apply slc_nil.
  - destruct (firstn_last_nth b (drp - sp) d LF Hfb Hcb) as [Hr Hl].
    replace (0 <? drp - sp) with true by (symmetry; apply Nat.ltb_lt; lia).
    replace (sp + (drp - sp) - 1) with (sp + (drp - sp - 1)) by lia. rewrite Hrd, Hr. change (LF =? LF)%N with true. cbv iota.
    assert (Hfd : firstn (drp - sp - 1) b = d).
    { rewrite <- (firstn_firstn_le b (drp - sp - 1) (drp - sp)) by lia. rewrite Hfb. replace (drp - sp - 1) with (length d) by lia. apply firstn_app_exact. }
    destruct (0 <? drp - sp - 1) eqn:E0.
    + apply Nat.ltb_lt in E0.
      destruct d as [|d0 d'] using rev_ind; [cbn in Hl; lia|]. clear IHd'.
      destruct (firstn_last_nth b (drp - sp - 1) d' d0 Hfd ltac:(lia)) as [Hr2 Hl2].
      replace (sp + (drp - sp - 1) - 1) with (sp + (drp - sp - 1 - 1)) by lia. rewrite Hrd, Hr2.
      assert (d0 <> CR) by (eapply nocr_last; exact Hn).
      destruct (d0 =? CR)%N eqn:E; [apply N.eqb_eq in E; congruence|].
      eexists; split; [reflexivity|]. unfold mp_slc. replace (sp + (drp - sp - 1) - sp) with (drp - sp - 1) by lia. exact Hfd.
    + eexists; split; [reflexivity|]. unfold mp_slc. replace (sp + (drp - sp - 1) - sp) with (drp - sp - 1) by lia. exact Hfd.
  - change [CR; LF] with ([CR] ++ [LF]) in Hfb. rewrite app_assoc in Hfb.
    destruct (firstn_last_nth b (drp - sp) (d ++ [CR]) LF Hfb Hcb) as [Hr Hl]. rewrite app_length in Hl. cbn in Hl.
    replace (0 <? drp - sp) with true by (symmetry; apply Nat.ltb_lt; lia).
    replace (sp + (drp - sp) - 1) with (sp + (drp - sp - 1)) by lia. rewrite Hrd, Hr. change (LF =? LF)%N with true. cbv iota.
    replace (0 <? drp - sp - 1) with true by (symmetry; apply Nat.ltb_lt; lia).
    assert (Hfd : firstn (drp - sp - 1) b = d ++ [CR]).
    { rewrite <- (firstn_firstn_le b (drp - sp - 1) (drp - sp)) by lia. rewrite Hfb.
      replace (drp - sp - 1) with (length (d ++ [CR])) by (rewrite app_length; cbn; lia). apply firstn_app_exact. }
    destruct (firstn_last_nth b (drp - sp - 1) d CR Hfd ltac:(lia)) as [Hr2 Hl2].
    replace (sp + (drp - sp - 1) - 1) with (sp + (drp - sp - 1 - 1)) by lia. rewrite Hrd, Hr2. change (CR =? CR)%N with true. cbv iota.
    eexists; split; [reflexivity|]. unfold mp_slc. replace (sp + (drp - sp - 1 - 1) - sp) with (drp - sp - 1 - 1) by lia.
    fold b. rewrite <- (firstn_firstn_le b (drp - sp - 1 - 1) (drp - sp - 1)) by lia. rewrite Hfd. replace (drp - sp - 1 - 1) with (length d) by lia. apply firstn_app_exact.
  - cbn [app] in Hfb. destruct (firstn_last_nth b (drp - sp) [] LF Hfb Hcb) as [Hr Hl]. cbn in Hl. rewrite Hl in *.
    cbn [Nat.ltb Nat.leb]. replace (sp + 1 - 1) with (sp + 0) by lia. rewrite Hrd. replace (1 - 1) with 0 in Hr by lia. rewrite Hr. change (LF =? LF)%N with true. cbn.
    exists 0. split; [reflexivity|]. replace (sp + 0) with sp by lia. apply slc_nil.
Qed.

(* ------------------------------------------------------------------ case STATE_BOUNDARY *)
Record mp_bndrel (data : bytes) (s : mp_state) (pos sp drp : nat) (A : mp_ast) (held : bytes) (k : nat) (d eol : bytes) : Prop := {
  br_m : ma_m A = AmBnd held k;
  br_k : mps_mpos s = k;
  br_k2 : 2 <= k;
  br_kl : k < length (mps_boundary s);
  br_first : firstn (mps_cand s) (concat (mps_bpieces s) ++ mp_slc data sp pos) = d ++ eol;
  br_rest : skipn (mps_cand s) (concat (mps_bpieces s) ++ mp_slc data sp pos) = mp_matched (mps_boundary s) k;
  br_held : held = (if mps_cr s then [CR] else []) ++ eol;
  br_shape : mp_eolshape (mps_cr s) d eol;
  br_pl : ma_pl A = mp_hd (mps_pl s) d false;
  br_init : eol = [] -> mp_dupb (mps_pl s) = false;
  br_sp : sp <= pos;
  br_pos : pos <= length data;
  br_nil : mps_bpieces s = [] -> mps_cand s + sp = drp /\ sp <= drp /\ drp <= pos;
  br_cons : forall (p1 : bytes) (r : list bytes), mps_bpieces s = p1 :: r -> mps_cand s <= length p1 /\ sp = 0 /\ drp = 0
}.

Lemma rm_bnd_inv data s pos sp drp A :
  mp_rm data s pos sp drp A -> mps_state s = MpsBoundary -> exists held k d eol, mp_bndrel data s pos sp drp A held k d eol.
Proof.
  intros [crp reg H1|held k d eol H1 H2 H3 H4 H5 H6 H7 H8 H9 H10 H11 H12 H13 H14 H15|H1] Hs.
  - congruence.
  - exists held, k, d, eol. split; assumption.
  - rewrite Hs in H1. destruct (ma_m A); contradiction.
Qed.

Lemma bndrel_cand_le data s pos sp drp A held k d eol :
  mp_bndrel data s pos sp drp A held k d eol -> mps_cand s <= length (concat (mps_bpieces s) ++ mp_slc data sp pos).
Proof.
  intros R. rewrite app_length, slc_length by (apply R). destruct (mps_bpieces s) as [|p1 r] eqn:E.
  - destruct (br_nil _ _ _ _ _ _ _ _ _ _ R E) as (H1 & H2 & H3). cbn. lia.
  - destruct (br_cons _ _ _ _ _ _ _ _ _ _ R p1 r E) as (H1 & _). cbn. rewrite app_length. lia.
Qed.

Lemma bndrel_cand_ok data s pos sp drp A held k d eol :
  mp_bndrel data s pos sp drp A held k d eol -> mp_cand_ok s.
Proof.
  intros R. unfold mp_cand_ok. destruct (mps_bpieces s) as [|p1 r] eqn:E; [exact I|].
  apply (br_cons _ _ _ _ _ _ _ _ _ _ R p1 r E).
Qed.

Lemma rm_single_any data data' s pos sp drp pos' sp' drp' A :
  mp_rm data s pos sp drp A -> mp_is_single (mps_state s) -> sp' <= pos' -> pos' <= length data' -> mp_rm data' s pos' sp' drp' A.
Proof.
  intros [crp reg H1|held k d eol H1|H1 H2 H3 H4 H5 H6] Hs Ha Hb.
  - destruct Hs as [HH|[HH|[HH|HH]]]; congruence.
  - destruct Hs as [HH|[HH|[HH|HH]]]; congruence.
  - apply RmSingle; assumption.
Qed.

(* a completed delimiter *)
Lemma bnd_matched_sim data s pos sp drp A held k d eol c :
  mp_base s A -> mp_bndrel data s pos sp drp A held k d eol -> mps_state s = MpsBoundary ->
  nth_error data pos = Some c -> c = nth k (mps_boundary s) 0%N -> S k = length (mps_boundary s) ->
  ma_ok (mp_astep A c) = true ->
  match mp_boundary_matched data (mp_set_mpos s (S k)) (pos + 1) sp drp with
  | MpRet s' => mp_base s' (mp_astep A c) /\ mp_rm [] s' 0 0 0 (mp_astep A c)
  | MpGoto s' p' sp' d' => mp_base s' (mp_astep A c) /\ mp_rm data s' p' sp' d' (mp_astep A c) /\ p' = pos + 1 /\ mps_state s' = MpsIsLast2 /\ p' < length data
  | _ => True
  end.
Proof.
  intros HB R Hst Ec Hc Hk Hok.
  assert (Hlt : pos < length data) by (apply nth_error_Some; congruence).
  destruct HB as [Hb Hf Hwf Hbok].
  (* the reference step *)
  assert (HA : mp_astep A c = mk_mp_ast (ma_b A) (mp_amatch (ma_pl A)) AmIsLast2 (ma_ok A && negb (mp_openlineb (ma_pl A)))).
  { unfold mp_astep. rewrite (br_m _ _ _ _ _ _ _ _ _ _ R). cbv zeta. rewrite Hb, nth_boundary by (apply R).
    rewrite <- Hc, N.eqb_refl. rewrite Hk, Nat.eqb_refl. reflexivity. }
  rewrite HA in Hok |- *. cbn [ma_ok] in Hok. apply andb_true_iff in Hok. destruct Hok as [Hok Hopen].
  apply negb_true_iff in Hopen. rewrite (br_pl _ _ _ _ _ _ _ _ _ _ R) in Hopen.
  pose proof (mp_hd_closed_line _ _ Hopen) as Hline.
  unfold mp_boundary_matched.
  (* process_aside(matched) *)
  set (s0 := mp_set_mpos s (S k)).
  assert (Hpa : exists s1, mp_process_aside s0 true = MpOk s1 /\ mps_pl s1 = (match mps_bpieces s with [] => mps_pl s | _ => mp_hd (mps_pl s) d false end) /\
                  mps_bpieces s1 = [] /\ mps_cr s1 = false /\ mps_boundary s1 = mps_boundary s /\ mps_fault s1 = mps_fault s).
  { unfold mp_process_aside. cbn [orb negb andb]. cbv zeta. subst s0. mp_fields.
    destruct (mps_bpieces s) as [|p1 r] eqn:Ebp.
    - eexists; split; [reflexivity|]. mp_fields. tauto.
    - destruct (br_cons _ _ _ _ _ _ _ _ _ _ R p1 r Ebp) as (Hc1 & Hsp0 & Hdrp0).
      assert (Hf1 : firstn (mps_cand s) p1 = d ++ eol).
      { rewrite <- (br_first _ _ _ _ _ _ _ _ _ _ R). rewrite Ebp. cbn [concat]. rewrite <- !app_assoc.
        rewrite firstn_app. replace (mps_cand s - length p1) with 0 by lia. cbn [firstn]. rewrite app_nil_r. reflexivity. }
      destruct (pa_trim_spec p1 (mps_cand s) (mps_cr s) d eol Hc1 Hf1 (br_shape _ _ _ _ _ _ _ _ _ _ R)) as (l2 & El2 & Hl2).
      pose proof (pa_trim_le p1 (mps_cand s) l2 El2) as Hle.
      cbv zeta in El2.
      destruct (if 0 <? mps_cand s then _ else _) as [l1|] eqn:E1; [|discriminate El2].
      rewrite El2. rewrite slice_some by (cbn; lia).
      cbn [skipn]. rewrite Hl2. eexists; split; [reflexivity|]. mp_fields. tauto. }
  destruct Hpa as (s1 & Epa & Hpl1 & Hbp1 & Hcr1 & Hbd1 & Hf1). rewrite Epa.
  (* the data before the delimiter in the current chunk *)
  assert (Hsd : sp <= drp /\ drp <= pos).
  { destruct (mps_bpieces s) as [|p1 r] eqn:Ebp.
    - destruct (br_nil _ _ _ _ _ _ _ _ _ _ R Ebp). lia.
    - destruct (br_cons _ _ _ _ _ _ _ _ _ _ R p1 r Ebp) as (_ & -> & ->). lia. }
  rewrite sub_some by lia.
  assert (Htrim : exists dl2,
    (let dlen := drp - sp in
     let d1 := if 0 <? dlen then match mp_rd data (sp + dlen - 1) with Some c => Some (if (c =? LF)%N then dlen - 1 else dlen) | None => None end
               else Some dlen in
     match d1 with
     | None => None
     | Some dl1 => if 0 <? dl1 then match mp_rd data (sp + dl1 - 1) with Some c => Some (if (c =? CR)%N then dl1 - 1 else dl1) | None => None end
                   else Some dl1
     end) = Some dl2 /\ sp + dl2 <= length data /\
     mp_hd (mps_pl s1) (mp_slc data sp (sp + dl2)) true = mp_hd (mps_pl s) d false).
  { destruct (mps_bpieces s) as [|p1 r] eqn:Ebp.
    - destruct (br_nil _ _ _ _ _ _ _ _ _ _ R Ebp) as (Hcs & _ & _).
      assert (Hsl : mp_slc data sp drp = d ++ eol).
      { rewrite <- (br_first _ _ _ _ _ _ _ _ _ _ R). rewrite Ebp. cbn [concat app].
        rewrite (slc_app data sp drp pos) by lia. rewrite firstn_app, slc_length by lia.
        replace (mps_cand s - (drp - sp)) with 0 by lia. cbn [firstn]. rewrite app_nil_r.
        symmetry. apply firstn_all2. rewrite slc_length by lia. lia. }
      destruct (parse_trim_spec data sp drp (mps_cr s) d eol ltac:(lia) ltac:(lia) Hsl (br_shape _ _ _ _ _ _ _ _ _ _ R)) as (dl2 & E2 & H2).
      exists dl2. split; [exact E2|]. split.
      + apply (f_equal (@length N)) in H2. apply (f_equal (@length N)) in Hsl. rewrite app_length in Hsl.
        destruct (le_lt_dec (sp + dl2) (length data)); [lia|]. unfold mp_slc in H2. rewrite firstn_length, skipn_length in H2.
        rewrite slc_length in Hsl by lia. lia.
      + rewrite H2, Hpl1. exact Hline.
    - destruct (br_cons _ _ _ _ _ _ _ _ _ _ R p1 r Ebp) as (_ & -> & ->).
      exists 0. cbn. split; [reflexivity|]. split; [lia|]. exact Hpl1. }
  destruct Htrim as (dl2 & Etr & Hdl & Hpl2). cbv zeta in Etr.
  destruct (if 0 <? drp - sp then _ else _) as [dl1|] eqn:E1; [|discriminate Etr].
  rewrite Etr. rewrite slice_slc by exact Hdl. cbv zeta.
  assert (Hplf : mp_hb (if mp_has c_mp_SEEN_LAST_BOUNDARY (mpl_flags (mp_pl_bump (mp_hd (mps_pl s1) (mp_slc data sp (sp + dl2)) true)))
                       then mp_pl_flag (mp_pl_bump (mp_hd (mps_pl s1) (mp_slc data sp (sp + dl2)) true)) c_mp_PART_AFTER_LAST_BOUNDARY
                       else mp_pl_bump (mp_hd (mps_pl s1) (mp_slc data sp (sp + dl2)) true)) = mp_amatch (ma_pl A)).
  { rewrite Hpl2, <- (br_pl _ _ _ _ _ _ _ _ _ _ R). reflexivity. }
  destruct (length data <=? pos + 1) eqn:El.
  - split.
    + split; mp_fields; try congruence; [|rewrite Hbd1; exact Hbok]. apply mp_plwf_hb.
      assert (Hw : mp_plwf (mp_hd (mps_pl s1) (mp_slc data sp (sp + dl2)) true))
        by (apply mp_plwf_hd; rewrite Hpl1; destruct (mps_bpieces s); [exact Hwf|apply mp_plwf_hd; exact Hwf]).
      destruct (mp_has _ _); exact Hw.
    + apply RmSingle; mp_fields; try assumption; try lia; [exact I|]. exact (eq_sym Hplf).
  - apply Nat.leb_gt in El. split; [|split; [|split; [reflexivity|split; [reflexivity|exact El]]]].
    + split; mp_fields; try congruence; [|rewrite Hbd1; exact Hbok]. apply mp_plwf_hb.
      assert (Hw : mp_plwf (mp_hd (mps_pl s1) (mp_slc data sp (sp + dl2)) true))
        by (apply mp_plwf_hd; rewrite Hpl1; destruct (mps_bpieces s); [exact Hwf|apply mp_plwf_hd; exact Hwf]).
      destruct (mp_has _ _); exact Hw.
    + apply RmSingle; mp_fields; try assumption; try lia; [exact I|]. exact (eq_sym Hplf).
Qed.

(* ------------------------------------------------------------------ a failed boundary test *)
Lemma nth_error_firstn' {A} (l : list A) n j : j < n -> nth_error (firstn n l) j = nth_error l j.
Proof.
  revert l j. induction n as [|n IH]; intros l j H; [lia|]. destruct l; [destruct j; reflexivity|].
  destruct j; [reflexivity|]. cbn. apply IH. lia.
Qed.

Lemma slc_elems (data : bytes) a b L i :
  mp_slc data a b = L -> a <= i -> i < b -> b <= length data -> exists x, nth_error data i = Some x /\ In x L.
Proof.
  intros HL Ha Hb Hl. destruct (nth_error data i) as [x|] eqn:E.
  - exists x. split; [reflexivity|]. subst L. unfold mp_slc.
    apply nth_error_In with (n := i - a). rewrite nth_error_firstn' by lia. rewrite nth_error_skipn'.
    replace (a + (i - a)) with i by lia. exact E.
  - apply nth_error_None in E. lia.
Qed.

Lemma nocr_end_app_plain (L M : bytes) : M <> [] -> (forall x, In x M -> mp_plain x) -> mp_nocr_end (L ++ M).
Proof.
  intros Hne Hall. right. destruct M as [|m0 M'] using rev_ind; [congruence|]. rewrite app_assoc, last_last.
  apply (Hall m0). apply in_or_app. right. left. reflexivity.
Qed.

Lemma nocr_end_shape cr d eol : mp_eolshape cr d eol -> mp_nocr_end (d ++ eol).
Proof.
  intros [(_ & -> & ->)|[(_ & -> & _)|[(_ & ->)|(_ & -> & ->)]]].
  - left. reflexivity.
  - right. rewrite last_last. discriminate.
  - right. change [CR; LF] with ([CR] ++ [LF]). rewrite app_assoc, last_last. discriminate.
  - right. cbn. discriminate.
Qed.

Lemma shape_X s d eol held :
  held = (if mps_cr s then [CR] else []) ++ eol -> mp_eolshape (mps_cr s) d eol ->
  d ++ held = mp_crb s ++ d ++ eol /\ (held = [] -> eol = [] /\ mp_crb s ++ d ++ eol = []) /\
  (mps_cr s = true -> d ++ eol <> []).
Proof.
  intros -> Hs. unfold mp_crb.
  destruct Hs as [(Hc & -> & ->)|[(Hc & -> & _)|[(Hc & ->)|(Hc & -> & ->)]]]; rewrite Hc; cbn [app];
    (split; [reflexivity|split; [intros HH; try discriminate HH; try (destruct d; discriminate HH); tauto|intros HH; try discriminate HH; try (destruct d; discriminate); try discriminate]]).
Qed.

Lemma release_T s A data pos sp drp held k d eol c :
  mp_base s A -> mp_bndrel data s pos sp drp A held k d eol -> mps_state s = MpsBoundary ->
  c <> nth k (mps_boundary s) 0%N -> ma_ok (mp_astep A c) = true ->
  let X := mp_crb s ++ d ++ eol in
  let P1 := mp_hd (mps_pl s) X true in
  let T := mp_hd P1 (mp_matched (mps_boundary s) k) false in
  exists ok1, mp_astep A c = mp_astep_data (ma_b A) T ok1 false c /\ ok1 = true /\
    mp_dupb (mps_pl s) = false /\ (mp_matched (mps_boundary s) k <> [] -> mp_dupb P1 = false).
Proof.
  intros HB R Hst Hc Hok X P1 T.
  destruct HB as [Hb Hf Hwf Hbok].
  destruct (shape_X s d eol held (br_held _ _ _ _ _ _ _ _ _ _ R) (br_shape _ _ _ _ _ _ _ _ _ _ R)) as (HX & Hnil & _).
  assert (HA : mp_astep A c = let '(pl1, ok1) := mp_arelease (ma_b A) (ma_pl A) (ma_ok A) held k in mp_astep_data (ma_b A) pl1 ok1 false c).
  { unfold mp_astep. rewrite (br_m _ _ _ _ _ _ _ _ _ _ R). cbv zeta. rewrite Hb, nth_boundary by (apply R).
    destruct (c =? nth k (mps_boundary s) 0)%N eqn:E; [apply N.eqb_eq in E; congruence|]. reflexivity. }
  rewrite HA in Hok |- *. unfold mp_arelease in *.
  destruct (mp_ahd (ma_pl A) (ma_ok A) held true) as [pla oka] eqn:Ea.
  destruct (mp_ahd pla oka (mp_matched (ma_b A) k) false) as [plb okb] eqn:Eb.
  apply astep_data_ok in Hok. subst okb.
  pose proof (ahd_ok pla oka (mp_matched (ma_b A) k) false) as Hb2. rewrite Eb in Hb2. destruct (Hb2 eq_refl) as [-> Hd2].
  pose proof (ahd_ok (ma_pl A) (ma_ok A) held true) as Ha2. rewrite Ea in Ha2. destruct (Ha2 eq_refl) as [_ Hd1].
  unfold mp_ahd in Ea, Eb. injection Ea as <- _. injection Eb as <- _.
  (* no K3 on the concrete side *)
  assert (Hd0 : mp_dupb (mps_pl s) = false).
  { destruct Hd1 as [Hd1|Hd1].
    - apply (br_init _ _ _ _ _ _ _ _ _ _ R). apply Hnil. exact Hd1.
    - rewrite (br_pl _ _ _ _ _ _ _ _ _ _ R) in Hd1. destruct (mp_dupb (mps_pl s)) eqn:E; [|reflexivity].
      rewrite (mp_dupb_hd _ d E) in Hd1. discriminate. }
  assert (HP1 : mp_hd (ma_pl A) held true = P1).
  { rewrite (br_pl _ _ _ _ _ _ _ _ _ _ R). subst P1 X. rewrite <- HX.
    destruct held as [|h0 held'].
    - rewrite app_nil_r. destruct (Hnil eq_refl) as [-> HX0]. rewrite app_nil_r in HX.
      assert (d = []) by (destruct (br_shape _ _ _ _ _ _ _ _ _ _ R) as [(_ & _ & ->)|[(_ & H & _)|[(_ & H)|(_ & H & _)]]]; try discriminate H; reflexivity).
      subst d. reflexivity.
    - apply mp_hd_split_line; [exact Hd0|discriminate]. }
  exists true. rewrite HP1, Hb. split; [reflexivity|]. split; [reflexivity|]. split; [exact Hd0|].
  intros Hne. destruct Hd2 as [Hd2|Hd2]; [rewrite Hb in Hd2; congruence|]. rewrite HP1 in Hd2. exact Hd2.
Qed.

Lemma finish_rel s s' A data pos sp' d' T :
  mp_base s A -> mps_boundary s' = mps_boundary s -> mps_fault s' = mps_fault s -> mp_plwf (mps_pl s') ->
  mps_state s' = MpsData -> mps_bpieces s' = [] -> mps_cr s' = false -> sp' <= pos -> pos <= length data ->
  T = mp_hd (mps_pl s') (mp_slc data sp' pos) false -> mp_nocr_end (mp_slc data sp' pos) ->
  mp_base s' (mk_mp_ast (ma_b A) T (AmData false) true) /\ mp_rm data s' pos sp' d' (mk_mp_ast (ma_b A) T (AmData false) true).
Proof.
  intros [Hb Hf Hwf Hbok] H1 H2 H3 H4 H5 H6 H7 H8 H9 H10. split.
  - split; mp_fields; [congruence|congruence|exact H3|rewrite H1; exact Hbok].
  - apply RmData with (crp := false) (reg := mp_slc data sp' pos); mp_fields; try assumption; try reflexivity.
    right. split; [exact H6|]. split; [rewrite app_nil_r; reflexivity|]. split; [intros _; exact H10|discriminate].
Qed.

Lemma firstn_app_le {A} (X Y : list A) n : n <= length X -> firstn n (X ++ Y) = firstn n X.
Proof. intros H. rewrite firstn_app. replace (n - length X) with 0 by lia. cbn. apply app_nil_r. Qed.
Lemma skipn_app_le {A} (X Y : list A) n : n <= length X -> skipn n (X ++ Y) = skipn n X ++ Y.
Proof. intros H. rewrite skipn_app. replace (n - length X) with 0 by lia. reflexivity. Qed.

Lemma bnd_mismatch_sim data s pos sp drp A held k d eol c :
  mp_base s A -> mp_bndrel data s pos sp drp A held k d eol -> mps_state s = MpsBoundary ->
  nth_error data pos = Some c -> c <> nth k (mps_boundary s) 0%N ->
  ma_ok (mp_astep A c) = true ->
  match mp_process_aside s false with
  | MpOk s1 =>
    match (match mpl_mode (mps_pl s1) with
           | MpLine => match mp_sub drp sp with
                       | Some k0 => match mp_slice data sp k0 with
                                    | Some dd => MpGoto (mp_set_state (mp_shd s1 dd true) MpsData) pos drp drp
                                    | None => MpErr end
                       | None => MpErr end
           | MpData => MpGoto (mp_set_state s1 MpsData) drp sp drp
           end) with
    | MpGoto s' p' sp' d' =>
      exists Arel, mp_astep Arel c = mp_astep A c /\ mp_base s' Arel /\ mp_rm data s' pos sp' d' Arel /\
        mps_cr s' = false /\ mps_state s' = MpsData /\ p' <= pos /\
        (forall i, p' <= i -> i < pos -> exists x, nth_error data i = Some x /\ mp_plain x)
    | _ => True
    end
  | _ => True
  end.
Proof.
  intros HB R Hst Ec Hc Hok.
  assert (Hlt : pos < length data) by (apply nth_error_Some; congruence).
  destruct (release_T s A data pos sp drp held k d eol c HB R Hst Hc Hok) as (ok1 & HA & -> & Hd0 & Hd1).
  set (X := mp_crb s ++ d ++ eol) in *. set (P1 := mp_hd (mps_pl s) X true) in *.
  set (M := mp_matched (mps_boundary s) k) in *. set (T := mp_hd P1 M false) in *.
  pose proof HB as [Hb Hf Hwf (b0 & Hb0 & Hbok)].
  assert (HMplain : forall x, In x M -> mp_plain x) by (intros x Hx; subst M; rewrite Hb0 in Hx; eapply matched_plain; eauto).
  destruct (shape_X s d eol held (br_held _ _ _ _ _ _ _ _ _ _ R) (br_shape _ _ _ _ _ _ _ _ _ _ R)) as (HX & Hnil & Hcrne).
  pose proof (br_sp _ _ _ _ _ _ _ _ _ _ R) as Hsp. 
  assert (HArel : mp_astep (mk_mp_ast (ma_b A) T (AmData false) true) c = mp_astep A c) by (rewrite HA; reflexivity).
  destruct (mps_bpieces s) as [|p1 rest] eqn:Ebp.
  - (* the candidate started in this chunk *)
    destruct (br_nil _ _ _ _ _ _ _ _ _ _ R Ebp) as (Hcs & Hsd & Hdp).
    assert (HF : mp_slc data sp drp = d ++ eol).
    { rewrite <- (br_first _ _ _ _ _ _ _ _ _ _ R). rewrite Ebp. cbn [concat app].
      rewrite (slc_app data sp drp pos) by lia. rewrite firstn_app_le by (rewrite slc_length by lia; lia).
      symmetry. apply firstn_all2. rewrite slc_length by lia. lia. }
    assert (HM : mp_slc data drp pos = M).
    { subst M. rewrite <- (br_rest _ _ _ _ _ _ _ _ _ _ R). rewrite Ebp. cbn [concat app].
      rewrite (slc_app data sp drp pos) by lia. rewrite skipn_app_le by (rewrite slc_length by lia; lia).
      replace (skipn (mps_cand s) (mp_slc data sp drp)) with (@nil N) by (symmetry; apply skipn_all2; rewrite slc_length by lia; lia).
      reflexivity. }
    destruct (mpl_mode (mps_pl s)) eqn:Em.
    + rewrite (pa_false_line_nil s Em Ebp). mp_fields.
      destruct (mpl_mode (mp_hd (mps_pl s) (mp_crb s) false)) eqn:Em1.
      * (* line mode: the line is complete *)
        rewrite sub_some by lia. rewrite slice_slc by lia. replace (sp + (drp - sp)) with drp by lia.
        exists (mk_mp_ast (ma_b A) T (AmData false) true). split; [exact HArel|].
        assert (Hpl : mp_hd (mp_hd (mps_pl s) (mp_crb s) false) (mp_slc data sp drp) true = P1).
        { subst P1 X. rewrite HF. unfold mp_crb in *. destruct (mps_cr s) eqn:Ecr; [|reflexivity].
          apply mp_hd_split_line; [exact Hd0|apply Hcrne; reflexivity]. }
        destruct (finish_rel s (mp_set_state (mp_shd (mp_set_cr (mp_set_pl s (mp_hd (mps_pl s) (mp_crb s) false)) false) (mp_slc data sp drp) true) MpsData)
                    A data pos drp drp T HB) as [H1 H2]; mp_fields; try reflexivity; try assumption; try lia.
        -- apply mp_plwf_hd. apply mp_plwf_hd. exact Hwf.
        -- rewrite Hpl, HM. reflexivity.
        -- rewrite HM. destruct M as [|m0 M'] eqn:EM; [left; reflexivity|].
           change (m0 :: M') with ([] ++ (m0 :: M')). apply nocr_end_app_plain; [discriminate|exact HMplain].
        -- split; [exact H1|]. split; [exact H2|]. split; [reflexivity|]. split; [reflexivity|]. split; [lia|]. intros i Hi1 Hi2. lia.
      * (* the set-aside CR created the preamble *)
        assert (Hnop : mpl_cur (mps_pl s) = None /\ mpl_bcount (mps_pl s) = 0 /\ mps_cr s = true).
        { unfold mp_crb in Em1. destruct (mps_cr s); [|cbn in Em1; congruence].
          destruct (mpl_cur (mps_pl s)) as [p|] eqn:Ecur.
          - rewrite mp_hd_mode_nl in Em1 by congruence. congruence.
          - unfold mp_hd in Em1. rewrite Ecur in Em1. destruct (mpl_bcount (mps_pl s)) eqn:Ebc; [tauto|].
            cbn in Em1. discriminate. }
        destruct Hnop as (Hcur & Hbc & Hcr).
        exists (mk_mp_ast (ma_b A) T (AmData false) true). split; [exact HArel|].
        assert (HFL : mp_slc data sp drp = [LF] /\ X = [CR; LF]).
        { destruct (br_shape _ _ _ _ _ _ _ _ _ _ R) as [(Hc0 & _)|[(Hc0 & _)|[(Hc0 & _)|(_ & -> & ->)]]]; try congruence.
          subst X. unfold mp_crb. rewrite Hcr, HF. split; reflexivity. }
        destruct HFL as (HFL & HXL).
        destruct (finish_rel s (mp_set_state (mp_set_cr (mp_set_pl s (mp_hd (mps_pl s) (mp_crb s) false)) false) MpsData)
                    A data pos sp drp T HB) as [H1 H2]; mp_fields; try reflexivity; try assumption; try lia.
        -- apply mp_plwf_hd. exact Hwf.
        -- rewrite (slc_app data sp drp pos) by lia. rewrite HFL, HM. subst T P1. rewrite HXL.
           rewrite (mp_hd_line_irrelevant (mps_pl s) [CR; LF]) by (right; tauto).
           rewrite mp_hd_split_nl by exact Hd0. unfold mp_crb. rewrite Hcr.
           rewrite mp_hd_split_nl by exact Hd0. reflexivity.
        -- rewrite (slc_app data sp drp pos) by lia. rewrite HFL, HM.
           destruct M as [|m0 M'] eqn:EM; [right; cbn; discriminate|]. apply nocr_end_app_plain; [discriminate|exact HMplain].
        -- split; [exact H1|]. split; [exact H2|]. split; [reflexivity|]. split; [reflexivity|]. split; [lia|].
           intros i Hi1 Hi2. destruct (slc_elems data drp pos M i HM Hi1 Hi2 ltac:(lia)) as (x & Hx & Hin). exists x. split; [exact Hx|apply HMplain; exact Hin].
    + (* data mode: go back and rescan *)
      rewrite (pa_false_data s Em Hd0). mp_fields. rewrite Ebp. cbn [concat]. rewrite app_nil_r.
      assert (Hcurs : mpl_cur (mps_pl s) <> None) by (intros HH; specialize (Hwf HH); congruence).
      rewrite mp_hd_mode_nl by exact Hcurs. rewrite Em.
      exists (mk_mp_ast (ma_b A) T (AmData false) true). split; [exact HArel|].
      destruct (finish_rel s (mp_set_state (mp_set_bpieces (mp_set_cr (mp_set_pl s (mp_hd (mps_pl s) (mp_crb s) false)) false) []) MpsData)
                  A data pos sp drp T HB) as [H1 H2]; mp_fields; try reflexivity; try assumption; try lia.
      * apply mp_plwf_hd. exact Hwf.
      * rewrite (slc_app data sp drp pos) by lia. rewrite HF, HM. subst T P1.
        rewrite (mp_hd_line_irrelevant (mps_pl s) X) by (left; tauto).
        rewrite !mp_hd_split_nl by exact Hd0. subst X. rewrite <- !app_assoc. reflexivity.
      * rewrite (slc_app data sp drp pos) by lia. rewrite HF, HM.
        destruct M as [|m0 M'] eqn:EM; [rewrite app_nil_r; eapply nocr_end_shape; apply R|]. apply nocr_end_app_plain; [discriminate|exact HMplain].
      * split; [exact H1|]. split; [exact H2|]. split; [reflexivity|]. split; [reflexivity|]. split; [lia|].
        intros i Hi1 Hi2. destruct (slc_elems data drp pos M i HM Hi1 Hi2 ltac:(lia)) as (x & Hx & Hin). exists x. split; [exact Hx|apply HMplain; exact Hin].
  - (* the candidate is in stored pieces *)
    destruct (br_cons _ _ _ _ _ _ _ _ _ _ R p1 rest Ebp) as (Hc1 & -> & ->).
    assert (HF : firstn (mps_cand s) p1 = d ++ eol).
    { rewrite <- (br_first _ _ _ _ _ _ _ _ _ _ R). rewrite Ebp. cbn [concat]. rewrite <- !app_assoc. rewrite firstn_app_le by lia. reflexivity. }
    assert (HM : (skipn (mps_cand s) p1 ++ concat rest) ++ mp_slc data 0 pos = M).
    { subst M. rewrite <- (br_rest _ _ _ _ _ _ _ _ _ _ R). rewrite Ebp. cbn [concat].
      rewrite skipn_app_le by (rewrite app_length; lia). rewrite skipn_app_le by lia. reflexivity. }
    assert (Hsuf : forall x, In x (mp_slc data 0 pos) -> mp_plain x).
    { intros x Hx. apply HMplain. rewrite <- HM. apply in_or_app. right. exact Hx. }
    assert (Hnocr : mp_nocr_end (mp_slc data 0 pos)).
    { destruct (mp_slc data 0 pos) as [|m0 M'] eqn:EM; [left; reflexivity|].
      change (m0 :: M') with ([] ++ (m0 :: M')). apply nocr_end_app_plain; [discriminate|exact Hsuf]. }
    assert (Hplain : forall p', forall i, p' <= i -> i < pos -> exists x, nth_error data i = Some x /\ mp_plain x).
    { intros p' i Hi1 Hi2. destruct (slc_elems data 0 pos _ i eq_refl ltac:(lia) Hi2 ltac:(lia)) as (x & Hx & Hin).
      exists x. split; [exact Hx|apply Hsuf; exact Hin]. }
    destruct (mpl_mode (mps_pl s)) eqn:Em.
    + assert (Hd1' : mp_dupb (mp_hd (mps_pl s) (mp_crb s ++ firstn (mps_cand s) p1) true) = false \/ skipn (mps_cand s) p1 ++ concat rest = []).
      { destruct (skipn (mps_cand s) p1 ++ concat rest) as [|y ys] eqn:EP2; [right; reflexivity|left].
        rewrite HF. apply Hd1. rewrite <- HM. discriminate. }
      rewrite (pa_false_line_cons s p1 rest Em Ebp Hc1 Hd0 ltac:(intros HH; rewrite HF; apply Hcrne; exact HH) Hd1').
      rewrite HF. fold X. fold P1. mp_fields.
      assert (HT : T = mp_hd (mp_hd P1 (skipn (mps_cand s) p1 ++ concat rest) false) (mp_slc data 0 pos) false).
      { subst T. rewrite <- HM. destruct (mp_dupb P1) eqn:EdP.
        - destruct M as [|m0 M'] eqn:EM; [|specialize (Hd1 ltac:(discriminate)); congruence].
          apply app_eq_nil in HM. destruct HM as [-> ->]. reflexivity.
        - symmetry. apply mp_hd_split_nl. exact EdP. }
      destruct (mpl_mode (mp_hd P1 (skipn (mps_cand s) p1 ++ concat rest) false)) eqn:Em1.
      * cbn [mp_sub Nat.leb Nat.sub]. cbn [mp_slice Nat.add Nat.leb skipn firstn].
        exists (mk_mp_ast (ma_b A) T (AmData false) true). split; [exact HArel|].
        destruct (finish_rel s (mp_set_state (mp_shd (mp_set_bpieces (mp_set_cr (mp_set_pl s (mp_hd P1 (skipn (mps_cand s) p1 ++ concat rest) false)) false) []) [] true) MpsData)
                    A data pos 0 0 T HB) as [H1 H2]; mp_fields; try reflexivity; try assumption; try lia.
        -- unfold P1. repeat apply mp_plwf_hd. exact Hwf.
        -- split; [exact H1|]. split; [exact H2|]. split; [reflexivity|]. split; [reflexivity|]. split; [lia|]. intros i Hi1 Hi2. lia.
      * exists (mk_mp_ast (ma_b A) T (AmData false) true). split; [exact HArel|].
        destruct (finish_rel s (mp_set_state (mp_set_bpieces (mp_set_cr (mp_set_pl s (mp_hd P1 (skipn (mps_cand s) p1 ++ concat rest) false)) false) []) MpsData)
                    A data pos 0 0 T HB) as [H1 H2]; mp_fields; try reflexivity; try assumption; try lia.
        -- unfold P1. repeat apply mp_plwf_hd. exact Hwf.
        -- split; [exact H1|]. split; [exact H2|]. split; [reflexivity|]. split; [reflexivity|]. split; [lia|]. apply Hplain.
    + rewrite (pa_false_data s Em Hd0). mp_fields. rewrite Ebp.
      assert (Hcurs : mpl_cur (mps_pl s) <> None) by (intros HH; specialize (Hwf HH); congruence).
      rewrite mp_hd_mode_nl by exact Hcurs. rewrite Em.
      exists (mk_mp_ast (ma_b A) T (AmData false) true). split; [exact HArel|].
      destruct (finish_rel s (mp_set_state (mp_set_bpieces (mp_set_cr (mp_set_pl s (mp_hd (mps_pl s) (mp_crb s ++ concat (p1 :: rest)) false)) false) []) MpsData)
                  A data pos 0 0 T HB) as [H1 H2]; mp_fields; try reflexivity; try assumption; try lia.
      * apply mp_plwf_hd. exact Hwf.
      * subst T P1. rewrite (mp_hd_line_irrelevant (mps_pl s) X) by (left; tauto).
        rewrite !mp_hd_split_nl by exact Hd0. rewrite <- HM. subst X. cbn [concat]. rewrite <- (firstn_skipn (mps_cand s) p1) at 2.
        rewrite HF. rewrite <- !app_assoc. reflexivity.
      * split; [exact H1|]. split; [exact H2|]. split; [reflexivity|]. split; [reflexivity|]. split; [lia|]. apply Hplain.
Qed.

Lemma boundary_matched_ret data s p sp drp s' : mp_boundary_matched data s p sp drp = MpRet s' -> length data <= p.
Proof.
  unfold mp_boundary_matched. destruct (mp_process_aside s true); try discriminate.
  destruct (mp_sub drp sp) as [dlen|]; try discriminate.
  destruct (if 0 <? dlen then _ else _) as [dl1|]; try discriminate.
  destruct (if 0 <? dl1 then _ else _) as [dl2|]; try discriminate.
  destruct (mp_slice data sp dl2); try discriminate. cbv zeta.
  destruct (length data <=? p) eqn:El; try discriminate. intros _. apply Nat.leb_le. exact El.
Qed.

Lemma boundary_matched_not_break data s p sp drp s' a b c : mp_boundary_matched data s p sp drp <> MpBreak s' a b c.
Proof.
  unfold mp_boundary_matched. destruct (mp_process_aside s true); try discriminate.
  destruct (mp_sub drp sp) as [dlen|]; try discriminate.
  destruct (if 0 <? dlen then _ else _) as [dl1|]; try discriminate.
  destruct (if 0 <? dl1 then _ else _) as [dl2|]; try discriminate.
  destruct (mp_slice data sp dl2); try discriminate. cbv zeta.
  destruct (length data <=? p); discriminate.
Qed.

Lemma bnd_loop_sim n : forall data s pos sp drp A,
  pos + n = length data -> mp_base s A -> mp_rm data s pos sp drp A -> mps_state s = MpsBoundary ->
  ma_ok (fold_left mp_astep (skipn pos data) A) = true ->
  match mp_bnd_loop n data s pos sp drp with
  | MpBreak s' _ _ _ => let A' := fold_left mp_astep (skipn pos data) A in mp_base s' A' /\ mp_rm [] s' 0 0 0 A'
  | MpRet s' => let A' := fold_left mp_astep (skipn pos data) A in mp_base s' A' /\ mp_rm [] s' 0 0 0 A'
  | MpGoto s' p' sp' d' =>
      (mps_state s' = MpsIsLast2 /\ pos < p' /\ p' < length data /\
         let A' := fold_left mp_astep (mp_slc data pos p') A in mp_base s' A' /\ mp_rm data s' p' sp' d' A')
      \/
      (mps_state s' = MpsData /\ mps_cr s' = false /\
         exists q c Arel, pos <= q /\ nth_error data q = Some c /\ p' <= q /\
           mp_astep Arel c = mp_astep (fold_left mp_astep (mp_slc data pos q) A) c /\
           mp_base s' Arel /\ mp_rm data s' q sp' d' Arel /\
           (forall i, p' <= i -> i < q -> exists x, nth_error data i = Some x /\ mp_plain x))
  | MpErr => True
  end.
Proof.
  induction n as [|n IH]; intros data s pos sp drp A Hn HB HR Hst Hok;
    destruct (rm_bnd_inv _ _ _ _ _ _ HR Hst) as (held & k & d & eol & R); cbn [mp_bnd_loop].
  - (* end of the chunk: keep the rest for later *)
    pose proof (br_sp _ _ _ _ _ _ _ _ _ _ R) as Hsp.
    rewrite sub_some by lia. rewrite slice_slc by lia. replace (sp + (length data - sp)) with (length data) by lia.
    replace (skipn pos data) with (@nil N) by (symmetry; apply skipn_all2; lia). cbn [fold_left].
    assert (pos = length data) by lia. subst pos.
    split.
    + destruct HB as [H1 H2 H3 H4]. split; mp_fields; assumption.
    + apply RmBnd with (held := held) (k := k) (d := d) (eol := eol); mp_fields; try assumption; try (apply R); try lia.
      * rewrite concat_app. cbn [concat]. rewrite slc_nil, !app_nil_r. apply R.
      * rewrite concat_app. cbn [concat]. rewrite slc_nil, !app_nil_r. apply R.
      * intros HH. destruct (mps_bpieces s); discriminate HH.
      * intros p1 r HH. split; [|split; reflexivity].
        destruct (mps_bpieces s) as [|q1 qr] eqn:Ebp.
        -- cbn in HH. injection HH as <- _. destruct (br_nil _ _ _ _ _ _ _ _ _ _ R Ebp) as (Ha & Hb & Hc).
           rewrite slc_length by lia. lia.
        -- cbn in HH. injection HH as <- _. apply (br_cons _ _ _ _ _ _ _ _ _ _ R q1 qr Ebp).
  - destruct (nth_error data pos) as [c|] eqn:Ec; unfold mp_rd at 1; rewrite Ec; [|exact I].
    assert (Hlt : pos < length data) by (apply nth_error_Some; congruence).
    rewrite (br_k _ _ _ _ _ _ _ _ _ _ R). rewrite rd_boundary by (apply R).
    rewrite (skipn_cons_nth data pos c Ec) in Hok |- *. cbn [fold_left] in Hok |- *.
    assert (Hok1 : ma_ok (mp_astep A c) = true) by (eapply afold_ok; exact Hok).
    destruct (c =? nth k (mps_boundary s) 0)%N eqn:Ecmp; cbn [negb].
    + apply N.eqb_eq in Ecmp. cbn [mps_mpos mp_set_mpos mps_boundary].
      destruct (S k =? length (mps_boundary s)) eqn:Ek.
      * (* the delimiter is complete *)
        apply Nat.eqb_eq in Ek.
        pose proof (bnd_matched_sim data s pos sp drp A held k d eol c HB R Hst Ec Ecmp Ek Hok1) as HM.
        destruct (mp_boundary_matched data (mp_set_mpos s (S k)) (pos + 1) sp drp) as [s' p' sp' d'|s' p' sp' d'|s'|] eqn:EM;
          [|exfalso; exact (boundary_matched_not_break _ _ _ _ _ _ _ _ _ EM)| |exact I].
        -- destruct HM as (H1 & H2 & -> & H4 & H5). left. split; [exact H4|]. split; [lia|]. split; [lia|].
           rewrite (slc_cons_nth data pos (pos + 1) c Ec) by lia. rewrite slc_nil. cbn [fold_left]. tauto.
        -- (* the chunk ends with the delimiter *)
           assert (Hend : skipn (pos + 1) data = []) by (apply skipn_all2; apply (boundary_matched_ret _ _ _ _ _ _ EM)).
           rewrite Hend. cbn [fold_left]. exact HM.
      * (* one more byte of the delimiter *)
        apply Nat.eqb_neq in Ek.
        assert (HA1 : mp_astep A c = mk_mp_ast (ma_b A) (ma_pl A) (AmBnd held (S k)) (ma_ok A)).
        { unfold mp_astep. rewrite (br_m _ _ _ _ _ _ _ _ _ _ R). cbv zeta. destruct HB as [Hb _ _ _]. rewrite Hb, nth_boundary by (apply R).
          rewrite <- Ecmp, N.eqb_refl. destruct (S k =? length (mps_boundary s)) eqn:E; [apply Nat.eqb_eq in E; congruence|]. reflexivity. }
        pose proof (bndrel_cand_le _ _ _ _ _ _ _ _ _ _ R) as Hcl.
        assert (HR1 : mp_rm data (mp_set_mpos s (S k)) (pos + 1) sp drp (mp_astep A c)).
        { rewrite HA1. apply RmBnd with (held := held) (k := S k) (d := d) (eol := eol); mp_fields; try assumption; try reflexivity; try (apply R); try lia.
          - pose proof (br_k2 _ _ _ _ _ _ _ _ _ _ R). lia.
          - pose proof (br_kl _ _ _ _ _ _ _ _ _ _ R). lia.
          - rewrite (slc_snoc data sp pos c) by (try (apply R); exact Ec). rewrite app_assoc. rewrite firstn_app_le by exact Hcl. apply R.
          - rewrite (slc_snoc data sp pos c) by (try (apply R); exact Ec). rewrite app_assoc. rewrite skipn_app_le by exact Hcl.
            rewrite (br_rest _ _ _ _ _ _ _ _ _ _ R). rewrite matched_S by (apply R). rewrite Ecmp. reflexivity.
          - pose proof (br_sp _ _ _ _ _ _ _ _ _ _ R). lia.
          - intros HH. destruct (br_nil _ _ _ _ _ _ _ _ _ _ R HH) as (Ha & Hb & Hc). lia. }
        assert (HB1 : mp_base (mp_set_mpos s (S k)) (mp_astep A c)).
        { rewrite HA1. destruct HB as [H1 H2 H3 H4]. split; mp_fields; assumption. }
        specialize (IH data (mp_set_mpos s (S k)) (pos + 1) sp drp (mp_astep A c) ltac:(lia) HB1 HR1 Hst Hok).
        destruct (mp_bnd_loop n data (mp_set_mpos s (S k)) (pos + 1) sp drp) as [s' p' sp' d'|s' p' sp' d'|s'|]; try exact IH.
        destruct IH as [(H1 & H2 & H3 & H4)|(H1 & H2 & q & c' & Arel & Hq1 & Hq2 & Hq3 & Hq4 & Hq5)].
        -- left. split; [exact H1|]. split; [lia|]. split; [lia|]. rewrite (slc_cons_nth data pos p' c Ec) by lia. exact H4.
        -- right. split; [exact H1|]. split; [exact H2|]. exists q, c', Arel. split; [lia|]. split; [exact Hq2|]. split; [exact Hq3|].
           rewrite (slc_cons_nth data pos q c Ec) by lia. cbn [fold_left]. split; [exact Hq4|exact Hq5].
    + (* mismatch *)
      assert (Hne : c <> nth k (mps_boundary s) 0%N) by (apply N.eqb_neq; exact Ecmp).
      pose proof (bnd_mismatch_sim data s pos sp drp A held k d eol c HB R Hst Ec Hne Hok1) as HM.
      destruct (mp_process_aside s false) as [s1| |]; try exact I.
      destruct (mpl_mode (mps_pl s1)).
      * destruct (mp_sub drp sp) as [k0|]; [|exact I]. destruct (mp_slice data sp k0) as [dd|]; [|exact I].
        destruct HM as (Arel & H1 & H2 & H3 & H4 & H5 & H6 & H7).
        right. split; [exact H5|]. split; [exact H4|]. exists pos, c, Arel. split; [lia|]. split; [exact Ec|]. split; [exact H6|].
        rewrite slc_nil. cbn [fold_left]. tauto.
      * destruct HM as (Arel & H1 & H2 & H3 & H4 & H5 & H6 & H7).
        right. split; [exact H5|]. split; [exact H4|]. exists pos, c, Arel. split; [lia|]. split; [exact Ec|]. split; [exact H6|].
        rewrite slc_nil. cbn [fold_left]. tauto.
Qed.

(* ------------------------------------------------------------------ the single-byte states *)
Lemma rm_single_inv data s pos sp drp A :
  mp_rm data s pos sp drp A -> mp_is_single (mps_state s) ->
  mp_single_corr (mps_state s) (ma_m A) /\ mps_bpieces s = [] /\ mps_cr s = false /\ ma_pl A = mps_pl s /\ sp <= pos /\ pos <= length data.
Proof.
  intros [crp reg H1|held k d eol H1|H1 H2 H3 H4 H5 H6] Hs.
  - destruct Hs as [HH|[HH|[HH|HH]]]; congruence.
  - destruct Hs as [HH|[HH|[HH|HH]]]; congruence.
  - tauto.
Qed.

Lemma single_sim data s pos sp drp A c :
  mp_base s A -> mp_rm data s pos sp drp A -> mp_is_single (mps_state s) -> nth_error data pos = Some c ->
  match mp_single data s pos sp drp with
  | MpBreak s' p' sp' d' =>
      exists A1, ((p' = pos /\ mp_astep A1 c = mp_astep A c) \/ (p' = pos + 1 /\ A1 = mp_astep A c)) /\
        mp_base s' A1 /\ mp_rm data s' p' sp' d' A1 /\ mps_cr s' = false /\
        (mps_state s' <> MpsBoundary /\ (mps_state s' = MpsData -> sp' = p'))
  | MpErr => True
  | _ => False
  end.
Proof.
  intros HB HR Hs Ec.
  destruct (rm_single_inv _ _ _ _ _ _ HR Hs) as (Hcorr & Hbp & Hcr & Hpl & Hsp & Hpos).
  assert (Hlt : pos < length data) by (apply nth_error_Some; congruence).
  destruct HB as [Hb Hf Hwf Hbok].
  unfold mp_single, mp_rd. rewrite Ec.
  destruct A as [ab apl am aok]. cbn [ma_b ma_pl ma_m ma_ok] in *. subst apl.
  destruct (mps_state s) eqn:Est; destruct am; try contradiction; clear Hcorr.
  - (* IS_LAST1 *)
    destruct (c =? mp_DASH)%N eqn:E.
    + exists (mp_astep (mk_mp_ast ab (mps_pl s) AmIsLast1 aok) c). split; [right; split; reflexivity|].
      unfold mp_astep. cbn [ma_m ma_b ma_pl ma_ok]. rewrite E.
      split; [split; mp_fields; assumption|]. split; [|split; [exact Hcr|mp_fields; split; [discriminate|intros HH; try discriminate HH; reflexivity]]].
      apply RmSingle; mp_fields; try assumption; try reflexivity; try lia; exact I.
    + exists (mk_mp_ast ab (mp_pl_flag (mps_pl s) c_mp_BBOUNDARY_NLWS_AFTER) AmEatLws aok). split; [left; split; [reflexivity|]|].
      * unfold mp_astep. cbn [ma_m ma_b ma_pl ma_ok]. rewrite E. reflexivity.
      * split; [split; mp_fields; assumption|]. split; [|split; [exact Hcr|mp_fields; split; [discriminate|intros HH; try discriminate HH; reflexivity]]].
        apply RmSingle; mp_fields; try assumption; try reflexivity; try lia; exact I.
  - (* IS_LAST2 *)
    destruct (c =? mp_DASH)%N eqn:E.
    + exists (mp_astep (mk_mp_ast ab (mps_pl s) AmIsLast2 aok) c). split; [right; split; reflexivity|].
      unfold mp_astep. cbn [ma_m ma_b ma_pl ma_ok]. rewrite E.
      split; [split; mp_fields; assumption|]. split; [|split; [exact Hcr|mp_fields; split; [discriminate|intros HH; try discriminate HH; reflexivity]]].
      apply RmSingle; mp_fields; try assumption; try reflexivity; try lia; exact I.
    + exists (mk_mp_ast ab (mps_pl s) AmEatLws aok). split; [left; split; [reflexivity|]|].
      * unfold mp_astep. cbn [ma_m ma_b ma_pl ma_ok]. rewrite E. reflexivity.
      * split; [split; mp_fields; assumption|]. split; [|split; [exact Hcr|mp_fields; split; [discriminate|intros HH; try discriminate HH; reflexivity]]].
        apply RmSingle; mp_fields; try assumption; try reflexivity; try lia; exact I.
  - (* EAT_LWS *)
    destruct (c =? CR)%N eqn:E1; [|destruct (c =? LF)%N eqn:E2; [|destruct (htp_is_lws c) eqn:E3]];
      (exists (mp_astep (mk_mp_ast ab (mps_pl s) AmEatLws aok) c); split; [right; split; reflexivity|];
       unfold mp_astep; cbn [ma_m ma_b ma_pl ma_ok]; rewrite ?E1, ?E2, ?E3;
       split; [split; mp_fields; assumption|]; split; [|split; [exact Hcr|mp_fields; rewrite ?Est; split; [discriminate|intros HH; try discriminate HH; reflexivity]]]).
    + apply RmSingle; mp_fields; try assumption; try reflexivity; try lia; exact I.
    + apply RmData with (crp := false) (reg := []); mp_fields; try assumption; try reflexivity; try lia.
      right. split; [exact Hcr|]. split; [rewrite slc_nil; reflexivity|]. split; [intros _; left; reflexivity|discriminate].
    + apply RmSingle; mp_fields; try assumption; try reflexivity; try lia; rewrite Est; exact I.
    + apply RmSingle; mp_fields; try assumption; try reflexivity; try lia; rewrite Est; exact I.
  - (* EAT_LWS_CR *)
    destruct (c =? LF)%N eqn:E.
    + exists (mp_astep (mk_mp_ast ab (mps_pl s) AmEatLwsCr aok) c). split; [right; split; reflexivity|].
      unfold mp_astep. cbn [ma_m ma_b ma_pl ma_ok]. rewrite E.
      split; [split; mp_fields; assumption|]. split; [|split; [exact Hcr|mp_fields; split; [discriminate|intros HH; try discriminate HH; reflexivity]]].
      apply RmData with (crp := false) (reg := []); mp_fields; try assumption; try reflexivity; try lia.
      right. split; [exact Hcr|]. split; [rewrite slc_nil; reflexivity|]. split; [intros _; left; reflexivity|discriminate].
    + exists (mk_mp_ast ab (mp_pl_flag (mps_pl s) c_mp_BBOUNDARY_NLWS_AFTER) AmEatLws aok). split; [left; split; [reflexivity|]|].
      * unfold mp_astep. cbn [ma_m ma_b ma_pl ma_ok]. rewrite E. reflexivity.
      * split; [split; mp_fields; assumption|]. split; [|split; [exact Hcr|mp_fields; split; [discriminate|intros HH; try discriminate HH; reflexivity]]].
        apply RmSingle; mp_fields; try assumption; try reflexivity; try lia; exact I.
Qed.

(* ------------------------------------------------------------------ the switch *)
Lemma data_loop_break_pos n : forall data s pos sp drp,
  match mp_data_loop n data s pos sp drp with MpBreak _ p' _ _ => p' = pos + n | _ => True end.
Proof.
  induction n as [|n IH]; intros data s pos sp drp; cbn [mp_data_loop].
  - destruct (mp_sub pos sp); [|exact I]. destruct (mp_sub _ _); [|exact I]. destruct (mp_slice _ _ _); [lia|exact I].
  - unfold mp_rd. destruct (nth_error data pos) as [c|]; [|exact I].
    destruct (c =? CR)%N.
    + destruct (pos + 1 =? length data).
      * specialize (IH data (mp_set_cr s true) (pos + 1) sp drp). destruct (mp_data_loop _ _ _ _ _ _); try exact I. lia.
      * destruct (nth_error data (pos + 1)); [|exact I]. destruct (n0 =? LF)%N.
        -- destruct (mp_sub _ _); exact I.
        -- specialize (IH data (mp_set_cr s false) (pos + 1) sp drp). destruct (mp_data_loop _ _ _ _ _ _); try exact I. lia.
    + destruct (c =? LF)%N.
      * destruct (mp_sub _ _); exact I.
      * match goal with |- match mp_data_loop n data ?s1 _ _ _ with _ => _ end => specialize (IH data s1 (pos + 1) sp drp) end.
        destruct (mp_data_loop _ _ _ _ _ _); try exact I. lia.
Qed.

Lemma bnd_loop_break_pos n : forall data s pos sp drp,
  match mp_bnd_loop n data s pos sp drp with MpBreak _ p' _ _ => p' = pos + n | _ => True end.
Proof.
  induction n as [|n IH]; intros data s pos sp drp; cbn [mp_bnd_loop].
  - destruct (mp_sub _ _); [|exact I]. destruct (mp_slice _ _ _); [lia|exact I].
  - destruct (mp_rd data pos); [|exact I]. destruct (mp_rd _ _); [|exact I].
    destruct (negb _).
    + destruct (mp_process_aside s false); try exact I. destruct (mpl_mode _).
      * destruct (mp_sub _ _); [|exact I]. destruct (mp_slice _ _ _); exact I.
      * exact I.
    + destruct (_ =? _).
      * match goal with |- match ?x with _ => _ end => destruct x eqn:E end; try exact I.
        exfalso. exact (boundary_matched_not_break _ _ _ _ _ _ _ _ _ E).
      * specialize (IH data (mp_set_mpos s (S (mps_mpos s))) (pos + 1) sp drp). destruct (mp_bnd_loop _ _ _ _ _ _); try exact I. lia.
Qed.

Lemma switch_skip fuel data s p q sp drp :
  mps_state s = MpsData -> mps_cr s = false -> p <= q -> q <= length data ->
  (forall i, p <= i -> i < q -> exists x, nth_error data i = Some x /\ mp_plain x) ->
  mp_switch fuel data s p sp drp = mp_switch fuel data s q sp drp.
Proof.
  intros Hst Hcr Hpq Hq Hall. destruct fuel as [|f]; [reflexivity|]. cbn [mp_switch]. rewrite Hst.
  replace (length data - p) with ((q - p) + (length data - q)) by lia.
  rewrite (data_loop_skip (q - p) (length data - q) data s p sp drp Hcr).
  - replace (p + (q - p)) with q by lia. reflexivity.
  - intros i H1 H2. apply Hall; lia.
Qed.

Lemma skipn_slc_app (data : bytes) a b : a <= b -> b <= length data -> skipn a data = mp_slc data a b ++ skipn b data.
Proof.
  intros H1 H2. unfold mp_slc. rewrite <- (firstn_skipn (b - a) (skipn a data)) at 1. f_equal.
  rewrite skipn_skipn'. f_equal. lia.
Qed.

Lemma rm_data_end data s p d A :
  mp_rm data s p p d A -> mps_state s = MpsData -> mps_cr s = false -> mp_rm [] s 0 0 0 A.
Proof.
  intros HR Hst Hcr. destruct (rm_data_inv _ _ _ _ _ _ HR Hst) as (crp & reg & Hbp & Hm & Hpl & Hsp & Hpl' & Hfl).
  destruct Hfl as [(Hc & _)|(_ & Hslc & Hnc & Hnx)]; [congruence|].
  rewrite slc_nil in Hslc. symmetry in Hslc. apply app_eq_nil in Hslc. destruct Hslc as [-> Hc].
  assert (crp = false) by (destruct crp; [discriminate|reflexivity]). subst crp.
  apply RmData with (crp := false) (reg := []); try assumption; cbn; try lia.
  right. split; [exact Hcr|]. split; [reflexivity|]. split; [intros _; left; reflexivity|discriminate].
Qed.

Lemma data_loop_goto_state n : forall data s pos sp drp,
  match mp_data_loop n data s pos sp drp with MpGoto s' _ _ _ => mps_state s' = MpsBoundary | _ => True end.
Proof.
  induction n as [|n IH]; intros data s pos sp drp; cbn [mp_data_loop].
  - destruct (mp_sub pos sp); [|exact I]. destruct (mp_sub _ _); [|exact I]. destruct (mp_slice _ _ _); exact I.
  - unfold mp_rd. destruct (nth_error data pos) as [c|]; [|exact I].
    destruct (c =? CR)%N.
    + destruct (pos + 1 =? length data); [apply IH|].
      destruct (nth_error data (pos + 1)); [|exact I]. destruct (n0 =? LF)%N; [|apply IH].
      destruct (mp_sub _ _); [reflexivity|exact I].
    + destruct (c =? LF)%N; [|apply IH]. destruct (mp_sub _ _); [reflexivity|exact I].
Qed.

Lemma data_loop_not_ret n : forall data s pos sp drp,
  match mp_data_loop n data s pos sp drp with MpRet _ => False | _ => True end.
Proof.
  induction n as [|n IH]; intros data s pos sp drp; cbn [mp_data_loop].
  - destruct (mp_sub pos sp); [|exact I]. destruct (mp_sub _ _); [|exact I]. destruct (mp_slice _ _ _); exact I.
  - unfold mp_rd. destruct (nth_error data pos) as [c|]; [|exact I].
    destruct (c =? CR)%N.
    + destruct (pos + 1 =? length data); [apply IH|].
      destruct (nth_error data (pos + 1)); [|exact I]. destruct (n0 =? LF)%N; [|apply IH].
      destruct (mp_sub _ _); exact I.
    + destruct (c =? LF)%N; [|apply IH]. destruct (mp_sub _ _); exact I.
Qed.

Lemma fold_skipn_step (data : bytes) pos c A : nth_error data pos = Some c ->
  fold_left mp_astep (skipn pos data) A = fold_left mp_astep (skipn (pos + 1) data) (mp_astep A c).
Proof. intros H. rewrite (skipn_cons_nth data pos c H). reflexivity. Qed.

Lemma switch_sim fuel : forall data s pos sp drp A s',
  mp_base s A -> mp_rm data s pos sp drp A ->
  (mps_state s = MpsData -> mps_cr s = true -> nth_error data pos <> Some CR) ->
  (mp_is_single (mps_state s) -> pos < length data) ->
  ma_ok (fold_left mp_astep (skipn pos data) A) = true ->
  mp_switch fuel data s pos sp drp = MpOk s' ->
  let A' := fold_left mp_astep (skipn pos data) A in mp_base s' A' /\ mp_rm [] s' 0 0 0 A'.
Proof.
  induction fuel as [|fuel IH]; intros data s pos sp drp A s' HB HR Hhz Hsg Hok Hrun; [discriminate|].
  cbn [mp_switch] in Hrun. cbv zeta.
  assert (Hposle : pos <= length data).
  { destruct HR as [crp reg H1 H2 H3 H4 H5 H6|held k d eol H1 H2 H3 H4 H5 H6 H7 H8 H9 H10 H11 H12 H13|H1 H2 H3 H4 H5 H6]; assumption. }
  assert (Hsingle : mp_is_single (mps_state s) ->
            match mp_single data s pos sp drp with
            | MpErr => MpFault | MpRet s'0 => MpOk s'0
            | MpGoto s'0 p' sp' d' => mp_switch fuel data s'0 p' sp' d'
            | MpBreak s'0 p' sp' d' => if p' <? length data then mp_switch fuel data s'0 p' sp' d' else MpOk s'0
            end = MpOk s' ->
            mp_base s' (fold_left mp_astep (skipn pos data) A) /\ mp_rm [] s' 0 0 0 (fold_left mp_astep (skipn pos data) A)).
  { intros Hs Hrun'. specialize (Hsg Hs).
    destruct (nth_error data pos) as [c|] eqn:Ec; [|apply nth_error_None in Ec; lia].
    pose proof (single_sim data s pos sp drp A c HB HR Hs Ec) as HS.
    destruct (mp_single data s pos sp drp) as [s1 p1 sp1 d1|s1 p1 sp1 d1|s1|]; try contradiction; try discriminate.
    destruct HS as (A1 & Hcase & HB1 & HR1 & Hcr1 & Hnb1 & Hsp1).
    assert (Hfold : fold_left mp_astep (skipn pos data) A = fold_left mp_astep (skipn p1 data) A1).
    { destruct Hcase as [(-> & Heq)|(-> & ->)].
      - rewrite !(fold_skipn_step data pos c) by exact Ec. rewrite Heq. reflexivity.
      - apply fold_skipn_step. exact Ec. }
    rewrite Hfold in Hok |- *.
    destruct (p1 <? length data) eqn:El.
    - apply Nat.ltb_lt in El. apply (IH data s1 p1 sp1 d1 A1 s' HB1 HR1); try assumption.
      + intros _ HH. congruence.
      + intros _. exact El.
    - apply Nat.ltb_ge in El. injection Hrun' as <-.
      assert (Hp1 : p1 = length data) by (destruct Hcase as [(-> & _)|(-> & _)]; lia).
      replace (skipn p1 data) with (@nil N) by (symmetry; apply skipn_all2; lia). cbn [fold_left].
      split; [exact HB1|].
      destruct (mps_state s1) eqn:Est1.
      + exfalso. destruct HR1 as [crp reg H1|held k d eol H1|H1]; try congruence. rewrite Est1 in H1. destruct (ma_m A1); contradiction.
      + rewrite (Hsp1 eq_refl) in HR1. apply (rm_data_end data s1 p1 d1 A1 HR1 Est1 Hcr1).
      + congruence.
      + apply (rm_single_any data [] s1 p1 sp1 d1 0 0 0 A1 HR1); [rewrite Est1; unfold mp_is_single; tauto|lia|cbn; lia].
      + apply (rm_single_any data [] s1 p1 sp1 d1 0 0 0 A1 HR1); [rewrite Est1; unfold mp_is_single; tauto|lia|cbn; lia].
      + apply (rm_single_any data [] s1 p1 sp1 d1 0 0 0 A1 HR1); [rewrite Est1; unfold mp_is_single; tauto|lia|cbn; lia].
      + apply (rm_single_any data [] s1 p1 sp1 d1 0 0 0 A1 HR1); [rewrite Est1; unfold mp_is_single; tauto|lia|cbn; lia]. }
  destruct (mps_state s) eqn:Est.
  - (* STATE_INIT is not related to anything *)
    exfalso. destruct HR as [crp reg H1|held k d eol H1|H1]; try congruence. rewrite Est in H1. destruct (ma_m A); contradiction.
  - (* STATE_DATA *)
    pose proof (data_loop_sim (length data - pos) data s pos sp drp A ltac:(lia) HB HR Est (Hhz eq_refl) Hok) as HD.
    pose proof (data_loop_break_pos (length data - pos) data s pos sp drp) as HP.
    pose proof (data_loop_pos (length data - pos) data s pos sp drp) as HQ.
    pose proof (data_loop_goto_state (length data - pos) data s pos sp drp) as HG.
    pose proof (data_loop_not_ret (length data - pos) data s pos sp drp) as HN.
    destruct (mp_data_loop (length data - pos) data s pos sp drp) as [s1 p1 sp1 d1|s1 p1 sp1 d1|s1|]; try discriminate; try contradiction.
    + destruct HD as [HB1 HR1]. destruct HQ as [Hq1 Hq2].
      rewrite (skipn_slc_app data pos p1) in Hok |- * by lia. rewrite fold_left_app in Hok |- *.
      apply (IH data s1 p1 sp1 d1 _ s' HB1 HR1); try assumption.
      * intros HH. congruence.
      * intros [HH|[HH|[HH|HH]]]; congruence.
    + replace p1 with (length data) in Hrun by lia. rewrite Nat.ltb_irrefl in Hrun. injection Hrun as <-. exact HD.
  - (* STATE_BOUNDARY *)
    pose proof (bnd_loop_sim (length data - pos) data s pos sp drp A ltac:(lia) HB HR Est Hok) as HD.
    pose proof (bnd_loop_break_pos (length data - pos) data s pos sp drp) as HP.
    destruct (mp_bnd_loop (length data - pos) data s pos sp drp) as [s1 p1 sp1 d1|s1 p1 sp1 d1|s1|]; try discriminate.
    + destruct HD as [(Hst1 & Hq1 & Hq2 & HB1 & HR1)|(Hst1 & Hcr1 & q & c & Arel & Hq1 & Hq2 & Hq3 & Hq4 & HB1 & HR1 & Hpl)].
      * rewrite (skipn_slc_app data pos p1) in Hok |- * by lia. rewrite fold_left_app in Hok |- *.
        apply (IH data s1 p1 sp1 d1 _ s' HB1 HR1); try assumption.
        -- intros HH. congruence.
        -- intros _. exact Hq2.
      * assert (Hql : q < length data) by (apply nth_error_Some; congruence).
        rewrite (switch_skip fuel data s1 p1 q sp1 d1 Hst1 Hcr1 Hq3 ltac:(lia) Hpl) in Hrun.
        assert (Hfold : fold_left mp_astep (skipn pos data) A = fold_left mp_astep (skipn q data) Arel).
        { rewrite (skipn_slc_app data pos q) by lia. rewrite fold_left_app.
          rewrite !(fold_skipn_step data q c) by exact Hq2. rewrite Hq4. reflexivity. }
        rewrite Hfold in Hok |- *.
        apply (IH data s1 q sp1 d1 Arel s' HB1 HR1); try assumption.
        -- intros _ HH. congruence.
        -- intros [HH|[HH|[HH|HH]]]; congruence.
    + replace p1 with (length data) in Hrun by lia. rewrite Nat.ltb_irrefl in Hrun. injection Hrun as <-. exact HD.
    + injection Hrun as <-. exact HD.
  - apply Hsingle; [unfold mp_is_single; tauto|exact Hrun].
  - apply Hsingle; [unfold mp_is_single; tauto|exact Hrun].
  - apply Hsingle; [unfold mp_is_single; tauto|exact Hrun].
  - apply Hsingle; [unfold mp_is_single; tauto|exact Hrun].
Qed.

(* ------------------------------------------------------------------ one call *)
Definition mp_R (s : mp_state) (A : mp_ast) : Prop := mp_base s A /\ mp_rm [] s 0 0 0 A.

Lemma slc_empty a b : mp_slc [] a b = [].
Proof. unfold mp_slc. rewrite skipn_nil. apply firstn_nil. Qed.

Lemma rm_rebase data s A : mp_rm [] s 0 0 0 A -> mp_rm data s 0 0 0 A.
Proof.
  intros [crp reg H1 H2 H3 H4 H5 H6 H7|held k d eol H1 H2 H3 H4 H5 H6 H7 H8 H9 H10 H11 H12 H13 H14 H15|H1 H2 H3 H4 H5 H6].
  - apply RmData with (crp := crp) (reg := reg); try assumption; try lia.
    destruct H7 as [H7|(Ha & Hb & Hc & Hd)]; [left; exact H7|right].
    rewrite slc_nil in Hb |- *. split; [exact Ha|]. split; [exact Hb|]. split; [exact Hc|].
    intros ->. symmetry in Hb. apply app_eq_nil in Hb. destruct Hb as [_ Hb]. discriminate Hb.
  - apply RmBnd with (held := held) (k := k) (d := d) (eol := eol); try assumption; try lia; rewrite slc_nil in *; assumption.
  - apply RmSingle; try assumption; lia.
Qed.

Lemma parse_sim s A chunk s' :
  mp_R s A -> mp_cr_hazard_at s chunk = false -> ma_ok (fold_left mp_astep chunk A) = true ->
  mp_parse_r s chunk = MpOk s' -> mp_R s' (fold_left mp_astep chunk A).
Proof.
  intros [HB HR] Hhz Hok Hrun. unfold mp_parse_r in Hrun.
  destruct (0 <? length chunk) eqn:El.
  - apply Nat.ltb_lt in El.
    pose proof (switch_sim (4 * length chunk + 4) chunk s 0 0 0 A s' HB (rm_rebase chunk s A HR)) as H.
    cbn [skipn] in H. apply H; try assumption.
    + intros Hst Hcr Hc. unfold mp_cr_hazard_at in Hhz. rewrite Hcr, Hst in Hhz. destruct chunk as [|c0 r]; [discriminate|].
      cbn in Hc, Hhz. injection Hc as ->. discriminate.
    + intros _. exact El.
  - injection Hrun as <-. destruct chunk; [|cbn in El; discriminate]. split; assumption.
Qed.

(* ------------------------------------------------------------------ finalize *)
Lemma strip_eol_shape cr d eol : mp_eolshape cr d eol -> mp_strip_eol (d ++ eol) = d.
Proof.
  intros [(_ & -> & ->)|[(_ & -> & Hn)|[(_ & ->)|(_ & -> & ->)]]]; unfold mp_strip_eol.
  - reflexivity.
  - rewrite rev_app_distr. cbn [rev app]. change (LF =? LF)%N with true. cbv iota.
    destruct (rev d) as [|c2 r2] eqn:Er.
    + apply (f_equal (@rev N)) in Er. rewrite rev_involutive in Er. exact (eq_sym Er).
    + assert (Hd : d = rev r2 ++ [c2]) by (apply (f_equal (@rev N)) in Er; rewrite rev_involutive in Er; exact Er).
      assert (c2 <> CR) by (subst d; eapply nocr_last; exact Hn).
      destruct (c2 =? CR)%N eqn:E; [apply N.eqb_eq in E; congruence|]. rewrite <- Er. apply rev_involutive.
  - rewrite rev_app_distr. cbn [rev app]. change (LF =? LF)%N with true. change (CR =? CR)%N with true. cbv iota. apply rev_involutive.
  - reflexivity.
Qed.

Lemma release_core s A data pos sp drp held k d eol :
  mp_base s A -> mp_bndrel data s pos sp drp A held k d eol ->
  snd (mp_arelease (ma_b A) (ma_pl A) (ma_ok A) held k) = true ->
  let X := mp_crb s ++ d ++ eol in
  let P1 := mp_hd (mps_pl s) X true in
  fst (mp_arelease (ma_b A) (ma_pl A) (ma_ok A) held k) = mp_hd P1 (mp_matched (mps_boundary s) k) false /\
  mp_dupb (mps_pl s) = false /\ (mp_matched (mps_boundary s) k <> [] -> mp_dupb P1 = false).
Proof.
  intros HB R Hok X P1. destruct HB as [Hb Hf Hwf Hbok].
  destruct (shape_X s d eol held (br_held _ _ _ _ _ _ _ _ _ _ R) (br_shape _ _ _ _ _ _ _ _ _ _ R)) as (HX & Hnil & _).
  unfold mp_arelease in *.
  destruct (mp_ahd (ma_pl A) (ma_ok A) held true) as [pla oka] eqn:Ea.
  destruct (mp_ahd pla oka (mp_matched (ma_b A) k) false) as [plb okb] eqn:Eb.
  cbn [fst snd] in *. subst okb.
  pose proof (ahd_ok pla oka (mp_matched (ma_b A) k) false) as Hb2. rewrite Eb in Hb2. destruct (Hb2 eq_refl) as [-> Hd2].
  pose proof (ahd_ok (ma_pl A) (ma_ok A) held true) as Ha2. rewrite Ea in Ha2. destruct (Ha2 eq_refl) as [_ Hd1].
  unfold mp_ahd in Ea, Eb. injection Ea as <- _. injection Eb as <- _.
  assert (Hd0 : mp_dupb (mps_pl s) = false).
  { destruct Hd1 as [Hd1|Hd1].
    - apply (br_init _ _ _ _ _ _ _ _ _ _ R). apply Hnil. exact Hd1.
    - rewrite (br_pl _ _ _ _ _ _ _ _ _ _ R) in Hd1. destruct (mp_dupb (mps_pl s)) eqn:E; [|reflexivity].
      rewrite (mp_dupb_hd _ d E) in Hd1. discriminate. }
  assert (HP1 : mp_hd (ma_pl A) held true = P1).
  { rewrite (br_pl _ _ _ _ _ _ _ _ _ _ R). subst P1 X. rewrite <- HX.
    destruct held as [|h0 held'].
    - rewrite app_nil_r. destruct (Hnil eq_refl) as [-> HX0]. rewrite app_nil_r in HX.
      assert (d = []) by (destruct (br_shape _ _ _ _ _ _ _ _ _ _ R) as [(_ & _ & ->)|[(_ & H & _)|[(_ & H)|(_ & H & _)]]]; try discriminate H; reflexivity).
      subst d. reflexivity.
    - apply mp_hd_split_line; [exact Hd0|discriminate]. }
  rewrite HP1, Hb. split; [reflexivity|]. split; [exact Hd0|].
  intros Hne. destruct Hd2 as [Hd2|Hd2]; [rewrite Hb in Hd2; congruence|]. rewrite HP1 in Hd2. exact Hd2.
Qed.

(* process_aside at the end of input hands over exactly what the reference releases *)
Lemma pa_false_T s A held k d eol :
  mp_base s A -> mp_bndrel [] s 0 0 0 A held k d eol ->
  mp_dupb (mps_pl s) = false ->
  (mp_matched (mps_boundary s) k <> [] -> mp_dupb (mp_hd (mps_pl s) (mp_crb s ++ d ++ eol) true) = false) ->
  exists s1, mp_process_aside s false = MpOk s1 /\
    mps_pl s1 = mp_hd (mp_hd (mps_pl s) (mp_crb s ++ d ++ eol) true) (mp_matched (mps_boundary s) k) false /\
    mps_fault s1 = mps_fault s.
Proof.
  intros HB R Hd0 Hd1.
  set (X := mp_crb s ++ d ++ eol) in *. set (P1 := mp_hd (mps_pl s) X true) in *. set (M := mp_matched (mps_boundary s) k) in *.
  pose proof HB as [Hb Hf Hwf _].
  destruct (shape_X s d eol held (br_held _ _ _ _ _ _ _ _ _ _ R) (br_shape _ _ _ _ _ _ _ _ _ _ R)) as (HX & Hnil & Hcrne).
  pose proof (br_first _ _ _ _ _ _ _ _ _ _ R) as HF0. pose proof (br_rest _ _ _ _ _ _ _ _ _ _ R) as HM0.
  rewrite slc_nil, app_nil_r in HF0, HM0. fold M in HM0.
  destruct (mps_bpieces s) as [|p1 rest] eqn:Ebp.
  - (* nothing stored: the initial state *)
    cbn [concat] in HF0, HM0. rewrite firstn_nil in HF0. rewrite skipn_nil in HM0.
    symmetry in HF0. apply app_eq_nil in HF0. destruct HF0 as [-> ->].
    assert (Hcr : mps_cr s = false).
    { destruct (br_shape _ _ _ _ _ _ _ _ _ _ R) as [(H & _)|[(H & _)|[(H & _)|(_ & H & _)]]]; try exact H. discriminate H. }
    assert (HXn : X = []) by (subst X; unfold mp_crb; rewrite Hcr; reflexivity).
    subst P1. rewrite HXn, <- HM0. cbn [mp_hd].
    destruct (mpl_mode (mps_pl s)) eqn:Em.
    + rewrite (pa_false_line_nil s Em Ebp). eexists; split; [reflexivity|]. mp_fields. unfold mp_crb. rewrite Hcr. split; reflexivity.
    + rewrite (pa_false_data s Em Hd0). eexists; split; [reflexivity|]. mp_fields. unfold mp_crb. rewrite Hcr, Ebp. split; reflexivity.
  - destruct (br_cons _ _ _ _ _ _ _ _ _ _ R p1 rest Ebp) as (Hc1 & _ & _).
    assert (HF : firstn (mps_cand s) p1 = d ++ eol).
    { rewrite <- HF0. cbn [concat]. rewrite firstn_app_le by lia. reflexivity. }
    assert (HM : skipn (mps_cand s) p1 ++ concat rest = M).
    { rewrite <- HM0. cbn [concat]. rewrite skipn_app_le by lia. reflexivity. }
    destruct (mpl_mode (mps_pl s)) eqn:Em.
    + assert (Hd1' : mp_dupb (mp_hd (mps_pl s) (mp_crb s ++ firstn (mps_cand s) p1) true) = false \/ skipn (mps_cand s) p1 ++ concat rest = []).
      { destruct (skipn (mps_cand s) p1 ++ concat rest) as [|y ys] eqn:EP2; [right; reflexivity|left].
        rewrite HF. apply Hd1. rewrite <- HM. discriminate. }
      rewrite (pa_false_line_cons s p1 rest Em Ebp Hc1 Hd0 ltac:(intros HH; rewrite HF; apply Hcrne; exact HH) Hd1').
      eexists; split; [reflexivity|]. mp_fields. rewrite HF, HM. split; reflexivity.
    + rewrite (pa_false_data s Em Hd0). eexists; split; [reflexivity|]. mp_fields. rewrite Ebp. split; [|reflexivity].
      assert (Hcurs : mpl_cur (mps_pl s) <> None) by (intros HH; specialize (Hwf HH); congruence).
      subst P1. rewrite (mp_hd_line_irrelevant (mps_pl s) X) by (left; tauto).
      rewrite mp_hd_split_nl by exact Hd0. rewrite <- HM. subst X. cbn [concat]. rewrite <- (firstn_skipn (mps_cand s) p1) at 1.
      rewrite HF. rewrite <- !app_assoc. reflexivity.
Qed.

Definition mp_fin_tail (pl1 : mp_pl) : mp_pl :=
  match mpl_cur pl1 with
  | None => pl1
  | Some p =>
    let pl2 := mp_finalize_data pl1 p in
    match mpl_cur pl2 with
    | Some q => (match mpp_type q with MpEpilogue => pl2 | _ => mp_pl_flag pl2 c_mp_INCOMPLETE end)
    | None => pl2
    end
  end.

Lemma pa_false_nil s : mps_bpieces s = [] ->
  exists s1, mp_process_aside s false = MpOk s1 /\ mps_pl s1 = mp_hd (mps_pl s) (mp_crb s) false /\ mps_fault s1 = mps_fault s.
Proof.
  intros Hb. unfold mp_process_aside, mp_crb. cbn [orb negb andb]. cbv zeta.
  destruct (mpl_mode (mps_pl s)); destruct (mps_cr s); mp_fields; rewrite ?Hb; cbn [fold_left]; eexists; (split; [reflexivity|]); mp_fields; split; reflexivity.
Qed.

Lemma finalize_r_tail s s1 :
  mpl_cur (mps_pl s) <> None -> mp_process_aside s false = MpOk s1 -> mps_fault s1 = mps_fault s ->
  exists s', mp_finalize_r s = MpOk s' /\ mps_pl s' = mp_fin_tail (mps_pl s1) /\ mps_fault s' = mps_fault s.
Proof.
  intros Hc Hpa Hf. unfold mp_finalize_r. destruct (mpl_cur (mps_pl s)); [|congruence]. rewrite Hpa.
  unfold mp_fin_tail. destruct (mpl_cur (mps_pl s1)); eexists; (split; [reflexivity|]); mp_fields; split; try reflexivity; exact Hf.
Qed.

Lemma finalize_sim s A s' :
  mp_R s A -> mp_tail_okb s = true -> snd (mp_afinal A) = true -> mp_finalize_r s = MpOk s' ->
  mp_obs s' = mp_aobs (fst (mp_afinal A)).
Proof.
  intros [HB HR] Htail Hok Hrun.
  assert (Hgoal : mps_pl s' = fst (mp_afinal A) /\ mps_fault s' = false).
  { pose proof HB as [Hb Hf Hwf Hbok].
    destruct HR as [crp reg H1 H2 H3 H4 H5 H6 H7|held k d eol H1 H2 H3 H4 H5 H6 H7 H8 H9 H10 H11 H12 H13 H14 H15|H1 H2 H3 H4 H5 H6].
    - (* STATE_DATA *)
      assert (Hreg : reg = [] /\ crp = mps_cr s).
      { destruct H7 as [(Ha & Hb' & _ & Hd)|(Ha & Hb' & _ & _)]; [split; congruence|].
        rewrite slc_nil in Hb'. symmetry in Hb'. apply app_eq_nil in Hb'. destruct Hb' as [-> Hc]. split; [reflexivity|].
        destruct crp; [discriminate|congruence]. }
      destruct Hreg as [-> ->]. cbn [mp_hd] in H4.
      unfold mp_afinal in *. rewrite H4 in *. 
      destruct (mpl_cur (mps_pl s)) as [p|] eqn:Ec.
      + destruct (pa_false_nil s H2) as (s1 & Epa & Hpl1 & Hf1).
        destruct (finalize_r_tail s s1 ltac:(congruence) Epa Hf1) as (s2 & E2 & Hpl2 & Hf2).
        rewrite E2 in Hrun. injection Hrun as <-. rewrite Hpl2, Hf2. split; [|exact Hf].
        rewrite H3. unfold mp_fin_tail. rewrite Hpl1. unfold mp_crb.
        destruct (mps_cr s); cbn [mp_ahd fst snd]; rewrite ?mp_hd_nil; (match goal with |- match ?x with _ => _ end = _ => destruct x end); reflexivity.
      + unfold mp_finalize_r in Hrun. rewrite Ec in Hrun. injection Hrun as <-. mp_fields. split; [reflexivity|exact Hf].
    - (* STATE_BOUNDARY *)
      assert (R : mp_bndrel [] s 0 0 0 A held k d eol) by (split; assumption).
      pose proof (br_first _ _ _ _ _ _ _ _ _ _ R) as HF0. rewrite slc_nil, app_nil_r in HF0.
      unfold mp_afinal in *.
      destruct (mpl_cur (mps_pl s)) as [p|] eqn:Ec.
      + assert (HcA : exists q, mpl_cur (ma_pl A) = Some q).
        { rewrite H10. destruct d as [|d0 d']; [cbn; eauto|apply mp_hd_cur; discriminate]. }
        destruct HcA as (q & HcA). rewrite HcA in *. rewrite H2 in *.
        destruct (mp_arelease (ma_b A) (ma_pl A) (ma_ok A) held k) as [pl1 ok1] eqn:Erel.
        assert (Hok1 : ok1 = true).
        { destruct (mpl_cur pl1); cbn [snd] in Hok; exact Hok. }
        pose proof (release_core s A [] 0 0 0 held k d eol HB R) as HC. rewrite Erel in HC. cbn [fst snd] in HC.
        destruct (HC Hok1) as (Hpl1 & Hd0 & Hd1).
        destruct (pa_false_T s A held k d eol HB R Hd0 Hd1) as (s1 & Epa & Hpls1 & Hf1).
        destruct (finalize_r_tail s s1 ltac:(congruence) Epa Hf1) as (s2 & E2 & Hpl2 & Hf2).
        rewrite E2 in Hrun. injection Hrun as <-. rewrite Hpl2, Hf2. split; [|exact Hf].
        unfold mp_fin_tail. rewrite Hpls1, <- Hpl1. destruct (mpl_cur pl1); reflexivity.
      + (* no part yet: K2 excluded, so nothing was handed over on the reference side either *)
        assert (Hd : d = []).
        { unfold mp_tail_okb in Htail. rewrite Ec in Htail. destruct (mps_bpieces s) as [|p1 rest] eqn:Ebp.
          - cbn in HF0. rewrite firstn_nil in HF0. symmetry in HF0. apply app_eq_nil in HF0. tauto.
          - destruct (H15 p1 rest eq_refl) as (Hc1 & _).
            assert (HFp : firstn (mps_cand s) p1 = d ++ eol) by (rewrite <- HF0; cbn [concat]; rewrite firstn_app_le by lia; reflexivity).
            rewrite HFp, (strip_eol_shape _ _ _ H9) in Htail. destruct d; [reflexivity|discriminate]. }
        subst d. cbn [mp_hd] in H10. rewrite H10, Ec in *.
        unfold mp_finalize_r in Hrun. rewrite Ec in Hrun. injection Hrun as <-. mp_fields. split; [reflexivity|exact Hf].
    - (* after a delimiter *)
      unfold mp_afinal in *. rewrite H4 in *.
      destruct (mpl_cur (mps_pl s)) as [p|] eqn:Ec.
      + destruct (pa_false_nil s H2) as (s1 & Epa & Hpl1 & Hf1).
        destruct (finalize_r_tail s s1 ltac:(congruence) Epa Hf1) as (s2 & E2 & Hpl2 & Hf2).
        rewrite E2 in Hrun. injection Hrun as <-. rewrite Hpl2, Hf2. split; [|exact Hf].
        unfold mp_fin_tail. rewrite Hpl1. unfold mp_crb. rewrite H3. cbn [mp_hd].
        destruct (mps_state s); destruct (ma_m A); try contradiction; cbn [fst]; destruct (mpl_cur (mps_pl s)); reflexivity.
      + unfold mp_finalize_r in Hrun. rewrite Ec in Hrun. injection Hrun as <-. mp_fields. split; [reflexivity|exact Hf]. }
  destruct Hgoal as [Hp Hf]. unfold mp_obs, mp_aobs, mp_parts, mp_aparts. rewrite Hp, Hf. reflexivity.
Qed.

(* ------------------------------------------------------------------ whole runs *)
Lemma init_R b f : mp_bnd_okb b = true -> mp_R (mp_init_flags b f) (mp_ainit b f).
Proof.
  intros Hb. split.
  - split; cbn; try reflexivity.
    + intros _. reflexivity.
    + exists b. split; [reflexivity|exact Hb].
  - apply RmBnd with (held := []) (k := 2) (d := []) (eol := []); cbn; try reflexivity; try lia;
      try (left; tauto); try (intros _; unfold mp_dupb; cbn; apply andb_false_r); try (intros p1 r HH; discriminate HH).
Qed.

Lemma afinal_ok a : snd (mp_afinal a) = true -> ma_ok a = true.
Proof.
  unfold mp_afinal. destruct (mpl_cur (ma_pl a)); [|exact (fun H => H)].
  destruct (ma_m a) as [[|]|held k| | | |].
  - destruct (mp_ahd (ma_pl a) (ma_ok a) [CR] false) as [pl1 ok1] eqn:E. intros H.
    assert (ok1 = true) by (destruct (mpl_cur pl1); exact H). subst ok1.
    pose proof (ahd_ok (ma_pl a) (ma_ok a) [CR] false) as H2. rewrite E in H2. apply H2. reflexivity.
  - intros H. destruct (mpl_cur (ma_pl a)); exact H.
  - destruct (mp_arelease (ma_b a) (ma_pl a) (ma_ok a) held k) as [pl1 ok1] eqn:E. intros H.
    assert (ok1 = true) by (destruct (mpl_cur pl1); exact H). subst ok1.
    pose proof (arelease_ok (ma_b a) (ma_pl a) (ma_ok a) held k) as H2. rewrite E in H2. apply H2. reflexivity.
  - intros H. destruct (mpl_cur (ma_pl a)); exact H.
  - intros H. destruct (mpl_cur (ma_pl a)); exact H.
  - intros H. destruct (mpl_cur (ma_pl a)); exact H.
  - intros H. destruct (mpl_cur (ma_pl a)); exact H.
Qed.

Lemma fold_sim chunks : forall s A,
  mp_inv' s -> mp_R s A -> mp_no_cr_hazard_from s chunks = true ->
  ma_ok (fold_left mp_astep (concat chunks) A) = true ->
  mp_inv' (fold_left mp_parse chunks s) /\ mp_R (fold_left mp_parse chunks s) (fold_left mp_astep (concat chunks) A).
Proof.
  induction chunks as [|c r IH]; intros s A Hi HR Hhz Hok; cbn [fold_left concat] in *; [tauto|].
  rewrite fold_left_app in Hok |- *.
  apply andb_true_iff in Hhz. destruct Hhz as [Hh1 Hh2]. apply negb_true_iff in Hh1.
  pose proof Hi as [Hinv Hni]. pose proof Hinv as (Hf & _).
  destruct (parse_r_ok s c Hinv Hni) as (s1 & E1 & _).
  assert (Hp : mp_parse s c = s1) by (unfold mp_parse; rewrite Hf, E1; reflexivity).
  rewrite Hp in *.
  apply IH; try assumption.
  - rewrite <- Hp. apply parse_inv'. exact Hi.
  - apply (parse_sim s A c s1 HR Hh1); [|exact E1]. eapply afold_ok. exact Hok.
Qed.

Theorem mp_chunking_reference : forall b f chunks,
  mp_bnd_okb b = true -> mp_body_okb b f (concat chunks) = true -> mp_no_cr_hazardb b f chunks = true ->
  mp_tail_okb (fold_left mp_parse chunks (mp_init_flags b f)) = true ->
  mp_obs (mp_finalize (fold_left mp_parse chunks (mp_init_flags b f))) = mp_aobs (fst (mp_aref b f (concat chunks))).
Proof.
  intros b f chunks Hb Hbody Hcr Htail.
  unfold mp_body_okb, mp_aref in *.
  set (A := fold_left mp_astep (concat chunks) (mp_ainit b f)) in *.
  assert (HokA : ma_ok A = true) by (apply afinal_ok; exact Hbody).
  destruct (fold_sim chunks (mp_init_flags b f) (mp_ainit b f) (init_inv' b f) (init_R b f Hb) Hcr HokA) as [Hi HR].
  fold A in HR. set (st := fold_left mp_parse chunks (mp_init_flags b f)) in *.
  destruct Hi as [Hinv _]. pose proof Hinv as (Hf & _).
  destruct (finalize_r_ok st Hinv) as (s' & E & _).
  unfold mp_finalize. rewrite Hf, E.
  apply (finalize_sim st A s' HR Htail Hbody E).
Qed.

(* C14 (b): chunked delivery and whole delivery are observed identically, under the premises *)
Theorem mp_byte_refinement_partial : forall b f chunks,
  mp_premb b f chunks = true ->
  mp_obs (mp_finalize (fold_left mp_parse chunks (mp_init_flags b f))) =
  mp_obs (mp_finalize (mp_parse (mp_init_flags b f) (concat chunks))).
Proof.
  intros b f chunks H. unfold mp_premb in H.
  repeat (apply andb_true_iff in H; destruct H as [H ?]).
  rewrite (mp_chunking_reference b f chunks) by assumption.
  pose proof (mp_chunking_reference b f [concat chunks]) as HW. cbn [concat fold_left] in HW. rewrite app_nil_r in HW.
  rewrite HW; try assumption; [reflexivity|].
  unfold mp_no_cr_hazardb, mp_no_cr_hazard_from, mp_cr_hazard_at. reflexivity.
Qed.
