(* C14 (b): every chunked run of the model is related, call by call, to the byte-level reference run of
   Spec/SMultipart.v; hence the observation after finalize does not depend on the chunking (under the premises). *)
Require Import Htp.Model.Base Htp.Model.MBstr Htp.Model.MMultipart Htp.Spec.SMultipart.
Require Import Htp.Proof.PMultipartSafe Htp.Proof.PMultipartHd.
Require Import Lia.

(* ------------------------------------------------------------------ slices *)
Definition mp_slc (d : bytes) (a b : nat) : bytes := firstn (b - a) (skipn a d).

Lemma skipn_skipn' {A} (x y : nat) (l : list A) : skipn x (skipn y l) = skipn (y + x) l.
Proof. revert l. induction y as [|y IH]; intros l; [reflexivity|]. destruct l; [destruct x; reflexivity|]. cbn. apply IH. Qed.

Lemma slc_nil d a : mp_slc d a a = [].
Proof. unfold mp_slc. rewrite Nat.sub_diag. reflexivity. Qed.

Lemma slc_app d a b c : a <= b -> b <= c -> c <= length d -> mp_slc d a c = mp_slc d a b ++ mp_slc d b c.
Proof.
  intros Hab Hbc Hc. unfold mp_slc.
  replace (c - a) with ((b - a) + (c - b)) by lia.
  rewrite <- (firstn_skipn (b - a) (firstn (b - a + (c - b)) (skipn a d))).
  rewrite firstn_firstn. replace (Nat.min (b - a) (b - a + (c - b))) with (b - a) by lia.
  f_equal. rewrite skipn_firstn_comm. replace (b - a + (c - b) - (b - a)) with (c - b) by lia.
  rewrite skipn_skipn'. replace (a + (b - a)) with b by lia. reflexivity.
Qed.

Lemma slc_one d i c : nth_error d i = Some c -> mp_slc d i (i + 1) = [c].
Proof.
  intros H. unfold mp_slc. replace (i + 1 - i) with 1 by lia.
  revert i H. induction d as [|x d IH]; intros [|i] H; cbn in *; try discriminate.
  - injection H as ->. reflexivity.
  - apply IH. exact H.
Qed.

Lemma slc_length d a b : a <= b -> b <= length d -> length (mp_slc d a b) = b - a.
Proof. intros. unfold mp_slc. rewrite firstn_length, skipn_length. lia. Qed.

Lemma slice_slc d a n : a + n <= length d -> mp_slice d a n = Some (mp_slc d a (a + n)).
Proof. intros H. rewrite slice_some by exact H. unfold mp_slc. replace (a + n - a) with n by lia. reflexivity. Qed.

Lemma slc_whole d : mp_slc d 0 (length d) = d.
Proof. unfold mp_slc. cbn. rewrite Nat.sub_0_r. apply firstn_all. Qed.

Lemma slc_snoc d a i c : a <= i -> nth_error d i = Some c -> mp_slc d a (i + 1) = mp_slc d a i ++ [c].
Proof.
  intros Ha H. assert (i < length d) by (apply nth_error_Some; congruence).
  rewrite (slc_app d a i (i + 1)) by lia. rewrite (slc_one d i c H). reflexivity.
Qed.

(* ------------------------------------------------------------------ the reference run: bookkeeping *)
Lemma ahd_ok pl ok d l : snd (mp_ahd pl ok d l) = true -> ok = true /\ (d = [] \/ mp_dupb pl = false).
Proof.
  unfold mp_ahd. cbn [snd]. intros H. apply andb_true_iff in H. destruct H as [H1 H2]. split; [exact H1|].
  apply orb_true_iff in H2. destruct H2 as [H2|H2]; [left; destruct d; [reflexivity|discriminate]|right].
  destruct (mp_dupb pl); [discriminate|reflexivity].
Qed.

Lemma astep_data_ok b pl ok crp c : ma_ok (mp_astep_data b pl ok crp c) = true -> ok = true.
Proof.
  unfold mp_astep_data. destruct (c =? CR)%N.
  - destruct crp.
    + destruct (mp_ahd pl ok [CR] false) as [pl1 ok1] eqn:E. cbn. intros ->.
      pose proof (ahd_ok pl ok [CR] false) as H. rewrite E in H. apply H. reflexivity.
    + cbn. tauto.
  - destruct (c =? LF)%N; [cbn; tauto|].
    destruct (mp_ahd pl ok (if crp then [CR; c] else [c]) false) as [pl1 ok1] eqn:E. cbn. intros ->.
    pose proof (ahd_ok pl ok (if crp then [CR; c] else [c]) false) as H. rewrite E in H. apply H. reflexivity.
Qed.

Lemma arelease_ok b pl ok held k : snd (mp_arelease b pl ok held k) = true -> ok = true.
Proof.
  unfold mp_arelease. destruct (mp_ahd pl ok held true) as [pl1 ok1] eqn:E.
  intros H. apply ahd_ok in H. destruct H as [-> _].
  pose proof (ahd_ok pl ok held true) as H. rewrite E in H. apply H. reflexivity.
Qed.

Lemma astep_ok a c : ma_ok (mp_astep a c) = true -> ma_ok a = true.
Proof.
  unfold mp_astep. cbv zeta. destruct (ma_m a).
  - apply astep_data_ok.
  - destruct (c =? _)%N.
    + destruct (S k =? _); cbn; [intros H; apply andb_true_iff in H; tauto|tauto].
    + destruct (mp_arelease (ma_b a) (ma_pl a) (ma_ok a) held k) as [pl1 ok1] eqn:E.
      intros H. apply astep_data_ok in H. subst ok1.
      pose proof (arelease_ok (ma_b a) (ma_pl a) (ma_ok a) held k) as H. rewrite E in H. apply H. reflexivity.
  - mp_break; cbn; tauto.
  - mp_break; cbn; tauto.
  - mp_break; cbn; tauto.
  - mp_break; cbn; tauto.
Qed.

Lemma afold_ok xs : forall a, ma_ok (fold_left mp_astep xs a) = true -> ma_ok a = true.
Proof. induction xs as [|x xs IH]; intros a H; cbn in *; [exact H|]. apply astep_ok with x. apply IH. exact H. Qed.

Lemma astep_b a c : ma_b (mp_astep a c) = ma_b a.
Proof.
  unfold mp_astep, mp_astep_data, mp_arelease. cbv zeta.
  destruct (ma_m a); mp_break; reflexivity.
Qed.

(* ------------------------------------------------------------------ the relation *)
Definition mp_nocr_end (r : bytes) : Prop := r = [] \/ last r 0%N <> CR.

Record mp_base (s : mp_state) (A : mp_ast) : Prop := mk_mp_base {
  mb_b : ma_b A = mps_boundary s;
  mb_fault : mps_fault s = false;
  mb_wf : mp_plwf (mps_pl s);
  mb_bok : exists b, mps_boundary s = [CR; LF; mp_DASH; mp_DASH] ++ b /\ mp_bnd_okb b = true
}.

(* shape of a boundary candidate: data d, then the line ending under test (none at the very start) *)
Definition mp_eolshape (cr : bool) (d eol : bytes) : Prop :=
  (cr = false /\ eol = [] /\ d = []) \/ (cr = false /\ eol = [LF] /\ mp_nocr_end d) \/
  (cr = false /\ eol = [CR; LF]) \/ (cr = true /\ eol = [LF] /\ d = []).

Definition mp_single_corr (st : mp_pstate) (m : mp_am) : Prop :=
  match st, m with
  | MpsIsLast2, AmIsLast2 | MpsIsLast1, AmIsLast1 | MpsEatLws, AmEatLws | MpsEatLwsCr, AmEatLwsCr => True
  | _, _ => False
  end.

Inductive mp_rm (data : bytes) (s : mp_state) (pos sp drp : nat) (A : mp_ast) : Prop :=
| RmData (crp : bool) (reg : bytes) :
    mps_state s = MpsData -> mps_bpieces s = [] -> ma_m A = AmData crp ->
    ma_pl A = mp_hd (mps_pl s) reg false ->
    sp <= pos -> pos <= length data ->
    ((mps_cr s = true /\ crp = true /\ pos = sp /\ reg = []) \/
     (mps_cr s = false /\ mp_slc data sp pos = reg ++ (if crp then [CR] else []) /\
      (crp = false -> mp_nocr_end reg) /\
      (crp = true -> exists c, nth_error data pos = Some c /\ c <> LF))) ->
    mp_rm data s pos sp drp A
| RmBnd (held : bytes) (k : nat) (d eol : bytes) :
    mps_state s = MpsBoundary -> ma_m A = AmBnd held k -> mps_mpos s = k ->
    2 <= k -> k < length (mps_boundary s) ->
    firstn (mps_cand s) (concat (mps_bpieces s) ++ mp_slc data sp pos) = d ++ eol ->
    skipn (mps_cand s) (concat (mps_bpieces s) ++ mp_slc data sp pos) = mp_matched (mps_boundary s) k ->
    held = (if mps_cr s then [CR] else []) ++ eol -> mp_eolshape (mps_cr s) d eol ->
    ma_pl A = mp_hd (mps_pl s) d false ->
    sp <= pos -> pos <= length data ->
    (mps_bpieces s = [] -> mps_cand s + sp = drp /\ sp <= drp /\ drp <= pos) ->
    (forall (p1 : bytes) (r : list bytes), mps_bpieces s = p1 :: r -> mps_cand s <= length p1 /\ sp = 0 /\ drp = 0) ->
    mp_rm data s pos sp drp A
| RmSingle :
    mp_single_corr (mps_state s) (ma_m A) -> mps_bpieces s = [] -> mps_cr s = false -> ma_pl A = mps_pl s ->
    sp <= pos -> pos <= length data ->
    mp_rm data s pos sp drp A.

(* handing x after reg on the reference side, when the step was accepted by the premise *)
Lemma ahd_after pl reg ok x l :
  snd (mp_ahd (mp_hd pl reg false) ok x l) = true -> x <> [] ->
  fst (mp_ahd (mp_hd pl reg false) ok x l) = mp_hd pl (reg ++ x) l /\ mp_dupb pl = false.
Proof.
  intros H Hx. apply ahd_ok in H. destruct H as [_ [H|H]]; [congruence|].
  assert (Hd : mp_dupb pl = false).
  { destruct (mp_dupb pl) eqn:E; [|reflexivity]. rewrite (mp_dupb_hd pl reg E) in H. discriminate. }
  split; [|exact Hd]. cbn [mp_ahd fst].
  destruct reg as [|r0 reg]; [reflexivity|].
  apply mp_hd_split; [exact Hd|discriminate|exact Hx].
Qed.

Lemma skipn_cons_nth (d : bytes) i c : nth_error d i = Some c -> skipn i d = c :: skipn (i + 1) d.
Proof.
  revert i. induction d as [|x d IH]; intros [|i] H; cbn in *; try discriminate.
  - injection H as ->. reflexivity.
  - apply IH. exact H.
Qed.

Lemma slc_cons_nth (d : bytes) i j c : nth_error d i = Some c -> i < j -> mp_slc d i j = c :: mp_slc d (i + 1) j.
Proof.
  intros H Hj. unfold mp_slc. rewrite (skipn_cons_nth d i c H).
  replace (j - i) with (S (j - (i + 1))) by lia. reflexivity.
Qed.

Lemma nocr_end_snoc r c : c <> CR -> mp_nocr_end (r ++ [c]).
Proof. intros H. right. rewrite last_last. exact H. Qed.

Lemma base_shd s A d l pl' m' ok' :
  mp_base s A -> mp_base (mp_shd s d l) (mk_mp_ast (ma_b A) pl' m' ok').
Proof.
  intros [H1 H2 H3 H4]. split; cbn; try assumption. apply mp_plwf_hd. exact H3.
Qed.

Lemma rm_data_inv data s pos sp drp A :
  mp_rm data s pos sp drp A -> mps_state s = MpsData ->
  exists crp reg, mps_bpieces s = [] /\ ma_m A = AmData crp /\ ma_pl A = mp_hd (mps_pl s) reg false /\
    sp <= pos /\ pos <= length data /\
    ((mps_cr s = true /\ crp = true /\ pos = sp /\ reg = []) \/
     (mps_cr s = false /\ mp_slc data sp pos = reg ++ (if crp then [CR] else []) /\
      (crp = false -> mp_nocr_end reg) /\
      (crp = true -> exists c, nth_error data pos = Some c /\ c <> LF))).
Proof.
  intros [crp reg H1 H2 H3 H4 H5 H6 H7|held k d eol H1|H1] Hs.
  - exists crp, reg. tauto.
  - congruence.
  - rewrite Hs in H1. destruct (ma_m A); contradiction.
Qed.

(* the reference side of one DATA byte, in terms of what has been handed over *)
Lemma astep_data_cr b pl reg ok crp :
  let a := mp_astep_data b (mp_hd pl reg false) ok crp CR in
  ma_ok a = true ->
  ma_b a = b /\ ma_m a = AmData true /\ ma_pl a = mp_hd pl (reg ++ (if crp then [CR] else [])) false.
Proof.
  unfold mp_astep_data. change (CR =? CR)%N with true. cbv iota. destruct crp.
  - destruct (mp_ahd (mp_hd pl reg false) ok [CR] false) as [pl1 ok1] eqn:E. cbn. intros ->.
    pose proof (ahd_after pl reg ok [CR] false) as H. rewrite E in H. destruct (H eq_refl ltac:(discriminate)) as [H1 _].
    cbn in H1. subst pl1. tauto.
  - cbn. rewrite app_nil_r. tauto.
Qed.

Lemma astep_data_other b pl reg ok crp c :
  (c =? CR)%N = false -> (c =? LF)%N = false ->
  let a := mp_astep_data b (mp_hd pl reg false) ok crp c in
  ma_ok a = true ->
  ma_b a = b /\ ma_m a = AmData false /\ ma_pl a = mp_hd pl (reg ++ (if crp then [CR; c] else [c])) false /\ mp_dupb pl = false.
Proof.
  intros E1 E2. unfold mp_astep_data. rewrite E1, E2.
  destruct (mp_ahd (mp_hd pl reg false) ok (if crp then [CR; c] else [c]) false) as [pl1 ok1] eqn:E. cbn. intros ->.
  pose proof (ahd_after pl reg ok (if crp then [CR; c] else [c]) false) as H. rewrite E in H.
  destruct (H eq_refl ltac:(destruct crp; discriminate)) as [H1 H2]. cbn in H1. subst pl1. tauto.
Qed.

Lemma astep_data_lf b pl ok crp :
  let a := mp_astep_data b pl ok crp LF in
  ma_b a = b /\ ma_m a = AmBnd (if crp then [CR; LF] else [LF]) 2 /\
  ma_pl a = mp_pl_flag pl (if crp then c_mp_CRLF_LINE else c_mp_LF_LINE) /\ ma_ok a = ok.
Proof. unfold mp_astep_data. change (LF =? CR)%N with false. change (LF =? LF)%N with true. cbn. tauto. Qed.

Lemma astep_unfold_data a c crp : ma_m a = AmData crp -> mp_astep a c = mp_astep_data (ma_b a) (ma_pl a) (ma_ok a) crp c.
Proof. intros H. unfold mp_astep. rewrite H. reflexivity. Qed.

Lemma neqb_neq (a b : N) : (a =? b)%N = false -> a <> b.
Proof. apply N.eqb_neq. Qed.

(* ------------------------------------------------------------------ case STATE_DATA *)
Lemma data_loop_pos n : forall data s pos sp drp,
  match mp_data_loop n data s pos sp drp with
  | MpGoto _ p' _ _ => pos < p' /\ p' <= length data
  | _ => True
  end.
Proof.
  induction n as [|n IH]; intros data s pos sp drp; cbn [mp_data_loop].
  - destruct (mp_sub pos sp); [|exact I]. destruct (mp_sub _ _); [|exact I]. destruct (mp_slice _ _ _); exact I.
  - unfold mp_rd. destruct (nth_error data pos) as [c|] eqn:Ec; [|exact I].
    assert (pos < length data) by (apply nth_error_Some; congruence).
    destruct (c =? CR)%N.
    + destruct (pos + 1 =? length data).
      * specialize (IH data (mp_set_cr s true) (pos + 1) sp drp). destruct (mp_data_loop _ _ _ _ _ _); try exact I. lia.
      * destruct (nth_error data (pos + 1)) eqn:Ec2; [|exact I].
        assert (pos + 1 < length data) by (apply nth_error_Some; congruence).
        destruct (n0 =? LF)%N.
        -- destruct (mp_sub _ _); [lia|exact I].
        -- specialize (IH data (mp_set_cr s false) (pos + 1) sp drp). destruct (mp_data_loop _ _ _ _ _ _); try exact I. lia.
    + destruct (c =? LF)%N.
      * destruct (mp_sub _ _); [lia|exact I].
      * match goal with |- match mp_data_loop n data ?s1 _ _ _ with _ => _ end => specialize (IH data s1 (pos + 1) sp drp) end.
        destruct (mp_data_loop _ _ _ _ _ _); try exact I. lia.
Qed.

Lemma data_loop_sim n : forall data s pos sp drp A,
  pos + n = length data -> mp_base s A -> mp_rm data s pos sp drp A -> mps_state s = MpsData ->
  (mps_cr s = true -> nth_error data pos <> Some CR) ->
  ma_ok (fold_left mp_astep (skipn pos data) A) = true ->
  match mp_data_loop n data s pos sp drp with
  | MpBreak s' _ _ _ =>
      let A' := fold_left mp_astep (skipn pos data) A in mp_base s' A' /\ mp_rm [] s' 0 0 0 A'
  | MpGoto s' p' sp' d' =>
      let A' := fold_left mp_astep (mp_slc data pos p') A in mp_base s' A' /\ mp_rm data s' p' sp' d' A'
  | _ => True
  end.
Proof.
  induction n as [|n IH]; intros data s pos sp drp A Hn HB HR Hst Hhz Hok;
    destruct (rm_data_inv _ _ _ _ _ _ HR Hst) as (crp & reg & Hbp & Hm & Hpl & Hsp & Hpl' & Hfl); cbn [mp_data_loop].
  - (* end of the chunk *)
    rewrite sub_some by lia.
    destruct Hfl as [(Hcr & _ & Hps & _)|(Hcr & Hslc & Hnc & Hnx)].
    + rewrite Hcr. subst sp. rewrite Nat.sub_diag. cbn. exact I.
    + rewrite Hcr. cbn [mp_sub Nat.leb]. rewrite Nat.sub_0_r. rewrite slice_slc by lia.
      replace (sp + (pos - sp)) with pos by lia.
      replace (skipn pos data) with (@nil N) by (symmetry; apply skipn_all2; lia). cbn [fold_left].
      assert (Hcrp : crp = false).
      { destruct crp; [|reflexivity]. destruct (Hnx eq_refl) as (c & Hc & _).
        assert (nth_error data pos = None) by (apply nth_error_None; lia). congruence. }
      subst crp. rewrite app_nil_r in Hslc.
      split.
      * destruct HB as [H1 H2 H3 H4]. split; cbn; try assumption. apply mp_plwf_hd. exact H3.
      * apply RmData with (crp := false) (reg := []); cbn; try assumption; try lia.
        -- rewrite Hslc. exact Hpl.
        -- right. repeat split; try assumption; try reflexivity; [left; reflexivity|discriminate].
  - destruct (nth_error data pos) as [c|] eqn:Ec; unfold mp_rd; rewrite Ec; [|exact I].
    assert (Hlt : pos < length data) by (apply nth_error_Some; congruence).
    rewrite (skipn_cons_nth data pos c Ec) in Hok |- *. cbn [fold_left] in Hok |- *.
    assert (Hok1 : ma_ok (mp_astep A c) = true) by (eapply afold_ok; exact Hok).
    destruct (c =? CR)%N eqn:E1.
    + apply N.eqb_eq in E1. subst c.
      (* a set-aside CR followed by CR is the excluded hazard *)
      destruct Hfl as [(Hcr & _)|(Hcr & Hslc & Hnc & Hnx)]; [exfalso; apply (Hhz Hcr); reflexivity|].
      pose proof Hok1 as Hok1'. rewrite (astep_unfold_data A CR crp Hm), Hpl in Hok1'.
      destruct (astep_data_cr (ma_b A) (mps_pl s) reg (ma_ok A) crp Hok1') as (Hb1 & Hm1 & Hpl1).
      assert (HA1 : mp_astep A CR = mp_astep_data (ma_b A) (mp_hd (mps_pl s) reg false) (ma_ok A) crp CR)
        by (rewrite (astep_unfold_data A CR crp Hm), Hpl; reflexivity).
      rewrite <- HA1 in Hb1, Hm1, Hpl1. clear Hok1' HA1.
      destruct (pos + 1 =? length data) eqn:El.
      * (* CR is the last byte: set aside *)
        apply Nat.eqb_eq in El. assert (n = 0) by lia. subst n. cbn [mp_data_loop].
        rewrite sub_some by lia. cbn [mp_set_cr mps_cr]. rewrite sub_some by lia. rewrite slice_slc by lia.
        replace (sp + (pos + 1 - sp - 1)) with pos by lia.
        replace (skipn (pos + 1) data) with (@nil N) by (symmetry; apply skipn_all2; lia).
        cbn [fold_left].
        split.
        -- destruct HB as [H1 H2 H3 H4]. split; cbn; try assumption; try congruence. apply mp_plwf_hd. exact H3.
        -- apply RmData with (crp := true) (reg := []); cbn; try assumption; try lia.
           ++ rewrite Hpl1, <- Hslc. reflexivity.
           ++ left. tauto.
      * apply Nat.eqb_neq in El.
        destruct (nth_error data (pos + 1)) as [c2|] eqn:Ec2; [|exact I].
        assert (Hp1 : pos + 1 < length data) by (apply nth_error_Some; congruence).
        destruct (c2 =? LF)%N eqn:E2.
        -- (* CR LF: boundary test *)
           apply N.eqb_eq in E2. subst c2. rewrite sub_some by lia.
           rewrite (slc_cons_nth data pos (pos + 2) CR Ec) by lia.
           rewrite (slc_cons_nth data (pos + 1) (pos + 2) LF Ec2) by lia.
           replace (pos + 1 + 1) with (pos + 2) by lia. rewrite slc_nil. cbn [fold_left].
           rewrite (astep_unfold_data (mp_astep A CR) LF true Hm1).
           destruct (astep_data_lf (ma_b (mp_astep A CR)) (ma_pl (mp_astep A CR)) (ma_ok (mp_astep A CR)) true) as (Hb2 & Hm2 & Hpl2 & _).
           split.
           ++ destruct HB as [H1 H2 H3 H4]. split; cbn; try assumption; try congruence.
           ++ apply RmBnd with (held := [CR; LF]) (k := 2) (d := reg ++ (if crp then [CR] else [])) (eol := [CR; LF]);
                cbn [mp_to_boundary mp_sflag mp_set_pl mps_state mps_mpos mps_bpieces mps_cand mps_cr mps_boundary mps_pl];
                try assumption; try reflexivity; try lia.
              ** destruct HB as [_ _ _ (b & Hb & _)]. rewrite Hb. cbn. lia.
              ** rewrite Hbp. cbn [concat app]. rewrite (slc_app data sp pos (pos + 2)) by lia.
                 rewrite (slc_cons_nth data pos (pos + 2) CR Ec) by lia.
                 rewrite (slc_cons_nth data (pos + 1) (pos + 2) LF Ec2) by lia.
                 replace (pos + 1 + 1) with (pos + 2) by lia. rewrite slc_nil, Hslc.
                 apply firstn_all2. rewrite !app_length. rewrite <- app_length, <- Hslc, slc_length by lia. cbn. lia.
              ** rewrite Hbp. cbn [concat app]. unfold mp_matched. cbn [Nat.sub firstn].
                 apply skipn_all2. rewrite slc_length by lia. lia.
              ** rewrite Hcr. reflexivity.
              ** rewrite Hcr. right. right. left. tauto.
              ** rewrite Hpl2, Hpl1. rewrite mp_hd_flag by exact mp_neutral_crlf. reflexivity.
              ** intros p1 r Hp. rewrite Hbp in Hp. discriminate.
        -- (* CR x: stays data *)
           pose proof (data_loop_pos n data (mp_set_cr s false) (pos + 1) sp drp) as HP.
           specialize (IH data (mp_set_cr s false) (pos + 1) sp drp (mp_astep A CR) ltac:(lia)).
           assert (HB1 : mp_base (mp_set_cr s false) (mp_astep A CR))
             by (destruct HB as [H1 H2 H3 H4]; split; cbn; try assumption; congruence).
           assert (HR1 : mp_rm data (mp_set_cr s false) (pos + 1) sp drp (mp_astep A CR)).
           { apply RmData with (crp := true) (reg := reg ++ (if crp then [CR] else [])); cbn; try assumption; try lia.
             right. split; [reflexivity|]. split; [|split; [discriminate|]].
             + rewrite (slc_snoc data sp pos CR) by (try lia; exact Ec). rewrite Hslc. reflexivity.
             + intros _. exists c2. split; [exact Ec2|apply neqb_neq; exact E2]. }
           specialize (IH HB1 HR1 Hst ltac:(cbn; discriminate) Hok).
           destruct (mp_data_loop n data (mp_set_cr s false) (pos + 1) sp drp) as [s' p' sp' d'|s' p' sp' d'|s'|]; try exact I.
           ++ rewrite (slc_cons_nth data pos p' CR Ec) by lia. exact IH.
           ++ exact IH.
    + destruct (c =? LF)%N eqn:E2.
      * (* LF: boundary test *)
        apply N.eqb_eq in E2. subst c. rewrite sub_some by lia.
        rewrite (slc_cons_nth data pos (pos + 1) LF Ec) by lia. rewrite slc_nil. cbn [fold_left].
        rewrite (astep_unfold_data A LF crp Hm).
        destruct (astep_data_lf (ma_b A) (ma_pl A) (ma_ok A) crp) as (Hb2 & Hm2 & Hpl2 & _).
        split.
        -- destruct HB as [H1 H2 H3 H4]. split; cbn; try assumption; try congruence.
        -- destruct Hfl as [(Hcr & Hcrp & Hps & Hreg)|(Hcr & Hslc & Hnc & Hnx)].
           ++ (* the CR was set aside by the previous call *)
              subst crp reg sp.
              apply RmBnd with (held := [CR; LF]) (k := 2) (d := []) (eol := [LF]);
                cbn [mp_to_boundary mp_sflag mp_set_pl mps_state mps_mpos mps_bpieces mps_cand mps_cr mps_boundary mps_pl];
                try assumption; try reflexivity; try lia.
              ** destruct HB as [_ _ _ (b & Hb & _)]. rewrite Hb. cbn. lia.
              ** rewrite Hbp. cbn [concat app]. rewrite (slc_cons_nth data pos (pos + 1) LF Ec) by lia. rewrite slc_nil.
                 replace (pos + 1 - pos) with 1 by lia. reflexivity.
              ** rewrite Hbp. cbn [concat app]. rewrite (slc_cons_nth data pos (pos + 1) LF Ec) by lia. rewrite slc_nil.
                 replace (pos + 1 - pos) with 1 by lia. reflexivity.
              ** rewrite Hcr. reflexivity.
              ** rewrite Hcr. right. right. right. tauto.
              ** rewrite Hpl2, Hpl, Hcr. reflexivity.
              ** intros p1 r Hp. rewrite Hbp in Hp. discriminate.
           ++ assert (Hcrp : crp = false).
              { destruct crp; [|reflexivity]. destruct (Hnx eq_refl) as (c & Hc & Hne). congruence. }
              subst crp. rewrite app_nil_r in Hslc.
              apply RmBnd with (held := [LF]) (k := 2) (d := reg) (eol := [LF]);
                cbn [mp_to_boundary mp_sflag mp_set_pl mps_state mps_mpos mps_bpieces mps_cand mps_cr mps_boundary mps_pl];
                try assumption; try reflexivity; try lia.
              ** destruct HB as [_ _ _ (b & Hb & _)]. rewrite Hb. cbn. lia.
              ** rewrite Hbp. cbn [concat app]. rewrite (slc_snoc data sp pos LF) by (try lia; exact Ec). rewrite Hslc.
                 apply firstn_all2. rewrite app_length, <- Hslc, slc_length by lia. cbn. lia.
              ** rewrite Hbp. cbn [concat app]. unfold mp_matched. cbn [Nat.sub firstn].
                 apply skipn_all2. rewrite slc_length by lia. lia.
              ** rewrite Hcr. reflexivity.
              ** rewrite Hcr. right. left. split; [reflexivity|]. split; [reflexivity|]. apply Hnc. reflexivity.
              ** rewrite Hpl2, Hpl, Hcr. rewrite mp_hd_flag by exact mp_neutral_lf. reflexivity.
              ** intros p1 r Hp. rewrite Hbp in Hp. discriminate.
      * (* ordinary byte *)
        pose proof Hok1 as Hok1'. rewrite (astep_unfold_data A c crp Hm), Hpl in Hok1'.
        destruct (astep_data_other (ma_b A) (mps_pl s) reg (ma_ok A) crp c E1 E2 Hok1') as (Hb1 & Hm1 & Hpl1 & Hnd).
        assert (HA1 : mp_astep A c = mp_astep_data (ma_b A) (mp_hd (mps_pl s) reg false) (ma_ok A) crp c)
          by (rewrite (astep_unfold_data A c crp Hm), Hpl; reflexivity).
        rewrite <- HA1 in Hb1, Hm1, Hpl1. clear Hok1' HA1.
        set (s1 := if mps_cr s then mp_set_cr (mp_shd s [CR] false) false else s).
        pose proof (data_loop_pos n data s1 (pos + 1) sp drp) as HP.
        specialize (IH data s1 (pos + 1) sp drp (mp_astep A c) ltac:(lia)).
        assert (HB1 : mp_base s1 (mp_astep A c)).
        { destruct HB as [H1 H2 H3 H4]. subst s1. destruct (mps_cr s); split; cbn; try assumption; try congruence.
          apply mp_plwf_hd. exact H3. }
        assert (HR1 : mp_rm data s1 (pos + 1) sp drp (mp_astep A c)).
        { destruct Hfl as [(Hcr & Hcrp & Hps & Hreg)|(Hcr & Hslc & Hnc & Hnx)].
          - subst crp reg sp. subst s1. rewrite Hcr.
            apply RmData with (crp := false) (reg := [c]); cbn; try assumption; try lia.
            + rewrite Hpl1. cbn [app]. change [CR; c] with ([CR] ++ [c]).
              symmetry. apply mp_hd_split_nl. exact Hnd.
            + right. split; [reflexivity|]. split; [|split; [|discriminate]].
              * rewrite (slc_cons_nth data pos (pos + 1) c Ec) by lia. rewrite slc_nil. reflexivity.
              * intros _. right. cbn. apply neqb_neq. exact E1.
          - subst s1. rewrite Hcr.
            apply RmData with (crp := false) (reg := reg ++ (if crp then [CR; c] else [c])); try assumption; try lia.
            right. split; [exact Hcr|]. split; [|split; [|discriminate]].
            + rewrite (slc_snoc data sp pos c) by (try lia; exact Ec). rewrite Hslc, app_nil_r.
              destruct crp; rewrite <- app_assoc; reflexivity.
            + intros _. destruct crp.
              * change [CR; c] with ([CR] ++ [c]). rewrite app_assoc. apply nocr_end_snoc. apply neqb_neq. exact E1.
              * apply nocr_end_snoc. apply neqb_neq. exact E1. }
        assert (Hhz1 : mps_cr s1 = true -> nth_error data (pos + 1) <> Some CR)
          by (subst s1; destruct (mps_cr s); cbn; discriminate).
        assert (Hst1 : mps_state s1 = MpsData) by (subst s1; destruct (mps_cr s); cbn; exact Hst).
        specialize (IH HB1 HR1 Hst1 Hhz1 Hok).
        destruct (mp_data_loop n data s1 (pos + 1) sp drp) as [s' p' sp' d'|s' p' sp' d'|s'|]; try exact I.
        -- rewrite (slc_cons_nth data pos p' c Ec) by lia. exact IH.
        -- exact IH.
Qed.
