(* C14 (b): every chunked run of the model is related, call by call, to the byte-level reference run of
   Spec/SMultipart.v; hence the observation after finalize does not depend on the chunking (under the premises). *)
Require Import Htp.Model.Base Htp.Model.MBstr Htp.Model.MMultipart Htp.Spec.SMultipart.
Require Import Htp.Proof.PMultipartSafe Htp.Proof.PMultipartHd.
Require Import Lia.

(* ------------------------------------------------------------------ slices *)
Definition mp_slc (d : bytes) (a b : nat) : bytes := firstn (b - a) (skipn a d).

Lemma skipn_skipn' {A} (x y : nat) (l : list A) : skipn x (skipn y l) = skipn (y + x) l.
Proof. revert l. induction y as [|y IH]; intros l; [reflexivity|]. destruct l; [destruct x; reflexivity|]. cbn. apply IH. Qed.

Lemma slc_nil d a : mp_slc d a a = [].
Proof. unfold mp_slc. rewrite Nat.sub_diag. reflexivity. Qed.

Lemma slc_app d a b c : a <= b -> b <= c -> c <= length d -> mp_slc d a c = mp_slc d a b ++ mp_slc d b c.
Proof.
  intros Hab Hbc Hc. unfold mp_slc.
  replace (c - a) with ((b - a) + (c - b)) by lia.
  rewrite <- (firstn_skipn (b - a) (firstn (b - a + (c - b)) (skipn a d))).
  rewrite firstn_firstn. replace (Nat.min (b - a) (b - a + (c - b))) with (b - a) by lia.
  f_equal. rewrite skipn_firstn_comm. replace (b - a + (c - b) - (b - a)) with (c - b) by lia.
  rewrite skipn_skipn'. replace (a + (b - a)) with b by lia. reflexivity.
Qed.

Lemma slc_one d i c : nth_error d i = Some c -> mp_slc d i (i + 1) = [c].
Proof.
  intros H. unfold mp_slc. replace (i + 1 - i) with 1 by lia.
  revert i H. induction d as [|x d IH]; intros [|i] H; cbn in *; try discriminate.
  - injection H as ->. reflexivity.
  - apply IH. exact H.
Qed.

Lemma slc_length d a b : a <= b -> b <= length d -> length (mp_slc d a b) = b - a.
Proof. intros. unfold mp_slc. rewrite firstn_length, skipn_length. lia. Qed.

Lemma slice_slc d a n : a + n <= length d -> mp_slice d a n = Some (mp_slc d a (a + n)).
Proof. intros H. rewrite slice_some by exact H. unfold mp_slc. replace (a + n - a) with n by lia. reflexivity. Qed.

Lemma slc_whole d : mp_slc d 0 (length d) = d.
Proof. unfold mp_slc. cbn. rewrite Nat.sub_0_r. apply firstn_all. Qed.

Lemma slc_snoc d a i c : a <= i -> nth_error d i = Some c -> mp_slc d a (i + 1) = mp_slc d a i ++ [c].
Proof.
  intros Ha H. assert (i < length d) by (apply nth_error_Some; congruence).
  rewrite (slc_app d a i (i + 1)) by lia. rewrite (slc_one d i c H). reflexivity.
Qed.

(* ------------------------------------------------------------------ the reference run: bookkeeping *)
Lemma ahd_ok pl ok d l : snd (mp_ahd pl ok d l) = true -> ok = true /\ (d = [] \/ mp_dupb pl = false).
Proof.
  unfold mp_ahd. cbn [snd]. intros H. apply andb_true_iff in H. destruct H as [H1 H2]. split; [exact H1|].
  apply orb_true_iff in H2. destruct H2 as [H2|H2]; [left; destruct d; [reflexivity|discriminate]|right].
  destruct (mp_dupb pl); [discriminate|reflexivity].
Qed.

Lemma astep_data_ok b pl ok crp c : ma_ok (mp_astep_data b pl ok crp c) = true -> ok = true.
Proof.
  unfold mp_astep_data. destruct (c =? CR)%N.
  - destruct crp.
    + destruct (mp_ahd pl ok [CR] false) as [pl1 ok1] eqn:E. cbn. intros ->.
      pose proof (ahd_ok pl ok [CR] false) as H. rewrite E in H. apply H. reflexivity.
    + cbn. tauto.
  - destruct (c =? LF)%N; [cbn; tauto|].
    destruct (mp_ahd pl ok (if crp then [CR; c] else [c]) false) as [pl1 ok1] eqn:E. cbn. intros ->.
    pose proof (ahd_ok pl ok (if crp then [CR; c] else [c]) false) as H. rewrite E in H. apply H. reflexivity.
Qed.

Lemma arelease_ok b pl ok held k : snd (mp_arelease b pl ok held k) = true -> ok = true.
Proof.
  unfold mp_arelease. destruct (mp_ahd pl ok held true) as [pl1 ok1] eqn:E.
  intros H. apply ahd_ok in H. destruct H as [-> _].
  pose proof (ahd_ok pl ok held true) as H. rewrite E in H. apply H. reflexivity.
Qed.

Lemma astep_ok a c : ma_ok (mp_astep a c) = true -> ma_ok a = true.
Proof.
  unfold mp_astep. cbv zeta. destruct (ma_m a).
  - apply astep_data_ok.
  - destruct (c =? _)%N.
    + destruct (S k =? _); cbn; [intros H; apply andb_true_iff in H; tauto|tauto].
    + destruct (mp_arelease (ma_b a) (ma_pl a) (ma_ok a) held k) as [pl1 ok1] eqn:E.
      intros H. apply astep_data_ok in H. subst ok1.
      pose proof (arelease_ok (ma_b a) (ma_pl a) (ma_ok a) held k) as H. rewrite E in H. apply H. reflexivity.
  - mp_break; cbn; tauto.
  - mp_break; cbn; tauto.
  - mp_break; cbn; tauto.
  - mp_break; cbn; tauto.
Qed.

Lemma afold_ok xs : forall a, ma_ok (fold_left mp_astep xs a) = true -> ma_ok a = true.
Proof. induction xs as [|x xs IH]; intros a H; cbn in *; [exact H|]. apply astep_ok with x. apply IH. exact H. Qed.

Lemma astep_b a c : ma_b (mp_astep a c) = ma_b a.
Proof.
  unfold mp_astep, mp_astep_data, mp_arelease. cbv zeta.
  destruct (ma_m a); mp_break; reflexivity.
Qed.
