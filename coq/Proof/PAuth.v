(* C01 leaves: base64 decoder, Authorization parsers, v0 cookie parser (model: Model/MAuth.v).
   The model is index based; the theorems say that no checked access ever fails, give the exact result
   of each function as a structural (index-free) function of the input, and -- for the base64 output
   block -- the smallest capacity for which no access can fail. *)
Require Import Htp.Model.Base Htp.Model.MBstr Htp.Model.MAuth Htp.Proof.PBstr.

Local Arguments Nat.ltb : simpl never.
Local Arguments Nat.leb : simpl never.
Local Arguments Nat.eqb : simpl never.
Local Arguments Nat.sub : simpl never.
Local Arguments N.land : simpl never.
Local Arguments N.lor : simpl never.
Local Arguments N.shiftl : simpl never.
Local Arguments N.shiftr : simpl never.
Local Arguments N.modulo : simpl never.
Local Arguments Z.ltb : simpl never.
Local Arguments Z.eqb : simpl never.
Local Arguments Z.leb : simpl never.
Local Arguments Z.sub : simpl never.
Local Arguments Z.of_nat : simpl never.

Ltac b2p :=
  repeat match goal with
  | H : (_ <? _) = true |- _ => apply Nat.ltb_lt in H
  | H : (_ <? _) = false |- _ => apply Nat.ltb_ge in H
  | H : (_ <=? _) = true |- _ => apply Nat.leb_le in H
  | H : (_ <=? _) = false |- _ => apply Nat.leb_gt in H
  | H : (_ =? _) = true |- _ => apply Nat.eqb_eq in H
  | H : (_ =? _) = false |- _ => apply Nat.eqb_neq in H
  | H : (_ <? _)%Z = true |- _ => apply Z.ltb_lt in H
  | H : (_ <? _)%Z = false |- _ => apply Z.ltb_ge in H
  | H : (_ <=? _)%Z = true |- _ => apply Z.leb_le in H
  | H : (_ <=? _)%Z = false |- _ => apply Z.leb_gt in H
  | H : (_ =? _)%Z = true |- _ => apply Z.eqb_eq in H
  | H : (_ =? _)%Z = false |- _ => apply Z.eqb_neq in H
  end.

(* ------------------------------------------------------------------ list facts *)
Lemma au_upd_length {B} (l : list B) i x : length (upd l i x) = length l.
Proof. revert i. induction l as [|h t IH]; intros [|i]; cbn; congruence. Qed.
Lemma au_upd_nth_same {B} (l : list B) i x : i < length l -> nth_error (upd l i x) i = Some x.
Proof. revert i. induction l as [|h t IH]; intros [|i] H; cbn in *; try lia; [reflexivity|]. apply IH. lia. Qed.
Lemma au_upd_firstn_ge {B} (l : list B) i x k : k <= i -> firstn k (upd l i x) = firstn k l.
Proof.
  revert i k. induction l as [|h t IH]; intros [|i] [|k] H; cbn; try reflexivity; try lia.
  f_equal. apply IH. lia.
Qed.
Lemma au_upd_firstn_S {B} (l : list B) i x : i < length l -> firstn (S i) (upd l i x) = firstn i l ++ [x].
Proof.
  revert i. induction l as [|h t IH]; intros [|i] H; cbn in *; try lia; [reflexivity|].
  f_equal. apply IH. lia.
Qed.
Lemma au_nth_error_lt {B} (l : list B) i x : nth_error l i = Some x -> i < length l.
Proof. intros H. apply nth_error_Some. congruence. Qed.

(* ================================================================== base64 ================== *)

(* the 6-bit values of the alphabet characters of the input, in order *)
Definition b64_sextets (data : bytes) : list N :=
  flat_map (fun c => if (b64_single c <? 0)%Z then [] else [Z.to_N (b64_single c)]) data.

(* what remains to be produced from decoder step stp (part = the byte under construction) *)
Fixpoint b64_tail (stp : b64_step) (part : N) (q : list N) : bytes :=
  match q with
  | [] => []
  | v :: q' =>
    match stp with
    | B64a => b64_tail B64b ((N.shiftl (N.land v 63) 2) mod 256)%N q'
    | B64b => N.lor part (N.shiftr (N.land v 48) 4) :: b64_tail B64c ((N.shiftl (N.land v 15) 4) mod 256)%N q'
    | B64c => N.lor part (N.shiftr (N.land v 60) 2) :: b64_tail B64d ((N.shiftl (N.land v 3) 6) mod 256)%N q'
    | B64d => N.lor part (N.land v 63) :: b64_tail B64a 0%N q'
    end
  end.

Definition b64_next (s : b64_step) : b64_step :=
  match s with B64a => B64b | B64b => B64c | B64c => B64d | B64d => B64a end.
Fixpoint b64_adv (s : b64_step) (k : nat) : b64_step :=
  match k with O => s | S k' => b64_adv (b64_next s) k' end.

Definition b64_pre (stp : b64_step) (buf : list b64_cell) (p : nat) (part : N) : Prop :=
  match stp with B64a => True | _ => nth_error buf p = Some (Some part) end.

Lemma b64_tail_a part q : b64_tail B64a part q = b64_tail B64a 0%N q.
Proof. destruct q; reflexivity. Qed.

Lemma b64_wr_spec buf i v :
  (i < length buf /\ b64_wr buf i v = Some (upd buf i v)) \/ (length buf <= i /\ b64_wr buf i v = None).
Proof. unfold b64_wr. destruct (i <? length buf) eqn:E; b2p; [left|right]; split; auto. Qed.

Lemma b64_sextets_cons c l :
  b64_sextets (c :: l) = (if (b64_single c <? 0)%Z then [] else [Z.to_N (b64_single c)]) ++ b64_sextets l.
Proof. reflexivity. Qed.

(* The main simulation: from any loop state whose current byte is in place, as long as length_out does
   not run out, the loop (i) faults iff the final plainchar index p + |out| is outside the block,
   (ii) otherwise returns that index, has appended exactly `out` to the block, and stores the step reached. *)
Lemma b64_loop_spec : forall n rest stp buf p lout st0 part,
  n <= length rest ->
  b64_pre stp buf p part ->
  (Z.of_nat (length (b64_tail stp part (b64_sextets (firstn n rest)))) < lout)%Z ->
  (p + length (b64_tail stp part (b64_sextets (firstn n rest))) < length buf ->
     b64_fault (b64_loop n rest stp buf p lout st0) = false /\
     b64_ret (b64_loop n rest stp buf p lout st0) = p + length (b64_tail stp part (b64_sextets (firstn n rest))) /\
     length (b64_buf (b64_loop n rest stp buf p lout st0)) = length buf /\
     firstn (p + length (b64_tail stp part (b64_sextets (firstn n rest)))) (b64_buf (b64_loop n rest stp buf p lout st0))
       = firstn p buf ++ map Some (b64_tail stp part (b64_sextets (firstn n rest))) /\
     b64_stp (b64_dec (b64_loop n rest stp buf p lout st0)) = b64_adv stp (length (b64_sextets (firstn n rest))))
  /\ (length buf <= p + length (b64_tail stp part (b64_sextets (firstn n rest))) ->
     b64_fault (b64_loop n rest stp buf p lout st0) = true).
Proof.
  induction n as [|n IH]; intros rest stp buf p lout st0 part Hn Hpre Hlout.
  - cbn [firstn b64_sextets flat_map b64_tail length b64_loop] in *. rewrite Nat.add_0_r.
    destruct (nth_error buf p) as [x|] eqn:E.
    + apply au_nth_error_lt in E. split; [|lia]. intros _. cbn [b64_fault b64_ret b64_buf b64_dec b64_stp b64_adv map].
      rewrite app_nil_r. repeat split; reflexivity.
    + apply nth_error_None in E. split; [lia|]. intros _. reflexivity.
  - destruct rest as [|c r]; [cbn in Hn; lia|]. cbn [length] in Hn. apply le_S_n in Hn.
    cbn [firstn] in *. rewrite b64_sextets_cons in *. cbn [b64_loop].
    destruct (b64_single c <? 0)%Z eqn:Ef.
    + cbn [app] in *. apply IH; assumption.
    + cbn [app] in *. set (v := Z.to_N (b64_single c)) in *. set (q := b64_sextets (firstn n r)) in *.
      destruct stp; cbn [b64_tail b64_pre length] in *.
      * (* step a *)
        destruct (b64_wr_spec buf p (Some ((N.shiftl (N.land v 63) 2) mod 256)%N)) as [[Hp Hw]|[Hp Hw]]; rewrite Hw.
        -- specialize (IH r B64b (upd buf p (Some ((N.shiftl (N.land v 63) 2) mod 256)%N)) p lout st0
                         ((N.shiftl (N.land v 63) 2) mod 256)%N Hn).
           cbn [b64_pre] in IH. rewrite au_upd_length, au_upd_firstn_ge in IH by lia. fold q in IH.
           specialize (IH (au_upd_nth_same _ _ _ Hp) Hlout). cbn [b64_adv b64_next]. exact IH.
        -- split; [lia|]. intros _. reflexivity.
      * (* step b *)
        unfold b64_or. rewrite Hpre. pose proof (au_nth_error_lt _ _ _ Hpre) as Hp.
        set (o := N.lor part (N.shiftr (N.land v 48) 4)) in *.
        set (buf1 := upd buf p (Some o)).
        assert (Hl1 : length buf1 = length buf) by apply au_upd_length.
        destruct (b64_wr_spec buf1 (S p) (Some ((N.shiftl (N.land v 15) 4) mod 256)%N)) as [[Hp1 Hw]|[Hp1 Hw]]; rewrite Hw.
        -- destruct (lout - 1 =? 0)%Z eqn:El; b2p; [lia|].
           specialize (IH r B64c (upd buf1 (S p) (Some ((N.shiftl (N.land v 15) 4) mod 256)%N)) (S p) (lout - 1)%Z st0
                         ((N.shiftl (N.land v 15) 4) mod 256)%N Hn).
           cbn [b64_pre] in IH. fold q in IH. subst buf1. rewrite !au_upd_length in IH.
           rewrite (au_upd_firstn_ge _ (S p) _ (S p)) in IH by lia. rewrite au_upd_firstn_S in IH by lia.
           specialize (IH (au_upd_nth_same _ _ _ Hp1)). cbn [b64_adv b64_next map].
           replace (p + S (length (b64_tail B64c ((N.shiftl (N.land v 15) 4) mod 256)%N q)))
             with (S p + length (b64_tail B64c ((N.shiftl (N.land v 15) 4) mod 256)%N q)) by lia.
           rewrite <- app_assoc in IH. cbn [app] in IH. apply IH. lia.
        -- split; [lia|]. intros _. reflexivity.
      * (* step c *)
        unfold b64_or. rewrite Hpre. pose proof (au_nth_error_lt _ _ _ Hpre) as Hp.
        set (o := N.lor part (N.shiftr (N.land v 60) 2)) in *.
        set (buf1 := upd buf p (Some o)).
        assert (Hl1 : length buf1 = length buf) by apply au_upd_length.
        destruct (b64_wr_spec buf1 (S p) (Some ((N.shiftl (N.land v 3) 6) mod 256)%N)) as [[Hp1 Hw]|[Hp1 Hw]]; rewrite Hw.
        -- destruct (lout - 1 =? 0)%Z eqn:El; b2p; [lia|].
           specialize (IH r B64d (upd buf1 (S p) (Some ((N.shiftl (N.land v 3) 6) mod 256)%N)) (S p) (lout - 1)%Z st0
                         ((N.shiftl (N.land v 3) 6) mod 256)%N Hn).
           cbn [b64_pre] in IH. fold q in IH. subst buf1. rewrite !au_upd_length in IH.
           rewrite (au_upd_firstn_ge _ (S p) _ (S p)) in IH by lia. rewrite au_upd_firstn_S in IH by lia.
           specialize (IH (au_upd_nth_same _ _ _ Hp1)). cbn [b64_adv b64_next map].
           replace (p + S (length (b64_tail B64d ((N.shiftl (N.land v 3) 6) mod 256)%N q)))
             with (S p + length (b64_tail B64d ((N.shiftl (N.land v 3) 6) mod 256)%N q)) by lia.
           rewrite <- app_assoc in IH. cbn [app] in IH. apply IH. lia.
        -- split; [lia|]. intros _. reflexivity.
      * (* step d *)
        unfold b64_or. rewrite Hpre. pose proof (au_nth_error_lt _ _ _ Hpre) as Hp.
        set (o := N.lor part (N.land v 63)) in *.
        set (buf1 := upd buf p (Some o)).
        assert (Hl1 : length buf1 = length buf) by apply au_upd_length.
        destruct (lout - 1 =? 0)%Z eqn:El; b2p; [lia|].
        specialize (IH r B64a buf1 (S p) (lout - 1)%Z st0 0%N Hn I).
        fold q in IH. subst buf1. rewrite !au_upd_length in IH. rewrite au_upd_firstn_S in IH by lia.
        cbn [b64_adv b64_next map].
        replace (p + S (length (b64_tail B64a 0%N q))) with (S p + length (b64_tail B64a 0%N q)) by lia.
        rewrite <- app_assoc in IH. cbn [app] in IH. apply IH. lia.
Qed.

(* ------------------------------------------------------------------ lengths *)
Definition b64_idx (s : b64_step) : nat := match s with B64a => 0 | B64b => 1 | B64c => 2 | B64d => 3 end.

Lemma b64_tail_length stp part q :
  length (b64_tail stp part q) = 3 * (length q + b64_idx stp) / 4 - 3 * b64_idx stp / 4.
Proof.
  revert stp part. induction q as [|v q IH]; intros stp part.
  - destruct stp; reflexivity.
  - destruct stp; cbn [b64_tail length b64_idx]; rewrite IH; cbn [b64_idx].
    + replace (S (length q) + 0) with (length q + 1) by lia. reflexivity.
    + change (3 * 1 / 4) with 0. change (3 * 2 / 4) with 1.
      replace (3 * (S (length q) + 1)) with (3 * (length q + 2)) by lia.
      assert (1 <= 3 * (length q + 2) / 4) by (apply Nat.div_le_lower_bound; lia). lia.
    + change (3 * 3 / 4) with 2. change (3 * 2 / 4) with 1.
      replace (3 * (S (length q) + 2)) with (3 * (length q + 3)) by lia.
      assert (2 <= 3 * (length q + 3) / 4) by (apply Nat.div_le_lower_bound; lia). lia.
    + change (3 * 3 / 4) with 2. change (3 * 0 / 4) with 0.
      replace (3 * (S (length q) + 3)) with (3 * (length q + 0) + 3 * 4) by lia.
      rewrite Nat.div_add by lia. lia.
Qed.

Lemma b64_tail_length_a part q : length (b64_tail B64a part q) = 3 * length q / 4.
Proof. rewrite b64_tail_length. cbn [b64_idx]. rewrite Nat.add_0_r. change (3 * 0 / 4) with 0. lia. Qed.

Lemma b64_sextets_length data : length (b64_sextets data) <= length data.
Proof.
  induction data as [|c l IH]; [reflexivity|]. rewrite b64_sextets_cons, app_length. cbn [length].
  destruct (b64_single c <? 0)%Z; cbn [length]; lia.
Qed.

Lemma b64_div_mono a b : a <= b -> 3 * a / 4 <= 3 * b / 4.
Proof. intros H. apply Nat.div_le_mono; lia. Qed.
Lemma b64_three_quarters_lt n : 1 <= n -> 3 * n / 4 < n.
Proof. intros H. apply Nat.div_lt_upper_bound; lia. Qed.

(* ------------------------------------------------------------------ htp_base64_decode_mem with malloc(cap) *)
Lemma b64_init_step : b64_stp b64_init = B64a. Proof. reflexivity. Qed.
Lemma b64_init_pc : b64_pc b64_init = Some 0%N. Proof. reflexivity. Qed.

(* the decoded text as a function of the input alone *)
Definition b64_text (data : bytes) : bytes := b64_tail B64a 0%N (b64_sextets data).

Lemma b64_text_length data : length (b64_text data) = 3 * length (b64_sextets data) / 4.
Proof. apply b64_tail_length_a. Qed.

Lemma b64_mem_run_nil cap : b64_mem_run cap [] = mk_b64_res 0 (repeat None cap) b64_init false.
Proof. reflexivity. Qed.

Lemma b64_mem_run_spec cap data : data <> [] ->
  (length (b64_text data) < cap ->
     b64_fault (b64_mem_run cap data) = false /\
     b64_ret (b64_mem_run cap data) = length (b64_text data) /\
     b64_cells_out (b64_mem_run cap data) = map Some (b64_text data))
  /\ (cap <= length (b64_text data) -> b64_fault (b64_mem_run cap data) = true).
Proof.
  intros Hne. unfold b64_mem_run, b64_decode.
  assert (Hlen : 1 <= length data) by (destruct data; [congruence|cbn; lia]).
  destruct (Z.of_nat (length data) <=? 0)%Z eqn:E; b2p; [lia|].
  rewrite b64_init_step, b64_init_pc.
  assert (Hout : length (b64_text data) < length data).
  { rewrite b64_text_length. eapply Nat.le_lt_trans; [apply b64_div_mono, b64_sextets_length|].
    apply b64_three_quarters_lt. exact Hlen. }
  destruct (b64_wr_spec (repeat None cap) 0 (Some 0%N)) as [[Hc Hw]|[Hc Hw]]; rewrite Hw; rewrite repeat_length in Hc.
  - pose proof (b64_loop_spec (length data) data B64a (upd (repeat None cap) 0 (Some 0%N)) 0 (Z.of_nat (length data)) b64_init 0%N
                 (le_n _) I) as H.
    rewrite firstn_all in H. fold (b64_text data) in H. rewrite au_upd_length, repeat_length in H.
    specialize (H ltac:(lia)). cbn [Nat.add firstn app] in H. destruct H as [H1 H2]. split.
    + intros Hcap. destruct (H1 Hcap) as [Ha [Hb [_ [Hd _]]]]. repeat split; [exact Ha|exact Hb|].
      unfold b64_cells_out. etransitivity; [|exact Hd]. f_equal. exact Hb.
    + exact H2.
  - split; [lia|]. intros _. reflexivity.
Qed.

Lemma b64_forallb_set l : forallb b64_cell_set (map Some l) = true.
Proof. induction l; [reflexivity|exact IHl]. Qed.
Lemma b64_map_val l : map b64_cell_val (map Some l) = l.
Proof. induction l as [|x l IH]; [reflexivity|]. cbn. f_equal. exact IH. Qed.

(* EXACT characterisation of the accesses: with an output block of cap bytes the decoder stays inside the
   block iff the input is empty (nothing is touched) or cap exceeds the number of decoded bytes
   3 * (alphabet characters) / 4 -- the byte at that index is written (partial byte) or read back
   (decoder->plainchar = *plainchar) on every run. *)
Theorem b64_mem_fault_iff cap data :
  b64_mem_fault cap data = false <-> (data = [] \/ 3 * length (b64_sextets data) / 4 < cap).
Proof.
  unfold b64_mem_fault. destruct data as [|c l].
  - rewrite b64_mem_run_nil. cbn. tauto.
  - rewrite <- b64_text_length. destruct (b64_mem_run_spec cap (c :: l) ltac:(congruence)) as [H1 H2].
    destruct (Nat.lt_ge_cases (length (b64_text (c :: l))) cap) as [Hc|Hc].
    + destruct (H1 Hc) as [Ha [_ Hd]]. rewrite Ha, Hd, b64_forallb_set. cbn [orb negb]. tauto.
    + rewrite (H2 Hc). cbn [orb]. split; [discriminate|]. intros [H|H]; [discriminate|lia].
Qed.

(* the result when the block is large enough *)
Theorem b64_mem_result_spec cap data : b64_mem_fault cap data = false ->
  b64_mem_result cap data = match b64_text data with [] => None | o => Some o end.
Proof.
  intros Hf. unfold b64_mem_result. destruct data as [|c l]; [reflexivity|].
  apply b64_mem_fault_iff in Hf. destruct Hf as [Hf|Hf]; [discriminate|]. rewrite <- b64_text_length in Hf.
  destruct (b64_mem_run_spec cap (c :: l) ltac:(congruence)) as [H1 _]. destruct (H1 Hf) as [_ [Hb Hd]].
  unfold b64_out. rewrite Hb, Hd, b64_map_val. destruct (b64_text (c :: l)); reflexivity.
Qed.

(* C01 anchor: the function as written (malloc(len), length_out = len) never leaves its blocks and never
   uses an indeterminate byte, for every input *)
Theorem b64_mem_no_fault data : b64_decode_mem_fault data = false.
Proof.
  unfold b64_decode_mem_fault. apply b64_mem_fault_iff. destruct data as [|c l]; [left; reflexivity|right].
  eapply Nat.le_lt_trans; [apply b64_div_mono, b64_sextets_length|]. apply b64_three_quarters_lt. cbn. lia.
Qed.

Theorem b64_mem_spec data :
  b64_decode_mem data = match b64_text data with [] => None | o => Some o end.
Proof. apply b64_mem_result_spec. apply b64_mem_no_fault. Qed.

(* returned length: exactly 3 * (alphabet characters) / 4, hence <= 3 * len / 4 and < len = capacity *)
Theorem b64_mem_length data o : b64_decode_mem data = Some o ->
  length o = 3 * length (b64_sextets data) / 4 /\ length o <= 3 * length data / 4 /\ length o < length data.
Proof.
  rewrite b64_mem_spec. intros H. assert (Ho : o = b64_text data) by (destruct (b64_text data); congruence).
  subst o. rewrite b64_text_length. split; [reflexivity|]. split.
  - apply b64_div_mono, b64_sextets_length.
  - eapply Nat.le_lt_trans; [apply b64_div_mono, b64_sextets_length|]. apply b64_three_quarters_lt.
    destruct data; [discriminate|cbn; lia].
Qed.

(* the smallest safe allocation as a function of len: 0 for len = 0, else 3*len/4 + 1 *)
Definition b64_A : N := 65%N.
Lemma b64_sextets_repeat_A n : b64_sextets (repeat b64_A n) = repeat 0%N n.
Proof. induction n as [|n IH]; [reflexivity|]. cbn [repeat]. rewrite b64_sextets_cons, IH. reflexivity. Qed.

Theorem b64_mem_min_capacity len cap :
  (forall data, length data = len -> b64_mem_fault cap data = false) <-> (len = 0 \/ 3 * len / 4 < cap).
Proof.
  split.
  - intros H. specialize (H (repeat b64_A len) (repeat_length _ _)). apply b64_mem_fault_iff in H.
    destruct H as [H|H].
    + left. destruct len; [reflexivity|discriminate].
    + right. rewrite b64_sextets_repeat_A, repeat_length in H. exact H.
  - intros H data Hl. apply b64_mem_fault_iff. destruct H as [H|H].
    + left. subst len. destruct data; [reflexivity|discriminate].
    + right. subst len. eapply Nat.le_lt_trans; [apply b64_div_mono, b64_sextets_length|exact H].
Qed.

(* why malloc(len * 3 / 4) would be wrong: for EVERY len >= 1 there is an input of that length (all 'A')
   on which the decoder touches index 3*len/4 *)
Theorem b64_three_quarters_faults len : 1 <= len -> b64_mem_fault (3 * len / 4) (repeat b64_A len) = true.
Proof.
  intros H. destruct (b64_mem_fault (3 * len / 4) (repeat b64_A len)) eqn:E; [reflexivity|].
  apply b64_mem_fault_iff in E. rewrite b64_sextets_repeat_A, repeat_length in E. destruct E as [E|E]; [|lia].
  destruct len; [lia|discriminate].
Qed.
Example b64_three_quarters_refuted : b64_mem_fault 3 [81; 85; 74; 68]%N = true.     (* "QUJD", malloc(4*3/4) *)
Proof. vm_compute. reflexivity. Qed.
Example b64_three_quarters_refuted_2 : b64_mem_fault 1 [81; 81]%N = true.           (* "QQ", malloc(2*3/4) *)
Proof. vm_compute. reflexivity. Qed.
Example b64_exact_capacity_ok : b64_mem_fault 4 [81; 85; 74; 68]%N = false /\ b64_mem_result 4 [81; 85; 74; 68]%N = Some [65; 66; 67]%N.
Proof. vm_compute. split; reflexivity. Qed.

(* ------------------------------------------------------------------ the text in group form, round trip *)
Definition b64_o0 (a b : N) : N := N.lor ((N.shiftl (N.land a 63) 2) mod 256)%N (N.shiftr (N.land b 48) 4).
Definition b64_o1 (b c : N) : N := N.lor ((N.shiftl (N.land b 15) 4) mod 256)%N (N.shiftr (N.land c 60) 2).
Definition b64_o2 (c d : N) : N := N.lor ((N.shiftl (N.land c 3) 6) mod 256)%N (N.land d 63).

(* 4 sextets -> 3 bytes; a trailing group of 3 -> 2 bytes, of 2 -> 1 byte, a single sextet -> nothing *)
Fixpoint b64_spec (q : list N) : bytes :=
  match q with
  | a :: b :: c :: d :: r => b64_o0 a b :: b64_o1 b c :: b64_o2 c d :: b64_spec r
  | [a; b; c] => [b64_o0 a b; b64_o1 b c]
  | [a; b] => [b64_o0 a b]
  | _ => []
  end.

Lemma b64_tail_spec : forall n q, length q <= n -> b64_tail B64a 0%N q = b64_spec q.
Proof.
  induction n as [|n IH]; intros q H.
  - destruct q; [reflexivity|cbn in H; lia].
  - destruct q as [|a [|b [|c [|d r]]]]; try reflexivity.
    cbn [b64_tail b64_spec]. fold (b64_o0 a b) (b64_o1 b c) (b64_o2 c d). do 3 f_equal.
    apply IH. cbn [length] in H. lia.
Qed.

Theorem b64_text_groups data : b64_text data = b64_spec (b64_sextets data).
Proof. unfold b64_text. apply (b64_tail_spec _ _ (le_n _)). Qed.

(* the standard encoder (RFC 4648 alphabet, '=' padding) *)
Definition b64_enc_char (v : N) : N :=
  if (v <? 26)%N then (65 + v)%N else if (v <? 52)%N then (71 + v)%N else if (v <? 62)%N then (v - 4)%N
  else if (v =? 62)%N then 43%N else 47%N.
Definition b64_PAD : N := 61%N.
Definition b64_e0 (a : N) : N := N.shiftr a 2.
Definition b64_e1 (a b : N) : N := N.lor (N.shiftl (N.land a 3) 4) (N.shiftr b 4).
Definition b64_e2 (b c : N) : N := N.lor (N.shiftl (N.land b 15) 2) (N.shiftr c 6).
Definition b64_e3 (c : N) : N := N.land c 63.
Fixpoint b64_encode (s : bytes) : bytes :=
  match s with
  | a :: b :: c :: r =>
      b64_enc_char (b64_e0 a) :: b64_enc_char (b64_e1 a b) :: b64_enc_char (b64_e2 b c) :: b64_enc_char (b64_e3 c) :: b64_encode r
  | [a; b] => [b64_enc_char (b64_e0 a); b64_enc_char (b64_e1 a b); b64_enc_char (b64_e2 b 0); b64_PAD]
  | [a] => [b64_enc_char (b64_e0 a); b64_enc_char (b64_e1 a 0); b64_PAD; b64_PAD]
  | [] => []
  end.

Lemma byte_sweep2 (P : N -> N -> bool) :
  forallb (fun a => forallb (P a) all_bytes) all_bytes = true ->
  forall a b, (a < 256)%N -> (b < 256)%N -> P a b = true.
Proof.
  intros H a b Ha Hb. pose proof (byte_sweep (fun a => forallb (P a) all_bytes) H a Ha) as H1. cbv beta in H1.
  exact (byte_sweep (P a) H1 b Hb).
Qed.

(* the regenerated table inverts the alphabet, and '=' is skipped *)
Lemma b64_single_enc : forall v, (v < 64)%N -> b64_single (b64_enc_char v) = Z.of_N v.
Proof.
  assert (H : forallb (fun v => (b64_single (b64_enc_char v) =? Z.of_N v)%Z) (map N.of_nat (seq 0 64)) = true) by (vm_compute; reflexivity).
  intros v Hv. rewrite forallb_forall in H. apply Z.eqb_eq. apply H. apply in_map_iff. exists (N.to_nat v).
  split; [apply N2Nat.id|]. apply in_seq. lia.
Qed.
Lemma b64_single_pad : (b64_single b64_PAD <? 0)%Z = true. Proof. reflexivity. Qed.

Lemma b64_e0_lt : forall a, (a < 256)%N -> (b64_e0 a < 64)%N.
Proof. intros a H. apply N.ltb_lt. revert a H. apply (byte_sweep (fun a => (b64_e0 a <? 64)%N)). vm_compute. reflexivity. Qed.
Lemma b64_e1_lt : forall a b, (a < 256)%N -> (b < 256)%N -> (b64_e1 a b < 64)%N.
Proof. intros a b Ha Hb. apply N.ltb_lt. revert a b Ha Hb. apply (byte_sweep2 (fun a b => (b64_e1 a b <? 64)%N)). vm_compute. reflexivity. Qed.
Lemma b64_e2_lt : forall a b, (a < 256)%N -> (b < 256)%N -> (b64_e2 a b < 64)%N.
Proof. intros a b Ha Hb. apply N.ltb_lt. revert a b Ha Hb. apply (byte_sweep2 (fun a b => (b64_e2 a b <? 64)%N)). vm_compute. reflexivity. Qed.
Lemma b64_e3_lt : forall a, (a < 256)%N -> (b64_e3 a < 64)%N.
Proof. intros a H. apply N.ltb_lt. revert a H. apply (byte_sweep (fun a => (b64_e3 a <? 64)%N)). vm_compute. reflexivity. Qed.

(* bit identities, each over two bytes *)
Lemma b64_bits0 : forall a b, (a < 256)%N -> (b < 256)%N -> b64_o0 (b64_e0 a) (b64_e1 a b) = a.
Proof. intros a b Ha Hb. apply N.eqb_eq. revert a b Ha Hb. apply (byte_sweep2 (fun a b => (b64_o0 (b64_e0 a) (b64_e1 a b) =? a)%N)). vm_compute. reflexivity. Qed.
Lemma b64_bits1_l : forall a b, (a < 256)%N -> (b < 256)%N -> N.land (b64_e1 a b) 15 = N.shiftr b 4.
Proof. intros a b Ha Hb. apply N.eqb_eq. revert a b Ha Hb. apply (byte_sweep2 (fun a b => (N.land (b64_e1 a b) 15 =? N.shiftr b 4)%N)). vm_compute. reflexivity. Qed.
Lemma b64_bits1_r : forall b c, (b < 256)%N -> (c < 256)%N ->
  N.lor ((N.shiftl (N.shiftr b 4) 4) mod 256)%N (N.shiftr (N.land (b64_e2 b c) 60) 2) = b.
Proof.
  intros a b Ha Hb. apply N.eqb_eq. revert a b Ha Hb.
  apply (byte_sweep2 (fun b c => (N.lor ((N.shiftl (N.shiftr b 4) 4) mod 256)%N (N.shiftr (N.land (b64_e2 b c) 60) 2) =? b)%N)).
  vm_compute. reflexivity.
Qed.
Lemma b64_bits1 : forall a b c, (a < 256)%N -> (b < 256)%N -> (c < 256)%N -> b64_o1 (b64_e1 a b) (b64_e2 b c) = b.
Proof. intros a b c Ha Hb Hc. unfold b64_o1. rewrite b64_bits1_l by assumption. apply b64_bits1_r; assumption. Qed.
Lemma b64_bits2_l : forall b c, (b < 256)%N -> (c < 256)%N -> N.land (b64_e2 b c) 3 = N.shiftr c 6.
Proof. intros a b Ha Hb. apply N.eqb_eq. revert a b Ha Hb. apply (byte_sweep2 (fun b c => (N.land (b64_e2 b c) 3 =? N.shiftr c 6)%N)). vm_compute. reflexivity. Qed.
Lemma b64_bits2_r : forall c, (c < 256)%N -> N.lor ((N.shiftl (N.shiftr c 6) 6) mod 256)%N (N.land (b64_e3 c) 63) = c.
Proof.
  intros c Hc. apply N.eqb_eq. revert c Hc.
  apply (byte_sweep (fun c => (N.lor ((N.shiftl (N.shiftr c 6) 6) mod 256)%N (N.land (b64_e3 c) 63) =? c)%N)). vm_compute. reflexivity.
Qed.
Lemma b64_bits2 : forall b c, (b < 256)%N -> (c < 256)%N -> b64_o2 (b64_e2 b c) (b64_e3 c) = c.
Proof. intros b c Hb Hc. unfold b64_o2. rewrite b64_bits2_l by assumption. apply b64_bits2_r; assumption. Qed.

Lemma b64_sextets_enc v l : (v < 64)%N -> b64_sextets (b64_enc_char v :: l) = v :: b64_sextets l.
Proof.
  intros Hv. rewrite b64_sextets_cons, (b64_single_enc v Hv). destruct (Z.of_N v <? 0)%Z eqn:E; b2p; [lia|].
  rewrite N2Z.id. reflexivity.
Qed.
Lemma b64_sextets_pad l : b64_sextets (b64_PAD :: l) = b64_sextets l.
Proof. rewrite b64_sextets_cons, b64_single_pad. reflexivity. Qed.

Lemma b64_is_byte_lt b : is_byte b = true -> (b < 256)%N.
Proof. unfold is_byte. apply N.ltb_lt. Qed.

Lemma b64_roundtrip_text : forall n s, length s <= n -> all_byte s = true -> b64_spec (b64_sextets (b64_encode s)) = s.
Proof.
  induction n as [|n IH]; intros s Hn Hs.
  - destruct s; [reflexivity|cbn in Hn; lia].
  - destruct s as [|a [|b [|c r]]]; [reflexivity| | |].
    + cbn [all_byte forallb] in Hs. apply andb_prop in Hs. destruct Hs as [Ha _]. apply b64_is_byte_lt in Ha.
      cbn [b64_encode]. rewrite !b64_sextets_enc, !b64_sextets_pad by (apply b64_e0_lt || apply b64_e1_lt; try assumption; reflexivity).
      cbn [b64_sextets flat_map b64_spec]. rewrite b64_bits0 by (try assumption; reflexivity). reflexivity.
    + cbn [all_byte forallb] in Hs. apply andb_prop in Hs. destruct Hs as [Ha Hs]. apply andb_prop in Hs. destruct Hs as [Hb _].
      apply b64_is_byte_lt in Ha, Hb.
      cbn [b64_encode]. rewrite !b64_sextets_enc, !b64_sextets_pad by (apply b64_e0_lt || apply b64_e1_lt || apply b64_e2_lt; try assumption; reflexivity).
      cbn [b64_sextets flat_map b64_spec]. rewrite b64_bits0 by assumption. rewrite b64_bits1 by (try assumption; reflexivity). reflexivity.
    + cbn [all_byte forallb] in Hs. apply andb_prop in Hs. destruct Hs as [Ha Hs]. apply andb_prop in Hs. destruct Hs as [Hb Hs].
      apply andb_prop in Hs. destruct Hs as [Hc Hr]. apply b64_is_byte_lt in Ha, Hb, Hc.
      cbn [b64_encode]. rewrite !b64_sextets_enc by (apply b64_e0_lt || apply b64_e1_lt || apply b64_e2_lt || apply b64_e3_lt; assumption).
      cbn [b64_spec]. rewrite b64_bits0, b64_bits1, b64_bits2 by assumption. do 3 f_equal.
      apply IH; [cbn [length] in Hn; lia|exact Hr].
Qed.

(* decoding the standard encoding of any non-empty byte string gives it back (for the empty string the
   function returns NULL: nothing was decoded) *)
Theorem b64_roundtrip s : all_byte s = true ->
  b64_decode_mem (b64_encode s) = match s with [] => None | _ => Some s end.
Proof.
  intros Hs. rewrite b64_mem_spec, b64_text_groups, (b64_roundtrip_text _ s (le_n _) Hs). destruct s; reflexivity.
Qed.

(* ------------------------------------------------------------------ htp_base64_decode used directly
   (any decoder state, any length_out, several calls): safe when the output block has at least
   length_out + 1 bytes; with exactly length_out bytes it is NOT (b64_decode_exact_block_refuted): the byte
   after the last complete one is stored before `--length_out == 0` is tested. *)
Definition b64_wf (st : b64_state) : Prop :=
  match b64_stp st with B64a => True | _ => b64_pc st <> None end.

Lemma b64_forallb_firstn_S (buf : list b64_cell) p x :
  p < length buf -> forallb b64_cell_set (firstn p buf) = true ->
  forallb b64_cell_set (firstn (S p) (upd buf p (Some x))) = true.
Proof. intros Hp H. rewrite au_upd_firstn_S by exact Hp. rewrite forallb_app, H. reflexivity. Qed.

Lemma b64_loop_safe : forall n rest stp (buf : list b64_cell) p lout st0,
  n <= length rest -> (0 < lout)%Z -> (Z.of_nat p + lout < Z.of_nat (length buf))%Z ->
  (stp <> B64a -> exists x, nth_error buf p = Some (Some x)) ->
  forallb b64_cell_set (firstn p buf) = true -> b64_wf st0 ->
  b64_fault (b64_loop n rest stp buf p lout st0) = false /\
  b64_wf (b64_dec (b64_loop n rest stp buf p lout st0)) /\
  forallb b64_cell_set (b64_cells_out (b64_loop n rest stp buf p lout st0)) = true.
Proof.
  induction n as [|n IH]; intros rest stp buf p lout st0 Hn Hl Hp Hcur Hset Hwf.
  - cbn [b64_loop]. unfold b64_cell in *. destruct (nth_error buf p) as [x|] eqn:E.
    + unfold b64_cells_out, b64_wf. cbn [b64_fault b64_dec b64_ret b64_buf b64_stp b64_pc]. repeat split; [|exact Hset].
      destruct stp; try exact I; destruct Hcur as [y Hy]; try discriminate; inversion Hy; discriminate.
    + apply nth_error_None in E. lia.
  - destruct rest as [|c r]; [cbn in Hn; lia|]. cbn [length] in Hn. apply le_S_n in Hn. cbn [b64_loop].
    destruct (b64_single c <? 0)%Z; [apply IH; assumption|].
    set (v := Z.to_N (b64_single c)).
    destruct stp.
    + destruct (b64_wr_spec buf p (Some ((N.shiftl (N.land v 63) 2) mod 256)%N)) as [[Hc Hw]|[Hc Hw]]; [|lia]. rewrite Hw.
      apply IH; try assumption.
      * rewrite au_upd_length. exact Hp.
      * intros _. eexists. apply au_upd_nth_same. exact Hc.
      * rewrite au_upd_firstn_ge by lia. exact Hset.
    + destruct (Hcur ltac:(discriminate)) as [x Hx]. unfold b64_or. rewrite Hx. pose proof (au_nth_error_lt _ _ _ Hx) as Hc.
      destruct (b64_wr_spec (upd buf p (Some (N.lor x (N.shiftr (N.land v 48) 4)))) (S p) (Some ((N.shiftl (N.land v 15) 4) mod 256)%N))
        as [[Hc1 Hw]|[Hc1 Hw]]; rewrite au_upd_length in Hc1; [|lia]. rewrite Hw.
      assert (Hs2 : forallb b64_cell_set (firstn (S p) (upd (upd buf p (Some (N.lor x (N.shiftr (N.land v 48) 4)))) (S p)
                                                      (Some ((N.shiftl (N.land v 15) 4) mod 256)%N))) = true).
      { rewrite au_upd_firstn_ge by lia. apply b64_forallb_firstn_S; assumption. }
      destruct (lout - 1 =? 0)%Z eqn:El; b2p.
      * unfold b64_cells_out. cbn [b64_fault b64_dec b64_ret b64_buf]. repeat split; assumption.
      * apply IH; try assumption; try lia.
        -- rewrite !au_upd_length. lia.
        -- intros _. eexists. apply au_upd_nth_same. rewrite au_upd_length. exact Hc1.
    + destruct (Hcur ltac:(discriminate)) as [x Hx]. unfold b64_or. rewrite Hx. pose proof (au_nth_error_lt _ _ _ Hx) as Hc.
      destruct (b64_wr_spec (upd buf p (Some (N.lor x (N.shiftr (N.land v 60) 2)))) (S p) (Some ((N.shiftl (N.land v 3) 6) mod 256)%N))
        as [[Hc1 Hw]|[Hc1 Hw]]; rewrite au_upd_length in Hc1; [|lia]. rewrite Hw.
      assert (Hs2 : forallb b64_cell_set (firstn (S p) (upd (upd buf p (Some (N.lor x (N.shiftr (N.land v 60) 2)))) (S p)
                                                      (Some ((N.shiftl (N.land v 3) 6) mod 256)%N))) = true).
      { rewrite au_upd_firstn_ge by lia. apply b64_forallb_firstn_S; assumption. }
      destruct (lout - 1 =? 0)%Z eqn:El; b2p.
      * unfold b64_cells_out. cbn [b64_fault b64_dec b64_ret b64_buf]. repeat split; assumption.
      * apply IH; try assumption; try lia.
        -- rewrite !au_upd_length. lia.
        -- intros _. eexists. apply au_upd_nth_same. rewrite au_upd_length. exact Hc1.
    + destruct (Hcur ltac:(discriminate)) as [x Hx]. unfold b64_or. rewrite Hx. pose proof (au_nth_error_lt _ _ _ Hx) as Hc.
      assert (Hs2 : forallb b64_cell_set (firstn (S p) (upd buf p (Some (N.lor x (N.land v 63))))) = true)
        by (apply b64_forallb_firstn_S; assumption).
      destruct (lout - 1 =? 0)%Z eqn:El; b2p.
      * unfold b64_cells_out. cbn [b64_fault b64_dec b64_ret b64_buf]. repeat split; assumption.
      * apply IH; try assumption; try lia.
        -- rewrite !au_upd_length. lia.
        -- intros H. exfalso. apply H. reflexivity.
Qed.

Theorem b64_decode_safe st data lin cap lout :
  b64_wf st -> lin <= length data -> (lout < Z.of_nat cap)%Z ->
  b64_fault (b64_decode st data lin cap lout) = false /\
  b64_wf (b64_dec (b64_decode st data lin cap lout)) /\
  forallb b64_cell_set (b64_cells_out (b64_decode st data lin cap lout)) = true.
Proof.
  intros Hwf Hlin Hcap. unfold b64_decode. destruct (lout <=? 0)%Z eqn:E; b2p.
  - unfold b64_cells_out. cbn [b64_fault b64_dec b64_ret b64_buf firstn forallb]. repeat split. exact Hwf.
  - destruct (b64_wr_spec (repeat None cap) 0 (b64_pc st)) as [[Hc Hw]|[Hc Hw]]; rewrite repeat_length in Hc; [|lia]. rewrite Hw.
    apply b64_loop_safe; try assumption.
    + rewrite au_upd_length, repeat_length. lia.
    + intros Hs. unfold b64_wf in Hwf. destruct (b64_pc st) as [x|] eqn:Ep.
      * exists x. apply au_upd_nth_same. rewrite repeat_length. exact Hc.
      * destruct (b64_stp st); congruence.
    + reflexivity.
Qed.

Lemma b64_init_wf : b64_wf b64_init. Proof. exact I. Qed.

(* any sequence of calls on one decoder, each with lin inside its input block and a block of more than
   length_out bytes: no call faults *)
Theorem b64_stream_safe : forall calls st, b64_wf st ->
  Forall (fun c : b64_call => let '(data, lin, cap, lout) := c in lin <= length data /\ (lout < Z.of_nat cap)%Z) calls ->
  length (b64_stream st calls) = length calls /\
  Forall (fun r => b64_fault r = false /\ forallb b64_cell_set (b64_cells_out r) = true) (b64_stream st calls).
Proof.
  induction calls as [|[[[data lin] cap] lout] cs IH]; intros st Hwf Hall.
  - split; [reflexivity|constructor].
  - inversion Hall as [|? ? Hhd Hrest]; subst. cbv beta iota in Hhd. destruct Hhd as [H1 H2]. cbn [b64_stream].
    destruct (b64_decode_safe st data lin cap lout Hwf H1 H2) as [Hf [Hw Hs]]. rewrite Hf.
    destruct (IH _ Hw Hrest) as [Hl Hr]. split; [cbn [length]; rewrite Hl; reflexivity|].
    constructor; [split; assumption|exact Hr].
Qed.

(* the contract "plaintext_out has length_out bytes" is not enough: "QQ" with length_out = 1 into a
   1-byte block stores plaintext_out[1] (unreachable through htp_base64_decode_mem, which never
   exhausts length_out: b64_mem_no_fault) *)
Example b64_decode_exact_block_refuted : b64_fault (b64_decode b64_init [81; 81]%N 2 1 1%Z) = true.
Proof. vm_compute. reflexivity. Qed.
Example b64_decode_one_more_ok : b64_fault (b64_decode b64_init [81; 81]%N 2 2 1%Z) = false.
Proof. vm_compute. reflexivity. Qed.

(* ================================================================== scanning ================= *)

Lemma au_skipn_cons {B} (d : list B) i c : nth_error d i = Some c -> skipn i d = c :: skipn (S i) d.
Proof.
  revert i. induction d as [|h t IH]; intros [|i] H; cbn in *; try discriminate.
  - inversion H. reflexivity.
  - apply IH. exact H.
Qed.
Lemma au_nth_error_in {B} (d : list B) i : i < length d -> exists c, nth_error d i = Some c.
Proof. intros H. destruct (nth_error d i) eqn:E; [eauto|]. apply nth_error_None in E. lia. Qed.

(* termination and range: the fuel S (len - pos) is enough, no read leaves the block, pos <= result <= len *)
Lemma au_scan_idx P : forall fuel d len pos, len <= length d -> pos <= len -> len - pos < fuel ->
  exists pos', au_scan P fuel d len pos = Some (pos', false) /\ pos <= pos' <= len.
Proof.
  induction fuel as [|f IH]; intros d len pos Hl Hp Hf; [lia|]. cbn [au_scan].
  destruct (pos <? len) eqn:E; b2p.
  - destruct (au_nth_error_in d pos ltac:(lia)) as [c Hc]. rewrite Hc. destruct (P c).
    + destruct (IH d len (S pos) Hl ltac:(lia) ltac:(lia)) as [p' [H1 H2]]. exists p'. split; [exact H1|lia].
    + exists pos. split; [reflexivity|lia].
  - exists pos. split; [reflexivity|lia].
Qed.
Lemma au_scan_run_idx P d len pos : len <= length d -> pos <= len ->
  exists pos', au_scan_run P d len pos = (pos', false) /\ pos <= pos' <= len.
Proof.
  intros Hl Hp. unfold au_scan_run. destruct (au_scan_idx P (S (len - pos)) d len pos Hl Hp ltac:(lia)) as [p' [H1 H2]].
  rewrite H1. exists p'. split; [reflexivity|exact H2].
Qed.
Theorem au_scan_fuel P d len pos : len <= length d -> pos <= len -> au_scan P (S (len - pos)) d len pos <> None.
Proof. intros Hl Hp. destruct (au_scan_idx P (S (len - pos)) d len pos Hl Hp ltac:(lia)) as [p' [H1 _]]. congruence. Qed.

(* over the whole block the scan is drop_while *)
Lemma au_scan_drop P : forall fuel d pos, pos <= length d -> length d - pos < fuel ->
  exists pos', au_scan P fuel d (length d) pos = Some (pos', false) /\ pos <= pos' <= length d /\
               skipn pos' d = drop_while P (skipn pos d).
Proof.
  induction fuel as [|f IH]; intros d pos Hp Hf; [lia|]. cbn [au_scan].
  destruct (pos <? length d) eqn:E; b2p.
  - destruct (au_nth_error_in d pos E) as [c Hc]. rewrite Hc, (au_skipn_cons d pos c Hc). cbn [drop_while].
    destruct (P c).
    + destruct (IH d (S pos) ltac:(lia) ltac:(lia)) as [p' [H1 [H2 H3]]]. exists p'. repeat split; try assumption; lia.
    + exists pos. repeat split; try lia. apply au_skipn_cons. exact Hc.
  - exists pos. assert (pos = length d) by lia. subst pos. repeat split; try lia. rewrite skipn_all. reflexivity.
Qed.
Lemma au_scan_run_drop P d pos : pos <= length d ->
  exists pos', au_scan_run P d (length d) pos = (pos', false) /\ pos <= pos' <= length d /\
               skipn pos' d = drop_while P (skipn pos d).
Proof.
  intros Hp. unfold au_scan_run. destruct (au_scan_drop P (S (length d - pos)) d pos Hp ltac:(lia)) as [p' [H1 H2]].
  rewrite H1. exists p'. split; [reflexivity|exact H2].
Qed.

(* ================================================================== quoted string ============= *)

(* s = the bytes after the opening quote. The text up to the first quote that is not the second byte of a
   backslash pair, each backslash pair (backslash, x) replaced by x -- ANY x, not only quote/backslash;
   None = no such closing quote (a backslash as the very last byte is an ordinary byte that ends the input) *)
Fixpoint au_unq (s : bytes) : option bytes :=
  match s with
  | [] => None
  | c :: r =>
      if (c =? au_BSLASH)%N then
        match r with
        | x :: r' => option_map (cons x) (au_unq r')
        | [] => None
        end
      else if (c =? au_DQUOTE)%N then Some []
      else option_map (cons c) (au_unq r)
  end.

Lemma au_q_len_spec : forall fuel d pos esc, pos <= length d -> length d - pos < fuel ->
  match au_unq (skipn pos d) with
  | None => exists esc', au_q_len fuel d (length d) pos esc = Some (length d, esc', false)
  | Some u => exists pos' esc', au_q_len fuel d (length d) pos esc = Some (pos', esc', false) /\
                pos' < length d /\ esc <= esc' /\ pos' = pos + length u + (esc' - esc)
  end.
Proof.
  induction fuel as [|f IH]; intros d pos esc Hp Hf; [lia|]. cbn [au_q_len].
  destruct (pos <? length d) eqn:E; b2p.
  - destruct (au_nth_error_in d pos E) as [c Hc]. rewrite Hc, (au_skipn_cons d pos c Hc). cbn [au_unq].
    destruct (c =? au_BSLASH)%N.
    + destruct (S pos <? length d) eqn:E2; b2p.
      * destruct (au_nth_error_in d (S pos) E2) as [x Hx]. rewrite (au_skipn_cons d (S pos) x Hx).
        specialize (IH d (S (S pos)) (S esc) ltac:(lia) ltac:(lia)).
        destruct (au_unq (skipn (S (S pos)) d)) as [u|]; cbn [option_map].
        -- destruct IH as [p' [e' [H1 [H2 [H3 H4]]]]]. exists p', e'. cbn [length]. repeat split; try assumption; lia.
        -- exact IH.
      * assert (Hs : skipn (S pos) d = []) by (apply skipn_all2; lia). rewrite Hs.
        specialize (IH d (S pos) esc ltac:(lia) ltac:(lia)). rewrite Hs in IH. cbn [au_unq] in IH. exact IH.
    + destruct (c =? au_DQUOTE)%N.
      * exists pos, esc. cbn [length]. repeat split; try lia.
      * specialize (IH d (S pos) esc ltac:(lia) ltac:(lia)).
        destruct (au_unq (skipn (S pos) d)) as [u|]; cbn [option_map].
        -- destruct IH as [p' [e' [H1 [H2 [H3 H4]]]]]. exists p', e'. cbn [length]. repeat split; try assumption; lia.
        -- exact IH.
  - assert (pos = length d) by lia. subst pos. rewrite skipn_all. cbn [au_unq]. exists esc. reflexivity.
Qed.

Lemma au_q_copy_spec : forall fuel d pos outlen out u, pos <= length d -> length d - pos < fuel ->
  au_unq (skipn pos d) = Some u -> length out + length u = outlen ->
  exists pos', au_q_copy fuel d (length d) pos outlen out = Some (rev out ++ u, pos', false).
Proof.
  induction fuel as [|f IH]; intros d pos outlen out u Hp Hf Hu Hlen; [lia|]. cbn [au_q_copy].
  destruct (pos <? length d) eqn:E; b2p.
  - destruct (au_nth_error_in d pos E) as [c Hc]. rewrite (au_skipn_cons d pos c Hc) in Hu. cbn [au_unq] in Hu.
    destruct (length out <? outlen) eqn:E1; b2p; cbn [andb].
    + rewrite Hc. destruct (c =? au_BSLASH)%N.
      * destruct (S pos <? length d) eqn:E2; b2p.
        -- destruct (au_nth_error_in d (S pos) E2) as [x Hx]. rewrite Hx. rewrite (au_skipn_cons d (S pos) x Hx) in Hu.
           destruct (au_unq (skipn (S (S pos)) d)) as [u'|] eqn:Eu; cbn [option_map] in Hu; [|discriminate].
           inversion Hu; subst u.
           destruct (IH d (S (S pos)) outlen (x :: out) u' ltac:(lia) ltac:(lia) Eu ltac:(cbn [length] in *; lia)) as [p' H].
           exists p'. rewrite H. cbn [rev]. rewrite <- app_assoc. reflexivity.
        -- assert (Hs : skipn (S pos) d = []) by (apply skipn_all2; lia). rewrite Hs in Hu. discriminate.
      * destruct (c =? au_DQUOTE)%N.
        -- inversion Hu; subst u. exists pos. rewrite app_nil_r. reflexivity.
        -- destruct (au_unq (skipn (S pos) d)) as [u'|] eqn:Eu; cbn [option_map] in Hu; [|discriminate].
           inversion Hu; subst u.
           destruct (IH d (S pos) outlen (c :: out) u' ltac:(lia) ltac:(lia) Eu ltac:(cbn [length] in *; lia)) as [p' H].
           exists p'. rewrite H. cbn [rev]. rewrite <- app_assoc. reflexivity.
    + (* outpos = outlen: all of u has been copied *)
      assert (u = []) by (destruct u; [reflexivity|cbn [length] in Hlen; lia]). subst u.
      exists pos. rewrite app_nil_r. reflexivity.
  - assert (pos = length d) by lia. subst pos. rewrite skipn_all in Hu. discriminate.
Qed.

(* htp_extract_quoted_string_as_bstr: no fault, both loops within their fuel, the subtraction
   pos - 1 - escaped_chars does not wrap, exactly outlen bytes are stored, and the result is au_unq *)
Theorem au_quoted_spec d :
  au_quoted d (length d) =
    match d with
    | [] => (c_HTP_DECLINED, None, false)
    | c :: s =>
        if negb (c =? au_DQUOTE)%N then (c_HTP_DECLINED, None, false)
        else match au_unq s with
             | None => (c_HTP_DECLINED, None, false)
             | Some u => (c_HTP_OK, Some u, false)
             end
    end.
Proof.
  unfold au_quoted. destruct d as [|c s]; [reflexivity|].
  change (length (c :: s) =? 0) with false. cbv iota. cbn [nth_error].
  destruct (negb (c =? au_DQUOTE)%N); [reflexivity|].
  destruct (1 =? length (c :: s)) eqn:E1; b2p.
  - destruct s; [reflexivity|cbn [length] in E1; lia].
  - pose proof (au_q_len_spec (S (length (c :: s))) (c :: s) 1 0 ltac:(cbn [length]; lia) ltac:(lia)) as H.
    change (skipn 1 (c :: s)) with s in H.
    destruct (au_unq s) as [u|] eqn:Eu.
    + destruct H as [p' [e' [H1 [H2 [H3 H4]]]]]. rewrite H1.
      destruct (p' =? length (c :: s)) eqn:E2; b2p; [lia|].
      destruct (p' <? 1 + e') eqn:E3; b2p; [lia|].
      destruct (au_q_copy_spec (S (length (c :: s))) (c :: s) 1 (p' - 1 - e') [] u ltac:(cbn [length]; lia) ltac:(lia) Eu
                  ltac:(cbn [length]; lia)) as [p2 H5].
      rewrite H5. cbn [rev app]. replace (length u =? p' - 1 - e') with true by (symmetry; apply Nat.eqb_eq; lia).
      reflexivity.
    + destruct H as [e' H1]. rewrite H1. rewrite Nat.eqb_refl. reflexivity.
Qed.

Theorem au_quoted_no_fault d : snd (au_quoted d (length d)) = false.
Proof.
  rewrite au_quoted_spec. destruct d as [|c s]; [reflexivity|]. destruct (negb (c =? au_DQUOTE)%N); [reflexivity|].
  destruct (au_unq s); reflexivity.
Qed.

(* au_unq, characterised: the input is tokens ++ quote :: rest where no token is a bare quote *)
Inductive au_tok : bytes -> N -> Prop :=
  | au_tok_esc x : au_tok [au_BSLASH; x] x
  | au_tok_plain c : c <> au_BSLASH -> c <> au_DQUOTE -> au_tok [c] c.
Inductive au_toks : bytes -> bytes -> Prop :=
  | au_toks_nil : au_toks [] []
  | au_toks_cons t x ts u : au_tok t x -> au_toks ts u -> au_toks (t ++ ts) (x :: u).

Theorem au_unq_sound : forall n s u, length s <= n -> au_unq s = Some u ->
  exists body rest, s = body ++ au_DQUOTE :: rest /\ au_toks body u.
Proof.
  induction n as [|n IH]; intros s u Hn H; (destruct s as [|c r]; [discriminate|]); [cbn in Hn; lia|].
  cbn [au_unq] in H. cbn [length] in Hn. destruct (c =? au_BSLASH)%N eqn:Eb.
  - apply N.eqb_eq in Eb. subst c. destruct r as [|x r']; [discriminate|].
    destruct (au_unq r') as [u'|] eqn:Eu; [|discriminate]. cbn [option_map] in H. inversion H; subst u.
    destruct (IH r' u' ltac:(cbn [length] in Hn; lia) Eu) as [body [rest [H1 H2]]]. subst r'.
    exists ([au_BSLASH; x] ++ body), rest. split; [reflexivity|]. constructor; [constructor|exact H2].
  - destruct (c =? au_DQUOTE)%N eqn:Eq.
    + apply N.eqb_eq in Eq. subst c. inversion H; subst u. exists [], r. split; [reflexivity|constructor].
    + destruct (au_unq r) as [u'|] eqn:Eu; [|discriminate]. cbn [option_map] in H. inversion H; subst u.
      destruct (IH r u' ltac:(lia) Eu) as [body [rest [H1 H2]]]. subst r.
      exists ([c] ++ body), rest. split; [reflexivity|]. constructor; [|exact H2].
      constructor; apply N.eqb_neq; assumption.
Qed.

(* ================================================================== Authorization ============= *)

Lemma au_begins_length h : forall n, begins_with_mem_nocase h n = true -> length n <= length h.
Proof.
  induction h as [|x h IH]; intros [|y n] H; cbn in *; try lia; try discriminate.
  destruct (c_tolower x =? c_tolower y)%N; [|discriminate]. apply IH in H. lia.
Qed.

(* the two sides of the first ':' *)
Fixpoint au_split_colon (s : bytes) : option (bytes * bytes) :=
  match s with
  | [] => None
  | c :: r =>
      if (c =? au_COLON)%N then Some ([], r)
      else match au_split_colon r with Some (u, p) => Some (c :: u, p) | None => None end
  end.

Lemma au_split_colon_spec s :
  match au_split_colon s with
  | None => ~ In au_COLON s
  | Some (u, p) => s = u ++ au_COLON :: p /\ ~ In au_COLON u
  end.
Proof.
  induction s as [|c r IH]; cbn [au_split_colon]; [intros []|].
  destruct (c =? au_COLON)%N eqn:E.
  - apply N.eqb_eq in E. subst c. split; [reflexivity|intros []].
  - apply N.eqb_neq in E. destruct (au_split_colon r) as [[u p]|].
    + destruct IH as [H1 H2]. split; [cbn; f_equal; exact H1|]. intros [H|H]; [congruence|auto].
    + intros [H|H]; [congruence|auto].
Qed.

Lemma au_colon_index : forall s i0,
  match au_split_colon s with
  | None => index_from s [au_COLON] i0 = (-1)%Z
  | Some (u, p) => index_from s [au_COLON] i0 = (i0 + Z.of_nat (length u))%Z
  end.
Proof.
  induction s as [|c r IH]; intros i0; cbn [au_split_colon index_from match_at]; [reflexivity|].
  destruct (c =? au_COLON)%N.
  - destruct r; cbn [match_at length]; lia.
  - specialize (IH (i0 + 1)%Z). destruct (au_split_colon r) as [[u p]|]; [|exact IH]. rewrite IH. cbn [length]. lia.
Qed.

Lemma au_sub_all d pos : pos <= length d -> au_sub d pos (length d - pos) = (skipn pos d, false).
Proof.
  intros H. unfold au_sub. f_equal.
  - apply firstn_all2. rewrite skipn_length. lia.
  - apply Nat.ltb_ge. lia.
Qed.

Definition au_declined (ty : Z) : au_res := mk_au_res c_HTP_DECLINED ty None None false.

(* Basic: white space after the 5-byte scheme is skipped; nothing left -> DECLINED; the rest is
   base64-decoded (b64_decode_mem: characters outside the alphabet skipped); nothing decoded -> HTP_ERROR;
   no ':' in the decoded text -> DECLINED; else username / password = the two sides of the FIRST ':' *)
Theorem au_basic_spec ty v : 5 <= length v ->
  au_basic ty v =
    match drop_while c_isspace (skipn 5 v) with
    | [] => au_declined ty
    | rest =>
        match b64_decode_mem rest with
        | None => mk_au_res c_HTP_ERROR ty None None false
        | Some dec =>
            match au_split_colon dec with
            | None => au_declined ty
            | Some (u, p) => mk_au_res c_HTP_OK ty (Some u) (Some p) false
            end
        end
    end.
Proof.
  intros H5. unfold au_basic. destruct (au_scan_run_drop c_isspace v 5 H5) as [pos [Hs [Hr Hd]]]. rewrite Hs, <- Hd.
  cbv iota beta. destruct (pos =? length v) eqn:E; b2p.
  - subst pos. rewrite skipn_all. reflexivity.
  - destruct (length v <? pos) eqn:E2; b2p; [lia|]. rewrite (au_sub_all v pos ltac:(lia)). cbv iota beta.
    rewrite b64_mem_no_fault. cbn [orb].
    destruct (skipn pos v) as [|c0 r0] eqn:Ek; [apply (f_equal (@length N)) in Ek; rewrite skipn_length in Ek; cbn in Ek; lia|].
    destruct (b64_decode_mem (c0 :: r0)) as [dec|]; [|reflexivity].
    unfold index_of_mem. pose proof (au_colon_index dec 0%Z) as Hi. pose proof (au_split_colon_spec dec) as Hc.
    destruct (au_split_colon dec) as [[u p]|].
    + rewrite Hi. destruct Hc as [Hc _]. cbn [Z.add]. destruct (Z.of_nat (length u) =? -1)%Z eqn:E3; b2p; [lia|].
      rewrite Nat2Z.id. unfold au_sub. cbn [skipn]. subst dec. rewrite app_length. cbn [length].
      rewrite firstn_app, firstn_all, Nat.sub_diag. cbn [firstn]. rewrite app_nil_r.
      replace (skipn (length u + 1) (u ++ au_COLON :: p)) with p
        by (rewrite skipn_app, skipn_all2 by lia; replace (length u + 1 - length u) with 1 by lia; reflexivity).
      replace (length u + S (length p) - length u - 1) with (length p) by lia. rewrite firstn_all.
      replace (length u + S (length p) <? 0 + length u) with false by (symmetry; apply Nat.ltb_ge; lia).
      replace (length u + S (length p) <? length u + 1 + length p) with false by (symmetry; apply Nat.ltb_ge; lia).
      replace (Z.of_nat (length u) <? 0)%Z with false by (symmetry; apply Z.ltb_ge; lia).
      replace (length u + S (length p) <? length u + 1) with false by (symmetry; apply Nat.ltb_ge; lia).
      reflexivity.
    + rewrite Hi. reflexivity.
Qed.

(* Digest: the FIRST occurrence of the 9 bytes `username=` (case sensitive, anywhere in the value) is
   taken; white space after it is skipped; the next byte must be a double quote; the user name is au_unq
   of what follows (DECLINED when there is no closing quote); the password stays NULL *)
Theorem au_digest_spec ty v :
  au_digest ty v =
    if (index_of_mem v au_s_username =? -1)%Z then au_declined ty
    else match drop_while c_isspace (skipn (Z.to_nat (index_of_mem v au_s_username) + 9) v) with
         | [] => au_declined ty
         | c :: s =>
             if negb (c =? au_DQUOTE)%N then au_declined ty
             else match au_unq s with
                  | None => au_declined ty
                  | Some u => mk_au_res c_HTP_OK ty (Some u) None false
                  end
         end.
Proof.
  unfold au_digest. destruct (index_of_mem_spec v au_s_username) as [[Hi _]|[k [Hk [Hi [Hp _]]]]]; rewrite Hi.
  - reflexivity.
  - destruct (Z.of_nat k =? -1)%Z eqn:E; b2p; [lia|]. rewrite Nat2Z.id.
    assert (Hk9 : k + 9 <= length v).
    { destruct Hp as [t Ht]. apply (f_equal (@length N)) in Ht. rewrite skipn_length, app_length in Ht.
      change (length au_s_username) with 9 in Ht. lia. }
    destruct (au_scan_run_drop c_isspace v (k + 9) Hk9) as [pos [Hs [Hr Hd]]]. rewrite Hs, <- Hd. cbv iota beta.
    replace (Z.of_nat k <? 0)%Z with false by (symmetry; apply Z.ltb_ge; lia). cbn [orb].
    destruct (pos =? length v) eqn:E1; b2p.
    + subst pos. rewrite skipn_all. reflexivity.
    + destruct (au_nth_error_in v pos ltac:(lia)) as [c Hc]. rewrite Hc, (au_skipn_cons v pos c Hc).
      destruct (negb (c =? au_DQUOTE)%N) eqn:Eq; [reflexivity|].
      destruct (length v <? pos) eqn:E2; b2p; [lia|]. rewrite (au_sub_all v pos ltac:(lia)). cbv iota beta.
      replace (length v - pos) with (length (skipn pos v)) by (rewrite skipn_length; reflexivity).
      rewrite au_quoted_spec, (au_skipn_cons v pos c Hc), Eq.
      destruct (au_unq (skipn (S pos) v)); reflexivity.
Qed.

(* ... in terms of the text: v = pre ++ "username=" ++ post with no earlier occurrence *)
Corollary au_digest_first_username ty pre post :
  (forall j, j < length pre -> ~ is_prefix au_s_username (skipn j (pre ++ au_s_username ++ post))) ->
  au_digest ty (pre ++ au_s_username ++ post) =
    match drop_while c_isspace post with
    | [] => au_declined ty
    | c :: s =>
        if negb (c =? au_DQUOTE)%N then au_declined ty
        else match au_unq s with
             | None => au_declined ty
             | Some u => mk_au_res c_HTP_OK ty (Some u) None false
             end
    end.
Proof.
  intros Hfirst. rewrite au_digest_spec. set (v := pre ++ au_s_username ++ post) in *.
  assert (Hocc : is_prefix au_s_username (skipn (length pre) v)).
  { unfold v. rewrite skipn_app, skipn_all, Nat.sub_diag. cbn [skipn app]. exists post. reflexivity. }
  destruct (index_of_mem_spec v au_s_username) as [[Hi Hno]|[k [Hk [Hi [Hp Hmin]]]]].
  - exfalso. apply (Hno (length pre)); [|exact Hocc]. unfold v. rewrite !app_length. change (length au_s_username) with 9. lia.
  - rewrite Hi. destruct (Z.of_nat k =? -1)%Z eqn:E; b2p; [lia|]. rewrite Nat2Z.id.
    assert (k = length pre).
    { destruct (Nat.lt_trichotomy k (length pre)) as [H|[H|H]]; [|exact H|].
      - exfalso. exact (Hfirst k H Hp).
      - exfalso. exact (Hmin (length pre) H Hocc). }
    subst k. replace (skipn (length pre + 9) v) with post; [reflexivity|].
    unfold v. rewrite skipn_app, skipn_all2 by lia. replace (length pre + 9 - length pre) with 9 by lia. reflexivity.
Qed.

Theorem au_bearer_spec ty v : 6 <= length v ->
  au_bearer ty v = match drop_while c_isspace (skipn 6 v) with
                   | [] => au_declined ty
                   | _ => mk_au_res c_HTP_OK ty None None false
                   end.
Proof.
  intros H6. unfold au_bearer. destruct (au_scan_run_drop c_isspace v 6 H6) as [pos [Hs [Hr Hd]]]. rewrite Hs, <- Hd.
  cbv iota beta. destruct (pos =? length v) eqn:E; b2p.
  - subst pos. rewrite skipn_all. reflexivity.
  - destruct (skipn pos v) eqn:Ek; [apply (f_equal (@length N)) in Ek; rewrite skipn_length in Ek; cbn in Ek; lia|reflexivity].
Qed.

Lemma au_basic_no_fault ty v : 5 <= length v -> au_fault (au_basic ty v) = false.
Proof.
  intros H. rewrite (au_basic_spec ty v H). destruct (drop_while c_isspace (skipn 5 v)); [reflexivity|].
  destruct (b64_decode_mem _); [|reflexivity]. destruct (au_split_colon _) as [[u p]|]; reflexivity.
Qed.
Lemma au_digest_no_fault ty v : au_fault (au_digest ty v) = false.
Proof.
  rewrite au_digest_spec. destruct (_ =? _)%Z; [reflexivity|]. destruct (drop_while _ _); [reflexivity|].
  destruct (negb _); [reflexivity|]. destruct (au_unq _); reflexivity.
Qed.
Lemma au_bearer_no_fault ty v : 6 <= length v -> au_fault (au_bearer ty v) = false.
Proof. intros H. rewrite (au_bearer_spec ty v H). destruct (drop_while _ _); reflexivity. Qed.

(* C01 anchor: htp_parse_authorization never leaves the header value / the decoded text / its output
   blocks, for every header value (and for no header) *)
Theorem au_no_fault hdr : au_fault (au_parse_authorization hdr) = false.
Proof.
  destruct hdr as [v|]; [|reflexivity]. cbn [au_parse_authorization].
  destruct (begins_with_mem_nocase v au_s_basic) eqn:E1.
  - apply au_basic_no_fault. apply au_begins_length in E1. exact E1.
  - destruct (begins_with_mem_nocase v au_s_digest) eqn:E2; [apply au_digest_no_fault|].
    destruct (begins_with_mem_nocase v au_s_bearer) eqn:E3; [|reflexivity].
    apply au_bearer_no_fault. apply au_begins_length in E3. exact E3.
Qed.

(* the sub-parsers rely on the dispatcher's length guarantee: called alone on a shorter value,
   htp_parse_authorization_basic computes len - pos with pos = 5 > len *)
Example au_basic_alone_refuted : au_fault (au_basic c_au_AUTH_UNKNOWN [66; 97]%N) = true.
Proof. vm_compute. reflexivity. Qed.

(* the type recorded in the transaction *)
Theorem au_type_spec hdr :
  au_type (au_parse_authorization hdr) =
    match hdr with
    | None => c_au_AUTH_NONE
    | Some v => if begins_with_mem_nocase v au_s_basic then c_au_AUTH_BASIC
                else if begins_with_mem_nocase v au_s_digest then c_au_AUTH_DIGEST
                else if begins_with_mem_nocase v au_s_bearer then c_au_AUTH_BEARER
                else c_au_AUTH_UNRECOGNIZED
    end.
Proof.
  destruct hdr as [v|]; [|reflexivity]. cbn [au_parse_authorization].
  destruct (begins_with_mem_nocase v au_s_basic) eqn:E1.
  - rewrite (au_basic_spec _ v (au_begins_length _ _ E1)). destruct (drop_while _ _); [reflexivity|].
    destruct (b64_decode_mem _); [|reflexivity]. destruct (au_split_colon _) as [[u p]|]; reflexivity.
  - destruct (begins_with_mem_nocase v au_s_digest) eqn:E2.
    + rewrite au_digest_spec. destruct (_ =? _)%Z; [reflexivity|]. destruct (drop_while _ _); [reflexivity|].
      destruct (negb _); [reflexivity|]. destruct (au_unq _); reflexivity.
    + destruct (begins_with_mem_nocase v au_s_bearer) eqn:E3; [|reflexivity].
      rewrite (au_bearer_spec _ v (au_begins_length _ _ E3)). destruct (drop_while _ _); reflexivity.
Qed.

(* ================================================================== Cookie ==================== *)

(* entries in input order, pairwise disjoint, inside [lo, hi): lo <= name (non-empty) <= value <= next ... <= hi *)
Fixpoint ck_sorted (lo : nat) (es : list ck_ent) (hi : nat) : Prop :=
  match es with
  | [] => lo <= hi
  | (no, nl, vo, vl) :: r => lo <= no /\ 0 < nl /\ no + nl <= vo /\ ck_sorted (vo + vl) r hi
  end.

Lemma ck_sorted_weaken es : forall lo lo' hi, lo' <= lo -> ck_sorted lo es hi -> ck_sorted lo' es hi.
Proof.
  destruct es as [|[[[no nl] vo] vl] r]; intros lo lo' hi H Hs; cbn [ck_sorted] in *; [lia|].
  destruct Hs as [H1 H2]. split; [lia|exact H2].
Qed.
Lemma ck_sorted_le es : forall lo hi, ck_sorted lo es hi -> lo <= hi.
Proof.
  induction es as [|[[[no nl] vo] vl] r IH]; intros lo hi Hs; cbn [ck_sorted] in Hs; [exact Hs|].
  destruct Hs as [H1 [H2 [H3 H4]]]. apply IH in H4. lia.
Qed.

Lemma ck_single_spec d start len : start + len <= length d ->
  exists e, ck_single d start len = (e, false) /\
    match e with
    | None => True
    | Some (no, nl, vo, vl) => no = start /\ 0 < nl /\ no + nl <= vo /\ vo + vl <= start + len
    end.
Proof.
  intros H. unfold ck_single. destruct (len =? 0) eqn:E0; b2p; [exists None; split; [reflexivity|exact I]|].
  destruct (au_scan_run_idx (fun c => negb (c =? ck_EQ)%N) d (start + len) start H ltac:(lia)) as [p [Hs Hr]]. rewrite Hs.
  cbv iota beta. destruct (p - start =? 0) eqn:E1; b2p; [exists None; split; [reflexivity|exact I]|].
  destruct (p - start =? len) eqn:E2; b2p.
  - eexists. split; [reflexivity|]. cbv iota beta. lia.
  - destruct (len <? p - start + 1) eqn:E3; b2p; [lia|]. eexists. split; [reflexivity|]. cbv iota beta. lia.
Qed.

Lemma ck_loop_spec : forall fuel d pos acc, pos <= length d -> length d - pos < fuel ->
  exists es, ck_loop fuel d (length d) pos acc = Some (rev acc ++ es, false) /\ ck_sorted pos es (length d).
Proof.
  induction fuel as [|f IH]; intros d pos acc Hp Hf; [lia|]. cbn [ck_loop].
  destruct (pos <? length d) eqn:E; b2p.
  - destruct (au_scan_run_idx c_isspace d (length d) pos (le_n _) Hp) as [p1 [Hs1 Hr1]]. rewrite Hs1. cbv iota beta.
    destruct (p1 =? length d) eqn:E1; b2p.
    + exists []. rewrite app_nil_r. split; [reflexivity|]. cbn [ck_sorted]. lia.
    + destruct (au_scan_run_idx (fun c => negb (c =? ck_SEMI)%N) d (length d) p1 (le_n _) ltac:(lia)) as [p2 [Hs2 Hr2]].
      rewrite Hs2. cbv iota beta. destruct (p2 <? p1) eqn:E2; b2p; [lia|]. cbn [orb].
      destruct (ck_single_spec d p1 (p2 - p1) ltac:(lia)) as [e [He Hent]]. rewrite He. cbv iota beta.
      set (p3 := if p2 <? length d then S p2 else p2).
      assert (Hp3 : p2 <= p3 /\ pos < p3 /\ p3 <= length d) by (unfold p3; destruct (p2 <? length d) eqn:E3; b2p; lia).
      destruct e as [[[[no nl] vo] vl]|]; cbv iota beta.
      * destruct (IH d p3 ((no, nl, vo, vl) :: acc) ltac:(lia) ltac:(lia)) as [es [H1 H2]].
        exists ((no, nl, vo, vl) :: es). split; [etransitivity; [exact H1|]; cbn [rev]; rewrite <- app_assoc; reflexivity|].
        cbn [ck_sorted]. destruct Hent as [Ha [Hb [Hc Hd]]]. repeat split; try lia.
        apply (ck_sorted_weaken es p3); [lia|exact H2].
      * destruct (IH d p3 acc ltac:(lia) ltac:(lia)) as [es [H1 H2]].
        exists es. split; [exact H1|]. apply (ck_sorted_weaken es p3); [lia|exact H2].
  - exists []. rewrite app_nil_r. split; [reflexivity|]. cbn [ck_sorted]. lia.
Qed.

(* terminates within the fuel the model gives it, no fault, entries ordered and disjoint inside the value *)
Theorem ck_entries_sorted v : exists es, ck_entries v = Some (es, false) /\ ck_sorted 0 es (length v).
Proof. unfold ck_entries. destruct (ck_loop_spec (S (length v)) v 0 [] ltac:(lia) ltac:(lia)) as [es H]. exists es. exact H. Qed.

Theorem ck_fuel_sufficient v : ck_entries v <> None.
Proof. destruct (ck_entries_sorted v) as [es [H _]]. congruence. Qed.

Lemma ck_sorted_in v es : forall lo, ck_sorted lo es (length v) -> forallb (ck_ent_in v) es = true.
Proof.
  induction es as [|[[[no nl] vo] vl] r IH]; intros lo Hs; [reflexivity|]. cbn [ck_sorted] in Hs.
  destruct Hs as [H1 [H2 [H3 H4]]]. cbn [forallb]. rewrite (IH _ H4). pose proof (ck_sorted_le _ _ _ H4) as H5.
  unfold ck_ent_in. replace (no + nl <=? length v) with true by (symmetry; apply Nat.leb_le; lia).
  replace (vo + vl <=? length v) with true by (symmetry; apply Nat.leb_le; lia). reflexivity.
Qed.

(* C01 anchor: htp_parse_cookies_v0 never leaves the header value, for every value (and for no header) *)
Theorem ck_no_fault hdr : ck_fault (ck_parse_cookies_v0 hdr) = false.
Proof.
  destruct hdr as [v|]; [|reflexivity]. cbn [ck_parse_cookies_v0]. destruct (ck_entries_sorted v) as [es [H1 H2]].
  rewrite H1. cbn [ck_fault orb]. rewrite (ck_sorted_in v es 0 H2). reflexivity.
Qed.

(* the table: always HTP_OK; exactly the slices named by the ordered entries, in that order *)
Theorem ck_table_spec v : exists es, ck_sorted 0 es (length v) /\
  ck_parse_cookies_v0 (Some v) = mk_ck_res c_HTP_OK (Some (map (ck_pair v) es)) false.
Proof.
  destruct (ck_entries_sorted v) as [es [H1 H2]]. exists es. split; [exact H2|]. cbn [ck_parse_cookies_v0].
  rewrite H1, (ck_sorted_in v es 0 H2). reflexivity.
Qed.

(* every name and value is a contiguous slice v[off, off + length) of the header value; names are not empty *)
Lemma ck_slice_length v off n : off + n <= length v -> length (ck_slice v off n) = n.
Proof. intros H. unfold ck_slice. rewrite firstn_length, skipn_length. lia. Qed.

Theorem ck_pairs_are_slices v tbl : ck_table (ck_parse_cookies_v0 (Some v)) = Some tbl ->
  forall name value, In (name, value) tbl ->
    name <> [] /\
    exists noff voff, name = ck_slice v noff (length name) /\ value = ck_slice v voff (length value) /\
                      noff + length name <= voff /\ voff + length value <= length v.
Proof.
  destruct (ck_table_spec v) as [es [Hs He]]. unfold bytes in *. rewrite He. cbn [ck_table]. intros Ht. inversion Ht; subst tbl. clear Ht He.
  revert Hs. generalize 0 as lo. induction es as [|[[[no nl] vo] vl] r IH]; intros lo Hs name value Hin; [destruct Hin|].
  cbn [ck_sorted] in Hs. destruct Hs as [H1 [H2 [H3 H4]]]. pose proof (ck_sorted_le _ _ _ H4) as H5.
  destruct Hin as [Hin|Hin]; [|exact (IH _ H4 name value Hin)].
  cbn [ck_pair] in Hin. inversion Hin; subst name value. rewrite !ck_slice_length by lia. split.
  - intros Hn. apply (f_equal (@length N)) in Hn. rewrite ck_slice_length in Hn by lia. cbn in Hn. lia.
  - exists no, vo. repeat split; lia.
Qed.

(* ------------------------------------------------------------------ the cookie table, declaratively *)
Definition ck_not (x c : N) : bool := negb (c =? x)%N.

(* a scan in list form: it stops after the longest prefix of the block [pos, len) whose bytes satisfy P *)
Lemma au_scan_list P : forall fuel d len pos, len <= length d -> pos <= len -> len - pos < fuel ->
  au_scan P fuel d len pos = Some (pos + length (take_while P (firstn (len - pos) (skipn pos d))), false).
Proof.
  induction fuel as [|f IH]; intros d len pos Hl Hp Hf; [lia|]. cbn [au_scan].
  destruct (pos <? len) eqn:E; b2p.
  - destruct (au_nth_error_in d pos ltac:(lia)) as [c Hc]. rewrite Hc, (au_skipn_cons d pos c Hc).
    replace (len - pos) with (S (len - S pos)) by lia. cbn [firstn take_while]. destruct (P c).
    + rewrite (IH d len (S pos) Hl ltac:(lia) ltac:(lia)). cbn [length]. do 2 f_equal. lia.
    + cbn [length]. do 2 f_equal. lia.
  - replace (len - pos) with 0 by lia. cbn [firstn take_while length]. do 2 f_equal. lia.
Qed.
Lemma au_scan_run_list P d len pos : len <= length d -> pos <= len ->
  au_scan_run P d len pos = (pos + length (take_while P (firstn (len - pos) (skipn pos d))), false).
Proof. intros Hl Hp. unfold au_scan_run. rewrite (au_scan_list P _ d len pos Hl Hp) by lia. reflexivity. Qed.

Lemma ck_skipn_take_while P s : skipn (length (take_while P s)) s = drop_while P s.
Proof. induction s as [|c r IH]; [reflexivity|]. cbn [take_while drop_while]. destruct (P c); [exact IH|reflexivity]. Qed.
Lemma ck_firstn_take_while P s : firstn (length (take_while P s)) s = take_while P s.
Proof. induction s as [|c r IH]; [reflexivity|]. cbn [take_while]. destruct (P c); [cbn; f_equal; exact IH|reflexivity]. Qed.
Lemma ck_take_while_length P s : length (take_while P s) <= length s.
Proof. induction s as [|c r IH]; [reflexivity|]. cbn [take_while]. destruct (P c); cbn [length]; lia. Qed.
Lemma ck_drop_drop (P Q : N -> bool) s : (forall c, P c = true -> Q c = true) ->
  drop_while Q (drop_while P s) = drop_while Q s.
Proof.
  intros H. induction s as [|c r IH]; [reflexivity|]. cbn [drop_while]. destruct (P c) eqn:E.
  - rewrite (H c E). exact IH.
  - reflexivity.
Qed.
Lemma ck_take_drop (P Q : N -> bool) s : (forall c, P c = true -> Q c = true) ->
  take_while Q (drop_while P s) = drop_while P (take_while Q s).
Proof.
  intros H. induction s as [|c r IH]; [reflexivity|]. cbn [drop_while take_while]. destruct (P c) eqn:E.
  - rewrite (H c E). cbn [drop_while]. rewrite E. exact IH.
  - cbn [take_while]. destruct (Q c); [cbn [drop_while]; rewrite E; reflexivity|reflexivity].
Qed.
Lemma ck_skipn_skipn {B} x : forall y (l : list B), skipn x (skipn y l) = skipn (y + x) l.
Proof.
  induction y as [|y IH]; intros l; [reflexivity|]. destruct l as [|h t]; [cbn; apply skipn_nil|].
  cbn [skipn Nat.add]. apply IH.
Qed.
Lemma ck_tl_skipn {B} n (l : list B) : tl (skipn n l) = skipn (S n) l.
Proof.
  revert l. induction n as [|n IH]; intros l.
  - destruct l; reflexivity.
  - destruct l as [|x l]; [reflexivity|]. change (skipn (S n) (x :: l)) with (skipn n l).
    change (skipn (S (S n)) (x :: l)) with (skipn (S n) l). apply IH.
Qed.
Lemma ck_tl_firstn {B} k (l : list B) : tl (firstn (S k) l) = firstn k (tl l).
Proof. destruct l; [destruct k; reflexivity|reflexivity]. Qed.

Lemma ck_space_not_semi c : c_isspace c = true -> ck_not ck_SEMI c = true.
Proof.
  intros H. unfold ck_not. destruct (c =? ck_SEMI)%N eqn:E; [|reflexivity]. apply N.eqb_eq in E. subst c.
  vm_compute in H. discriminate.
Qed.

(* one cookie: the text between two ';' *)
Definition ck_piece_core (q : bytes) : list (bytes * bytes) :=
  match take_while (ck_not ck_EQ) q with
  | [] => []                                             (* empty, or nameless: starts with '=' *)
  | n => [(n, tl (drop_while (ck_not ck_EQ) q))]          (* name up to the first '=', value after it *)
  end.
Definition ck_piece (p : bytes) : list (bytes * bytes) := ck_piece_core (drop_while c_isspace p).

(* the pieces separated by ';' *)
Fixpoint ck_split (s : bytes) : list bytes :=
  match s with
  | [] => [[]]
  | c :: r =>
      if (c =? ck_SEMI)%N then [] :: ck_split r
      else match ck_split r with p :: ps => (c :: p) :: ps | [] => [[c]] end
  end.
Definition ck_spec (v : bytes) : list (bytes * bytes) := flat_map ck_piece (ck_split v).

Lemma ck_split_unfold s :
  ck_split s = take_while (ck_not ck_SEMI) s ::
               match drop_while (ck_not ck_SEMI) s with [] => [] | _ :: r => ck_split r end.
Proof.
  induction s as [|c r IH]; [reflexivity|]. cbn [ck_split take_while drop_while]. unfold ck_not at 1 3.
  destruct (c =? ck_SEMI)%N; cbn [negb]; [reflexivity|]. rewrite IH. reflexivity.
Qed.

Definition ck_opt_list (e : option ck_ent) : list ck_ent := match e with Some x => [x] | None => [] end.

Lemma ck_single_list d p1 b : p1 + b <= length d ->
  exists e, ck_single d p1 b = (e, false) /\
            map (ck_pair d) (ck_opt_list e) = ck_piece_core (firstn b (skipn p1 d)).
Proof.
  intros H. unfold ck_single. set (l := skipn p1 d). set (q := firstn b l).
  assert (Hll : b <= length l) by (unfold l; rewrite skipn_length; lia).
  assert (Hq : length q = b) by (unfold q; rewrite firstn_length; lia).
  destruct (b =? 0) eqn:E0; b2p.
  - exists None. split; [reflexivity|]. destruct q; [reflexivity|cbn [length] in Hq; lia].
  - change (fun c : N => negb (c =? ck_EQ)%N) with (ck_not ck_EQ).
    rewrite (au_scan_run_list (ck_not ck_EQ) d (p1 + b) p1 H ltac:(lia)).
    replace (p1 + b - p1) with b by lia. fold l. fold q. cbv iota beta.
    unfold ck_piece_core. pose proof (ck_firstn_take_while (ck_not ck_EQ) q) as Hf.
    pose proof (ck_skipn_take_while (ck_not ck_EQ) q) as Hs. pose proof (ck_take_while_length (ck_not ck_EQ) q) as Hle.
    set (tw := take_while (ck_not ck_EQ) q) in *. set (n := length tw) in *.
    replace (p1 + n - p1) with n by lia.
    assert (Hname : firstn n l = tw).
    { rewrite <- Hf. unfold q. rewrite firstn_firstn. f_equal. lia. }
    destruct (n =? 0) eqn:E1; b2p.
    + exists None. split; [reflexivity|]. destruct tw; [reflexivity|cbn [length] in n; unfold n in E1; discriminate].
    + destruct (n =? b) eqn:E2; b2p.
      * eexists. split; [reflexivity|]. cbn [ck_opt_list map ck_pair]. unfold ck_slice. fold l. rewrite Hname.
        rewrite <- Hs. replace n with (length q) by lia. rewrite skipn_all. cbn [tl firstn].
        destruct tw; [cbn [length] in n; unfold n in E1; lia|reflexivity].
      * destruct (b <? n + 1) eqn:E3; b2p; [lia|]. eexists. split; [reflexivity|].
        cbn [ck_opt_list map ck_pair]. unfold ck_slice. fold l. rewrite Hname.
        replace (skipn (p1 + n + 1) d) with (skipn (S n) l) by (unfold l; rewrite ck_skipn_skipn; f_equal; lia).
        rewrite <- Hs. unfold q. rewrite skipn_firstn_comm. remember (b - n - 1) as k eqn:Hk. replace (b - n) with (S k) by lia.
        rewrite ck_tl_firstn, ck_tl_skipn.
        destruct tw; [cbn [length] in n; unfold n in E1; lia|reflexivity].
Qed.

Lemma ck_loop_list : forall fuel d pos acc, pos <= length d -> length d - pos < fuel ->
  exists es, ck_loop fuel d (length d) pos acc = Some (rev acc ++ es, false) /\
             map (ck_pair d) es = flat_map ck_piece (ck_split (skipn pos d)).
Proof.
  induction fuel as [|f IH]; intros d pos acc Hp Hf; [lia|]. cbn [ck_loop].
  destruct (pos <? length d) eqn:E; b2p.
  - set (s := skipn pos d). assert (Hsl : length s = length d - pos) by (unfold s; apply skipn_length).
    rewrite (au_scan_run_list c_isspace d (length d) pos (le_n _) Hp). fold s. rewrite firstn_all2 by lia.
    set (a := length (take_while c_isspace s)). cbv iota beta.
    pose proof (ck_take_while_length c_isspace s) as Ha. fold a in Ha.
    assert (Ht : skipn (pos + a) d = drop_while c_isspace s).
    { rewrite <- (ck_skipn_take_while c_isspace s). fold a. unfold s. rewrite ck_skipn_skipn. reflexivity. }
    set (t := drop_while c_isspace s) in *.
    assert (Htl : length t = length d - (pos + a)) by (rewrite <- Ht; apply skipn_length).
    rewrite ck_split_unfold. cbn [flat_map]. unfold ck_piece at 1.
    rewrite <- (ck_take_drop c_isspace (ck_not ck_SEMI) s ck_space_not_semi). fold t.
    destruct (pos + a =? length d) eqn:E1; b2p.
    + exists []. rewrite app_nil_r. split; [reflexivity|].
      assert (t = []) by (destruct t; [reflexivity|cbn [length] in Htl; lia]).
      rewrite <- (ck_drop_drop c_isspace (ck_not ck_SEMI) s ck_space_not_semi). fold t. rewrite H. reflexivity.
    + change (fun c : N => negb (c =? ck_SEMI)%N) with (ck_not ck_SEMI).
      rewrite (au_scan_run_list (ck_not ck_SEMI) d (length d) (pos + a) (le_n _) ltac:(lia)). rewrite Ht.
      rewrite firstn_all2 by lia. set (q := take_while (ck_not ck_SEMI) t). set (b := length q).
      pose proof (ck_take_while_length (ck_not ck_SEMI) t) as Hb. fold q in Hb. fold b in Hb. cbv iota beta.
      destruct (pos + a + b <? pos + a) eqn:E2; b2p; [lia|]. cbn [orb].
      replace (pos + a + b - (pos + a)) with b by lia.
      destruct (ck_single_list d (pos + a) b ltac:(lia)) as [e [He Hpair]]. rewrite He. cbv iota beta.
      rewrite Ht in Hpair. unfold b in Hpair at 1. unfold q in Hpair at 1. rewrite ck_firstn_take_while in Hpair. fold q in Hpair.
      assert (Hrest : skipn (pos + a + b) d = drop_while (ck_not ck_SEMI) s).
      { rewrite <- (ck_drop_drop c_isspace (ck_not ck_SEMI) s ck_space_not_semi). fold t.
        rewrite <- (ck_skipn_take_while (ck_not ck_SEMI) t). fold q. fold b. rewrite <- Ht, ck_skipn_skipn. reflexivity. }
      rewrite <- Hrest.
      set (acc' := match e with Some x => x :: acc | None => acc end).
      assert (Hacc : rev acc' = rev acc ++ ck_opt_list e) by (unfold acc'; destruct e; cbn [rev ck_opt_list]; [reflexivity|rewrite app_nil_r; reflexivity]).
      destruct (pos + a + b <? length d) eqn:E3; b2p.
      * destruct (au_nth_error_in d (pos + a + b) E3) as [c Hc]. rewrite (au_skipn_cons d _ c Hc).
        destruct (IH d (S (pos + a + b)) acc' ltac:(lia) ltac:(lia)) as [es [H1 H2]].
        exists (ck_opt_list e ++ es). split.
        -- etransitivity; [exact H1|]. rewrite Hacc, <- app_assoc. reflexivity.
        -- rewrite map_app, Hpair, H2. reflexivity.
      * assert (Hz : skipn (pos + a + b) d = []) by (apply skipn_all2; lia). rewrite Hz.
        destruct (IH d (pos + a + b) acc' ltac:(lia) ltac:(lia)) as [es [H1 H2]].
        rewrite Hz in H2. cbn in H2.
        exists (ck_opt_list e ++ es). split.
        -- etransitivity; [exact H1|]. rewrite Hacc, <- app_assoc. reflexivity.
        -- rewrite map_app, Hpair, H2. reflexivity.
  - exists []. rewrite app_nil_r. split; [reflexivity|]. rewrite skipn_all2 by lia. reflexivity.
Qed.

(* htp_parse_cookies_v0: the value is cut at every ';'; in each piece leading white space (isspace) is
   dropped; a piece that is then empty or starts with '=' adds nothing; otherwise name = the bytes before
   the first '=' (the whole piece when there is none), value = the bytes after it (empty when there is
   none); pairs are appended in input order, repeated names are kept; trailing white space, white space
   around '=' and quotes are NOT treated specially. Always HTP_OK. *)
Theorem ck_spec_thm v : ck_parse_cookies_v0 (Some v) = mk_ck_res c_HTP_OK (Some (ck_spec v)) false.
Proof.
  cbn [ck_parse_cookies_v0]. unfold ck_entries.
  destruct (ck_loop_list (S (length v)) v 0 [] ltac:(lia) ltac:(lia)) as [es [H1 H2]]. cbn [rev app skipn] in H1, H2.
  destruct (ck_entries_sorted v) as [es2 [H3 H4]]. unfold ck_entries in H3.
  unfold bytes in *. rewrite H1 in H3. inversion H3; subst es2. rewrite H1.
  rewrite (ck_sorted_in v es 0 H4). cbn [orb negb]. unfold ck_spec. do 2 f_equal. exact H2.
Qed.

(* the value  a=b; c; =d; e=;;; f=<quote>g  *)
Example ck_spec_example :
  ck_spec [97;61;98;59;32;99;59;32;61;100;59;32;101;61;59;59;59;32;102;61;34;103]%N
  = [([97], [98]); ([99], []); ([101], []); ([102], [34; 103])]%N.
Proof. vm_compute. reflexivity. Qed.

(* ================================================================== FINAL THEOREMS ============
   (for re-export in Props/Properties_C01.v; every one must print "Closed under the global context") *)
(* base64 *)
Print Assumptions b64_mem_no_fault.
Print Assumptions b64_mem_fault_iff.
Print Assumptions b64_mem_result_spec.
Print Assumptions b64_mem_spec.
Print Assumptions b64_mem_length.
Print Assumptions b64_mem_min_capacity.
Print Assumptions b64_three_quarters_faults.
Print Assumptions b64_three_quarters_refuted.
Print Assumptions b64_text_groups.
Print Assumptions b64_roundtrip.
Print Assumptions b64_decode_safe.
Print Assumptions b64_stream_safe.
Print Assumptions b64_decode_exact_block_refuted.
(* Authorization *)
Print Assumptions au_scan_fuel.
Print Assumptions au_quoted_spec.
Print Assumptions au_quoted_no_fault.
Print Assumptions au_unq_sound.
Print Assumptions au_basic_spec.
Print Assumptions au_digest_spec.
Print Assumptions au_digest_first_username.
Print Assumptions au_bearer_spec.
Print Assumptions au_no_fault.
Print Assumptions au_type_spec.
Print Assumptions au_basic_alone_refuted.
(* Cookie *)
Print Assumptions ck_entries_sorted.
Print Assumptions ck_fuel_sufficient.
Print Assumptions ck_no_fault.
Print Assumptions ck_table_spec.
Print Assumptions ck_pairs_are_slices.
Print Assumptions ck_spec_thm.
