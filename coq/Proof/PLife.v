(* C05, history level: the relation between the parser state and the per-transaction lifecycle monitor (Spec/SConnp.v).
   Part 1: the monitor state reached by an event log (monst / MS), the lifecycle view of a connection parser (lview:
   everything the invariant talks about), the invariant (Core / RQ / RS) and its preservation by the elementary moves:
   a monitor step for one transaction, a progress update, destruction of a complete transaction. *)
Require Import Htp.Model.MConnTypes Htp.Model.MTxCommon Htp.Spec.SConnp Htp.Spec.SLife.
Local Open Scope nat_scope.

(* ------------------------------------------------------------------------------------------------ *)
(* 1. the monitor, hook by hook *)

Ltac b2p := repeat match goal with
  | E : (_ <? _) = true |- _ => apply Nat.ltb_lt in E | E : (_ <=? _) = true |- _ => apply Nat.leb_le in E
  | E : (_ <? _) = false |- _ => apply Nat.ltb_ge in E | E : (_ <=? _) = false |- _ => apply Nat.leb_gt in E
  | E : (_ && _)%bool = true |- _ => apply andb_prop in E; destruct E
  | E : (_ =? _) = true |- _ => apply Nat.eqb_eq in E | E : (_ =? _) = false |- _ => apply Nat.eqb_neq in E
  end.

Definition lcq (s : lc) (q : nat) : lc := mklc q (lc_rs s) false.
Definition lcs (s : lc) (r : nat) : lc := mklc (lc_rq s) r false.

Ltac lcstep := intros;
  match goal with s : lc |- _ => destruct s as [q r f]; cbn [lc_fin lc_rq lc_rs] in *; subst end;
  unfold lc_step, lcq, lcs; cbn [lc_fin lc_rq lc_rs]; cbv beta iota zeta;
  repeat match goal with
  | |- context [?a <? ?b] => let E := fresh in destruct (a <? b) eqn:E; b2p; try lia
  | |- context [?a <=? ?b] => let E := fresh in destruct (a <=? b) eqn:E; b2p; try lia
  | |- context [?a =? ?b] => let E := fresh in destruct (a =? b) eqn:E; b2p; try lia
  end; cbn [andb]; try (f_equal; f_equal; lia); try reflexivity.

(* request side *)
Lemma lc_h0 s : lc_fin s = false -> lc_rq s = 0 -> lc_step s 0 = Some (lcq s 1).
Proof. lcstep. Qed.
Lemma lc_h12 s h : lc_fin s = false -> (h = 1 \/ h = 2) -> lc_rq s <= 2 -> lc_step s h = Some (lcq s 2).
Proof. intros Hf [-> | ->]; revert Hf; lcstep. Qed.
Lemma lc_h3 s : lc_fin s = false -> 2 <= lc_rq s -> lc_step s 3 = Some (lcq s (lc_rq s)).
Proof. lcstep. Qed.
Lemma lc_h4 s : lc_fin s = false -> 2 <= lc_rq s <= 3 -> lc_step s 4 = Some (lcq s 3).
Proof. lcstep. Qed.
Lemma lc_h5 s h : lc_fin s = false -> (h = 5 \/ h = 19) -> 2 <= lc_rq s <= 5 -> lc_step s h = Some (lcq s (Nat.max 4 (lc_rq s))).
Proof. intros Hf [-> | ->]; revert Hf; lcstep. Qed.
Lemma lc_h7 s : lc_fin s = false -> 3 <= lc_rq s -> lc_step s 7 = Some (lcq s (lc_rq s)).
Proof. lcstep. Qed.
Lemma lc_h8 s : lc_fin s = false -> 2 <= lc_rq s <= 5 -> lc_step s 8 = Some (lcq s 5).
Proof. lcstep. Qed.
Lemma lc_h9 s : lc_fin s = false -> lc_rq s < 6 -> lc_step s 9 = Some (lcq s 6).
Proof. lcstep. Qed.
(* response side *)
Lemma lc_h10 s : lc_fin s = false -> lc_rs s = 0 -> lc_step s 10 = Some (lcs s 1).
Proof. lcstep. Qed.
Lemma lc_h11 s : lc_fin s = false -> lc_rs s <= 3 -> lc_step s 11 = Some (lcs s 2).
Proof. lcstep. Qed.
Lemma lc_h12r s : lc_fin s = false -> 2 <= lc_rs s -> lc_step s 12 = Some (lcs s (lc_rs s)).
Proof. lcstep. Qed.
Lemma lc_h13 s : lc_fin s = false -> 2 <= lc_rs s <= 3 -> lc_step s 13 = Some (lcs s 3).
Proof. lcstep. Qed.
Lemma lc_h14 s h : lc_fin s = false -> (h = 14 \/ h = 20) -> 1 <= lc_rs s <= 5 -> lc_step s h = Some (lcs s (Nat.max 4 (lc_rs s))).
Proof. intros Hf [-> | ->]; revert Hf; lcstep. Qed.
Lemma lc_h15 s : lc_fin s = false -> 3 <= lc_rs s -> lc_step s 15 = Some (lcs s (lc_rs s)).
Proof. lcstep. Qed.
Lemma lc_h16 s : lc_fin s = false -> 2 <= lc_rs s <= 5 -> lc_step s 16 = Some (lcs s 5).
Proof. lcstep. Qed.
Lemma lc_h17 s : lc_fin s = false -> lc_rs s < 6 -> lc_step s 17 = Some (lcs s 6).
Proof. lcstep. Qed.
Lemma lc_h18 s : lc_fin s = false -> lc_rq s = 6 -> lc_rs s = 6 -> lc_step s 18 = Some (mklc 6 6 true).
Proof. lcstep. Qed.

(* ------------------------------------------------------------------------------------------------ *)
(* 2. the monitor state of every transaction after an event log (newest event first) *)

Notation evp := (nat * nat)%type.          (* hook, transaction *)
Fixpoint monst (L : list evp) (i : nat) : option lc :=
  match L with
  | [] => Some lc0
  | (h, j) :: r => match monst r i with
                   | Some s => if j =? i then lc_step s h else Some s
                   | None => None
                   end
  end.
Definition MS (L : list evp) (m : nat -> lc) : Prop := forall i, monst L i = Some (m i).
Definition mupd (m : nat -> lc) (i : nat) (s : lc) : nat -> lc := fun j => if j =? i then s else m j.

Lemma mupd_same m i s : mupd m i s i = s.
Proof. unfold mupd. rewrite Nat.eqb_refl. reflexivity. Qed.
Lemma mupd_other m i s j : j <> i -> mupd m i s j = m j.
Proof. unfold mupd. intros H. apply Nat.eqb_neq in H. rewrite H. reflexivity. Qed.
Lemma MS_nil : MS [] (fun _ => lc0).
Proof. intros i. reflexivity. Qed.
Lemma MS_emit L m h i s' : MS L m -> lc_step (m i) h = Some s' -> MS ((h, i) :: L) (mupd m i s').
Proof.
  intros HM Hs j. cbn [monst]. rewrite (HM j). unfold mupd. rewrite (Nat.eqb_sym j i).
  destruct (i =? j) eqn:E; [|reflexivity]. apply Nat.eqb_eq in E. subst j. exact Hs.
Qed.

(* acceptance by the monitor, in the vocabulary of chk_C05 (oldest event first) *)
Fixpoint lc_run (s : lc) (tr : list nat) : option lc :=
  match tr with [] => Some s | h :: r => match lc_step s h with Some s' => lc_run s' r | None => None end end.
Lemma lc_run_app s a b : lc_run s (a ++ b) = match lc_run s a with Some s' => lc_run s' b | None => None end.
Proof. revert s. induction a as [|h r IH]; intros s; cbn; [reflexivity|]. destruct (lc_step s h); [apply IH|reflexivity]. Qed.
Lemma lc_run_accepts s tr : lc_accepts s tr = match lc_run s tr with Some _ => true | None => false end.
Proof. revert s. induction tr as [|h r IH]; intros s; cbn; [reflexivity|]. destruct (lc_step s h); [apply IH|reflexivity]. Qed.
Lemma monst_run L i : monst L i = lc_run lc0 (map fst (filter (fun e => snd e =? i) (rev L))).
Proof.
  induction L as [|[h j] r IH]; [reflexivity|].
  cbn [monst rev]. rewrite filter_app, map_app, lc_run_app, <- IH. cbn [filter snd].
  destruct (monst r i) as [s|]; [|reflexivity].
  destruct (j =? i); cbn; [destruct (lc_step s h); reflexivity|reflexivity].
Qed.

(* ------------------------------------------------------------------------------------------------ *)
(* 3. the lifecycle view of a connection parser *)

Definition txv3 := (Z * Z * Z)%type.         (* request progress, response progress, response_content_encoding_processing *)
Definition txv (t : tx) : txv3 := (t_request_progress t, t_response_progress t, t_res_cep t).
Record lv := mklv { lv_is : Z; lv_os : Z; lv_ist : req_state; lv_ost : res_state; lv_itx : option nat; lv_otx : option nat;
                    lv_sh : nat; lv_on : nat; lv_txs : list (option txv3); lv_ih : option nat; lv_oh : option nat; lv_icl : Z }.
#[export] Instance eta_lv : Settable _ := settable! mklv
  <lv_is; lv_os; lv_ist; lv_ost; lv_itx; lv_otx; lv_sh; lv_on; lv_txs; lv_ih; lv_oh; lv_icl>.
Definition lview (c : connp) : lv :=
  mklv (c_in_status c) (c_out_status c) (c_in_state c) (c_out_state c) (c_in_tx c) (c_out_tx c) (c_txs_shifted c)
       (c_out_next_tx_index c) (map (option_map txv) (c_txs c)) (k_receiver_hook (c_in c)) (k_receiver_hook (c_out c))
       (c_in_content_length c).
Definition levs (c : connp) : list evp := map (fun e => (ev_hook e, ev_tx e)) (c_events c).

Definition vslot (v : lv) (i : nat) : option txv3 :=
  if i <? lv_sh v then None
  else match nth_error (lv_txs v) (i - lv_sh v) with Some (Some x) => Some x | _ => None end.
Definition vnid (v : lv) : nat := lv_sh v + length (lv_txs v).

Lemma vslot_lview c i : vslot (lview c) i = option_map txv (tx_slot c i).
Proof.
  unfold vslot, tx_slot, lview. cbn [lv_sh lv_txs]. destruct (i <? c_txs_shifted c); [reflexivity|].
  rewrite nth_error_map. destruct (nth_error (c_txs c) (i - c_txs_shifted c)) as [[t|]|]; reflexivity.
Qed.
Lemma vslot_lt v i x : vslot v i = Some x -> lv_sh v <= i < vnid v.
Proof.
  unfold vslot, vnid. destruct (i <? lv_sh v) eqn:E; [discriminate|]. b2p.
  destruct (nth_error (lv_txs v) (i - lv_sh v)) eqn:N; [|discriminate]. intros _.
  assert (i - lv_sh v < length (lv_txs v)) by (apply nth_error_Some; congruence). lia.
Qed.

Lemma upd_length' {B} (l : list B) i x : length (upd l i x) = length l.
Proof. revert i. induction l as [|h t IH]; intros [|i]; cbn; congruence. Qed.
Lemma nth_error_upd' {B} (l : list B) i x j :
  nth_error (upd l i x) j = if j =? i then (if i <? length l then Some x else None) else nth_error l j.
Proof.
  revert i j. induction l as [|h t IH]; intros i j.
  - cbn. destruct (j =? i); destruct j; reflexivity.
  - destruct i as [|i], j as [|j]; cbn; try reflexivity. rewrite IH. destruct (j =? i); [|reflexivity].
    change (S i <? S (length t)) with (i <? length t). reflexivity.
Qed.

(* the slot of transaction i is overwritten / NULLed *)
Definition v_put (i : nat) (x : option txv3) (v : lv) : lv := v <| lv_txs := upd (lv_txs v) (i - lv_sh v) x |>.
Lemma vslot_put v i x j : vslot v i <> None -> vslot (v_put i x v) j = if j =? i then x else vslot v j.
Proof.
  intros L. unfold vslot, v_put in *. cbn [lv_sh lv_txs set]. 
  destruct (i <? lv_sh v) eqn:Ei; [congruence|]. b2p.
  destruct (j <? lv_sh v) eqn:Ej; b2p.
  - destruct (j =? i) eqn:E; b2p; [lia|reflexivity].
  - rewrite nth_error_upd'. destruct (j - lv_sh v =? i - lv_sh v) eqn:E; b2p.
    + assert (j = i) by lia. subst j. rewrite Nat.eqb_refl.
      destruct (i - lv_sh v <? length (lv_txs v)) eqn:El; b2p; [destruct x; reflexivity|].
      destruct (nth_error (lv_txs v) (i - lv_sh v)) eqn:N; [|congruence].
      assert (i - lv_sh v < length (lv_txs v)) by (apply nth_error_Some; congruence). lia.
    + destruct (j =? i) eqn:E2; b2p; [lia|reflexivity].
Qed.
Lemma vnid_put v i x : vnid (v_put i x v) = vnid v.
Proof. unfold vnid, v_put. cbn. rewrite upd_length'. reflexivity. Qed.

(* htp_tx_destroy_incomplete *)
Definition clr (o : option nat) (i : nat) : option nat :=
  match o with Some j => if j =? i then None else o | None => None end.
Definition v_destroy (i : nat) (v : lv) : lv :=
  (v_put i None v) <| lv_itx := clr (lv_itx v) i |> <| lv_otx := clr (lv_otx v) i |>.

Lemma vslot_destroy v i j : vslot v i <> None -> vslot (v_destroy i v) j = if j =? i then None else vslot v j.
Proof. intros L. unfold v_destroy. exact (vslot_put v i None j L). Qed.

(* ------------------------------------------------------------------------------------------------ *)
(* 4. the invariant *)

Definition alive (s : Z) : Prop := lc_dead s = false.

(* xq / xs: the transaction whose request / response progress has just been set to COMPLETE while its
   REQUEST_COMPLETE / RESPONSE_COMPLETE callback has not run yet *)
Record Core (xq xs : option nat) (v : lv) (m : nat -> lc) : Prop := mkCore {
  co_fresh : forall i, vnid v <= i -> m i = lc0;
  co_bnd : forall i, lc_rq (m i) <= 6 /\ lc_rs (m i) <= 6 /\ (lc_fin (m i) = true -> lc_rq (m i) = 6 /\ lc_rs (m i) = 6);
  co_q6 : forall i p ps ce, vslot v i = Some (p, ps, ce) -> lc_rq (m i) = 6 -> p = c_HTP_REQUEST_COMPLETE;
  co_qc : forall i p ps ce, vslot v i = Some (p, ps, ce) -> xq <> Some i -> p = c_HTP_REQUEST_COMPLETE -> lc_rq (m i) = 6;
  co_s6 : forall i p ps ce, vslot v i = Some (p, ps, ce) -> lc_rs (m i) = 6 -> ps = c_HTP_RESPONSE_COMPLETE;
  co_sc : forall i p ps ce, vslot v i = Some (p, ps, ce) -> xs <> Some i -> ps = c_HTP_RESPONSE_COMPLETE -> lc_rs (m i) = 6;
  co_on : forall i, lv_sh v + lv_on v <= i -> lc_rs (m i) = 0;
  co_itx : forall i, lv_itx v = Some i -> vslot v i <> None;
  co_otx : forall j, lv_otx v = Some j -> vslot v j <> None /\ j < lv_sh v + lv_on v
}.

(* request side: what the state says about the monitor's request component of in_tx *)
Definition qst (st : req_state) (p : Z) (q : nat) : Prop :=
  match st with
  | REQ_IDLE | REQ_IGNORE_DATA_AFTER_HTTP_0_9 => True
  | REQ_LINE => q <= 2
  | REQ_PROTOCOL => q = 2
  | REQ_HEADERS => (p = c_HTP_REQUEST_HEADERS /\ 2 <= q <= 3) \/ (p = c_HTP_REQUEST_TRAILER /\ 3 <= q <= 5)
  | REQ_FINALIZE => 2 <= q <= 5
  | _ => 3 <= q <= 5
  end.
(* the states in which the response side may send the request side to REQ_FINALIZE (Expect: 100-continue refused) *)
Definition q_expect (st : req_state) : bool :=
  match st with REQ_BODY_IDENTITY | REQ_FINALIZE => true | _ => false end.
Definition need_q (h : nat) : nat := if h =? 7 then 3 else 2.
(* the states in which connp->in_tx may be NULL *)
Definition qnone (st : req_state) : bool :=
  match st with REQ_IDLE | REQ_IGNORE_DATA_AFTER_HTTP_0_9 | REQ_FINALIZE | REQ_CONNECT_PROBE_DATA => true | _ => false end.
Record RQ (v : lv) (m : nat -> lc) : Prop := mkRQ {
  rq_txc : forall i, lv_itx v = Some i ->
    exists p ps ce, vslot v i = Some (p, ps, ce) /\ p <> c_HTP_REQUEST_COMPLETE /\ qst (lv_ist v) p (lc_rq (m i)) /\
                    (q_expect (lv_ist v) = false -> (0 <? lv_icl v)%Z = false);
  rq_arm : forall h, lv_ih v = Some h ->
    (h = 3 \/ h = 7) /\ lv_ist v = REQ_HEADERS /\ exists i, lv_itx v = Some i /\ need_q h <= lc_rq (m i);
  rq_none : lv_itx v = None -> qnone (lv_ist v) = true
}.

Definition sst (st : res_state) (ps ce : Z) (s : nat) : Prop :=
  match st with
  | RES_IDLE => False
  | RES_LINE => 1 <= s <= 5 /\ (ce <> c_HTP_COMPRESSION_NONE -> s <= 2)
  | RES_HEADERS => (ps = c_HTP_RESPONSE_HEADERS /\ s = 2) \/ (ps = c_HTP_RESPONSE_TRAILER /\ 3 <= s <= 5)
  | RES_BODY_DETERMINE => ps = c_HTP_RESPONSE_HEADERS /\ s = 2
  | RES_BODY_IDENTITY_CL_KNOWN | RES_BODY_IDENTITY_STREAM_CLOSE | RES_FINALIZE => 1 <= s <= 5
  | _ => 3 <= s <= 5
  end.
Definition need_s (h : nat) : nat := if h =? 15 then 3 else 2.
Record RS (v : lv) (m : nat -> lc) : Prop := mkRS {
  rs_txc : forall j, lv_otx v = Some j ->
    exists p ps ce, vslot v j = Some (p, ps, ce) /\ ps <> c_HTP_RESPONSE_COMPLETE /\ sst (lv_ost v) ps ce (lc_rs (m j));
  rs_arm : forall h, lv_oh v = Some h ->
    (h = 12 \/ h = 15) /\ exists j, lv_otx v = Some j /\ need_s h <= lc_rs (m j);
  rs_st : lv_otx v = None -> lv_ost v = RES_IDLE
}.

Definition IV (xq xs : option nat) (v : lv) (m : nat -> lc) : Prop :=
  Core xq xs v m /\ (alive (lv_is v) -> RQ v m) /\ (alive (lv_os v) -> RS v m).

(* ---- extensionality: each part of the invariant reads only its own fields ---- *)
Definition qp (x : txv3) : Z := fst (fst x).
Definition sp (x : txv3) : Z * Z := (snd (fst x), snd x).

Lemma Core_ext xq xs v v' m :
  lv_sh v' = lv_sh v -> lv_on v' = lv_on v -> lv_txs v' = lv_txs v -> lv_itx v' = lv_itx v -> lv_otx v' = lv_otx v ->
  Core xq xs v m -> Core xq xs v' m.
Proof.
  intros E1 E2 E3 E4 E5 [H1 H2 H3 H4 H5 H6 H7 H8 H9].
  assert (Vs : forall i, vslot v' i = vslot v i) by (intros i; unfold vslot; rewrite E1, E3; reflexivity).
  assert (Vn : vnid v' = vnid v) by (unfold vnid; rewrite E1, E3; reflexivity).
  constructor; intros *; rewrite ?Vs, ?Vn, ?E1, ?E2, ?E4, ?E5; eauto.
Qed.

Lemma RQ_ext v v' m m' :
  lv_ist v' = lv_ist v -> lv_itx v' = lv_itx v -> lv_ih v' = lv_ih v -> lv_icl v' = lv_icl v ->
  (forall i, lv_itx v = Some i -> option_map qp (vslot v' i) = option_map qp (vslot v i)) ->
  (forall i, lv_itx v = Some i -> lc_rq (m' i) = lc_rq (m i)) ->
  RQ v m -> RQ v' m'.
Proof.
  intros E1 E2 E3 E4 Es Em [H1 H2 H3]. constructor; [| |rewrite E1, E2; exact H3].
  - intros i Hi. rewrite E2 in Hi. destruct (H1 i Hi) as (p & ps & ce & Hs & Hp & Hq & Hx).
    specialize (Es i Hi). rewrite Hs in Es. cbn in Es.
    destruct (vslot v' i) as [[[p' ps'] ce']|]; [|discriminate]. cbn in Es. injection Es as ->.
    exists p, ps', ce'. rewrite E1, E4, (Em i Hi). auto.
  - intros h Hh. rewrite E3 in Hh. destruct (H2 h Hh) as (Ha & Hb & i & Hi & Hn).
    split; [exact Ha|]. split; [congruence|]. exists i. rewrite E2, (Em i Hi). auto.
Qed.

Lemma RS_ext v v' m m' :
  lv_ost v' = lv_ost v -> lv_otx v' = lv_otx v -> lv_oh v' = lv_oh v ->
  (forall j, lv_otx v = Some j -> option_map sp (vslot v' j) = option_map sp (vslot v j)) ->
  (forall j, lv_otx v = Some j -> lc_rs (m' j) = lc_rs (m j)) ->
  RS v m -> RS v' m'.
Proof.
  intros E1 E2 E3 Es Em [H1 H2 H3]. constructor; [| |rewrite E1, E2; exact H3].
  - intros j Hj. rewrite E2 in Hj. destruct (H1 j Hj) as (p & ps & ce & Hs & Hc).
    specialize (Es j Hj). rewrite Hs in Es. cbn in Es.
    destruct (vslot v' j) as [[[p' ps'] ce']|]; [|discriminate]. cbn in Es. injection Es as -> ->.
    exists p', ps, ce. rewrite E1, (Em j Hj). auto.
  - intros h Hh. rewrite E3 in Hh. destruct (H2 h Hh) as (Ha & j & Hj & Hn).
    split; [exact Ha|]. exists j. rewrite E2, (Em j Hj). auto.
Qed.

(* ---- elementary moves: a monitor step of one transaction ---- *)
Ltac mu j i := unfold mupd; let E := fresh "E" in destruct (j =? i) eqn:E; b2p; try subst j; cbn [lcq lcs lc_rq lc_rs lc_fin].

Lemma Core_qstep xq xq' xs v m i q' :
  Core xq xs v m -> i < vnid v -> lc_fin (m i) = false -> q' <= 6 ->
  (forall p ps ce, vslot v i = Some (p, ps, ce) ->
     (q' = 6 -> p = c_HTP_REQUEST_COMPLETE) /\ (xq' <> Some i -> p = c_HTP_REQUEST_COMPLETE -> q' = 6)) ->
  (forall j, j <> i -> xq' <> Some j -> xq <> Some j) ->
  Core xq' xs v (mupd m i (lcq (m i) q')).
Proof.
  intros [H1 H2 H3 H4 H5 H6 H7 H8 H9] Hi Hf Hq Hp Hx.
  constructor; try assumption.
  - intros j Hj. mu j i; [lia|exact (H1 j Hj)].
  - intros j. mu j i; [|exact (H2 j)]. destruct (H2 i) as (_ & B & _). repeat split; [exact Hq|exact B|discriminate|discriminate].
  - intros j p ps ce Hs. mu j i; [|exact (H3 j p ps ce Hs)]. exact (proj1 (Hp p ps ce Hs)).
  - intros j p ps ce Hs Hn. mu j i; [exact (proj2 (Hp p ps ce Hs) Hn)|]. exact (H4 j p ps ce Hs (Hx j E Hn)).
  - intros j p ps ce Hs. mu j i; [|exact (H5 j p ps ce Hs)]. exact (H5 i p ps ce Hs).
  - intros j p ps ce Hs Hn. mu j i; [|exact (H6 j p ps ce Hs Hn)]. exact (H6 i p ps ce Hs Hn).
  - intros j Hj. mu j i; [|exact (H7 j Hj)]. exact (H7 i Hj).
Qed.

Lemma Core_sstep xq xs xs' v m i r' :
  Core xq xs v m -> i < vnid v -> i < lv_sh v + lv_on v -> lc_fin (m i) = false -> r' <= 6 ->
  (forall p ps ce, vslot v i = Some (p, ps, ce) ->
     (r' = 6 -> ps = c_HTP_RESPONSE_COMPLETE) /\ (xs' <> Some i -> ps = c_HTP_RESPONSE_COMPLETE -> r' = 6)) ->
  (forall j, j <> i -> xs' <> Some j -> xs <> Some j) ->
  Core xq xs' v (mupd m i (lcs (m i) r')).
Proof.
  intros [H1 H2 H3 H4 H5 H6 H7 H8 H9] Hi Ho Hf Hq Hp Hx.
  constructor; try assumption.
  - intros j Hj. mu j i; [lia|exact (H1 j Hj)].
  - intros j. mu j i; [|exact (H2 j)]. destruct (H2 i) as (B & _ & _). repeat split; [exact B|exact Hq|discriminate|discriminate].
  - intros j p ps ce Hs. mu j i; [|exact (H3 j p ps ce Hs)]. exact (H3 i p ps ce Hs).
  - intros j p ps ce Hs Hn. mu j i; [|exact (H4 j p ps ce Hs Hn)]. exact (H4 i p ps ce Hs Hn).
  - intros j p ps ce Hs. mu j i; [|exact (H5 j p ps ce Hs)]. exact (proj1 (Hp p ps ce Hs)).
  - intros j p ps ce Hs Hn. mu j i; [exact (proj2 (Hp p ps ce Hs) Hn)|]. exact (H6 j p ps ce Hs (Hx j E Hn)).
  - intros j Hj. mu j i; [lia|exact (H7 j Hj)].
Qed.

Lemma Core_fstep xq xs v m i :
  Core xq xs v m -> i < vnid v -> i < lv_sh v + lv_on v -> lc_rq (m i) = 6 -> lc_rs (m i) = 6 ->
  Core xq xs v (mupd m i (mklc 6 6 true)).
Proof.
  intros [H1 H2 H3 H4 H5 H6 H7 H8 H9] Hi Ho Hq Hr.
  constructor; try assumption.
  - intros j Hj. mu j i; [lia|exact (H1 j Hj)].
  - intros j. mu j i; [|exact (H2 j)]. repeat split; lia.
  - intros j p ps ce Hs. mu j i; [|exact (H3 j p ps ce Hs)]. intros _. exact (H3 i p ps ce Hs Hq).
  - intros j p ps ce Hs Hn. mu j i; [|exact (H4 j p ps ce Hs Hn)]. reflexivity.
  - intros j p ps ce Hs. mu j i; [|exact (H5 j p ps ce Hs)]. intros _. exact (H5 i p ps ce Hs Hr).
  - intros j p ps ce Hs Hn. mu j i; [|exact (H6 j p ps ce Hs Hn)]. reflexivity.
  - intros j Hj. mu j i; [lia|exact (H7 j Hj)].
Qed.

(* ---- a slot is rewritten (progress / cep updates) ---- *)
Lemma Core_put xq xq' xs xs' v m i x x' :
  Core xq xs v m -> vslot v i = Some x ->
  (lc_rq (m i) = 6 -> qp x' = c_HTP_REQUEST_COMPLETE) -> (xq' <> Some i -> qp x' = c_HTP_REQUEST_COMPLETE -> lc_rq (m i) = 6) ->
  (lc_rs (m i) = 6 -> fst (sp x') = c_HTP_RESPONSE_COMPLETE) -> (xs' <> Some i -> fst (sp x') = c_HTP_RESPONSE_COMPLETE -> lc_rs (m i) = 6) ->
  (forall j, j <> i -> xq' <> Some j -> xq <> Some j) -> (forall j, j <> i -> xs' <> Some j -> xs <> Some j) ->
  Core xq' xs' (v_put i (Some x') v) m.
Proof.
  intros [H1 H2 H3 H4 H5 H6 H7 H8 H9] Hs A1 A2 A3 A4 Xq Xs.
  assert (L : vslot v i <> None) by congruence.
  assert (Vs : forall j, vslot (v_put i (Some x') v) j = if j =? i then Some x' else vslot v j) by (intros j; apply vslot_put; exact L).
  constructor; try assumption.
  - intros j. rewrite vnid_put. apply H1.
  - intros j p ps ce. rewrite Vs. destruct (j =? i) eqn:E; b2p; [subst j; intros X; injection X as ->; exact A1|apply H3].
  - intros j p ps ce. rewrite Vs. destruct (j =? i) eqn:E; b2p; [subst j; intros X; injection X as ->; exact A2|].
    intros X Hn. exact (H4 j p ps ce X (Xq j E Hn)).
  - intros j p ps ce. rewrite Vs. destruct (j =? i) eqn:E; b2p; [subst j; intros X; injection X as ->; exact A3|apply H5].
  - intros j p ps ce. rewrite Vs. destruct (j =? i) eqn:E; b2p; [subst j; intros X; injection X as ->; exact A4|].
    intros X Hn. exact (H6 j p ps ce X (Xs j E Hn)).
  - intros j Hj. rewrite Vs. destruct (j =? i); [discriminate|]. exact (H8 j Hj).
  - intros j Hj. rewrite Vs. destruct (j =? i); [split; [discriminate|exact (proj2 (H9 j Hj))]|]. exact (H9 j Hj).
Qed.

(* ---- a transaction is destroyed (slot NULLed, in_tx / out_tx cleared) ---- *)
Lemma clr_some o i j : clr o i = Some j -> o = Some j /\ j <> i.
Proof. unfold clr. destruct o as [k|]; [|discriminate]. destruct (k =? i) eqn:E; b2p; [discriminate|]. intros X; injection X as <-. auto. Qed.

Lemma Core_destroy xq xs v m i : Core xq xs v m -> vslot v i <> None -> Core xq xs (v_destroy i v) m.
Proof.
  intros [H1 H2 H3 H4 H5 H6 H7 H8 H9] L.
  pose proof (fun j => vslot_destroy v i j L) as Vs.
  constructor; try assumption.
  - intros j. unfold v_destroy. cbn [set lv_sh lv_txs]. change (vnid (v_put i None v) <= j -> m j = lc0). rewrite vnid_put. apply H1.
  - intros j p ps ce. rewrite Vs. destruct (j =? i); [discriminate|apply H3].
  - intros j p ps ce. rewrite Vs. destruct (j =? i); [discriminate|apply H4].
  - intros j p ps ce. rewrite Vs. destruct (j =? i); [discriminate|apply H5].
  - intros j p ps ce. rewrite Vs. destruct (j =? i); [discriminate|apply H6].
  - intros j Hj. apply clr_some in Hj. destruct Hj as [Hj Hn]. rewrite Vs. apply Nat.eqb_neq in Hn. rewrite Hn. exact (H8 j Hj).
  - intros j Hj. apply clr_some in Hj. destruct Hj as [Hj Hn]. rewrite Vs. apply Nat.eqb_neq in Hn. rewrite Hn. exact (H9 j Hj).
Qed.

Lemma RQ_destroy v m i x : RQ v m -> vslot v i = Some x -> qp x = c_HTP_REQUEST_COMPLETE -> RQ (v_destroy i v) m.
Proof.
  intros R Hs Hc. assert (L : vslot v i <> None) by congruence.
  assert (Hn : lv_itx v <> Some i).
  { intros Hi. destruct (rq_txc v m R i Hi) as (p & ps & ce & Hs' & Hp & _). rewrite Hs in Hs'. injection Hs' as ->. cbn in Hc. congruence. }
  assert (Ei : lv_itx (v_destroy i v) = lv_itx v).
  { unfold v_destroy. cbn. unfold clr. destruct (lv_itx v) as [k|]; [|reflexivity]. destruct (k =? i) eqn:E; b2p; [subst; congruence|reflexivity]. }
  apply (RQ_ext v (v_destroy i v) m m); try reflexivity; try exact Ei; [|exact R].
  intros j Hj. rewrite (vslot_destroy v i j L). destruct (j =? i) eqn:E; b2p; [subst; congruence|reflexivity].
Qed.

Lemma RS_destroy v m i x : RS v m -> vslot v i = Some x -> fst (sp x) = c_HTP_RESPONSE_COMPLETE -> RS (v_destroy i v) m.
Proof.
  intros R Hs Hc. assert (L : vslot v i <> None) by congruence.
  assert (Hn : lv_otx v <> Some i).
  { intros Hi. destruct (rs_txc v m R i Hi) as (p & ps & ce & Hs' & Hp & _). rewrite Hs in Hs'. injection Hs' as ->. cbn in Hc. congruence. }
  assert (Eo : lv_otx (v_destroy i v) = lv_otx v).
  { unfold v_destroy. cbn. unfold clr. destruct (lv_otx v) as [k|]; [|reflexivity]. destruct (k =? i) eqn:E; b2p; [subst; congruence|reflexivity]. }
  apply (RS_ext v (v_destroy i v) m m); try reflexivity; try exact Eo; [|exact R].
  intros j Hj. rewrite (vslot_destroy v i j L). destruct (j =? i) eqn:E; b2p; [subst; congruence|reflexivity].
Qed.
