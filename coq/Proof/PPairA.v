(* C04, Stage A (response phase): n responses of the wire grammar, each delivered in ONE chunk, are attached to the n
   transactions the requests left, in order.  One call = Section One of PPairOne.v with nothing after the response. *)
Require Import Htp.Model.Base Htp.Model.MBstr Htp.Model.MConnTypes Htp.Model.MTxCommon Htp.Model.MResLine Htp.Model.MTxRes.
Require Import Htp.Model.MReq Htp.Model.MRes Htp.Model.MConnp.
Require Import Htp.Spec.SWire Htp.Proof.PWire Htp.Proof.PWireHdr Htp.Proof.PWireBlock Htp.Proof.PWireConn Htp.Proof.PWireExch.
Require Import Htp.Proof.PWireRun Htp.Proof.PWirePres Htp.Proof.PWireGlue Htp.Proof.PSeg Htp.Proof.PSegLine Htp.Proof.PSegHdr Htp.Proof.PSegGen Htp.Proof.PSegRun.
Require Import Htp.Proof.PSegFold Htp.Proof.PSegRes Htp.Proof.PSegResLine Htp.Proof.PSegResHdr Htp.Proof.PSegResGen Htp.Proof.PSegResRun Htp.Proof.PSegResReq Htp.Proof.PSegResThm.
Require Import Htp.Proof.PPair Htp.Proof.PPairLine Htp.Proof.PPairHdr Htp.Proof.PPairRun Htp.Proof.PPairOne.

(* ---- an exchange as the response side sees it: the transaction the request left, the response, its folding, its body ---- *)
Record pp_ex := mk_pp_ex { px_t0 : tx; px_res : wr_response; px_cuts : list (list bytes); px_body : bytes }.
Definition pp_wire (e : pp_ex) : bytes := sr_wire (px_res e) (px_cuts e) (px_body e).
(* the transaction at the end of the exchange *)
Definition pp_tfin (e : pp_ex) : tx := sr_after_hdr (length (px_body e)) (sr_tend (px_t0 e) (px_res e) (px_cuts e)).
Definition pp_ex_ok (g : cfg) (e : pp_ex) : Prop :=
  t_is_protocol_0_9 (px_t0 e) = false /\ t_request_progress (px_t0 e) = c_HTP_REQUEST_COMPLETE /\
  sr_response_ok (px_res e) = true /\ sr_cuts_ok (px_res e) (px_cuts e) = true /\
  sr_frame_ok (sr_tend (px_t0 e) (px_res e) (px_cuts e)) (length (px_body e)) = true /\ sr_fits g (px_res e) (px_cuts e) = true.

Section A.
Variable cb : cb_oracle.
Variable g : cfg.
Hypothesis Hcb : wr_all_ok cb.

(* what the rest of a call has to establish when nothing follows the response in the chunk *)
Definition pp_goalA (w : pr_world) (s : option tx) (c : connp) (fuel : nat) (rw' : bytes) : Prop :=
  rw' = [] -> exists cD d, rs_res_loop cb g fuel false c = (rs_set_out_status c_HTP_STREAM_DATA cD, c_HTP_STREAM_DATA) /\ pr_done w cD d (length d) [] s.

Lemma pp_one_call w e c : pp_ex_ok g e -> pr_ready w c (px_t0 e) ->
  exists cD d, connp_res_data cb g (Some (pp_wire e)) (length (pp_wire e)) c = (rs_set_out_status c_HTP_STREAM_DATA cD, c_HTP_STREAM_DATA) /\
               pr_done w cD d (length d) [] (pr_slot g (pp_tfin e)).
Proof.
  intros (H09 & Hreq & Wr & Wc & Hfr & Hfit) Hr. destruct e as [t0 rs cuts body]. cbn [px_t0 px_res px_cuts px_body] in *.
  unfold pp_wire, pp_tfin. cbn [px_t0 px_res px_cuts px_body].
  unfold sr_response_ok in Wr. apply andb_prop in Wr. destruct Wr as [Wl Wf].
  unfold sr_cuts_ok in Wc. apply andb_prop in Wc. destruct Wc as [_ Wc].
  destruct (sg_block_flat_ok (combine (wp_fields rs) cuts) (sr_forallb_combine_fst wr_field_ok _ cuts Wf) Wc) as [Okl Hnp].
  unfold sr_fits in Hfit. apply andb_prop in Hfit. destruct Hfit as [Hl0 Hfit]. apply Nat.leb_le in Hl0.
  rewrite <- (sr_p11_th0 t0 (sr_line0 rs)) in Hfit.
  set (x := sr_wire rs cuts body).
  assert (Hne : x <> []) by apply sr_wire_ne.
  destruct (pr_enter_ready cb g w c t0 x Hr Hne) as (c1 & E1 & H1). rewrite E1.
  set (slot := pr_slot g (sr_after_hdr (length body) (sr_tend t0 rs cuts))).
  assert (G : pp_goalA w slot c1 (rs_res_fuel (length x)) []).
  { apply (pp_run_idle cb g Hcb (w := w) (wp_protocol rs) (wp_status rs) (wp_reason rs) (sr_lines rs cuts) body t0 [] Wl Okl Hnp H09 Hreq Hfr Hl0 Hfit (sr_f1_local (body ++ []) (negb (sr_is_nil (sr_lines rs cuts)))) (fun _ _ X => X) (pp_goalA w slot))
      with (d := x) (rd := 0%nat) (p := []) (q := sr_line0 rs ++ [CR; LF]) (prev := c_out_state_previous c).
    - (* a pass that goes round again *)
      intros a a' fuel rw' E Ga Erw. destruct (Ga Erw) as (cD & d & El & Dn). exists cD, d. split; [rewrite (sr_loop_inr cb g _ _ _ E); exact El|exact Dn].
    - (* the call cannot end inside the response: nothing would be left *)
      intros a aF fuel rw' _ _ Hn Erw. contradiction.
    - (* RES_FINALIZE at the end of the chunk, RES_IDLE with nothing left *)
      intros a d rd rw' fuel _ Ha Hw Hf Erw. subst rw'. rewrite !app_nil_r in Hw.
      assert (Erd : rd = length d) by (pose proof (sg_skipn_nil _ _ Hw); pose proof (pi_rd _ _ _ _ _ _ _ _ _ Ha); lia). subst rd.
      destruct (pp_Tpre_facts (wp_protocol rs) (wp_status rs) (wp_reason rs) (sr_lines rs cuts) body t0 Hreq Hfr) as (Fc & Fd & Fp & Fr & Et).
      destruct (pr_finalize_end cb g Hcb w a d _ Ha Fc Fd Fp Fr) as (a1 & Ea1 & Dn).
      destruct fuel as [|[|f]]; [lia|lia|].
      exists a1, d. split; [|unfold slot, sr_tend, sr_line0; rewrite <- Et; exact Dn].
      rewrite (sr_loop_inr cb g _ _ _ Ea1), (sr_loop_inl cb g _ _ _ (pr_idle_end cb g w a1 d [] _ Dn)). reflexivity.
    - (* F1 cannot occur: the chunk holds the whole response *)
      unfold sr_f1_local. destruct (body ++ []) as [|b0 bt] eqn:Eb; [exact I|]. intros _.
      destruct (sr_status_line_shape _ _ _ Wl) as (_ & l & El).
      assert (L : (length (b0 :: bt) + 8 <= length (x ++ []))%nat).
      { rewrite <- Eb, !app_nil_r. unfold x, sr_wire, sr_line0. rewrite El, !app_length. cbn [length]. lia. }
      split; [intros E; lia|intros _ E; lia].
    - exact H1.
    - destruct x; [contradiction|cbn [length]; lia].
    - reflexivity.
    - intro E. apply app_eq_nil in E. destruct E as [_ E]. discriminate.
    - cbn [skipn]. rewrite !app_nil_r. unfold x, sr_wire. rewrite <- !app_assoc. reflexivity.
    - unfold rs_res_fuel. lia. }
  exact (G eq_refl).
Qed.

(* ---- n responses, one chunk each ---- *)
Lemma pp_res_cons c (x : bytes) ops :
  fst (cp_run cb g c (OpResData x :: ops)) = fst (cp_run cb g (forget_chunks (fst (connp_res_data cb g (Some x) (length x) c)) <| c_events := [] |>) ops).
Proof. apply sr_cp_run_cons. Qed.

Lemma pp_aligned_run : forall (es : list pp_ex) pre c, Forall (pp_ex_ok g) es ->
  pr_rest c (pre ++ map (fun e => Some (px_t0 e)) es) (length pre) ->
  pr_rest (fst (cp_run cb g c (map (fun e => OpResData (pp_wire e)) es))) (pre ++ map (fun e => pr_slot g (pp_tfin e)) es) (length pre + length es).
Proof.
  induction es as [|e es IH]; intros pre c Hok Hr.
  - cbn [map cp_run fst length]. rewrite Nat.add_0_r. exact Hr.
  - cbn [map]. rewrite pp_res_cons.
    set (w := mk_pr_world pre (map (fun e => Some (px_t0 e)) es)).
    assert (Hr' : pr_ready w c (px_t0 e)) by exact Hr.
    destruct (pp_one_call w e c (Forall_inv Hok) Hr') as (cD & d & E & Dn). rewrite E. cbn [fst].
    pose proof (pr_rest_finish _ _ _ (pr_done_rest w cD d _ Dn)) as Hn. cbn [pw_pre pw_post w] in Hn.
    assert (Ek : S (pr_k w) = length (pre ++ [pr_slot g (pp_tfin e)])) by (unfold pr_k, w; cbn [pw_pre]; rewrite app_length; cbn [length]; lia).
    rewrite Ek in Hn.
    assert (Et : pre ++ pr_slot g (pp_tfin e) :: map (fun e => Some (px_t0 e)) es = (pre ++ [pr_slot g (pp_tfin e)]) ++ map (fun e => Some (px_t0 e)) es)
      by (rewrite <- app_assoc; reflexivity).
    rewrite Et in Hn.
    pose proof (IH _ _ (Forall_inv_tail Hok) Hn) as R.
    rewrite <- app_assoc in R. cbn [app] in R. rewrite app_length in R. cbn [length] in R.
    cbn [map length]. replace (length pre + S (length es))%nat with (length pre + 1 + length es)%nat by lia. exact R.
Qed.
End A.
