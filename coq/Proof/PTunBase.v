(* C16 at history level -- common layer: the request side of the parser as a frame (tn_rq), runs of operations (cp_run over
   concatenated histories, one data call as an equation), what a caller observes per call, and the tunnel oracle chk_C16 on a
   history that consists of calls before the tunnel, the call that establishes it, and calls absorbed by it. *)
Require Import Htp.Model.Base Htp.Model.MBstr Htp.Model.MConnTypes Htp.Model.MTxCommon Htp.Model.MTxRes.
Require Import Htp.Model.MReq Htp.Model.MRes Htp.Model.MConnp.
Require Import Htp.Spec.SConnp Htp.Proof.PReq Htp.Proof.PRes Htp.Proof.PConnp Htp.Proof.PSeg.

(* the request side of the parser: the fields htp_connp_res_data does not write while it parses a status line and a header block *)
Definition tn_rq (c : connp) : connp :=
  mkconnp (c_in_status c) 0%Z (c_in_state c) (c_in_state_previous c) RES_IDLE None (c_in c) cursor_new (c_in_tx c) None [] 0 0 false
          (c_in_content_length c) (c_in_body_data_left c) (c_in_chunked_length c) 0%Z 0%Z 0%Z (c_in_chunk_count c) (c_in_chunk_request_index c)
          (c_conn_flags c) (c_in_data_counter c) 0%Z [] [] false.
Lemma tn_rq_proj c r : tn_rq c = r ->
  c_in_status c = c_in_status r /\ c_in_state c = c_in_state r /\ c_in_state_previous c = c_in_state_previous r /\ c_in c = c_in r /\
  c_in_tx c = c_in_tx r /\ c_conn_flags c = c_conn_flags r /\ c_in_content_length c = c_in_content_length r /\
  c_in_body_data_left c = c_in_body_data_left r.
Proof. intros <-. repeat split. Qed.

(* the response side of the parser: the fields htp_connp_req_data does not write (out_status is not among them: the entry of
   htp_connp_req_data turns DATA_OTHER into DATA, REQ_CONNECT_PROBE_DATA may set TUNNEL) *)
Definition tn_rs (c : connp) : connp :=
  mkconnp 0%Z 0%Z REQ_IDLE None (c_out_state c) (c_out_state_previous c) cursor_new (c_out c) None (c_out_tx c) [] 0 0 (c_out_data_other_at_tx_end c)
          0%Z 0%Z 0%Z (c_out_content_length c) (c_out_body_data_left c) (c_out_chunked_length c) 0 0 0%N 0%Z (c_out_data_counter c) [] [] false.
Lemma tn_rs_proj c r : tn_rs c = r ->
  c_out_state c = c_out_state r /\ c_out_state_previous c = c_out_state_previous r /\ c_out c = c_out r /\ c_out_tx c = c_out_tx r /\
  c_out_data_other_at_tx_end c = c_out_data_other_at_tx_end r.
Proof. intros <-. repeat split. Qed.

(* the request side is working: like PSeg.sg_live, but HTP_STREAM_DATA_OTHER (the request side suspended after CONNECT) is included *)
Definition tg_live (s : Z) : Prop := (s = c_HTP_STREAM_OPEN \/ s = c_HTP_STREAM_DATA_OTHER) \/ s = c_HTP_STREAM_DATA.
Lemma tg_live_closed s : tg_live s -> (s =? c_HTP_STREAM_CLOSED)%Z = false. Proof. intros [[H|H]|H]; rewrite H; reflexivity. Qed.
Lemma tg_live_tunnel s : tg_live s -> (s =? c_HTP_STREAM_TUNNEL)%Z = false. Proof. intros [[H|H]|H]; rewrite H; reflexivity. Qed.
Lemma tg_live_stop s : tg_live s -> (s =? c_HTP_STREAM_STOP)%Z = false. Proof. intros [[H|H]|H]; rewrite H; reflexivity. Qed.
Lemma tg_live_error s : tg_live s -> (s =? c_HTP_STREAM_ERROR)%Z = false. Proof. intros [[H|H]|H]; rewrite H; reflexivity. Qed.
Lemma tg_live_of_sg s : Htp.Proof.PSeg.sg_live s -> tg_live s. Proof. intros [H|H]; [left; left; exact H|right; exact H]. Qed.

Local Open Scope Z_scope.

(* what the caller sees of one data call: return code and consumed count; a call that leaves the request side out of tunnel mode *)
Definition tn_o (r : cp_result) : Z * nat := (r_rc r, r_consumed r).
Definition tn_rquiet (r : cp_result) : Prop := r_in_status r <> c_HTP_STREAM_TUNNEL.
Lemma tn_live_quiet s : tg_live s -> s <> c_HTP_STREAM_TUNNEL.
Proof. intros [[H|H]|H]; rewrite H; intro E; vm_compute in E; discriminate. Qed.

(* ================= runs of operations ================= *)
Section Run.
Variable cb : cb_oracle.
Variable g : cfg.

(* what finish_call leaves for the next call *)
Definition tn_fin (c : connp) : connp := forget_chunks c <| c_events := [] |>.
(* what the caller sees of a data call that ended in c1 with return code rc *)
Definition tn_res (c1 : connp) (rc : Z) (n : nat) : cp_result := snd (finish_call c1 rc n true).

(* the chunk pointers are stale between two calls *)
Definition tn_stable (k : cursor) : Prop := forget_one k = k.
Lemma tn_stable_forget k : tn_stable (forget_one k).
Proof. unfold tn_stable, forget_one. destruct (k_data k) eqn:E; cbn [k_data set]; [reflexivity|rewrite E; reflexivity]. Qed.
Lemma tn_fin_stable c : tn_stable (c_in (tn_fin c)) /\ tn_stable (c_out (tn_fin c)).
Proof. split; apply tn_stable_forget. Qed.
Lemma tn_step_fin c o : exists c', fst (cp_step cb g c o) = tn_fin c'.
Proof.
  destruct o as [|d|d|n|n| | | |k]; cbn [cp_step].
  - eexists; reflexivity.
  - destruct (connp_req_data cb g (Some d) (length d) c) as [c1 rc]. eexists; reflexivity.
  - destruct (connp_res_data cb g (Some d) (length d) c) as [c1 rc]. eexists; reflexivity.
  - destruct (connp_req_data cb g None n c) as [c1 rc]. eexists; reflexivity.
  - destruct (connp_res_data cb g None n c) as [c1 rc]. eexists; reflexivity.
  - eexists; reflexivity.
  - eexists; reflexivity.
  - destruct (connp_tx_freed c) as [c1 r]. eexists; reflexivity.
  - destruct (api_destroy_tx k c) as [c1 rc]. eexists; reflexivity.
Qed.
Lemma tn_step_req c (x : bytes) :
  cp_step cb g c (OpReqData x) =
    (tn_fin (fst (connp_req_data cb g (Some x) (length x) c)),
     tn_res (fst (connp_req_data cb g (Some x) (length x) c)) (snd (connp_req_data cb g (Some x) (length x) c))
            (k_read (c_in (fst (connp_req_data cb g (Some x) (length x) c))))).
Proof. cbn [cp_step]. destruct (connp_req_data cb g (Some x) (length x) c) as [c1 rc]. reflexivity. Qed.
Lemma tn_step_res c (x : bytes) :
  cp_step cb g c (OpResData x) =
    (tn_fin (fst (connp_res_data cb g (Some x) (length x) c)),
     tn_res (fst (connp_res_data cb g (Some x) (length x) c)) (snd (connp_res_data cb g (Some x) (length x) c))
            (k_read (c_out (fst (connp_res_data cb g (Some x) (length x) c))))).
Proof. cbn [cp_step]. destruct (connp_res_data cb g (Some x) (length x) c) as [c1 rc]. reflexivity. Qed.

Lemma tn_run_cons c o ops :
  cp_run cb g c (o :: ops) = (fst (cp_run cb g (fst (cp_step cb g c o)) ops), snd (cp_step cb g c o) :: snd (cp_run cb g (fst (cp_step cb g c o)) ops)).
Proof. cbn [cp_run]. destruct (cp_step cb g c o) as [c1 x]. cbn [fst snd]. destruct (cp_run cb g c1 ops) as [c2 xs]. reflexivity. Qed.
Lemma tn_run_app : forall a c b,
  cp_run cb g c (a ++ b) = (fst (cp_run cb g (fst (cp_run cb g c a)) b), snd (cp_run cb g c a) ++ snd (cp_run cb g (fst (cp_run cb g c a)) b)).
Proof.
  induction a as [|o a IH]; intros c b.
  - cbn [app cp_run fst snd]. destruct (cp_run cb g c b); reflexivity.
  - cbn [app]. rewrite !tn_run_cons. cbn [fst snd]. rewrite IH. reflexivity.
Qed.
Lemma tn_run_stable : forall ops c, tn_stable (c_in c) -> tn_stable (c_out c) ->
  tn_stable (c_in (fst (cp_run cb g c ops))) /\ tn_stable (c_out (fst (cp_run cb g c ops))).
Proof.
  induction ops as [|o ops IH]; intros c S1 S2; [cbn [cp_run fst]; split; assumption|].
  rewrite tn_run_cons. cbn [fst]. destruct (tn_step_fin c o) as (c' & E). rewrite E. destruct (tn_fin_stable c') as [A B]. apply IH; assumption.
Qed.
Lemma tn_run_length : forall ops c, length (snd (cp_run cb g c ops)) = length ops.
Proof. induction ops as [|o ops IH]; intros c; [reflexivity|]. rewrite tn_run_cons. cbn [snd length]. rewrite IH. reflexivity. Qed.

Lemma tn_combine_app {A B} : forall (a1 : list A) (b1 : list B) a2 b2, length a1 = length b1 ->
  combine (a1 ++ a2) (b1 ++ b2) = combine a1 b1 ++ combine a2 b2.
Proof.
  induction a1 as [|x a1 IH]; intros b1 a2 b2 L; destruct b1 as [|y b1]; try discriminate; [reflexivity|].
  cbn [app combine]. rewrite IH; [reflexivity|]. cbn in L. congruence.
Qed.
Lemma tn_obs_app c a b : obs_run cb g c (a ++ b) = obs_run cb g c a ++ obs_run cb g (fst (cp_run cb g c a)) b.
Proof.
  unfold obs_run. rewrite tn_run_app. cbn [snd]. rewrite tn_combine_app by (symmetry; apply tn_run_length). apply map_app.
Qed.
Lemma tn_obs_cons c o ops : obs_run cb g c (o :: ops) = obs_call o (snd (cp_step cb g c o)) :: obs_run cb g (fst (cp_step cb g c o)) ops.
Proof. unfold obs_run. rewrite tn_run_cons. reflexivity. Qed.
End Run.

(* ================= the tunnel oracle on a history with a quiet prefix ================= *)
(* a call after which not both directions are in tunnel mode *)
Definition tn_quiet (o : ocall) : Prop := oc_in_status o <> c_HTP_STREAM_TUNNEL.
(* a data call absorbed by the tunnel *)
Definition tn_abs (n : nat) (o : ocall) : Prop :=
  is_data_call (oc_kind o) = true /\ oc_rc o = c_HTP_STREAM_TUNNEL /\ oc_events o = [] /\ oc_ntx o = n.

Lemma tn_chk_pre : forall pre rest, Forall tn_quiet pre -> chk_C16_tunnel None (pre ++ rest) = chk_C16_tunnel None rest.
Proof.
  induction pre as [|o pre IH]; intros rest F; [reflexivity|]. inversion F as [|? ? Ho F']; subst.
  cbn [app chk_C16_tunnel]. unfold tn_quiet in Ho. apply Z.eqb_neq in Ho. rewrite Ho. cbn [andb]. apply IH. exact F'.
Qed.
Lemma tn_chk_post n : forall post, Forall (tn_abs n) post -> chk_C16_tunnel (Some n) post = true.
Proof.
  induction post as [|o post IH]; intros F; [reflexivity|]. inversion F as [|? ? (H1 & H2 & H3 & H4) F']; subst.
  cbn [chk_C16_tunnel]. rewrite H1, H2, H3, Nat.eqb_refl, (IH F'). reflexivity.
Qed.
Lemma tn_chk_first o rest : oc_in_status o = c_HTP_STREAM_TUNNEL -> oc_out_status o = c_HTP_STREAM_TUNNEL ->
  chk_C16_tunnel None (o :: rest) = chk_C16_tunnel (Some (oc_ntx o)) rest.
Proof. intros H1 H2. cbn [chk_C16_tunnel]. rewrite H1, H2. reflexivity. Qed.
Theorem tn_chk_history pre o post : Forall tn_quiet pre -> oc_in_status o = c_HTP_STREAM_TUNNEL -> oc_out_status o = c_HTP_STREAM_TUNNEL ->
  Forall (tn_abs (oc_ntx o)) post -> chk_C16 (pre ++ o :: post) = true.
Proof. intros F H1 H2 P. unfold chk_C16. rewrite (tn_chk_pre pre _ F), (tn_chk_first o post H1 H2). apply tn_chk_post. exact P. Qed.

(* ================= calls absorbed by the tunnel, calls turned away while the answer to CONNECT is awaited ================= *)
Section Calls.
Variable cb : cb_oracle.
Variable g : cfg.

(* the chunk is registered, nothing else happens *)
Definition tn_req_reg (x : bytes) (c : connp) : connp :=
  (rq_set_in (fun k => k <| k_data := Some x |> <| k_len := length x |> <| k_read := O |> <| k_consume := O |> <| k_receiver := O |>) c)
    <| c_in_chunk_count ::= S |> <| c_in_data_counter ::= Z.add (Z.of_nat (length x)) |>.
Definition tn_res_reg (x : bytes) (c : connp) : connp :=
  (rs_set_out (fun k => k <| k_data := Some x |> <| k_len := length x |> <| k_read := 0%nat |> <| k_consume := 0%nat |> <| k_receiver := 0%nat |>) c)
    <| c_out_data_counter ::= Z.add (Z.of_nat (length x)) |>.

Lemma tn_tunnel_req (x : bytes) c : c_in_status c = c_HTP_STREAM_TUNNEL -> (c_in_tx c <> None \/ c_in_state c = REQ_IDLE) -> x <> [] ->
  connp_req_data cb g (Some x) (length x) c = (tn_req_reg x c, c_HTP_STREAM_TUNNEL).
Proof.
  intros Ht Hg Hx. assert (Hl : (0 < length x)%nat) by (destruct x; [contradiction|cbn; lia]).
  unfold connp_req_data. rewrite req_guards_reduce.
  - cbv zeta. fold (tn_req_reg x c). change (c_in_status (tn_req_reg x c)) with (c_in_status c). rewrite Ht. reflexivity.
  - unfold req_guards_pass. rewrite Ht. repeat split; try (intro H; vm_compute in H; discriminate); assumption.
Qed.
Lemma tn_tunnel_res (x : bytes) c : c_out_status c = c_HTP_STREAM_TUNNEL -> (c_out_tx c <> None \/ c_out_state c = RES_IDLE) -> x <> [] ->
  connp_res_data cb g (Some x) (length x) c = (tn_res_reg x c, c_HTP_STREAM_TUNNEL).
Proof.
  intros Ht Hg Hx. assert (Hl : (0 < length x)%nat) by (destruct x; [contradiction|cbn; lia]).
  unfold connp_res_data. rewrite Ht.
  change (c_HTP_STREAM_TUNNEL =? c_HTP_STREAM_STOP) with false. change (c_HTP_STREAM_TUNNEL =? c_HTP_STREAM_ERROR) with false. cbv iota.
  assert (E3 : match c_out_tx c with None => negb (res_state_eqb (c_out_state c) RES_IDLE) | Some _ => false end = false).
  { destruct (c_out_tx c); [reflexivity|]. destruct Hg as [Hg|Hg]; [congruence|]. rewrite Hg. reflexivity. }
  rewrite E3. assert (E4 : (length x =? 0)%nat = false) by (apply Nat.eqb_neq; lia). rewrite E4. cbn [andb]. cbv iota zeta.
  fold (tn_res_reg x c). change (c_out_status (tn_res_reg x c)) with (c_out_status c). rewrite Ht. reflexivity.
Qed.

(* both directions in tunnel mode; the entry guards of the two data functions cannot fire *)
Record tn_tun (c : connp) : Prop := mk_tn_tun {
  tu_in : c_in_status c = c_HTP_STREAM_TUNNEL;
  tu_out : c_out_status c = c_HTP_STREAM_TUNNEL;
  tu_gin : c_in_tx c <> None \/ c_in_state c = REQ_IDLE;
  tu_gout : c_out_tx c <> None \/ c_out_state c = RES_IDLE;
  tu_ev : c_events c = [] }.

Definition tn_data_op (o : cp_op) : Prop := match o with OpReqData d | OpResData d => d <> [] | _ => False end.
(* what the caller sees of an absorbed call *)
Definition tn_absorbed (n : nat) (r : cp_result) : Prop :=
  r_rc r = c_HTP_STREAM_TUNNEL /\ r_consumed r = 0%nat /\ r_in_status r = c_HTP_STREAM_TUNNEL /\ r_out_status r = c_HTP_STREAM_TUNNEL /\
  r_ntx r = n /\ r_events r = [].

Lemma tn_tunnel_step c o : tn_tun c -> tn_data_op o ->
  tn_tun (fst (cp_step cb g c o)) /\ c_txs (fst (cp_step cb g c o)) = c_txs c /\ tn_absorbed (length (c_txs c)) (snd (cp_step cb g c o)).
Proof.
  intros [A1 A2 A3 A4 A5] Ho. destruct o as [|x|x| | | | | |]; try contradiction; cbn [tn_data_op] in Ho.
  - rewrite tn_step_req, (tn_tunnel_req x c A1 A3 Ho). cbn [fst snd]. split; [|split].
    + constructor; try assumption; reflexivity.
    + reflexivity.
    + unfold tn_absorbed, tn_res, finish_call. cbn [snd r_rc r_consumed r_in_status r_out_status r_ntx r_events].
      change (c_in_status (tn_req_reg x c)) with (c_in_status c). change (c_out_status (tn_req_reg x c)) with (c_out_status c).
      change (c_txs (tn_req_reg x c)) with (c_txs c). change (c_events (tn_req_reg x c)) with (c_events c). rewrite A1, A2, A5. repeat split.
  - rewrite tn_step_res, (tn_tunnel_res x c A2 A4 Ho). cbn [fst snd]. split; [|split].
    + constructor; try assumption; reflexivity.
    + reflexivity.
    + unfold tn_absorbed, tn_res, finish_call. cbn [snd r_rc r_consumed r_in_status r_out_status r_ntx r_events].
      change (c_in_status (tn_res_reg x c)) with (c_in_status c). change (c_out_status (tn_res_reg x c)) with (c_out_status c).
      change (c_txs (tn_res_reg x c)) with (c_txs c). change (c_events (tn_res_reg x c)) with (c_events c). rewrite A1, A2, A5. repeat split.
Qed.

Theorem tn_tunnel_tail : forall tail c, tn_tun c -> Forall tn_data_op tail ->
  tn_tun (fst (cp_run cb g c tail)) /\ c_txs (fst (cp_run cb g c tail)) = c_txs c /\
  Forall (tn_absorbed (length (c_txs c))) (snd (cp_run cb g c tail)).
Proof.
  induction tail as [|o tail IH]; intros c T F; [cbn [cp_run fst snd]; split; [exact T|split; [reflexivity|constructor]]|].
  inversion F as [|? ? Ho F']; subst. rewrite tn_run_cons. cbn [fst snd].
  destruct (tn_tunnel_step c o T Ho) as (T1 & X1 & R1). destruct (IH _ T1 F') as (T2 & X2 & R2).
  split; [exact T2|]. split; [rewrite X2; exact X1|]. constructor; [exact R1|]. rewrite X1 in R2. exact R2.
Qed.

(* the tunnel oracle's view of absorbed calls *)
Lemma tn_absorbed_obs n : forall tail rs, Forall tn_data_op tail -> Forall (tn_absorbed n) rs -> length rs = length tail ->
  Forall (tn_abs n) (map (fun '(o, r) => obs_call o r) (combine tail rs)).
Proof.
  induction tail as [|o tail IH]; intros rs F R L; [constructor|].
  destruct rs as [|r rs]; [discriminate|]. inversion F as [|? ? Ho F']; subst. inversion R as [|? ? (H1 & H2 & H3 & H4 & H5 & H6) R']; subst.
  cbn [combine map]. constructor; [|apply IH; [exact F'|exact R'|cbn in L; congruence]].
  unfold tn_abs, obs_call. cbn [oc_kind oc_rc oc_events oc_ntx]. rewrite H1, H6. cbn [map].
  split; [destruct o; try contradiction; reflexivity|]. repeat split.
Qed.

(* ---- a request data call while the answer to CONNECT is awaited and its status line is not complete ---- *)
Definition tn_refused_st (x : bytes) (c : connp) : connp :=
  let c1 := tn_req_reg x c in
  (if c_out_status c1 =? c_HTP_STREAM_DATA_OTHER then c1 <| c_out_status := c_HTP_STREAM_DATA |> else c1) <| c_in_status := c_HTP_STREAM_DATA_OTHER |>.
Lemma tn_refused (x : bytes) c i :
  c_in_state c = REQ_CONNECT_WAIT_RESPONSE -> c_in_tx c = Some i -> t_response_progress (tx_get c i) <= c_HTP_RESPONSE_LINE ->
  c_in_status c = c_HTP_STREAM_DATA \/ c_in_status c = c_HTP_STREAM_DATA_OTHER -> x <> [] ->
  connp_req_data cb g (Some x) (length x) c = (tn_refused_st x c, c_HTP_STREAM_DATA_OTHER).
Proof.
  intros Hs Hi Hp Hst Hx. assert (Hl : (0 < length x)%nat) by (destruct x; [contradiction|cbn; lia]).
  unfold connp_req_data.
  rewrite req_guards_reduce by (unfold req_guards_pass; repeat split; try (destruct Hst as [E|E]; rewrite E; intro H; vm_compute in H; discriminate); [left; congruence|exact Hl]).
  cbv zeta. fold (tn_req_reg x c). change (c_in_status (tn_req_reg x c)) with (c_in_status c).
  assert (E : (c_in_status c =? c_HTP_STREAM_TUNNEL) = false) by (destruct Hst as [E|E]; rewrite E; reflexivity). rewrite E.
  set (c3 := if c_out_status (tn_req_reg x c) =? c_HTP_STREAM_DATA_OTHER then tn_req_reg x c <| c_out_status := c_HTP_STREAM_DATA |> else tn_req_reg x c).
  assert (F3 : c_in_state c3 = REQ_CONNECT_WAIT_RESPONSE /\ c_in_tx c3 = Some i /\ c_txs c3 = c_txs c /\ c_txs_shifted c3 = c_txs_shifted c /\
               k_read (c_in c3) = 0%nat /\ k_len (c_in c3) = length x).
  { subst c3. destruct (c_out_status (tn_req_reg x c) =? c_HTP_STREAM_DATA_OTHER); cbn; repeat split; assumption. }
  destruct F3 as (S3 & I3 & T3 & Sh3 & R3 & L3).
  destruct (rq_fuel (length x)) as [|f] eqn:Ef; [unfold rq_fuel in Ef; lia|].
  cbn [rq_loop]. unfold rq_iter. rewrite S3. cbn [rq_state_fn].
  unfold REQ_CONNECT_WAIT_RESPONSE_fn, rq_tx, in_txi. rewrite I3.
  assert (Tg : tx_get c3 i = tx_get c i) by (unfold tx_get, tx_slot; rewrite T3, Sh3; reflexivity).
  rewrite Tg. apply Z.leb_le in Hp. rewrite Hp.
  unfold rq_exit, rq_at_end. rewrite R3, L3.
  assert (El : (length x <=? 0)%nat = false) by (apply Nat.leb_gt; lia). rewrite El. reflexivity.
Qed.
End Calls.
