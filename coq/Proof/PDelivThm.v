(* C06, history level: the DELIVERY theorems from a fresh connection, through cp_run, for every chunking -- the statements on the
   log of the WHOLE run, the property-level corollary common to the five framings, and the block for re-export.
   dv_log cb g ops = the per-call event lists (r_events, oldest first) of cp_run cb g connp_new ops, concatenated.
   Request direction: REQUEST_BODY_DATA / REQUEST_COMPLETE events (dv_rq_hook); response direction: RESPONSE_BODY_DATA /
   RESPONSE_COMPLETE events (dv_rs_hook), the request being delivered in one chunk before the response. *)
Require Import Htp.Model.Base Htp.Model.MBstr Htp.Model.MConnTypes Htp.Model.MTxCommon Htp.Model.MReq Htp.Model.MRes Htp.Model.MConnp.
Require Import Htp.Spec.SWire Htp.Spec.SBody Htp.Proof.PBody Htp.Proof.PWireExch Htp.Proof.PWireGlue Htp.Proof.PSegRun Htp.Proof.PSegFold Htp.Proof.PSegBody.
Require Import Htp.Proof.PSegChunkedRun Htp.Proof.PSegRes Htp.Proof.PSegResRun Htp.Proof.PSegResThm Htp.Proof.PSegResChRun Htp.Proof.PSegResClose.
Require Import Htp.Proof.PDeliv Htp.Proof.PDelivReqBody Htp.Proof.PDelivReqChunked Htp.Proof.PDelivRes Htp.Proof.PDelivResBody Htp.Proof.PDelivResChunked.
Require Import Htp.Proof.PDelivResClose Htp.Proof.PDelivReqRs.

(* ================= the response theorems on the log of the whole run ================= *)
Theorem dv_response_body_delivery_whole : forall cb g rq r (cuts : list (list bytes)) (body : bytes) (chunks : list bytes),
  wr_all_ok cb -> g_allow_space_uri g = false -> wr_request_ok rq = true ->
  sr_response_ok r = true -> sr_cuts_ok r cuts = true -> sr_framed cb g rq r cuts body = true -> sr_fits g r cuts = true ->
  Forall (fun x => x <> []) chunks -> concat chunks = sr_wire r cuts body ->
  sr_f1_free body (negb (sr_is_nil (sr_lines r cuts))) chunks = true ->
  dv_delivered_k H_RESPONSE_BODY_DATA H_RESPONSE_COMPLETE 0 (dv_nmark body) body
    (dv_selp dv_rs_hook (dv_log cb g (OpOpen :: OpReqData (wr_request_wire rq) :: map OpResData chunks))).
Proof.
  intros cb g rq r cuts body chunks Hcb Hsp Wq Wr Wc Hfr Hfit Hall Hc Hf1. rewrite (dv_whole_log cb g rq _ Hcb Hsp Wq).
  apply (dv_response_body_delivery cb g rq r cuts body chunks Hcb Hsp Wq Wr Wc Hfr Hfit Hall Hc Hf1).
Qed.
Theorem dv_response_chunked_delivery_whole : forall cb g rq r (cuts : list (list bytes)) (ks : list bd_chunk) (last : bytes) (tr : list wr_field)
    (tcuts : list (list bytes)) (chunks : list bytes),
  wr_all_ok cb -> g_allow_space_uri g = false -> wr_request_ok rq = true ->
  sr_response_ok r = true -> sr_cuts_ok r cuts = true -> sr_framed_ch cb g rq r cuts = true -> sr_fits g r cuts = true ->
  sr_cfbody_ok g r ks last tr tcuts = true ->
  Forall (fun x => x <> []) chunks -> concat chunks = sr_wire r cuts (sr_cfbody_wire ks last tr tcuts) ->
  sr_f1_free (sr_cfbody_wire ks last tr tcuts) (negb (sr_is_nil (sr_lines r cuts))) chunks = true ->
  dv_delivered_k H_RESPONSE_BODY_DATA H_RESPONSE_COMPLETE 0 1 (bd_chunks_data ks)
    (dv_selp dv_rs_hook (dv_log cb g (OpOpen :: OpReqData (wr_request_wire rq) :: map OpResData chunks))).
Proof.
  intros cb g rq r cuts ks last tr tcuts chunks Hcb Hsp Wq Wr Wc Hfr Hfit Hb Hall Hc Hf1. rewrite (dv_whole_log cb g rq _ Hcb Hsp Wq).
  apply (dv_response_chunked_delivery cb g rq r cuts ks last tr tcuts chunks Hcb Hsp Wq Wr Wc Hfr Hfit Hb Hall Hc Hf1).
Qed.
Theorem dv_response_close_delivery_whole : forall cb g rq r (cuts : list (list bytes)) (body : bytes) (chunks : list bytes),
  wr_all_ok cb -> g_allow_space_uri g = false -> wr_request_ok rq = true ->
  sr_response_ok r = true -> sr_cuts_ok r cuts = true -> sr_framed_close cb g rq r cuts = true -> sr_fits g r cuts = true ->
  Forall (fun x => x <> []) chunks -> concat chunks = sr_wire r cuts body ->
  sr_f1_free body (negb (sr_is_nil (sr_lines r cuts))) chunks = true ->
  dv_delivered_k H_RESPONSE_BODY_DATA H_RESPONSE_COMPLETE 0 1 body
    (dv_selp dv_rs_hook (dv_log cb g (OpOpen :: OpReqData (wr_request_wire rq) :: map OpResData chunks ++ [OpClose]))).
Proof.
  intros cb g rq r cuts body chunks Hcb Hsp Wq Wr Wc Hfr Hfit Hall Hc Hf1. rewrite (dv_whole_log cb g rq _ Hcb Hsp Wq).
  apply (dv_response_close_delivery cb g rq r cuts body chunks Hcb Hsp Wq Wr Wc Hfr Hfit Hall Hc Hf1).
Qed.

(* ================= the property, in one form for the five framings =================
   evs (the body-data and completion events of the message, in the order of the calls) = data events with non-empty payloads that
   concatenate to exactly the body, in order; then k >= 1 end-of-body markers, nothing between them; then the completion callback, once *)
Definition dv_c06 (h hc i : nat) (last : bool) (body : bytes) (evs : list event) : Prop :=
  exists k ds, (1 <= k)%nat /\ evs = map (dv_data h i) ds ++ repeat (dv_marker h i last) k ++ [dv_done hc i] /\ concat ds = body /\ Forall (fun d => d <> []) ds.
Lemma dv_c06_of_c h hc i last body evs : dv_delivered_c h hc i last body evs -> dv_c06 h hc i last body evs.
Proof. intros (ds & E & C & F). exists 1%nat, ds. split; [lia|]. split; [exact E|split; assumption]. Qed.
Lemma dv_c06_of_k h hc i k body evs : (1 <= k)%nat -> dv_delivered_k h hc i k body evs -> dv_c06 h hc i false body evs.
Proof. intros Hk (ds & E & C & F). exists k, ds. split; [exact Hk|]. split; [exact E|split; assumption]. Qed.
(* what it says about the payloads, the markers and the completion callback *)
Lemma dv_c06_meaning h hc i last body evs : h <> hc -> dv_c06 h hc i last body evs ->
  concat (map bd_ev_bytes (dv_sel h evs)) = body /\
  (exists pre k, (1 <= k)%nat /\ dv_sel h evs = pre ++ repeat (dv_marker h i last) k /\ Forall (fun e => ev_data e <> None) pre) /\
  dv_sel hc evs = [dv_done hc i] /\ bd_marker_ok h hc evs false = true.
Proof.
  intros Hn (k & ds & Hk & E & C & F). subst evs. assert (N1 : Nat.eqb hc h = false) by (apply Nat.eqb_neq; congruence). assert (N2 : Nat.eqb h hc = false) by (apply Nat.eqb_neq; exact Hn).
  assert (S1 : dv_sel h (repeat (dv_marker h i last) k) = repeat (dv_marker h i last) k).
  { clear. induction k as [|k IH]; [reflexivity|]. unfold dv_sel in *. cbn [repeat filter dv_marker ev_hook]. rewrite Nat.eqb_refl, IH. reflexivity. }
  assert (S2 : dv_sel hc (repeat (dv_marker h i last) k) = []).
  { clear - N2. induction k as [|k IH]; [reflexivity|]. unfold dv_sel in *. cbn [repeat filter dv_marker ev_hook]. rewrite N2. exact IH. }
  assert (Z0 : dv_sel hc (map (dv_data h i) ds) = []).
  { clear - N2. induction ds as [|d ds IH]; [reflexivity|]. unfold dv_sel in *. cbn [map filter dv_data ev_hook]. rewrite N2. exact IH. }
  assert (E1 : dv_sel h (map (dv_data h i) ds ++ repeat (dv_marker h i last) k ++ [dv_done hc i]) = map (dv_data h i) ds ++ repeat (dv_marker h i last) k).
  { rewrite !dv_sel_app, dv_sel_map_data, S1. unfold dv_sel at 1. cbn [filter dv_done ev_hook]. rewrite N1. rewrite app_nil_r. reflexivity. }
  split; [|split; [|split]].
  - rewrite E1, map_app, concat_app, dv_map_data_bytes, C.
    assert (Zm : concat (map bd_ev_bytes (repeat (dv_marker h i last) k)) = []) by (clear; induction k as [|k IH]; [reflexivity|exact IH]).
    rewrite Zm. apply app_nil_r.
  - exists (map (dv_data h i) ds), k. split; [exact Hk|]. split; [exact E1|]. apply Forall_forall. intros e Hin. apply in_map_iff in Hin. destruct Hin as (d & Ed & _). subst e. discriminate.
  - rewrite !dv_sel_app, Z0, S2. unfold dv_sel. cbn [filter dv_done ev_hook app]. rewrite Nat.eqb_refl. reflexivity.
  - apply bd_marker_skip.
    + apply Forall_forall. intros e Hin. apply in_map_iff in Hin. destruct Hin as (d & Ed & _). subst e. cbn. exact Hn.
    + intros s'. destruct k as [|k]; [lia|]. cbn [repeat app]. apply bd_marker_at; [exact Hn|reflexivity|reflexivity].
Qed.

Theorem dv_c06_request_cl : forall cb g r (cuts : list (list bytes)) (body : bytes) (chunks : list bytes),
  wr_all_ok cb -> g_allow_space_uri g = false -> sg_body_ok g r body = true -> sg_cuts_ok r cuts = true -> sg_fold_fits g r cuts = true ->
  Forall (fun x => x <> []) chunks -> concat chunks = sg_fold_wire r cuts ++ body ->
  dv_c06 H_REQUEST_BODY_DATA H_REQUEST_COMPLETE 0 true body (dv_selp dv_rq_hook (dv_log cb g (OpOpen :: map OpReqData chunks))).
Proof. intros cb g r cuts body chunks; intros. apply dv_c06_of_c. apply (dv_request_body_delivery_c cb g r cuts body chunks); assumption. Qed.
Theorem dv_c06_request_chunked : forall cb g r (cuts : list (list bytes)) (ks : list bd_chunk) (last : bytes) (tr : list wr_field)
    (tcuts : list (list bytes)) (chunks : list bytes),
  wr_all_ok cb -> g_allow_space_uri g = false -> sg_chunked_ok g r = true -> sg_cuts_ok r cuts = true -> sg_fold_fits g r cuts = true ->
  sg_cfbody_ok g ks last tr tcuts = true ->
  Forall (fun x => x <> []) chunks -> concat chunks = sg_fold_wire r cuts ++ sg_cfbody_wire ks last tr tcuts ->
  dv_c06 H_REQUEST_BODY_DATA H_REQUEST_COMPLETE 0 true (bd_chunks_data ks) (dv_selp dv_rq_hook (dv_log cb g (OpOpen :: map OpReqData chunks))).
Proof. intros cb g r cuts ks last tr tcuts chunks; intros. apply dv_c06_of_c. apply (dv_request_chunked_delivery_c cb g r cuts ks last tr tcuts chunks); assumption. Qed.
Theorem dv_c06_response_cl : forall cb g rq r (cuts : list (list bytes)) (body : bytes) (chunks : list bytes),
  wr_all_ok cb -> g_allow_space_uri g = false -> wr_request_ok rq = true ->
  sr_response_ok r = true -> sr_cuts_ok r cuts = true -> sr_framed cb g rq r cuts body = true -> sr_fits g r cuts = true ->
  Forall (fun x => x <> []) chunks -> concat chunks = sr_wire r cuts body ->
  sr_f1_free body (negb (sr_is_nil (sr_lines r cuts))) chunks = true ->
  dv_c06 H_RESPONSE_BODY_DATA H_RESPONSE_COMPLETE 0 false body
    (dv_selp dv_rs_hook (dv_log cb g (OpOpen :: OpReqData (wr_request_wire rq) :: map OpResData chunks))).
Proof. intros cb g rq r cuts body chunks; intros. apply (dv_c06_of_k _ _ _ (dv_nmark body)); [destruct body; cbn; lia|]. apply (dv_response_body_delivery_whole cb g rq r cuts body chunks); assumption. Qed.
Theorem dv_c06_response_chunked : forall cb g rq r (cuts : list (list bytes)) (ks : list bd_chunk) (last : bytes) (tr : list wr_field)
    (tcuts : list (list bytes)) (chunks : list bytes),
  wr_all_ok cb -> g_allow_space_uri g = false -> wr_request_ok rq = true ->
  sr_response_ok r = true -> sr_cuts_ok r cuts = true -> sr_framed_ch cb g rq r cuts = true -> sr_fits g r cuts = true ->
  sr_cfbody_ok g r ks last tr tcuts = true ->
  Forall (fun x => x <> []) chunks -> concat chunks = sr_wire r cuts (sr_cfbody_wire ks last tr tcuts) ->
  sr_f1_free (sr_cfbody_wire ks last tr tcuts) (negb (sr_is_nil (sr_lines r cuts))) chunks = true ->
  dv_c06 H_RESPONSE_BODY_DATA H_RESPONSE_COMPLETE 0 false (bd_chunks_data ks)
    (dv_selp dv_rs_hook (dv_log cb g (OpOpen :: OpReqData (wr_request_wire rq) :: map OpResData chunks))).
Proof. intros cb g rq r cuts ks last tr tcuts chunks; intros. apply (dv_c06_of_k _ _ _ 1); [lia|]. apply (dv_response_chunked_delivery_whole cb g rq r cuts ks last tr tcuts chunks); assumption. Qed.
Theorem dv_c06_response_close : forall cb g rq r (cuts : list (list bytes)) (body : bytes) (chunks : list bytes),
  wr_all_ok cb -> g_allow_space_uri g = false -> wr_request_ok rq = true ->
  sr_response_ok r = true -> sr_cuts_ok r cuts = true -> sr_framed_close cb g rq r cuts = true -> sr_fits g r cuts = true ->
  Forall (fun x => x <> []) chunks -> concat chunks = sr_wire r cuts body ->
  sr_f1_free body (negb (sr_is_nil (sr_lines r cuts))) chunks = true ->
  dv_c06 H_RESPONSE_BODY_DATA H_RESPONSE_COMPLETE 0 false body
    (dv_selp dv_rs_hook (dv_log cb g (OpOpen :: OpReqData (wr_request_wire rq) :: map OpResData chunks ++ [OpClose]))).
Proof. intros cb g rq r cuts body chunks; intros. apply (dv_c06_of_k _ _ _ 1); [lia|]. apply (dv_response_close_delivery_whole cb g rq r cuts body chunks); assumption. Qed.

(* ======================================================================================================================
   THEOREMS FOR RE-EXPORT (Props/Properties_C06.v): history-level delivery, every chunking, from a fresh connection
   ----------------------------------------------------------------------------------------------------------------------
   vocabulary (PDeliv.v, PDelivResBody.v): dv_log, dv_sel h, dv_selp P, dv_data / dv_marker / dv_done,
     dv_delivered h i last body evs     evs = data* ++ [marker]                      (data payloads non-empty, concat = body)
     dv_delivered_c h hc i last body evs  evs = data* ++ [marker; completion]
     dv_delivered_k h hc i k body evs     evs = data* ++ repeat marker k ++ [completion]
     dv_c06 h hc i last body evs          exists k >= 1, evs = data* ++ repeat marker k ++ [completion]; dv_c06_meaning unfolds it
   REQUEST (D1), log = dv_selp dv_rq_hook (dv_log cb g (OpOpen :: map OpReqData chunks)):
     dv_request_body_delivery_c, dv_request_body_delivery, dv_request_body_delivery_counted        (PDelivReqBody.v; premises of PSegBody)
     dv_request_chunked_delivery_c, dv_request_chunked_delivery, _counted, _unfolded              (PDelivReqChunked.v; premises of PSegChunkedRun)
   RESPONSE (D2), request in one chunk first:
     dv_response_body_delivery(_whole), dv_response_body_delivery_counted     TWO markers when body <> [] (witness dv_res_cl_two_markers)
     dv_response_chunked_delivery(_whole), dv_response_chunked_delivery_sel
     dv_response_close_delivery(_whole), dv_response_close_delivery_sel       marker and RESPONSE_COMPLETE come from OpClose
   the five framings in one form: dv_c06_request_cl, dv_c06_request_chunked, dv_c06_response_cl, dv_c06_response_chunked, dv_c06_response_close
   auxiliary, of independent use: dw_request_call_silent (the request call emits no RESPONSE_* event), dv_qin_res_run /
     qi_res_data (htp_connp_res_data leaves the request-side cursor alone), the frame lemmas dv_fr_iter / dv_siter_quiet
   ====================================================================================================================== *)
Print Assumptions dv_request_body_delivery_c.
Print Assumptions dv_request_body_delivery.
Print Assumptions dv_request_body_delivery_counted.
Print Assumptions dv_request_chunked_delivery_c.
Print Assumptions dv_request_chunked_delivery.
Print Assumptions dv_request_chunked_delivery_counted.
Print Assumptions dv_request_chunked_delivery_unfolded.
Print Assumptions dv_response_body_delivery.
Print Assumptions dv_response_body_delivery_whole.
Print Assumptions dv_response_body_delivery_counted.
Print Assumptions dv_response_chunked_delivery.
Print Assumptions dv_response_chunked_delivery_whole.
Print Assumptions dv_response_chunked_delivery_sel.
Print Assumptions dv_response_close_delivery.
Print Assumptions dv_response_close_delivery_whole.
Print Assumptions dv_response_close_delivery_sel.
Print Assumptions dv_c06_meaning.
Print Assumptions dv_c06_request_cl.
Print Assumptions dv_c06_request_chunked.
Print Assumptions dv_c06_response_cl.
Print Assumptions dv_c06_response_chunked.
Print Assumptions dv_c06_response_close.
Print Assumptions dw_request_call_silent.
