(* C03, response direction: the driver that is common to every form of the response -- one call of htp_connp_res_data that
   starts in RES_IDLE / RES_LINE / RES_HEADERS, and the induction over the chunks.  The header phase and what follows it are
   parameters: hlog hdr t p rw = "the header block is in a state from which the wire rw remains, p being the seen part of
   the current line"; Hcall / Hcall_start = what one pass through RES_HEADERS (and whatever follows it in the same call)
   establishes; okc x rw' = the side condition on a chunk x followed by the wire rw' (finding F1). *)
Require Import Htp.Model.Base Htp.Model.MBstr Htp.Model.MConnTypes Htp.Model.MTxCommon Htp.Model.MResLine Htp.Model.MTxRes.
Require Import Htp.Model.MReq Htp.Model.MRes Htp.Model.MConnp.
Require Import Htp.Spec.SWire Htp.Proof.PWire Htp.Proof.PWireHdr Htp.Proof.PWireBlock Htp.Proof.PWireConn Htp.Proof.PWireExch.
Require Import Htp.Proof.PWireRun Htp.Proof.PWirePres Htp.Proof.PWireGlue Htp.Proof.PSeg Htp.Proof.PSegLine Htp.Proof.PSegHdr Htp.Proof.PSegGen Htp.Proof.PSegRun.
Require Import Htp.Proof.PSegFold Htp.Proof.PSegRes Htp.Proof.PSegResLine Htp.Proof.PSegResHdr.

Lemma sr_fuel_9 (x : bytes) : exists f, rs_res_fuel (length x) = (9 + f)%nat.
Proof. exists (8 * length x + 55)%nat. unfold rs_res_fuel. lia. Qed.

(* every chunk satisfies the side condition, with the wire that follows it *)
Fixpoint sr_oks (okc : bytes -> bytes -> Prop) (chunks : list bytes) : Prop :=
  match chunks with [] => True | x :: rest => okc x (concat rest) /\ sr_oks okc rest end.

Section Gen.
Variable cb : cb_oracle.
Variable g : cfg.
Hypothesis Hcb : wr_all_ok cb.
Variables ps s r : bytes.
Hypothesis Wl : sr_status_ok ps s r = true.
Hypothesis Hlim0 : (length (wr_ser_status_line ps s r) + 2 <= g_field_limit_hard g)%nat.
Variable t0 : tx.                                                   (* the transaction the response belongs to *)
Hypothesis H09 : t_is_protocol_0_9 t0 = false.
Variable bwt : bytes.                                               (* the wire after the status line *)
Variable hlog : option bytes -> tx -> bytes -> bytes -> Prop.
Variable fin : list (option tx) -> Prop.                            (* what the transaction list has to be at the end *)
Variable ext : connp -> bytes -> Prop.                              (* further states between two calls (a body being read) *)
Variable okc : bytes -> bytes -> Prop.

Let line0 := wr_ser_status_line ps s r.
Let th0 := sr_th0 t0 line0.

(* ---- the state between two calls, and what one call has to establish ---- *)
Definition sr_between (c : connp) (rw : bytes) : Prop :=
  (exists p q, sr_mid c p None RES_LINE None (sr_tx_start t0) /\ p ++ q = line0 ++ [CR; LF] /\ q <> [] /\ rw = q ++ bwt) \/
  (exists p hdr t, sr_mid c p hdr RES_HEADERS (Some H_RESPONSE_HEADER_DATA) t /\ hlog hdr t p rw) \/
  ext c rw.
Definition sr_post (cF : connp) (rw' : bytes) : Prop :=
  (rw' <> [] /\ sr_between cF rw') \/ (rw' = [] /\ fin (c_txs cF)).

Hypothesis Hext_finish : forall c rw, ext c rw -> ext (forget_chunks c <| c_events := [] |>) rw.
Hypothesis Hext_step : forall c (rw x rw' : bytes), ext c rw -> x <> [] -> rw = x ++ rw' -> okc x rw' ->
  exists c' rc, connp_res_data cb g (Some x) (length x) c = (c', rc) /\ sr_post c' rw'.
(* a call that continues in RES_HEADERS *)
Hypothesis Hcall : forall c d p hdr t rw' f, okc d rw' ->
  sr_cin c d 0 p hdr RES_HEADERS (Some RES_HEADERS) (Some H_RESPONSE_HEADER_DATA) t -> hlog hdr t p (d ++ rw') ->
  exists cF rc, rs_res_loop cb g (7 + f) false c = (cF, rc) /\ sr_post cF rw'.
(* the header block starts in the chunk that brought the end of the status line *)
Hypothesis Hcall_start : forall c d rd rw' f, okc d rw' ->
  sr_cin c d rd [] None RES_HEADERS (Some RES_HEADERS) (Some H_RESPONSE_HEADER_DATA) th0 -> skipn rd d ++ rw' = bwt -> (0 < rd)%nat ->
  exists cF rc, rs_res_loop cb g (7 + f) false c = (cF, rc) /\ sr_post cF rw'.

(* ---- RES_LINE: the rest of the chunk lies inside the status line ---- *)
Lemma sr_line_partial c d rd p hdr prev rh t u0 r0 n : sr_cin c d rd p hdr RES_LINE prev rh t ->
  skipn rd d = u0 ++ r0 -> sr_plain u0 = true -> r0 = [] \/ r0 = [CR] -> (length d - rd < n)%nat ->
  exists c', rs_line_loop cb g n c = (ST_DATA_BUFFER, c') /\ sr_cin c' d (length d) (p ++ skipn rd d) hdr RES_LINE prev rh t.
Proof.
  intros H Hu Ps Hr0 Hn. pose proof (ri_rd _ _ _ _ _ _ _ _ _ H) as Hrd.
  assert (Lu : length (skipn rd d) = (length d - rd)%nat) by apply skipn_length. rewrite Hu, app_length in Lu.
  replace n with (length u0 + S (n - length u0 - 1))%nat by lia.
  destruct (sr_line_scan_plain cb g d hdr prev rh t u0 c rd p (S (n - length u0 - 1)) r0 H Hu Ps) as (c1 & E1 & H1 & R1). rewrite E1, Hu.
  destruct Hr0 as [E|E]; subst r0.
  - cbn [length] in Lu. assert (Erd : (rd + length u0)%nat = length d) by lia. rewrite Erd in H1. rewrite app_nil_r.
    exists c1. split; [apply (sr_line_loop_end cb g c1 d _ hdr _ _ t _ H1)|exact H1].
  - destruct (sr_line_loop_cr_end cb g c1 d _ _ hdr _ _ t (n - length u0 - 1) H1 R1) as (c2 & E2 & H2).
    exists c2. split; [exact E2|]. rewrite <- app_assoc in H2. exact H2.
Qed.

(* ---- a call that starts (or continues) in RES_LINE ---- *)
Lemma sr_call_line c d p q rw' f : okc d rw' ->
  sr_cin c d 0 p None RES_LINE (Some RES_LINE) None (sr_tx_start t0) ->
  p ++ q = line0 ++ [CR; LF] -> q <> [] -> d ++ rw' = q ++ bwt -> d <> [] ->
  exists cF rc, rs_res_loop cb g (8 + f) false c = (cF, rc) /\ sr_post cF rw'.
Proof.
  intros Hok H Hpq Hq Hw Hd.
  destruct (sr_status_line_shape ps s r Wl) as (Pl & _). fold line0 in Pl.
  destruct (sg_app_cases d rw' q _ Hw) as [Clt Cge].
  assert (Es : c_out_state c = RES_LINE) by apply (ri_state _ _ _ _ _ _ _ _ _ H).
  destruct (Nat.lt_ge_cases (length d) (length q)) as [Llt|Lge].
  - (* the chunk ends inside the status line *)
    destruct (Clt Llt) as (q2 & Eq & Hq2 & Erw).
    assert (Hpq' : p ++ d ++ q2 = line0 ++ [CR; LF]) by (rewrite <- Eq; exact Hpq).
    destruct (sr_prefix_shape line0 p d q2 Pl Hpq' Hq2) as (u0 & r0 & Eu & Ps & Hr0).
    destruct (sr_line_partial c d 0 p None _ None _ u0 r0 (S (S (length d))) H Eu Ps Hr0 ltac:(lia)) as (c' & E & H'). cbn [skipn] in H'.
    assert (Lim : (length (p ++ d) + length (sg_olist None) <= g_field_limit_hard g)%nat).
    { assert (L : length (p ++ d ++ q2) = (length line0 + 2)%nat) by (rewrite Hpq', app_length; reflexivity). rewrite !app_length in L. rewrite app_length.
      cbn [sg_olist length]. unfold line0 in L. lia. }
    destruct (sr_exit_buffer cb g Hcb c' d _ None _ _ _ H' Lim) as (cF & EF & HF).
    exists cF, c_HTP_STREAM_DATA. split.
    + change (8 + f)%nat with (S (7 + f)). apply sr_loop_inl. unfold sr_iter. rewrite Es. cbn [rs_state_fn]. unfold rs_RES_LINE, rs_bytes_fuel.
      rewrite (ri_len _ _ _ _ _ _ _ _ _ H), (ri_read _ _ _ _ _ _ _ _ _ H), Nat.sub_0_r, E, EF. reflexivity.
    + left. split; [rewrite Erw; destruct q2; [contradiction|discriminate]|]. left. exists (p ++ d), q2.
      split; [exact HF|]. split; [rewrite <- app_assoc; exact Hpq'|]. split; [exact Hq2|exact Erw].
  - (* the status line is complete in this chunk *)
    destruct (Cge Lge) as (d2 & Ed & Eaft).
    destruct (sr_pass_line cb g Hcb c d p q d2 _ ps s r Wl H Ed Hq Hpq Hlim0) as (c2 & E2 & H2 & Hr2).
    change (8 + f)%nat with (S (7 + f)). rewrite (sr_loop_inr cb g _ _ _ E2).
    apply (Hcall_start c2 d _ rw' f Hok H2); [rewrite Hr2; symmetry; exact Eaft|destruct q; [contradiction|cbn [length]; lia]].
Qed.

(* ---- one call of htp_connp_res_data ---- *)
Lemma sr_step c (rw x rw' : bytes) : sr_between c rw -> x <> [] -> rw = x ++ rw' -> okc x rw' ->
  exists c' rc, connp_res_data cb g (Some x) (length x) c = (c', rc) /\ sr_post c' rw'.
Proof.
  intros [(p & q & Hm & Hpq & Hq & Erw)|[(p & hdr & t & Hm & Hl)|He]] Hne Ex Hok.
  - destruct (sr_enter cb g c p None _ _ _ x Hm Hne) as (c1 & E1 & H1). unfold bytes in *. rewrite E1.
    destruct (sr_fuel_9 x) as (f & Ef). rewrite Ef. change (9 + f)%nat with (8 + (1 + f))%nat.
    apply (sr_call_line c1 x p q rw' _ Hok H1 Hpq Hq); [rewrite <- Ex; exact Erw|exact Hne].
  - destruct (sr_enter cb g c p hdr _ _ t x Hm Hne) as (c1 & E1 & H1). unfold bytes in *. rewrite E1.
    destruct (sr_fuel_9 x) as (f & Ef). rewrite Ef. change (9 + f)%nat with (7 + (2 + f))%nat.
    apply (Hcall c1 x p hdr t rw' _ Hok H1). rewrite <- Ex. exact Hl.
  - apply (Hext_step c rw x rw' He Hne Ex Hok).
Qed.

(* the first call: the parser as the delivery of the request left it *)
Record sr_ready (c : connp) : Prop := mk_sr_ready {
  ry_status : sg_live (c_out_status c);
  ry_state : c_out_state c = RES_IDLE;
  ry_prev : c_out_state_previous c = None;
  ry_buf : k_buf (c_out c) = None;
  ry_hdr : k_header (c_out c) = None;
  ry_rh : k_receiver_hook (c_out c) = None;
  ry_tx : c_out_tx c = None;
  ry_next : c_out_next_tx_index c = 0%nat;
  ry_txs : c_txs c = [Some t0];
  ry_shift : c_txs_shifted c = 0%nat;
  ry_intx : c_in_tx c = None;
  ry_other : c_out_data_other_at_tx_end c = false }.

Lemma sr_first c0 (x rw' : bytes) : sr_ready c0 -> x <> [] -> x ++ rw' = line0 ++ [CR; LF] ++ bwt -> okc x rw' ->
  exists c' rc, connp_res_data cb g (Some x) (length x) c0 = (c', rc) /\ sr_post c' rw'.
Proof.
  intros [A1 A2 A3 A4 A5 A6 A7 A8 A9 A10 A11 A12] Hne Ex Hok.
  assert (Hlen0 : (length x =? 0)%nat = false) by (destruct x; [contradiction|reflexivity]).
  unfold connp_res_data. rewrite (sg_live_stop _ A1), (sg_live_error _ A1), A7, A2. cbn [res_state_eqb negb]. rewrite Hlen0. cbn [andb].
  match goal with |- context [rs_res_loop cb g _ _ ?y] => set (c1 := y) end.
  match goal with |- context [(c_out_status ?y =? c_HTP_STREAM_TUNNEL)%Z] => change (c_out_status y) with (c_out_status c0) end.
  rewrite (sg_live_tunnel _ A1).
  assert (Idle1 : sr_idle c1 x t0) by (unfold c1; constructor; try assumption; reflexivity).
  clearbody c1.
  destruct (sr_pass_idle cb g Hcb c1 x t0 Idle1 Hne H09) as (c2 & E2 & H2).
  destruct (sr_fuel_9 x) as (f & Ef). rewrite Ef. change (9 + f)%nat with (S (8 + f)).
  rewrite (sr_loop_inr cb g _ _ _ E2).
  apply (sr_call_line c2 x [] (line0 ++ [CR; LF]) rw' _ Hok H2 eq_refl).
  - intro E. apply app_eq_nil in E. destruct E as [_ E]. discriminate.
  - rewrite Ex, <- !app_assoc. reflexivity.
  - exact Hne.
Qed.

(* ---- finish_call between two calls ---- *)
Lemma sr_mid_finish c p hdr st rh t : sr_mid c p hdr st rh t -> sr_mid (forget_chunks c <| c_events := [] |>) p hdr st rh t.
Proof.
  intros [A1 A2 A3 A4 A5 A6 A7 A8 A9 A10 A11].
  assert (F : k_buf (forget_one (c_out c)) = k_buf (c_out c) /\ k_header (forget_one (c_out c)) = k_header (c_out c) /\
              k_receiver_hook (forget_one (c_out c)) = k_receiver_hook (c_out c)) by (unfold forget_one; destruct (k_data (c_out c)); repeat split).
  destruct F as (F1 & F2 & F3).
  constructor; try assumption; cbn [forget_chunks c_out set]; cbn; rewrite ?F1, ?F2, ?F3; assumption.
Qed.
Lemma sr_between_finish c rw : sr_between c rw -> sr_between (forget_chunks c <| c_events := [] |>) rw.
Proof.
  intros [(p & q & Hm & R)|[(p & hdr & t & Hm & R)|He]].
  - left. exists p, q. split; [apply sr_mid_finish; exact Hm|exact R].
  - right. left. exists p, hdr, t. split; [apply sr_mid_finish; exact Hm|exact R].
  - right. right. apply Hext_finish. exact He.
Qed.

Lemma sr_cp_run_cons c (x : bytes) ops :
  fst (cp_run cb g c (OpResData x :: ops)) = fst (cp_run cb g (forget_chunks (fst (connp_res_data cb g (Some x) (length x) c)) <| c_events := [] |>) ops).
Proof.
  cbn [cp_run cp_step]. destruct (connp_res_data cb g (Some x) (length x) c) as [c1 rc]. cbn [fst]. unfold finish_call.
  destruct (cp_run cb g (forget_chunks c1 <| c_events := [] |>) ops) as [c2 xs]. reflexivity.
Qed.

(* ---- every later chunk ---- *)
Lemma sr_chunks : forall (chunks : list bytes) c rw, sr_between c rw -> rw <> [] -> Forall (fun x => x <> []) chunks -> concat chunks = rw ->
  sr_oks okc chunks -> fin (c_txs (fst (cp_run cb g c (map OpResData chunks)))).
Proof.
  induction chunks as [|x rest IH]; intros c rw Hb Hne Hall Hc Hoks.
  - cbn [concat] in Hc. congruence.
  - cbn [concat] in Hc. cbn [map]. rewrite sr_cp_run_cons. destruct Hoks as [Hok Hoks].
    destruct (sr_step c rw x (concat rest) Hb (Forall_inv Hall) (eq_sym Hc) Hok) as (c' & rc & E & [[Hn Hb']|[Hn T]]); unfold bytes in *; rewrite E; cbn [fst].
    + apply (IH _ (concat rest) (sr_between_finish _ _ Hb') Hn (Forall_inv_tail Hall) eq_refl Hoks).
    + rewrite (sg_concat_nil rest (Forall_inv_tail Hall) Hn). cbn [map cp_run fst]. exact T.
Qed.

(* ---- every chunking of the response, from the state the request left ---- *)
Lemma sr_ready_finish c : sr_ready c -> sr_ready (forget_chunks c <| c_events := [] |>).
Proof.
  intros [A1 A2 A3 A4 A5 A6 A7 A8 A9 A10 A11 A12].
  assert (F : k_buf (forget_one (c_out c)) = k_buf (c_out c) /\ k_header (forget_one (c_out c)) = k_header (c_out c) /\
              k_receiver_hook (forget_one (c_out c)) = k_receiver_hook (c_out c)) by (unfold forget_one; destruct (k_data (c_out c)); repeat split).
  destruct F as (F1 & F2 & F3).
  constructor; try assumption; cbn [forget_chunks c_out set]; cbn; rewrite ?F1, ?F2, ?F3; assumption.
Qed.
Lemma sr_all_chunks c0 (chunks : list bytes) : sr_ready c0 -> Forall (fun x => x <> []) chunks -> concat chunks = line0 ++ [CR; LF] ++ bwt ->
  sr_oks okc chunks -> fin (c_txs (fst (cp_run cb g c0 (map OpResData chunks)))).
Proof.
  intros Hr Hall Hc Hoks. destruct chunks as [|x rest].
  - cbn [concat] in Hc. symmetry in Hc. apply app_eq_nil in Hc. destruct Hc as [_ Hc]. discriminate.
  - cbn [concat] in Hc. cbn [map]. rewrite sr_cp_run_cons. destruct Hoks as [Hok Hoks].
    destruct (sr_first c0 x (concat rest) Hr (Forall_inv Hall) Hc Hok) as (c' & rc & E & [[Hn Hb']|[Hn T]]); unfold bytes in *; rewrite E; cbn [fst].
    + apply (sr_chunks rest _ (concat rest) (sr_between_finish _ _ Hb') Hn (Forall_inv_tail Hall) eq_refl Hoks).
    + rewrite (sg_concat_nil rest (Forall_inv_tail Hall) Hn). cbn [map cp_run fst]. exact T.
Qed.
End Gen.
