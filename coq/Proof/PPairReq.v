(* C04, request phase: what n pipelined grammar requests (any chunking) leave behind, as far as the response direction is
   concerned.  (1) htp_connp_req_data never touches the response side of the parser (PSegResReq.sr_fr) -- shown here for the
   request states PSegResReq.v left out; the only exception is REQ_CONNECT_PROBE_DATA going into tunnel mode, which also sets
   in_status = TUNNEL.  (2) PSegPipe.v's Section PipeRun with a stronger description of the transactions already parsed:
   each slot IS a transaction of the family sg_tfin (not only "reports its request"), which the response direction needs
   (empty response-header table, zero counters). *)
Require Import Htp.Model.Base Htp.Model.MBstr Htp.Model.MConnTypes Htp.Model.MTxCommon Htp.Model.MReqLine Htp.Model.MReqUri Htp.Model.MTxReq.
Require Import Htp.Model.MReq Htp.Model.MRes Htp.Model.MConnp.
Require Import Htp.Spec.SWire Htp.Proof.PWire Htp.Proof.PWireHdr Htp.Proof.PWireBlock Htp.Proof.PWireConn Htp.Proof.PWireExch.
Require Import Htp.Proof.PWireRun Htp.Proof.PWirePres Htp.Proof.PWireGlue Htp.Proof.PSeg Htp.Proof.PSegLine Htp.Proof.PSegHdr Htp.Proof.PSegGen Htp.Proof.PSegRun.
Require Import Htp.Proof.PSegFold Htp.Proof.PSegPipe Htp.Proof.PSegResReq.

(* ================= (1) the request side does not touch the response side ================= *)
Lemma fr_next_byte c c1 : rq_next_byte c = Some c1 -> sr_fr c1 = sr_fr c.
Proof.
  unfold rq_next_byte. destruct (rq_at_end c); [discriminate|]. pose proof (fr_read_byte c) as X. destruct (rq_read_byte c) as [c2 b]. intros E. inversion E. exact X.
Qed.

Section Frame2.
Variable cb : cb_oracle.
Variable g : cfg.
Hypothesis Hcb : wr_all_ok cb.

Lemma fr_consume_body n c : sr_fr (snd (rq_consume_body cb n c)) = sr_fr c.
Proof.
  unfold rq_consume_body. cbv zeta.
  assert (X0 : sr_fr (fst (match k_data (c_in c) with
                           | Some _ => let '(c0, d) := rq_slice c (k_read (c_in c)) (k_read (c_in c) + n) in (c0, Some d)
                           | None => (if (k_read (c_in c) =? 0)%nat then c else rq_fault c, None)
                           end)) = sr_fr c).
  { destruct (k_data (c_in c)).
    - pose proof (fr_slice c (k_read (c_in c)) (k_read (c_in c) + n)) as X. destruct (rq_slice c _ _) as [c0 d]. exact X.
    - cbn [fst]. destruct (_ =? _)%nat; reflexivity. }
  destruct (match k_data (c_in c) with Some _ => _ | None => _ end) as [c1 data]. cbn [fst] in X0.
  pose proof (fr_with_tx (fun i => tx_req_process_body_data_ex cb i data n) c1 (fun i x => fr_req_body_data cb Hcb i data n x)) as Z.
  destruct (rq_with_tx _ c1) as [r2 c2]. cbn [snd] in Z.
  destruct r2; cbn [snd]; rewrite ?fr_rq_tx_upd, ?fr_set_in, Z; exact X0.
Qed.
Lemma fr_BODY_IDENTITY c : sr_fr (snd (REQ_BODY_IDENTITY_fn cb c)) = sr_fr c.
Proof.
  unfold REQ_BODY_IDENTITY_fn. cbv zeta. destruct (_ =? 0)%nat; [reflexivity|].
  pose proof (fr_consume_body (rq_bytes_to_consume c (c_in_body_data_left c)) c) as X. destruct (rq_consume_body cb _ c) as [rc c1]. cbn [snd] in X.
  destruct rc; cbn [snd]; try exact X. destruct (_ =? 0)%Z; cbn [snd]; exact X.
Qed.
Lemma fr_CHUNKED_DATA c : sr_fr (snd (REQ_BODY_CHUNKED_DATA_fn cb c)) = sr_fr c.
Proof.
  unfold REQ_BODY_CHUNKED_DATA_fn. cbv zeta. destruct (_ =? 0)%nat; [reflexivity|].
  pose proof (fr_consume_body (rq_bytes_to_consume c (c_in_chunked_length c)) c) as X. destruct (rq_consume_body cb _ c) as [rc c1]. cbn [snd] in X.
  destruct rc; cbn [snd]; try exact X. destruct (_ =? 0)%Z; cbn [snd]; exact X.
Qed.
Lemma fr_CHUNKED_DATA_END_loop : forall n c, sr_fr (snd (REQ_BODY_CHUNKED_DATA_END_loop n c)) = sr_fr c.
Proof.
  induction n as [|n IH]; intros c; cbn [REQ_BODY_CHUNKED_DATA_END_loop].
  all: destruct (rq_next_byte c) as [c1|] eqn:E; [|reflexivity]; pose proof (fr_next_byte c c1 E) as Y; cbv zeta.
  all: set (c2 := rq_tx_upd _ c1); assert (X2 : sr_fr c2 = sr_fr c) by (unfold c2; rewrite fr_rq_tx_upd; exact Y); clearbody c2.
  all: destruct (rq_next_is c2 LF); [cbn [snd]; exact X2|].
  - cbn [snd]. rewrite fr_fault. exact X2.
  - rewrite IH. exact X2.
Qed.
Lemma fr_CHUNKED_LENGTH_loop : forall n c, sr_fr (snd (REQ_BODY_CHUNKED_LENGTH_loop g n c)) = sr_fr c.
Proof.
  assert (Hline : forall c1, sr_fr (snd (match req_consolidate_data g c1 with
          | (ST_OK, c, data) =>
            let c := rq_tx_upd (fun t => t <| t_request_message_len ::= Z.add (Z.of_nat (length data)) |>) c in
            let '(v, _) := parse_chunked_length (htp_chomp data) in
            let c := req_clear_buffer (c <| c_in_chunked_length := v |>) in
            if (0 <? v)%Z then (ST_OK, c <| c_in_state := REQ_BODY_CHUNKED_DATA |>)
            else if (v =? 0)%Z then
              (ST_OK, rq_tx_upd (fun t => t <| t_request_progress := c_HTP_REQUEST_TRAILER |>) (c <| c_in_state := REQ_HEADERS |>))
            else (ST_ERROR, c)
          | (_, c, _) => (ST_ERROR, c)
          end)) = sr_fr c1).
  { intros c1. pose proof (fr_consolidate g c1) as X. destruct (req_consolidate_data g c1) as [[rc c2] data]. cbn [fst snd] in X.
    destruct rc; cbn [snd]; try exact X. cbv zeta. destruct (parse_chunked_length (htp_chomp data)) as [v u].
    set (c3 := rq_tx_upd _ c2). assert (X3 : sr_fr c3 = sr_fr c1) by (unfold c3; rewrite fr_rq_tx_upd; exact X). clearbody c3.
    destruct (0 <? v)%Z; [cbn [snd]; exact X3|]. destruct (v =? 0)%Z; cbn [snd]; [|exact X3].
    match goal with |- sr_fr (rq_tx_upd ?f ?x) = _ => rewrite (fr_rq_tx_upd f x) end. exact X3. }
  induction n as [|n IH]; intros c; cbn [REQ_BODY_CHUNKED_LENGTH_loop].
  all: destruct (rq_copy_byte c) as [c1|] eqn:E; [|reflexivity]; pose proof (fr_copy_byte c c1 E) as Y.
  all: destruct (rq_next_is c1 LF); [rewrite Hline; exact Y|].
  - cbn [snd]. rewrite fr_fault. exact Y.
  - rewrite IH. exact Y.
Qed.

(* every state but REQ_CONNECT_PROBE_DATA *)
Lemma fr_state_fn_all c : c_in_state c <> REQ_CONNECT_PROBE_DATA -> c_out_tx c = None -> sr_fr (snd (rq_state_fn cb g (c_in_state c) c)) = sr_fr c.
Proof.
  intros Hs E. destruct (c_in_state c) eqn:S; cbn [rq_state_fn].
  - apply (fr_REQ_IDLE cb g Hcb).
  - apply (fr_LINE_loop cb g Hcb).
  - apply fr_PROTOCOL.
  - apply (fr_HEADERS_loop cb g Hcb).
  - apply fr_CONNECT_CHECK.
  - unfold REQ_CONNECT_WAIT_RESPONSE_fn. cbv zeta. fr_brk; reflexivity.
  - contradiction.
  - apply fr_BODY_DETERMINE.
  - apply fr_BODY_IDENTITY.
  - apply fr_CHUNKED_LENGTH_loop.
  - apply fr_CHUNKED_DATA.
  - apply fr_CHUNKED_DATA_END_loop.
  - apply (fr_FINALIZE cb g Hcb). exact E.
  - unfold REQ_IGNORE_DATA_AFTER_HTTP_0_9_fn. cbv zeta. cbn [snd]. rewrite fr_set_in. destruct (0 <? _)%nat; reflexivity.
Qed.

(* the response side without out_status *)
Definition pq_frw (c : connp) :=
  (c_out_state c, c_out_state_previous c, c_out c, c_out_tx c, c_out_next_tx_index c, c_txs_shifted c, c_out_data_other_at_tx_end c).
Lemma pq_frw_of a b : sr_fr a = sr_fr b -> pq_frw a = pq_frw b /\ c_out_status a = c_out_status b.
Proof. unfold sr_fr, pq_frw. intros H. inversion H. split; congruence. Qed.
Definition pq_keep (c c' : connp) : Prop := pq_frw c' = pq_frw c /\ (c_out_status c' = c_out_status c \/ c_in_status c' = c_HTP_STREAM_TUNNEL).
Lemma pq_keep_of c c' : sr_fr c' = sr_fr c -> pq_keep c c'.
Proof. intros H. destruct (pq_frw_of _ _ H) as [A B]. split; [exact A|left; exact B]. Qed.

Lemma fr_PROBE c : c_out_tx c = None ->
  let r := REQ_CONNECT_PROBE_DATA_fn cb g c in
  sr_fr (snd r) = sr_fr c \/ (fst r = ST_OK /\ pq_frw (snd r) = pq_frw c /\ c_in_status (snd r) = c_HTP_STREAM_TUNNEL).
Proof.
  intros E. unfold REQ_CONNECT_PROBE_DATA_fn. cbv zeta.
  pose proof (fr_peek_copy_until (fun b => (b =? LF)%N || (b =? 0)%N) (k_len (c_in c) - k_read (c_in c)) c) as Y.
  destruct (rq_peek_copy_until _ _ c) as [[|] c1]; cbn [snd] in Y; [|left; exact Y].
  pose proof (fr_consolidate g c1) as X. destruct (req_consolidate_data g c1) as [[rc c2] data]. cbn [fst snd] in X.
  assert (X2 : sr_fr c2 = sr_fr c) by (rewrite X; exact Y).
  destruct rc; try (left; exact X2).
  destruct (rq_probe_method data) as [mstart pos]. destruct (negb _).
  - left. rewrite (fr_rq_request_complete cb g Hcb c2 (fr_otx c2 c X2 E)). exact X2.
  - right. cbn [fst snd]. split; [reflexivity|]. split; [|reflexivity]. destruct (pq_frw_of _ _ X2) as [A _]. exact A.
Qed.

(* one pass of the loop *)
Lemma pq_iter_keep c : c_out_tx c = None ->
  match rq_iter cb g false c with inl r => pq_keep c (fst r) | inr c' => sr_fr c' = sr_fr c end.
Proof.
  intros E. unfold rq_iter. cbv zeta.
  assert (Hs : forall rc c1, sr_fr c1 = sr_fr c ->
    match (match rc with
           | ST_OK => if (c_in_status c1 =? c_HTP_STREAM_TUNNEL)%Z then inl (c1, c_HTP_STREAM_TUNNEL)
                      else match req_handle_state_change cb c1 with (ST_OK, c2) => inr c2 | (rc2, c2) => inl (rq_exit cb g rc2 c2) end
           | _ => inl (rq_exit cb g rc c1)
           end) with inl r => pq_keep c (fst r) | inr c' => sr_fr c' = sr_fr c end).
  { intros rc c1 X. destruct rc; try (apply pq_keep_of; rewrite (fr_exit cb g Hcb); exact X).
    destruct (_ =? c_HTP_STREAM_TUNNEL)%Z; [apply pq_keep_of; exact X|].
    pose proof (fr_state_change cb Hcb c1) as Y. destruct (req_handle_state_change cb c1) as [r2 c2]. cbn [snd] in Y.
    destruct r2; try (apply pq_keep_of; rewrite (fr_exit cb g Hcb)); rewrite Y; exact X. }
  destruct (req_state_eqb (c_in_state c) REQ_CONNECT_PROBE_DATA) eqn:Sp.
  - assert (S : c_in_state c = REQ_CONNECT_PROBE_DATA) by (destruct (c_in_state c); try discriminate; reflexivity).
    rewrite S. cbn [rq_state_fn]. pose proof (fr_PROBE c E) as P. cbv zeta in P.
    destruct (REQ_CONNECT_PROBE_DATA_fn cb g c) as [rc c1]. cbn [fst snd] in P. destruct P as [P|(Prc & Pf & Pt)].
    + apply (Hs rc c1 P).
    + subst rc. rewrite Pt, Z.eqb_refl. cbn [fst]. split; [exact Pf|right; exact Pt].
  - assert (Hn : c_in_state c <> REQ_CONNECT_PROBE_DATA) by (intro S; rewrite S in Sp; discriminate).
    pose proof (fr_state_fn_all c Hn E) as X. destruct (rq_state_fn cb g (c_in_state c) c) as [rc c1]. cbn [snd] in X. apply (Hs rc c1 X).
Qed.
Lemma pq_loop_keep : forall fuel c, c_out_tx c = None -> pq_keep c (fst (rq_loop cb g fuel false c)).
Proof.
  induction fuel as [|f IH]; intros c E; cbn [rq_loop].
  - cbn [fst]. apply pq_keep_of. reflexivity.
  - pose proof (pq_iter_keep c E) as X. destruct (rq_iter cb g false c) as [r|c'].
    + exact X.
    + destruct (IH c' (fr_otx c' c X E)) as [A B]. destruct (pq_frw_of _ _ X) as [A' B']. split; [rewrite A; exact A'|rewrite <- B'; exact B].
Qed.
(* one call: the response side is the one before the call, unless the request side went into tunnel mode *)
Lemma pq_req_data_keep (x : bytes) c : c_out_tx c = None -> c_out_status c = c_HTP_STREAM_OPEN ->
  pq_keep c (fst (connp_req_data cb g (Some x) (length x) c)).
Proof.
  intros E So. unfold connp_req_data.
  destruct (_ =? c_HTP_STREAM_STOP)%Z; [apply pq_keep_of; reflexivity|].
  destruct (_ =? c_HTP_STREAM_ERROR)%Z; [apply pq_keep_of; reflexivity|].
  destruct (match c_in_tx c with Some _ => false | None => _ end); [apply pq_keep_of; reflexivity|].
  destruct (_ && _); [apply pq_keep_of; reflexivity|]. cbv zeta.
  match goal with |- context [rq_loop cb g _ _ ?y] => set (c1 := y) end.
  assert (X1 : sr_fr c1 = sr_fr c).
  { unfold c1. match goal with |- context [(c_out_status ?z =? c_HTP_STREAM_DATA_OTHER)%Z] => change (c_out_status z) with (c_out_status c) end. rewrite So. reflexivity. }
  destruct (_ =? c_HTP_STREAM_TUNNEL)%Z; [apply pq_keep_of; reflexivity|].
  destruct (pq_loop_keep (rq_fuel (length x)) c1 (fr_otx c1 c X1 E)) as [A B]. destruct (pq_frw_of _ _ X1) as [A' B'].
  split; [rewrite A; exact A'|rewrite <- B'; exact B].
Qed.
End Frame2.

(* ================= (2) n pipelined requests: the transactions they leave ================= *)
Definition pq_rep (g : cfg) (done : list (option tx)) (rsd : list wr_request) : Prop :=
  Forall2 (fun slot r => exists k fl, slot = Some (sg_tfin_r g k r fl)) done rsd.

Section PipeRun.
Variable cb : cb_oracle.
Variable g : cfg.
Hypothesis Hcb : wr_all_ok cb.
Hypothesis Hspace : g_allow_space_uri g = false.
Variable all : list wr_request.
Hypothesis Hok : Forall (fun r => sg_req_ok g r = true) all.
Hypothesis Hmax : (g_max_tx g = 0 \/ length all < g_max_tx g)%nat.


(* the states between two calls: rsd = the requests that are complete, rs = the others (the first one may be in progress) *)
Inductive pq_pbetween (rsd rs : list wr_request) (c : connp) (rw : bytes) : Prop :=
| QB_idle done : sg_imid c done (sg_pflags (length done)) -> pq_rep g done rsd -> rw = sg_pwires rs -> pq_pbetween rsd rs c rw
| QB_line done r rs' p q : rs = r :: rs' -> pq_rep g done rsd ->
    sg_midw (sg_pw done) c p None REQ_LINE None (sg_t1 (length done)) -> p ++ q = sg_line0 r ++ [CR; LF] -> q <> [] -> rw = q ++ sg_bwt r rs' ->
    pq_pbetween rsd rs c rw
| QB_hdrs done r rs' p hdr t : rs = r :: rs' -> pq_rep g done rsd ->
    sg_midw (sg_pw done) c p hdr REQ_HEADERS (Some H_REQUEST_HEADER_DATA) t -> sg_fhlog g (sg_tend g (length done) r) (sg_pwires rs') hdr t p rw ->
    pq_pbetween rsd rs c rw
| QB_fin done r r' rs'' p q fl : rs = r :: r' :: rs'' -> pq_rep g done rsd ->
    sg_midw (sg_pw done) c p None REQ_FINALIZE None (sg_tpre_r g (length done) r fl) -> p ++ q = sg_line0 r' ++ [CR; LF] -> q <> [] -> rw = q ++ sg_bwt r' rs'' ->
    pq_pbetween rsd rs c rw.

Definition pq_pgoal (c : connp) (fuel : nat) (rw' : bytes) : Prop :=
  exists cF rc, rq_loop cb g fuel false c = (cF, rc) /\ exists rsd' rs', all = rsd' ++ rs' /\ pq_pbetween rsd' rs' cF rw'.

Lemma pq_all_in rsd r rs' : all = rsd ++ r :: rs' -> sg_req_ok g r = true.
Proof. intros E. rewrite Forall_forall in Hok. apply Hok. rewrite E. apply in_or_app. right. left. reflexivity. Qed.
Lemma pq_all_in2 rsd r r' rs'' : all = rsd ++ r :: r' :: rs'' -> sg_req_ok g r' = true.
Proof. intros E. rewrite Forall_forall in Hok. apply Hok. rewrite E. apply in_or_app. right. right. left. reflexivity. Qed.
Lemma pq_max_ok rsd r rs' done : all = rsd ++ r :: rs' -> pq_rep g done rsd -> (g_max_tx g = 0 \/ length done <= g_max_tx g)%nat.
Proof.
  intros E R. pose proof (sg_Forall2_length _ _ _ R) as L. destruct Hmax as [H|H]; [left; exact H|right]. rewrite E, app_length in H. cbn [length] in H. lia.
Qed.
Lemma pq_rep_snoc done rsd r k fl : pq_rep g done rsd -> wr_request_ok r = true -> pq_rep g (done ++ [Some (sg_tfin_r g k r fl)]) (rsd ++ [r]).
Proof.
  intros R Wr. apply Forall2_app; [exact R|]. constructor; [|constructor]. eexists _, _. reflexivity.
Qed.

(* what REQ_IDLE with data has to establish when the request r comes next and rs'' follow *)
Definition pq_Pidle (r : wr_request) (rs'' : list wr_request) : Prop :=
  forall rsd done c d rd p q (rw' : bytes) fuel prev,
    all = rsd ++ r :: rs'' -> pq_rep g done rsd -> sg_idl c d rd p done (sg_pflags (length done)) prev -> (rd < length d)%nat ->
    p ++ q = sg_line0 r ++ [CR; LF] -> q <> [] -> skipn rd d ++ rw' = q ++ sg_bwt r rs'' ->
    (16 * (length d - rd) + 8 <= fuel)%nat -> pq_pgoal c fuel rw'.
Definition pq_Pnext (rs' : list wr_request) : Prop := match rs' with [] => True | r' :: rs'' => pq_Pidle r' rs'' end.

(* ---- the idle state after a call ---- *)
Lemma pq_imid_of_idl c d p done fl prev : sg_idl c d (length d) p done fl prev -> p = [] ->
  sg_imid (c <| c_in_status := c_HTP_STREAM_DATA |>) done fl.
Proof.
  intros [A1 A2 A3 A4 A5 A6 A7 A8 A9 A10 A11 A12 A13 A14 A15 A16 A17] Ep. rewrite Ep in A9. apply app_eq_nil in A9. destruct A9 as [B _].
  constructor; try assumption; try (right; reflexivity).
Qed.

(* ---- REQ_FINALIZE of the last request: the wire ends here ---- *)
Lemma pq_run_fin_last rsd r done c d fl (rw' : bytes) fuel :
  all = rsd ++ [r] -> pq_rep g done rsd ->
  sg_cinw (sg_pw done) c d (length d) [] None REQ_FINALIZE (Some REQ_FINALIZE) None (sg_tpre_r g (length done) r fl) -> rw' = [] ->
  (2 <= fuel)%nat -> pq_pgoal c fuel rw'.
Proof.
  intros Eall R H Erw Hf. destruct (sg_req_ok_parts g r (pq_all_in rsd r [] Eall)) as (Wr & _ & Wl & Wb & Wnf & Wc & _).
  destruct (sg_tpre_facts g Hspace (length done) _ _ _ _ Wl Wb Wnf fl Wc) as (_ & TC & Pg & Rp & Z9).
  destruct (sg_pass_finalize cb g Hcb c d _ _ H TC Pg Rp Z9) as (c6 & E6 & H6).
  destruct fuel as [|[|f]]; [lia|lia|].
  eexists _, _. split; [rewrite (sg_rq_loop_inr cb g _ _ _ E6), (sg_rq_loop_inl cb g _ _ _ (sg_pass_idle_end cb g c6 d _ _ _ _ H6)); reflexivity|]. exists (rsd ++ [r]), []. split; [rewrite app_nil_r; exact Eall|].
  apply (QB_idle _ _ _ _ (done ++ [Some (sg_tfin_r g (length done) r fl)])).
  - cbn [w_done w_flags sg_pw] in H6. rewrite app_length. cbn [length]. rewrite Nat.add_1_r. apply (pq_imid_of_idl _ d [] _ _ _ H6 eq_refl).
  - apply pq_rep_snoc; assumption.
  - rewrite Erw. reflexivity.
Qed.

(* ---- REQ_FINALIZE when another request follows ---- *)
Lemma pq_run_fin_next rsd r r' rs'' done c d rd1 p q fl (rw' : bytes) fuel :
  pq_Pidle r' rs'' ->
  all = rsd ++ r :: r' :: rs'' -> pq_rep g done rsd ->
  sg_cinw (sg_pw done) c d rd1 p None REQ_FINALIZE (Some REQ_FINALIZE) None (sg_tpre_r g (length done) r fl) -> k_consume (c_in c) = rd1 ->
  p ++ q = sg_line0 r' ++ [CR; LF] -> q <> [] -> skipn rd1 d ++ rw' = q ++ sg_bwt r' rs'' -> (skipn rd1 d = [] -> p = []) ->
  (16 * (length d - rd1) + 9 <= fuel)%nat -> pq_pgoal c fuel rw'.
Proof.
  intros IH Eall R H Hc Hpq Hq Hw Hp0 Hf.
  destruct (sg_req_ok_parts g r (pq_all_in rsd r _ Eall)) as (Wr & _ & Wl & Wb & Wnf & Wc & _).
  destruct (sg_req_ok_parts g r' (pq_all_in2 rsd r r' rs'' Eall)) as (Wr' & Hk' & Wl' & _ & _ & _ & Hl0' & _).
  destruct (sg_tpre_facts g Hspace (length done) _ _ _ _ Wl Wb Wnf fl Wc) as (_ & TC & Pg & Rp & Z9).
  pose proof (ci_rd _ _ _ _ _ _ _ _ _ H) as Hrd.
  assert (Eall' : all = (rsd ++ [r]) ++ r' :: rs'') by (rewrite <- app_assoc; exact Eall).
  assert (R' : forall fl0, pq_rep g (done ++ [Some (sg_tfin_r g (length done) r fl0)]) (rsd ++ [r])) by (intros fl0; apply pq_rep_snoc; assumption).
  assert (Lf : length (done ++ [Some (sg_tfin_r g (length done) r fl)]) = S (length done)) by (rewrite app_length; cbn [length]; lia).
  destruct (wr_reqline_bytes _ _ _ Wl') as (Hnolf & _). fold (sg_line0 r') in Hnolf.
  assert (Eb : sg_line0 r' ++ [CR; LF] = (sg_line0 r' ++ [CR]) ++ [LF]) by (rewrite <- app_assoc; reflexivity).
  destruct (Nat.eq_dec rd1 (length d)) as [Erd|Nrd].
  - (* the chunk ends with the request *)
    assert (Eu : skipn rd1 d = []) by (apply skipn_all2; lia). rewrite Eu in Hw. rewrite Erd in H. rewrite (Hp0 Eu) in *. cbn [app] in Hw, Hpq.
    destruct (sg_pass_finalize cb g Hcb c d _ _ H TC Pg Rp Z9) as (c6 & E6 & H6).
    destruct fuel as [|[|f]]; [lia|lia|].
    eexists _, _. split; [rewrite (sg_rq_loop_inr cb g _ _ _ E6), (sg_rq_loop_inl cb g _ _ _ (sg_pass_idle_end cb g c6 d _ _ _ _ H6)); reflexivity|]. exists (rsd ++ [r]), (r' :: rs''). split; [exact Eall'|].
    apply (QB_idle _ _ _ _ (done ++ [Some (sg_tfin_r g (length done) r fl)])).
    + cbn [w_done w_flags sg_pw] in H6. rewrite Lf. apply (pq_imid_of_idl _ d [] _ _ _ H6 eq_refl).
    + apply R'.
    + rewrite Hw, sg_pwires_cons, Hpq, <- app_assoc. reflexivity.
  - assert (Hlt : (rd1 < length d)%nat) by lia.
    destruct (sg_app_cases (skipn rd1 d) rw' q _ Hw) as [Clt Cge].
    destruct (Nat.lt_ge_cases (length (skipn rd1 d)) (length q)) as [Llt|Lge].
    + (* no LF in the rest of the chunk *)
      destruct (Clt Llt) as (q2 & Eq & Hq2 & Erw).
      assert (Nu : sg_no_lf (skipn rd1 d) = true).
      { rewrite Eq, Eb, app_assoc in Hpq. destruct (sg_app_last _ _ _ _ Hpq Hq2) as (q3 & _ & E3). unfold sg_no_lf. rewrite <- E3, <- app_assoc, !forallb_app in Hnolf.
        apply andb_prop in Hnolf. destruct Hnolf as [_ Nb]. apply andb_prop in Nb. apply Nb. }
      assert (Lim : (length (p ++ skipn rd1 d) <= g_field_limit_hard g)%nat).
      { assert (L : length (p ++ q) = (length (sg_line0 r') + 2)%nat) by (rewrite Hpq, app_length; reflexivity). rewrite app_length in L. rewrite app_length. lia. }
      destruct (sg_fin_buffer cb g Hcb c d rd1 p _ H Hc Hlt Nu Lim) as (cF & EF & HF).
      destruct fuel as [|f]; [lia|].
      eexists _, _. split; [rewrite (sg_rq_loop_inl cb g _ _ _ EF); reflexivity|]. exists rsd, (r :: r' :: rs''). split; [exact Eall|].
      apply (QB_fin _ _ _ _ done r r' rs'' (p ++ skipn rd1 d) q2 fl eq_refl R HF); [rewrite <- app_assoc, <- Eq; exact Hpq|exact Hq2|exact Erw].
    + (* the LF of the next request line is in the chunk *)
      destruct (Cge Lge) as (d2 & Ed & Eaft).
      rewrite Eb in Hpq. destruct (sg_app_last _ _ _ _ Hpq Hq) as (q1 & Eq1 & Ep1).
      assert (Nq1 : sg_no_lf q1 = true) by (unfold sg_no_lf in *; rewrite <- Ep1, forallb_app in Hnolf; apply andb_prop in Hnolf; apply Hnolf).
      assert (Ed' : skipn rd1 d = q1 ++ LF :: d2) by (rewrite Ed, Eq1, <- app_assoc; reflexivity).
      destruct (sg_line0_shape r') as (rest' & Esh). rewrite <- Ep1 in Esh.
      assert (Wm' : wr_token (wq_method r') = true).
      { unfold wr_wf_request_line in Wl'. apply andb_prop in Wl'. destruct Wl' as [Wl' _]. apply andb_prop in Wl'. apply Wl'. }
      assert (Lim : (length (p ++ q1) <= g_field_limit_hard g)%nat) by (rewrite Ep1, app_length; cbn [length]; lia).
      destruct (sg_fin_probe cb g Hcb c d rd1 p _ q1 d2 _ rest' H Hc Ed' Nq1 Esh Wm' Hk' Lim TC Pg Rp Z9) as (c6 & E6 & H6).
      destruct fuel as [|f]; [lia|].
      cbn [w_done w_flags sg_pw] in H6. rewrite <- Lf in H6.
      assert (Hgoal : pq_pgoal c6 f rw' -> pq_pgoal c (S f) rw').
      { intros (cF & rc & E & X). exists cF, rc. split; [rewrite (sg_rq_loop_inr cb g _ _ _ E6); exact E|exact X]. }
      apply Hgoal.
      assert (Lq : (rd1 + length q1 < length d)%nat).
      { assert (L : length (skipn rd1 d) = length (q1 ++ LF :: d2)) by (rewrite Ed'; reflexivity). rewrite skipn_length, app_length in L. cbn [length] in L. lia. }
      apply (IH (rsd ++ [r]) _ c6 d (rd1 + length q1)%nat (p ++ q1) [LF] rw' f (Some REQ_IDLE) Eall' (R' fl) H6 Lq).
      * rewrite Ep1. symmetry. exact Eb.
      * discriminate.
      * rewrite <- sg_skipn_add, Ed', skipn_app, Nat.sub_diag, skipn_all. cbn [app skipn]. rewrite <- Eaft. reflexivity.
      * lia.
Qed.

Lemma pq_pgoal_steps n c c' fuel (rw' : bytes) : (forall f, rq_loop cb g (n + f) false c = rq_loop cb g f false c') -> (n <= fuel)%nat ->
  pq_pgoal c' (fuel - n) rw' -> pq_pgoal c fuel rw'.
Proof.
  intros St L (cF & rc & E & X). exists cF, rc. split; [|exact X]. replace fuel with (n + (fuel - n))%nat by lia. rewrite St. exact E.
Qed.
Lemma pq_pgoal_exit c cF fuel (rw' : bytes) rsd' rs' : rq_iter cb g false c = inl (cF, c_HTP_STREAM_DATA) -> (1 <= fuel)%nat ->
  all = rsd' ++ rs' -> pq_pbetween rsd' rs' cF rw' -> pq_pgoal c fuel rw'.
Proof.
  intros E L Ea B. destruct fuel as [|f]; [lia|]. exists cF, c_HTP_STREAM_DATA. split; [apply (sg_rq_loop_inl cb g _ _ _ E)|]. exists rsd', rs'. split; assumption.
Qed.

(* ---- a call that is in REQ_HEADERS of request r ---- *)
Lemma pq_run_hdrs rsd r rs' done c d rd p hdr t (rw' : bytes) fuel :
  pq_Pnext rs' -> all = rsd ++ r :: rs' -> pq_rep g done rsd ->
  sg_cinw (sg_pw done) c d rd p hdr REQ_HEADERS (Some REQ_HEADERS) (Some H_REQUEST_HEADER_DATA) t ->
  sg_fhlog g (sg_tend g (length done) r) (sg_pwires rs') hdr t p (skipn rd d ++ rw') ->
  (16 * (length d - rd) + 1 <= fuel)%nat -> pq_pgoal c fuel rw'.
Proof.
  intros IH Eall R H Hlog Hf.
  destruct (sg_req_ok_parts g r (pq_all_in rsd r _ Eall)) as (Wr & _ & Wl & Wb & Wnf & Wc & _).
  destruct (sg_pipe_hdrs cb g Hcb Hspace c d rd p hdr t rw' _ _ _ _ _ Wl Wb Wnf Wc H Hlog) as [(cF & p' & hdr' & t' & E & HF & Hl' & Hne)|(c5 & rd1 & fl & St & H5 & Hw & Hlt)].
  - apply (pq_pgoal_exit c cF fuel rw' rsd (r :: rs') E ltac:(lia) Eall). apply (QB_hdrs _ _ _ _ done r rs' p' hdr' t' eq_refl R HF Hl').
  - pose proof (ci_rd _ _ _ _ _ _ _ _ _ H5) as L1. pose proof (sg_cin_cons_nil _ _ _ _ _ _ _ _ H5) as Hc5.
    apply (pq_pgoal_steps 3 c c5 fuel rw' St ltac:(lia)).
    destruct rs' as [|r' rs''].
    + cbn [sg_pwires map concat] in Hw. apply app_eq_nil in Hw. destruct Hw as [Hs Hrw].
      assert (Erd : rd1 = length d) by (pose proof (sg_skipn_nil _ _ Hs); lia). rewrite Erd in H5.
      apply (pq_run_fin_last rsd r done c5 d fl rw' _ Eall R H5 Hrw). lia.
    + rewrite sg_pwires_cons, app_assoc in Hw.
      apply (pq_run_fin_next rsd r r' rs'' done c5 d rd1 [] (sg_line0 r' ++ [CR; LF]) fl rw' _ IH Eall R H5 Hc5 eq_refl); [|exact Hw|reflexivity|lia].
      intro E. apply app_eq_nil in E. destruct E as [_ E]. discriminate.
Qed.

(* ---- a call that is in REQ_LINE of request r ---- *)
Lemma pq_run_line rsd r rs' done c d rd p q (rw' : bytes) fuel :
  pq_Pnext rs' -> all = rsd ++ r :: rs' -> pq_rep g done rsd ->
  sg_cinw (sg_pw done) c d rd p None REQ_LINE (Some REQ_LINE) None (sg_t1 (length done)) ->
  p ++ q = sg_line0 r ++ [CR; LF] -> q <> [] -> skipn rd d ++ rw' = q ++ sg_bwt r rs' ->
  (16 * (length d - rd) + 1 <= fuel)%nat -> pq_pgoal c fuel rw'.
Proof.
  intros IH Eall R H Hpq Hq Hw Hf.
  destruct (sg_req_ok_parts g r (pq_all_in rsd r _ Eall)) as (Wr & _ & Wl & Wb & Wnf & Wc & Hl0 & Hfit).
  destruct (sg_pipe_line cb g Hcb Hspace c d rd p q rw' (sg_bwt r rs') _ _ _ Wl Hl0 H Hpq Hq Hw) as [(cF & q2 & E & HF & Hq2 & Hpq2 & Erw)|(c3 & rd2 & St & H3 & Hw3 & Hlt)].
  - apply (pq_pgoal_exit c cF fuel rw' rsd (r :: rs') E ltac:(lia) Eall). apply (QB_line _ _ _ _ done r rs' _ q2 eq_refl R HF Hpq2 Hq2 Erw).
  - pose proof (ci_rd _ _ _ _ _ _ _ _ _ H3) as L3.
    apply (pq_pgoal_steps 2 c c3 fuel rw' St ltac:(lia)).
    apply (pq_run_hdrs rsd r rs' done c3 d rd2 [] None _ rw' _ IH Eall R H3); [|lia].
    rewrite Hw3. apply sg_flat_start; assumption.
Qed.

(* ---- REQ_IDLE with the beginning of request r ---- *)
Lemma pq_run_idle r rs' : pq_Pnext rs' -> pq_Pidle r rs'.
Proof.
  intros IH rsd done c d rd p q rw' fuel prev Eall R H Hlt Hpq Hq Hw Hf.
  destruct (sg_pass_idle cb g Hcb c d rd p done _ prev H Hlt (pq_max_ok rsd r rs' done Eall R)) as (c1 & E1 & H1).
  rewrite sg_next_pflags in H1. fold (sg_pw done) in H1.
  apply (pq_pgoal_steps 1 c c1 fuel rw' (sg_steps_inr cb g c c1 E1) ltac:(lia)).
  apply (pq_run_line rsd r rs' done c1 d rd p q rw' _ IH Eall R H1 Hpq Hq Hw). lia.
Qed.
Lemma pq_Pidle_all : forall rs' r, pq_Pidle r rs'.
Proof. induction rs' as [|r' rs'' IH]; intros r; apply pq_run_idle; [exact I|apply IH]. Qed.
Lemma pq_Pnext_all rs' : pq_Pnext rs'.
Proof. destruct rs' as [|r' rs'']; [exact I|apply pq_Pidle_all]. Qed.

(* ---- entering htp_connp_req_data between two requests ---- *)
Lemma pq_enter_idle c done fl (x : bytes) : sg_imid c done fl -> x <> [] ->
  exists c1, connp_req_data cb g (Some x) (length x) c = rq_loop cb g (rq_fuel (length x)) false c1 /\
             sg_idl c1 x 0 [] done fl (c_in_state_previous c).
Proof.
  intros [A1 A2 A3 A4 A5 A6 A7 A8 A9 A10] Hne. unfold connp_req_data.
  rewrite (sg_live_stop _ A1), (sg_live_error _ A1), A6, A2. cbn [req_state_eqb negb].
  assert (L0 : (length x =? 0)%nat = false) by (destruct x; [contradiction|reflexivity]). rewrite L0. cbn [andb].
  match goal with |- context [(c_in_status ?y =? c_HTP_STREAM_TUNNEL)%Z] => change (c_in_status y) with (c_in_status c) end.
  rewrite (sg_live_tunnel _ A1).
  eexists. split; [reflexivity|].
  match goal with |- sg_idl (if ?b then _ else _) _ _ _ _ _ _ => destruct b end.
  all: constructor; try assumption; try reflexivity; cbn; try lia.
  all: rewrite app_nil_r; exact A3.
Qed.

(* ---- one call of htp_connp_req_data ---- *)
Lemma pq_pstep rsd rs c (rw x rw' : bytes) : all = rsd ++ rs -> pq_pbetween rsd rs c rw -> x <> [] -> rw = x ++ rw' ->
  exists c' rc, connp_req_data cb g (Some x) (length x) c = (c', rc) /\ exists rsd' rs', all = rsd' ++ rs' /\ pq_pbetween rsd' rs' c' rw'.
Proof.
  intros Eall B Hne Ex. destruct (sg_fuel_8 x) as (f & Ef).
  assert (Lx : (0 < length x)%nat) by (destruct x; [contradiction|cbn; lia]).
  assert (Fu : (16 * (length x - 0) + 9 <= rq_fuel (length x))%nat) by (unfold rq_fuel; lia).
  destruct B as [done Hm R Erw|done r rs' p q Ers R Hm Hpq Hq Erw|done r rs' p hdr t Ers R Hm Hl|done r r' rs'' p q fl Ers R Hm Hpq Hq Erw].
  - destruct (pq_enter_idle c done _ x Hm Hne) as (c1 & E1 & H1). unfold bytes in *. rewrite E1.
    destruct rs as [|r rs'].
    + exfalso. cbn [sg_pwires map concat] in Erw. rewrite Erw in Ex. destruct x; [contradiction|discriminate].
    + rewrite sg_pwires_cons, app_assoc in Erw.
      apply (pq_Pidle_all rs' r rsd done c1 x 0 [] (sg_line0 r ++ [CR; LF]) rw' _ _ Eall R H1 Lx eq_refl).
      * intro E. apply app_eq_nil in E. destruct E as [_ E]. discriminate.
      * cbn [skipn]. rewrite <- Ex. exact Erw.
      * lia.
  - subst rs. destruct (sg_enter cb g c p None _ _ _ x Hm Hne) as (c1 & E1 & H1). unfold bytes in *. rewrite E1.
    apply (pq_run_line rsd r rs' done c1 x 0 p q rw' _ (pq_Pnext_all rs') Eall R H1 Hpq Hq); [cbn [skipn]; rewrite <- Ex; exact Erw|lia].
  - subst rs. destruct (sg_enter cb g c p hdr _ _ t x Hm Hne) as (c1 & E1 & H1). unfold bytes in *. rewrite E1.
    apply (pq_run_hdrs rsd r rs' done c1 x 0 p hdr t rw' _ (pq_Pnext_all rs') Eall R H1); [cbn [skipn]; rewrite <- Ex; exact Hl|lia].
  - subst rs. destruct (sg_enter cb g c p None _ _ _ x Hm Hne) as (c1 & E1 & H1). unfold bytes in *. rewrite E1.
    assert (Hc1 : k_consume (c_in c1) = 0%nat) by (pose proof (ci_cons _ _ _ _ _ _ _ _ _ H1); lia).
    apply (pq_run_fin_next rsd r r' rs'' done c1 x 0 p q fl rw' _ (pq_Pidle_all rs'' r') Eall R H1 Hc1 Hpq Hq); [cbn [skipn]; rewrite <- Ex; exact Erw| |lia].
    cbn [skipn]. intros E. contradiction.
Qed.

(* ---- finish_call between two calls ---- *)
Lemma pq_forget_fields c :
  k_buf (c_in (forget_chunks c <| c_events := [] |>)) = k_buf (c_in c) /\ k_header (c_in (forget_chunks c <| c_events := [] |>)) = k_header (c_in c) /\
  k_receiver_hook (c_in (forget_chunks c <| c_events := [] |>)) = k_receiver_hook (c_in c).
Proof. cbn [forget_chunks c_in set]. cbn. unfold forget_one. destruct (k_data (c_in c)); repeat split. Qed.
Lemma pq_midw_finish w c p hdr st rh t : sg_midw w c p hdr st rh t -> sg_midw w (forget_chunks c <| c_events := [] |>) p hdr st rh t.
Proof.
  intros [A1 A2 A3 A4 A5 A6 A7 A8 A9 A10 A11]. destruct (pq_forget_fields c) as (F1 & F2 & F3).
  constructor; rewrite ?F1, ?F2, ?F3; assumption.
Qed.
Lemma pq_imid_finish c done fl : sg_imid c done fl -> sg_imid (forget_chunks c <| c_events := [] |>) done fl.
Proof.
  intros [A1 A2 A3 A4 A5 A6 A7 A8 A9 A10]. destruct (pq_forget_fields c) as (F1 & F2 & F3).
  constructor; rewrite ?F1, ?F2, ?F3; assumption.
Qed.
Lemma pq_pbetween_finish rsd rs c rw : pq_pbetween rsd rs c rw -> pq_pbetween rsd rs (forget_chunks c <| c_events := [] |>) rw.
Proof.
  intros [done Hm R Erw|done r rs' p q Ers R Hm Hpq Hq Erw|done r rs' p hdr t Ers R Hm Hl|done r r' rs'' p q fl Ers R Hm Hpq Hq Erw].
  - apply (QB_idle _ _ _ _ done (pq_imid_finish _ _ _ Hm) R Erw).
  - apply (QB_line _ _ _ _ done r rs' p q Ers R (pq_midw_finish _ _ _ _ _ _ _ Hm) Hpq Hq Erw).
  - apply (QB_hdrs _ _ _ _ done r rs' p hdr t Ers R (pq_midw_finish _ _ _ _ _ _ _ Hm) Hl).
  - apply (QB_fin _ _ _ _ done r r' rs'' p q fl Ers R (pq_midw_finish _ _ _ _ _ _ _ Hm) Hpq Hq Erw).
Qed.

(* when no wire is left, every request is complete and the request side is idle *)
Lemma pq_pbetween_end rsd rs c : all = rsd ++ rs -> pq_pbetween rsd rs c [] ->
  sg_imid c (c_txs c) (sg_pflags (length all)) /\ pq_rep g (c_txs c) all.
Proof.
  intros Eall [done Hm R Erw|done r rs' p q Ers R Hm Hpq Hq Erw|done r rs' p hdr t Ers R Hm Hl|done r r' rs'' p q fl Ers R Hm Hpq Hq Erw].
  - destruct rs as [|r rs']; [|rewrite sg_pwires_cons in Erw; symmetry in Erw; apply app_eq_nil in Erw; destruct Erw as [_ E]; discriminate].
    rewrite app_nil_r in Eall. subst rsd. rewrite (im_txs _ _ _ Hm). rewrite <- (sg_Forall2_length _ _ _ R). split; [exact Hm|exact R].
  - exfalso. destruct q; [contradiction|discriminate].
  - exfalso. destruct Hl as (pend & tl & rem & q & _ & _ & _ & _ & _ & Hq & E & _). destruct q; [contradiction|discriminate].
  - exfalso. destruct q; [contradiction|discriminate].
Qed.
Lemma pq_pbetween_live rsd rs c rw : pq_pbetween rsd rs c rw -> sg_live (c_in_status c).
Proof.
  intros [done Hm R Erw|done r rs' p q Ers R Hm Hpq Hq Erw|done r rs' p hdr t Ers R Hm Hl|done r r' rs'' p q fl Ers R Hm Hpq Hq Erw].
  - exact (im_status _ _ _ Hm).
  - exact (mi_status _ _ _ _ _ _ Hm).
  - exact (mi_status _ _ _ _ _ _ Hm).
  - exact (mi_status _ _ _ _ _ _ Hm).
Qed.

(* the response side as htp_connp_open leaves it *)
Definition pq_base := (c_HTP_STREAM_OPEN, RES_IDLE, @None res_state, cursor_new, @None nat, 0%nat, 0%nat, false).

(* ---- every chunk ---- *)
Lemma pq_pchunks : forall (chunks : list bytes) c rsd rs rw, all = rsd ++ rs -> pq_pbetween rsd rs c rw -> sr_fr c = pq_base ->
  Forall (fun x => x <> []) chunks -> concat chunks = rw ->
  let cF := fst (cp_run cb g c (map OpReqData chunks)) in
  sg_imid cF (c_txs cF) (sg_pflags (length all)) /\ pq_rep g (c_txs cF) all /\ sr_fr cF = pq_base.
Proof.
  induction chunks as [|x rest IH]; intros c rsd rs rw Eall B Hfr Hall Hc; cbv zeta.
  - cbn [concat] in Hc. subst rw. cbn [map cp_run fst]. destruct (pq_pbetween_end rsd rs c Eall B) as [A1 A2]. split; [exact A1|]. split; [exact A2|exact Hfr].
  - cbn [concat] in Hc. cbn [map]. rewrite sg_cp_run_cons.
    destruct (pq_pstep rsd rs c rw x (concat rest) Eall B (Forall_inv Hall) (eq_sym Hc)) as (c' & rc & E & rsd' & rs' & Eall' & B').
    assert (Eo : c_out_tx c = None /\ c_out_status c = c_HTP_STREAM_OPEN) by (unfold sr_fr, pq_base in Hfr; inversion Hfr; split; reflexivity).
    destruct (pq_req_data_keep cb g Hcb x c (proj1 Eo) (proj2 Eo)) as [K1 K2].
    unfold bytes in *. rewrite E in K1, K2 |- *. cbn [fst] in K1, K2 |- *.
    assert (Hfr' : sr_fr c' = pq_base).
    { destruct K2 as [K2|K2]; [|exfalso; pose proof (sg_live_tunnel _ (pq_pbetween_live _ _ _ _ B')) as L; rewrite K2 in L; discriminate].
      unfold sr_fr, pq_base in *. unfold pq_frw in K1. congruence. }
    apply (IH _ rsd' rs' (concat rest) Eall' (pq_pbetween_finish _ _ _ _ B')); [|exact (Forall_inv_tail Hall)|reflexivity].
    assert (F4 : c_out c' = cursor_new) by (unfold sr_fr, pq_base in Hfr'; congruence).
    rewrite <- Hfr'. unfold sr_fr. cbn [forget_chunks c_out_status c_out_state c_out_state_previous c_out c_out_tx c_out_next_tx_index c_txs_shifted c_out_data_other_at_tx_end set].
    cbn. rewrite F4. reflexivity.
Qed.
End PipeRun.
(* ================= the parser after the request phase ================= *)
Theorem pq_after_requests : forall cb g (rs : list wr_request) (chunks : list bytes),
  wr_all_ok cb -> g_allow_space_uri g = false -> (g_max_tx g = 0 \/ length rs < g_max_tx g)%nat ->
  Forall (fun r => sg_req_ok g r = true) rs -> Forall (fun x => x <> []) chunks -> concat chunks = concat (map wr_request_wire rs) ->
  let cF := fst (cp_run cb g connp_new (OpOpen :: map OpReqData chunks)) in
  sg_imid cF (c_txs cF) (sg_pflags (length rs)) /\ pq_rep g (c_txs cF) rs /\ sr_fr cF = pq_base.
Proof.
  intros cb g rs chunks Hcb Hsp Hmax Hok Hall Hc.
  set (c0 := forget_chunks (connp_open connp_new) <| c_events := [] |>).
  assert (E0 : fst (cp_run cb g connp_new (OpOpen :: map OpReqData chunks)) = fst (cp_run cb g c0 (map OpReqData chunks))).
  { cbn [cp_run cp_step]. unfold finish_call. fold c0. destruct (cp_run cb g c0 (map OpReqData chunks)). reflexivity. }
  cbv zeta. rewrite E0.
  assert (Hm : sg_imid c0 [] (sg_pflags (length (@nil (option tx))))) by (constructor; try reflexivity; left; reflexivity).
  apply (pq_pchunks cb g Hcb Hsp rs Hok Hmax chunks c0 [] rs _ eq_refl (QB_idle g [] rs c0 _ [] Hm (Forall2_nil _) eq_refl) eq_refl Hall Hc).
Qed.
