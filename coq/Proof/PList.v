(* The ring buffer refines a double-ended sequence, for every operation sequence. *)
Require Import Htp.Model.Base Htp.Model.MList.

Section P.
Variable A : Type.
Variable dflt : A.
Notation ring := (ring A).

Definition at_ (r : ring) (i : nat) : A := nth ((rfirst A r + i) mod rmax A r) (relems A r) dflt.
Definition abs (r : ring) : list A := map (at_ r) (seq 0 (rsize A r)).

Definition WF (r : ring) : Prop :=
  0 < rmax A r /\ rfirst A r < rmax A r /\ rlast A r = (rfirst A r + rsize A r) mod rmax A r /\
  rsize A r <= rmax A r /\ length (relems A r) = rmax A r.

Lemma mod_wrap a m : 0 < m -> a < 2 * m -> a mod m = if a <? m then a else a - m.
Proof.
  intros Hm Ha. destruct (a <? m) eqn:E.
  - apply Nat.ltb_lt in E. apply Nat.mod_small; lia.
  - apply Nat.ltb_ge in E. replace a with ((a - m) + 1 * m) at 1 by lia.
    rewrite Nat.mod_add by lia. apply Nat.mod_small; lia.
Qed.

Ltac b2p := repeat match goal with
  | H : (_ <? _) = true |- _ => apply Nat.ltb_lt in H
  | H : (_ <? _) = false |- _ => apply Nat.ltb_ge in H
  | H : (_ <=? _) = true |- _ => apply Nat.leb_le in H
  | H : (_ <=? _) = false |- _ => apply Nat.leb_gt in H
  | H : (_ =? _) = true |- _ => apply Nat.eqb_eq in H
  | H : (_ =? _) = false |- _ => apply Nat.eqb_neq in H
  end.

Lemma nth_upd_same {B} (l : list B) i x d : i < length l -> nth i (upd l i x) d = x.
Proof. revert i; induction l as [|h t IH]; intros [|i] H; cbn in *; try lia; auto. apply IH; lia. Qed.
Lemma nth_upd_other {B} (l : list B) i j x d : i <> j -> nth j (upd l i x) d = nth j l d.
Proof. revert i j; induction l as [|h t IH]; intros [|i] [|j] H; cbn; auto; try lia. Qed.
Lemma length_upd {B} (l : list B) i x : length (upd l i x) = length l.
Proof. revert i; induction l as [|h t IH]; intros [|i]; cbn; auto. Qed.
Lemma nth_skipn' {B} (l : list B) n i d : nth i (skipn n l) d = nth (n + i) l d.
Proof. revert l; induction n as [|n IH]; intros l; [reflexivity|]. destruct l as [|h t]; cbn; [destruct i; reflexivity|apply IH]. Qed.
Lemma nth_firstn' {B} (l : list B) n i d : i < n -> nth i (firstn n l) d = nth i l d.
Proof. revert l i; induction n as [|n IH]; intros l i H; [lia|]. destruct l as [|h t]; cbn; [reflexivity|]. destruct i; [reflexivity|apply IH; lia]. Qed.

Lemma rd_nth (r : ring) i : i < length (relems A r) -> rd A r i = Some (nth i (relems A r) dflt).
Proof. intros H. unfold rd. apply nth_error_nth'. exact H. Qed.

Lemma abs_length r : length (abs r) = rsize A r.
Proof. unfold abs. rewrite map_length, seq_length. reflexivity. Qed.

Lemma abs_nth_error r i : nth_error (abs r) i = if i <? rsize A r then Some (at_ r i) else None.
Proof.
  destruct (i <? rsize A r) eqn:E; b2p.
  - unfold abs. rewrite nth_error_map. rewrite nth_error_nth' with (d := 0) by (rewrite seq_length; lia).
    rewrite seq_nth by lia. reflexivity.
  - apply nth_error_None. rewrite abs_length. lia.
Qed.

Lemma get_spec (r : ring) i : WF r -> get A r i = RVal (nth_error (abs r) i).
Proof.
  intros (Hm & Hf & Hl & Hs & He). unfold get. rewrite abs_nth_error.
  destruct (rsize A r <=? i) eqn:E1; b2p.
  - destruct (i <? rsize A r) eqn:E2; b2p; [lia|reflexivity].
  - destruct (i <? rsize A r) eqn:E2; b2p; [|lia].
    unfold at_. rewrite mod_wrap by lia.
    destruct (rfirst A r + i <? rmax A r) eqn:E3; b2p.
    + rewrite rd_nth by lia. reflexivity.
    + rewrite rd_nth by lia. do 3 f_equal. lia.
Qed.

Lemma abs_ext (r r' : ring) : rsize A r = rsize A r' -> (forall i, i < rsize A r -> at_ r i = at_ r' i) -> abs r = abs r'.
Proof.
  intros Hs H. unfold abs. rewrite <- Hs. apply map_ext_in. intros i Hi. apply in_seq in Hi. apply H; lia.
Qed.

Lemma WF_create n : 0 < n -> WF (create A dflt n).
Proof. intros H. unfold WF, create; cbn. rewrite repeat_length. rewrite Nat.mod_small by lia. lia. Qed.

Lemma abs_create n : abs (create A dflt n) = [].
Proof. reflexivity. Qed.

Lemma grow_spec (r : ring) : WF r ->
  let g := grow A dflt r in WF g /\ abs g = abs r /\ rsize A g = rsize A r /\ rsize A g < rmax A g.
Proof.
  intros (Hm & Hf & Hl & Hs & He). unfold grow. destruct (rmax A r <=? rsize A r) eqn:E.
  2:{ apply Nat.leb_gt in E. cbn. repeat split; auto. }
  apply Nat.leb_le in E. assert (Hsz : rsize A r = rmax A r) by lia.
  cbn zeta. split; [|split; [|split]].
  - unfold WF; cbn [rfirst rlast rmax rsize relems]. repeat split; try lia.
    all: try (rewrite Nat.add_0_l; symmetry; apply Nat.mod_small; lia).
    all: destruct (rfirst A r =? 0); rewrite ?app_length, ?skipn_length, ?firstn_length, ?repeat_length; lia.
  - apply abs_ext; cbn [rsize]; [reflexivity|]. intros i Hi. unfold at_; cbn [rfirst rmax relems].
    rewrite Nat.add_0_l. rewrite (Nat.mod_small i) by lia.
    rewrite (mod_wrap (rfirst A r + i)) by lia.
    destruct (rfirst A r =? 0) eqn:E0.
    + apply Nat.eqb_eq in E0. rewrite E0, Nat.add_0_l.
      destruct (i <? rmax A r) eqn:E1; [|apply Nat.ltb_ge in E1; lia].
      rewrite app_nth1 by lia. reflexivity.
    + apply Nat.eqb_neq in E0. destruct (rfirst A r + i <? rmax A r) eqn:E1.
      * apply Nat.ltb_lt in E1. rewrite app_nth1 by (rewrite skipn_length; lia).
        rewrite nth_skipn'. reflexivity.
      * apply Nat.ltb_ge in E1. rewrite app_nth2 by (rewrite skipn_length; lia). rewrite skipn_length.
        rewrite app_nth1 by (rewrite firstn_length; lia).
        rewrite nth_firstn' by lia. f_equal. lia.
  - reflexivity.
  - cbn. lia.
Qed.

Lemma next_last f s m : 0 < m -> f < m -> s < m ->
  (if S ((f + s) mod m) =? m then 0 else S ((f + s) mod m)) = (f + S s) mod m.
Proof.
  intros. rewrite (mod_wrap (f + s)), (mod_wrap (f + S s)) by lia.
  destruct (f + s <? m) eqn:E1; destruct (f + S s <? m) eqn:E2;
    match goal with |- (if ?c then _ else _) = _ => destruct c eqn:E3 end; b2p; lia.
Qed.
Lemma other_slot f s i m : 0 < m -> f < m -> s < m -> i < s -> (f + s) mod m <> (f + i) mod m.
Proof.
  intros. rewrite (mod_wrap (f + s)), (mod_wrap (f + i)) by lia.
  destruct (f + s <? m) eqn:E1; destruct (f + i <? m) eqn:E2; b2p; lia.
Qed.

Lemma push_spec (r : ring) x : WF r ->
  WF (fst (push A dflt r x)) /\ snd (push A dflt r x) = ROk /\ abs (fst (push A dflt r x)) = abs r ++ [x].
Proof.
  intros H. destruct (grow_spec r H) as (Hg & Habs & Hsz & Hlt). unfold push.
  set (g := grow A dflt r) in *. destruct Hg as (Hm & Hf & Hl & Hs & He).
  assert (Hlast : rlast A g < rmax A g) by (rewrite Hl; apply Nat.mod_upper_bound; lia).
  destruct (rlast A g <? length (relems A g)) eqn:Elt; b2p; [|lia].
  cbn [fst snd]. split; [|split; [reflexivity|]].
  - unfold WF; cbn [rfirst rlast rmax rsize relems]. repeat split; try lia.
    + rewrite Hl. apply next_last; lia.
    + rewrite length_upd. exact He.
  - rewrite <- Habs. unfold abs; cbn [rsize]. rewrite seq_S, map_app. cbn [map]. f_equal.
    + apply map_ext_in. intros i Hi. apply in_seq in Hi. unfold at_; cbn [rfirst rmax relems].
      apply nth_upd_other. rewrite Hl. apply other_slot; lia.
    + f_equal. unfold at_; cbn [rfirst rmax relems]. rewrite Nat.add_0_l. rewrite <- Hl. apply nth_upd_same. lia.
Qed.

Lemma shift_first f m : f < m -> (if S f =? m then 0 else S f) < m.
Proof. intros. destruct (S f =? m) eqn:E; b2p; lia. Qed.
Lemma shift_slot f s m : 0 < m -> f < m -> s < m ->
  ((if S f =? m then 0 else S f) + s) mod m = (f + S s) mod m.
Proof.
  intros. destruct (S f =? m) eqn:E; b2p.
  - rewrite Nat.add_0_l, (mod_wrap (f + S s)), Nat.mod_small by lia.
    destruct (f + S s <? m) eqn:E2; b2p; lia.
  - f_equal. lia.
Qed.

Lemma abs_nil r : rsize A r = 0 -> abs r = [].
Proof. intros H. unfold abs. rewrite H. reflexivity. Qed.

Lemma shift_spec (r : ring) : WF r ->
  WF (fst (shift A r)) /\ snd (shift A r) = RVal (hd_error (abs r)) /\ abs (fst (shift A r)) = tl (abs r).
Proof.
  intros HWF. pose proof HWF as (Hm & Hf & Hl & Hs & He). unfold shift.
  destruct (rsize A r =? 0) eqn:E0; b2p.
  - cbn [fst snd]. rewrite (abs_nil r E0). auto.
  - rewrite rd_nth by lia. cbn [fst snd].
    destruct (rsize A r) as [|n] eqn:En; [lia|]. cbn [Nat.sub]. rewrite Nat.sub_0_r.
    split; [|split].
    + unfold WF; cbn [rfirst rlast rmax rsize relems]. repeat split; try lia.
      * apply shift_first; lia.
      * rewrite Hl. destruct n as [|n'].
        -- rewrite Nat.add_0_r. rewrite (mod_wrap (rfirst A r + 1)) by lia.
           pose proof (shift_first (rfirst A r) (rmax A r) Hf). rewrite (Nat.mod_small (if _ =? _ then _ else _)) by lia.
           destruct (S (rfirst A r) =? rmax A r) eqn:E1; destruct (rfirst A r + 1 <? rmax A r) eqn:E2; b2p; lia.
        -- rewrite shift_slot by lia. f_equal.
    + unfold abs. rewrite En. cbn. unfold at_. rewrite Nat.add_0_r, Nat.mod_small by lia. reflexivity.
    + unfold abs; cbn [rsize]. rewrite En. cbn [seq map tl].
      rewrite <- seq_shift, map_map. apply map_ext_in. intros i Hi. apply in_seq in Hi. unfold at_; cbn [rfirst rmax relems].
      f_equal. apply shift_slot; lia.
Qed.

Lemma last_error_snoc (l : list A) x : last_error A (l ++ [x]) = Some x.
Proof. unfold last_error. rewrite rev_app_distr. reflexivity. Qed.

Lemma pop_spec (r : ring) : WF r ->
  WF (fst (pop A r)) /\ snd (pop A r) = RVal (last_error A (abs r)) /\ abs (fst (pop A r)) = removelast (abs r).
Proof.
  intros HWF. pose proof HWF as (Hm & Hf & Hl & Hs & He). unfold pop.
  destruct (rsize A r =? 0) eqn:E0; b2p.
  - cbn [fst snd]. rewrite (abs_nil r E0). auto.
  - destruct (rsize A r) as [|n] eqn:En; [lia|].
    set (pos0 := rfirst A r + S n - 1).
    set (pos := if rmax A r - 1 <? pos0 then pos0 - rmax A r else pos0).
    assert (Hpos : pos = (rfirst A r + n) mod rmax A r).
    { unfold pos, pos0. rewrite mod_wrap by lia.
      destruct (rmax A r - 1 <? rfirst A r + S n - 1) eqn:E1; destruct (rfirst A r + n <? rmax A r) eqn:E2; b2p; lia. }
    assert (Hlt : pos < rmax A r) by (rewrite Hpos; apply Nat.mod_upper_bound; lia).
    rewrite rd_nth by lia. cbn [fst snd].
    assert (Habs : abs r = map (at_ r) (seq 0 n) ++ [at_ r n]).
    { unfold abs. rewrite En, seq_S, map_app. reflexivity. }
    split; [|split].
    + unfold WF; cbn [rfirst rlast rmax rsize relems]. replace (S n - 1) with n by lia. repeat split; try lia.
    + rewrite Habs, last_error_snoc. unfold at_. rewrite <- Hpos. reflexivity.
    + rewrite Habs, removelast_last. unfold abs; cbn [rsize]. replace (S n - 1) with n by lia.
      apply map_ext_in. intros i Hi. reflexivity.
Qed.

Lemma upd_map_seq_gen (f : nat -> A) n : forall s i x,
  i < n -> upd (map f (seq s n)) i x = map (fun j => if j =? s + i then x else f j) (seq s n).
Proof.
  induction n as [|n IH]; intros s i x Hi; [lia|].
  cbn [seq map]. destruct i as [|i]; cbn [upd].
  - rewrite Nat.add_0_r, Nat.eqb_refl. f_equal.
    apply map_ext_in. intros j Hj. apply in_seq in Hj.
    destruct (j =? s) eqn:E; b2p; [lia|reflexivity].
  - destruct (s =? s + S i) eqn:E; b2p; [lia|]. f_equal.
    rewrite IH by lia. apply map_ext. intros j. replace (S s + i) with (s + S i) by lia. reflexivity.
Qed.
Lemma upd_map_seq (f : nat -> A) n i x :
  i < n -> upd (map f (seq 0 n)) i x = map (fun j => if j =? i then x else f j) (seq 0 n).
Proof. intros H. rewrite upd_map_seq_gen by exact H. reflexivity. Qed.

Lemma replace_spec (r : ring) i x : WF r ->
  WF (fst (replace A r i x)) /\
  (abs (fst (replace A r i x)), snd (replace A r i x)) =
    (if i <? length (abs r) then (upd (abs r) i x, ROk) else (abs r, RDeclined)).
Proof.
  intros HWF. pose proof HWF as (Hm & Hf & Hl & Hs & He). unfold replace. rewrite abs_length.
  destruct (rsize A r <? i + 1) eqn:E1; b2p.
  - destruct (i <? rsize A r) eqn:E2; b2p; [lia|]. cbn [fst snd]. auto.
  - destruct (i <? rsize A r) eqn:E2; b2p; [|lia].
    assert (Hp : (rfirst A r + i) mod rmax A r < rmax A r) by (apply Nat.mod_upper_bound; lia).
    destruct ((rfirst A r + i) mod rmax A r <? length (relems A r)) eqn:E3; b2p; [|lia].
    cbn [fst snd]. split.
    + unfold WF; cbn [rfirst rlast rmax rsize relems]. rewrite length_upd. repeat split; auto.
    + f_equal. unfold abs at 2. rewrite upd_map_seq by lia. unfold abs; cbn [rsize].
      apply map_ext_in. intros j Hj. apply in_seq in Hj. unfold at_; cbn [rfirst rmax relems].
      destruct (j =? i) eqn:E4; b2p.
      * subst j. apply nth_upd_same. lia.
      * apply nth_upd_other.
        rewrite (mod_wrap (rfirst A r + i)), (mod_wrap (rfirst A r + j)) by lia.
        destruct (rfirst A r + i <? rmax A r) eqn:E5; destruct (rfirst A r + j <? rmax A r) eqn:E6; b2p; lia.
Qed.

Lemma clear_spec (r : ring) : WF r -> WF (clear A r) /\ abs (clear A r) = [].
Proof.
  intros (Hm & Hf & Hl & Hs & He). split; [|reflexivity].
  unfold WF, clear; cbn. rewrite Nat.mod_small by lia. repeat split; lia.
Qed.

(* one step: the model never faults, stays well-formed and commutes with the abstraction *)
Theorem lstep_refines (r : ring) (o : lop A) : WF r ->
  WF (fst (lstep A dflt r o)) /\
  (abs (fst (lstep A dflt r o)), snd (lstep A dflt r o)) = dstep A (abs r) o.
Proof.
  intros H. destruct o as [x| | |i|i x| |]; cbn [lstep dstep].
  - destruct (push_spec r x H) as (H1 & H2 & H3). split; [exact H1|]. rewrite H2, H3. reflexivity.
  - destruct (pop_spec r H) as (H1 & H2 & H3). split; [exact H1|]. rewrite H2, H3. reflexivity.
  - destruct (shift_spec r H) as (H1 & H2 & H3). split; [exact H1|]. rewrite H2, H3. reflexivity.
  - cbn [fst snd]. split; [exact H|]. rewrite get_spec by exact H. reflexivity.
  - apply replace_spec. exact H.
  - cbn [fst snd]. destruct (clear_spec r H) as (H1 & H2). split; [exact H1|]. rewrite H2. reflexivity.
  - cbn [fst snd]. split; [exact H|]. rewrite abs_length. reflexivity.
Qed.

Lemma observe_gen (ops : list (lop A)) : forall r acc,
  WF r ->
  snd (fold_left (fun '(s, acc) o => let '(s', x) := lstep A dflt s o in (s', x :: acc)) ops (r, acc)) =
  snd (fold_left (fun '(s, acc) o => let '(s', x) := dstep A s o in (s', x :: acc)) ops (abs r, acc)).
Proof.
  induction ops as [|o ops IH]; intros r acc H; [reflexivity|].
  cbn [fold_left]. destruct (lstep_refines r o H) as (HW & Heq).
  destruct (lstep A dflt r o) as [r' x] eqn:E1. destruct (dstep A (abs r) o) as [l' y] eqn:E2.
  cbn [fst snd] in *. inversion Heq; subst. apply IH. exact HW.
Qed.

(* every operation sequence, from every initial capacity *)
Theorem list_refines_deque n (ops : list (lop A)) :
  0 < n -> observe A (lstep A dflt) (create A dflt n) ops = observe A (dstep A) [] ops.
Proof.
  intros H. unfold observe. rewrite observe_gen by (apply WF_create; exact H). reflexivity.
Qed.

(* no operation sequence makes a checked access fail *)
Lemma dstep_no_fault l o : snd (dstep A l o) <> RFault.
Proof. destruct o as [x| | |i|i x| |]; unfold dstep; try (cbn [snd]; discriminate). destruct (i <? length l); cbn [snd]; discriminate. Qed.

Lemma observe_d_no_fault (ops : list (lop A)) : forall l acc,
  ~ In RFault acc ->
  ~ In RFault (snd (fold_left (fun '(s, acc) o => let '(s', x) := dstep A s o in (s', x :: acc)) ops (l, acc))).
Proof.
  induction ops as [|o ops IH]; intros l acc H; [exact H|].
  cbn [fold_left]. pose proof (dstep_no_fault l o) as Hn. destruct (dstep A l o) as [l' y]. cbn [snd] in Hn.
  apply IH. intros [Hy|Hy]; [congruence|auto].
Qed.

Theorem list_never_faults n (ops : list (lop A)) :
  0 < n -> ~ In RFault (observe A (lstep A dflt) (create A dflt n) ops).
Proof.
  intros H. rewrite list_refines_deque by exact H. unfold observe. apply observe_d_no_fault. intros [].
Qed.

End P.
