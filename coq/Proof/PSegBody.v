(* C03, request direction, Stage 4 (identity bodies): a request whose header block announces Content-Length: n, followed by
   n body bytes, header fields possibly folded, delivered in any TCP segmentation.  The body states are those of C06:
   one pass of REQ_BODY_IDENTITY is PBodyReq.bd_rq_identity_step (exact).  The reported transaction (all fields, including
   request_entity_len / request_message_len) does not depend on the segmentation, up to HTP_MULTI_PACKET_HEAD. *)
Require Import Htp.Model.Base Htp.Model.MBstr Htp.Model.MConnTypes Htp.Model.MTxCommon Htp.Model.MReqLine Htp.Model.MReqUri Htp.Model.MTxReq.
Require Import Htp.Model.MReq Htp.Model.MRes Htp.Model.MConnp.
Require Import Htp.Spec.SWire Htp.Proof.PWire Htp.Proof.PWireHdr Htp.Proof.PWireBlock Htp.Proof.PWireConn Htp.Proof.PWireExch.
Require Import Htp.Proof.PWireRun Htp.Proof.PWirePres Htp.Proof.PWireGlue Htp.Proof.PSeg Htp.Proof.PSegLine Htp.Proof.PSegHdr Htp.Proof.PSegGen Htp.Proof.PSegRun.
Require Import Htp.Proof.PSegFold Htp.Proof.PBody Htp.Proof.PBodyReq.

(* ---- the body bytes on the transaction ---- *)
Definition sg_body_add (k : Z) (t : tx) : tx := t <| t_request_entity_len ::= Z.add k |> <| t_request_message_len ::= Z.add k |>.
Definition sg_body_add' (k : nat) (t : tx) : tx := match k with O => t | S _ => sg_body_add (Z.of_nat k) t end.
Lemma sg_tx_ext2 (a b : tx) :
  a <| t_request_entity_len := 0%Z |> <| t_request_message_len := 0%Z |> = b <| t_request_entity_len := 0%Z |> <| t_request_message_len := 0%Z |> ->
  t_request_entity_len a = t_request_entity_len b -> t_request_message_len a = t_request_message_len b -> a = b.
Proof. destruct a, b. cbn. intros H1 H2 H3. inversion H1. subst. reflexivity. Qed.
Lemma sg_body_add_add a b t : sg_body_add a (sg_body_add b t) = sg_body_add (a + b) t.
Proof. apply sg_tx_ext2; [reflexivity|unfold sg_body_add; cbn; lia|unfold sg_body_add; cbn; lia]. Qed.
Lemma sg_body_add_fuse j k t : (0 < j)%nat -> sg_body_add (Z.of_nat j) (sg_body_add' k t) = sg_body_add' (k + j) t.
Proof.
  intros Hj. destruct k as [|k].
  - cbn [sg_body_add' Nat.add]. destruct j; [lia|reflexivity].
  - cbn [sg_body_add' Nat.add]. rewrite sg_body_add_add, <- Nat2Z.inj_add. f_equal. f_equal. lia.
Qed.
(* htp_tx_state_request_complete on a request with a body: the end-of-body marker adds 0 to request_entity_len *)
Definition sg_tcomplete (t : tx) : tx := t <| t_request_entity_len ::= Z.add (Z.of_nat 0) |> <| t_request_progress := c_HTP_REQUEST_COMPLETE |>.
(* from the end of the header block (t0) to the end of a request with n body bytes *)
Definition sg_after_hdr (n : nat) (t0 : tx) : tx :=
  sg_tcomplete (match n with O => t0 | S _ => sg_body_add' n (t0 <| t_request_progress := c_HTP_REQUEST_BODY |>) end).
Lemma sg_mask_after_hdr n t0 : sg_mask (sg_after_hdr n t0) = sg_after_hdr n (sg_mask t0).
Proof. destruct n; reflexivity. Qed.

Section BodyW.
Context {w : sg_world}.
Notation sg_cin := (sg_cinw w).
Notation sg_mid := (sg_midw w).
Lemma sg_cin_nil c d rd hdr st prev rh t : sg_cin c d rd [] hdr st prev rh t -> k_consume (c_in c) = rd /\ sg_olist (k_buf (c_in c)) = [].
Proof.
  intros [A1 A2 A3 A4 A5 A6 A7 A8 A9 A10 A11 A12 A13 A14 A15 A16 A17]. apply app_eq_nil in A9. destruct A9 as [B1 B2]. split; [|exact B1].
  assert (L : length (firstn (rd - k_consume (c_in c)) (skipn (k_consume (c_in c)) d)) = 0%nat) by (rewrite B2; reflexivity).
  rewrite (sg_slice_length d _ rd A8 A7) in L. lia.
Qed.
Lemma sg_mid_of_cin c d rd hdr st rh t : sg_cin c d rd [] hdr st (Some st) rh t -> sg_mid (c <| c_in_status := c_HTP_STREAM_DATA |>) [] hdr st rh t.
Proof.
  intros H. destruct (sg_cin_nil _ _ _ _ _ _ _ _ H) as [_ B]. destruct H as [A1 A2 A3 A4 A5 A6 A7 A8 A9 A10 A11 A12 A13 A14 A15 A16 A17].
  constructor; try assumption. right. reflexivity.
Qed.

Lemma sg_cin_left c d rd p hdr st prev rh t f : sg_cin c d rd p hdr st prev rh t -> sg_cin (c <| c_in_body_data_left ::= f |>) d rd p hdr st prev rh t.
Proof. intros H. apply (sg_cin_ext c); try reflexivity. exact H. Qed.
End BodyW.

Section Body.
Variable cb : cb_oracle.
Variable g : cfg.
Hypothesis Hcb : wr_all_ok cb.
Context {w : sg_world}.
Notation sg_cin := (sg_cinw w).
Notation sg_mid := (sg_midw w).

Lemma sg_cb_body_ok : forall n, cb H_REQUEST_BODY_DATA n = CB_OK. Proof. intros n. apply Hcb. Qed.

Lemma sg_bd_inv c d rd p st prev t : sg_cin c d rd p None st prev None t -> t_hook_request_body t = 0%nat -> bd_rq_inv (length (w_done w)) c.
Proof.
  intros H Hh. pose proof (sg_cin_slot _ _ _ _ _ _ _ _ _ H) as Hsl. destruct H as [A1 A2 A3 A4 A5 A6 A7 A8 A9 A10 A11 A12 A13 A14 A15 A16 A17].
  constructor; try assumption.
  - exists t. split; assumption.
  - apply sg_live_tunnel. exact A1.
  - exists d. rewrite A6. repeat split; assumption.
Qed.

(* the state change keeps in_body_data_left *)
Lemma sg_iter_ok_left c c1 d rd p hdr st prev rh t :
  rq_state_fn cb g (c_in_state c) c = (ST_OK, c1) -> sg_cin c1 d rd p hdr st prev rh t -> st <> REQ_HEADERS ->
  exists c', rq_iter cb g false c = inr c' /\ sg_cin c' d rd p hdr st (Some st) rh t /\ c_in_body_data_left c' = c_in_body_data_left c1.
Proof.
  intros E H Hne. unfold rq_iter. rewrite E. rewrite (sg_live_tunnel _ (ci_status _ _ _ _ _ _ _ _ _ H)).
  destruct (sg_state_change cb c1 d rd p hdr st prev rh t H Hne) as [E2|[E2 Ep]]; rewrite E2.
  - eexists. split; [reflexivity|]. split; [eapply sg_cin_prev; exact H|reflexivity].
  - eexists. split; [reflexivity|]. split; [rewrite <- Ep; exact H|reflexivity].
Qed.

(* entering htp_connp_req_data keeps in_body_data_left *)
Lemma sg_enter_left c p hdr st rh t (x : bytes) : sg_mid c p hdr st rh t -> x <> [] ->
  exists c1, connp_req_data cb g (Some x) (length x) c = rq_loop cb g (rq_fuel (length x)) false c1 /\
             sg_cin c1 x 0 p hdr st (Some st) rh t /\ c_in_body_data_left c1 = c_in_body_data_left c.
Proof.
  intros [A1 A2 A3 A4 A5 A6 A7 A8 A9 A10 A11] Hne. unfold connp_req_data.
  rewrite (sg_live_stop _ A1), (sg_live_error _ A1), A7.
  assert (L0 : (length x =? 0)%nat = false) by (destruct x; [contradiction|reflexivity]). rewrite L0. cbn [andb].
  match goal with |- context [(c_in_status ?y =? c_HTP_STREAM_TUNNEL)%Z] => change (c_in_status y) with (c_in_status c) end.
  rewrite (sg_live_tunnel _ A1).
  eexists. split; [reflexivity|].
  match goal with |- sg_cin (if ?b then _ else _) _ _ _ _ _ _ _ _ /\ _ => destruct b end.
  all: split; [|reflexivity].
  all: constructor; try assumption; try reflexivity; cbn; try lia.
  all: rewrite app_nil_r; exact A4.
Qed.

(* ---- REQ_BODY_DETERMINE with an identity body ---- *)
Lemma sg_pass_body_determine_id c d rd t (n : nat) : sg_cin c d rd [] None REQ_BODY_DETERMINE (Some REQ_BODY_DETERMINE) None t ->
  t_request_transfer_coding t = c_HTP_CODING_IDENTITY -> t_request_content_length t = Z.of_nat n ->
  exists c', rq_iter cb g false c = inr c' /\
    match n with
    | O => sg_cin c' d rd [] None REQ_FINALIZE (Some REQ_FINALIZE) None t
    | S _ => sg_cin c' d rd [] None REQ_BODY_IDENTITY (Some REQ_BODY_IDENTITY) None (t <| t_request_progress := c_HTP_REQUEST_BODY |>) /\
             c_in_body_data_left c' = Z.of_nat n
    end.
Proof.
  intros H Htc Hcl. pose proof (sg_cin_slot _ _ _ _ _ _ _ _ _ H) as Hsl.
  assert (Ef : rq_state_fn cb g (c_in_state c) c = REQ_BODY_DETERMINE_fn c) by (rewrite (ci_state _ _ _ _ _ _ _ _ _ H); reflexivity).
  unfold REQ_BODY_DETERMINE_fn, rq_tx, in_txi, tx_get in Ef. rewrite (ci_tx _ _ _ _ _ _ _ _ _ H), Hsl, Htc, Hcl in Ef.
  change ((c_HTP_CODING_IDENTITY =? c_HTP_CODING_CHUNKED)%Z) with false in Ef. change ((c_HTP_CODING_IDENTITY =? c_HTP_CODING_IDENTITY)%Z) with true in Ef. cbv iota in Ef.
  cbn [c_in_content_length set] in Ef.
  set (c0 := c <| c_in_content_length := Z.of_nat n |> <| c_in_body_data_left := Z.of_nat n |>) in *.
  assert (H0 : sg_cin c0 d rd [] None REQ_BODY_DETERMINE (Some REQ_BODY_DETERMINE) None t) by (apply (sg_cin_ext c); try reflexivity; exact H).
  change (c_in_content_length c0) with (Z.of_nat n) in Ef.
  destruct n as [|n'].
  - change ((Z.of_nat 0 =? 0)%Z) with true in Ef. cbn [negb] in Ef.
    destruct (sg_iter_ok (w:=w) cb g c (c0 <| c_in_state := REQ_FINALIZE |>) d rd [] None REQ_FINALIZE (Some REQ_BODY_DETERMINE) None t Ef) as (c' & E & H'); [eapply sg_cin_state; exact H0|discriminate|].
    exists c'. split; [exact E|exact H'].
  - assert (Nz : (Z.of_nat (S n') =? 0)%Z = false) by (apply Z.eqb_neq; lia). rewrite Nz in Ef. cbn [negb] in Ef.
    assert (H1 : sg_cin (c0 <| c_in_state := REQ_BODY_IDENTITY |>) d rd [] None REQ_BODY_IDENTITY (Some REQ_BODY_DETERMINE) None t) by (eapply sg_cin_state; exact H0).
    rewrite (sg_tx_upd _ d rd _ _ _ _ _ t _ H1) in Ef.
    destruct (sg_iter_ok_left c _ d rd [] None REQ_BODY_IDENTITY (Some REQ_BODY_DETERMINE) None (t <| t_request_progress := c_HTP_REQUEST_BODY |>) Ef) as (c' & E & H' & L'); [eapply sg_cin_txs; exact H1|discriminate|].
    exists c'. split; [exact E|]. split; [exact H'|exact L'].
Qed.

(* ---- one pass of REQ_BODY_IDENTITY over what the chunk still has (all of it belongs to the body) ---- *)
Lemma sg_cin_deliver c d rd st prev t dd rest : sg_cin c d rd [] None st prev None t -> skipn rd d = dd ++ rest ->
  sg_cin (bd_rq_deliver (length (w_done w)) t dd c) d (rd + length dd) [] None st prev None (sg_body_add (Z.of_nat (length dd)) t).
Proof.
  intros H Hs. destruct (sg_cin_nil _ _ _ _ _ _ _ _ H) as [Ecs Ebuf]. destruct H as [A1 A2 A3 A4 A5 A6 A7 A8 A9 A10 A11 A12 A13 A14 A15 A16 A17].
  assert (Ll : (rd + length dd <= length d)%nat).
  { assert (L : length (skipn rd d) = length (dd ++ rest)) by (rewrite Hs; reflexivity). rewrite skipn_length, app_length in L. lia. }
  constructor; try assumption; try reflexivity.
  - rewrite bd_rq_deliver_in. cbn. rewrite A6. lia.
  - rewrite bd_rq_deliver_in. cbn. rewrite Ecs. lia.
  - rewrite bd_rq_deliver_in. cbn [k_buf k_consume set]. cbn. rewrite Ecs, Ebuf.
    replace (rd + length dd - (length dd + rd))%nat with 0%nat by lia. reflexivity.
  - rewrite bd_rq_deliver_in. cbn. lia.
  - unfold bd_rq_deliver, bd_set_tx. cbn [c_txs c_txs_shifted set rq_set_in emit bump_hook]. cbn. rewrite A15, Nat.sub_0_r, A14, !wr_upd_app_exact. reflexivity.
Qed.

Lemma sg_body_pass c d rd t (left : nat) : sg_cin c d rd [] None REQ_BODY_IDENTITY (Some REQ_BODY_IDENTITY) None t ->
  t_hook_request_body t = 0%nat -> c_in_body_data_left c = Z.of_nat left -> (0 < left)%nat -> (length d - rd <= left)%nat ->
  let k := (length d - rd)%nat in
  match k with
  | O => rq_iter cb g false c = inl (c <| c_in_status := c_HTP_STREAM_DATA |>, c_HTP_STREAM_DATA)
  | S _ =>
    if (k <? left)%nat then
      exists c', rq_iter cb g false c = inl (c' <| c_in_status := c_HTP_STREAM_DATA |>, c_HTP_STREAM_DATA) /\
                 sg_cin c' d (length d) [] None REQ_BODY_IDENTITY (Some REQ_BODY_IDENTITY) None (sg_body_add (Z.of_nat k) t) /\
                 c_in_body_data_left c' = Z.of_nat (left - k)
    else
      exists c', rq_iter cb g false c = inr c' /\
                 sg_cin c' d (length d) [] None REQ_FINALIZE (Some REQ_FINALIZE) None (sg_body_add (Z.of_nat k) t)
  end.
Proof.
  intros H Hh Hl Hpos Hle k. pose proof (sg_cin_slot _ _ _ _ _ _ _ _ _ H) as Hsl.
  pose proof (sg_bd_inv c d rd [] _ _ t H Hh) as Inv.
  assert (Lp : (0 < c_in_body_data_left c)%Z) by (rewrite Hl; lia).
  pose proof (bd_rq_identity_step cb sg_cb_body_ok _ t c Inv Hsl Lp) as Est. cbv zeta in Est.
  assert (Erest : bd_rq_rest c = skipn rd d) by (unfold bd_rq_rest; rewrite (ci_data _ _ _ _ _ _ _ _ _ H), (ci_read _ _ _ _ _ _ _ _ _ H); reflexivity).
  assert (Edd : firstn (Z.to_nat (c_in_body_data_left c)) (bd_rq_rest c) = skipn rd d).
  { rewrite Erest, Hl, Nat2Z.id. apply firstn_all2. rewrite skipn_length. exact Hle. }
  rewrite Edd in Est. rewrite skipn_length in Est. fold k in Est.
  assert (Es : c_in_state c = REQ_BODY_IDENTITY) by apply (ci_state _ _ _ _ _ _ _ _ _ H).
  assert (Ef : rq_state_fn cb g (c_in_state c) c = REQ_BODY_IDENTITY_fn cb c) by (rewrite Es; reflexivity).
  pose proof (ci_rd _ _ _ _ _ _ _ _ _ H) as Hrd.
  destruct k as [|k'] eqn:Ek.
  - cbn [Nat.eqb] in Est. unfold rq_iter. rewrite Ef, Est. unfold rq_exit, req_receiver_send_data. rewrite (ci_rh _ _ _ _ _ _ _ _ _ H). reflexivity.
  - cbn [Nat.eqb] in Est. rewrite <- Ek in *.
    assert (Hd : sg_cin (bd_rq_deliver (length (w_done w)) t (skipn rd d) c) d (length d) [] None REQ_BODY_IDENTITY (Some REQ_BODY_IDENTITY) None (sg_body_add (Z.of_nat k) t)).
    { pose proof (sg_cin_deliver c d rd _ _ t (skipn rd d) [] H (eq_sym (app_nil_r _))) as Hx. rewrite skipn_length in Hx.
      replace (rd + (length d - rd))%nat with (length d) in Hx by lia. exact Hx. }
    set (c1 := bd_rq_deliver (length (w_done w)) t (skipn rd d) c <| c_in_body_data_left ::= (fun l => (l - Z.of_nat k)%Z) |>) in *.
    assert (H1 : sg_cin c1 d (length d) [] None REQ_BODY_IDENTITY (Some REQ_BODY_IDENTITY) None (sg_body_add (Z.of_nat k) t)).
    { unfold c1. apply sg_cin_left. exact Hd. }
    destruct (k <? left)%nat eqn:Elt.
    + apply Nat.ltb_lt in Elt. assert (Nz : (c_in_body_data_left c - Z.of_nat k =? 0)%Z = false) by (apply Z.eqb_neq; rewrite Hl; lia). rewrite Nz in Est.
      exists c1. split; [|split; [exact H1|]].
      * unfold rq_iter. rewrite Ef, Est. unfold rq_exit, req_receiver_send_data. rewrite (ci_rh _ _ _ _ _ _ _ _ _ H1). reflexivity.
      * unfold c1. cbn [c_in_body_data_left set]. change (c_in_body_data_left (bd_rq_deliver (length (w_done w)) t (skipn rd d) c)) with (c_in_body_data_left c). rewrite Hl. lia.
    + apply Nat.ltb_ge in Elt. assert (Ez : (c_in_body_data_left c - Z.of_nat k =? 0)%Z = true) by (apply Z.eqb_eq; rewrite Hl; lia). rewrite Ez in Est.
      rewrite <- Ef in Est.
      apply (sg_iter_ok (w:=w) cb g c (c1 <| c_in_state := REQ_FINALIZE |>) d (length d) [] None REQ_FINALIZE (Some REQ_BODY_IDENTITY) None _ Est); [eapply sg_cin_state; exact H1|discriminate].
Qed.

(* ---- REQ_FINALIZE at the end of the chunk, for a request with an identity body ---- *)
Lemma sg_request_complete_body c d rd p prev t : sg_cin c d rd p None REQ_FINALIZE prev None t ->
  t_request_transfer_coding t = c_HTP_CODING_IDENTITY -> (t_request_progress t =? c_HTP_REQUEST_COMPLETE)%Z = false ->
  (t_response_progress t =? c_HTP_RESPONSE_COMPLETE)%Z = false -> t_is_protocol_0_9 t = false -> t_hook_request_body t = 0%nat ->
  exists c', rq_request_complete cb g c = (ST_OK, c') /\ sg_idl c' d rd p (w_done w ++ [Some (sg_tcomplete t)]) (w_flags w) prev.
Proof.
  intros H Htc Hprog Hresp H09 Hh. pose proof (sg_cin_slot _ _ _ _ _ _ _ _ _ H) as Hsl. pose proof H as [A1 A2 A3 A4 A5 A6 A7 A8 A9 A10 A11 A12 A13 A14 A15 A16 A17].
  unfold rq_request_complete, rq_with_tx. rewrite A13.
  unfold tx_state_request_complete. rewrite Hsl, Hprog. cbn [negb].
  unfold tx_state_request_complete_partial, tx_get. rewrite Hsl.
  unfold tx_req_has_body. rewrite Htc. change ((c_HTP_CODING_IDENTITY =? c_HTP_CODING_IDENTITY)%Z) with true. cbn [orb].
  unfold tx_req_process_body_data_ex.
  rewrite (sg_tx_upd_at c d rd _ _ _ _ _ t _ H).
  set (t1 := t <| t_request_entity_len ::= Z.add (Z.of_nat 0) |>).
  set (c2 := sg_settx w t1 c).
  assert (H2 : sg_cin c2 d rd p None REQ_FINALIZE prev None t1) by (eapply sg_cin_txs; exact H).
  unfold req_run_hook_body_data. rewrite (ci_tx _ _ _ _ _ _ _ _ _ H2).
  unfold tx_get. rewrite (sg_cin_slot _ _ _ _ _ _ _ _ _ H2). change (t_hook_request_body t1) with (t_hook_request_body t). rewrite Hh. cbn [run_tx_hooks].
  unfold run_data_hook. rewrite (wr_run_hook_ex cb Hcb).
  match goal with |- context [tx_upd ?x _ ?f] => set (c3 := x) end.
  assert (H3 : sg_cin c3 d rd p None REQ_FINALIZE prev None t1) by (unfold c3; apply sg_cin_hook; exact H2).
  rewrite (sg_tx_upd_at c3 d rd _ _ _ _ _ t1 _ H3).
  rewrite (wr_run_hook cb Hcb). unfold req_receiver_finalize_clear.
  set (t' := t1 <| t_request_progress := c_HTP_REQUEST_COMPLETE |>).
  match goal with |- context [wr_hook_ev H_REQUEST_COMPLETE ?i None false ?x] => set (c4 := wr_hook_ev H_REQUEST_COMPLETE i None false x) end.
  assert (H4 : sg_cin c4 d rd p None REQ_FINALIZE prev None t') by (unfold c4; apply sg_cin_hook; eapply sg_cin_txs; exact H3).
  rewrite (ci_rh _ _ _ _ _ _ _ _ _ H4).
  rewrite (sg_cin_slot _ _ _ _ _ _ _ _ _ H4). change (t_is_protocol_0_9 t') with (t_is_protocol_0_9 t). rewrite H09.
  unfold tx_finalize.
  assert (H5 : sg_cin (c4 <| c_in_state := REQ_IDLE |>) d rd p None REQ_IDLE prev None t') by (eapply sg_cin_state; exact H4).
  rewrite (sg_cin_slot _ _ _ _ _ _ _ _ _ H5).
  unfold tx_is_complete. change (t_response_progress t') with (t_response_progress t). rewrite Hresp, andb_false_r. cbn [negb].
  eexists. split; [reflexivity|].
  destruct H5 as [B1 B2 B3 B4 B5 B6 B7 B8 B9 B10 B11 B12 B13 B14 B15 B16 B17].
  constructor; try assumption; try reflexivity.
Qed.

Lemma sg_pass_finalize_body c d p t : sg_cin c d (length d) p None REQ_FINALIZE (Some REQ_FINALIZE) None t ->
  t_request_transfer_coding t = c_HTP_CODING_IDENTITY -> (t_request_progress t =? c_HTP_REQUEST_COMPLETE)%Z = false ->
  (t_response_progress t =? c_HTP_RESPONSE_COMPLETE)%Z = false -> t_is_protocol_0_9 t = false -> t_hook_request_body t = 0%nat ->
  exists c', rq_iter cb g false c = inr c' /\ sg_idl c' d (length d) p (w_done w ++ [Some (sg_tcomplete t)]) (w_flags w) (Some REQ_IDLE).
Proof.
  intros H Htc Hprog Hresp H09 Hh. pose proof H as [A1 A2 A3 A4 A5 A6 A7 A8 A9 A10 A11 A12 A13 A14 A15 A16 A17].
  assert (Ef : rq_state_fn cb g (c_in_state c) c = rq_request_complete cb g (rq_set_in (fun k => k <| k_next_byte := None |>) c)).
  { rewrite A2. cbn [rq_state_fn]. unfold REQ_FINALIZE_fn, rq_finalize_scan. rewrite (sg_live_closed _ A1).
    unfold rq_peek_next, rq_at_end. rewrite A5, A6, Nat.leb_refl. reflexivity. }
  destruct (sg_request_complete_body _ d _ p _ t (sg_cin_next _ _ _ _ _ _ _ _ _ None H) Htc Hprog Hresp H09 Hh) as (c1 & E1 & H1).
  eapply (sg_iter_idle cb g c c1 d _ p); [rewrite Ef; exact E1|exact H1].
Qed.
End Body.

Lemma sg_body_add'_frame k t :
  t_request_transfer_coding (sg_body_add' k t) = t_request_transfer_coding t /\ t_request_progress (sg_body_add' k t) = t_request_progress t /\
  t_response_progress (sg_body_add' k t) = t_response_progress t /\ t_is_protocol_0_9 (sg_body_add' k t) = t_is_protocol_0_9 t /\
  t_hook_request_body (sg_body_add' k t) = t_hook_request_body t.
Proof. destruct k; repeat split; reflexivity. Qed.

(* the request line keeps the number of registered body hooks *)
Lemma sg_tx_line_hook g t m u p : g_allow_space_uri g = false -> wr_wf_request_line m u p = true ->
  t_hook_request_body (sg_tx_line g t (wr_ser_request_line m u p)) = t_hook_request_body t.
Proof.
  intros Hsp W. unfold sg_tx_line. set (line := wr_ser_request_line m u p).
  set (t2 := htp_parse_request_line g (t <| t_request_line := Some line |>)).
  assert (E2 : t2 = (t <| t_request_line := Some line |>) <| t_request_method := Some m |> <| t_request_method_number := htp_convert_method_to_number m |>
                 <| t_request_uri := Some u |> <| t_request_protocol := Some p |> <| t_request_protocol_number := wr_protocol_number p |>).
  { unfold t2. apply (wr_reqline_tx g _ m u p Hsp W). reflexivity. }
  assert (U2 : t_request_uri t2 = Some u) by (rewrite E2; reflexivity).
  destruct (wr_keep_uri_pipeline g (t_request_method_number t2 =? c_HTP_M_CONNECT)%Z u t2) as (t3 & E3 & K3 & _).
  rewrite U2, E3. unfold wr_keep in K3. decompose [and] K3. rewrite E2 in *. cbn in *. congruence.
Qed.

Section BodyRun.
Variable cb : cb_oracle.
Variable g : cfg.
Hypothesis Hcb : wr_all_ok cb.
Hypothesis Hspace : g_allow_space_uri g = false.
Variables m u pr : bytes.
Variable fs : list wr_field.
Variable body : bytes.
Hypothesis Wl : wr_wf_request_line m u pr = true.
Hypothesis Wb : wr_block_ok fs = true.
Hypothesis Wc : wr_eqb m wr_str_connect = false.
Let tb := wr_block_tx fs (sg_th0 g 0 m u pr).
Let n := length body.
(* the header block announces an identity body of n bytes (the decision of htp_tx_process_request_headers, C11) *)
Hypothesis Hcod : t_request_transfer_coding (sg_hdr_end tb) = c_HTP_CODING_IDENTITY.
Hypothesis Hclen : t_request_content_length (sg_hdr_end tb) = Z.of_nat n.
Variable bwt : bytes.
Variable hlog : option bytes -> tx -> bytes -> bytes -> Prop.
Notation sg_cin := (sg_cinw sg_w0).
Notation sg_mid := (sg_midw sg_w0).

Definition sg_t0 (fl : bool) : tx := sg_hdr_end (if fl then tx_set_flag c_HTP_MULTI_PACKET_HEAD tb else tb).
Definition sg_tb1 (fl : bool) : tx := sg_t0 fl <| t_request_progress := c_HTP_REQUEST_BODY |>.
Definition sg_bfin (txs : list (option tx)) : Prop := exists fl, txs = [Some (sg_after_hdr n (sg_t0 fl))].
(* between two calls while the body is read: k bytes delivered so far *)
Definition sg_bext (c : connp) (rw : bytes) : Prop :=
  exists fl k, (k < n)%nat /\ sg_mid c [] None REQ_BODY_IDENTITY None (sg_body_add' k (sg_tb1 fl)) /\
               c_in_body_data_left c = Z.of_nat (n - k) /\ rw = skipn k body.

Lemma sg_t0_facts fl :
  t_request_transfer_coding (sg_t0 fl) = c_HTP_CODING_IDENTITY /\ t_request_content_length (sg_t0 fl) = Z.of_nat n /\
  (t_request_method_number (sg_t0 fl) =? c_HTP_M_CONNECT)%Z = false /\ t_request_progress (sg_t0 fl) = c_HTP_REQUEST_HEADERS /\
  t_response_progress (sg_t0 fl) = c_HTP_RESPONSE_NOT_STARTED /\ t_is_protocol_0_9 (sg_t0 fl) = false /\ t_hook_request_body (sg_t0 fl) = 0%nat.
Proof.
  destruct (sg_th0_facts g Hspace 0 m u pr Wl) as (F & H1 & H2 & H3 & H4 & H5).
  pose proof (wr_keep_h_block fs (sg_th0 g 0 m u pr)) as K. fold tb in K. unfold wr_keep_h in K. destruct K as (K1 & K2 & K3 & K4 & K5 & K6 & K7 & K8 & K9 & K10).
  unfold wr_line_fields in F. destruct F as (F1 & F2 & F3 & F4 & F5 & F6).
  assert (Hk0 : t_hook_request_body (sg_th0 g 0 m u pr) = 0%nat).
  { pose proof (sg_tx_line_hook g (sg_t1 0) m u pr Hspace Wl) as Hx. unfold sg_th0. revert Hx.
    generalize (sg_tx_line g (sg_t1 0) (wr_ser_request_line m u pr)). intros X Hx. exact Hx. }
  assert (Base : t_request_transfer_coding (sg_hdr_end tb) = c_HTP_CODING_IDENTITY /\ t_request_content_length (sg_hdr_end tb) = Z.of_nat n /\
                 (t_request_method_number (sg_hdr_end tb) =? c_HTP_M_CONNECT)%Z = false /\ t_request_progress (sg_hdr_end tb) = c_HTP_REQUEST_HEADERS /\
                 t_response_progress (sg_hdr_end tb) = c_HTP_RESPONSE_NOT_STARTED /\ t_is_protocol_0_9 (sg_hdr_end tb) = false /\ t_hook_request_body (sg_hdr_end tb) = 0%nat).
  { destruct (sg_hdr_end_facts tb) as [KE _]. unfold wr_keep in KE. destruct KE as (E1 & E2 & E3 & E4 & E5 & E6 & E7 & E8 & E9 & E10 & E11).
    split; [exact Hcod|]. split; [exact Hclen|]. split; [rewrite E2, K2, F2; apply wr_not_connect; exact Wc|]. split; [rewrite E9, K7; exact H3|].
    split; [rewrite E10, K8; exact H4|]. split; [rewrite E6, K6; exact F6|]. rewrite E11, K9. exact Hk0. }
  unfold sg_t0. destruct fl; [|exact Base]. rewrite sg_hdr_end_flag. exact Base.
Qed.

Let post := sg_post m u pr bwt hlog sg_bfin sg_bext.

(* ---- the rest of a call once the parser is in REQ_BODY_IDENTITY ---- *)
Lemma sg_body_run c d rd fl k (rw' : bytes) f :
  sg_cin c d rd [] None REQ_BODY_IDENTITY (Some REQ_BODY_IDENTITY) None (sg_body_add' k (sg_tb1 fl)) ->
  c_in_body_data_left c = Z.of_nat (n - k) -> (k < n)%nat -> skipn rd d ++ rw' = skipn k body ->
  exists cF rc, rq_loop cb g (3 + f) false c = (cF, rc) /\ post cF rw'.
Proof.
  intros H Hl Hk Hw. pose proof (ci_rd _ _ _ _ _ _ _ _ _ H) as Hrd.
  destruct (sg_t0_facts fl) as (Tc & _ & _ & _ & Rp & Z9 & Hk0).
  destruct (sg_body_add'_frame k (sg_tb1 fl)) as (B1 & B2 & B3 & B4 & B5).
  assert (Hh : t_hook_request_body (sg_body_add' k (sg_tb1 fl)) = 0%nat) by (rewrite B5; exact Hk0).
  assert (Lw : (length d - rd + length rw' = n - k)%nat).
  { assert (L : length (skipn rd d ++ rw') = length (skipn k body)) by (rewrite Hw; reflexivity). rewrite app_length, !skipn_length in L. fold n in L. exact L. }
  pose proof (sg_body_pass cb g Hcb c d rd _ (n - k) H Hh Hl ltac:(lia) ltac:(lia)) as P. cbv zeta in P.
  destruct (length d - rd)%nat as [|j'] eqn:Ej.
  - (* nothing of the body in this chunk *)
    exists (c <| c_in_status := c_HTP_STREAM_DATA |>), c_HTP_STREAM_DATA. split; [change (3 + f)%nat with (S (2 + f)); apply sg_rq_loop_inl; exact P|].
    assert (Es : skipn rd d = []) by (apply length_zero_iff_nil; rewrite skipn_length; exact Ej). rewrite Es in Hw. cbn [app] in Hw.
    left. split; [rewrite Hw; intro E; assert (L : length (skipn k body) = 0%nat) by (rewrite E; reflexivity); rewrite skipn_length in L; fold n in L; lia|].
    right. right. exists fl, k. split; [exact Hk|]. split; [apply (sg_mid_of_cin c d rd); exact H|]. split; [exact Hl|exact Hw].
  - set (j := S j') in *.
    assert (Erw : rw' = skipn (k + j) body).
    { rewrite <- bd_skipn_skipn, <- Hw, skipn_app. rewrite skipn_all2 by (rewrite skipn_length; lia).
      replace (j - length (skipn rd d))%nat with 0%nat by (rewrite skipn_length; lia). reflexivity. }
    destruct (j <? n - k)%nat eqn:Elt.
    + apply Nat.ltb_lt in Elt. destruct P as (c' & E & H' & L').
      rewrite (sg_body_add_fuse j k _ ltac:(lia)) in H'.
      exists (c' <| c_in_status := c_HTP_STREAM_DATA |>), c_HTP_STREAM_DATA. split; [change (3 + f)%nat with (S (2 + f)); apply sg_rq_loop_inl; exact E|].
      left. split; [rewrite Erw; intro E0; assert (L : length (skipn (k + j) body) = 0%nat) by (rewrite E0; reflexivity); rewrite skipn_length in L; fold n in L; lia|].
      right. right. exists fl, (k + j)%nat. split; [lia|]. split; [apply (sg_mid_of_cin c' d (length d)); exact H'|].
      split; [cbn [c_in_body_data_left set]; rewrite L'; f_equal; lia|exact Erw].
    + apply Nat.ltb_ge in Elt. assert (Ej2 : j = (n - k)%nat) by lia. destruct P as (c' & E & H').
      rewrite (sg_body_add_fuse j k _ ltac:(lia)) in H'. replace (k + j)%nat with n in H' by lia.
      change (3 + f)%nat with (S (S (S f))). rewrite (sg_rq_loop_inr cb g _ _ _ E).
      destruct (sg_body_add'_frame n (sg_tb1 fl)) as (C1 & C2 & C3 & C4 & C5).
      destruct (sg_pass_finalize_body cb g Hcb c' d _ _ H') as (c6 & E6 & H6);
        [rewrite C1; exact Tc|rewrite C2; reflexivity|rewrite C3; change (t_response_progress (sg_tb1 fl)) with (t_response_progress (sg_t0 fl)); rewrite Rp; reflexivity
        |rewrite C4; exact Z9|rewrite C5; exact Hk0|].
      rewrite (sg_rq_loop_inr cb g _ _ _ E6).
      rewrite (sg_rq_loop_inl cb g _ _ _ (sg_pass_idle_end cb g c6 d _ _ _ _ H6)).
      eexists _, _. split; [reflexivity|]. right.
      split; [assert (L : length rw' = 0%nat) by lia; destruct rw'; [reflexivity|discriminate]|].
      exists fl. change (c_txs (c6 <| c_in_status := c_HTP_STREAM_DATA |>)) with (c_txs c6). rewrite (il_txs _ _ _ _ _ _ _ H6). cbn [w_done sg_w0 app].
      unfold sg_after_hdr. destruct n as [|n0] eqn:En; [lia|]. reflexivity.
Qed.

(* ---- a later call that starts in REQ_BODY_IDENTITY ---- *)
Lemma sg_bext_step c (rw x rw' : bytes) : sg_bext c rw -> x <> [] -> rw = x ++ rw' ->
  exists c' rc, connp_req_data cb g (Some x) (length x) c = (c', rc) /\ post c' rw'.
Proof.
  intros (fl & k & Hk & Hm & Hl & Erw) Hne Ex.
  destruct (sg_enter_left cb g c [] None _ _ _ x Hm Hne) as (c1 & E1 & H1 & L1). unfold bytes in *. rewrite E1.
  destruct (sg_fuel_8 x) as (f & Ef). rewrite Ef. change (8 + f)%nat with (3 + (5 + f))%nat.
  apply (sg_body_run c1 x 0 fl k rw' _ H1); [rewrite L1; exact Hl|exact Hk|]. cbn [skipn]. rewrite <- Ex. exact Erw.
Qed.
Lemma sg_bext_finish c rw : sg_bext c rw -> sg_bext (forget_chunks c <| c_events := [] |>) rw.
Proof.
  intros (fl & k & Hk & Hm & Hl & Erw). exists fl, k. split; [exact Hk|]. split; [apply sg_mid_finish; exact Hm|]. split; [exact Hl|exact Erw].
Qed.

(* ---- after the empty line: htp_tx_state_request_headers, REQ_CONNECT_CHECK, REQ_BODY_DETERMINE, then the body ---- *)
Lemma sg_btail c c1 d rd1 (rw' : bytes) f : c_in_state c = REQ_HEADERS ->
  rq_state_fn cb g REQ_HEADERS c = rq_with_tx (tx_state_request_headers cb) c1 ->
  sg_cin c1 d rd1 [] None REQ_HEADERS (Some REQ_HEADERS) (Some H_REQUEST_HEADER_DATA) tb -> skipn rd1 d ++ rw' = body ->
  exists cF rc, rq_loop cb g (6 + f) false c = (cF, rc) /\ post cF rw'.
Proof.
  intros Es Ef H1 Hw.
  destruct (sg_th0_facts g Hspace 0 m u pr Wl) as (_ & _ & _ & H3 & _ & (nu0 & H5)).
  pose proof (wr_keep_h_block fs (sg_th0 g 0 m u pr)) as K. fold tb in K. unfold wr_keep_h in K. destruct K as (_ & _ & _ & _ & _ & _ & K7 & _ & _ & K10).
  assert (Pg : t_request_progress tb = c_HTP_REQUEST_HEADERS) by (rewrite K7; exact H3).
  assert (Pu : t_parsed_uri tb = Some nu0) by (rewrite K10; exact H5).
  unfold rq_with_tx in Ef. rewrite (ci_tx _ _ _ _ _ _ _ _ _ H1) in Ef.
  destruct (sg_state_request_headers cb Hcb c1 d _ _ tb nu0 H1 Pg Pu) as (c2 & fl & E2 & H2). rewrite E2 in Ef.
  fold (sg_t0 fl) in H2. destruct (sg_t0_facts fl) as (Tc & Cl & M & Pg0 & Rp & Z9 & Hk0).
  rewrite <- Es in Ef.
  destruct (sg_iter_ok cb g c c2 d _ _ _ _ _ _ _ Ef H2) as (c3 & E3 & H3'); [discriminate|].
  change (6 + f)%nat with (S (S (S (3 + f)))). rewrite (sg_rq_loop_inr cb g _ _ _ E3).
  destruct (sg_pass_connect_check cb g c3 d _ _ _ _ _ H3' M) as (c4 & E4 & H4). rewrite (sg_rq_loop_inr cb g _ _ _ E4).
  destruct (sg_pass_body_determine_id cb g c4 d _ _ n H4 Tc Cl) as (c5 & E5 & H5'). rewrite (sg_rq_loop_inr cb g _ _ _ E5).
  destruct n as [|n0] eqn:En.
  - (* Content-Length: 0 *)
    assert (Eb : body = []) by (apply length_zero_iff_nil; exact En). rewrite Eb in Hw. apply app_eq_nil in Hw. destruct Hw as [Hs Hrw].
    assert (Erd : rd1 = length d) by (pose proof (sg_skipn_nil _ _ Hs); pose proof (ci_rd _ _ _ _ _ _ _ _ _ H1); lia). rewrite Erd in H5'.
    change (3 + f)%nat with (S (S (S f))).
    destruct (sg_pass_finalize_body cb g Hcb c5 d _ _ H5' Tc) as (c6 & E6 & H6);
      [rewrite Pg0; reflexivity|rewrite Rp; reflexivity|exact Z9|exact Hk0|].
    rewrite (sg_rq_loop_inr cb g _ _ _ E6).
    rewrite (sg_rq_loop_inl cb g _ _ _ (sg_pass_idle_end cb g c6 d _ _ _ _ H6)).
    eexists _, _. split; [reflexivity|]. right. split; [exact Hrw|]. exists fl.
    change (c_txs (c6 <| c_in_status := c_HTP_STREAM_DATA |>)) with (c_txs c6). rewrite (il_txs _ _ _ _ _ _ _ H6). rewrite En. reflexivity.
  - destruct H5' as [H5' L5]. rewrite <- En in *.
    apply (sg_body_run c5 d rd1 fl 0 rw' f); [exact H5'|rewrite L5; f_equal; lia|lia|cbn [skipn]; exact Hw].
Qed.
End BodyRun.

(* ================= the theorem on the wire grammar, with a Content-Length body ================= *)
(* the request r (its fields may include Content-Length) is well formed, is not CONNECT, and its header block announces
   an identity body of exactly |body| bytes -- as htp_tx_process_request_headers decides (the decision table of C11) *)
Definition sg_body_ok (g : cfg) (r : wr_request) (body : bytes) : bool :=
  let tb := wr_block_tx (wq_fields r) (sg_th0 g 0 (wq_method r) (wq_uri r) (wq_protocol r)) in
  wr_wf_request_line (wq_method r) (wq_uri r) (wq_protocol r) && wr_block_ok (wq_fields r) && negb (wr_eqb (wq_method r) wr_str_connect) &&
  (t_request_transfer_coding (sg_hdr_end tb) =? c_HTP_CODING_IDENTITY)%Z && (t_request_content_length (sg_hdr_end tb) =? Z.of_nat (length body))%Z.
(* the transaction such a request has to produce *)
Definition sg_tbody (g : cfg) (r : wr_request) (n : nat) : tx :=
  sg_after_hdr n (sg_hdr_end (wr_block_tx (wq_fields r) (sg_th0 g 0 (wq_method r) (wq_uri r) (wq_protocol r)))).

Theorem sg_request_body_chunking : forall cb g r (cuts : list (list bytes)) (body : bytes) (chunks : list bytes),
  wr_all_ok cb -> g_allow_space_uri g = false -> sg_body_ok g r body = true -> sg_cuts_ok r cuts = true -> sg_fold_fits g r cuts = true ->
  Forall (fun x => x <> []) chunks -> concat chunks = sg_fold_wire r cuts ++ body ->
  exists t, c_txs (fst (cp_run cb g connp_new (OpOpen :: map OpReqData chunks))) = [Some t] /\ sg_mask t = sg_mask (sg_tbody g r (length body)).
Proof.
  intros cb g [m u p fs] cuts body chunks Hcb Hsp Wr Hcuts Hf Hall Hc.
  unfold sg_body_ok in Wr. cbn [wq_method wq_uri wq_protocol wq_fields] in Wr. cbv zeta in Wr.
  apply andb_prop in Wr. destruct Wr as [Wr Hcl]. apply andb_prop in Wr. destruct Wr as [Wr Hco]. apply andb_prop in Wr. destruct Wr as [Wr Wc].
  apply andb_prop in Wr. destruct Wr as [Wl Wb]. apply negb_true_iff in Wc. apply Z.eqb_eq in Hco. apply Z.eqb_eq in Hcl.
  unfold sg_cuts_ok in Hcuts. cbn [wq_fields] in Hcuts. apply andb_prop in Hcuts. destruct Hcuts as [Hlen Hfo]. apply Nat.eqb_eq in Hlen.
  unfold sg_fold_fits in Hf. cbn [wq_method wq_uri wq_protocol wq_fields] in Hf. apply andb_prop in Hf. destruct Hf as [Hl0 Hfit]. apply Nat.leb_le in Hl0.
  unfold sg_fold_wire in Hc. cbn [wq_method wq_uri wq_protocol wq_fields] in Hc.
  set (fps := combine fs cuts) in *. set (flat := sg_block_flat fps) in *.
  assert (Efs : map fst fps = fs) by (apply sg_map_fst_combine; exact Hlen).
  assert (Okf : forallb (fun fp => wr_field_ok (fst fp)) fps = true).
  { pose proof (sg_okf fs Wb) as O. rewrite <- Efs in O. rewrite forallb_forall in O. apply forallb_forall. intros fp Hin. apply O. apply in_map. exact Hin. }
  destruct (sg_block_flat_ok fps Okf Hfo) as (Fok & Fnp). fold flat in Fok, Fnp.
  set (bwt := sg_fwire flat ++ [CR; LF] ++ body).
  assert (Hc' : concat chunks = wr_ser_request_line m u p ++ [CR; LF] ++ bwt) by (rewrite Hc; unfold bwt; rewrite <- !app_assoc; reflexivity).
  set (Tend := wr_block_tx fs (sg_th0 g 0 m u p)) in *.
  assert (Hstart : sg_fhlog g Tend body None (sg_th0 g 0 m u p) [] bwt).
  { exists None, (sg_th0 g 0 m u p), flat, (sg_fnext flat). split; [left; split; reflexivity|]. split; [exact Fok|]. split; [rewrite Fnp; discriminate|].
    split; [unfold sg_lrun, flat; rewrite (sg_block_lrun fps _ Hfo), Efs; reflexivity|]. split; [reflexivity|]. split; [apply sg_fnext_ne|].
    split; [apply (sg_fwire_split body)|exact Hfit]. }
  destruct (sg_all_chunks cb g Hcb Hsp m u p Wl Hl0 bwt (sg_fhlog g Tend body) (sg_bfin g m u p fs body) (sg_bext g m u p fs body) Hstart
              (sg_bext_finish g m u p fs body)
              (sg_bext_step cb g Hcb Hsp m u p fs body Wl Wc Hco Hcl bwt (sg_fhlog g Tend body))
              (sg_fcall_hdrs cb g Hcb m u p bwt body Tend _ _ (sg_btail cb g Hcb Hsp m u p fs body Wl Wc Hco Hcl bwt (sg_fhlog g Tend body)))
              chunks Hall Hc') as (fl & T).
  exists (sg_after_hdr (length body) (sg_t0 g m u p fs fl)). split; [exact T|].
  unfold sg_tbody. cbn [wq_method wq_uri wq_protocol wq_fields]. rewrite !sg_mask_after_hdr. f_equal.
  unfold sg_t0. destruct fl; [apply sg_mask_hdr_end_flag|reflexivity].
Qed.

(* two foldings and two segmentations of the same request with the same body: the same observation *)
Theorem sg_request_body_chunking_obs : forall cb g r (body : bytes) (cuts1 : list (list bytes)) (chunks1 : list bytes) (cuts2 : list (list bytes)) (chunks2 : list bytes),
  wr_all_ok cb -> g_allow_space_uri g = false -> sg_body_ok g r body = true ->
  sg_cuts_ok r cuts1 = true -> sg_fold_fits g r cuts1 = true -> Forall (fun x => x <> []) chunks1 -> concat chunks1 = sg_fold_wire r cuts1 ++ body ->
  sg_cuts_ok r cuts2 = true -> sg_fold_fits g r cuts2 = true -> Forall (fun x => x <> []) chunks2 -> concat chunks2 = sg_fold_wire r cuts2 ++ body ->
  sg_obs cb g (OpOpen :: map OpReqData chunks1) = sg_obs cb g (OpOpen :: map OpReqData chunks2).
Proof.
  intros cb g r body cuts1 chunks1 cuts2 chunks2 Hcb Hsp Wr C1 F1 A1 E1 C2 F2 A2 E2.
  destruct (sg_request_body_chunking cb g r cuts1 body chunks1 Hcb Hsp Wr C1 F1 A1 E1) as (t1 & T1 & M1).
  destruct (sg_request_body_chunking cb g r cuts2 body chunks2 Hcb Hsp Wr C2 F2 A2 E2) as (t2 & T2 & M2).
  unfold sg_obs. rewrite T1, T2. cbn [map option_map]. rewrite M1, M2. reflexivity.
Qed.

(* ================= non-vacuity and the vm_compute harness ================= *)
(* POST /1 HTTP/1.1 | Host: a | Content-Length: 3 | | abc *)
Definition sg_ex_breq : wr_request :=
  mk_wr_request [80;79;83;84]%N [47;49]%N wr_http11
    [mk_wr_field [72;111;115;116]%N [SP] [97]%N []; mk_wr_field wr_str_content_length [SP] [51]%N []].
Definition sg_ex_body : bytes := [97;98;99]%N.
Definition sg_ex_bwire : bytes := sg_fold_wire sg_ex_breq (sg_cuts_whole sg_ex_breq) ++ sg_ex_body.
Example sg_ex_body_premises :
  sg_body_ok (sg_ex_cfg 18000) sg_ex_breq sg_ex_body = true /\ sg_cuts_ok sg_ex_breq (sg_cuts_whole sg_ex_breq) = true /\
  sg_fold_fits (sg_ex_cfg 18000) sg_ex_breq (sg_cuts_whole sg_ex_breq) = true /\ length sg_ex_bwire = 51%nat.
Proof. split; [vm_compute; reflexivity|]. split; [vm_compute; reflexivity|]. split; vm_compute; reflexivity. Qed.
(* every single cut, every double cut and the byte-by-byte delivery report the same transaction; the body was counted *)
Example sg_ex_body_cuts :
  map (sg_run (sg_ex_cfg 18000)) (sg_cuts1 sg_ex_bwire) = repeat (sg_run (sg_ex_cfg 18000) [sg_ex_bwire]) 50 /\
  sg_run (sg_ex_cfg 18000) (sg_bytewise sg_ex_bwire) = sg_run (sg_ex_cfg 18000) [sg_ex_bwire] /\
  map (option_map (fun t => (t_request_progress t, t_request_entity_len t, t_request_message_len t))) (sg_run (sg_ex_cfg 18000) [sg_ex_bwire])
    = [Some (c_HTP_REQUEST_COMPLETE, 3%Z, 3%Z)] /\
  sg_run (sg_ex_cfg 18000) [sg_ex_bwire] = [Some (sg_mask (sg_tbody (sg_ex_cfg 18000) sg_ex_breq 3))].
Proof. split; [vm_compute; reflexivity|]. split; [vm_compute; reflexivity|]. split; vm_compute; reflexivity. Qed.
Example sg_ex_body_double_cuts :
  map (sg_run (sg_ex_cfg 18000)) (sg_cuts2 sg_ex_bwire) = repeat (sg_run (sg_ex_cfg 18000) [sg_ex_bwire]) 1225.
Proof. vm_compute. reflexivity. Qed.
(* Content-Length: 0 *)
Definition sg_ex_breq0 : wr_request :=
  mk_wr_request [80;79;83;84]%N [47;49]%N wr_http11 [mk_wr_field wr_str_content_length [SP] [48]%N []].
Example sg_ex_body_empty :
  sg_body_ok (sg_ex_cfg 18000) sg_ex_breq0 [] = true /\
  let w := sg_fold_wire sg_ex_breq0 (sg_cuts_whole sg_ex_breq0) in
  map (sg_run (sg_ex_cfg 18000)) (sg_cuts1 w) = repeat (sg_run (sg_ex_cfg 18000) [w]) 38 /\
  sg_run (sg_ex_cfg 18000) [w] = [Some (sg_mask (sg_tbody (sg_ex_cfg 18000) sg_ex_breq0 0))].
Proof. split; [vm_compute; reflexivity|]. split; vm_compute; reflexivity. Qed.

(* ================= THEOREMS FOR RE-EXPORT (Properties_C03.v), Stage 4 (identity body) =================
   sg_request_body_chunking      exists t, txs = [Some t] /\ sg_mask t = sg_mask (sg_tbody g r (length body))
   sg_request_body_chunking_obs  two foldings / segmentations of the same request and body: sg_obs equal
   premises: wr_all_ok cb, g_allow_space_uri g = false, sg_body_ok g r body = true, sg_cuts_ok r cuts = true,
             sg_fold_fits g r cuts = true, Forall (fun x => x <> []) chunks, concat chunks = sg_fold_wire r cuts ++ body *)
Print Assumptions sg_request_body_chunking.
Print Assumptions sg_request_body_chunking_obs.
