(* C03, response direction: the framing premise on the level of the grammar.  The transaction a grammar request leaves behind has
   an empty response-header table (request processing never touches it), and the framing decision at the end of the response
   header block reads only the request method number, the response headers and the status number: it can be evaluated on a
   canonical transaction (sr_canon) instead of the one the request left (PSegResThm.sr_treq). *)
Require Import Htp.Model.Base Htp.Model.MBstr Htp.Model.MUri Htp.Model.MPath Htp.Model.MUrlenc Htp.Model.MConnTypes Htp.Model.MTxCommon.
Require Import Htp.Model.MReqLine Htp.Model.MReqUri Htp.Model.MTxReq Htp.Model.MResLine Htp.Model.MTxRes.
Require Import Htp.Model.MReq Htp.Model.MRes Htp.Model.MConnp.
Require Import Htp.Spec.SWire Htp.Proof.PWire Htp.Proof.PWireHdr Htp.Proof.PWireBlock Htp.Proof.PWireConn Htp.Proof.PWireExch.
Require Import Htp.Proof.PWireRun Htp.Proof.PWirePres Htp.Proof.PWireGlue Htp.Proof.PSeg Htp.Proof.PSegLine Htp.Proof.PSegHdr Htp.Proof.PSegGen Htp.Proof.PSegRun.
Require Import Htp.Proof.PSegFold Htp.Proof.PSegRes Htp.Proof.PSegResLine Htp.Proof.PSegResHdr Htp.Proof.PSegResGen Htp.Proof.PSegResRun Htp.Proof.PSegResReq Htp.Proof.PSegResThm.

(* ---- request processing keeps the response-header table ---- *)
Definition sr_rsp (t : tx) := (t_response_headers t, t_res_header_repetitions t).

Lemma rsp_urldecode g s t : sr_rsp (snd (rq_urldecode_uri g s t)) = sr_rsp t.
Proof. unfold rq_urldecode_uri. destruct (ud_urldecode_from _ _ _ _) as [[o fl] st]. reflexivity. Qed.
Lemma rsp_urldecode_opt g s t : sr_rsp (snd (rq_urldecode_uri_opt g s t)) = sr_rsp t.
Proof.
  unfold rq_urldecode_uri_opt. destruct s as [s|]; [|reflexivity].
  pose proof (rsp_urldecode g s t) as H. destruct (rq_urldecode_uri g s t) as [o t']. exact H.
Qed.
Lemma rsp_normalize_path g p t : sr_rsp (snd (rq_normalize_path g p t)) = sr_rsp t.
Proof.
  unfold rq_normalize_path. destruct (pth_decode_path_st _ _ _) as [p1 st1].
  destruct (if d_bestfit (g_dec_url_path g) then _ else _) as [p2 st2]. reflexivity.
Qed.
Lemma rsp_normalize_parsed_uri g raw t : sr_rsp (snd (htp_normalize_parsed_uri g raw t)) = sr_rsp t.
Proof.
  unfold htp_normalize_parsed_uri.
  pose proof (rsp_urldecode_opt g (u_user raw) t) as H1. destruct (rq_urldecode_uri_opt g (u_user raw) t) as [user t1]. cbn [snd] in H1.
  pose proof (rsp_urldecode_opt g (u_pass raw) t1) as H2. destruct (rq_urldecode_uri_opt g (u_pass raw) t1) as [pass t2]. cbn [snd] in H2.
  pose proof (rsp_urldecode_opt g (u_host raw) t2) as H3. destruct (rq_urldecode_uri_opt g (u_host raw) t2) as [host t3]. cbn [snd] in H3.
  destruct (uri_norm_port_opt (u_port raw)) as [pn inv].
  set (t4 := if inv then t3 <| t_flags ::= (fun f => flag_set f c_HTP_HOSTU_INVALID) |> else t3).
  assert (H4 : sr_rsp t4 = sr_rsp t3) by (unfold t4; destruct inv; reflexivity).
  assert (H5 : sr_rsp (snd (match u_path raw with
                            | None => (None, t4)
                            | Some p => let '(o, t) := rq_normalize_path g p t4 in (Some o, t)
                            end)) = sr_rsp t4).
  { destruct (u_path raw) as [p|]; [|reflexivity]. pose proof (rsp_normalize_path g p t4) as H. destruct (rq_normalize_path g p t4). exact H. }
  destruct (match u_path raw with None => (None, t4) | Some p => let '(o, t) := rq_normalize_path g p t4 in (Some o, t) end) as [path t5]. cbn [snd] in H5.
  pose proof (rsp_urldecode_opt g (u_frag raw) t5) as H6. destruct (rq_urldecode_uri_opt g (u_frag raw) t5) as [frag t6]. cbn [snd] in H6 |- *.
  congruence.
Qed.
Lemma rsp_uri_pipeline g is_connect u t t' : rq_uri_pipeline_opt g is_connect (Some u) t = Some t' -> sr_rsp t' = sr_rsp t.
Proof.
  unfold rq_uri_pipeline_opt.
  assert (Hr : exists raw t0, (if is_connect then rq_parse_uri_hostport (t_parsed_uri_raw t) (Some u) t
                               else Some (rq_parse_uri_into (t_parsed_uri_raw t) (Some u), t)) = Some (raw, t0) /\ sr_rsp t0 = sr_rsp t).
  { destruct is_connect.
    - unfold rq_parse_uri_hostport. destruct (parse_hostport u) as [[[hn port] pn] invalid].
      eexists _, _. split; [reflexivity|]. destruct (match hn with Some h => invalid || negb (htp_validate_hostname h) | None => invalid end); reflexivity.
    - eexists _, _. split; reflexivity. }
  destruct Hr as (raw & t0 & Er & K0). rewrite Er.
  set (t1 := t0 <| t_parsed_uri_raw := raw |>).
  assert (Hn : exists nu t2, (match t_parsed_uri t1 with Some nu => (nu, t1) | None => htp_normalize_parsed_uri g raw t1 end) = (nu, t2) /\ sr_rsp t2 = sr_rsp t1).
  { destruct (t_parsed_uri t1) as [nu|].
    - eexists _, _. split; reflexivity.
    - pose proof (rsp_normalize_parsed_uri g raw t1) as H. destruct (htp_normalize_parsed_uri g raw t1) as [nu t2]. eexists _, _. split; [reflexivity|exact H]. }
  destruct Hn as (nu & t2 & En & K2). rewrite En. intros E. inversion E. subst t'.
  assert (K : sr_rsp t2 = sr_rsp t) by (rewrite K2; exact K0).
  destruct (u_host nu) as [h|]; [destruct (htp_validate_hostname h)|]; exact K.
Qed.
Lemma rsp_parse_request_line g t : sr_rsp (htp_parse_request_line g t) = sr_rsp t.
Proof.
  unfold htp_parse_request_line. cbv zeta.
  repeat match goal with
  | |- context [if ?b then _ else _] => destruct b
  | |- context [match ?x with Some _ => _ | None => _ end] => destruct x
  end; reflexivity.
Qed.
Lemma rsp_tx_line g t line : sr_rsp (sg_tx_line g t line) = sr_rsp t.
Proof.
  unfold sg_tx_line. cbv zeta. set (t2 := htp_parse_request_line g (t <| t_request_line := Some line |>)).
  assert (K2 : sr_rsp t2 = sr_rsp t) by (unfold t2; rewrite rsp_parse_request_line; reflexivity).
  destruct (t_request_uri t2) as [u|] eqn:Eu.
  - destruct (rq_uri_pipeline_opt g _ (Some u) t2) as [t3|] eqn:E3; [rewrite (rsp_uri_pipeline g _ u t2 t3 E3)|]; exact K2.
  - destruct (rq_uri_pipeline_opt g _ None t2) as [t3|] eqn:E3; [|exact K2].
    unfold rq_uri_pipeline_opt in E3. destruct (_ =? c_HTP_M_CONNECT)%Z; [discriminate|].
    cbv zeta in E3. destruct (t_parsed_uri _) as [nu|] in E3.
    + inversion E3. destruct (u_host nu) as [h|]; [destruct (htp_validate_hostname h)|]; exact K2.
    + pose proof (rsp_normalize_parsed_uri g (rq_parse_uri_into (t_parsed_uri_raw t2) None) (t2 <| t_parsed_uri_raw := rq_parse_uri_into (t_parsed_uri_raw t2) None |>)) as H.
      destruct (htp_normalize_parsed_uri g _ _) as [nu t4]. cbn [snd] in H. inversion E3.
      destruct (u_host nu) as [h|]; [destruct (htp_validate_hostname h)|]; change (sr_rsp t4 = sr_rsp t); rewrite H; exact K2.
Qed.
Lemma rsp_process_request_header line t : sr_rsp (htp_process_request_header_generic line t) = sr_rsp t.
Proof.
  unfold htp_process_request_header_generic. destruct (htp_parse_request_header_generic line) as [h txfl].
  cbn [t_request_headers set]. destruct (rq_hdr_find (t_request_headers t) (h_name h)) as [i|]; [|reflexivity].
  destruct (flag_has _ _ && _); [reflexivity|].
  destruct (flag_has (h_flags (nth i (t_request_headers t) h)) c_HTP_FIELD_REPEATED); reflexivity.
Qed.
Lemma rsp_block : forall fs t, sr_rsp (wr_block_tx fs t) = sr_rsp t.
Proof.
  induction fs as [|f fs IH]; intros t; [reflexivity|].
  unfold wr_block_tx. cbn [map fold_left]. fold (wr_block_tx fs (htp_process_request_header_generic (wr_field_line f) t)).
  rewrite IH. apply rsp_process_request_header.
Qed.
Lemma rsp_te_cl t : sr_rsp (rq_te_cl t) = sr_rsp t.
Proof.
  unfold rq_te_cl, tx_set_flag.
  destruct (rq_hdr_get_c (t_request_headers t) rq_str_transfer_encoding) as [te|]; destruct (rq_hdr_get_c (t_request_headers t) rq_str_content_length_lc) as [cl|].
  - destruct (negb (htp_header_has_token (h_value te) rq_str_chunked)); [reflexivity|]. destruct (t_request_protocol_number t <? c_HTP_PROTOCOL_1_1)%Z; reflexivity.
  - destruct (negb (htp_header_has_token (h_value te) rq_str_chunked)); [reflexivity|]. destruct (t_request_protocol_number t <? c_HTP_PROTOCOL_1_1)%Z; reflexivity.
  - destruct (flag_has (h_flags cl) c_HTP_FIELD_FOLDED); destruct (flag_has (h_flags cl) c_HTP_FIELD_REPEATED);
      destruct (parse_content_length (h_value cl) <? 0)%Z; reflexivity.
  - reflexivity.
Qed.
Lemma rsp_host nu t : sr_rsp (rq_host nu t) = sr_rsp t.
Proof. unfold rq_host, tx_set_flag. wr_split_ifs; reflexivity. Qed.
Lemma rsp_content_type t : sr_rsp (rq_content_type t) = sr_rsp t.
Proof. unfold rq_content_type. destruct (rq_hdr_get_c _ _); reflexivity. Qed.
Lemma rsp_hdr_end t : sr_rsp (sg_hdr_end t) = sr_rsp t.
Proof.
  unfold sg_hdr_end. cbv zeta. rewrite rsp_content_type.
  destruct (t_parsed_uri (rq_te_cl t)) as [nu|]; [rewrite rsp_host|]; apply rsp_te_cl.
Qed.
(* the transaction of a grammar request (PSegRun.sg_tref) has no response header *)
Lemma rsp_set_progress t v : sr_rsp (t <| t_request_progress := v |>) = sr_rsp t. Proof. reflexivity. Qed.
Lemma rsp_tref g r : sr_rsp (sg_tref g r) = ([], 0%nat).
Proof.
  unfold sg_tref, sg_tfin. rewrite rsp_set_progress, rsp_hdr_end, rsp_block. unfold sg_th0. rewrite rsp_set_progress, rsp_tx_line. reflexivity.
Qed.

(* ---- what the framing decision reads ---- *)
Definition sr_sim (a b : tx) : Prop :=
  t_request_method_number a = t_request_method_number b /\ sr_rsp a = sr_rsp b /\
  t_response_status_number a = t_response_status_number b /\ t_response_protocol_number a = t_response_protocol_number b.

Lemma sim_th0 a b line : t_request_method_number a = t_request_method_number b -> sr_rsp a = sr_rsp b -> sr_sim (sr_th0 a line) (sr_th0 b line).
Proof.
  intros Hm Hr. unfold sr_rsp in Hr. injection Hr as Hh Hp.
  unfold sr_sim, sr_th0, sr_tx_line, sr_line_fix, rs_apply_response_line, sr_tx_start, sr_rsp.
  cbn [t_response_protocol_number t_response_status_number set].
  destruct (rsl_protocol_number (rs_parse_response_line line) =? c_HTP_PROTOCOL_INVALID)%Z;
    cbn [t_response_protocol_number t_response_status_number set];
    destruct (_ || _ || _); cbn; rewrite Hm, Hh, Hp; repeat split; reflexivity.
Qed.
Lemma sr_parse_header_fst line f1 f2 : fst (rs_parse_response_header line f1) = fst (rs_parse_response_header line f2).
Proof.
  unfold rs_parse_response_header. cbv zeta.
  repeat match goal with |- context [if ?b then _ else _] => destruct b end; reflexivity.
Qed.
Lemma sim_process line a b : sr_sim a b -> sr_sim (rs_process_response_header line a) (rs_process_response_header line b).
Proof.
  intros (Hm & Hr & Hs & Hp). unfold sr_rsp in Hr. injection Hr as Hh Hrep.
  unfold rs_process_response_header. pose proof (sr_parse_header_fst line (t_flags a) (t_flags b)) as Ef.
  destruct (rs_parse_response_header line (t_flags a)) as [h tfa]. destruct (rs_parse_response_header line (t_flags b)) as [h' tfb]. cbn [fst] in Ef. subst h'.
  cbn [t_response_headers set]. rewrite Hh.
  destruct (rs_hdr_find (t_response_headers b) (h_name h)) as [i|].
  - cbn [t_res_header_repetitions set]. rewrite Hrep. destruct (flag_has _ _ && _).
    + unfold sr_sim, sr_rsp. cbn. rewrite ?Hm, ?Hh, ?Hrep, ?Hs, ?Hp. repeat split; reflexivity.
    + destruct (flag_has (h_flags (nth i (t_response_headers b) h)) c_HTP_FIELD_REPEATED); unfold sr_sim, sr_rsp; cbn; rewrite ?Hm, ?Hh, ?Hrep, ?Hs, ?Hp; repeat split; reflexivity.
  - unfold sr_sim, sr_rsp. cbn. rewrite ?Hm, ?Hh, ?Hrep, ?Hs, ?Hp. repeat split; reflexivity.
Qed.
Lemma sim_flush hdr a b : sr_sim a b -> sr_sim (sr_flush hdr a) (sr_flush hdr b).
Proof. intros H. destruct hdr; [apply sim_process; exact H|exact H]. Qed.
Lemma sim_flag_fold a b : sr_sim a b -> sr_sim (sr_flag_fold a) (sr_flag_fold b).
Proof. intros H. exact H. Qed.
Lemma sim_lstep st1 st2 l : fst st1 = fst st2 -> sr_sim (snd st1) (snd st2) ->
  fst (sr_lstep st1 l) = fst (sr_lstep st2 l) /\ sr_sim (snd (sr_lstep st1 l)) (snd (sr_lstep st2 l)).
Proof.
  intros Ef Hs. assert (Ep : sr_p11 (snd st1) = sr_p11 (snd st2)) by (unfold sr_p11; destruct Hs as (_ & _ & _ & Hp); rewrite Hp; reflexivity).
  unfold sr_lstep. cbn [fst snd]. rewrite Ef, Ep. split; [reflexivity|].
  destruct (fst l); [apply sim_flush; exact Hs|]. destruct (fst st2) as [h|]; [|apply sim_flag_fold; exact Hs].
  destruct (sr_k2 _ h (snd l)); [apply sim_process; apply sim_flag_fold; exact Hs|exact Hs].
Qed.
Lemma sim_lrun : forall ls st1 st2, fst st1 = fst st2 -> sr_sim (snd st1) (snd st2) -> sr_sim (sr_lrun ls st1) (sr_lrun ls st2).
Proof.
  induction ls as [|l ls IH]; intros st1 st2 Ef Hs.
  - unfold sr_lrun. cbn [fold_left]. rewrite Ef. apply sim_flush. exact Hs.
  - rewrite !sr_lrun_cons. destruct (sim_lstep st1 st2 l Ef Hs) as [A B]. apply IH; assumption.
Qed.
Lemma sim_frame_ok a b n : sr_sim a b -> sr_frame_ok a n = sr_frame_ok b n.
Proof. intros (Hm & Hr & Hs & Hp). unfold sr_rsp in Hr. injection Hr as Hh Hrep. unfold sr_frame_ok. rewrite Hm, Hh, Hs. reflexivity. Qed.

(* ================= the framing premise on the grammar ================= *)
Definition sr_canon (rq : wr_request) : tx := (tx_new 0 0) <| t_request_method_number := htp_convert_method_to_number (wq_method rq) |>.
Definition sr_framed_g (rq : wr_request) (r : wr_response) (cuts : list (list bytes)) (body : bytes) : bool :=
  sr_frame_ok (sr_tend (sr_canon rq) r cuts) (length body).

Lemma sr_framed_canon cb g rq r cuts body : wr_all_ok cb -> g_allow_space_uri g = false -> wr_request_ok rq = true -> sg_fits g rq = true ->
  sr_framed cb g rq r cuts body = sr_framed_g rq r cuts body.
Proof.
  intros Hcb Hsp Wq Hf. unfold sr_framed, sr_framed_g. apply sim_frame_ok. unfold sr_tend. apply sim_lrun; [reflexivity|]. cbn [snd].
  destruct (sr_after_request cb g rq Hcb Hsp Wq) as (t0 & Hr & Rep).
  assert (Et : sr_treq cb g rq = t0) by (unfold sr_treq; rewrite (ry_txs _ _ Hr); reflexivity). rewrite Et.
  assert (Hne : wr_request_wire rq <> []).
  { unfold wr_request_wire, wr_ser_request. intro E. apply app_eq_nil in E. destruct E as [_ E]. apply app_eq_nil in E. destruct E as [E _]. discriminate. }
  destruct (sg_request_chunking cb g rq [wr_request_wire rq] Hcb Hsp Wq Hf) as (t & T & M).
  { constructor; [exact Hne|constructor]. }
  { cbn [concat]. apply app_nil_r. }
  cbn [map] in T. rewrite (ry_txs _ _ Hr) in T. inversion T. subst t.
  apply sim_th0.
  - destruct Rep as (_ & Hm & _). rewrite Hm. reflexivity.
  - change (sr_rsp t0) with (sr_rsp (sg_mask t0)). rewrite M. change (sr_rsp (sg_mask (sg_tref g rq))) with (sr_rsp (sg_tref g rq)). rewrite rsp_tref. reflexivity.
Qed.

(* C03, response direction, all premises on the grammar (the request has to fit the limits as for PSegRun.sg_request_chunking) *)
Theorem sr_response_chunking_grammar : forall cb g rq r (cuts : list (list bytes)) (body : bytes) (chunks : list bytes),
  wr_all_ok cb -> g_allow_space_uri g = false -> wr_request_ok rq = true -> sg_fits g rq = true ->
  sr_response_ok r = true -> sr_cuts_ok r cuts = true -> sr_framed_g rq r cuts body = true -> sr_fits g r cuts = true ->
  Forall (fun x => x <> []) chunks -> concat chunks = sr_wire r cuts body ->
  sr_f1_free body (negb (sr_is_nil (sr_lines r cuts))) chunks = true ->
  sg_obs cb g (OpOpen :: OpReqData (wr_request_wire rq) :: map OpResData chunks) =
  sg_obs cb g [OpOpen; OpReqData (wr_request_wire rq); OpResData (sr_wire r cuts body)].
Proof.
  intros cb g rq r cuts body chunks Hcb Hsp Wq Hfq Wr Wc Hfr Hfit Hall Hc Hf1.
  apply (sr_response_chunking_obs cb g rq r cuts body chunks Hcb Hsp Wq Wr Wc); try assumption.
  rewrite (sr_framed_canon cb g rq r cuts body Hcb Hsp Wq Hfq). exact Hfr.
Qed.
Print Assumptions sr_response_chunking_grammar.

(* non-vacuity: the grammar-level premises hold of the two examples of PSegResThm (request = PWireGlue.wr_ex_req) *)
Example sr_ex_grammar_premises :
  sg_fits (sg_ex_cfg 18000) wr_ex_req = true /\
  sr_framed_g wr_ex_req sr_ex1 (sr_cuts_whole sr_ex1) sr_ex1_body = true /\ sr_framed_g wr_ex_req sr_ex2 sr_ex2_cuts sr_ex2_body = true /\
  (* a response without Content-Length, or a body of another length, is not framed *)
  sr_framed_g wr_ex_req sr_ex1 (sr_cuts_whole sr_ex1) [97%N] = false /\
  sr_framed_g wr_ex_req (mk_wr_response wr_http11 [50;48;48]%N [79;75]%N []) [] [] = false.
Proof. split; [vm_compute; reflexivity|]. split; [vm_compute; reflexivity|]. split; [vm_compute; reflexivity|]. split; vm_compute; reflexivity. Qed.

(* ================= FINAL THEOREMS FOR RE-EXPORT (Properties_C03.v), response direction, Stages 1-4 =================
   PSegResThm.sr_response_chunking            c_txs of (OpOpen :: OpReqData request :: map OpResData chunks) = sr_final g (sr_after_hdr |body| (sr_tend (sr_treq cb g rq) r cuts))
   PSegResThm.sr_response_chunking_obs        sg_obs (chunked) = sg_obs [OpOpen; OpReqData request; OpResData (sr_wire r cuts body)]     (sg_obs / sg_mask = c03_obs / c03_mask)
   PSegResThm.sr_response_two_chunkings       two admissible chunkings of one response wire: equal c_txs
   PSegResThm.sr_response_chunking_unfolded   _obs for fields one line each, wire = wr_response_wire r ++ body
   sr_response_chunking_grammar               _obs with every premise on the grammar: sr_framed_g rq r cuts body instead of sr_framed cb g rq r cuts body,
                                              at the price of sg_fits g rq = true (the request fits the limits)
   premises (see the block at the end of PSegResThm.v): wr_all_ok cb, g_allow_space_uri g = false, wr_request_ok rq, sr_response_ok r, sr_cuts_ok r cuts,
             sr_framed / sr_framed_g, sr_fits g r cuts, Forall non-empty, concat chunks = sr_wire r cuts body, sr_f1_free body has_hdr chunks *)
Print Assumptions sr_response_chunking.
Print Assumptions sr_response_chunking_obs.
Print Assumptions sr_response_two_chunkings.
Print Assumptions sr_response_chunking_unfolded.
Print Assumptions sr_response_chunking_grammar.
