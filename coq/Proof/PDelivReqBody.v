(* C06, history level, request direction, Content-Length bodies: a grammar request announcing Content-Length |body|, followed by
   the body, header fields possibly folded, delivered in ANY non-empty chunking from a fresh connection: the REQUEST_BODY_DATA
   events of the whole run are data events with non-empty payloads that concatenate to exactly the body, in order, followed by
   exactly one end-of-body marker, nothing after it (dv_request_body_delivery).  Body passes: PBodyReq.bd_rq_identity_step
   (exact); end of the request: htp_tx_state_request_complete with its events. *)
Require Import Htp.Model.Base Htp.Model.MBstr Htp.Model.MConnTypes Htp.Model.MTxCommon Htp.Model.MReqLine Htp.Model.MReqUri Htp.Model.MTxReq.
Require Import Htp.Model.MReq Htp.Model.MRes Htp.Model.MConnp.
Require Import Htp.Spec.SWire Htp.Spec.SBody Htp.Proof.PWire Htp.Proof.PWireHdr Htp.Proof.PWireBlock Htp.Proof.PWireConn Htp.Proof.PWireExch.
Require Import Htp.Proof.PWireRun Htp.Proof.PWirePres Htp.Proof.PWireGlue Htp.Proof.PSeg Htp.Proof.PSegLine Htp.Proof.PSegHdr Htp.Proof.PSegGen Htp.Proof.PSegRun.
Require Import Htp.Proof.PSegFold Htp.Proof.PSegChunkedGen Htp.Proof.PBody Htp.Proof.PBodyReq Htp.Proof.PSegBody Htp.Proof.PSegChunked Htp.Proof.PDeliv Htp.Proof.PDelivReq.

(* ---- the data events delivered so far ---- *)
Definition dv_pieces (h i : nat) (L : list event) (b : bytes) : Prop :=
  exists ds, L = map (dv_data h i) ds /\ concat ds = b /\ Forall (fun d => d <> []) ds.
Lemma dv_pieces_nil h i : dv_pieces h i [] [].
Proof. exists []. split; [reflexivity|split; [reflexivity|constructor]]. Qed.
Lemma dv_pieces_snoc h i L b d : dv_pieces h i L b -> d <> [] -> dv_pieces h i (L ++ [dv_data h i d]) (b ++ d).
Proof.
  intros (ds & E & C & F) Hd. exists (ds ++ [d]). split; [rewrite map_app, E; reflexivity|]. split.
  - rewrite concat_app, C. cbn. rewrite app_nil_r. reflexivity.
  - apply Forall_app. split; [exact F|repeat constructor; exact Hd].
Qed.
Lemma dv_pieces_marker h i last L b : dv_pieces h i L b -> dv_delivered h i last b (L ++ [dv_marker h i last]).
Proof. intros (ds & E & C & F). exists ds. rewrite E. split; [reflexivity|split; assumption]. Qed.
Lemma dv_pieces_done h hc i last L b : dv_pieces h i L b -> dv_delivered_c h hc i last b (L ++ [dv_marker h i last; dv_done hc i]).
Proof. intros (ds & E & C & F). exists ds. rewrite E. split; [reflexivity|split; assumption]. Qed.

Lemma dv_firstn_add {A} (l : list A) a b : firstn (a + b) l = firstn a l ++ firstn b (skipn a l).
Proof.
  revert l. induction a as [|a IH]; intros l; [reflexivity|]. destruct l as [|x l]; [cbn; rewrite firstn_nil; reflexivity|].
  cbn [Nat.add firstn skipn app]. rewrite IH. reflexivity.
Qed.

Section BodyE.
Variable cb : cb_oracle.
Variable g : cfg.
Hypothesis Hcb : wr_all_ok cb.
Context {w : sg_world}.
Notation sg_cin := (sg_cinw w).

(* ---- one pass of REQ_BODY_IDENTITY: the event it appends ---- *)
Lemma dv_identity_pass c d rd t (left : nat) : sg_cin c d rd [] None REQ_BODY_IDENTITY (Some REQ_BODY_IDENTITY) None t ->
  t_hook_request_body t = 0%nat -> c_in_body_data_left c = Z.of_nat left -> (0 < left)%nat -> (length d - rd <= left)%nat ->
  forall c', (rq_iter cb g false c = inr c' \/ exists rc, rq_iter cb g false c = inl (c', rc)) ->
  dv_rb c' = match (length d - rd)%nat with
             | O => dv_rb c
             | S _ => dv_data H_REQUEST_BODY_DATA (length (w_done w)) (skipn rd d) :: dv_rb c
             end.
Proof.
  intros H Hh Hl Hpos Hle c' Hit. pose proof (sg_cin_slot _ _ _ _ _ _ _ _ _ H) as Hsl.
  pose proof (sg_bd_inv c d rd [] _ _ t H Hh) as Inv.
  assert (Lp : (0 < c_in_body_data_left c)%Z) by (rewrite Hl; lia).
  pose proof (bd_rq_identity_step cb (sg_cb_body_ok cb Hcb) _ t c Inv Hsl Lp) as Est. cbv zeta in Est.
  assert (Erest : bd_rq_rest c = skipn rd d) by (unfold bd_rq_rest; rewrite (ci_data _ _ _ _ _ _ _ _ _ H), (ci_read _ _ _ _ _ _ _ _ _ H); reflexivity).
  assert (Edd : firstn (Z.to_nat (c_in_body_data_left c)) (bd_rq_rest c) = skipn rd d).
  { rewrite Erest, Hl, Nat2Z.id. apply firstn_all2. rewrite skipn_length. exact Hle. }
  rewrite Edd in Est. rewrite skipn_length in Est.
  assert (Es : c_in_state c = REQ_BODY_IDENTITY) by apply (ci_state _ _ _ _ _ _ _ _ _ H).
  assert (Ef : rq_state_fn cb g (c_in_state c) c = REQ_BODY_IDENTITY_fn cb c) by (rewrite Es; reflexivity).
  assert (Rk : dv_rok c) by (eapply dv_cin_rok; [exact H|apply dv_neqN]).
  assert (Fin : forall r c1, rq_state_fn cb g (c_in_state c) c = (r, c1) -> dv_rok c1 -> dv_rb c' = dv_rb c1).
  { intros r c1 E1 R1. destruct Hit as [Ei|(rc & Ei)].
    - apply (dv_iter_after_inr cb g Hcb c r c1 c' E1 Ei R1).
    - apply (dv_iter_after_inl cb g Hcb c r c1 c' rc E1 Ei R1). }
  destruct (length d - rd)%nat as [|k'] eqn:Ek.
  - cbn [Nat.eqb] in Est. rewrite <- Ef in Est. apply (Fin _ _ Est Rk).
  - cbn [Nat.eqb] in Est. rewrite <- Ef in Est.
    destruct (c_in_body_data_left c - Z.of_nat (S k') =? 0)%Z; rewrite (Fin _ _ Est Rk); reflexivity.
Qed.

(* ---- htp_tx_state_request_complete on a request with a body: the end-of-body marker, then REQUEST_COMPLETE ---- *)
Lemma dv_request_complete_body c d rd p prev t : sg_cin c d rd p None REQ_FINALIZE prev None t ->
  tx_req_has_body t = true -> (t_request_progress t =? c_HTP_REQUEST_COMPLETE)%Z = false ->
  (t_response_progress t =? c_HTP_RESPONSE_COMPLETE)%Z = false -> t_is_protocol_0_9 t = false -> t_hook_request_body t = 0%nat ->
  exists c', rq_request_complete cb g c = (ST_OK, c') /\ sg_idl c' d rd p (w_done w ++ [Some (sg_tcomplete t)]) (w_flags w) prev /\
             dv_rb c' = dv_done H_REQUEST_COMPLETE (length (w_done w)) :: dv_marker H_REQUEST_BODY_DATA (length (w_done w)) true :: dv_rb c.
Proof.
  intros H Htc Hprog Hresp H09 Hh. pose proof (sg_cin_slot _ _ _ _ _ _ _ _ _ H) as Hsl. pose proof H as [A1 A2 A3 A4 A5 A6 A7 A8 A9 A10 A11 A12 A13 A14 A15 A16 A17].
  unfold rq_request_complete, rq_with_tx. rewrite A13.
  unfold tx_state_request_complete. rewrite Hsl, Hprog. cbn [negb].
  unfold tx_state_request_complete_partial, tx_get. rewrite Hsl, Htc.
  unfold tx_req_process_body_data_ex.
  rewrite (sg_tx_upd_at c d rd _ _ _ _ _ t _ H).
  set (t1 := t <| t_request_entity_len ::= Z.add (Z.of_nat 0) |>).
  set (c2 := sg_settx w t1 c).
  assert (H2 : sg_cin c2 d rd p None REQ_FINALIZE prev None t1) by (eapply sg_cin_txs; exact H).
  unfold req_run_hook_body_data. rewrite (ci_tx _ _ _ _ _ _ _ _ _ H2).
  unfold tx_get. rewrite (sg_cin_slot _ _ _ _ _ _ _ _ _ H2). change (t_hook_request_body t1) with (t_hook_request_body t). rewrite Hh. cbn [run_tx_hooks].
  unfold run_data_hook. rewrite (wr_run_hook_ex cb Hcb).
  match goal with |- context [tx_upd ?x _ ?f] => set (c3 := x) end.
  assert (H3 : sg_cin c3 d rd p None REQ_FINALIZE prev None t1) by (unfold c3; apply sg_cin_hook; exact H2).
  assert (V3 : dv_rb c3 = dv_marker H_REQUEST_BODY_DATA (length (w_done w)) true :: dv_rb c) by reflexivity.
  rewrite (sg_tx_upd_at c3 d rd _ _ _ _ _ t1 _ H3).
  rewrite (wr_run_hook cb Hcb). unfold req_receiver_finalize_clear.
  set (t' := t1 <| t_request_progress := c_HTP_REQUEST_COMPLETE |>).
  match goal with |- context [wr_hook_ev H_REQUEST_COMPLETE ?i None false ?x] => set (c4 := wr_hook_ev H_REQUEST_COMPLETE i None false x) end.
  assert (H4 : sg_cin c4 d rd p None REQ_FINALIZE prev None t') by (unfold c4; apply sg_cin_hook; eapply sg_cin_txs; exact H3).
  assert (V4 : dv_rb c4 = dv_done H_REQUEST_COMPLETE (length (w_done w)) :: dv_rb c3) by reflexivity.
  rewrite (ci_rh _ _ _ _ _ _ _ _ _ H4).
  rewrite (sg_cin_slot _ _ _ _ _ _ _ _ _ H4). change (t_is_protocol_0_9 t') with (t_is_protocol_0_9 t). rewrite H09.
  unfold tx_finalize.
  assert (H5 : sg_cin (c4 <| c_in_state := REQ_IDLE |>) d rd p None REQ_IDLE prev None t') by (eapply sg_cin_state; exact H4).
  rewrite (sg_cin_slot _ _ _ _ _ _ _ _ _ H5).
  unfold tx_is_complete. change (t_response_progress t') with (t_response_progress t). rewrite Hresp, andb_false_r. cbn [negb].
  eexists. split; [reflexivity|]. split.
  - apply sg_idl_of_cin. exact H5.
  - change (dv_rb c4 = dv_done H_REQUEST_COMPLETE (length (w_done w)) :: dv_marker H_REQUEST_BODY_DATA (length (w_done w)) true :: dv_rb c). rewrite V4, V3. reflexivity.
Qed.

Lemma dv_pass_finalize_body c d p t : sg_cin c d (length d) p None REQ_FINALIZE (Some REQ_FINALIZE) None t ->
  tx_req_has_body t = true -> (t_request_progress t =? c_HTP_REQUEST_COMPLETE)%Z = false ->
  (t_response_progress t =? c_HTP_RESPONSE_COMPLETE)%Z = false -> t_is_protocol_0_9 t = false -> t_hook_request_body t = 0%nat ->
  exists c', rq_iter cb g false c = inr c' /\ sg_idl c' d (length d) p (w_done w ++ [Some (sg_tcomplete t)]) (w_flags w) (Some REQ_IDLE) /\
             dv_rb c' = dv_done H_REQUEST_COMPLETE (length (w_done w)) :: dv_marker H_REQUEST_BODY_DATA (length (w_done w)) true :: dv_rb c.
Proof.
  intros H Htc Hprog Hresp H09 Hh. pose proof H as [A1 A2 A3 A4 A5 A6 A7 A8 A9 A10 A11 A12 A13 A14 A15 A16 A17].
  assert (Ef : rq_state_fn cb g (c_in_state c) c = rq_request_complete cb g (rq_set_in (fun k => k <| k_next_byte := None |>) c)).
  { rewrite A2. cbn [rq_state_fn]. unfold REQ_FINALIZE_fn, rq_finalize_scan. rewrite (sg_live_closed _ A1).
    unfold rq_peek_next, rq_at_end. rewrite A5, A6, Nat.leb_refl. reflexivity. }
  destruct (dv_request_complete_body _ d _ p _ t (sg_cin_next _ _ _ _ _ _ _ _ _ None H) Htc Hprog Hresp H09 Hh) as (c1 & E1 & H1 & V1).
  rewrite <- Ef in E1.
  destruct (sg_iter_idle cb g c c1 d _ p _ _ _ E1 H1) as (c' & E & H').
  exists c'. split; [exact E|]. split; [exact H'|].
  assert (R1 : dv_rok c1) by (unfold dv_rok; rewrite (il_rh _ _ _ _ _ _ _ H1); intros h' E'; discriminate E').
  rewrite (proj1 (dv_iter_after_inr cb g Hcb c _ c1 c' E1 E R1)). exact V1.
Qed.
End BodyE.

Section BodyRunE.
Variable cb : cb_oracle.
Variable g : cfg.
Hypothesis Hcb : wr_all_ok cb.
Hypothesis Hspace : g_allow_space_uri g = false.
Variables m u pr : bytes.
Variable fs : list wr_field.
Variable body : bytes.
Hypothesis Wl : wr_wf_request_line m u pr = true.
Hypothesis Wb : wr_block_ok fs = true.
Hypothesis Wc : wr_eqb m wr_str_connect = false.
Let tb := wr_block_tx fs (sg_th0 g 0 m u pr).
Let n := length body.
Hypothesis Hcod : t_request_transfer_coding (sg_hdr_end tb) = c_HTP_CODING_IDENTITY.
Hypothesis Hclen : t_request_content_length (sg_hdr_end tb) = Z.of_nat n.
Variable bwt : bytes.
Variable hlog : option bytes -> tx -> bytes -> bytes -> Prop.
Notation sg_cin := (sg_cinw sg_w0).
Notation sg_mid := (sg_midw sg_w0).
Notation RB := H_REQUEST_BODY_DATA.
Notation RC := H_REQUEST_COMPLETE.

(* at the end: the transaction of PSegBody, and the delivery *)
Definition dv_bfin (L : list event) (txs : list (option tx)) : Prop :=
  sg_bfin g m u pr fs body txs /\ dv_delivered_c RB RC 0 true body L.
(* between two calls while the body is read: k bytes delivered so far, in the data events L *)
Definition dv_bext (L : list event) (c : connp) (rw : bytes) : Prop :=
  exists fl k, (k < n)%nat /\ sg_mid c [] None REQ_BODY_IDENTITY None (sg_body_add' k (sg_tb1 g m u pr fs fl)) /\
               c_in_body_data_left c = Z.of_nat (n - k) /\ rw = skipn k body /\ dv_pieces RB 0 L (firstn k body).

Let post := dv_post m u pr bwt hlog dv_bfin dv_bext.

Lemma dv_body_run c d rd fl k (rw' : bytes) f L :
  sg_cin c d rd [] None REQ_BODY_IDENTITY (Some REQ_BODY_IDENTITY) None (sg_body_add' k (sg_tb1 g m u pr fs fl)) ->
  c_in_body_data_left c = Z.of_nat (n - k) -> (k < n)%nat -> skipn rd d ++ rw' = skipn k body ->
  dv_rb c = [] -> dv_pieces RB 0 L (firstn k body) ->
  exists cF rc, rq_loop cb g (3 + f) false c = (cF, rc) /\ post (L ++ rev (dv_rb cF)) cF rw'.
Proof.
  intros H Hl Hk Hw Hev HL. pose proof (ci_rd _ _ _ _ _ _ _ _ _ H) as Hrd.
  destruct (sg_t0_facts g Hspace m u pr fs body Wl Wc Hcod Hclen fl) as (Tc & _ & _ & _ & Rp & Z9 & Hk0).
  destruct (sg_body_add'_frame k (sg_tb1 g m u pr fs fl)) as (B1 & B2 & B3 & B4 & B5).
  assert (Hh : t_hook_request_body (sg_body_add' k (sg_tb1 g m u pr fs fl)) = 0%nat) by (rewrite B5; exact Hk0).
  assert (Lw : (length d - rd + length rw' = n - k)%nat).
  { assert (L0 : length (skipn rd d ++ rw') = length (skipn k body)) by (rewrite Hw; reflexivity). rewrite app_length, !skipn_length in L0. fold n in L0. exact L0. }
  pose proof (sg_body_pass cb g Hcb c d rd _ (n - k) H Hh Hl ltac:(lia) ltac:(lia)) as P. cbv zeta in P.
  pose proof (dv_identity_pass cb g Hcb c d rd _ (n - k) H Hh Hl ltac:(lia) ltac:(lia)) as V. cbn [w_done sg_w0 length] in V.
  destruct (length d - rd)%nat as [|j'] eqn:Ej.
  - (* nothing of the body in this chunk *)
    exists (c <| c_in_status := c_HTP_STREAM_DATA |>), c_HTP_STREAM_DATA. split; [change (3 + f)%nat with (S (2 + f)); apply sg_rq_loop_inl; exact P|].
    assert (Es : skipn rd d = []) by (apply length_zero_iff_nil; rewrite skipn_length; exact Ej). rewrite Es in Hw. cbn [app] in Hw.
    change (dv_rb (c <| c_in_status := c_HTP_STREAM_DATA |>)) with (dv_rb c). rewrite Hev. cbn [rev]. rewrite app_nil_r.
    left. split; [rewrite Hw; intro E; assert (L0 : length (skipn k body) = 0%nat) by (rewrite E; reflexivity); rewrite skipn_length in L0; fold n in L0; lia|].
    right. right. exists fl, k. split; [exact Hk|]. split; [apply (sg_mid_of_cin c d rd); exact H|]. split; [exact Hl|]. split; [exact Hw|exact HL].
  - set (j := S j') in *.
    assert (Erw : rw' = skipn (k + j) body).
    { rewrite <- bd_skipn_skipn, <- Hw, skipn_app. rewrite skipn_all2 by (rewrite skipn_length; lia).
      replace (j - length (skipn rd d))%nat with 0%nat by (rewrite skipn_length; lia). reflexivity. }
    assert (Epc : firstn (k + j) body = firstn k body ++ skipn rd d).
    { rewrite dv_firstn_add, <- Hw. rewrite firstn_app. replace (j - length (skipn rd d))%nat with 0%nat by (rewrite skipn_length; lia).
      cbn [firstn]. rewrite app_nil_r. rewrite (firstn_all2 (n := j) (skipn rd d)) by (rewrite skipn_length; lia). reflexivity. }
    assert (Hne : skipn rd d <> []) by (intro E0; assert (L0 : length (skipn rd d) = 0%nat) by (rewrite E0; reflexivity); rewrite skipn_length in L0; lia).
    pose proof (dv_pieces_snoc RB 0 L _ (skipn rd d) HL Hne) as HL'. rewrite <- Epc in HL'.
    destruct (j <? n - k)%nat eqn:Elt.
    + apply Nat.ltb_lt in Elt. destruct P as (c' & E & H' & L').
      rewrite (sg_body_add_fuse j k _ ltac:(lia)) in H'.
      pose proof (V _ (or_intror (ex_intro _ _ E))) as Ev. change (dv_rb (c' <| c_in_status := c_HTP_STREAM_DATA |>)) with (dv_rb c') in Ev. rewrite Hev in Ev.
      exists (c' <| c_in_status := c_HTP_STREAM_DATA |>), c_HTP_STREAM_DATA. split; [change (3 + f)%nat with (S (2 + f)); apply sg_rq_loop_inl; exact E|].
      change (dv_rb (c' <| c_in_status := c_HTP_STREAM_DATA |>)) with (dv_rb c'). rewrite Ev. cbn [rev app].
      left. split; [rewrite Erw; intro E0; assert (L0 : length (skipn (k + j) body) = 0%nat) by (rewrite E0; reflexivity); rewrite skipn_length in L0; fold n in L0; lia|].
      right. right. exists fl, (k + j)%nat. split; [lia|]. split; [apply (sg_mid_of_cin c' d (length d)); exact H'|].
      split; [cbn [c_in_body_data_left set]; rewrite L'; f_equal; lia|]. split; [exact Erw|exact HL'].
    + apply Nat.ltb_ge in Elt. assert (Ej2 : j = (n - k)%nat) by lia. destruct P as (c' & E & H').
      rewrite (sg_body_add_fuse j k _ ltac:(lia)) in H'. replace (k + j)%nat with n in H', Epc, HL' by lia.
      pose proof (V _ (or_introl E)) as Ev. rewrite Hev in Ev.
      change (3 + f)%nat with (S (S (S f))). rewrite (sg_rq_loop_inr cb g _ _ _ E).
      destruct (sg_body_add'_frame n (sg_tb1 g m u pr fs fl)) as (C1 & C2 & C3 & C4 & C5).
      destruct (dv_pass_finalize_body cb g Hcb c' d _ _ H') as (c6 & E6 & H6 & V6);
        [unfold tx_req_has_body; rewrite C1; change (t_request_transfer_coding (sg_tb1 g m u pr fs fl)) with (t_request_transfer_coding (sg_t0 g m u pr fs fl)); rewrite Tc; reflexivity|rewrite C2; reflexivity
        |rewrite C3; change (t_response_progress (sg_tb1 g m u pr fs fl)) with (t_response_progress (sg_t0 g m u pr fs fl)); rewrite Rp; reflexivity
        |rewrite C4; exact Z9|rewrite C5; exact Hk0|].
      rewrite (sg_rq_loop_inr cb g _ _ _ E6).
      rewrite (sg_rq_loop_inl cb g _ _ _ (sg_pass_idle_end cb g c6 d _ _ _ _ H6)).
      eexists _, _. split; [reflexivity|]. right.
      split; [assert (L0 : length rw' = 0%nat) by lia; destruct rw'; [reflexivity|discriminate]|].
      change (dv_rb (c6 <| c_in_status := c_HTP_STREAM_DATA |>)) with (dv_rb c6). rewrite V6, Ev. cbn [w_done sg_w0 length rev app]. split.
      * exists fl. change (c_txs (c6 <| c_in_status := c_HTP_STREAM_DATA |>)) with (c_txs c6). rewrite (il_txs _ _ _ _ _ _ _ H6). cbn [w_done sg_w0 app].
        unfold sg_after_hdr. fold n. destruct n as [|n0] eqn:En; [lia|]. reflexivity.
      * change (L ++ [dv_data RB 0 (skipn rd d); dv_marker RB 0 true; dv_done RC 0]) with (L ++ [dv_data RB 0 (skipn rd d)] ++ [dv_marker RB 0 true; dv_done RC 0]). rewrite app_assoc.
        apply dv_pieces_done. unfold n in HL'. rewrite firstn_all in HL'. exact HL'.
Qed.

(* ---- a later call that starts in REQ_BODY_IDENTITY ---- *)
Lemma dv_bext_step L c (rw x rw' : bytes) : dv_bext L c rw -> c_events c = [] -> x <> [] -> rw = x ++ rw' ->
  exists c' rc, connp_req_data cb g (Some x) (length x) c = (c', rc) /\ post (L ++ rev (dv_rb c')) c' rw'.
Proof.
  intros (fl & k & Hk & Hm & Hl & Erw & HL) Hev Hne Ex.
  destruct (dv_enter cb g _ c [] None _ _ _ x Hm Hne) as (c1 & E1 & H1 & V1 & Ec & _).
  unfold bytes in *. rewrite E1.
  destruct (sg_fuel_8 x) as (f & Ef). rewrite Ef. change (8 + f)%nat with (3 + (5 + f))%nat.
  apply (dv_body_run c1 x 0 fl k rw' _ L H1); [rewrite Ec; exact Hl|exact Hk|cbn [skipn]; rewrite <- Ex; exact Erw|unfold dv_rb; rewrite V1, Hev; reflexivity|exact HL].
Qed.
Lemma dv_bext_finish L c rw : dv_bext L c rw -> dv_bext L (forget_chunks c <| c_events := [] |>) rw.
Proof.
  intros (fl & k & Hk & Hm & Hl & Erw & HL). exists fl, k. split; [exact Hk|]. split; [apply sg_mid_finish; exact Hm|]. split; [exact Hl|]. split; [exact Erw|exact HL].
Qed.

(* ---- after the empty line: htp_tx_state_request_headers, REQ_CONNECT_CHECK, REQ_BODY_DETERMINE, then the body ---- *)
Lemma dv_btail c c1 d rd1 (rw' : bytes) F : c_in_state c = REQ_HEADERS ->
  rq_state_fn cb g REQ_HEADERS c = rq_with_tx (tx_state_request_headers cb) c1 ->
  sg_cin c1 d rd1 [] None REQ_HEADERS (Some REQ_HEADERS) (Some H_REQUEST_HEADER_DATA) tb -> skipn rd1 d ++ rw' = body ->
  dv_rb c = [] -> dv_rok c -> (sg_need d rd1 <= F)%nat ->
  exists cF rc, rq_loop cb g F false c = (cF, rc) /\ post (rev (dv_rb cF)) cF rw'.
Proof.
  intros Es Ef H1 Hw Hev Rk HF.
  assert (EF : exists f, F = (6 + f)%nat) by (exists (F - 6)%nat; unfold sg_need in HF; lia). destruct EF as (f & EF). subst F.
  destruct (sg_th0_facts g Hspace 0 m u pr Wl) as (_ & _ & _ & H3 & _ & (nu0 & H5)).
  pose proof (wr_keep_h_block fs (sg_th0 g 0 m u pr)) as K. fold tb in K. unfold wr_keep_h in K. destruct K as (_ & _ & _ & _ & _ & _ & K7 & _ & _ & K10).
  assert (Pg : t_request_progress tb = c_HTP_REQUEST_HEADERS) by (rewrite K7; exact H3).
  assert (Pu : t_parsed_uri tb = Some nu0) by (rewrite K10; exact H5).
  unfold rq_with_tx in Ef. rewrite (ci_tx _ _ _ _ _ _ _ _ _ H1) in Ef.
  destruct (sg_state_request_headers cb Hcb c1 d _ _ tb nu0 H1 Pg Pu) as (c2 & fl & E2 & H2). rewrite E2 in Ef.
  fold (sg_t0 g m u pr fs fl) in H2. destruct (sg_t0_facts g Hspace m u pr fs body Wl Wc Hcod Hclen fl) as (Tc & Cl & M & Pg0 & Rp & Z9 & Hk0).
  rewrite <- Es in Ef.
  assert (HB : tx_req_has_body (sg_t0 g m u pr fs fl) = true) by (unfold tx_req_has_body; rewrite Tc; reflexivity).
  assert (HP : (t_request_progress (sg_t0 g m u pr fs fl) =? c_HTP_REQUEST_COMPLETE)%Z = false) by (rewrite Pg0; reflexivity).
  assert (HR : (t_response_progress (sg_t0 g m u pr fs fl) =? c_HTP_RESPONSE_COMPLETE)%Z = false) by (rewrite Rp; reflexivity).
  destruct (sg_iter_ok cb g c c2 d _ _ _ _ _ _ _ Ef H2) as (c3 & E3 & H3'); [discriminate|].
  assert (Ev3 : dv_rb c3 = []).
  { rewrite <- Hev. apply (dv_fr_iter_inr cb g Hcb c c3); [rewrite Es; reflexivity|exact E3|exact Rk]. }
  change (6 + f)%nat with (S (S (S (3 + f)))). rewrite (sg_rq_loop_inr cb g _ _ _ E3).
  destruct (sg_pass_connect_check cb g c3 d _ _ _ _ _ H3' M) as (c4 & E4 & H4). rewrite (sg_rq_loop_inr cb g _ _ _ E4).
  pose proof (dv_cin_inr cb g Hcb c3 d _ _ _ _ _ _ _ c4 H3' eq_refl (dv_neqN) E4) as Ev4. rewrite Ev3 in Ev4.
  destruct (sg_pass_body_determine_id cb g c4 d _ _ n H4 Tc Cl) as (c5 & E5 & H5'). rewrite (sg_rq_loop_inr cb g _ _ _ E5).
  pose proof (dv_cin_inr cb g Hcb c4 d _ _ _ _ _ _ _ c5 H4 eq_refl (dv_neqN) E5) as Ev5. rewrite Ev4 in Ev5.
  destruct n as [|n0] eqn:En.
  - (* Content-Length: 0 *)
    assert (Eb : body = []) by (apply length_zero_iff_nil; exact En). rewrite Eb in Hw. apply app_eq_nil in Hw. destruct Hw as [Hs Hrw].
    assert (Erd : rd1 = length d) by (pose proof (sg_skipn_nil _ _ Hs); pose proof (ci_rd _ _ _ _ _ _ _ _ _ H1); lia). rewrite Erd in H5'.
    change (3 + f)%nat with (S (S (S f))).
    destruct (dv_pass_finalize_body cb g Hcb c5 d _ _ H5') as (c6 & E6 & H6 & V6);
      [exact HB|exact HP|exact HR|exact Z9|exact Hk0|].
    rewrite (sg_rq_loop_inr cb g _ _ _ E6).
    rewrite (sg_rq_loop_inl cb g _ _ _ (sg_pass_idle_end cb g c6 d _ _ _ _ H6)).
    eexists _, _. split; [reflexivity|]. right. split; [exact Hrw|].
    change (dv_rb (c6 <| c_in_status := c_HTP_STREAM_DATA |>)) with (dv_rb c6). rewrite V6, Ev5. cbn [w_done sg_w0 length rev app]. split.
    + exists fl. change (c_txs (c6 <| c_in_status := c_HTP_STREAM_DATA |>)) with (c_txs c6). rewrite (il_txs _ _ _ _ _ _ _ H6). fold n. rewrite En. reflexivity.
    + rewrite Eb. apply (dv_pieces_done RB RC 0 true [] []). apply dv_pieces_nil.
  - destruct H5' as [H5' L5]. rewrite <- En in *.
    apply (dv_body_run c5 d rd1 fl 0 rw' f [] H5'); [rewrite L5; f_equal; lia|lia|cbn [skipn]; exact Hw|exact Ev5|cbn [firstn]; apply dv_pieces_nil].
Qed.
End BodyRunE.

(* ================= the theorem on the wire grammar, with a Content-Length body ================= *)
Theorem dv_request_body_delivery_c : forall cb g r (cuts : list (list bytes)) (body : bytes) (chunks : list bytes),
  wr_all_ok cb -> g_allow_space_uri g = false -> sg_body_ok g r body = true -> sg_cuts_ok r cuts = true -> sg_fold_fits g r cuts = true ->
  Forall (fun x => x <> []) chunks -> concat chunks = sg_fold_wire r cuts ++ body ->
  dv_delivered_c H_REQUEST_BODY_DATA H_REQUEST_COMPLETE 0 true body (dv_selp dv_rq_hook (dv_log cb g (OpOpen :: map OpReqData chunks))).
Proof.
  intros cb g [m u p fs] cuts body chunks Hcb Hsp Wr Hcuts Hf Hall Hc.
  unfold sg_body_ok in Wr. cbn [wq_method wq_uri wq_protocol wq_fields] in Wr. cbv zeta in Wr.
  apply andb_prop in Wr. destruct Wr as [Wr Hcl]. apply andb_prop in Wr. destruct Wr as [Wr Hco]. apply andb_prop in Wr. destruct Wr as [Wr Wc].
  apply andb_prop in Wr. destruct Wr as [Wl Wb]. apply negb_true_iff in Wc. apply Z.eqb_eq in Hco. apply Z.eqb_eq in Hcl.
  unfold sg_cuts_ok in Hcuts. cbn [wq_fields] in Hcuts. apply andb_prop in Hcuts. destruct Hcuts as [Hlen Hfo]. apply Nat.eqb_eq in Hlen.
  unfold sg_fold_fits in Hf. cbn [wq_method wq_uri wq_protocol wq_fields] in Hf. apply andb_prop in Hf. destruct Hf as [Hl0 Hfit]. apply Nat.leb_le in Hl0.
  unfold sg_fold_wire in Hc. cbn [wq_method wq_uri wq_protocol wq_fields] in Hc.
  set (fps := combine fs cuts) in *. set (flat := sg_block_flat fps) in *.
  assert (Efs : map fst fps = fs) by (apply sg_map_fst_combine; exact Hlen).
  assert (Okf : forallb (fun fp => wr_field_ok (fst fp)) fps = true).
  { pose proof (sg_okf fs Wb) as O. rewrite <- Efs in O. rewrite forallb_forall in O. apply forallb_forall. intros fp Hin. apply O. apply in_map. exact Hin. }
  destruct (sg_block_flat_ok fps Okf Hfo) as (Fok & Fnp). fold flat in Fok, Fnp.
  set (bwt := sg_fwire flat ++ [CR; LF] ++ body).
  assert (Hc' : concat chunks = wr_ser_request_line m u p ++ [CR; LF] ++ bwt) by (rewrite Hc; unfold bwt; rewrite <- !app_assoc; reflexivity).
  set (Tend := wr_block_tx fs (sg_th0 g 0 m u p)) in *.
  assert (Hstart : sg_fhlog g Tend body None (sg_th0 g 0 m u p) [] bwt).
  { exists None, (sg_th0 g 0 m u p), flat, (sg_fnext flat). split; [left; split; reflexivity|]. split; [exact Fok|]. split; [rewrite Fnp; discriminate|].
    split; [unfold sg_lrun, flat; rewrite (sg_block_lrun fps _ Hfo), Efs; reflexivity|]. split; [reflexivity|]. split; [apply sg_fnext_ne|].
    split; [apply (sg_fwire_split body)|exact Hfit]. }
  pose proof (dv_all_chunks cb g Hcb Hsp m u p Wl Hl0 bwt (sg_fhlog g Tend body) (dv_bfin g m u p fs body) (dv_bext g m u p fs body) Hstart
              (dv_bext_finish g m u p fs body)
              (dv_bext_step cb g Hcb Hsp m u p fs body Wl Wc Hco Hcl bwt (sg_fhlog g Tend body))
              (dv_fcall_hdrs cb g Hcb m u p bwt body Tend _ _ (dv_btail cb g Hcb Hsp m u p fs body Wl Wc Hco Hcl bwt (sg_fhlog g Tend body)))
              chunks Hall Hc') as [_ D].
  exact D.
Qed.

(* the REQUEST_BODY_DATA events alone; the marker precedes the one REQUEST_COMPLETE event *)
Theorem dv_request_body_delivery : forall cb g r (cuts : list (list bytes)) (body : bytes) (chunks : list bytes),
  wr_all_ok cb -> g_allow_space_uri g = false -> sg_body_ok g r body = true -> sg_cuts_ok r cuts = true -> sg_fold_fits g r cuts = true ->
  Forall (fun x => x <> []) chunks -> concat chunks = sg_fold_wire r cuts ++ body ->
  let log := dv_log cb g (OpOpen :: map OpReqData chunks) in
  dv_delivered H_REQUEST_BODY_DATA 0 true body (dv_sel H_REQUEST_BODY_DATA log) /\
  dv_sel H_REQUEST_COMPLETE log = [dv_done H_REQUEST_COMPLETE 0] /\
  bd_marker_ok H_REQUEST_BODY_DATA H_REQUEST_COMPLETE (dv_selp dv_rq_hook log) false = true.
Proof.
  intros cb g r cuts body chunks Hcb Hsp Wr C1 F1 A1 E1 log.
  pose proof (dv_request_body_delivery_c cb g r cuts body chunks Hcb Hsp Wr C1 F1 A1 E1) as D. fold log in D.
  destruct (dv_delivered_c_sel H_REQUEST_BODY_DATA H_REQUEST_COMPLETE 0 true body _ ltac:(discriminate) D) as (D1 & D2 & D3).
  rewrite (dv_sel_selp dv_rq_hook H_REQUEST_BODY_DATA log eq_refl) in D1. rewrite (dv_sel_selp dv_rq_hook H_REQUEST_COMPLETE log eq_refl) in D2.
  split; [exact D1|]. split; [exact D2|exact D3].
Qed.

(* the length fields of the reported transaction (PSegBody.sg_request_body_chunking) in absolute terms *)
Require Import Htp.Proof.PSegChunkedThm.
Lemma dv_tbody_lens g r n : g_allow_space_uri g = false -> wr_wf_request_line (wq_method r) (wq_uri r) (wq_protocol r) = true ->
  t_request_entity_len (sg_tbody g r n) = Z.of_nat n /\ t_request_message_len (sg_tbody g r n) = Z.of_nat n /\
  t_request_progress (sg_tbody g r n) = c_HTP_REQUEST_COMPLETE.
Proof.
  intros Hsp W. destruct r as [m u p fs]. cbn [wq_method wq_uri wq_protocol wq_fields] in W. unfold sg_tbody. cbn [wq_method wq_uri wq_protocol wq_fields].
  set (t0 := sg_hdr_end (wr_block_tx fs (sg_th0 g 0 m u p))).
  assert (K0 : sg_lk t0 (sg_t1 0)).
  { unfold t0. eapply sg_lk_trans; [apply sg_lk_hdr_end|]. eapply sg_lk_trans; [apply sg_lk_block|]. unfold sg_th0.
    eapply sg_lk_trans; [|apply (sg_lk_tx_line g (sg_t1 0) m u p Hsp W)]. generalize (sg_tx_line g (sg_t1 0) (wr_ser_request_line m u p)). intros X. split; reflexivity. }
  destruct K0 as [K0e K0m]. change (t_request_entity_len (sg_t1 0)) with 0%Z in K0e. change (t_request_message_len (sg_t1 0)) with 0%Z in K0m.
  clearbody t0. unfold sg_after_hdr. destruct n as [|n0].
  - split; [|split; [|reflexivity]].
    + change (t_request_entity_len (sg_tcomplete t0)) with (Z.of_nat 0 + t_request_entity_len t0)%Z. rewrite K0e. reflexivity.
    + change (t_request_message_len (sg_tcomplete t0)) with (t_request_message_len t0). rewrite K0m. reflexivity.
  - cbn [sg_body_add']. split; [|split; [|reflexivity]].
    + change (t_request_entity_len _) with (Z.of_nat 0 + (Z.of_nat (S n0) + t_request_entity_len t0))%Z. rewrite K0e. lia.
    + change (t_request_message_len _) with (Z.of_nat (S n0) + t_request_message_len t0)%Z. rewrite K0m. lia.
Qed.

(* delivery and accounting together *)
Theorem dv_request_body_delivery_counted : forall cb g r (cuts : list (list bytes)) (body : bytes) (chunks : list bytes),
  wr_all_ok cb -> g_allow_space_uri g = false -> sg_body_ok g r body = true -> sg_cuts_ok r cuts = true -> sg_fold_fits g r cuts = true ->
  Forall (fun x => x <> []) chunks -> concat chunks = sg_fold_wire r cuts ++ body ->
  let run := cp_run cb g connp_new (OpOpen :: map OpReqData chunks) in
  (exists t, c_txs (fst run) = [Some t] /\ t_request_entity_len t = Z.of_nat (length body) /\ t_request_message_len t = Z.of_nat (length body) /\
             t_request_progress t = c_HTP_REQUEST_COMPLETE) /\
  dv_delivered H_REQUEST_BODY_DATA 0 true body (dv_sel H_REQUEST_BODY_DATA (concat (map r_events (snd run)))).
Proof.
  intros cb g r cuts body chunks Hcb Hsp Wr C1 F1 A1 E1. cbv zeta. split.
  - destruct (sg_request_body_chunking cb g r cuts body chunks Hcb Hsp Wr C1 F1 A1 E1) as (t & T & M). exists t. split; [exact T|].
    assert (Wl : wr_wf_request_line (wq_method r) (wq_uri r) (wq_protocol r) = true).
    { unfold sg_body_ok in Wr. cbv zeta in Wr. apply andb_prop in Wr. destruct Wr as [Wr _]. apply andb_prop in Wr. destruct Wr as [Wr _]. apply andb_prop in Wr. destruct Wr as [Wr _].
      apply andb_prop in Wr. apply Wr. }
    destruct (dv_tbody_lens g r (length body) Hsp Wl) as (L1 & L2 & L3).
    revert M L1 L2 L3. generalize (sg_tbody g r (length body)). intros X M L1 L2 L3.
    change (t_request_entity_len t) with (t_request_entity_len (sg_mask t)). change (t_request_message_len t) with (t_request_message_len (sg_mask t)).
    change (t_request_progress t) with (t_request_progress (sg_mask t)). rewrite M. exact (conj L1 (conj L2 L3)).
  - apply (dv_request_body_delivery cb g r cuts body chunks Hcb Hsp Wr C1 F1 A1 E1).
Qed.

(* ================= non-vacuity and the vm_compute harness the statement was tested with ================= *)
Require Coq.Strings.String.
Import Coq.Strings.String.StringSyntax.
Local Open Scope string_scope.
(* summary of a log: (concatenation of the data payloads of hook h, number of data events, number of NULL-data events,
   the last event of the hook is a NULL-data event) *)
Definition dv_sum (h : nat) (log : list event) : bytes * nat * nat * bool :=
  let s := dv_sel h log in
  (concat (map bd_ev_bytes s),
   length (filter (fun e => match ev_data e with Some _ => true | None => false end) s),
   length (filter (fun e => match ev_data e with Some _ => false | None => true end) s),
   match rev s with e :: _ => match ev_data e with None => true | Some _ => false end | [] => false end).
Definition dv_rq (g : cfg) (chunks : list bytes) := dv_sum H_REQUEST_BODY_DATA (dv_log sg_ex_ok g (OpOpen :: map OpReqData chunks)).
(* POST /1 HTTP/1.1 | Host: a | Content-Length: 7 | | ab CR LF GET *)
Definition dv_ex_req : wr_request :=
  mk_wr_request (bd_str "POST") (bd_str "/1") wr_http11
    [mk_wr_field (bd_str "Host") [SP] (bd_str "a") []; mk_wr_field wr_str_content_length [SP] (bd_str "7") []].
Definition dv_ex_body : bytes := bd_str "ab" ++ [CR; LF] ++ bd_str "GET".
Definition dv_ex_wire : bytes := wr_request_wire dv_ex_req ++ dv_ex_body.
Example dv_ex_premises :
  sg_body_ok (sg_ex_cfg 18000) dv_ex_req dv_ex_body = true /\ sg_cuts_ok dv_ex_req (sg_cuts_whole dv_ex_req) = true /\
  sg_fold_fits (sg_ex_cfg 18000) dv_ex_req (sg_cuts_whole dv_ex_req) = true /\
  sg_fold_wire dv_ex_req (sg_cuts_whole dv_ex_req) ++ dv_ex_body = dv_ex_wire /\ length dv_ex_wire = 55%nat.
Proof. repeat split; vm_compute; reflexivity. Qed.
(* whole, byte by byte, every single cut (a cut inside the body gives two data events), every double cut: exactly the body, one marker, at the end *)
Example dv_ex_cl_cuts :
  dv_rq (sg_ex_cfg 18000) [dv_ex_wire] = (dv_ex_body, 1%nat, 1%nat, true) /\
  dv_rq (sg_ex_cfg 18000) (sg_bytewise dv_ex_wire) = (dv_ex_body, 7%nat, 1%nat, true) /\
  map (dv_rq (sg_ex_cfg 18000)) (sg_cuts1 dv_ex_wire) = repeat (dv_ex_body, 1%nat, 1%nat, true) 48 ++ repeat (dv_ex_body, 2%nat, 1%nat, true) 6 /\
  forallb (fun ch => let '(b, k, mk, lst) := dv_rq (sg_ex_cfg 18000) ch in
                     (if list_eq_dec N.eq_dec b dv_ex_body then true else false) && Nat.leb 1 k && Nat.eqb mk 1 && lst) (sg_cuts2 dv_ex_wire) = true.
Proof. split; [vm_compute; reflexivity|]. split; [vm_compute; reflexivity|]. split; vm_compute; reflexivity. Qed.

(* ================= THEOREMS FOR RE-EXPORT (Properties_C06.v), request direction, Content-Length body =================
   dv_request_body_delivery_c        dv_delivered_c: the REQUEST_BODY_DATA and REQUEST_COMPLETE events of the whole run = data* ++ [marker; REQUEST_COMPLETE]
   dv_request_body_delivery          dv_delivered H_REQUEST_BODY_DATA 0 true body (REQUEST_BODY_DATA events of the whole run), one REQUEST_COMPLETE, marker before it
   dv_request_body_delivery_counted  + the final transaction list is [Some t] with request_entity_len = request_message_len = |body|, COMPLETE
   premises (those of PSegBody.sg_request_body_chunking): wr_all_ok cb, g_allow_space_uri g = false, sg_body_ok g r body = true,
     sg_cuts_ok r cuts = true, sg_fold_fits g r cuts = true, Forall (fun x => x <> []) chunks, concat chunks = sg_fold_wire r cuts ++ body *)
Print Assumptions dv_request_body_delivery_c.
Print Assumptions dv_request_body_delivery.
Print Assumptions dv_request_body_delivery_counted.
