(* C03, response direction: segmentation invariance on the wire grammar -- base layer.
   The response grammar at connection level (status line, header fields, empty line), the invariant between two passes of the
   for(;;) of htp_connp_res_data (sr_cin: status OPEN or DATA, a buffer and a pending header are allowed, the bytes of the
   current line seen so far are  out_buf ++ chunk[consume .. read) ), the state between two calls (sr_mid), and what the
   primitives do to them: peek / copy of one byte, htp_connp_res_buffer, htp_connp_res_consolidate_data, the HTP_DATA_BUFFER
   exit, htp_res_handle_state_change, one pass of the loop (sr_iter). *)
Require Import Htp.Model.Base Htp.Model.MBstr Htp.Model.MConnTypes Htp.Model.MTxCommon Htp.Model.MResLine Htp.Model.MTxRes.
Require Import Htp.Model.MReq Htp.Model.MRes Htp.Model.MConnp.
Require Import Htp.Spec.SWire Htp.Proof.PWire Htp.Proof.PWireHdr Htp.Proof.PWireBlock Htp.Proof.PWireConn Htp.Proof.PWireExch.
Require Import Htp.Proof.PWireRun Htp.Proof.PWirePres Htp.Proof.PWireGlue Htp.Proof.PSeg.

(* ---- a response of the wire grammar: status line, header fields (one line each), empty line; CR LF line ends ---- *)
Record wr_response := mk_wr_response { wp_protocol : bytes; wp_status : bytes; wp_reason : bytes; wp_fields : list wr_field }.
Definition wr_response_wire (r : wr_response) : bytes :=
  wr_ser_status_line (wp_protocol r) (wp_status r) (wp_reason r) ++ [CR; LF] ++ wr_block_wire (wp_fields r) ++ [CR; LF].

(* neither CR nor LF *)
Definition sr_plain (s : bytes) : bool := forallb wr_value_byte s.

(* ---- the invariants ---- *)
(* between two passes of the loop, transaction 0 being answered: p = the bytes of the current line seen so far *)
Record sr_cin (c : connp) (d : bytes) (rd : nat) (p : bytes) (hdr : option bytes) (st : res_state) (prev : option res_state)
              (rh : option nat) (t : tx) : Prop := mk_sr_cin {
  ri_status : sg_live (c_out_status c);
  ri_state : c_out_state c = st;
  ri_prev : c_out_state_previous c = prev;
  ri_data : k_data (c_out c) = Some d;
  ri_len : k_len (c_out c) = length d;
  ri_read : k_read (c_out c) = rd;
  ri_rd : (rd <= length d)%nat;
  ri_cons : (k_consume (c_out c) <= rd)%nat;
  ri_seen : sg_olist (k_buf (c_out c)) ++ firstn (rd - k_consume (c_out c)) (skipn (k_consume (c_out c)) d) = p;
  ri_hdr : k_header (c_out c) = hdr;
  ri_rh : k_receiver_hook (c_out c) = rh;
  ri_rcv : (k_receiver (c_out c) <= rd)%nat;
  ri_tx : c_out_tx c = Some 0%nat;
  ri_txs : c_txs c = [Some t];
  ri_shift : c_txs_shifted c = 0%nat;
  ri_intx : c_in_tx c = None;
  ri_other : c_out_data_other_at_tx_end c = false }.

(* between two calls of htp_connp_res_data *)
Record sr_mid (c : connp) (p : bytes) (hdr : option bytes) (st : res_state) (rh : option nat) (t : tx) : Prop := mk_sr_mid {
  rm_status : sg_live (c_out_status c);
  rm_state : c_out_state c = st;
  rm_prev : c_out_state_previous c = Some st;
  rm_buf : sg_olist (k_buf (c_out c)) = p;
  rm_hdr : k_header (c_out c) = hdr;
  rm_rh : k_receiver_hook (c_out c) = rh;
  rm_tx : c_out_tx c = Some 0%nat;
  rm_txs : c_txs c = [Some t];
  rm_shift : c_txs_shifted c = 0%nat;
  rm_intx : c_in_tx c = None;
  rm_other : c_out_data_other_at_tx_end c = false }.

Lemma sr_cin_slot c d rd p hdr st prev rh t : sr_cin c d rd p hdr st prev rh t -> tx_slot c 0 = Some t.
Proof. intros H. unfold tx_slot. rewrite (ri_shift _ _ _ _ _ _ _ _ _ H), (ri_txs _ _ _ _ _ _ _ _ _ H). reflexivity. Qed.

(* a parser that differs only outside the fields of the invariant *)
Lemma sr_cin_ext c c' d rd p hdr st prev rh t : sr_cin c d rd p hdr st prev rh t ->
  c_out_status c' = c_out_status c -> c_out_state c' = c_out_state c -> c_out_state_previous c' = c_out_state_previous c ->
  c_out c' = c_out c -> c_out_tx c' = c_out_tx c -> c_txs c' = c_txs c -> c_txs_shifted c' = c_txs_shifted c ->
  c_in_tx c' = c_in_tx c -> c_out_data_other_at_tx_end c' = c_out_data_other_at_tx_end c ->
  sr_cin c' d rd p hdr st prev rh t.
Proof.
  intros [A1 A2 A3 A4 A5 A6 A7 A8 A9 A10 A11 A12 A13 A14 A15 A16 A17] E1 E2 E3 E4 E5 E6 E7 E8 E9.
  constructor; rewrite ?E1, ?E2, ?E3, ?E4, ?E5, ?E6, ?E7, ?E8, ?E9; assumption.
Qed.
Lemma sr_cin_txs c d rd p hdr st prev rh t t' : sr_cin c d rd p hdr st prev rh t -> sr_cin (c <| c_txs := [Some t'] |>) d rd p hdr st prev rh t'.
Proof. intros [A1 A2 A3 A4 A5 A6 A7 A8 A9 A10 A11 A12 A13 A14 A15 A16 A17]. constructor; try assumption; reflexivity. Qed.
Lemma sr_cin_state c d rd p hdr st prev rh t st' : sr_cin c d rd p hdr st prev rh t -> sr_cin (rs_set_state st' c) d rd p hdr st' prev rh t.
Proof. intros [A1 A2 A3 A4 A5 A6 A7 A8 A9 A10 A11 A12 A13 A14 A15 A16 A17]. constructor; try assumption; reflexivity. Qed.
Lemma sr_cin_prev c d rd p hdr st prev rh t pv : sr_cin c d rd p hdr st prev rh t -> sr_cin (c <| c_out_state_previous := pv |>) d rd p hdr st pv rh t.
Proof. intros [A1 A2 A3 A4 A5 A6 A7 A8 A9 A10 A11 A12 A13 A14 A15 A16 A17]. constructor; try assumption; reflexivity. Qed.
Lemma sr_cin_header c d rd p hdr st prev rh t h : sr_cin c d rd p hdr st prev rh t ->
  sr_cin (rs_set_out (fun k => k <| k_header := h |>) c) d rd p h st prev rh t.
Proof. intros [A1 A2 A3 A4 A5 A6 A7 A8 A9 A10 A11 A12 A13 A14 A15 A16 A17]. constructor; try assumption; reflexivity. Qed.
Lemma sr_cin_next c d rd p hdr st prev rh t nb : sr_cin c d rd p hdr st prev rh t ->
  sr_cin (rs_set_out (fun k => k <| k_next_byte := nb |>) c) d rd p hdr st prev rh t.
Proof. intros [A1 A2 A3 A4 A5 A6 A7 A8 A9 A10 A11 A12 A13 A14 A15 A16 A17]. constructor; try assumption; reflexivity. Qed.
Lemma sr_cin_fault c d rd p hdr st prev rh t : sr_cin c d rd p hdr st prev rh t -> sr_cin (rs_fault c) d rd p hdr st prev rh t.
Proof. intros H. apply (sr_cin_ext c); try reflexivity. exact H. Qed.
(* htp_connp_res_clear_buffer *)
Lemma sr_cin_clear c d rd p hdr st prev rh t : sr_cin c d rd p hdr st prev rh t -> sr_cin (rs_clear_buffer c) d rd [] hdr st prev rh t.
Proof.
  intros [A1 A2 A3 A4 A5 A6 A7 A8 A9 A10 A11 A12 A13 A14 A15 A16 A17]. constructor; try assumption; try reflexivity.
  - cbn [rs_clear_buffer rs_set_out c_out set k_consume k_read]. cbn. rewrite A6. lia.
  - cbn [rs_clear_buffer rs_set_out c_out set k_consume k_read k_buf sg_olist]. cbn. rewrite A6, Nat.sub_diag. reflexivity.
Qed.
(* a callback that answered HTP_OK *)
Lemma sr_cin_hook c d rd p hdr st prev rh t h i data last : sr_cin c d rd p hdr st prev rh t -> sr_cin (wr_hook_ev h i data last c) d rd p hdr st prev rh t.
Proof. intros H. apply (sr_cin_ext c); try reflexivity. exact H. Qed.

(* one byte copied (OUT_COPY_BYTE) *)
Lemma sr_cin_adv c d rd p hdr st prev rh t b : sr_cin c d rd p hdr st prev rh t -> nth_error d rd = Some b ->
  sr_cin (rs_set_out (wr_kadv b) c) d (S rd) (p ++ [b]) hdr st prev rh t.
Proof.
  intros [A1 A2 A3 A4 A5 A6 A7 A8 A9 A10 A11 A12 A13 A14 A15 A16 A17] Hn.
  assert (L : (rd < length d)%nat) by (apply nth_error_Some; rewrite Hn; discriminate).
  constructor; try assumption; try reflexivity.
  - cbn. rewrite A6. reflexivity.
  - change (k_consume (c_out (rs_set_out (wr_kadv b) c))) with (k_consume (c_out c)). lia.
  - change (k_consume (c_out (rs_set_out (wr_kadv b) c))) with (k_consume (c_out c)). change (k_buf (c_out (rs_set_out (wr_kadv b) c))) with (k_buf (c_out c)).
    rewrite (sg_slice_S d _ rd b A8 Hn), app_assoc, A9. reflexivity.
  - change (k_receiver (c_out (rs_set_out (wr_kadv b) c))) with (k_receiver (c_out c)). lia.
Qed.

Lemma sr_peek c d : k_data (c_out c) = Some d -> k_len (c_out c) = length d ->
  rs_peek_next c = rs_set_out (fun k => k <| k_next_byte := nth_error d (k_read (c_out c)) |>) c.
Proof.
  intros Hd Hl. unfold rs_peek_next, rs_has_byte, rs_load_next, rs_cur_byte. rewrite Hd, Hl.
  destruct (k_read (c_out c) <? length d)%nat eqn:E.
  - apply Nat.ltb_lt in E. destruct (nth_error d (k_read (c_out c))) as [b|] eqn:N; [reflexivity|]. apply nth_error_None in N. lia.
  - apply Nat.ltb_ge in E. assert (N : nth_error d (k_read (c_out c)) = None) by (apply nth_error_None; exact E). rewrite N. reflexivity.
Qed.
Lemma sr_copy_byte c d b : k_data (c_out c) = Some d -> k_len (c_out c) = length d -> nth_error d (k_read (c_out c)) = Some b ->
  rs_copy_byte c = Some (rs_set_out (wr_kadv b) c).
Proof.
  intros Hd Hl Hn. unfold rs_copy_byte, rs_has_byte, rs_load_next, rs_cur_byte. rewrite Hd, Hl.
  assert (L : (k_read (c_out c) <? length d)%nat = true) by (apply Nat.ltb_lt; apply nth_error_Some; rewrite Hn; discriminate).
  rewrite L, Hn. reflexivity.
Qed.
Lemma sr_copy_none c (d : bytes) : k_len (c_out c) = length d -> k_read (c_out c) = length d -> rs_copy_byte c = None.
Proof. intros Hl Hr. unfold rs_copy_byte, rs_has_byte. rewrite Hl, Hr, Nat.ltb_irrefl. reflexivity. Qed.

Section Prim.
Variable cb : cb_oracle.
Variable g : cfg.
Hypothesis Hcb : wr_all_ok cb.

(* transaction updates through connp->out_tx *)
Lemma sr_tx_upd0 c d rd p hdr st prev rh t f : sr_cin c d rd p hdr st prev rh t -> tx_upd c 0 f = c <| c_txs := [Some (f t)] |>.
Proof.
  intros H. rewrite (wr_tx_upd_ok c 0 t f (sr_cin_slot _ _ _ _ _ _ _ _ _ H)).
  apply (wr_tx_put0 c t _ (ri_txs _ _ _ _ _ _ _ _ _ H) (ri_shift _ _ _ _ _ _ _ _ _ H)).
Qed.
Lemma sr_otx c d rd p hdr st prev rh t f : sr_cin c d rd p hdr st prev rh t -> rs_otx f c = c <| c_txs := [Some (f t)] |>.
Proof. intros H. unfold rs_otx. rewrite (ri_tx _ _ _ _ _ _ _ _ _ H). apply (sr_tx_upd0 c d rd p hdr st prev rh t f H). Qed.
Lemma sr_rs_tx c d rd p hdr st prev rh t : sr_cin c d rd p hdr st prev rh t -> rs_tx c = t.
Proof. intros H. unfold rs_tx, tx_get. rewrite (ri_tx _ _ _ _ _ _ _ _ _ H), (sr_cin_slot _ _ _ _ _ _ _ _ _ H). reflexivity. Qed.
Lemma sr_tx_get c d rd p hdr st prev rh t : sr_cin c d rd p hdr st prev rh t -> tx_get c 0 = t.
Proof. intros H. unfold tx_get. rewrite (sr_cin_slot _ _ _ _ _ _ _ _ _ H). reflexivity. Qed.

(* htp_connp_res_buffer: what is in the chunk between consume and read goes to out_buf; the seen bytes are now all there *)
Lemma sr_res_buffer c d rd p hdr st prev rh t : sr_cin c d rd p hdr st prev rh t ->
  (length p + length (sg_olist hdr) <= g_field_limit_hard g)%nat ->
  exists c', rs_res_buffer g c = (ST_OK, c') /\ sr_cin c' d rd p hdr st prev rh t /\ k_buf (c_out c') = Some p /\ k_consume (c_out c') = rd.
Proof.
  intros H Hlim. pose proof H as [A1 A2 A3 A4 A5 A6 A7 A8 A9 A10 A11 A12 A13 A14 A15 A16 A17].
  assert (E1 : (rd <? k_consume (c_out c))%nat = false) by (apply Nat.ltb_ge; lia).
  unfold rs_res_buffer. rewrite A4. cbv zeta. rewrite A6, E1, A13.
  unfold rs_sub. pose proof (sg_slice_length d _ rd A8 A7) as SL. rewrite SL, A10.
  assert (Lp : length p = (length (sg_olist (k_buf (c_out c))) + (rd - k_consume (c_out c)))%nat) by (rewrite <- A9, app_length, SL; reflexivity).
  assert (E3 : (g_field_limit_hard g <? match k_buf (c_out c) with Some b => length b | None => 0 end + (rd - k_consume (c_out c)) +
                                         match hdr with Some h => length h | None => 0 end)%nat = false).
  { apply Nat.ltb_ge. unfold sg_olist in *. destruct (k_buf (c_out c)), hdr; cbn [length] in *; lia. }
  rewrite E3.
  assert (B : match k_buf (c_out c) with Some b => b ++ firstn (rd - k_consume (c_out c)) (skipn (k_consume (c_out c)) d)
              | None => firstn (rd - k_consume (c_out c)) (skipn (k_consume (c_out c)) d) end = p).
  { rewrite <- A9. destruct (k_buf (c_out c)); reflexivity. }
  rewrite B. eexists. split; [reflexivity|]. split; [|split].
  - constructor; try assumption; try reflexivity.
    + cbn. rewrite A6. lia.
    + cbn [rs_set_out c_out set k_consume k_read k_buf sg_olist]. cbn. rewrite A6, Nat.sub_diag. cbn [firstn]. apply app_nil_r.
  - reflexivity.
  - cbn. exact A6.
Qed.

(* htp_connp_res_consolidate_data hands over exactly the seen bytes (as a non-NULL pointer) *)
Lemma sr_consolidate c d rd p hdr st prev rh t : sr_cin c d rd p hdr st prev rh t ->
  (length p + length (sg_olist hdr) <= g_field_limit_hard g)%nat ->
  exists c', rs_consolidate g c = (Some (Some p), c') /\ sr_cin c' d rd p hdr st prev rh t.
Proof.
  intros H Hlim. pose proof H as [A1 A2 A3 A4 A5 A6 A7 A8 A9 A10 A11 A12 A13 A14 A15 A16 A17].
  unfold rs_consolidate. destruct (k_buf (c_out c)) as [b|] eqn:Eb.
  - destruct (sr_res_buffer c d rd p hdr st prev rh t H Hlim) as (c' & E & H' & B & _). rewrite E.
    exists c'. split; [rewrite B; reflexivity|exact H'].
  - rewrite A4, A6. assert (E1 : (rd <? k_consume (c_out c))%nat = false) by (apply Nat.ltb_ge; lia). rewrite E1.
    exists c. split; [|exact H]. cbn [sg_olist app] in A9. unfold rs_sub. rewrite A9. reflexivity.
Qed.

(* htp_connp_res_receiver_send_data: the raw bytes go to the receiver hook, which answers HTP_OK *)
Lemma sr_send_data c d rd p hdr st prev rh t last : sr_cin c d rd p hdr st prev rh t ->
  exists c', res_receiver_send_data cb last c = (ST_OK, c') /\ sr_cin c' d rd p hdr st prev rh t /\ c_out_body_data_left c' = c_out_body_data_left c.
Proof.
  intros H. pose proof H as [A1 A2 A3 A4 A5 A6 A7 A8 A9 A10 A11 A12 A13 A14 A15 A16 A17].
  unfold res_receiver_send_data. rewrite A11. destruct rh as [h|]; [|exists c; split; [reflexivity|split; [exact H|reflexivity]]].
  assert (E1 : (k_read (c_out c) <? k_receiver (c_out c))%nat = false) by (apply Nat.ltb_ge; rewrite A6; exact A12).
  assert (E2 : (match cur_slice (c_out c) (k_receiver (c_out c)) (k_read (c_out c)) with Some s => length s | None => 0%nat end
                <? k_read (c_out c) - k_receiver (c_out c))%nat = false).
  { apply Nat.ltb_ge. unfold cur_slice. rewrite A4, A6, (sg_slice_length d _ rd A12 A7). lia. }
  cbv zeta. rewrite E1, E2, A4, A13.
  unfold run_data_hook. rewrite (wr_run_hook_ex cb Hcb). cbv iota.
  eexists. split; [reflexivity|]. split; [|reflexivity].
  match goal with |- sr_cin (rs_set_out _ ?x) _ _ _ _ _ _ _ _ => set (c1 := x) end.
  assert (H1 : sr_cin c1 d rd p hdr st prev (Some h) t) by (unfold c1; apply sr_cin_hook; exact H).
  clearbody c1. destruct H1 as [B1 B2 B3 B4 B5 B6 B7 B8 B9 B10 B11 B12 B13 B14 B15 B16 B17].
  constructor; try assumption; try reflexivity. cbn. rewrite B6. lia.
Qed.

(* the HTP_DATA_BUFFER exit of the loop *)
Lemma sr_exit_buffer c d p hdr st rh t : sr_cin c d (length d) p hdr st (Some st) rh t ->
  (length p + length (sg_olist hdr) <= g_field_limit_hard g)%nat ->
  exists c', rs_res_exit cb g ST_DATA_BUFFER c = (c', c_HTP_STREAM_DATA) /\ sr_mid c' p hdr st rh t.
Proof.
  intros H Hlim. unfold rs_res_exit.
  destruct (sr_send_data c d _ p hdr st _ rh t false H) as (c1 & E1 & H1 & _). rewrite E1. cbn [snd].
  destruct (sr_res_buffer c1 d _ p hdr st _ rh t H1 Hlim) as (c2 & E2 & H2 & B2 & _). rewrite E2.
  eexists. split; [reflexivity|].
  destruct H2 as [A1 A2 A3 A4 A5 A6 A7 A8 A9 A10 A11 A12 A13 A14 A15 A16 A17].
  constructor; try assumption; try reflexivity.
  - right. reflexivity.
  - cbn. rewrite B2. reflexivity.
Qed.

(* htp_res_handle_state_change, for a new state other than RES_HEADERS *)
Lemma sr_state_change c d rd p hdr st prev rh t : sr_cin c d rd p hdr st prev rh t -> st <> RES_HEADERS ->
  rs_handle_state_change cb c = (ST_OK, c <| c_out_state_previous := Some st |>) \/
  (rs_handle_state_change cb c = (ST_OK, c) /\ prev = Some st).
Proof.
  intros [A1 A2 A3 A4 A5 A6 A7 A8 A9 A10 A11 A12 A13 A14 A15 A16 A17] Hne.
  unfold rs_handle_state_change. rewrite A3, A2.
  destruct (match prev with Some s => res_state_eqb s st | None => false end) eqn:E.
  - right. split; [reflexivity|]. destruct prev as [s|]; [|discriminate]. destruct s, st; try discriminate; reflexivity.
  - left. assert (E2 : res_state_eqb st RES_HEADERS = false) by (destruct st; try reflexivity; contradiction). rewrite E2, A2. reflexivity.
Qed.

(* ---- one pass of the for(;;) of htp_connp_res_data (no gap) ---- *)
Definition sr_iter (c : connp) : (connp * Z) + connp :=
  let '(rc, c1) := rs_state_fn cb g (c_out_state c) c in
  match rc with
  | ST_OK =>
    if (c_out_status c1 =? c_HTP_STREAM_TUNNEL)%Z then inl (c1, c_HTP_STREAM_TUNNEL)
    else match rs_handle_state_change cb c1 with
         | (ST_OK, c2) => inr c2
         | (rc2, c2) => inl (rs_res_exit cb g rc2 c2)
         end
  | _ => inl (rs_res_exit cb g rc c1)
  end.
Lemma sr_loop_S f c : rs_res_loop cb g (S f) false c = match sr_iter c with inl r => r | inr c' => rs_res_loop cb g f false c' end.
Proof.
  cbn [rs_res_loop andb]. unfold sr_iter. destruct (rs_state_fn cb g (c_out_state c) c) as [rc c1].
  destruct rc; try reflexivity. destruct (c_out_status c1 =? c_HTP_STREAM_TUNNEL)%Z; [reflexivity|].
  destruct (rs_handle_state_change cb c1) as [rc2 c2]. destruct rc2; reflexivity.
Qed.
Lemma sr_loop_inr f c c' : sr_iter c = inr c' -> rs_res_loop cb g (S f) false c = rs_res_loop cb g f false c'.
Proof. intros H. rewrite sr_loop_S, H. reflexivity. Qed.
Lemma sr_loop_inl f c r : sr_iter c = inl r -> rs_res_loop cb g (S f) false c = r.
Proof. intros H. rewrite sr_loop_S, H. reflexivity. Qed.

(* a pass whose state function returned HTP_OK in a state other than RES_HEADERS goes round again *)
Lemma sr_iter_ok c c1 d rd p hdr st prev rh t :
  rs_state_fn cb g (c_out_state c) c = (ST_OK, c1) -> sr_cin c1 d rd p hdr st prev rh t -> st <> RES_HEADERS ->
  exists c', sr_iter c = inr c' /\ sr_cin c' d rd p hdr st (Some st) rh t.
Proof.
  intros E H Hne. unfold sr_iter. rewrite E. rewrite (sg_live_tunnel _ (ri_status _ _ _ _ _ _ _ _ _ H)).
  destruct (sr_state_change c1 d rd p hdr st prev rh t H Hne) as [E2|[E2 Ep]]; rewrite E2.
  - eexists. split; [reflexivity|]. eapply sr_cin_prev. exact H.
  - eexists. split; [reflexivity|]. rewrite <- Ep. exact H.
Qed.

(* entering htp_connp_res_data with a non-empty chunk *)
Lemma sr_enter c p hdr st rh t x : sr_mid c p hdr st rh t -> x <> [] ->
  exists c1, connp_res_data cb g (Some x) (length x) c = rs_res_loop cb g (rs_res_fuel (length x)) false c1 /\
             sr_cin c1 x 0 p hdr st (Some st) rh t.
Proof.
  intros [A1 A2 A3 A4 A5 A6 A7 A8 A9 A10 A11] Hne. unfold connp_res_data.
  rewrite (sg_live_stop _ A1), (sg_live_error _ A1), A7.
  assert (L0 : (length x =? 0)%nat = false) by (destruct x; [contradiction|reflexivity]). rewrite L0. cbn [andb].
  match goal with |- context [(c_out_status ?y =? c_HTP_STREAM_TUNNEL)%Z] => change (c_out_status y) with (c_out_status c) end.
  rewrite (sg_live_tunnel _ A1).
  eexists. split; [reflexivity|].
  constructor; try assumption; try reflexivity; cbn; try lia.
  rewrite app_nil_r; exact A4.
Qed.

(* the same, keeping track of out_body_data_left *)
Lemma sr_iter_ok_left c c1 d rd p hdr st prev rh t :
  rs_state_fn cb g (c_out_state c) c = (ST_OK, c1) -> sr_cin c1 d rd p hdr st prev rh t -> st <> RES_HEADERS ->
  exists c', sr_iter c = inr c' /\ sr_cin c' d rd p hdr st (Some st) rh t /\ c_out_body_data_left c' = c_out_body_data_left c1.
Proof.
  intros E H Hne. unfold sr_iter. rewrite E. rewrite (sg_live_tunnel _ (ri_status _ _ _ _ _ _ _ _ _ H)).
  destruct (sr_state_change c1 d rd p hdr st prev rh t H Hne) as [E2|[E2 Ep]]; rewrite E2.
  - eexists. split; [reflexivity|]. split; [eapply sr_cin_prev; exact H|reflexivity].
  - eexists. split; [reflexivity|]. split; [rewrite <- Ep; exact H|reflexivity].
Qed.
Lemma sr_enter_left c p hdr st rh t x : sr_mid c p hdr st rh t -> x <> [] ->
  exists c1, connp_res_data cb g (Some x) (length x) c = rs_res_loop cb g (rs_res_fuel (length x)) false c1 /\
             sr_cin c1 x 0 p hdr st (Some st) rh t /\ c_out_body_data_left c1 = c_out_body_data_left c.
Proof.
  intros [A1 A2 A3 A4 A5 A6 A7 A8 A9 A10 A11] Hne. unfold connp_res_data.
  rewrite (sg_live_stop _ A1), (sg_live_error _ A1), A7.
  assert (L0 : (length x =? 0)%nat = false) by (destruct x; [contradiction|reflexivity]). rewrite L0. cbn [andb].
  match goal with |- context [(c_out_status ?y =? c_HTP_STREAM_TUNNEL)%Z] => change (c_out_status y) with (c_out_status c) end.
  rewrite (sg_live_tunnel _ A1).
  eexists. split; [reflexivity|]. split; [|reflexivity].
  constructor; try assumption; try reflexivity; cbn; try lia.
  rewrite app_nil_r; exact A4.
Qed.
End Prim.
