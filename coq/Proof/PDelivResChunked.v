(* C06, history level, response direction, chunk-coded bodies: request in one chunk, then a grammar response announcing
   Transfer-Encoding: chunked followed by a chunk-coded body in the format of SBody (size line / data / line end, last-chunk
   line, trailer fields possibly folded, empty line), delivered in ANY non-empty chunking (outside the F1 hazard): the
   RESPONSE_BODY_DATA / RESPONSE_COMPLETE events of the response calls are data events with non-empty payloads that
   concatenate to exactly bd_chunks_data ks, in order, then ONE end-of-body marker (after the trailer block), then
   RESPONSE_COMPLETE (dv_response_chunked_delivery).  PSegResChRun.sr_cbody_run / sr_trailer_finish / sr_ctail restated. *)
Require Import Htp.Model.Base Htp.Model.MBstr Htp.Model.MConnTypes Htp.Model.MTxCommon Htp.Model.MResLine Htp.Model.MTxRes.
Require Import Htp.Model.MReq Htp.Model.MRes Htp.Model.MConnp.
Require Import Htp.Spec.SWire Htp.Spec.SBody Htp.Proof.PBody Htp.Proof.PWire Htp.Proof.PWireHdr Htp.Proof.PWireBlock Htp.Proof.PWireConn Htp.Proof.PWireExch.
Require Import Htp.Proof.PWireRun Htp.Proof.PWirePres Htp.Proof.PWireGlue Htp.Proof.PSeg Htp.Proof.PSegLine Htp.Proof.PSegHdr Htp.Proof.PSegGen Htp.Proof.PSegRun.
Require Import Htp.Proof.PSegFold Htp.Proof.PSegChunkedRun Htp.Proof.PSegRes Htp.Proof.PSegResLine Htp.Proof.PSegResHdr Htp.Proof.PSegResGen Htp.Proof.PSegResRun.
Require Import Htp.Proof.PSegResCh Htp.Proof.PSegResChGen Htp.Proof.PSegResChRun Htp.Proof.PSegResReq Htp.Proof.PSegResThm.
Require Import Htp.Proof.PDeliv Htp.Proof.PDelivReqBody Htp.Proof.PDelivReqChunked Htp.Proof.PDelivRes Htp.Proof.PDelivResBody Htp.Proof.PDelivResF.

(* the decoded bytes still to come, seen from a position inside the coded body *)
Definition dv_srem_data (r : sr_crem) : bytes :=
  match r with
  | RR_line _ _ data _ ks => data ++ bd_chunks_data ks
  | RR_data dd _ ks => dd ++ bd_chunks_data ks
  | RR_end _ ks => bd_chunks_data ks
  | RR_last _ _ => []
  end.
Lemma dv_scnext_data last ks : dv_srem_data (sr_cnext last ks) = bd_chunks_data ks.
Proof. destruct ks as [|k ks]; reflexivity. Qed.

Section CDataRE.
Variable cb : cb_oracle.
Variable g : cfg.
Hypothesis Hcb : wr_all_ok cb.
(* one pass of RES_BODY_CHUNKED_DATA: the event it appends *)
Lemma dv_scdata_events c d rd t (left : nat) : sr_cin c d rd [] None RES_BODY_CHUNKED_DATA (Some RES_BODY_CHUNKED_DATA) None t ->
  t_res_cep t = c_HTP_COMPRESSION_NONE -> c_out_chunked_length c = Z.of_nat left -> (0 < left)%nat ->
  let k := Nat.min left (length d - rd) in
  forall c', (sr_iter cb g c = inr c' \/ exists rc, sr_iter cb g c = inl (c', rc)) ->
  dv_sb c' = match k with O => dv_sb c | S _ => dv_data SB 0 (firstn k (skipn rd d)) :: dv_sb c end.
Proof.
  intros H Hcep Hl Hpos k c' Hit. pose proof H as [A1 A2 A3 A4 A5 A6 A7 A8 A9 A10 A11 A12 A13 A14 A15 A16 A17].
  assert (Ef : rs_state_fn cb g (c_out_state c) c = rs_RES_BODY_CHUNKED_DATA cb c) by (rewrite A2; reflexivity).
  assert (Ebtc : rs_bytes_to_consume c (c_out_chunked_length c) = k).
  { unfold rs_bytes_to_consume. rewrite A5, A6, Hl.
    assert (E1 : (Z.of_nat left <? 0)%Z = false) by (apply Z.ltb_ge; lia). rewrite E1.
    destruct (Z.of_nat left <=? Z.of_nat (length d - rd))%Z eqn:E2; [apply Z.leb_le in E2|apply Z.leb_gt in E2]; rewrite ?Nat2Z.id; unfold k; lia. }
  unfold rs_RES_BODY_CHUNKED_DATA in Ef. rewrite Ebtc in Ef.
  assert (Rk : dv_sok c) by (eapply dv_scin_sok; [exact H|apply dv_sneqN]).
  assert (Fin : forall r0 c1, rs_state_fn cb g (c_out_state c) c = (r0, c1) -> dv_sok c1 -> dv_sb c' = dv_sb c1).
  { intros r0 c1 E1 R1. destruct Hit as [Ei|(rc & Ei)].
    - apply (dv_siter_after_inr cb g Hcb c r0 c1 c' E1 Ei R1).
    - apply (dv_siter_after_inl cb g Hcb c r0 c1 c' rc E1 Ei R1). }
  destruct k as [|k'] eqn:Ek.
  - cbn [Nat.eqb] in Ef. apply (Fin _ _ Ef Rk).
  - cbn [Nat.eqb] in Ef. rewrite <- Ek in *.
    unfold rs_body_slice in Ef. rewrite A4, A6 in Ef.
    destruct (dv_sprocess_body cb Hcb c d rd [] None _ _ None t (Some (firstn k (skipn rd d))) k H Hcep ltac:(cbv beta iota; lia)) as (c1 & E1 & H1 & _ & V1).
    rewrite E1 in Ef.
    assert (R1 : forall x, k_receiver_hook (c_out x) = k_receiver_hook (c_out c1) -> dv_sok x).
    { intros x Ex. unfold dv_sok. rewrite Ex, (ri_rh _ _ _ _ _ _ _ _ _ H1). apply dv_sneqN. }
    match type of Ef with _ = (if ?b then _ else _) => destruct b end; rewrite (Fin _ _ Ef (R1 _ eq_refl)); exact V1.
Qed.
End CDataRE.

Section ChunkedRunRE.
Variable cb : cb_oracle.
Variable g : cfg.
Hypothesis Hcb : wr_all_ok cb.
Variables ps s r : bytes.
Variable ls : list sg_fl.
Variable ks0 : list bd_chunk.
Variable last : bytes.
Variable trl : list sg_fl.
Variable t0 : tx.
Hypothesis Hreq : t_request_progress t0 = c_HTP_REQUEST_COMPLETE.
Let hard := g_field_limit_hard g.
Let line0 := wr_ser_status_line ps s r.
Let th0 := sr_th0 t0 line0.
Let Tend := sr_lrun ls (None, th0).
Hypothesis Hframe : sr_frame_ch_ok Tend = true.
Hypothesis Hks : forallb (bd_chunk_ok bd_rs_line_value) ks0 = true.
Hypothesis Hlast : bd_last_ok bd_rs_line_value last = true.
Hypothesis Hfitb : bd_lines_fit hard ks0 last = true.
Hypothesis Oktr : forallb sg_fl_ok trl = true.
Hypothesis Hnptr : sg_needs_pending trl = false.
Hypothesis Hfittr : sr_ffit hard (sr_p11 th0) None trl = true.
Variable bwt : bytes.
Variable hlog : option bytes -> tx -> bytes -> bytes -> Prop.

Let TB := sr_hdrs_tx_ch Tend.
Let has_tr := negb (sr_is_nil trl).
Let tailw := sg_fwire trl ++ [CR; LF].
Let Etot := sg_cE ks0.
Let Mtot := (sg_cM ks0 + length last)%nat.
Let D := bd_chunks_data ks0.
Let ttr := sr_ttr ps s r ls ks0 last t0.
Let tcfin := sr_tcfin ps s r ls ks0 last trl t0.
Let crem_ok := sr_crem_ok g last.
Let crem_wire := sr_crem_wire last trl.
Let cnext := sr_cnext last.

Lemma y_last_facts : exists b, last = b ++ [LF] /\ sg_no_lf b = true /\ bd_rs_line_value last = 0%Z /\ (length last <= hard)%nat.
Proof. exact (sr_last_facts g ks0 last Hlast Hfitb). Qed.
Lemma y_ks0_ok : sr_ks_ok g ks0. Proof. exact (sr_ks0_ok g ks0 last Hks Hfitb). Qed.
Lemma y_cnext_ok ks : sr_ks_ok g ks -> crem_ok (cnext ks). Proof. exact (sr_cnext_ok g ks0 last Hlast Hfitb ks). Qed.
Lemma y_cnext_wire ks : crem_wire (cnext ks) = sr_crest last trl ks. Proof. exact (sr_cnext_wire last trl ks). Qed.
Lemma y_cnext_e ks : sr_crem_e (cnext ks) = sg_cE ks. Proof. exact (sr_cnext_e last ks). Qed.
Lemma y_cnext_m ks : sr_crem_m (length last) (cnext ks) = (sg_cM ks + length last)%nat. Proof. exact (sr_cnext_m g ks0 last ks). Qed.
Lemma y_cnext_st ks : sr_cst (cnext ks) = RES_BODY_CHUNKED_LENGTH /\ sr_cseen (cnext ks) = []. Proof. exact (sr_cnext_st last ks). Qed.
Lemma y_TB_facts : t_res_cep TB = c_HTP_COMPRESSION_NONE /\ t_response_transfer_coding TB = c_HTP_CODING_CHUNKED /\
  t_request_progress TB = c_HTP_REQUEST_COMPLETE /\ sr_p11 TB = sr_p11 th0.
Proof. exact (sr_TB_facts ps s r ls t0 Hreq). Qed.
Lemma y_tcfin_facts : t_res_cep tcfin = c_HTP_COMPRESSION_NONE /\ (t_response_transfer_coding tcfin =? c_HTP_CODING_NO_BODY)%Z = false /\
  (t_response_progress tcfin =? c_HTP_RESPONSE_COMPLETE)%Z = false /\ t_request_progress tcfin = c_HTP_REQUEST_COMPLETE.
Proof. exact (sr_tcfin_facts ps s r ls ks0 last trl t0 Hreq). Qed.
Lemma y_ttr_facts : t_response_progress ttr = c_HTP_RESPONSE_TRAILER /\ sr_p11 ttr = sr_p11 th0.
Proof. exact (sr_ttr_facts ps s r ls ks0 last t0 Hreq). Qed.

Definition dv_scfin (L : list event) (c : connp) : Prop :=
  sr_cfin g ps s r ls ks0 last trl t0 c /\ dv_delivered_k SB SC 0 1 D L.
Definition dv_scext (L : list event) (c : connp) (rw : bytes) : Prop :=
  (exists rr en mn, crem_ok rr /\
     sr_mid c (sr_cseen rr) None (sr_cst rr) None (sr_cbody (Z.of_nat en) (Z.of_nat mn) TB) /\ sr_cleft c rr /\
     (en + sr_crem_e rr = Etot)%nat /\ (mn + sr_crem_m (length last) rr = Mtot)%nat /\ rw = crem_wire rr /\
     skipn en D = dv_srem_data rr /\ dv_pieces SB 0 L (firstn en D)) \/
  (exists p hdr t, sr_mid c p hdr RES_HEADERS (Some H_RESPONSE_TRAILER_DATA) t /\
     sr_hlog_any g c_HTP_RESPONSE_TRAILER tcfin [] has_tr hdr t p rw /\ dv_pieces SB 0 L D).
Let post := dv_spostF ps s r t0 bwt hlog dv_scfin dv_scext.

(* ---- a call that is (or arrives) in the trailer block ---- *)
Lemma dv_strailer_finish c d rd p hdr t (rw' : bytes) F nn lf L0 :
  sr_cin c d rd p hdr RES_HEADERS (Some RES_HEADERS) (Some H_RESPONSE_TRAILER_DATA) t ->
  rs_state_fn cb g RES_HEADERS c = rs_headers_loop cb g nn lf c -> (3 <= F)%nat ->
  dv_pieces SB 0 (L0 ++ rev (dv_sb c)) D ->
  ((exists c' p' hdr' t', rs_headers_loop cb g nn lf c = (ST_DATA_BUFFER, c') /\
      sr_cin c' d (length d) p' hdr' RES_HEADERS (Some RES_HEADERS) (Some H_RESPONSE_TRAILER_DATA) t' /\
      sr_hlog_any g c_HTP_RESPONSE_TRAILER tcfin [] has_tr hdr' t' p' rw' /\ rw' <> []) \/
   (exists c' rd1, rs_headers_loop cb g nn lf c = (ST_OK, c') /\
      sr_cin c' d rd1 [] None RES_FINALIZE (Some RES_HEADERS) None tcfin /\ skipn rd1 d ++ rw' = [])) ->
  exists cF rc, rs_res_loop cb g F false c = (cF, rc) /\ post (L0 ++ rev (dv_sb cF)) cF rw'.
Proof.
  intros H0 Ef HF HL [HA|HB].
  all: assert (Es : c_out_state c = RES_HEADERS) by apply (ri_state _ _ _ _ _ _ _ _ _ H0).
  all: assert (Rk : dv_sok c) by (eapply dv_scin_sok; [exact H0|apply dv_sneq15]).
  - destruct HA as (c' & p' & hdr' & t' & EA & HA1 & HA2 & HA3).
    assert (Lim : (length p' + length (sg_olist hdr') <= g_field_limit_hard g)%nat).
    { destruct HA2 as (pe & te & re & q' & ea & Hr' & _ & _ & _ & _ & Hne & Hea & _ & Fit & _). pose proof (sr_ffit_next _ _ _ _ Fit) as L.
      pose proof (sr_rel_len _ _ _ _ _ Hr'). destruct ea.
      - destruct (Hea eq_refl) as (Er & Ep & _). subst re p'. cbn [sg_fnext length] in L |- *. lia.
      - destruct (Hne eq_refl) as (Epq & _). rewrite <- Epq, app_length in L. lia. }
    destruct (sr_exit_buffer cb g Hcb c' d p' hdr' _ _ t' HA1 Lim) as (cF & EF & HF').
    assert (Ei : sr_iter cb g c = inl (cF, c_HTP_STREAM_DATA)) by (unfold sr_iter; rewrite Es, Ef, EA, EF; reflexivity).
    destruct (dv_siter_quiet_inl cb g Hcb c cF _ ltac:(rewrite Es; reflexivity) Ei Rk) as [VF _].
    exists cF, c_HTP_STREAM_DATA. split.
    + destruct F as [|F1]; [lia|]. apply sr_loop_inl. exact Ei.
    + rewrite VF. left. split; [exact HA3|]. right. right. right. exists p', hdr', t'. split; [exact HF'|]. split; [exact HA2|exact HL].
  - destruct HB as (c' & rd1 & EB & HB1 & HB2). rewrite <- Ef in EB.
    apply app_eq_nil in HB2. destruct HB2 as [HB2 Erw].
    assert (Erd : rd1 = length d) by (pose proof (sg_skipn_nil _ _ HB2); pose proof (ri_rd _ _ _ _ _ _ _ _ _ HB1); lia). rewrite Erd in HB1.
    rewrite <- Es in EB.
    destruct (sr_iter_ok cb g c c' d _ _ _ _ _ _ _ EB HB1) as (c2 & E2 & H2); [discriminate|].
    destruct (dv_siter_quiet_inr cb g Hcb c c2 ltac:(rewrite Es; reflexivity) E2 Rk) as [V2 _].
    destruct F as [|F1]; [lia|]. destruct F1 as [|F2]; [lia|]. destruct F2 as [|F3]; [lia|].
    rewrite (sr_loop_inr cb g _ _ _ E2).
    destruct y_tcfin_facts as (A & B & C & D0).
    destruct (dv_spass_finalize cb g Hcb c2 d tcfin H2 A B C D0) as (c3 & E3 & Dn & V3). rewrite (sr_loop_inr cb g _ _ _ E3).
    destruct (dv_spass_idle_end cb g c3 _ Dn) as (c4 & E4 & T4 & V4). rewrite (sr_loop_inl cb g _ _ _ E4).
    eexists _, _. split; [reflexivity|]. right. split; [exact Erw|]. split; [exact T4|].
    rewrite V4, V3, V2. cbn [rev]. rewrite <- (app_assoc (rev (dv_sb c))). cbn [app]. rewrite app_assoc.
    apply (dv_pieces_done_k SB SC 0 1 _ D HL).
Qed.

Lemma dv_scall_trailer_start c d rd (rw' : bytes) F L0 :
  sr_cin c d rd [] None RES_HEADERS (Some RES_HEADERS) (Some H_RESPONSE_TRAILER_DATA) ttr -> skipn rd d ++ rw' = tailw -> (3 <= F)%nat ->
  dv_pieces SB 0 (L0 ++ rev (dv_sb c)) D ->
  exists cF rc, rs_res_loop cb g F false c = (cF, rc) /\ post (L0 ++ rev (dv_sb cF)) cF rw'.
Proof.
  intros H Hw HF HL. destruct y_ttr_facts as [Pg P11].
  assert (Ef : rs_state_fn cb g RES_HEADERS c = rs_headers_loop cb g (S (S (length d - rd))) false c).
  { cbn [rs_state_fn]. unfold rs_RES_HEADERS, rs_bytes_fuel. rewrite (ri_len _ _ _ _ _ _ _ _ _ H), (ri_read _ _ _ _ _ _ _ _ _ H). reflexivity. }
  apply (dv_strailer_finish c d rd [] None ttr rw' F _ false L0 H Ef HF HL).
  assert (Hw' : skipn rd d ++ rw' = sg_fnext trl ++ sg_fafter [] trl).
  { rewrite Hw. unfold tailw. rewrite <- (sg_fwire_split [] trl). rewrite app_nil_r. reflexivity. }
  apply (sr_hdrs_loop_any cb g (Some H_RESPONSE_TRAILER_DATA) c_HTP_RESPONSE_TRAILER RES_FINALIZE None (sr_hcont_term_trailer cb g Hcb)
           d rw' tcfin [] has_tr I trl c rd [] (sg_fnext trl) None ttr None ttr (S (S (length d - rd))) false false H).
  - left. split; reflexivity.
  - exact Oktr.
  - rewrite Hnptr. discriminate.
  - reflexivity.
  - exact Pg.
  - intros _. split; [reflexivity|apply sg_fnext_ne].
  - discriminate.
  - exact Hw'.
  - rewrite P11. exact Hfittr.
  - apply sr_is_nil_false.
  - discriminate.
  - right. reflexivity.
  - discriminate.
  - lia.
Qed.
Lemma dv_scall_trailer c d p hdr t (rw' : bytes) F L0 :
  sr_cin c d 0 p hdr RES_HEADERS (Some RES_HEADERS) (Some H_RESPONSE_TRAILER_DATA) t ->
  sr_hlog_any g c_HTP_RESPONSE_TRAILER tcfin [] has_tr hdr t p (d ++ rw') -> (3 <= F)%nat ->
  dv_pieces SB 0 (L0 ++ rev (dv_sb c)) D ->
  exists cF rc, rs_res_loop cb g F false c = (cF, rc) /\ post (L0 ++ rev (dv_sb cF)) cF rw'.
Proof.
  intros H (pend & tl & rem & q & eaten & Hrel & Ok & Hnp & Hrun & Hprog & Hne & Hea & Hw & Hfit' & Hhh) HF HL.
  assert (Ef : rs_state_fn cb g RES_HEADERS c = rs_headers_loop cb g (S (S (length d))) false c).
  { cbn [rs_state_fn]. unfold rs_RES_HEADERS, rs_bytes_fuel. rewrite (ri_len _ _ _ _ _ _ _ _ _ H), (ri_read _ _ _ _ _ _ _ _ _ H), Nat.sub_0_r. reflexivity. }
  apply (dv_strailer_finish c d 0 p hdr t rw' F _ false L0 H Ef HF HL).
  apply (sr_hdrs_loop_any cb g (Some H_RESPONSE_TRAILER_DATA) c_HTP_RESPONSE_TRAILER RES_FINALIZE None (sr_hcont_term_trailer cb g Hcb)
           d rw' tcfin [] has_tr I rem c 0 p q hdr t pend tl (S (S (length d))) false eaten H Hrel Ok Hnp Hrun Hprog Hne Hea Hw Hfit' Hhh);
    [discriminate|left; reflexivity|intros _; left; reflexivity|lia].
Qed.

(* ---- the rest of a call from a point inside the coded body ---- *)
Lemma dv_scbody_run : forall F c d rd rr en mn (rw' : bytes) L0,
  crem_ok rr ->
  sr_cin c d rd (sr_cseen rr) None (sr_cst rr) (Some (sr_cst rr)) None (sr_cbody (Z.of_nat en) (Z.of_nat mn) TB) ->
  sr_cleft c rr -> (en + sr_crem_e rr = Etot)%nat -> (mn + sr_crem_m (length last) rr = Mtot)%nat ->
  skipn rd d ++ rw' = crem_wire rr -> (length d - rd + 4 <= F)%nat ->
  skipn en D = dv_srem_data rr -> dv_pieces SB 0 (L0 ++ rev (dv_sb c)) (firstn en D) ->
  exists cF rc, rs_res_loop cb g F false c = (cF, rc) /\ post (L0 ++ rev (dv_sb cF)) cF rw'.
Proof.
  induction F as [|F IH]; intros c d rd rr en mn rw' L0 Hok H Hleft He Hm Hw HF HD HL; [lia|].
  pose proof (ri_rd _ _ _ _ _ _ _ _ _ H) as Hrd.
  assert (Es : c_out_state c = sr_cst rr) by apply (ri_state _ _ _ _ _ _ _ _ _ H).
  destruct y_TB_facts as (Tcep & _ & _ & _).
  unfold crem_ok, crem_wire in *.
  destruct rr as [p q data e ks|dd e ks|q ks|p q]; cbn [sr_cseen sr_cst sr_crem_ok sr_crem_wire sr_crem_e sr_crem_m sr_cleft dv_srem_data] in *.
  - (* in a size line *)
    destruct Hok as (Hq & Hck & Hlim & Hks').
    unfold bd_chunk_ok in Hck. cbn [bc_line bc_data bc_end] in Hck. apply andb_prop in Hck. destruct Hck as [Hck Hv]. apply andb_prop in Hck. destruct Hck as [Hck Hdne].
    apply andb_prop in Hck. destruct Hck as [Hl1 Hl2]. apply Z.eqb_eq in Hv. apply negb_true_iff in Hdne. apply Nat.eqb_neq in Hdne.
    destruct (sg_is_line_split _ Hl1) as (body & Eb & Nb).
    assert (Hsc : rs_probe_scan (p ++ q) = true) by (apply sr_value_scan; rewrite Hv; lia).
    destruct (sg_line_cut (skipn rd d) rw' p q body _ Eb Nb Hq Hw) as [(q2 & Eq & Hq2 & Erw & Nu)|(q1 & u2 & Eav & Eaft & Nq1 & Eq1)].
    + assert (Hsc' : rs_probe_scan ((p ++ skipn rd d) ++ q2) = true) by (rewrite <- app_assoc, <- Eq; exact Hsc).
      destruct (sr_clen_scan_nolf g d None _ _ None _ (skipn rd d) c rd p (S (S (length d - rd))) q2 H eq_refl Nu Hsc') as (c' & E & H'); [rewrite skipn_length; lia|].
      assert (Lim : (length (p ++ skipn rd d) + length (sg_olist None) <= g_field_limit_hard g)%nat).
      { rewrite Eq, !app_length in Hlim. rewrite app_length. cbn [sg_olist length]. unfold hard in Hlim. lia. }
      destruct (sr_exit_buffer cb g Hcb c' d _ None _ _ _ H' Lim) as (cF & EF & HF').
      assert (Ei : sr_iter cb g c = inl (cF, c_HTP_STREAM_DATA)).
      { unfold sr_iter. rewrite Es. cbn [rs_state_fn]. unfold rs_RES_BODY_CHUNKED_LENGTH, rs_bytes_fuel.
        rewrite (ri_len _ _ _ _ _ _ _ _ _ H), (ri_read _ _ _ _ _ _ _ _ _ H), E, EF. reflexivity. }
      pose proof (dv_scin_inl cb g Hcb c d _ _ _ _ _ _ _ cF _ H eq_refl dv_sneqN Ei) as Ev.
      exists cF, c_HTP_STREAM_DATA. split; [apply sr_loop_inl; exact Ei|]. rewrite Ev.
      left. split; [rewrite Erw; destruct q2; [contradiction|discriminate]|]. right. right. left.
      exists (RR_line (p ++ skipn rd d) q2 data e ks), en, mn. unfold crem_ok, crem_wire. cbn [sr_cseen sr_cst sr_crem_ok sr_crem_wire sr_crem_e sr_crem_m sr_cleft dv_srem_data].
      rewrite <- app_assoc, <- Eq. split; [split; [exact Hq2|]; split; [|split; [exact Hlim|exact Hks']]|].
      { unfold bd_chunk_ok. cbn [bc_line bc_data bc_end]. rewrite Hl1, Hl2, Hv, Z.eqb_refl. apply Nat.eqb_neq in Hdne. rewrite Hdne. reflexivity. }
      split; [exact HF'|]. split; [exact I|]. split; [exact He|]. split; [exact Hm|]. split; [exact Erw|]. split; [exact HD|exact HL].
    + assert (Hv' : (0 < bd_rs_line_value (p ++ q))%Z) by (rewrite Hv; lia).
      assert (Eline : p ++ q1 ++ [LF] = p ++ q) by (rewrite Eq1; reflexivity).
      destruct (sr_pass_cline cb g c d rd p q1 u2 _ (p ++ q) H Eav Nq1 Eline Hlim Hv') as (c1 & E1 & H1 & L1 & Hr1).
      pose proof (dv_scin_inr cb g Hcb c d _ _ _ _ _ _ _ c1 H eq_refl dv_sneqN E1) as Ev1.
      rewrite (sr_loop_inr cb g _ _ _ E1).
      rewrite sr_cbody_msg, <- Nat2Z.inj_add in H1.
      apply (IH c1 d (rd + length q1 + 1)%nat (RR_data data e ks) en (mn + length (p ++ q))%nat rw' L0); unfold crem_ok, crem_wire; cbn [sr_cseen sr_cst sr_crem_ok sr_crem_wire sr_crem_e sr_crem_m sr_cleft dv_srem_data].
      * split; [intro X; apply Hdne; rewrite X; reflexivity|split; [exact Hl2|exact Hks']].
      * exact H1.
      * rewrite L1. exact Hv.
      * exact He.
      * lia.
      * rewrite Hr1. exact Eaft.
      * assert (L : length (skipn rd d) = (length d - rd)%nat) by apply skipn_length. rewrite Eav, app_length in L. cbn [length] in L. lia.
      * exact HD.
      * rewrite Ev1. exact HL.
  - (* in the data of a chunk *)
    destruct Hok as (Hdd & Hl2 & Hks').
    assert (Lpos : (0 < length dd)%nat) by (destruct dd; [contradiction|cbn; lia]).
    assert (Lav : length (skipn rd d) = (length d - rd)%nat) by apply skipn_length.
    assert (Hcep : t_res_cep (sr_cbody (Z.of_nat en) (Z.of_nat mn) TB) = c_HTP_COMPRESSION_NONE) by exact Tcep.
    pose proof (sr_cdata_pass cb g Hcb c d rd _ (length dd) H Hcep Hleft Lpos) as P. cbv zeta in P.
    pose proof (dv_scdata_events cb g Hcb c d rd _ (length dd) H Hcep Hleft Lpos) as V. cbv zeta in V.
    destruct (sg_app_cases (skipn rd d) rw' dd _ Hw) as [Clt Cge].
    destruct (Nat.lt_ge_cases (length (skipn rd d)) (length dd)) as [Llt|Lge].
    + (* the chunk ends inside the data *)
      destruct (Clt Llt) as (dd2 & Edd & Hdd2 & Erw).
      assert (Ld : length dd = (length (skipn rd d) + length dd2)%nat) by (rewrite Edd at 1; apply app_length).
      rewrite Nat.min_r in P, V by lia.
      destruct (length d - rd)%nat as [|j'] eqn:Ej.
      * exists (rs_set_out_status c_HTP_STREAM_DATA c), c_HTP_STREAM_DATA. split; [apply sr_loop_inl; exact P|].
        change (dv_sb (rs_set_out_status c_HTP_STREAM_DATA c)) with (dv_sb c).
        assert (Es0 : skipn rd d = []) by (apply length_zero_iff_nil; exact Lav). rewrite Es0 in Edd. cbn [app] in Edd.
        left. split; [rewrite Erw; destruct dd2; [contradiction|discriminate]|]. right. right. left.
        exists (RR_data dd e ks), en, mn. unfold crem_ok, crem_wire. cbn [sr_cseen sr_cst sr_crem_ok sr_crem_wire sr_crem_e sr_crem_m sr_cleft dv_srem_data].
        split; [split; [exact Hdd|split; [exact Hl2|exact Hks']]|].
        assert (Erd : rd = length d) by lia. rewrite Erd in H.
        split; [apply (sr_exit_data cb g c d _ None _ _ H)|]. split; [exact Hleft|].
        split; [exact He|]. split; [exact Hm|]. split; [rewrite Erw, Edd; reflexivity|]. split; [exact HD|exact HL].
      * cbv iota in V. rewrite <- Ej in *. set (j := (length d - rd)%nat) in *.
        assert (Elt : (j <? length dd)%nat = true) by (apply Nat.ltb_lt; lia). rewrite Elt in P.
        destruct P as (c' & E & H' & L').
        pose proof (V _ (or_intror (ex_intro _ _ E))) as Ev. change (dv_sb (rs_set_out_status c_HTP_STREAM_DATA c')) with (dv_sb c') in Ev.
        assert (Efs : firstn j (skipn rd d) = skipn rd d) by (apply firstn_all2; lia). rewrite Efs in Ev.
        assert (Evv : dv_sb c' = dv_data SB 0 (skipn rd d) :: dv_sb c) by exact Ev.
        exists (rs_set_out_status c_HTP_STREAM_DATA c'), c_HTP_STREAM_DATA. split; [apply sr_loop_inl; exact E|].
        change (dv_sb (rs_set_out_status c_HTP_STREAM_DATA c')) with (dv_sb c'). rewrite Evv. cbn [rev]. rewrite app_assoc.
        rewrite sr_cbody_deliver, <- !Nat2Z.inj_add in H'.
        assert (HD2 : skipn en D = skipn rd d ++ (dd2 ++ bd_chunks_data ks)) by (rewrite HD, Edd, <- app_assoc; reflexivity).
        destruct (dv_adv D en _ _ HD2) as [A1 A2]. rewrite Lav in A1, A2. fold j in A1, A2.
        assert (Hne : skipn rd d <> []) by (intro E0; rewrite E0 in Lav; cbn in Lav; lia).
        left. split; [rewrite Erw; destruct dd2; [contradiction|discriminate]|]. right. right. left.
        exists (RR_data dd2 e ks), (en + j)%nat, (mn + j)%nat. unfold crem_ok, crem_wire. cbn [sr_cseen sr_cst sr_crem_ok sr_crem_wire sr_crem_e sr_crem_m sr_cleft dv_srem_data].
        split; [split; [exact Hdd2|split; [exact Hl2|exact Hks']]|].
        assert (Erd : (rd + j)%nat = length d) by (unfold j; lia). rewrite Erd in H'.
        split; [apply (sr_exit_data cb g c' d _ None _ _ H')|].
        split; [change (c_out_chunked_length (rs_set_out_status c_HTP_STREAM_DATA c')) with (c_out_chunked_length c'); rewrite L'; f_equal; lia|].
        split; [lia|]. split; [lia|]. split; [exact Erw|]. split; [exact A2|]. rewrite A1. apply dv_pieces_snoc; [exact HL|exact Hne].
    + (* the data of the chunk ends in this TCP chunk *)
      destruct (Cge Lge) as (u2 & Eav & Eaft).
      rewrite Nat.min_l in P, V by lia.
      destruct (length dd) as [|k'] eqn:Ek; [lia|]. cbv iota in V. rewrite <- Ek in *.
      rewrite Nat.ltb_irrefl in P. destruct P as (c1 & E1 & H1).
      pose proof (V _ (or_introl E1)) as Ev.
      assert (Efs : firstn (length dd) (skipn rd d) = dd) by (rewrite Eav, firstn_app, Nat.sub_diag, firstn_all; cbn [firstn]; apply app_nil_r). rewrite Efs in Ev.
      assert (Evv : dv_sb c1 = dv_data SB 0 dd :: dv_sb c) by exact Ev.
      rewrite (sr_loop_inr cb g _ _ _ E1).
      rewrite sr_cbody_deliver, <- !Nat2Z.inj_add in H1.
      destruct (dv_adv D en _ _ HD) as [A1 A2].
      apply (IH c1 d (rd + length dd)%nat (RR_end e ks) (en + length dd)%nat (mn + length dd)%nat rw' L0); unfold crem_ok, crem_wire; cbn [sr_cseen sr_cst sr_crem_ok sr_crem_wire sr_crem_e sr_crem_m sr_cleft dv_srem_data].
      * destruct (sg_is_line_split _ Hl2) as (b & Ee & _). split; [rewrite Ee; intro X; apply app_eq_nil in X; destruct X as [_ X]; discriminate|]. split; [exists []; exact Hl2|exact Hks'].
      * exact H1.
      * exact I.
      * lia.
      * lia.
      * assert (Es2 : skipn (rd + length dd) d = u2).
        { rewrite <- sr_skipn_skipn, Eav, skipn_app, Nat.sub_diag, skipn_all. reflexivity. }
        rewrite Es2. symmetry. exact Eaft.
      * rewrite Eav, app_length in Lav. lia.
      * exact A2.
      * rewrite Evv. cbn [rev]. rewrite app_assoc, A1. apply dv_pieces_snoc; [exact HL|exact Hdd].
  - (* in the line that ends the data *)
    destruct Hok as (Hq & (a & Hla) & Hks').
    destruct (sg_is_line_split _ Hla) as (body & Eb & Nb).
    destruct (sg_line_cut (skipn rd d) rw' a q body _ Eb Nb Hq Hw) as [(q2 & Eq & Hq2 & Erw & Nu)|(q1 & u2 & Eav & Eaft & Nq1 & Eq1)].
    + destruct (sr_pass_cend_partial cb g c d rd _ H Nu) as (c' & E & HX).
      pose proof (dv_scin_inl cb g Hcb c d _ _ _ _ _ _ _ _ _ H eq_refl dv_sneqN E) as Ev.
      rewrite sr_cbody_msg, <- Nat2Z.inj_add in HX.
      exists (rs_set_out_status c_HTP_STREAM_DATA c'), c_HTP_STREAM_DATA. split; [apply sr_loop_inl; exact E|]. rewrite Ev.
      left. split; [rewrite Erw; destruct q2; [contradiction|discriminate]|]. right. right. left.
      exists (RR_end q2 ks), en, (mn + (length d - rd))%nat. unfold crem_ok, crem_wire. cbn [sr_cseen sr_cst sr_crem_ok sr_crem_wire sr_crem_e sr_crem_m sr_cleft dv_srem_data].
      split; [split; [exact Hq2|split; [exists (a ++ skipn rd d); rewrite <- app_assoc, <- Eq; exact Hla|exact Hks']]|].
      split; [exact HX|]. split; [exact I|]. split; [exact He|]. split; [rewrite Eq, app_length, skipn_length in Hm; lia|]. split; [exact Erw|]. split; [exact HD|exact HL].
    + destruct (sr_pass_cend cb g c d rd q1 u2 _ H Eav Nq1) as (c1 & E1 & H1 & Hr1).
      pose proof (dv_scin_inr cb g Hcb c d _ _ _ _ _ _ _ c1 H eq_refl dv_sneqN E1) as Ev1.
      rewrite (sr_loop_inr cb g _ _ _ E1).
      rewrite sr_cbody_msg, <- Nat2Z.inj_add in H1.
      destruct (y_cnext_st ks) as [S1 S2].
      apply (IH c1 d (rd + length q1 + 1)%nat (cnext ks) en (mn + (length q1 + 1))%nat rw' L0).
      * apply y_cnext_ok. exact Hks'.
      * rewrite S1, S2. exact H1.
      * unfold cnext. destruct ks; exact I.
      * rewrite y_cnext_e. exact He.
      * rewrite y_cnext_m. rewrite Eq1, app_length in Hm. cbn [length] in Hm. lia.
      * rewrite y_cnext_wire, Hr1. exact Eaft.
      * assert (L : length (skipn rd d) = (length d - rd)%nat) by apply skipn_length. rewrite Eav, app_length in L. cbn [length] in L. lia.
      * unfold cnext. rewrite dv_scnext_data. exact HD.
      * rewrite Ev1. exact HL.
  - (* in the last-chunk line *)
    destruct Hok as (Hq & Epq). destruct y_last_facts as (body & Eb & Nb & Hv & Hlim). rewrite <- Epq in Eb, Hv, Hlim.
    assert (Hsc : rs_probe_scan (p ++ q) = true) by (apply sr_value_scan; rewrite Hv; lia).
    destruct (sg_line_cut (skipn rd d) rw' p q body _ Eb Nb Hq Hw) as [(q2 & Eq & Hq2 & Erw & Nu)|(q1 & u2 & Eav & Eaft & Nq1 & Eq1)].
    + assert (Hsc' : rs_probe_scan ((p ++ skipn rd d) ++ q2) = true) by (rewrite <- app_assoc, <- Eq; exact Hsc).
      destruct (sr_clen_scan_nolf g d None _ _ None _ (skipn rd d) c rd p (S (S (length d - rd))) q2 H eq_refl Nu Hsc') as (c' & E & H'); [rewrite skipn_length; lia|].
      assert (Lim : (length (p ++ skipn rd d) + length (sg_olist None) <= g_field_limit_hard g)%nat).
      { rewrite Eq, !app_length in Hlim. rewrite app_length. cbn [sg_olist length]. unfold hard in Hlim. lia. }
      destruct (sr_exit_buffer cb g Hcb c' d _ None _ _ _ H' Lim) as (cF & EF & HF').
      assert (Ei : sr_iter cb g c = inl (cF, c_HTP_STREAM_DATA)).
      { unfold sr_iter. rewrite Es. cbn [rs_state_fn]. unfold rs_RES_BODY_CHUNKED_LENGTH, rs_bytes_fuel.
        rewrite (ri_len _ _ _ _ _ _ _ _ _ H), (ri_read _ _ _ _ _ _ _ _ _ H), E, EF. reflexivity. }
      pose proof (dv_scin_inl cb g Hcb c d _ _ _ _ _ _ _ cF _ H eq_refl dv_sneqN Ei) as Ev.
      exists cF, c_HTP_STREAM_DATA. split; [apply sr_loop_inl; exact Ei|]. rewrite Ev.
      left. split; [rewrite Erw; destruct q2; [contradiction|discriminate]|]. right. right. left.
      exists (RR_last (p ++ skipn rd d) q2), en, mn. unfold crem_ok, crem_wire. cbn [sr_cseen sr_cst sr_crem_ok sr_crem_wire sr_crem_e sr_crem_m sr_cleft dv_srem_data].
      rewrite <- app_assoc, <- Eq. split; [split; [exact Hq2|exact Epq]|].
      split; [exact HF'|]. split; [exact I|]. split; [exact He|]. split; [exact Hm|]. split; [exact Erw|]. split; [exact HD|exact HL].
    + assert (Eline : p ++ q1 ++ [LF] = p ++ q) by (rewrite Eq1; reflexivity).
      destruct (sr_pass_clast cb g c d rd p q1 u2 _ (p ++ q) H Eav Nq1 Eline Hlim Hv) as (c1 & E1 & H1 & Hr1).
      pose proof (dv_scin_inr cb g Hcb c d _ _ _ _ _ _ _ c1 H eq_refl dv_sneqN E1) as Ev1.
      rewrite (sr_loop_inr cb g _ _ _ E1).
      rewrite sr_cbody_msg, <- Nat2Z.inj_add in H1.
      assert (Een : en = Etot) by lia. assert (Emn : (mn + length (p ++ q))%nat = Mtot) by lia. rewrite Een, Emn in H1.
      change ((sr_cbody (Z.of_nat Etot) (Z.of_nat Mtot) TB) <| t_response_progress := c_HTP_RESPONSE_TRAILER |>) with ttr in H1.
      apply (dv_scall_trailer_start c1 d (rd + length q1 + 1)%nat rw' F L0 H1); [rewrite Hr1; exact Eaft|lia|].
      rewrite Ev1. rewrite Een in HL. unfold Etot, sg_cE in HL. fold D in HL. rewrite firstn_all in HL. exact HL.
Qed.

(* ---- a later call that starts inside the coded body or the trailer block ---- *)
Lemma dv_scext_step (okc : bytes -> bytes -> Prop) L c (rw x rw' : bytes) : dv_scext L c rw -> c_events c = [] -> x <> [] -> rw = x ++ rw' -> okc x rw' ->
  exists c' rc, connp_res_data cb g (Some x) (length x) c = (c', rc) /\ post (L ++ rev (dv_sb c')) c' rw'.
Proof.
  intros [(rr & en & mn & Hok & Hm & Hleft & He & Hmm & Erw & HD & HL)|(p & hdr & t & Hm & Hl & HL)] Hev Hne Ex _.
  - destruct (dv_senter cb g c _ None _ _ _ x Hm Hne) as (c1 & E1 & H1 & V1 & _ & L1). unfold bytes in *. rewrite E1.
    assert (B1 : dv_sb c1 = []) by (unfold dv_sb; rewrite V1, Hev; reflexivity).
    apply (dv_scbody_run _ c1 x 0 rr en mn rw' L Hok H1); [destruct rr; cbn [sr_cleft] in *; try exact I; rewrite L1; exact Hleft|exact He|exact Hmm| | |exact HD|].
    + cbn [skipn]. rewrite <- Ex. exact Erw.
    + unfold rs_res_fuel. lia.
    + rewrite B1. cbn [rev]. rewrite app_nil_r. exact HL.
  - destruct (dv_senter cb g c p hdr _ _ t x Hm Hne) as (c1 & E1 & H1 & V1 & _). unfold bytes in *. rewrite E1.
    assert (B1 : dv_sb c1 = []) by (unfold dv_sb; rewrite V1, Hev; reflexivity).
    apply (dv_scall_trailer c1 x p hdr t rw' _ L H1); [rewrite <- Ex; exact Hl|unfold rs_res_fuel; lia|].
    rewrite B1. cbn [rev]. rewrite app_nil_r. exact HL.
Qed.
Lemma dv_scext_finish L c rw : dv_scext L c rw -> dv_scext L (forget_chunks c <| c_events := [] |>) rw.
Proof.
  intros [(rr & en & mn & Hok & Hm & Hleft & R)|(p & hdr & t & Hm & Hl)].
  - left. exists rr, en, mn. split; [exact Hok|]. split; [apply sr_mid_finish; exact Hm|]. split; [destruct rr; exact Hleft|exact R].
  - right. exists p, hdr, t. split; [apply sr_mid_finish; exact Hm|exact Hl].
Qed.
Lemma dv_scfin_finish L c : dv_scfin L c -> dv_scfin L (forget_chunks c <| c_events := [] |>).
Proof. intros H. exact H. Qed.

(* ---- after the empty line of the header block: RES_BODY_DETERMINE, then the coded body ---- *)
Lemma dv_sctail c c1 d rd1 (rw' : bytes) F : c_out_state c = RES_HEADERS -> rs_state_fn cb g RES_HEADERS c = (ST_OK, c1) ->
  sr_cin c1 d rd1 [] None RES_BODY_DETERMINE (Some RES_HEADERS) (Some H_RESPONSE_HEADER_DATA) Tend -> skipn rd1 d ++ rw' = sr_cwire_body ks0 last trl ->
  dv_sb c = [] -> dv_sok c -> (sr_need d rd1 <= F)%nat ->
  exists cF rc, rs_res_loop cb g F false c = (cF, rc) /\ post (rev (dv_sb cF)) cF rw'.
Proof.
  intros Es Ef H1 Hw Hev Rk HF. rewrite <- Es in Ef.
  destruct (sr_iter_ok cb g c c1 d rd1 _ _ _ _ _ _ Ef H1) as (c2 & E2 & H2); [discriminate|].
  assert (V2 : dv_sb c2 = []) by (rewrite <- Hev; apply (dv_siter_quiet_inr cb g Hcb c c2); [rewrite Es; reflexivity|exact E2|exact Rk]).
  unfold sr_need in HF. destruct F as [|F1]; [lia|]. destruct F1 as [|F2]; [lia|].
  rewrite (sr_loop_inr cb g _ _ _ E2).
  destruct (sr_pass_determine_ch cb g Hcb c2 d rd1 Tend H2 Hframe) as (c3 & E3 & H3). rewrite (sr_loop_inr cb g _ _ _ E3).
  pose proof (dv_scin_inr cb g Hcb c2 d _ _ _ _ _ _ _ c3 H2 eq_refl dv_sneq12 E3) as V3. rewrite V2 in V3.
  fold TB in H3. rewrite (sr_cbody_start TB) in H3. destruct (y_cnext_st ks0) as [S1 S2].
  assert (G := dv_scbody_run F2 c3 d rd1 (cnext ks0) 0 0 rw' []). cbn [app] in G. apply G.
  - apply y_cnext_ok. exact y_ks0_ok.
  - rewrite S1, S2. exact H3.
  - unfold cnext. apply sr_cnext_left.
  - rewrite y_cnext_e. reflexivity.
  - rewrite y_cnext_m. reflexivity.
  - rewrite y_cnext_wire. exact Hw.
  - lia.
  - unfold cnext. rewrite dv_scnext_data. reflexivity.
  - rewrite V3. cbn [rev firstn]. apply dv_pieces_nil.
Qed.
End ChunkedRunRE.

(* ================= the theorem, response direction, chunk-coded body ================= *)
Require Import Htp.Proof.PSegResChThm.
Theorem dv_response_chunked_delivery : forall cb g rq r (cuts : list (list bytes)) (ks : list bd_chunk) (last : bytes) (tr : list wr_field)
    (tcuts : list (list bytes)) (chunks : list bytes),
  wr_all_ok cb -> g_allow_space_uri g = false -> wr_request_ok rq = true ->
  sr_response_ok r = true -> sr_cuts_ok r cuts = true -> sr_framed_ch cb g rq r cuts = true -> sr_fits g r cuts = true ->
  sr_cfbody_ok g r ks last tr tcuts = true ->
  Forall (fun x => x <> []) chunks -> concat chunks = sr_wire r cuts (sr_cfbody_wire ks last tr tcuts) ->
  sr_f1_free (sr_cfbody_wire ks last tr tcuts) (negb (sr_is_nil (sr_lines r cuts))) chunks = true ->
  dv_delivered_k H_RESPONSE_BODY_DATA H_RESPONSE_COMPLETE 0 1 (bd_chunks_data ks)
    (dv_selp dv_rs_hook (dv_res_log cb g (wr_request_wire rq) (map OpResData chunks))).
Proof.
  intros cb g rq r cuts ks last tr tcuts chunks Hcb Hsp Wq Wr Wc Hfr Hfit Hbody Hall Hc Hf1.
  destruct (sr_after_request cb g rq Hcb Hsp Wq) as (t0 & Hr & Rep).
  assert (Et : sr_treq cb g rq = t0) by (unfold sr_treq; rewrite (ry_txs _ _ Hr); reflexivity).
  unfold sr_framed_ch in Hfr. rewrite Et in *.
  unfold sr_response_ok in Wr. apply andb_prop in Wr. destruct Wr as [Wl Wf].
  unfold sr_cuts_ok in Wc. apply andb_prop in Wc. destruct Wc as [_ Wc].
  destruct (sg_block_flat_ok (combine (wp_fields r) cuts) (sr_forallb_combine_fst wr_field_ok _ cuts Wf) Wc) as [Okl Hnp].
  unfold sr_fits in Hfit. apply andb_prop in Hfit. destruct Hfit as [Hl0 Hfit]. apply Nat.leb_le in Hl0.
  unfold wr_reported in Rep. destruct Rep as (_ & _ & _ & _ & _ & H09 & _ & Hreq).
  rewrite <- (sr_p11_th0 t0 (sr_line0 r)) in Hfit.
  unfold sr_cfbody_ok in Hbody. apply andb_prop in Hbody. destruct Hbody as [Hbody Hfitt]. apply andb_prop in Hbody. destruct Hbody as [Hbody Htfo].
  apply andb_prop in Hbody. destruct Hbody as [Hbody Htlen]. apply andb_prop in Hbody. destruct Hbody as [Hbody Wtr].
  apply andb_prop in Hbody. destruct Hbody as [Hbody Hfitb]. apply andb_prop in Hbody. destruct Hbody as [Hks Hlast].
  destruct (sg_block_flat_ok (combine tr tcuts) (sr_forallb_combine_fst wr_field_ok _ tcuts Wtr) Htfo) as [Oktr Hnptr].
  rewrite <- (sr_p11_th0 t0 (sr_line0 r)) in Hfitt.
  fold (sr_lines r cuts) in Okl, Hnp. fold (sr_trailer_lines tr tcuts) in Oktr, Hnptr.
  set (ls := sr_lines r cuts) in *. set (trl := sr_trailer_lines tr tcuts) in *.
  set (body := sr_cfbody_wire ks last tr tcuts) in *.
  set (bwt := sg_fwire ls ++ [CR; LF] ++ body).
  set (Tend := sr_lrun ls (None, sr_th0 t0 (sr_line0 r))).
  set (hlog := sr_hlog g Tend body (negb (sr_is_nil ls))).
  set (fin := dv_scfin g (wp_protocol r) (wp_status r) (wp_reason r) ls ks last trl t0).
  set (ext := dv_scext g (wp_protocol r) (wp_status r) (wp_reason r) ls ks last trl t0).
  assert (Htail : forall c c1 d rd1 (rw' : bytes) F, c_out_state c = RES_HEADERS -> rs_state_fn cb g RES_HEADERS c = (ST_OK, c1) ->
            sr_cin c1 d rd1 [] None RES_BODY_DETERMINE (Some RES_HEADERS) (Some H_RESPONSE_HEADER_DATA) Tend -> skipn rd1 d ++ rw' = body ->
            dv_sb c = [] -> dv_sok c -> (sr_need d rd1 <= F)%nat ->
            exists cF rc, rs_res_loop cb g F false c = (cF, rc) /\ dv_spostF (wp_protocol r) (wp_status r) (wp_reason r) t0 bwt hlog fin ext (rev (dv_sb cF)) cF rw').
  { intros c c1 d rd1 rw' F. apply (dv_sctail cb g Hcb (wp_protocol r) (wp_status r) (wp_reason r) ls ks last trl t0 Hreq Hfr Hks Hlast Hfitb Oktr Hnptr Hfitt bwt hlog). }
  unfold dv_res_log. generalize (dv_after_req_events cb g (wr_request_wire rq)). unfold dv_after_req.
  revert Hr. generalize (fst (cp_run cb g connp_new [OpOpen; OpReqData (wr_request_wire rq)])). intros c0 Hr Hev.
  pose proof (dv_sall_chunksF cb g Hcb (wp_protocol r) (wp_status r) (wp_reason r) Wl Hl0 t0 H09 bwt hlog fin ext (sr_f1_local body (negb (sr_is_nil ls)))
                (dv_scfin_finish g _ _ _ ls ks last trl t0)
                (dv_scext_finish g _ _ _ ls ks last trl t0)
                (dv_scext_step cb g Hcb _ _ _ ls ks last trl t0 Hreq Hlast Hfitb Oktr Hnptr Hfitt bwt hlog (sr_f1_local body (negb (sr_is_nil ls))))
                (dv_scall_hdrsF cb g Hcb _ _ _ t0 ls body fin ext Htail)
                (dv_scall_startF cb g Hcb _ _ _ t0 ls body Okl Hnp Hfit fin ext Htail)
                c0 chunks Hr Hev Hall Hc (sr_f1_free_oks _ _ _ Hf1)) as [_ T].
  exact T.
Qed.
(* hook by hook, with the transaction list and the lengths of PSegResChThm *)
Theorem dv_response_chunked_delivery_sel : forall cb g rq r (cuts : list (list bytes)) (ks : list bd_chunk) (last : bytes) (tr : list wr_field)
    (tcuts : list (list bytes)) (chunks : list bytes),
  wr_all_ok cb -> g_allow_space_uri g = false -> wr_request_ok rq = true ->
  sr_response_ok r = true -> sr_cuts_ok r cuts = true -> sr_framed_ch cb g rq r cuts = true -> sr_fits g r cuts = true ->
  sr_cfbody_ok g r ks last tr tcuts = true ->
  Forall (fun x => x <> []) chunks -> concat chunks = sr_wire r cuts (sr_cfbody_wire ks last tr tcuts) ->
  sr_f1_free (sr_cfbody_wire ks last tr tcuts) (negb (sr_is_nil (sr_lines r cuts))) chunks = true ->
  let log := dv_res_log cb g (wr_request_wire rq) (map OpResData chunks) in
  c_txs (fst (cp_run cb g connp_new (OpOpen :: OpReqData (wr_request_wire rq) :: map OpResData chunks))) =
    sr_final g (sr_tchunked (sr_treq cb g rq) r cuts ks last tr tcuts) /\
  (exists ds, dv_sel H_RESPONSE_BODY_DATA log = map (dv_data H_RESPONSE_BODY_DATA 0) ds ++ [dv_marker H_RESPONSE_BODY_DATA 0 false] /\
              concat ds = bd_chunks_data ks /\ Forall (fun d => d <> []) ds) /\
  concat (map bd_ev_bytes (dv_sel H_RESPONSE_BODY_DATA log)) = bd_chunks_data ks /\
  dv_sel H_RESPONSE_COMPLETE log = [dv_done H_RESPONSE_COMPLETE 0] /\
  bd_marker_ok H_RESPONSE_BODY_DATA H_RESPONSE_COMPLETE (dv_selp dv_rs_hook log) false = true.
Proof.
  intros cb g rq r cuts ks last tr tcuts chunks Hcb Hsp Wq Wr Wc Hfr Hfit Hb Hall Hc Hf1 log.
  split; [apply (sr_response_chunked_chunking cb g rq r cuts ks last tr tcuts chunks Hcb Hsp Wq Wr Wc Hfr Hfit Hb Hall Hc Hf1)|].
  pose proof (dv_response_chunked_delivery cb g rq r cuts ks last tr tcuts chunks Hcb Hsp Wq Wr Wc Hfr Hfit Hb Hall Hc Hf1) as Dl. fold log in Dl.
  destruct (dv_delivered_k_sel H_RESPONSE_BODY_DATA H_RESPONSE_COMPLETE 0 1 _ _ ltac:(discriminate) (le_n 1) Dl) as (D1 & D2 & D3 & D4).
  rewrite (dv_sel_selp dv_rs_hook H_RESPONSE_BODY_DATA log eq_refl) in D1, D2. rewrite (dv_sel_selp dv_rs_hook H_RESPONSE_COMPLETE log eq_refl) in D3.
  split; [exact D1|]. split; [exact D2|]. split; [exact D3|exact D4].
Qed.

(* ================= non-vacuity and the vm_compute harness ================= *)
(* PSegResChThm.sr_ex_cwire: HTTP/1.1 200 OK | Transfer-Encoding: chunked || 3 chunks (extension, upper-case size, bare LF ends) | 0 | T-One: x | T-Two:| y || *)
Example dv_ex_res_chunked_cuts :
  (let '(b, k, mk, lst) := dv_rs (sg_ex_cfg 18000) [sr_ex_cwire] false in ((if list_eq_dec N.eq_dec b (bd_chunks_data sr_ex_cks) then true else false), k, mk, lst)) = (true, 3%nat, 1%nat, true) /\
  (let '(b, k, mk, lst) := dv_rs (sg_ex_cfg 18000) (sg_bytewise sr_ex_cwire) false in ((if list_eq_dec N.eq_dec b (bd_chunks_data sr_ex_cks) then true else false), mk, lst)) = (true, 1%nat, true) /\
  forallb (fun ch => let '(b, k, mk, lst) := dv_rs (sg_ex_cfg 18000) ch false in
                     (if list_eq_dec N.eq_dec b (bd_chunks_data sr_ex_cks) then true else false) && Nat.leb 3 k && Nat.eqb mk 1 && lst) (sg_cuts1 sr_ex_cwire) = true.
Proof. split; [vm_compute; reflexivity|]. split; vm_compute; reflexivity. Qed.

(* ================= THEOREMS FOR RE-EXPORT (Properties_C06.v), response direction, chunk-coded body =================
   dv_response_chunked_delivery      dv_delivered_k ... 1 (bd_chunks_data ks): RESPONSE_BODY_DATA / RESPONSE_COMPLETE events of the response calls =
                                     data* ++ [marker] ++ [RESPONSE_COMPLETE]
   dv_response_chunked_delivery_sel  hook by hook + the transaction list of PSegResChRun.sr_response_chunked_chunking
   premises (those of sr_response_chunked_chunking): wr_all_ok cb, g_allow_space_uri g = false, wr_request_ok rq, sr_response_ok r, sr_cuts_ok r cuts,
     sr_framed_ch cb g rq r cuts, sr_fits g r cuts, sr_cfbody_ok g r ks last tr tcuts, Forall non-empty chunks,
     concat chunks = sr_wire r cuts (sr_cfbody_wire ks last tr tcuts), sr_f1_free (sr_cfbody_wire ..) has_hdr chunks *)
Print Assumptions dv_response_chunked_delivery.
Print Assumptions dv_response_chunked_delivery_sel.
