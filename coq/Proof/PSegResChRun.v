(* C03, response direction, chunk-coded response bodies: the state "inside the coded body" between two passes of the loop / two
   calls (sr_crem: in a size line, in the data, in the line that ends the data, in the last-chunk line; then the trailer block
   as a header block in trailer mode), one call of htp_connp_res_data from any such state (sr_cbody_run: induction over the
   fuel, every pass that goes round again reads at least one byte), and the theorem: after a grammar request, a response whose
   header block (fields possibly folded) announces Transfer-Encoding: chunked, followed by a chunk-coded body in the format of
   SBody (bd_chunk: size line / data / line end; last-chunk line; trailer lines, possibly folded; empty line), delivered in ANY
   segmentation, gives the same transaction list (ALL fields). *)
Require Import Htp.Model.Base Htp.Model.MBstr Htp.Model.MConnTypes Htp.Model.MTxCommon Htp.Model.MResLine Htp.Model.MTxRes.
Require Import Htp.Model.MReq Htp.Model.MRes Htp.Model.MConnp.
Require Import Htp.Spec.SWire Htp.Spec.SBody Htp.Proof.PWire Htp.Proof.PWireHdr Htp.Proof.PWireBlock Htp.Proof.PWireConn Htp.Proof.PWireExch.
Require Import Htp.Proof.PWireRun Htp.Proof.PWirePres Htp.Proof.PWireGlue Htp.Proof.PSeg Htp.Proof.PSegLine Htp.Proof.PSegHdr Htp.Proof.PSegGen Htp.Proof.PSegRun.
Require Import Htp.Proof.PSegFold Htp.Proof.PSegRes Htp.Proof.PSegResLine Htp.Proof.PSegResHdr Htp.Proof.PSegResGen Htp.Proof.PSegResRun.
Require Import Htp.Proof.PBody Htp.Proof.PSegChunkedRun.
Require Import Htp.Proof.PSegResChGen Htp.Proof.PSegResCh.

(* ---- what the processing of header / trailer lines keeps of the transaction ---- *)
Definition sr_k3 (t : tx) := (t_res_cep t, t_response_transfer_coding t, t_response_protocol_number t).
Lemma sr_process_k3 line t : sr_k3 (rs_process_response_header line t) = sr_k3 t.
Proof.
  unfold rs_process_response_header. destruct (rs_parse_response_header line (t_flags t)) as [h tf].
  cbn [t_response_headers set]. destruct (rs_hdr_find (t_response_headers t) (h_name h)) as [i|]; [|reflexivity].
  destruct (flag_has _ _ && _); [reflexivity|].
  destruct (flag_has (h_flags (nth i (t_response_headers t) h)) c_HTP_FIELD_REPEATED); reflexivity.
Qed.
Lemma sr_flush_k3 hdr t : sr_k3 (sr_flush hdr t) = sr_k3 t.
Proof. destruct hdr; [apply sr_process_k3|reflexivity]. Qed.
Lemma sr_lstep_k3 st l : sr_k3 (snd (sr_lstep st l)) = sr_k3 (snd st).
Proof.
  unfold sr_lstep. cbn [snd]. destruct (fst l); [apply sr_flush_k3|]. destruct (fst st) as [h|]; [|reflexivity].
  destruct (sr_k2 _ h (snd l)); [|reflexivity]. rewrite sr_process_k3. reflexivity.
Qed.
Lemma sr_lrun_k3 : forall ls st, sr_k3 (sr_lrun ls st) = sr_k3 (snd st).
Proof.
  induction ls as [|l ls IH]; intros st.
  - unfold sr_lrun. cbn [fold_left]. apply sr_flush_k3.
  - rewrite sr_lrun_cons, IH. apply sr_lstep_k3.
Qed.
Lemma sr_k3_cep a b : sr_k3 a = sr_k3 b -> t_res_cep a = t_res_cep b /\ t_response_transfer_coding a = t_response_transfer_coding b.
Proof. unfold sr_k3. intros H. injection H as H1 H2 _. split; assumption. Qed.
Lemma sr_k3_p11 a b : sr_k3 a = sr_k3 b -> sr_p11 a = sr_p11 b.
Proof. unfold sr_k3, sr_p11. intros H. injection H as _ _ H. rewrite H. reflexivity. Qed.

(* ---- what remains of the coded body, seen from a point between two passes of the loop ---- *)
Inductive sr_crem :=
  | RR_line (p q data e : bytes) (ks : list bd_chunk)      (* in a size line: p seen, q to come; then its data, the line end, further chunks *)
  | RR_data (dd e : bytes) (ks : list bd_chunk)            (* dd = the data bytes of the current chunk still to come *)
  | RR_end (q : bytes) (ks : list bd_chunk)                (* q = the rest of the line that ends the data *)
  | RR_last (p q : bytes).                                 (* in the last-chunk line *)
Definition sr_cst (r : sr_crem) : res_state :=
  match r with RR_line _ _ _ _ _ | RR_last _ _ => RES_BODY_CHUNKED_LENGTH | RR_data _ _ _ => RES_BODY_CHUNKED_DATA | RR_end _ _ => RES_BODY_CHUNKED_DATA_END end.
Definition sr_cseen (r : sr_crem) : bytes := match r with RR_line p _ _ _ _ | RR_last p _ => p | _ => [] end.
Definition sr_cleft (c : connp) (r : sr_crem) : Prop :=
  match r with RR_data dd _ _ => c_out_chunked_length c = Z.of_nat (length dd) | _ => True end.
Definition sr_crem_e (r : sr_crem) : nat :=
  match r with RR_line _ _ data _ ks => length data + sg_cE ks | RR_data dd _ ks => length dd + sg_cE ks | RR_end _ ks => sg_cE ks | RR_last _ _ => 0 end.
Definition sr_crem_m (lastlen : nat) (r : sr_crem) : nat :=
  match r with
  | RR_line p q data e ks => length (p ++ q) + length data + length e + sg_cM ks + lastlen
  | RR_data dd e ks => length dd + length e + sg_cM ks + lastlen
  | RR_end q ks => length q + sg_cM ks + lastlen
  | RR_last p q => length (p ++ q)
  end.

Section ChunkedRun.
Variable cb : cb_oracle.
Variable g : cfg.
Hypothesis Hcb : wr_all_ok cb.
Variables ps s r : bytes.
Variable ls : list sg_fl.                                   (* the header lines *)
Variable ks0 : list bd_chunk.
Variable last : bytes.
Variable trl : list sg_fl.                                  (* the trailer lines *)
Variable t0 : tx.
Hypothesis Hreq : t_request_progress t0 = c_HTP_REQUEST_COMPLETE.
Let hard := g_field_limit_hard g.
Let line0 := wr_ser_status_line ps s r.
Let th0 := sr_th0 t0 line0.
Let Tend := sr_lrun ls (None, th0).
Hypothesis Hframe : sr_frame_ch_ok Tend = true.
Hypothesis Hks : forallb (bd_chunk_ok bd_rs_line_value) ks0 = true.
Hypothesis Hlast : bd_last_ok bd_rs_line_value last = true.
Hypothesis Hfitb : bd_lines_fit hard ks0 last = true.
Hypothesis Oktr : forallb sg_fl_ok trl = true.
Hypothesis Hnptr : sg_needs_pending trl = false.
Hypothesis Hfittr : sr_ffit hard (sr_p11 th0) None trl = true.
Variable bwt : bytes.
Variable hlog : option bytes -> tx -> bytes -> bytes -> Prop.

Let TB := sr_hdrs_tx_ch Tend.
Let has_tr := negb (sr_is_nil trl).
Let tailw := sg_fwire trl ++ [CR; LF].
Let Etot := sg_cE ks0.
Let Mtot := (sg_cM ks0 + length last)%nat.
Definition sr_cwire_body : bytes := bd_chunks_wire ks0 ++ last ++ tailw.

(* the transaction when the last-chunk line has been read, at the end of the trailer block, and the list at the end *)
Definition sr_ttr : tx := (sr_cbody (Z.of_nat Etot) (Z.of_nat Mtot) TB) <| t_response_progress := c_HTP_RESPONSE_TRAILER |>.
Definition sr_tcfin : tx := sr_lrun trl (None, sr_ttr).
Definition sr_cfin (c : connp) : Prop := c_txs c = sr_final g (sr_tcomplete sr_tcfin).

Definition sr_ks_ok (ks : list bd_chunk) : Prop :=
  forallb (bd_chunk_ok bd_rs_line_value) ks = true /\ forallb (fun k => (length (bc_line k) <=? hard)%nat) ks = true.
Definition sr_crem_ok (r : sr_crem) : Prop :=
  match r with
  | RR_line p q data e ks => q <> [] /\ bd_chunk_ok bd_rs_line_value (mk_bd_chunk (p ++ q) data e) = true /\ (length (p ++ q) <= hard)%nat /\ sr_ks_ok ks
  | RR_data dd e ks => dd <> [] /\ bd_is_line e = true /\ sr_ks_ok ks
  | RR_end q ks => q <> [] /\ (exists a, bd_is_line (a ++ q) = true) /\ sr_ks_ok ks
  | RR_last p q => q <> [] /\ p ++ q = last
  end.
Definition sr_crest (ks : list bd_chunk) : bytes := bd_chunks_wire ks ++ last ++ tailw.
Definition sr_crem_wire (r : sr_crem) : bytes :=
  match r with
  | RR_line p q data e ks => q ++ data ++ e ++ sr_crest ks
  | RR_data dd e ks => dd ++ e ++ sr_crest ks
  | RR_end q ks => q ++ sr_crest ks
  | RR_last p q => q ++ tailw
  end.
Definition sr_cnext (ks : list bd_chunk) : sr_crem :=
  match ks with k :: ks' => RR_line [] (bc_line k) (bc_data k) (bc_end k) ks' | [] => RR_last [] last end.

Lemma sr_last_facts : exists b, last = b ++ [LF] /\ sg_no_lf b = true /\ bd_rs_line_value last = 0%Z /\ (length last <= hard)%nat.
Proof.
  unfold bd_last_ok in Hlast. apply andb_prop in Hlast. destruct Hlast as [L1 L2]. apply Z.eqb_eq in L2.
  destruct (sg_is_line_split _ L1) as (b & E & N). exists b. split; [exact E|]. split; [exact N|]. split; [exact L2|].
  unfold bd_lines_fit in Hfitb. apply andb_prop in Hfitb. destruct Hfitb as [_ F]. apply Nat.leb_le in F. exact F.
Qed.
Lemma sr_ks0_ok : sr_ks_ok ks0.
Proof. split; [exact Hks|]. unfold bd_lines_fit in Hfitb. apply andb_prop in Hfitb. apply Hfitb. Qed.
Lemma sr_cnext_ok ks : sr_ks_ok ks -> sr_crem_ok (sr_cnext ks).
Proof.
  intros [K1 K2]. destruct ks as [|k ks']; cbn [sr_cnext sr_crem_ok].
  - destruct sr_last_facts as (b & E & _). split; [rewrite E; intro X; apply app_eq_nil in X; destruct X as [_ X]; discriminate|reflexivity].
  - cbn [forallb] in K1, K2. apply andb_prop in K1. destruct K1 as [K1 K1']. apply andb_prop in K2. destruct K2 as [K2 K2']. apply Nat.leb_le in K2.
    cbn [app]. assert (Ek : mk_bd_chunk (bc_line k) (bc_data k) (bc_end k) = k) by (destruct k; reflexivity). rewrite Ek.
    split; [|split; [exact K1|split; [exact K2|split; assumption]]].
    unfold bd_chunk_ok in K1. apply andb_prop in K1. destruct K1 as [K1 _]. apply andb_prop in K1. destruct K1 as [K1 _]. apply andb_prop in K1. destruct K1 as [K1 _].
    destruct (sg_is_line_split _ K1) as (b & E & _). rewrite E. intro X. apply app_eq_nil in X. destruct X as [_ X]. discriminate.
Qed.
Lemma sr_cnext_wire ks : sr_crem_wire (sr_cnext ks) = sr_crest ks.
Proof.
  destruct ks as [|k ks']; cbn [sr_cnext sr_crem_wire]; [reflexivity|].
  unfold sr_crest, bd_chunks_wire, bd_chunk_wire. cbn [map concat]. rewrite <- !app_assoc. reflexivity.
Qed.
Lemma sr_cnext_e ks : sr_crem_e (sr_cnext ks) = sg_cE ks.
Proof. destruct ks as [|k ks']; cbn [sr_cnext sr_crem_e]; [reflexivity|]. rewrite sg_cE_cons. reflexivity. Qed.
Lemma sr_cnext_m ks : sr_crem_m (length last) (sr_cnext ks) = (sg_cM ks + length last)%nat.
Proof. destruct ks as [|k ks']; cbn [sr_cnext sr_crem_m app]; [reflexivity|]. rewrite sg_cM_cons. lia. Qed.
Lemma sr_cnext_left c ks : sr_cleft c (sr_cnext ks). Proof. destruct ks; exact I. Qed.
Lemma sr_cnext_st ks : sr_cst (sr_cnext ks) = RES_BODY_CHUNKED_LENGTH /\ sr_cseen (sr_cnext ks) = [].
Proof. destruct ks; split; reflexivity. Qed.

(* ---- facts about the transactions of the body phase ---- *)
Lemma sr_Tend_facts_ch : t_response_progress Tend = c_HTP_RESPONSE_HEADERS /\ t_request_progress Tend = c_HTP_REQUEST_COMPLETE.
Proof.
  unfold Tend. destruct (sr_lrun_keep ls (None, th0)) as [A B]. cbn [snd] in A, B. destruct (sr_th0_keep t0 line0) as [C D]. fold th0 in C, D.
  rewrite A, B, C, D. split; [reflexivity|exact Hreq].
Qed.
Lemma sr_TB_facts : t_res_cep TB = c_HTP_COMPRESSION_NONE /\ t_response_transfer_coding TB = c_HTP_CODING_CHUNKED /\
  t_request_progress TB = c_HTP_REQUEST_COMPLETE /\ sr_p11 TB = sr_p11 th0.
Proof.
  destruct sr_Tend_facts_ch as [_ R]. unfold TB, sr_hdrs_tx_ch, sr_det_tx_ch. cbv zeta.
  assert (P : sr_p11 Tend = sr_p11 th0) by (apply sr_k3_p11; unfold Tend; apply (sr_lrun_k3 ls (None, th0))).
  destruct (rs_hdr_get_c (t_response_headers Tend) rs_str_content_type); destruct (rs_hdr_get_c (t_response_headers Tend) rs_str_content_length);
    (split; [reflexivity|]; split; [reflexivity|]; split; [exact R|exact P]).
Qed.
Lemma sr_tcfin_facts : t_res_cep sr_tcfin = c_HTP_COMPRESSION_NONE /\ (t_response_transfer_coding sr_tcfin =? c_HTP_CODING_NO_BODY)%Z = false /\
  (t_response_progress sr_tcfin =? c_HTP_RESPONSE_COMPLETE)%Z = false /\ t_request_progress sr_tcfin = c_HTP_REQUEST_COMPLETE.
Proof.
  destruct sr_TB_facts as (A & B & C & _).
  destruct (sr_k3_cep _ _ (sr_lrun_k3 trl (None, sr_ttr))) as [K1 K2]. cbn [snd] in K1, K2. fold sr_tcfin in K1, K2.
  destruct (sr_lrun_keep trl (None, sr_ttr)) as [K3 K4]. cbn [snd] in K3, K4. fold sr_tcfin in K3, K4.
  assert (X1 : t_res_cep sr_ttr = c_HTP_COMPRESSION_NONE) by exact A.
  assert (X2 : t_response_transfer_coding sr_ttr = c_HTP_CODING_CHUNKED) by exact B.
  assert (X3 : t_request_progress sr_ttr = c_HTP_REQUEST_COMPLETE) by exact C.
  assert (X4 : t_response_progress sr_ttr = c_HTP_RESPONSE_TRAILER) by reflexivity.
  rewrite K1, K2, K3, K4, X1, X2, X3, X4. repeat split.
Qed.

(* between two calls inside the coded body: position r, en / mn already added to the lengths; or inside the trailer block *)
Definition sr_cext (c : connp) (rw : bytes) : Prop :=
  (exists rr en mn, sr_crem_ok rr /\
     sr_mid c (sr_cseen rr) None (sr_cst rr) None (sr_cbody (Z.of_nat en) (Z.of_nat mn) TB) /\ sr_cleft c rr /\
     (en + sr_crem_e rr = Etot)%nat /\ (mn + sr_crem_m (length last) rr = Mtot)%nat /\ rw = sr_crem_wire rr) \/
  (exists p hdr t, sr_mid c p hdr RES_HEADERS (Some H_RESPONSE_TRAILER_DATA) t /\
     sr_hlog_any g c_HTP_RESPONSE_TRAILER sr_tcfin [] has_tr hdr t p rw).
Let post := sr_postF ps s r t0 bwt hlog sr_cfin sr_cext.

Lemma sr_crem_wire_ne rr : sr_crem_ok rr -> sr_crem_wire rr <> [].
Proof.
  destruct rr; cbn [sr_crem_ok sr_crem_wire]; intros H X; apply app_eq_nil in X; destruct X as [X _]; destruct H as [H _]; contradiction.
Qed.

(* ---- a call that is (or arrives) in the trailer block ---- *)
Lemma sr_trailer_finish c d (rw' : bytes) F nn lf :
  c_out_state c = RES_HEADERS -> rs_state_fn cb g RES_HEADERS c = rs_headers_loop cb g nn lf c -> (3 <= F)%nat ->
  ((exists c' p' hdr' t', rs_headers_loop cb g nn lf c = (ST_DATA_BUFFER, c') /\
      sr_cin c' d (length d) p' hdr' RES_HEADERS (Some RES_HEADERS) (Some H_RESPONSE_TRAILER_DATA) t' /\
      sr_hlog_any g c_HTP_RESPONSE_TRAILER sr_tcfin [] has_tr hdr' t' p' rw' /\ rw' <> []) \/
   (exists c' rd1, rs_headers_loop cb g nn lf c = (ST_OK, c') /\
      sr_cin c' d rd1 [] None RES_FINALIZE (Some RES_HEADERS) None sr_tcfin /\ skipn rd1 d ++ rw' = [])) ->
  exists cF rc, rs_res_loop cb g F false c = (cF, rc) /\ post cF rw'.
Proof.
  intros Es Ef HF [HA|HB].
  - destruct HA as (c' & p' & hdr' & t' & EA & HA1 & HA2 & HA3).
    assert (Lim : (length p' + length (sg_olist hdr') <= g_field_limit_hard g)%nat).
    { destruct HA2 as (pe & te & re & q' & ea & Hr' & _ & _ & _ & _ & Hne & Hea & _ & Fit & _). pose proof (sr_ffit_next _ _ _ _ Fit) as L.
      pose proof (sr_rel_len _ _ _ _ _ Hr'). destruct ea.
      - destruct (Hea eq_refl) as (Er & Ep & _). subst re p'. cbn [sg_fnext length] in L |- *. lia.
      - destruct (Hne eq_refl) as (Epq & _). rewrite <- Epq, app_length in L. lia. }
    destruct (sr_exit_buffer cb g Hcb c' d p' hdr' _ _ t' HA1 Lim) as (cF & EF & HF').
    exists cF, c_HTP_STREAM_DATA. split.
    + destruct F as [|F1]; [lia|]. apply sr_loop_inl. unfold sr_iter. rewrite Es, Ef, EA, EF. reflexivity.
    + left. split; [exact HA3|]. right. right. right. exists p', hdr', t'. split; [exact HF'|exact HA2].
  - destruct HB as (c' & rd1 & EB & HB1 & HB2). rewrite <- Ef in EB.
    apply app_eq_nil in HB2. destruct HB2 as [HB2 Erw].
    assert (Erd : rd1 = length d) by (pose proof (sg_skipn_nil _ _ HB2); pose proof (ri_rd _ _ _ _ _ _ _ _ _ HB1); lia). rewrite Erd in HB1.
    rewrite <- Es in EB.
    destruct (sr_iter_ok cb g c c' d _ _ _ _ _ _ _ EB HB1) as (c2 & E2 & H2); [discriminate|].
    destruct F as [|F1]; [lia|]. destruct F1 as [|F2]; [lia|]. destruct F2 as [|F3]; [lia|].
    rewrite (sr_loop_inr cb g _ _ _ E2).
    destruct sr_tcfin_facts as (A & B & C & D).
    destruct (sr_pass_finalize cb g Hcb c2 d sr_tcfin H2 A B C D) as (c3 & E3 & Dn). rewrite (sr_loop_inr cb g _ _ _ E3).
    destruct (sr_pass_idle_end cb g c3 _ Dn) as (c4 & E4 & T4). rewrite (sr_loop_inl cb g _ _ _ E4).
    eexists _, _. split; [reflexivity|]. right. split; [exact Erw|exact T4].
Qed.

Lemma sr_ttr_facts : t_response_progress sr_ttr = c_HTP_RESPONSE_TRAILER /\ sr_p11 sr_ttr = sr_p11 th0.
Proof. destruct sr_TB_facts as (_ & _ & _ & P). split; [reflexivity|]. rewrite <- P. reflexivity. Qed.

(* the trailer block starts in the chunk that brought the end of the last-chunk line *)
Lemma sr_call_trailer_start c d rd (rw' : bytes) F :
  sr_cin c d rd [] None RES_HEADERS (Some RES_HEADERS) (Some H_RESPONSE_TRAILER_DATA) sr_ttr -> skipn rd d ++ rw' = tailw -> (3 <= F)%nat ->
  exists cF rc, rs_res_loop cb g F false c = (cF, rc) /\ post cF rw'.
Proof.
  intros H Hw HF. destruct sr_ttr_facts as [Pg P11].
  assert (Es : c_out_state c = RES_HEADERS) by apply (ri_state _ _ _ _ _ _ _ _ _ H).
  assert (Ef : rs_state_fn cb g RES_HEADERS c = rs_headers_loop cb g (S (S (length d - rd))) false c).
  { cbn [rs_state_fn]. unfold rs_RES_HEADERS, rs_bytes_fuel. rewrite (ri_len _ _ _ _ _ _ _ _ _ H), (ri_read _ _ _ _ _ _ _ _ _ H). reflexivity. }
  apply (sr_trailer_finish c d rw' F _ false Es Ef HF).
  assert (Hw' : skipn rd d ++ rw' = sg_fnext trl ++ sg_fafter [] trl).
  { rewrite Hw. unfold tailw. rewrite <- (sg_fwire_split [] trl). rewrite app_nil_r. reflexivity. }
  apply (sr_hdrs_loop_any cb g (Some H_RESPONSE_TRAILER_DATA) c_HTP_RESPONSE_TRAILER RES_FINALIZE None (sr_hcont_term_trailer cb g Hcb)
           d rw' sr_tcfin [] has_tr I trl c rd [] (sg_fnext trl) None sr_ttr None sr_ttr (S (S (length d - rd))) false false H).
  - left. split; reflexivity.
  - exact Oktr.
  - rewrite Hnptr. discriminate.
  - reflexivity.
  - exact Pg.
  - intros _. split; [reflexivity|apply sg_fnext_ne].
  - discriminate.
  - exact Hw'.
  - rewrite P11. exact Hfittr.
  - apply sr_is_nil_false.
  - discriminate.
  - right. reflexivity.
  - discriminate.
  - lia.
Qed.
(* a later call that starts inside the trailer block *)
Lemma sr_call_trailer c d p hdr t (rw' : bytes) F :
  sr_cin c d 0 p hdr RES_HEADERS (Some RES_HEADERS) (Some H_RESPONSE_TRAILER_DATA) t ->
  sr_hlog_any g c_HTP_RESPONSE_TRAILER sr_tcfin [] has_tr hdr t p (d ++ rw') -> (3 <= F)%nat ->
  exists cF rc, rs_res_loop cb g F false c = (cF, rc) /\ post cF rw'.
Proof.
  intros H (pend & tl & rem & q & eaten & Hrel & Ok & Hnp & Hrun & Hprog & Hne & Hea & Hw & Hfit' & Hhh) HF.
  assert (Es : c_out_state c = RES_HEADERS) by apply (ri_state _ _ _ _ _ _ _ _ _ H).
  assert (Ef : rs_state_fn cb g RES_HEADERS c = rs_headers_loop cb g (S (S (length d))) false c).
  { cbn [rs_state_fn]. unfold rs_RES_HEADERS, rs_bytes_fuel. rewrite (ri_len _ _ _ _ _ _ _ _ _ H), (ri_read _ _ _ _ _ _ _ _ _ H), Nat.sub_0_r. reflexivity. }
  apply (sr_trailer_finish c d rw' F _ false Es Ef HF).
  apply (sr_hdrs_loop_any cb g (Some H_RESPONSE_TRAILER_DATA) c_HTP_RESPONSE_TRAILER RES_FINALIZE None (sr_hcont_term_trailer cb g Hcb)
           d rw' sr_tcfin [] has_tr I rem c 0 p q hdr t pend tl (S (S (length d))) false eaten H Hrel Ok Hnp Hrun Hprog Hne Hea Hw Hfit' Hhh);
    [discriminate|left; reflexivity|intros _; left; reflexivity|lia].
Qed.

(* ---- the rest of a call from a point inside the coded body ---- *)
Lemma sr_cbody_run : forall F c d rd rr en mn (rw' : bytes),
  sr_crem_ok rr ->
  sr_cin c d rd (sr_cseen rr) None (sr_cst rr) (Some (sr_cst rr)) None (sr_cbody (Z.of_nat en) (Z.of_nat mn) TB) ->
  sr_cleft c rr -> (en + sr_crem_e rr = Etot)%nat -> (mn + sr_crem_m (length last) rr = Mtot)%nat ->
  skipn rd d ++ rw' = sr_crem_wire rr -> (length d - rd + 4 <= F)%nat ->
  exists cF rc, rs_res_loop cb g F false c = (cF, rc) /\ post cF rw'.
Proof.
  induction F as [|F IH]; intros c d rd rr en mn rw' Hok H Hleft He Hm Hw HF; [lia|].
  pose proof (ri_rd _ _ _ _ _ _ _ _ _ H) as Hrd.
  assert (Es : c_out_state c = sr_cst rr) by apply (ri_state _ _ _ _ _ _ _ _ _ H).
  destruct sr_TB_facts as (Tcep & _ & _ & _).
  destruct rr as [p q data e ks|dd e ks|q ks|p q]; cbn [sr_cseen sr_cst sr_crem_ok sr_crem_wire sr_crem_e sr_crem_m sr_cleft] in *.
  - (* in a size line *)
    destruct Hok as (Hq & Hck & Hlim & Hks').
    unfold bd_chunk_ok in Hck. cbn [bc_line bc_data bc_end] in Hck. apply andb_prop in Hck. destruct Hck as [Hck Hv]. apply andb_prop in Hck. destruct Hck as [Hck Hdne].
    apply andb_prop in Hck. destruct Hck as [Hl1 Hl2]. apply Z.eqb_eq in Hv. apply negb_true_iff in Hdne. apply Nat.eqb_neq in Hdne.
    destruct (sg_is_line_split _ Hl1) as (body & Eb & Nb).
    assert (Hsc : rs_probe_scan (p ++ q) = true) by (apply sr_value_scan; rewrite Hv; lia).
    destruct (sg_line_cut (skipn rd d) rw' p q body _ Eb Nb Hq Hw) as [(q2 & Eq & Hq2 & Erw & Nu)|(q1 & u2 & Eav & Eaft & Nq1 & Eq1)].
    + assert (Hsc' : rs_probe_scan ((p ++ skipn rd d) ++ q2) = true) by (rewrite <- app_assoc, <- Eq; exact Hsc).
      destruct (sr_clen_scan_nolf g d None _ _ None _ (skipn rd d) c rd p (S (S (length d - rd))) q2 H eq_refl Nu Hsc') as (c' & E & H'); [rewrite skipn_length; lia|].
      assert (Lim : (length (p ++ skipn rd d) + length (sg_olist None) <= g_field_limit_hard g)%nat).
      { rewrite Eq, !app_length in Hlim. rewrite app_length. cbn [sg_olist length]. unfold hard in Hlim. lia. }
      destruct (sr_exit_buffer cb g Hcb c' d _ None _ _ _ H' Lim) as (cF & EF & HF').
      exists cF, c_HTP_STREAM_DATA. split.
      * apply sr_loop_inl. unfold sr_iter. rewrite Es. cbn [rs_state_fn]. unfold rs_RES_BODY_CHUNKED_LENGTH, rs_bytes_fuel.
        rewrite (ri_len _ _ _ _ _ _ _ _ _ H), (ri_read _ _ _ _ _ _ _ _ _ H), E, EF. reflexivity.
      * left. split; [rewrite Erw; destruct q2; [contradiction|discriminate]|]. right. right. left.
        exists (RR_line (p ++ skipn rd d) q2 data e ks), en, mn. cbn [sr_cseen sr_cst sr_crem_ok sr_crem_wire sr_crem_e sr_crem_m sr_cleft].
        rewrite <- app_assoc, <- Eq. split; [split; [exact Hq2|]; split; [|split; [exact Hlim|exact Hks']]|].
        { unfold bd_chunk_ok. cbn [bc_line bc_data bc_end]. rewrite Hl1, Hl2, Hv, Z.eqb_refl. apply Nat.eqb_neq in Hdne. rewrite Hdne. reflexivity. }
        split; [exact HF'|]. split; [exact I|]. split; [exact He|]. split; [exact Hm|exact Erw].
    + assert (Hv' : (0 < bd_rs_line_value (p ++ q))%Z) by (rewrite Hv; lia).
      assert (Eline : p ++ q1 ++ [LF] = p ++ q) by (rewrite Eq1; reflexivity).
      destruct (sr_pass_cline cb g c d rd p q1 u2 _ (p ++ q) H Eav Nq1 Eline Hlim Hv') as (c1 & E1 & H1 & L1 & Hr1).
      rewrite (sr_loop_inr cb g _ _ _ E1).
      rewrite sr_cbody_msg, <- Nat2Z.inj_add in H1.
      apply (IH c1 d (rd + length q1 + 1)%nat (RR_data data e ks) en (mn + length (p ++ q))%nat rw'); cbn [sr_cseen sr_cst sr_crem_ok sr_crem_wire sr_crem_e sr_crem_m sr_cleft].
      * split; [intro X; apply Hdne; rewrite X; reflexivity|split; [exact Hl2|exact Hks']].
      * exact H1.
      * rewrite L1. exact Hv.
      * exact He.
      * lia.
      * rewrite Hr1. exact Eaft.
      * assert (L : length (skipn rd d) = (length d - rd)%nat) by apply skipn_length. rewrite Eav, app_length in L. cbn [length] in L. lia.
  - (* in the data of a chunk *)
    destruct Hok as (Hdd & Hl2 & Hks').
    assert (Lpos : (0 < length dd)%nat) by (destruct dd; [contradiction|cbn; lia]).
    assert (Lav : length (skipn rd d) = (length d - rd)%nat) by apply skipn_length.
    assert (Hcep : t_res_cep (sr_cbody (Z.of_nat en) (Z.of_nat mn) TB) = c_HTP_COMPRESSION_NONE) by exact Tcep.
    pose proof (sr_cdata_pass cb g Hcb c d rd _ (length dd) H Hcep Hleft Lpos) as P. cbv zeta in P.
    destruct (sg_app_cases (skipn rd d) rw' dd _ Hw) as [Clt Cge].
    destruct (Nat.lt_ge_cases (length (skipn rd d)) (length dd)) as [Llt|Lge].
    + (* the chunk ends inside the data *)
      destruct (Clt Llt) as (dd2 & Edd & Hdd2 & Erw).
      assert (Ld : length dd = (length (skipn rd d) + length dd2)%nat) by (rewrite Edd at 1; apply app_length).
      rewrite Nat.min_r in P by lia.
      destruct (length d - rd)%nat as [|j'] eqn:Ej.
      * exists (rs_set_out_status c_HTP_STREAM_DATA c), c_HTP_STREAM_DATA. split; [apply sr_loop_inl; exact P|].
        assert (Es0 : skipn rd d = []) by (apply length_zero_iff_nil; exact Lav). rewrite Es0 in Edd. cbn [app] in Edd.
        left. split; [rewrite Erw; destruct dd2; [contradiction|discriminate]|]. right. right. left.
        exists (RR_data dd e ks), en, mn. cbn [sr_cseen sr_cst sr_crem_ok sr_crem_wire sr_crem_e sr_crem_m sr_cleft].
        split; [split; [exact Hdd|split; [exact Hl2|exact Hks']]|].
        assert (Erd : rd = length d) by lia. rewrite Erd in H.
        split; [apply (sr_exit_data cb g c d _ None _ _ H)|]. split; [exact Hleft|].
        split; [exact He|]. split; [exact Hm|]. rewrite Erw, Edd. reflexivity.
      * rewrite <- Ej in *. set (j := (length d - rd)%nat) in *.
        assert (Elt : (j <? length dd)%nat = true) by (apply Nat.ltb_lt; lia). rewrite Elt in P.
        destruct P as (c' & E & H' & L').
        exists (rs_set_out_status c_HTP_STREAM_DATA c'), c_HTP_STREAM_DATA. split; [apply sr_loop_inl; exact E|].
        rewrite sr_cbody_deliver, <- !Nat2Z.inj_add in H'.
        left. split; [rewrite Erw; destruct dd2; [contradiction|discriminate]|]. right. right. left.
        exists (RR_data dd2 e ks), (en + j)%nat, (mn + j)%nat. cbn [sr_cseen sr_cst sr_crem_ok sr_crem_wire sr_crem_e sr_crem_m sr_cleft].
        split; [split; [exact Hdd2|split; [exact Hl2|exact Hks']]|].
        assert (Erd : (rd + j)%nat = length d) by (unfold j; lia). rewrite Erd in H'.
        split; [apply (sr_exit_data cb g c' d _ None _ _ H')|].
        split; [change (c_out_chunked_length (rs_set_out_status c_HTP_STREAM_DATA c')) with (c_out_chunked_length c'); rewrite L'; f_equal; lia|].
        split; [lia|]. split; [lia|exact Erw].
    + (* the data of the chunk ends in this TCP chunk *)
      destruct (Cge Lge) as (u2 & Eav & Eaft).
      rewrite Nat.min_l in P by lia.
      destruct (length dd) as [|k'] eqn:Ek; [lia|]. rewrite <- Ek in *.
      rewrite Nat.ltb_irrefl in P. destruct P as (c1 & E1 & H1).
      rewrite (sr_loop_inr cb g _ _ _ E1).
      rewrite sr_cbody_deliver, <- !Nat2Z.inj_add in H1.
      apply (IH c1 d (rd + length dd)%nat (RR_end e ks) (en + length dd)%nat (mn + length dd)%nat rw'); cbn [sr_cseen sr_cst sr_crem_ok sr_crem_wire sr_crem_e sr_crem_m sr_cleft].
      * destruct (sg_is_line_split _ Hl2) as (b & Ee & _). split; [rewrite Ee; intro X; apply app_eq_nil in X; destruct X as [_ X]; discriminate|]. split; [exists []; exact Hl2|exact Hks'].
      * exact H1.
      * exact I.
      * lia.
      * lia.
      * assert (Es2 : skipn (rd + length dd) d = u2).
        { rewrite <- sr_skipn_skipn, Eav, skipn_app, Nat.sub_diag, skipn_all. reflexivity. }
        rewrite Es2. symmetry. exact Eaft.
      * rewrite Eav, app_length in Lav. lia.
  - (* in the line that ends the data *)
    destruct Hok as (Hq & (a & Hla) & Hks').
    destruct (sg_is_line_split _ Hla) as (body & Eb & Nb).
    destruct (sg_line_cut (skipn rd d) rw' a q body _ Eb Nb Hq Hw) as [(q2 & Eq & Hq2 & Erw & Nu)|(q1 & u2 & Eav & Eaft & Nq1 & Eq1)].
    + destruct (sr_pass_cend_partial cb g c d rd _ H Nu) as (c' & E & HX).
      rewrite sr_cbody_msg, <- Nat2Z.inj_add in HX.
      exists (rs_set_out_status c_HTP_STREAM_DATA c'), c_HTP_STREAM_DATA. split; [apply sr_loop_inl; exact E|].
      left. split; [rewrite Erw; destruct q2; [contradiction|discriminate]|]. right. right. left.
      exists (RR_end q2 ks), en, (mn + (length d - rd))%nat. cbn [sr_cseen sr_cst sr_crem_ok sr_crem_wire sr_crem_e sr_crem_m sr_cleft].
      split; [split; [exact Hq2|split; [exists (a ++ skipn rd d); rewrite <- app_assoc, <- Eq; exact Hla|exact Hks']]|].
      split; [exact HX|]. split; [exact I|]. split; [exact He|]. split; [|exact Erw].
      rewrite Eq, app_length, skipn_length in Hm. lia.
    + destruct (sr_pass_cend cb g c d rd q1 u2 _ H Eav Nq1) as (c1 & E1 & H1 & Hr1).
      rewrite (sr_loop_inr cb g _ _ _ E1).
      rewrite sr_cbody_msg, <- Nat2Z.inj_add in H1.
      destruct (sr_cnext_st ks) as [S1 S2].
      apply (IH c1 d (rd + length q1 + 1)%nat (sr_cnext ks) en (mn + (length q1 + 1))%nat rw').
      * apply sr_cnext_ok. exact Hks'.
      * rewrite S1, S2. exact H1.
      * destruct ks; exact I.
      * rewrite sr_cnext_e. exact He.
      * rewrite sr_cnext_m. rewrite Eq1, app_length in Hm. cbn [length] in Hm. lia.
      * rewrite sr_cnext_wire, Hr1. exact Eaft.
      * assert (L : length (skipn rd d) = (length d - rd)%nat) by apply skipn_length. rewrite Eav, app_length in L. cbn [length] in L. lia.
  - (* in the last-chunk line *)
    destruct Hok as (Hq & Epq). destruct sr_last_facts as (body & Eb & Nb & Hv & Hlim). rewrite <- Epq in Eb, Hv, Hlim.
    assert (Hsc : rs_probe_scan (p ++ q) = true) by (apply sr_value_scan; rewrite Hv; lia).
    destruct (sg_line_cut (skipn rd d) rw' p q body _ Eb Nb Hq Hw) as [(q2 & Eq & Hq2 & Erw & Nu)|(q1 & u2 & Eav & Eaft & Nq1 & Eq1)].
    + assert (Hsc' : rs_probe_scan ((p ++ skipn rd d) ++ q2) = true) by (rewrite <- app_assoc, <- Eq; exact Hsc).
      destruct (sr_clen_scan_nolf g d None _ _ None _ (skipn rd d) c rd p (S (S (length d - rd))) q2 H eq_refl Nu Hsc') as (c' & E & H'); [rewrite skipn_length; lia|].
      assert (Lim : (length (p ++ skipn rd d) + length (sg_olist None) <= g_field_limit_hard g)%nat).
      { rewrite Eq, !app_length in Hlim. rewrite app_length. cbn [sg_olist length]. unfold hard in Hlim. lia. }
      destruct (sr_exit_buffer cb g Hcb c' d _ None _ _ _ H' Lim) as (cF & EF & HF').
      exists cF, c_HTP_STREAM_DATA. split.
      * apply sr_loop_inl. unfold sr_iter. rewrite Es. cbn [rs_state_fn]. unfold rs_RES_BODY_CHUNKED_LENGTH, rs_bytes_fuel.
        rewrite (ri_len _ _ _ _ _ _ _ _ _ H), (ri_read _ _ _ _ _ _ _ _ _ H), E, EF. reflexivity.
      * left. split; [rewrite Erw; destruct q2; [contradiction|discriminate]|]. right. right. left.
        exists (RR_last (p ++ skipn rd d) q2), en, mn. cbn [sr_cseen sr_cst sr_crem_ok sr_crem_wire sr_crem_e sr_crem_m sr_cleft].
        rewrite <- app_assoc, <- Eq. split; [split; [exact Hq2|exact Epq]|].
        split; [exact HF'|]. split; [exact I|]. split; [exact He|]. split; [exact Hm|exact Erw].
    + assert (Eline : p ++ q1 ++ [LF] = p ++ q) by (rewrite Eq1; reflexivity).
      destruct (sr_pass_clast cb g c d rd p q1 u2 _ (p ++ q) H Eav Nq1 Eline Hlim Hv) as (c1 & E1 & H1 & Hr1).
      rewrite (sr_loop_inr cb g _ _ _ E1).
      rewrite sr_cbody_msg, <- Nat2Z.inj_add in H1.
      assert (Een : en = Etot) by lia. assert (Emn : (mn + length (p ++ q))%nat = Mtot) by lia. rewrite Een, Emn in H1. fold sr_ttr in H1.
      apply (sr_call_trailer_start c1 d (rd + length q1 + 1)%nat rw' F H1); [rewrite Hr1; exact Eaft|lia].
Qed.

(* ---- a later call that starts inside the coded body or the trailer block ---- *)
Lemma sr_cext_step (okc : bytes -> bytes -> Prop) c (rw x rw' : bytes) : sr_cext c rw -> x <> [] -> rw = x ++ rw' -> okc x rw' ->
  exists c' rc, connp_res_data cb g (Some x) (length x) c = (c', rc) /\ post c' rw'.
Proof.
  intros [(rr & en & mn & Hok & Hm & Hleft & He & Hmm & Erw)|(p & hdr & t & Hm & Hl)] Hne Ex _.
  - destruct (sr_enter_clen cb g c _ None _ _ _ x Hm Hne) as (c1 & E1 & H1 & L1). unfold bytes in *. rewrite E1.
    apply (sr_cbody_run _ c1 x 0 rr en mn rw' Hok H1); [destruct rr; cbn [sr_cleft] in *; try exact I; rewrite L1; exact Hleft|exact He|exact Hmm| |].
    + cbn [skipn]. rewrite <- Ex. exact Erw.
    + unfold rs_res_fuel. lia.
  - destruct (sr_enter cb g c p hdr _ _ t x Hm Hne) as (c1 & E1 & H1). unfold bytes in *. rewrite E1.
    apply (sr_call_trailer c1 x p hdr t rw' _ H1); [rewrite <- Ex; exact Hl|unfold rs_res_fuel; lia].
Qed.
Lemma sr_cext_finish c rw : sr_cext c rw -> sr_cext (forget_chunks c <| c_events := [] |>) rw.
Proof.
  intros [(rr & en & mn & Hok & Hm & Hleft & R)|(p & hdr & t & Hm & Hl)].
  - left. exists rr, en, mn. split; [exact Hok|]. split; [apply sr_mid_finish; exact Hm|]. split; [destruct rr; exact Hleft|exact R].
  - right. exists p, hdr, t. split; [apply sr_mid_finish; exact Hm|exact Hl].
Qed.
Lemma sr_cfin_finish c : sr_cfin c -> sr_cfin (forget_chunks c <| c_events := [] |>).
Proof. intros H. exact H. Qed.

(* ---- after the empty line of the header block: RES_BODY_DETERMINE, then the coded body ---- *)
Lemma sr_ctail c c1 d rd1 (rw' : bytes) F : c_out_state c = RES_HEADERS -> rs_state_fn cb g RES_HEADERS c = (ST_OK, c1) ->
  sr_cin c1 d rd1 [] None RES_BODY_DETERMINE (Some RES_HEADERS) (Some H_RESPONSE_HEADER_DATA) Tend -> skipn rd1 d ++ rw' = sr_cwire_body ->
  (sr_need d rd1 <= F)%nat ->
  exists cF rc, rs_res_loop cb g F false c = (cF, rc) /\ post cF rw'.
Proof.
  intros Es Ef H1 Hw HF. rewrite <- Es in Ef.
  destruct (sr_iter_ok cb g c c1 d rd1 _ _ _ _ _ _ Ef H1) as (c2 & E2 & H2); [discriminate|].
  unfold sr_need in HF. destruct F as [|F1]; [lia|]. destruct F1 as [|F2]; [lia|].
  rewrite (sr_loop_inr cb g _ _ _ E2).
  destruct (sr_pass_determine_ch cb g Hcb c2 d rd1 Tend H2 Hframe) as (c3 & E3 & H3). rewrite (sr_loop_inr cb g _ _ _ E3).
  fold TB in H3. rewrite (sr_cbody_start TB) in H3. destruct (sr_cnext_st ks0) as [S1 S2].
  apply (sr_cbody_run F2 c3 d rd1 (sr_cnext ks0) 0 0 rw').
  - apply sr_cnext_ok. exact sr_ks0_ok.
  - rewrite S1, S2. exact H3.
  - apply sr_cnext_left.
  - rewrite sr_cnext_e. reflexivity.
  - rewrite sr_cnext_m. reflexivity.
  - rewrite sr_cnext_wire. exact Hw.
  - lia.
Qed.
End ChunkedRun.

(* ================= the theorem on the wire grammar, with a chunk-coded response body ================= *)
Require Import Htp.Proof.PSegResReq Htp.Proof.PSegResThm.

(* the framing: the model's RES_BODY_DETERMINE decision at the end of the header block is "Transfer-Encoding says chunked, the
   request was neither HEAD nor CONNECT" (a Content-Length next to it is tolerated by the code: HTP_REQUEST_SMUGGLING is flagged) *)
Definition sr_framed_ch (cb : cb_oracle) (g : cfg) (rq : wr_request) (r : wr_response) (cuts : list (list bytes)) : bool :=
  sr_frame_ch_ok (sr_tend (sr_treq cb g rq) r cuts).
(* the coded body: chunks in the general format of SBody (size line with its LF / data / line end with its LF; the size line
   parses to the data length >= 1: hex digits in either case, leading zeros and white space, extensions, bare LF line ends are
   all covered), the last-chunk line, trailer fields folded as tcuts says, every size line within field_limit_hard, the trailer
   lines within the limits of PSegResHdr.sr_ffit *)
Definition sr_trailer_lines (tr : list wr_field) (tcuts : list (list bytes)) : list sg_fl := sg_block_flat (combine tr tcuts).
Definition sr_cfbody_ok (g : cfg) (r : wr_response) (ks : list bd_chunk) (last : bytes) (tr : list wr_field) (tcuts : list (list bytes)) : bool :=
  forallb (bd_chunk_ok bd_rs_line_value) ks && bd_last_ok bd_rs_line_value last && bd_lines_fit (g_field_limit_hard g) ks last &&
  forallb wr_field_ok tr && (length tcuts =? length tr)%nat && forallb sg_fold_ok (combine tr tcuts) &&
  sr_ffit (g_field_limit_hard g) (sr_p11_line (sr_line0 r)) None (sr_trailer_lines tr tcuts).
Definition sr_cfbody_wire (ks : list bd_chunk) (last : bytes) (tr : list wr_field) (tcuts : list (list bytes)) : bytes :=
  bd_chunks_wire ks ++ last ++ sg_fwire (sr_trailer_lines tr tcuts) ++ [CR; LF].
(* the transaction such a response has to produce (t0 = the transaction the request left): response_entity_len grows by the data
   length, response_message_len by the length of the chunks and of the last-chunk line (the trailer block is not counted by the
   code), the trailer fields are added to response_headers, progress COMPLETE *)
Definition sr_tchunked (t0 : tx) (r : wr_response) (cuts : list (list bytes)) (ks : list bd_chunk) (last : bytes) (tr : list wr_field) (tcuts : list (list bytes)) : tx :=
  sr_tcomplete (sr_lrun (sr_trailer_lines tr tcuts)
    (None, (sr_cbody (Z.of_nat (length (bd_chunks_data ks))) (Z.of_nat (length (bd_chunks_wire ks) + length last)) (sr_hdrs_tx_ch (sr_tend t0 r cuts)))
             <| t_response_progress := c_HTP_RESPONSE_TRAILER |>)).

Theorem sr_response_chunked_chunking : forall cb g rq r (cuts : list (list bytes)) (ks : list bd_chunk) (last : bytes) (tr : list wr_field)
    (tcuts : list (list bytes)) (chunks : list bytes),
  wr_all_ok cb -> g_allow_space_uri g = false -> wr_request_ok rq = true ->
  sr_response_ok r = true -> sr_cuts_ok r cuts = true -> sr_framed_ch cb g rq r cuts = true -> sr_fits g r cuts = true ->
  sr_cfbody_ok g r ks last tr tcuts = true ->
  Forall (fun x => x <> []) chunks -> concat chunks = sr_wire r cuts (sr_cfbody_wire ks last tr tcuts) ->
  sr_f1_free (sr_cfbody_wire ks last tr tcuts) (negb (sr_is_nil (sr_lines r cuts))) chunks = true ->
  c_txs (fst (cp_run cb g connp_new (OpOpen :: OpReqData (wr_request_wire rq) :: map OpResData chunks))) =
  sr_final g (sr_tchunked (sr_treq cb g rq) r cuts ks last tr tcuts).
Proof.
  intros cb g rq r cuts ks last tr tcuts chunks Hcb Hsp Wq Wr Wc Hfr Hfit Hbody Hall Hc Hf1.
  destruct (sr_after_request cb g rq Hcb Hsp Wq) as (t0 & Hr & Rep).
  assert (Et : sr_treq cb g rq = t0) by (unfold sr_treq; rewrite (ry_txs _ _ Hr); reflexivity).
  unfold sr_framed_ch in Hfr. rewrite Et in *.
  change (OpOpen :: OpReqData (wr_request_wire rq) :: map OpResData chunks) with ([OpOpen; OpReqData (wr_request_wire rq)] ++ map OpResData chunks).
  rewrite sr_run_app.
  unfold sr_response_ok in Wr. apply andb_prop in Wr. destruct Wr as [Wl Wf].
  unfold sr_cuts_ok in Wc. apply andb_prop in Wc. destruct Wc as [_ Wc].
  destruct (sg_block_flat_ok (combine (wp_fields r) cuts) (sr_forallb_combine_fst wr_field_ok _ cuts Wf) Wc) as [Okl Hnp].
  unfold sr_fits in Hfit. apply andb_prop in Hfit. destruct Hfit as [Hl0 Hfit]. apply Nat.leb_le in Hl0.
  unfold wr_reported in Rep. destruct Rep as (_ & _ & _ & _ & _ & H09 & _ & Hreq).
  rewrite <- (sr_p11_th0 t0 (sr_line0 r)) in Hfit.
  unfold sr_cfbody_ok in Hbody. apply andb_prop in Hbody. destruct Hbody as [Hbody Hfitt]. apply andb_prop in Hbody. destruct Hbody as [Hbody Htfo].
  apply andb_prop in Hbody. destruct Hbody as [Hbody Htlen]. apply andb_prop in Hbody. destruct Hbody as [Hbody Wtr].
  apply andb_prop in Hbody. destruct Hbody as [Hbody Hfitb]. apply andb_prop in Hbody. destruct Hbody as [Hks Hlast].
  destruct (sg_block_flat_ok (combine tr tcuts) (sr_forallb_combine_fst wr_field_ok _ tcuts Wtr) Htfo) as [Oktr Hnptr].
  rewrite <- (sr_p11_th0 t0 (sr_line0 r)) in Hfitt.
  fold (sr_lines r cuts) in Okl, Hnp. fold (sr_trailer_lines tr tcuts) in Oktr, Hnptr.
  set (ls := sr_lines r cuts) in *. set (trl := sr_trailer_lines tr tcuts) in *.
  set (body := sr_cfbody_wire ks last tr tcuts) in *.
  set (bwt := sg_fwire ls ++ [CR; LF] ++ body).
  set (Tend := sr_lrun ls (None, sr_th0 t0 (sr_line0 r))).
  set (hlog := sr_hlog g Tend body (negb (sr_is_nil ls))).
  set (fin := sr_cfin g (wp_protocol r) (wp_status r) (wp_reason r) ls ks last trl t0).
  set (ext := sr_cext g (wp_protocol r) (wp_status r) (wp_reason r) ls ks last trl t0).
  assert (Htail : forall c c1 d rd1 (rw' : bytes) F, c_out_state c = RES_HEADERS -> rs_state_fn cb g RES_HEADERS c = (ST_OK, c1) ->
            sr_cin c1 d rd1 [] None RES_BODY_DETERMINE (Some RES_HEADERS) (Some H_RESPONSE_HEADER_DATA) Tend -> skipn rd1 d ++ rw' = body ->
            (sr_need d rd1 <= F)%nat ->
            exists cF rc, rs_res_loop cb g F false c = (cF, rc) /\ sr_postF (wp_protocol r) (wp_status r) (wp_reason r) t0 bwt hlog fin ext cF rw').
  { intros c c1 d rd1 rw' F. apply (sr_ctail cb g Hcb (wp_protocol r) (wp_status r) (wp_reason r) ls ks last trl t0 Hreq Hfr Hks Hlast Hfitb Oktr Hnptr Hfitt bwt hlog). }
  pose proof (sr_all_chunksF cb g Hcb (wp_protocol r) (wp_status r) (wp_reason r) Wl Hl0 t0 H09 bwt hlog fin ext (sr_f1_local body (negb (sr_is_nil ls)))
                (sr_cfin_finish g _ _ _ ls ks last trl t0)
                (sr_cext_finish g _ _ _ ls ks last trl t0)
                (sr_cext_step cb g Hcb _ _ _ ls ks last trl t0 Hreq Hlast Hfitb Oktr Hnptr Hfitt bwt hlog (sr_f1_local body (negb (sr_is_nil ls))))
                (sr_call_hdrsF cb g Hcb _ _ _ t0 ls body fin ext Htail)
                (sr_call_startF cb g Hcb _ _ _ t0 ls body Okl Hnp Hfit fin ext Htail)
                _ chunks Hr Hall Hc (sr_f1_free_oks _ _ _ Hf1)) as T.
  exact T.
Qed.
Print Assumptions sr_response_chunked_chunking.
