(* C04, Stage B (response phase): n responses of the wire grammar in ANY chunking of their concatenation -- a chunk may hold the
   end of one response and the beginning of the next ones -- are attached to the n transactions the requests left, in order.
   The induction of PSegPipe.v (Section PipeRun) on the response side: between two calls the parser is idle between two
   responses (RB_idle), inside a response (RB_in: PPairOne.pp_betw), or in RES_FINALIZE of a response with the beginning of the
   next status line buffered (RB_fin). *)
Require Import Htp.Model.Base Htp.Model.MBstr Htp.Model.MConnTypes Htp.Model.MTxCommon Htp.Model.MResLine Htp.Model.MTxRes.
Require Import Htp.Model.MReq Htp.Model.MRes Htp.Model.MConnp.
Require Import Htp.Spec.SWire Htp.Proof.PWire Htp.Proof.PWireHdr Htp.Proof.PWireBlock Htp.Proof.PWireConn Htp.Proof.PWireExch.
Require Import Htp.Proof.PWireRun Htp.Proof.PWirePres Htp.Proof.PWireGlue Htp.Proof.PSeg Htp.Proof.PSegLine Htp.Proof.PSegHdr Htp.Proof.PSegGen Htp.Proof.PSegRun.
Require Import Htp.Proof.PSegFold Htp.Proof.PSegRes Htp.Proof.PSegResLine Htp.Proof.PSegResHdr Htp.Proof.PSegResGen Htp.Proof.PSegResRun Htp.Proof.PSegResReq Htp.Proof.PSegResThm.
Require Import Htp.Proof.PPair Htp.Proof.PPairLine Htp.Proof.PPairHdr Htp.Proof.PPairRun Htp.Proof.PPairOne Htp.Proof.PPairFin Htp.Proof.PPairA.

(* ---- the parts of an exchange in the shape PPairOne.v wants them ---- *)
Definition px_ps (e : pp_ex) : bytes := wp_protocol (px_res e).
Definition px_st (e : pp_ex) : bytes := wp_status (px_res e).
Definition px_rp (e : pp_ex) : bytes := wp_reason (px_res e).
Definition px_line0 (e : pp_ex) : bytes := wr_ser_status_line (px_ps e) (px_st e) (px_rp e).
Definition px_ls (e : pp_ex) : list sg_fl := sr_lines (px_res e) (px_cuts e).
Definition px_hh (e : pp_ex) : bool := negb (sr_is_nil (px_ls e)).
Definition px_tend (e : pp_ex) : tx := sr_lrun (px_ls e) (None, sr_th0 (px_t0 e) (px_line0 e)).
(* the transaction when RES_FINALIZE is reached *)
Definition px_tpre (e : pp_ex) : tx :=
  match length (px_body e) with O => sr_hdrs_tx (px_tend e) | S _ => sr_body_add 0 (sr_body_add' (length (px_body e)) (sr_hdrs_tx (px_tend e))) end.

Lemma pp_ex_parts g e : pp_ex_ok g e ->
  sr_status_ok (px_ps e) (px_st e) (px_rp e) = true /\ forallb sg_fl_ok (px_ls e) = true /\ sg_needs_pending (px_ls e) = false /\
  t_is_protocol_0_9 (px_t0 e) = false /\ t_request_progress (px_t0 e) = c_HTP_REQUEST_COMPLETE /\
  sr_frame_ok (px_tend e) (length (px_body e)) = true /\ (length (px_line0 e) + 2 <= g_field_limit_hard g)%nat /\
  sr_ffit (g_field_limit_hard g) (sr_p11 (sr_th0 (px_t0 e) (px_line0 e))) None (px_ls e) = true.
Proof.
  intros (H09 & Hreq & Wr & Wc & Hfr & Hfit). destruct e as [t0 rs cuts body]. unfold px_ps, px_st, px_rp, px_line0, px_ls, px_tend. cbn [px_t0 px_res px_cuts px_body] in *.
  unfold sr_response_ok in Wr. apply andb_prop in Wr. destruct Wr as [Wl Wf].
  unfold sr_cuts_ok in Wc. apply andb_prop in Wc. destruct Wc as [_ Wc].
  destruct (sg_block_flat_ok (combine (wp_fields rs) cuts) (sr_forallb_combine_fst wr_field_ok _ cuts Wf) Wc) as [Okl Hnp].
  unfold sr_fits in Hfit. apply andb_prop in Hfit. destruct Hfit as [Hl0 Hfit]. apply Nat.leb_le in Hl0.
  rewrite <- (sr_p11_th0 t0 (sr_line0 rs)) in Hfit.
  repeat split; assumption.
Qed.
Lemma px_tpre_facts g e : pp_ex_ok g e ->
  t_res_cep (px_tpre e) = c_HTP_COMPRESSION_NONE /\ (t_response_transfer_coding (px_tpre e) =? c_HTP_CODING_NO_BODY)%Z = false /\
  (t_response_progress (px_tpre e) =? c_HTP_RESPONSE_COMPLETE)%Z = false /\ t_request_progress (px_tpre e) = c_HTP_REQUEST_COMPLETE /\
  sr_tcomplete (px_tpre e) = pp_tfin e.
Proof.
  intros Hok. destruct (pp_ex_parts g e Hok) as (_ & _ & _ & _ & Hreq & Hfr & _).
  apply (pp_Tpre_facts (px_ps e) (px_st e) (px_rp e) (px_ls e) (px_body e) (px_t0 e) Hreq Hfr).
Qed.
(* the status line starts with "HTTP" and has no LF *)
Lemma px_line0_shape g e : pp_ex_ok g e -> sr_plain (px_line0 e) = true /\ exists l, px_line0 e = 72%N :: 84%N :: 84%N :: 80%N :: l.
Proof. intros Hok. destruct (pp_ex_parts g e Hok) as (Wl & _). apply (sr_status_line_shape _ _ _ Wl). Qed.

Section PairRun.
Variable cb : cb_oracle.
Variable g : cfg.
Hypothesis Hcb : wr_all_ok cb.
Variable all : list pp_ex.
Hypothesis Hok : Forall (pp_ex_ok g) all.

Definition pp_wires (es : list pp_ex) : bytes := concat (map pp_wire es).
Definition pp_slots (es : list pp_ex) : list (option tx) := map (fun e => pr_slot g (pp_tfin e)) es.
Definition pp_pend (es : list pp_ex) : list (option tx) := map (fun e => Some (px_t0 e)) es.
(* the world of the exchange that comes after esd, es' following it *)
Definition pp_w (esd es' : list pp_ex) : pr_world := mk_pr_world (pp_slots esd) (pp_pend es').
(* the wire after the status line of e, when es' follow *)
Definition px_bwt (e : pp_ex) (es' : list pp_ex) : bytes := sg_fwire (px_ls e) ++ [CR; LF] ++ px_body e ++ pp_wires es'.
Lemma pp_wires_cons e es' : pp_wires (e :: es') = px_line0 e ++ [CR; LF] ++ px_bwt e es'.
Proof. unfold pp_wires, px_bwt, pp_wire, sr_wire, px_line0, px_ls, sr_line0, px_ps, px_st, px_rp. cbn [map concat]. rewrite <- !app_assoc. reflexivity. Qed.
Lemma pp_w_next esd e e' es'' : pr_wnext (pp_w esd (e' :: es'')) (pr_slot g (pp_tfin e)) (pp_pend es'') = pp_w (esd ++ [e]) es''.
Proof. unfold pr_wnext, pp_w, pp_slots. cbn [pw_pre]. rewrite map_app. reflexivity. Qed.
Lemma pp_w_k esd es' : pr_k (pp_w esd es') = length esd.
Proof. unfold pr_k, pp_w, pp_slots. cbn [pw_pre]. apply map_length. Qed.

(* F1: the side condition on a chunk d followed by the wire rw', for every response of the history *)
Definition pp_f1 (d rw' : bytes) : Prop :=
  forall esd e es', all = esd ++ e :: es' -> sr_f1_local (px_body e ++ pp_wires es') (px_hh e) d rw'.

(* the states between two calls: esd = the exchanges whose response is complete, es = the others *)
Inductive pp_between (esd es : list pp_ex) (c : connp) (rw : bytes) : Prop :=
| RB_idle : pr_rest c (pp_slots esd ++ pp_pend es) (length esd) -> rw = pp_wires es -> pp_between esd es c rw
| RB_in e es' : es = e :: es' ->
    pp_betw g (w := pp_w esd es') (px_ps e) (px_st e) (px_rp e) (px_ls e) (px_body e) (px_t0 e) (pp_wires es') c rw -> pp_between esd es c rw
| RB_fin e e' es'' p q : es = e :: e' :: es'' ->
    pr_midw (pp_w esd (e' :: es'')) c p None RES_FINALIZE None (px_tpre e) -> p ++ q = px_line0 e' ++ [CR; LF] -> q <> [] -> rw = q ++ px_bwt e' es'' ->
    pp_between esd es c rw.

Definition pp_rgoal (c : connp) (fuel : nat) (rw' : bytes) : Prop :=
  exists cF rc, rs_res_loop cb g fuel false c = (cF, rc) /\ exists esd' es', all = esd' ++ es' /\ pp_between esd' es' cF rw'.

Lemma pp_all_in esd e es' : all = esd ++ e :: es' -> pp_ex_ok g e.
Proof. intros E. rewrite Forall_forall in Hok. apply Hok. rewrite E. apply in_or_app. right. left. reflexivity. Qed.
Lemma pp_all_in2 esd e e' es'' : all = esd ++ e :: e' :: es'' -> pp_ex_ok g e'.
Proof. intros E. rewrite Forall_forall in Hok. apply Hok. rewrite E. apply in_or_app. right. right. left. reflexivity. Qed.

Lemma pp_rgoal_step c c' fuel (rw' : bytes) : sr_iter cb g c = inr c' -> pp_rgoal c' fuel rw' -> pp_rgoal c (S fuel) rw'.
Proof. intros E (cF & rc & El & X). exists cF, rc. split; [rewrite (sr_loop_inr cb g _ _ _ E); exact El|exact X]. Qed.
Lemma pp_rgoal_exit c cF fuel (rw' : bytes) esd' es' : sr_iter cb g c = inl (cF, c_HTP_STREAM_DATA) ->
  all = esd' ++ es' -> pp_between esd' es' cF rw' -> pp_rgoal c (S fuel) rw'.
Proof. intros E Ea B. exists cF, c_HTP_STREAM_DATA. split; [apply (sr_loop_inl cb g _ _ _ E)|]. exists esd', es'. split; assumption. Qed.

(* what RES_IDLE with data has to establish when the response of e comes next and those of es'' follow *)
Definition pp_Pidle (e : pp_ex) (es'' : list pp_ex) : Prop :=
  forall esd c d rd p q (rw' : bytes) fuel prev,
    all = esd ++ e :: es'' -> pr_idle (w := pp_w esd es'') c d rd p prev (px_t0 e) -> (rd < length d)%nat ->
    p ++ q = px_line0 e ++ [CR; LF] -> q <> [] -> skipn rd d ++ rw' = q ++ px_bwt e es'' -> pp_f1 d rw' ->
    (8 * (length d - rd) + 10 <= fuel)%nat -> pp_rgoal c fuel rw'.
Definition pp_Pnext (es' : list pp_ex) : Prop := match es' with [] => True | e' :: es'' => pp_Pidle e' es'' end.

(* the idle state at the end of a call, after the response of e *)
Lemma pp_rest_after esd e es' cD d : pr_done (pp_w esd es') cD d (length d) [] (pr_slot g (pp_tfin e)) ->
  pr_rest (rs_set_out_status c_HTP_STREAM_DATA cD) (pp_slots (esd ++ [e]) ++ pp_pend es') (length (esd ++ [e])).
Proof.
  intros Dn. pose proof (pr_done_rest _ cD d _ Dn) as R. cbn [pw_pre pw_post pp_w] in R.
  rewrite pp_w_k in R. unfold pp_slots in *. rewrite map_app, <- app_assoc, app_length. cbn [map app length]. rewrite Nat.add_1_r. exact R.
Qed.

(* ---- RES_FINALIZE of the response of e: the chunk ends, or the next response begins ---- *)
Lemma pp_run_fin esd e es' c d rd p (rw' : bytes) fuel :
  pp_Pnext es' -> all = esd ++ e :: es' ->
  pr_cinw (pp_w esd es') c d rd p None RES_FINALIZE (Some RES_FINALIZE) None (px_tpre e) -> k_consume (c_out c) = rd -> (rd = 0%nat \/ p = []) ->
  match es' with
  | [] => p = [] /\ skipn rd d ++ rw' = []
  | e' :: es'' => exists q, p ++ q = px_line0 e' ++ [CR; LF] /\ q <> [] /\ skipn rd d ++ rw' = q ++ px_bwt e' es'' /\ (skipn rd d = [] -> p = [])
  end -> pp_f1 d rw' -> (8 * (length d - rd) + 13 <= fuel)%nat -> pp_rgoal c fuel rw'.
Proof.
  intros IH Eall H Hc Htop Hw Hf1 Hf. pose proof (pi_rd _ _ _ _ _ _ _ _ _ H) as Hrd.
  destruct (px_tpre_facts g e (pp_all_in esd e es' Eall)) as (Fc & Fd & Fp & Fr & Et).
  assert (Eall' : all = (esd ++ [e]) ++ es') by (rewrite <- app_assoc; exact Eall).
  (* the chunk ends with the response *)
  assert (Hend : rd = length d -> p = [] -> rw' = pp_wires es' -> pp_rgoal c fuel rw').
  { intros Erd Ep Erw. rewrite Erd, Ep in H.
    destruct (pr_finalize_end cb g Hcb _ c d _ H Fc Fd Fp Fr) as (c1 & E1 & Dn). rewrite Et in Dn.
    destruct fuel as [|[|f]]; [lia|lia|].
    apply (pp_rgoal_step c c1 _ rw' E1).
    apply (pp_rgoal_exit c1 _ f rw' (esd ++ [e]) es' (pr_idle_end cb g _ c1 d [] _ Dn) Eall').
    apply RB_idle; [apply (pp_rest_after esd e es' c1 d Dn)|exact Erw]. }
  destruct es' as [|e' es''].
  - destruct Hw as [Ep Hw]. apply app_eq_nil in Hw. destruct Hw as [Hs Erw].
    apply Hend; [pose proof (sg_skipn_nil _ _ Hs); lia|exact Ep|rewrite Erw; reflexivity].
  - destruct Hw as (q & Hpq & Hq & Hw & Hp0).
    pose proof (pp_all_in2 esd e e' es'' Eall) as Ok'.
    destruct (pp_ex_parts g e' Ok') as (_ & _ & _ & _ & _ & _ & Hl0' & _).
    destruct (px_line0_shape g e' Ok') as (Pl & l & Esh).
    assert (Eb : px_line0 e' ++ [CR; LF] = (px_line0 e' ++ [CR]) ++ [LF]) by (rewrite <- app_assoc; reflexivity).
    assert (Hnolf : sg_no_lf (px_line0 e' ++ [CR]) = true).
    { unfold sg_no_lf. rewrite forallb_app. fold (sg_no_lf (px_line0 e')). rewrite (sr_plain_no_lf _ Pl). reflexivity. }
    destruct (Nat.eq_dec rd (length d)) as [Erd|Nrd].
    + assert (Eu : skipn rd d = []) by (apply skipn_all2; lia). rewrite Eu in Hw. cbn [app] in Hw.
      apply Hend; [exact Erd|exact (Hp0 Eu)|]. rewrite (Hp0 Eu) in Hpq. cbn [app] in Hpq. rewrite Hw, Hpq, pp_wires_cons, <- app_assoc. reflexivity.
    + assert (Hlt : (rd < length d)%nat) by lia.
      destruct (sg_app_cases (skipn rd d) rw' q _ Hw) as [Clt Cge].
      destruct (Nat.lt_ge_cases (length (skipn rd d)) (length q)) as [Llt|Lge].
      * (* no LF in the rest of the chunk: it is buffered *)
        destruct (Clt Llt) as (q2 & Eq & Hq2 & Erw).
        assert (Nu : sg_no_lf (skipn rd d) = true).
        { rewrite Eq, Eb, app_assoc in Hpq. destruct (sg_app_last _ _ _ _ Hpq Hq2) as (q3 & _ & E3). unfold sg_no_lf in *. rewrite <- E3, <- app_assoc, !forallb_app in Hnolf.
          apply andb_prop in Hnolf. destruct Hnolf as [_ Nb]. apply andb_prop in Nb. apply Nb. }
        assert (Lim : (length (p ++ skipn rd d) <= g_field_limit_hard g)%nat).
        { assert (L : length (p ++ q) = (length (px_line0 e') + 2)%nat) by (rewrite Hpq, app_length; reflexivity). rewrite app_length in L. rewrite app_length. lia. }
        destruct (pr_finalize_buffer cb g Hcb c d rd p _ H Hc Hlt Nu Lim) as (cF & EF & HF).
        destruct fuel as [|f]; [lia|].
        apply (pp_rgoal_exit c cF f rw' esd (e :: e' :: es'') EF Eall).
        apply (RB_fin _ _ _ _ e e' es'' (p ++ skipn rd d) q2 eq_refl HF); [rewrite <- app_assoc, <- Eq; exact Hpq|exact Hq2|exact Erw].
      * (* the LF of the next status line is in the chunk *)
        destruct (Cge Lge) as (d2 & Ed & Eaft).
        rewrite Eb in Hpq. destruct (sg_app_last _ _ _ _ Hpq Hq) as (q1 & Eq1 & Ep1).
        assert (Nq1 : sg_no_lf q1 = true) by (unfold sg_no_lf in *; rewrite <- Ep1, forallb_app in Hnolf; apply andb_prop in Hnolf; apply Hnolf).
        assert (Ed' : skipn rd d = q1 ++ LF :: d2) by (rewrite Ed, Eq1, <- app_assoc; reflexivity).
        assert (Esh' : p ++ q1 ++ [LF] = 72%N :: 84%N :: 84%N :: 80%N :: (l ++ [CR; LF])).
        { rewrite app_assoc, Ep1, <- app_assoc, Esh. reflexivity. }
        assert (Lim : (length (p ++ q1 ++ [LF]) <= g_field_limit_hard g)%nat).
        { rewrite app_assoc, Ep1, <- app_assoc, app_length. cbn [length app]. lia. }
        destruct (pr_finalize_next cb g Hcb c d rd p _ q1 d2 _ H Hc Htop Ed' Nq1 Esh' Lim Fc Fd Fp Fr) as (c1 & E1 & Dn). rewrite Et in Dn.
        destruct fuel as [|f]; [lia|].
        apply (pp_rgoal_step c c1 f rw' E1).
        pose proof (pr_done_idle _ c1 d rd p _ (px_t0 e') (pp_pend es'') Dn eq_refl) as Hi. rewrite pp_w_next in Hi.
        apply (IH (esd ++ [e]) c1 d rd p (q1 ++ [LF]) rw' f (Some RES_IDLE) Eall' Hi Hlt).
        -- rewrite app_assoc, Ep1. symmetry. exact Eb.
        -- intro E. apply app_eq_nil in E. destruct E as [_ E]. discriminate.
        -- rewrite <- Eq1. exact Hw.
        -- exact Hf1.
        -- lia.
Qed.

(* ---- RES_IDLE with the beginning of the response of e ---- *)
Lemma pp_run_idle_e e es' : pp_Pnext es' -> pp_Pidle e es'.
Proof.
  intros IH esd c d rd p q rw' fuel prev Eall Hi Hlt Hpq Hq Hw Hf1 Hf.
  pose proof (pp_all_in esd e es' Eall) as Oke.
  destruct (pp_ex_parts g e Oke) as (Wl & Okl & Hnp & H09 & Hreq & Hfr & Hl0 & Hfit).
  apply (pp_run_idle cb g Hcb (w := pp_w esd es') (px_ps e) (px_st e) (px_rp e) (px_ls e) (px_body e) (px_t0 e) (pp_wires es') Wl Okl Hnp H09 Hreq Hfr Hl0 Hfit
           pp_f1 (fun d0 rw0 X => X esd e es' Eall) pp_rgoal) with (d := d) (rd := rd) (p := p) (q := q) (prev := prev); try assumption.
  - apply pp_rgoal_step.
  - intros a aF f0 rw0 E B _. apply (pp_rgoal_exit a aF f0 rw0 esd (e :: es') E Eall). apply (RB_in _ _ _ _ e es' eq_refl B).
  - intros a d0 rd0 rw0 f0 Hf10 Ha Hw0 Hf0.
    destruct (pr_cin_nil _ _ _ _ _ _ _ _ Ha) as [Hc0 _].
    apply (pp_run_fin esd e es' a d0 rd0 [] rw0 f0 IH Eall Ha Hc0 (or_intror eq_refl)); [|exact Hf10|exact Hf0].
    destruct es' as [|e' es''].
    + split; [reflexivity|exact Hw0].
    + exists (px_line0 e' ++ [CR; LF]). split; [reflexivity|]. split; [intro E; apply app_eq_nil in E; destruct E as [_ E]; discriminate|].
      split; [rewrite Hw0, pp_wires_cons, <- app_assoc; reflexivity|reflexivity].
Qed.
Lemma pp_Pidle_all : forall es' e, pp_Pidle e es'.
Proof. induction es' as [|e' es'' IH]; intros e; apply pp_run_idle_e; [exact I|apply IH]. Qed.
Lemma pp_Pnext_all es' : pp_Pnext es'.
Proof. destruct es' as [|e' es'']; [exact I|apply pp_Pidle_all]. Qed.

(* ---- one call of htp_connp_res_data ---- *)
Lemma pp_pstep esd es c (rw x rw' : bytes) : all = esd ++ es -> pp_between esd es c rw -> x <> [] -> rw = x ++ rw' -> pp_f1 x rw' ->
  exists c' rc, connp_res_data cb g (Some x) (length x) c = (c', rc) /\ exists esd' es', all = esd' ++ es' /\ pp_between esd' es' c' rw'.
Proof.
  intros Eall B Hne Ex Hf1.
  assert (Lx : (0 < length x)%nat) by (destruct x; [contradiction|cbn; lia]).
  destruct B as [Hr Erw|e es' Ees B|e e' es'' p q Ees Hm Hpq Hq Erw].
  - (* between two responses *)
    destruct es as [|e es'].
    + exfalso. cbn in Erw. rewrite Erw in Ex. destruct x; [contradiction|discriminate].
    + assert (Hr' : pr_ready (pp_w esd es') c (px_t0 e)) by (unfold pr_ready; rewrite pp_w_k; exact Hr).
      destruct (pr_enter_ready cb g _ c _ x Hr' Hne) as (c1 & E1 & H1). unfold bytes in *. rewrite E1.
      rewrite pp_wires_cons, app_assoc in Erw.
      apply (pp_Pidle_all es' e esd c1 x 0 [] (px_line0 e ++ [CR; LF]) rw' _ _ Eall H1 Lx eq_refl).
      * intro E. apply app_eq_nil in E. destruct E as [_ E]. discriminate.
      * cbn [skipn]. rewrite <- Ex. exact Erw.
      * exact Hf1.
      * unfold rs_res_fuel. lia.
  - (* inside a response *)
    subst es. pose proof (pp_all_in esd e es' Eall) as Oke.
    destruct (pp_ex_parts g e Oke) as (Wl & Okl & Hnp & H09 & Hreq & Hfr & Hl0 & Hfit).
    destruct (pp_step cb g Hcb (w := pp_w esd es') (px_ps e) (px_st e) (px_rp e) (px_ls e) (px_body e) (px_t0 e) (pp_wires es') Wl Okl Hnp Hreq Hfr Hl0 Hfit
                pp_f1 (fun d0 rw0 X => X esd e es' Eall) pp_rgoal) with (c := c) (rw := rw) (x := x) (rw' := rw') as (c1 & E1 & G); try assumption.
    + apply pp_rgoal_step.
    + intros a aF f0 rw0 E B0 _. apply (pp_rgoal_exit a aF f0 rw0 esd (e :: es') E Eall). apply (RB_in _ _ _ _ e es' eq_refl B0).
    + intros a d0 rd0 rw0 f0 Hf10 Ha Hw0 Hf0.
      destruct (pr_cin_nil _ _ _ _ _ _ _ _ Ha) as [Hc0 _].
      apply (pp_run_fin esd e es' a d0 rd0 [] rw0 f0 (pp_Pnext_all es') Eall Ha Hc0 (or_intror eq_refl)); [|exact Hf10|exact Hf0].
      destruct es' as [|e' es''].
      * split; [reflexivity|exact Hw0].
      * exists (px_line0 e' ++ [CR; LF]). split; [reflexivity|]. split; [intro E; apply app_eq_nil in E; destruct E as [_ E]; discriminate|].
        split; [rewrite Hw0, pp_wires_cons, <- app_assoc; reflexivity|reflexivity].
    + unfold bytes in *. rewrite E1. exact G.
  - (* RES_FINALIZE with the beginning of the next status line buffered *)
    subst es. destruct (pr_enter cb g c p None _ _ _ x Hm Hne) as (c1 & E1 & H1). unfold bytes in *. rewrite E1.
    assert (Hc1 : k_consume (c_out c1) = 0%nat) by (pose proof (pi_cons _ _ _ _ _ _ _ _ _ H1); lia).
    apply (pp_run_fin esd e (e' :: es'') c1 x 0 p rw' _ (pp_Pidle_all es'' e') Eall H1 Hc1 (or_introl eq_refl)); [|exact Hf1|unfold rs_res_fuel; lia].
    exists q. split; [exact Hpq|]. split; [exact Hq|]. split; [cbn [skipn]; rewrite <- Ex; exact Erw|]. cbn [skipn]. intros E. contradiction.
Qed.

(* ---- finish_call between two calls ---- *)
Lemma pp_between_finish esd es c rw : pp_between esd es c rw -> pp_between esd es (forget_chunks c <| c_events := [] |>) rw.
Proof.
  intros [Hr Erw|e es' Ees B|e e' es'' p q Ees Hm Hpq Hq Erw].
  - apply RB_idle; [apply pr_rest_finish; exact Hr|exact Erw].
  - apply (RB_in _ _ _ _ e es' Ees). apply pp_betw_finish. exact B.
  - apply (RB_fin _ _ _ _ e e' es'' p q Ees (pr_mid_finish _ _ _ _ _ _ _ Hm) Hpq Hq Erw).
Qed.

(* when no wire is left, every response is complete *)
Lemma pp_wires_ne e es' : pp_wires (e :: es') <> [].
Proof. rewrite pp_wires_cons. intro E. apply app_eq_nil in E. destruct E as [_ E]. discriminate. Qed.
Lemma pp_between_end esd es c : all = esd ++ es -> pp_between esd es c [] -> pr_rest c (pp_slots all) (length all).
Proof.
  intros Eall [Hr Erw|e es' Ees B|e e' es'' p q Ees Hm Hpq Hq Erw].
  - destruct es as [|e es']; [|exfalso; apply (pp_wires_ne e es'); symmetry; exact Erw].
    rewrite app_nil_r in Eall. subst esd. cbn [pp_pend map] in Hr. rewrite app_nil_r in Hr. exact Hr.
  - exfalso. destruct B as [p q _ _ Hq Erw|p hdr t _ Hl|k Hk _ _ Erw].
    + destruct q; [contradiction|discriminate].
    + destruct Hl as (pend & tl & rem & q & ea & _ & _ & _ & _ & _ & Hne & Hea & E & _). destruct ea.
      * destruct (Hea eq_refl) as (_ & _ & Eq & _). subst q. discriminate.
      * destruct (Hne eq_refl) as (_ & Hq). destruct q; [contradiction|discriminate].
    + symmetry in Erw. apply app_eq_nil in Erw. destruct Erw as [E _]. apply (f_equal (@length N)) in E. rewrite skipn_length in E. cbn [length] in E. lia.
  - exfalso. destruct q; [contradiction|discriminate].
Qed.

(* ---- every chunk ---- *)
Lemma pp_pchunks : forall (chunks : list bytes) c esd es rw, all = esd ++ es -> pp_between esd es c rw ->
  Forall (fun x => x <> []) chunks -> concat chunks = rw -> sr_oks pp_f1 chunks ->
  pr_rest (fst (cp_run cb g c (map OpResData chunks))) (pp_slots all) (length all).
Proof.
  induction chunks as [|x rest IH]; intros c esd es rw Eall B Hall Hc Hoks.
  - cbn [concat] in Hc. subst rw. cbn [map cp_run fst]. apply (pp_between_end esd es c Eall B).
  - cbn [concat] in Hc. cbn [map]. rewrite sr_cp_run_cons. destruct Hoks as [Hok1 Hoks].
    destruct (pp_pstep esd es c rw x (concat rest) Eall B (Forall_inv Hall) (eq_sym Hc) Hok1) as (c' & rc & E & esd' & es' & Eall' & B').
    unfold bytes in *. rewrite E. cbn [fst].
    apply (IH _ esd' es' (concat rest) Eall' (pp_between_finish _ _ _ _ B') (Forall_inv_tail Hall) eq_refl Hoks).
Qed.
End PairRun.
