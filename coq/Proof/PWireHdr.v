(* C02, header level: one header line (request and response parsers), the line-end removal in front of it. *)
Require Import Htp.Model.Base Htp.Model.MBstr Htp.Model.MConnTypes Htp.Model.MReqLine Htp.Model.MResLine Htp.Spec.SWire Htp.Proof.PWire.

(* ---------------------------------------------------------------- htp_chomp on a line followed by its line end *)
Lemma wr_rev_append_rev {A} (l : list A) : rev_append l [] = rev l.
Proof. rewrite rev_append_rev, app_nil_r. reflexivity. Qed.

Lemma wr_eol_cases e : wr_eol e = true -> e = [] \/ e = [LF] \/ e = [CR; LF].
Proof.
  unfold wr_eol. intros H. apply orb_prop in H. destruct H as [H|H]; [apply orb_prop in H; destruct H as [H|H]|]; apply wr_eqb_eq in H; auto.
Qed.

(* a line whose last byte is neither CR nor LF *)
Definition wr_last_plain (line : bytes) : Prop :=
  exists y r, rev line = y :: r /\ (y =? CR)%N = false /\ (y =? LF)%N = false.

Lemma wr_chomp_rev_plain y r : (y =? CR)%N = false -> (y =? LF)%N = false -> rq_chomp_rev (y :: r) = y :: r.
Proof. intros H1 H2. cbn [rq_chomp_rev]. rewrite H2, H1. reflexivity. Qed.

Lemma wr_chomp_line line e : wr_eol e = true -> wr_last_plain line -> htp_chomp (line ++ e) = line.
Proof.
  intros He (y & r & Hr & H1 & H2). unfold htp_chomp. rewrite !wr_rev_append_rev, rev_app_distr, Hr.
  destruct (wr_eol_cases e He) as [E|[E|E]]; subst e; cbn [rev app rq_chomp_rev];
    repeat rewrite N.eqb_refl; rewrite ?H1, ?H2; cbv iota; rewrite <- Hr, rev_involutive; reflexivity.
Qed.

Lemma wr_rs_chomp_line line e : wr_eol e = true -> wr_last_plain line -> fst (rs_chomp (line ++ e)) = line.
Proof.
  intros He (y & r & Hr & H1 & H2). unfold rs_chomp, rs_rev. rewrite !wr_rev_append_rev, rev_app_distr, Hr.
  destruct (wr_eol_cases e He) as [E|[E|E]]; subst e; cbn [rev app rs_chomp_rev];
    repeat rewrite N.eqb_refl; rewrite ?H1, ?H2; cbv iota; cbn [fst]; rewrite ?wr_rev_append_rev, <- Hr, rev_involutive; reflexivity.
Qed.

(* every byte of a serialised header line is neither CR nor LF, and the line is not empty *)
Lemma wr_plain_last line : line <> [] -> forallb wr_value_byte line = true -> wr_last_plain line.
Proof.
  intros Hn F. destruct (rev line) as [|y r] eqn:E.
  - apply (f_equal (@rev N)) in E. rewrite rev_involutive in E. contradiction.
  - exists y, r. split; [exact E|]. rewrite forallb_forall in F. assert (Hy : In y line) by (apply in_rev; rewrite E; left; reflexivity).
    specialize (F y Hy). unfold wr_value_byte in F. apply andb_prop in F. destruct F as [F1 F2]. split; apply negb_true_iff; assumption.
Qed.

Lemma wr_token_value_bytes n : forallb htp_is_token n = true -> forallb wr_value_byte n = true.
Proof.
  apply wr_forallb_impl. intros b Hb. destruct (wr_token_facts b Hb) as (_ & _ & _ & _ & _ & _ & A & B). unfold wr_value_byte. rewrite A, B. reflexivity.
Qed.
Lemma wr_lws_value_bytes w : forallb htp_is_lws w = true -> forallb wr_value_byte w = true.
Proof.
  apply wr_forallb_impl. intros b Hb. destruct (wr_space_facts b) as (_ & F & _). destruct (F Hb) as (_ & A & B & _). unfold wr_value_byte. rewrite A, B. reflexivity.
Qed.

Lemma wr_header_line_plain n lws1 v lws2 : wr_wf_header n v = true -> wr_lws lws1 = true -> wr_lws lws2 = true ->
  wr_last_plain (wr_ser_header n lws1 v lws2).
Proof.
  intros W L1 L2. unfold wr_wf_header in W. apply andb_prop in W. destruct W as [Wn Wv].
  destruct (wr_token_split n Wn) as (n0 & nr & En & Tn). unfold wr_value_ok in Wv. apply andb_prop in Wv. destruct Wv as [Wv _].
  apply andb_prop in Wv. destruct Wv as [Wv _].
  apply wr_plain_last.
  - unfold wr_ser_header. rewrite En. discriminate.
  - unfold wr_ser_header. rewrite !wr_forallb_app, (wr_token_value_bytes n Tn), (wr_lws_value_bytes _ L1), (wr_lws_value_bytes _ L2), Wv. reflexivity.
Qed.

(* ---------------------------------------------------------------- the backward scans *)
Lemma wr_last_split (s : bytes) : s <> [] -> exists s' z, s = s' ++ [z].
Proof. intros H. destruct (exists_last H) as (s' & z & E). exists s', z. exact E. Qed.

Lemma rq_name_end_stop d k : htp_is_lws (rq_at d k) = false -> rq_name_end d (S k) = S k.
Proof. intros H. cbn [rq_name_end]. rewrite H. reflexivity. Qed.
Lemma rs_name_end_stop d k : htp_is_space (rs_at d k) = false -> rs_name_end d (S k) = S k.
Proof. intros H. cbn [rs_name_end]. rewrite H. reflexivity. Qed.

(* trailing LWS w of d = pre ++ w ++ tail is stripped as long as the value start stays at least two below *)
Lemma rq_value_end_strip : forall w pre tail fuel vs, forallb htp_is_lws w = true -> (length w <= fuel)%nat -> (vs + 1 <= length pre)%nat ->
  rq_value_end (pre ++ w ++ tail) fuel (length pre + length w) vs = rq_value_end (pre ++ w ++ tail) (fuel - length w) (length pre) vs.
Proof.
  induction w as [|z w IH] using rev_ind; intros pre tail fuel vs F L V.
  - cbn [length]. rewrite Nat.add_0_r, Nat.sub_0_r. reflexivity.
  - rewrite forallb_app in F. apply andb_prop in F. destruct F as [F1 F2]. cbn [forallb] in F2. rewrite andb_true_r in F2.
    rewrite app_length in *. cbn [length] in *. destruct fuel as [|fuel]; [lia|].
    cbn [rq_value_end].
    replace (length pre + (length w + 1) - 1)%nat with (length pre + length w)%nat by lia.
    assert (Hat : rq_at (pre ++ (w ++ [z]) ++ tail) (length pre + length w) = z).
    { unfold rq_at. replace (pre ++ (w ++ [z]) ++ tail) with ((pre ++ w) ++ z :: tail) by (rewrite <- !app_assoc; reflexivity).
      rewrite <- app_length. apply nth_app_exact. }
    rewrite Hat, F2. assert (Hlt : (vs <? length pre + length w)%nat = true) by (apply Nat.ltb_lt; lia). rewrite Hlt. cbn [andb].
    replace ((w ++ [z]) ++ tail) with (w ++ [z] ++ tail) by (rewrite <- app_assoc; reflexivity).
    rewrite IH by (try assumption; lia). f_equal. lia.
Qed.
Lemma rq_value_end_stop d fuel ve vs : (vs <? ve - 1)%nat && htp_is_lws (rq_at d (ve - 1)) = false -> rq_value_end d fuel ve vs = ve.
Proof. intros H. destruct fuel; [reflexivity|]. cbn [rq_value_end]. rewrite H. reflexivity. Qed.

(* ---------------------------------------------------------------- (3) one header line, request parser *)
Lemma wr_value_shape v : wr_value_ok v = true ->
  v = [] \/ (exists v0 vr, v = v0 :: vr /\ htp_is_lws v0 = false) /\ (exists v' z, v = v' ++ [z] /\ htp_is_lws z = false).
Proof.
  unfold wr_value_ok. intros H. apply andb_prop in H. destruct H as [H H3]. apply andb_prop in H. destruct H as [_ H2].
  destruct v as [|v0 vr]; [left; reflexivity|right]. split.
  - exists v0, vr. split; [reflexivity|]. cbn in H2. apply negb_true_iff in H2. exact H2.
  - destruct (wr_last_split (v0 :: vr)) as (v' & z & E); [discriminate|]. exists v', z. split; [exact E|].
    rewrite E, rev_app_distr in H3. cbn in H3. apply negb_true_iff in H3. exact H3.
Qed.

Theorem wr_req_header_roundtrip : forall n lws1 v lws2 e,
  wr_wf_header n v = true -> wr_lws lws1 = true -> wr_lws lws2 = true -> wr_eol e = true ->
  htp_parse_request_header_generic (wr_ser_header n lws1 v lws2 ++ e) = (mkhdr n v 0%N, 0%N).
Proof.
  intros n lws1 v lws2 e W L1 L2 He. unfold htp_parse_request_header_generic.
  rewrite (wr_chomp_line _ e He (wr_header_line_plain n lws1 v lws2 W L1 L2)).
  unfold wr_wf_header in W. apply andb_prop in W. destruct W as [Wn Wv].
  destruct (wr_token_split n Wn) as (n0 & nr & En & Tn).
  destruct (wr_last_split n) as (n' & nz & En'); [rewrite En; discriminate|].
  assert (Tz : htp_is_token nz = true).
  { rewrite En', forallb_app in Tn. apply andb_prop in Tn. destruct Tn as [_ T]. cbn in T. rewrite andb_true_r in T. exact T. }
  assert (Ln : length n = S (length n')) by (rewrite En', app_length; cbn; lia).
  unfold wr_ser_header. set (d := n ++ [58%N] ++ lws1 ++ v ++ lws2).
  assert (Ld : length d = (length n + 1 + length lws1 + length v + length lws2)%nat) by (unfold d; rewrite !app_length; cbn [length]; lia).
  (* the colon *)
  assert (E1 : rq_fwd_while (fun b => negb (b =? 0)%N && negb (b =? 58)%N) d 0 (length d) = length n).
  { pose proof (rq_fwd_while_seg (fun b => negb (b =? 0)%N && negb (b =? 58)%N) [] n ([58%N] ++ lws1 ++ v ++ lws2)) as E.
    cbn [app length] in E. apply E; [|reflexivity].
    eapply wr_forallb_impl; [|exact Tn]. intros b Hb. destruct (wr_token_facts b Hb) as (_ & _ & A & B & _). rewrite A, B. reflexivity. }
  rewrite E1.
  assert (N1 : (length n =? length d)%nat = false) by (apply Nat.eqb_neq; lia).
  assert (Hc : rq_at d (length n) = 58%N) by (unfold rq_at, d; cbn [app]; apply nth_app_exact).
  rewrite N1, Hc. cbn [N.eqb orb].
  assert (N2 : (length n =? 0)%nat = false) by (apply Nat.eqb_neq; lia). rewrite N2.
  (* the name *)
  assert (E2 : rq_name_end d (length n) = length n).
  { rewrite Ln. apply rq_name_end_stop. unfold rq_at, d. rewrite En', <- !app_assoc. cbn [app]. rewrite nth_app_exact.
    apply (wr_token_facts nz Tz). }
  rewrite E2, Nat.ltb_irrefl.
  assert (N3 : (length n <? length d)%nat = true) by (apply Nat.ltb_lt; lia). rewrite N3.
  assert (E3 : rq_sub d 0 (length n) = n).
  { pose proof (rq_sub_seg [] n ([58%N] ++ lws1 ++ v ++ lws2)) as E. cbn [app length] in E. exact E. }
  rewrite E3, Tn.
  assert (Dv : d = (n ++ [58%N]) ++ lws1 ++ v ++ lws2) by (unfold d; rewrite <- app_assoc; reflexivity).
  assert (Lc : length (n ++ [58%N]) = S (length n)) by (rewrite app_length; cbn; lia).
  destruct (wr_value_shape v Wv) as [Ev|[(v0 & vr & Ev & Hv0) (v' & vz & Ev' & Hvz)]].
  - (* empty value: the LWS runs to the end of the line *)
    subst v. cbn [app] in *.
    assert (E4 : rq_fwd_while htp_is_lws d (S (length n)) (length d) = length d).
    { pose proof (rq_fwd_while_seg htp_is_lws (n ++ [58%N]) (lws1 ++ lws2) []) as E. rewrite Lc, app_nil_r in E.
      rewrite <- Dv in E. rewrite E; [rewrite Ld, app_length; cbn [length]; lia| |exact I].
      rewrite forallb_app. unfold wr_lws in L1, L2. rewrite L1, L2. reflexivity. }
    rewrite E4.
    assert (E5 : rq_value_end d (length d) (length d) (length d) = length d).
    { apply rq_value_end_stop. assert (H : (length d <? length d - 1)%nat = false) by (apply Nat.ltb_ge; lia). rewrite H. reflexivity. }
    rewrite E5. unfold rq_sub at 1. rewrite Nat.sub_diag. cbn [firstn]. reflexivity.
  - (* the value between the two LWS runs *)
    assert (E4 : rq_fwd_while htp_is_lws d (S (length n)) (length d) = (S (length n) + length lws1)%nat).
    { pose proof (rq_fwd_while_seg htp_is_lws (n ++ [58%N]) lws1 (v ++ lws2)) as E. rewrite Lc in E. rewrite <- Dv in E.
      apply E; [exact L1|]. rewrite Ev. cbn. exact Hv0. }
    rewrite E4.
    set (vs := (S (length n) + length lws1)%nat).
    assert (Dw : d = (n ++ [58%N] ++ lws1 ++ v) ++ lws2 ++ []) by (unfold d; rewrite app_nil_r, <- !app_assoc; reflexivity).
    assert (Lw : length (n ++ [58%N] ++ lws1 ++ v) = (vs + length v)%nat) by (unfold vs; rewrite !app_length; cbn [length]; lia).
    assert (Lv : (1 <= length v)%nat) by (rewrite Ev; cbn; lia).
    assert (E5 : rq_value_end d (length d) (length d) vs = (vs + length v)%nat).
    { replace (length d) with (length (n ++ [58%N] ++ lws1 ++ v) + length lws2)%nat at 2 by (rewrite Lw, Ld; unfold vs; lia).
      rewrite Dw at 1. rewrite rq_value_end_strip; [|exact L2|rewrite Ld; lia|rewrite Lw; lia].
      rewrite <- Dw, Lw. apply rq_value_end_stop.
      assert (Hat : rq_at d (vs + length v - 1) = vz).
      { unfold rq_at. replace d with ((n ++ [58%N] ++ lws1 ++ v') ++ vz :: lws2) by (unfold d; rewrite Ev', <- !app_assoc; reflexivity).
        replace (vs + length v - 1)%nat with (length (n ++ [58%N] ++ lws1 ++ v')).
        - apply nth_app_exact.
        - unfold vs. rewrite Ev', !app_length. cbn [length]. lia. }
      rewrite Hat, Hvz. apply andb_false_r. }
    rewrite E5.
    assert (E6 : rq_sub d vs (vs + length v) = v).
    { pose proof (rq_sub_seg (n ++ [58%N] ++ lws1) v lws2) as E.
      replace (length (n ++ [58%N] ++ lws1)) with vs in E by (unfold vs; rewrite !app_length; cbn [length]; lia).
      replace ((n ++ [58%N] ++ lws1) ++ v ++ lws2) with d in E by (unfold d; rewrite <- !app_assoc; reflexivity). exact E. }
    rewrite E6. reflexivity.
Qed.

(* ---------------------------------------------------------------- (3) one header line, response parser *)
Theorem wr_res_header_roundtrip : forall n lws1 v lws2 e txflags,
  wr_wf_header n v = true -> wr_lws lws1 = true -> wr_lws lws2 = true -> wr_eol e = true ->
  rs_parse_response_header (wr_ser_header n lws1 v lws2 ++ e) txflags = (mkhdr n v 0%N, txflags).
Proof.
  intros n lws1 v lws2 e txflags W L1 L2 He. unfold rs_parse_response_header.
  rewrite (wr_rs_chomp_line _ e He (wr_header_line_plain n lws1 v lws2 W L1 L2)).
  unfold wr_wf_header in W. apply andb_prop in W. destruct W as [Wn Wv].
  destruct (wr_token_split n Wn) as (n0 & nr & En & Tn).
  destruct (wr_last_split n) as (n' & nz & En'); [rewrite En; discriminate|].
  assert (Tz : htp_is_token nz = true).
  { rewrite En', forallb_app in Tn. apply andb_prop in Tn. destruct Tn as [_ T]. cbn in T. rewrite andb_true_r in T. exact T. }
  assert (Ln : length n = S (length n')) by (rewrite En', app_length; cbn; lia).
  unfold wr_ser_header. set (d := n ++ [58%N] ++ lws1 ++ v ++ lws2).
  assert (Ld : length d = (length n + 1 + length lws1 + length v + length lws2)%nat) by (unfold d; rewrite !app_length; cbn [length]; lia).
  rewrite !rs_fwd_while_rq.
  assert (E1 : rq_fwd_while (fun b => negb (b =? 58)%N) d 0 (length d) = length n).
  { pose proof (rq_fwd_while_seg (fun b => negb (b =? 58)%N) [] n ([58%N] ++ lws1 ++ v ++ lws2)) as E.
    cbn [app length] in E. apply E; [|reflexivity].
    eapply wr_forallb_impl; [|exact Tn]. intros b Hb. destruct (wr_token_facts b Hb) as (_ & _ & _ & B & _). rewrite B. reflexivity. }
  rewrite E1.
  assert (N1 : (length n =? length d)%nat = false) by (apply Nat.eqb_neq; lia).
  assert (N2 : (length n =? 0)%nat = false) by (apply Nat.eqb_neq; lia). rewrite N1, N2.
  assert (E2 : rs_name_end d (length n) = length n).
  { rewrite Ln. apply rs_name_end_stop. unfold rs_at, d. rewrite En', <- !app_assoc. cbn [app]. rewrite nth_app_exact.
    apply (wr_token_facts nz Tz). }
  rewrite E2, Nat.ltb_irrefl.
  assert (E3 : rs_name_is_token d (length n) = true).
  { unfold rs_name_is_token, d. rewrite firstn_app_exact. exact Tn. }
  assert (E3' : rs_sub d 0 (length n) = n).
  { pose proof (rq_sub_seg [] n ([58%N] ++ lws1 ++ v ++ lws2)) as E. cbn [app length] in E. exact E. }
  assert (N3 : (0 <? length d)%nat = true) by (apply Nat.ltb_lt; lia).
  assert (Dv : d = (n ++ [58%N]) ++ lws1 ++ v ++ lws2) by (unfold d; rewrite <- app_assoc; reflexivity).
  assert (Lc : length (n ++ [58%N]) = S (length n)) by (rewrite app_length; cbn; lia).
  destruct (wr_value_shape v Wv) as [Ev|[(v0 & vr & Ev & Hv0) (v' & vz & Ev' & Hvz)]].
  - subst v. cbn [app] in *.
    assert (E4 : rq_fwd_while htp_is_lws d (S (length n)) (length d) = length d).
    { pose proof (rq_fwd_while_seg htp_is_lws (n ++ [58%N]) (lws1 ++ lws2) []) as E. rewrite Lc, app_nil_r in E.
      rewrite <- Dv in E. rewrite E; [rewrite Ld, app_length; cbn [length]; lia| |exact I].
      rewrite forallb_app. unfold wr_lws in L1, L2. rewrite L1, L2. reflexivity. }
    cbv zeta. rewrite ?rs_fwd_while_rq, E4, E3, N3, rs_value_end_rq.
    assert (E5 : rq_value_end d (length d) (length d) (length d) = length d).
    { apply rq_value_end_stop. assert (H : (length d <? length d - 1)%nat = false) by (apply Nat.ltb_ge; lia). rewrite H. reflexivity. }
    rewrite E5, E3'. unfold rs_sub. rewrite Nat.sub_diag. cbn [firstn]. reflexivity.
  - assert (E4 : rq_fwd_while htp_is_lws d (S (length n)) (length d) = (S (length n) + length lws1)%nat).
    { pose proof (rq_fwd_while_seg htp_is_lws (n ++ [58%N]) lws1 (v ++ lws2)) as E. rewrite Lc in E. rewrite <- Dv in E.
      apply E; [exact L1|]. rewrite Ev. cbn. exact Hv0. }
    cbv zeta. rewrite ?rs_fwd_while_rq, E4, E3, N3, rs_value_end_rq.
    set (vs := (S (length n) + length lws1)%nat).
    assert (Dw : d = (n ++ [58%N] ++ lws1 ++ v) ++ lws2 ++ []) by (unfold d; rewrite app_nil_r, <- !app_assoc; reflexivity).
    assert (Lw : length (n ++ [58%N] ++ lws1 ++ v) = (vs + length v)%nat) by (unfold vs; rewrite !app_length; cbn [length]; lia).
    assert (Lv : (1 <= length v)%nat) by (rewrite Ev; cbn; lia).
    assert (E5 : rq_value_end d (length d) (length d) vs = (vs + length v)%nat).
    { replace (length d) with (length (n ++ [58%N] ++ lws1 ++ v) + length lws2)%nat at 2 by (rewrite Lw, Ld; unfold vs; lia).
      rewrite Dw at 1. rewrite rq_value_end_strip; [|exact L2|rewrite Ld; lia|rewrite Lw; lia].
      rewrite <- Dw, Lw. apply rq_value_end_stop.
      assert (Hat : rq_at d (vs + length v - 1) = vz).
      { unfold rq_at. replace d with ((n ++ [58%N] ++ lws1 ++ v') ++ vz :: lws2) by (unfold d; rewrite Ev', <- !app_assoc; reflexivity).
        replace (vs + length v - 1)%nat with (length (n ++ [58%N] ++ lws1 ++ v')).
        - apply nth_app_exact.
        - unfold vs. rewrite Ev', !app_length. cbn [length]. lia. }
      rewrite Hat, Hvz. apply andb_false_r. }
    rewrite E5, E3'.
    assert (E6 : rs_sub d vs (vs + length v) = v).
    { pose proof (rq_sub_seg (n ++ [58%N] ++ lws1) v lws2) as E.
      replace (length (n ++ [58%N] ++ lws1)) with vs in E by (unfold vs; rewrite !app_length; cbn [length]; lia).
      replace ((n ++ [58%N] ++ lws1) ++ v ++ lws2) with d in E by (unfold d; rewrite <- !app_assoc; reflexivity). exact E. }
    rewrite E6. reflexivity.
Qed.
