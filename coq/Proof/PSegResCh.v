(* C03, response direction, chunk-coded response bodies -- the exact one-pass lemmas.  Every lemma is an
   invariant-preservation statement on PSegRes.sr_cin (which fixes the whole transaction list [Some t], the out cursor and
   buffers, the state): RES_BODY_CHUNKED_LENGTH over a size line that is cut anywhere -- including the look-ahead
   data_probe_chunk_length, which since /repo d2483dd reads out_buf ++ the unconsumed bytes, i.e. exactly the seen part p of
   the invariant: a line whose value is >= 0 passes it at every byte whatever the cuts --, RES_BODY_CHUNKED_DATA,
   RES_BODY_CHUNKED_DATA_END, the last-chunk line with the state change into RES_HEADERS (progress TRAILER: the
   RESPONSE_TRAILER_DATA receiver is installed) and the empty line of the trailer block (receiver finalised, RESPONSE_TRAILER
   hook, RES_FINALIZE).  The transaction is tracked as sr_cbody e m t0 = t0 with e added to response_entity_len and m added
   to response_message_len. *)
Require Import Htp.Model.Base Htp.Model.MBstr Htp.Model.MConnTypes Htp.Model.MTxCommon Htp.Model.MResLine Htp.Model.MTxRes.
Require Import Htp.Model.MReq Htp.Model.MRes Htp.Model.MConnp.
Require Import Htp.Spec.SWire Htp.Spec.SBody Htp.Proof.PWire Htp.Proof.PWireHdr Htp.Proof.PWireBlock Htp.Proof.PWireConn Htp.Proof.PWireExch.
Require Import Htp.Proof.PWireRun Htp.Proof.PWirePres Htp.Proof.PWireGlue Htp.Proof.PSeg Htp.Proof.PSegLine Htp.Proof.PSegHdr Htp.Proof.PSegGen Htp.Proof.PSegRun.
Require Import Htp.Proof.PSegFold Htp.Proof.PSegRes Htp.Proof.PSegResLine Htp.Proof.PSegResHdr Htp.Proof.PSegResGen Htp.Proof.PSegResRun.
Require Import Htp.Proof.PBody Htp.Proof.PBodyRes Htp.Proof.PBodyResRun Htp.Proof.PBodyResId Htp.Proof.PBodyResLine Htp.Proof.PBodyResChunked.
Require Import Htp.Proof.PSegResChGen.

(* ---- the transaction inside a chunk-coded body ---- *)
Definition sr_msg_add (k : Z) (t : tx) : tx := t <| t_response_message_len ::= Z.add k |>.
Definition sr_cbody (e m : Z) (t0 : tx) : tx := t0 <| t_response_entity_len ::= Z.add e |> <| t_response_message_len ::= Z.add m |>.

Lemma sr_cbody_msg k e m t0 : sr_msg_add k (sr_cbody e m t0) = sr_cbody e (m + k) t0.
Proof. apply sr_tx_ext2; [reflexivity|reflexivity|unfold sr_msg_add, sr_cbody; cbn [t_response_message_len set]; lia]. Qed.
Lemma sr_cbody_deliver k e m t0 : sr_body_add k (sr_cbody e m t0) = sr_cbody (e + Z.of_nat k) (m + Z.of_nat k) t0.
Proof. apply sr_tx_ext2; [reflexivity|unfold sr_body_add, sr_cbody; cbn [t_response_entity_len t_response_message_len set]; lia|unfold sr_body_add, sr_cbody; cbn [t_response_entity_len t_response_message_len set]; lia]. Qed.
Lemma sr_cbody_start t0 : t0 = sr_cbody 0 0 t0.
Proof. apply sr_tx_ext2; [reflexivity|reflexivity|reflexivity]. Qed.
Lemma sr_msg_succ t : t <| t_response_message_len ::= Z.succ |> = sr_msg_add 1 t.
Proof. apply sr_tx_ext2; [reflexivity|reflexivity|unfold sr_msg_add; cbn [t_response_message_len set]; lia]. Qed.
Lemma sr_msg_add_add a b t : sr_msg_add a (sr_msg_add b t) = sr_msg_add (b + a) t.
Proof. apply sr_tx_ext2; [reflexivity|reflexivity|unfold sr_msg_add; cbn [t_response_message_len set]; lia]. Qed.
Lemma sr_msg_add_0 t : sr_msg_add 0 t = t.
Proof. apply sr_tx_ext2; [reflexivity|reflexivity|reflexivity]. Qed.

(* ---- the continuation of RES_BODY_CHUNKED_LENGTH once the end of the line has been recognised (f = the fuel that is left) ---- *)
Definition sr_cline_done (g : cfg) (f : nat) (c : connp) : st * connp :=
  match rs_consolidate g c with
  | (None, c) => (ST_ERROR, c)
  | (Some data, c) =>
    let d := rs_dbytes data in
    let len := length d in
    let c := rs_otx (fun t => t <| t_response_message_len ::= Z.add (Z.of_nat len) |>) c in
    let cl := fst (parse_chunked_length d) in
    let c := c <| c_out_chunked_length := cl |> in
    if (cl =? -1004)%Z then rs_chunked_length_loop g f (rs_clear_buffer c)
    else if (cl <? 0)%Z then
      let c := rs_set_out (fun k => k <| k_read := if (k_read k <? len)%nat then 0%nat else (k_read k - len)%nat |>) c in
      let c := rs_set_state RES_BODY_IDENTITY_STREAM_CLOSE c in
      (ST_OK, rs_otx (fun t => t <| t_response_transfer_coding := c_HTP_CODING_IDENTITY |>) c)
    else
      let c := rs_clear_buffer c in
      if (0 <? cl)%Z then (ST_OK, rs_set_state RES_BODY_CHUNKED_DATA c)
      else
        let c := rs_set_state RES_HEADERS c in
        (ST_OK, rs_otx (fun t => t <| t_response_progress := c_HTP_RESPONSE_TRAILER |>) c)
  end.
Lemma sr_clen_loop_S g f c : rs_chunked_length_loop g (S f) c =
  match rs_copy_byte c with
  | None => (ST_DATA_BUFFER, c)
  | Some c =>
    let nb := match rs_nb c with Some b => b | None => 0%N end in
    if (nb =? LF)%N || (negb (rs_is_chunked_ctl_char nb) && negb (rs_data_probe_chunk_length (rs_dbytes (k_buf (c_out c)) ++ rs_unconsumed c)))
    then sr_cline_done g f c else rs_chunked_length_loop g f c
  end.
Proof. reflexivity. Qed.
Lemma sr_cend_loop_S f c : rs_chunked_data_end_loop (S f) c =
  match rs_next_byte c with
  | None => (ST_DATA, c)
  | Some c =>
    let c := rs_otx (fun t => t <| t_response_message_len ::= Z.succ |>) c in
    if rs_nb_is c LF then (ST_OK, rs_set_state RES_BODY_CHUNKED_LENGTH c) else rs_chunked_data_end_loop f c
  end.
Proof. reflexivity. Qed.

(* the look-ahead reads exactly the seen part of the current line *)
Lemma sr_cin_probe c d rd p hdr st prev rh t : sr_cin c d rd p hdr st prev rh t -> rs_dbytes (k_buf (c_out c)) ++ rs_unconsumed c = p.
Proof.
  intros [A1 A2 A3 A4 A5 A6 A7 A8 A9 A10 A11 A12 A13 A14 A15 A16 A17]. unfold rs_unconsumed, rs_sub. rewrite A4, A6. exact A9.
Qed.
(* ... and a prefix of a line whose first non-control byte is a hex digit is accepted *)
Lemma sr_probe_pass p b rest : rs_probe_scan ((p ++ [b]) ++ rest) = true ->
  negb (rs_is_chunked_ctl_char b) && negb (rs_data_probe_chunk_length (p ++ [b])) = false.
Proof.
  intros H. destruct (rs_is_chunked_ctl_char b) eqn:E; [reflexivity|]. cbn [negb andb]. apply negb_false_iff.
  unfold rs_data_probe_chunk_length. destruct (length (p ++ [b]) <? 8)%nat; [reflexivity|].
  apply (bd_probe_scan_prefix (p ++ [b]) rest H). apply bd_existsb_app_last. rewrite E. reflexivity.
Qed.

(* OUT_NEXT_BYTE: the byte is read and consumed *)
Definition sr_ktake (b : N) (k : cursor) : cursor := k <| k_next_byte := Some b |> <| k_read ::= S |> <| k_consume ::= S |>.
Lemma sr_next_byte c d b : k_data (c_out c) = Some d -> k_len (c_out c) = length d -> nth_error d (k_read (c_out c)) = Some b ->
  rs_next_byte c = Some (rs_set_out (sr_ktake b) c).
Proof.
  intros Hd Hl Hn. unfold rs_next_byte, rs_has_byte, rs_load_next, rs_cur_byte. rewrite Hd, Hl.
  assert (L : (k_read (c_out c) <? length d)%nat = true) by (apply Nat.ltb_lt; apply nth_error_Some; rewrite Hn; discriminate).
  rewrite L, Hn. reflexivity.
Qed.
Lemma sr_next_none c (d : bytes) : k_len (c_out c) = length d -> k_read (c_out c) = length d -> rs_next_byte c = None.
Proof. intros Hl Hr. unfold rs_next_byte, rs_has_byte. rewrite Hl, Hr, Nat.ltb_irrefl. reflexivity. Qed.
Lemma sr_cin_take c d rd hdr st prev rh t b : sr_cin c d rd [] hdr st prev rh t -> nth_error d rd = Some b ->
  sr_cin (rs_set_out (sr_ktake b) c) d (S rd) [] hdr st prev rh t.
Proof.
  intros H Hn. destruct (sr_cin_nil _ _ _ _ _ _ _ _ H) as [Ecs Ebuf].
  destruct H as [A1 A2 A3 A4 A5 A6 A7 A8 A9 A10 A11 A12 A13 A14 A15 A16 A17].
  assert (L : (rd < length d)%nat) by (apply nth_error_Some; rewrite Hn; discriminate).
  constructor; try assumption; try reflexivity.
  - cbn. rewrite A6. reflexivity.
  - cbn. rewrite Ecs. lia.
  - cbn [rs_set_out c_out set sr_ktake k_buf k_consume]. cbn. rewrite Ecs, Ebuf, Nat.sub_diag. reflexivity.
  - change (k_receiver (c_out (rs_set_out (sr_ktake b) c))) with (k_receiver (c_out c)). lia.
Qed.
Lemma sr_cin_clen c d rd p hdr st prev rh t v : sr_cin c d rd p hdr st prev rh t -> sr_cin (c <| c_out_chunked_length := v |>) d rd p hdr st prev rh t.
Proof. intros H. apply (sr_cin_ext c); try reflexivity. exact H. Qed.
Lemma sr_cin_rh_clear c d rd p hdr st prev rh t : sr_cin c d rd p hdr st prev rh t ->
  sr_cin (rs_set_out (fun k => k <| k_receiver_hook := None |>) c) d rd p hdr st prev None t.
Proof. intros [A1 A2 A3 A4 A5 A6 A7 A8 A9 A10 A11 A12 A13 A14 A15 A16 A17]. constructor; try assumption; reflexivity. Qed.

Section Chunked.
Variable cb : cb_oracle.
Variable g : cfg.
Hypothesis Hcb : wr_all_ok cb.

(* one pass that ends with HTP_OK, keeping track of out_chunked_length *)
Lemma sr_iter_ok_clen c c1 d rd p hdr st prev rh t :
  rs_state_fn cb g (c_out_state c) c = (ST_OK, c1) -> sr_cin c1 d rd p hdr st prev rh t -> st <> RES_HEADERS ->
  exists c', sr_iter cb g c = inr c' /\ sr_cin c' d rd p hdr st (Some st) rh t /\ c_out_chunked_length c' = c_out_chunked_length c1.
Proof.
  intros E H Hne. unfold sr_iter. rewrite E. rewrite (sg_live_tunnel _ (ri_status _ _ _ _ _ _ _ _ _ H)).
  destruct (sr_state_change cb c1 d rd p hdr st prev rh t H Hne) as [E2|[E2 Ep]]; rewrite E2.
  - eexists. split; [reflexivity|]. split; [eapply sr_cin_prev; exact H|reflexivity].
  - eexists. split; [reflexivity|]. split; [rewrite <- Ep; exact H|reflexivity].
Qed.
Lemma sr_enter_clen c p hdr st rh t x : sr_mid c p hdr st rh t -> x <> [] ->
  exists c1, connp_res_data cb g (Some x) (length x) c = rs_res_loop cb g (rs_res_fuel (length x)) false c1 /\
             sr_cin c1 x 0 p hdr st (Some st) rh t /\ c_out_chunked_length c1 = c_out_chunked_length c.
Proof.
  intros [A1 A2 A3 A4 A5 A6 A7 A8 A9 A10 A11] Hne. unfold connp_res_data.
  rewrite (sg_live_stop _ A1), (sg_live_error _ A1), A7.
  assert (L0 : (length x =? 0)%nat = false) by (destruct x; [contradiction|reflexivity]). rewrite L0. cbn [andb].
  match goal with |- context [(c_out_status ?y =? c_HTP_STREAM_TUNNEL)%Z] => change (c_out_status y) with (c_out_status c) end.
  rewrite (sg_live_tunnel _ A1).
  eexists. split; [reflexivity|]. split; [|reflexivity].
  constructor; try assumption; try reflexivity; cbn; try lia.
  rewrite app_nil_r; exact A4.
Qed.

(* ---- RES_BODY_CHUNKED_LENGTH: scanning for the LF; the look-ahead never fires on a line whose value is >= 0 ---- *)
Lemma sr_clen_scan_nolf d hdr st prev rh t : forall u c rd p n rest,
  sr_cin c d rd p hdr st prev rh t -> skipn rd d = u -> sg_no_lf u = true -> rs_probe_scan ((p ++ u) ++ rest) = true -> (length u < n)%nat ->
  exists c', rs_chunked_length_loop g n c = (ST_DATA_BUFFER, c') /\ sr_cin c' d (length d) (p ++ u) hdr st prev rh t.
Proof.
  induction u as [|b u IH]; intros c rd p n rest H Hu Hnl Hsc Hn.
  - pose proof (sg_skipn_nil d rd Hu) as L. pose proof H as [A1 A2 A3 A4 A5 A6 A7 A8 A9 A10 A11 A12 A13 A14 A15 A16 A17].
    assert (E : rd = length d) by lia. destruct n as [|n]; [lia|].
    rewrite sr_clen_loop_S. rewrite (sr_copy_none c d A5 ltac:(rewrite A6; exact E)). exists c. split; [reflexivity|]. rewrite app_nil_r, <- E. exact H.
  - destruct (sg_skipn_cons d rd b u Hu) as (Hnth & Hu' & Hlt). pose proof H as [A1 A2 A3 A4 A5 A6 A7 A8 A9 A10 A11 A12 A13 A14 A15 A16 A17].
    cbn [sg_no_lf forallb] in Hnl. apply andb_prop in Hnl. destruct Hnl as [Hb Hnl]. apply negb_true_iff in Hb.
    cbn [length] in Hn. destruct n as [|n]; [lia|].
    rewrite sr_clen_loop_S.
    assert (Hnth0 : nth_error d (k_read (c_out c)) = Some b) by (rewrite A6; exact Hnth).
    rewrite (sr_copy_byte c d b A4 A5 Hnth0).
    set (c1 := rs_set_out (wr_kadv b) c).
    assert (H1 : sr_cin c1 d (S rd) (p ++ [b]) hdr st prev rh t) by (apply sr_cin_adv; assumption).
    change (rs_nb c1) with (Some b). cbv beta iota zeta.
    assert (Hsc' : rs_probe_scan (((p ++ [b]) ++ u) ++ rest) = true) by (rewrite <- (app_assoc p [b] u); exact Hsc).
    rewrite (sr_cin_probe c1 d _ _ _ _ _ _ _ H1), Hb. rewrite <- app_assoc in Hsc'. rewrite (sr_probe_pass p b (u ++ rest) Hsc'). cbn [orb].
    rewrite app_assoc in Hsc'.
    destruct (IH c1 (S rd) (p ++ [b]) n rest H1 Hu' Hnl Hsc' ltac:(lia)) as (c' & E & H').
    exists c'. split; [exact E|]. rewrite <- app_assoc in H'. exact H'.
Qed.
Lemma sr_clen_scan_lf d hdr st prev rh t u2 : forall u1 c rd p n rest,
  sr_cin c d rd p hdr st prev rh t -> skipn rd d = u1 ++ LF :: u2 -> sg_no_lf u1 = true -> rs_probe_scan ((p ++ u1) ++ rest) = true -> (length u1 < n)%nat ->
  exists c' f, rs_chunked_length_loop g n c = sr_cline_done g f c' /\
               sr_cin c' d (rd + length u1 + 1) (p ++ u1 ++ [LF]) hdr st prev rh t /\ skipn (rd + length u1 + 1) d = u2.
Proof.
  induction u1 as [|b u1 IH]; intros c rd p n rest H Hu Hnl Hsc Hn.
  - cbn [app] in Hu. destruct (sg_skipn_cons d rd LF u2 Hu) as (Hnth & Hu' & Hlt). pose proof H as [A1 A2 A3 A4 A5 A6 A7 A8 A9 A10 A11 A12 A13 A14 A15 A16 A17].
    destruct n as [|n]; [lia|]. rewrite sr_clen_loop_S.
    assert (Hnth0 : nth_error d (k_read (c_out c)) = Some LF) by (rewrite A6; exact Hnth).
    rewrite (sr_copy_byte c d LF A4 A5 Hnth0).
    set (c1 := rs_set_out (wr_kadv LF) c). change (rs_nb c1) with (Some LF). cbv beta iota zeta. rewrite N.eqb_refl. cbn [orb].
    exists c1, n. split; [reflexivity|]. cbn [length app]. replace (rd + 0 + 1)%nat with (S rd) by lia.
    split; [apply sr_cin_adv; assumption|exact Hu'].
  - cbn [app] in Hu. destruct (sg_skipn_cons d rd b _ Hu) as (Hnth & Hu' & Hlt). pose proof H as [A1 A2 A3 A4 A5 A6 A7 A8 A9 A10 A11 A12 A13 A14 A15 A16 A17].
    cbn [sg_no_lf forallb] in Hnl. apply andb_prop in Hnl. destruct Hnl as [Hb Hnl]. apply negb_true_iff in Hb.
    cbn [length] in Hn. destruct n as [|n]; [lia|].
    rewrite sr_clen_loop_S.
    assert (Hnth0 : nth_error d (k_read (c_out c)) = Some b) by (rewrite A6; exact Hnth).
    rewrite (sr_copy_byte c d b A4 A5 Hnth0).
    set (c1 := rs_set_out (wr_kadv b) c).
    assert (H1 : sr_cin c1 d (S rd) (p ++ [b]) hdr st prev rh t) by (apply sr_cin_adv; assumption).
    change (rs_nb c1) with (Some b). cbv beta iota zeta.
    assert (Hsc' : rs_probe_scan (((p ++ [b]) ++ u1) ++ rest) = true) by (rewrite <- (app_assoc p [b] u1); exact Hsc).
    rewrite (sr_cin_probe c1 d _ _ _ _ _ _ _ H1), Hb. rewrite <- app_assoc in Hsc'. rewrite (sr_probe_pass p b (u1 ++ rest) Hsc'). cbn [orb].
    rewrite app_assoc in Hsc'.
    destruct (IH c1 (S rd) (p ++ [b]) n rest H1 Hu' Hnl Hsc' ltac:(lia)) as (c' & f & E & H' & Hr').
    exists c', f. split; [exact E|]. cbn [length]. replace (rd + S (length u1) + 1)%nat with (S rd + length u1 + 1)%nat by lia.
    split; [|exact Hr']. rewrite <- app_assoc in H'. exact H'.
Qed.

(* ---- the size line is complete: a data chunk follows ---- *)
Lemma sr_cline_data c d rd prev t line f : sr_cin c d rd line None RES_BODY_CHUNKED_LENGTH prev None t ->
  (length line <= g_field_limit_hard g)%nat -> (0 < bd_rs_line_value line)%Z ->
  exists c', sr_cline_done g f c = (ST_OK, c') /\
    sr_cin c' d rd [] None RES_BODY_CHUNKED_DATA prev None (sr_msg_add (Z.of_nat (length line)) t) /\
    c_out_chunked_length c' = bd_rs_line_value line.
Proof.
  intros H Hlim Hv. unfold sr_cline_done.
  destruct (sr_consolidate g c d rd _ None _ _ _ t H) as (c1 & E1 & H1); [cbn [sg_olist length]; lia|]. rewrite E1.
  cbn [rs_dbytes]. cbv zeta. rewrite (sr_otx c1 d rd _ _ _ _ _ t _ H1).
  fold (bd_rs_line_value line). set (v := bd_rs_line_value line) in *.
  assert (Ev1 : (v =? -1004)%Z = false) by (apply Z.eqb_neq; lia). rewrite Ev1.
  assert (Ev2 : (v <? 0)%Z = false) by (apply Z.ltb_ge; lia). rewrite Ev2.
  assert (Ev3 : (0 <? v)%Z = true) by (apply Z.ltb_lt; exact Hv). rewrite Ev3.
  eexists. split; [reflexivity|]. split; [|reflexivity].
  eapply sr_cin_state. eapply sr_cin_clear. eapply sr_cin_clen. eapply sr_cin_txs. exact H1.
Qed.
(* ---- the last-chunk line is complete: RES_HEADERS follows, progress TRAILER ---- *)
Lemma sr_cline_last c d rd prev t line f : sr_cin c d rd line None RES_BODY_CHUNKED_LENGTH prev None t ->
  (length line <= g_field_limit_hard g)%nat -> bd_rs_line_value line = 0%Z ->
  exists c', sr_cline_done g f c = (ST_OK, c') /\
    sr_cin c' d rd [] None RES_HEADERS prev None ((sr_msg_add (Z.of_nat (length line)) t) <| t_response_progress := c_HTP_RESPONSE_TRAILER |>).
Proof.
  intros H Hlim Hv. unfold sr_cline_done.
  destruct (sr_consolidate g c d rd _ None _ _ _ t H) as (c1 & E1 & H1); [cbn [sg_olist length]; lia|]. rewrite E1.
  cbn [rs_dbytes]. cbv zeta. rewrite (sr_otx c1 d rd _ _ _ _ _ t _ H1).
  fold (bd_rs_line_value line). rewrite Hv.
  change ((0 =? -1004)%Z) with false. change ((0 <? 0)%Z) with false. cbv iota.
  match goal with |- context [rs_otx ?f ?x] => set (c2 := x) end.
  assert (H2 : sr_cin c2 d rd [] None RES_HEADERS prev None (sr_msg_add (Z.of_nat (length line)) t)).
  { unfold c2. eapply sr_cin_state. eapply sr_cin_clear. eapply sr_cin_clen. eapply sr_cin_txs. exact H1. }
  rewrite (sr_otx c2 d rd _ _ _ _ _ _ _ H2).
  eexists. split; [reflexivity|]. eapply sr_cin_txs. exact H2.
Qed.

(* a line with a value >= 0 passes the look-ahead *)
Lemma sr_value_scan line : (0 <= bd_rs_line_value line)%Z -> rs_probe_scan line = true.
Proof. intros H. apply bd_value_scan. exact H. Qed.

(* ---- the pass through RES_BODY_CHUNKED_LENGTH that sees the LF of a size line ---- *)
Lemma sr_pass_cline c d rd p u1 u2 t line : sr_cin c d rd p None RES_BODY_CHUNKED_LENGTH (Some RES_BODY_CHUNKED_LENGTH) None t ->
  skipn rd d = u1 ++ LF :: u2 -> sg_no_lf u1 = true -> p ++ u1 ++ [LF] = line ->
  (length line <= g_field_limit_hard g)%nat -> (0 < bd_rs_line_value line)%Z ->
  exists c', sr_iter cb g c = inr c' /\
    sr_cin c' d (rd + length u1 + 1) [] None RES_BODY_CHUNKED_DATA (Some RES_BODY_CHUNKED_DATA) None (sr_msg_add (Z.of_nat (length line)) t) /\
    c_out_chunked_length c' = bd_rs_line_value line /\ skipn (rd + length u1 + 1) d = u2.
Proof.
  intros H Hs Hnl Ep Hlim Hv.
  assert (Es : c_out_state c = RES_BODY_CHUNKED_LENGTH) by apply (ri_state _ _ _ _ _ _ _ _ _ H).
  assert (Ef : rs_state_fn cb g (c_out_state c) c = rs_chunked_length_loop g (S (S (length d - rd))) c).
  { rewrite Es. cbn [rs_state_fn]. unfold rs_RES_BODY_CHUNKED_LENGTH, rs_bytes_fuel. rewrite (ri_len _ _ _ _ _ _ _ _ _ H), (ri_read _ _ _ _ _ _ _ _ _ H). reflexivity. }
  pose proof (ri_rd _ _ _ _ _ _ _ _ _ H) as Hrd.
  assert (Ln : (length u1 < S (S (length d - rd)))%nat).
  { assert (L : length (skipn rd d) = length (u1 ++ LF :: u2)) by (rewrite Hs; reflexivity). rewrite skipn_length, app_length in L. lia. }
  assert (Hsc : rs_probe_scan ((p ++ u1) ++ [LF]) = true) by (rewrite <- app_assoc, Ep; apply sr_value_scan; lia).
  destruct (sr_clen_scan_lf d None _ _ None t u2 u1 c rd p _ [LF] H Hs Hnl Hsc Ln) as (c1 & f & E1 & H1 & Hr1).
  rewrite E1 in Ef. rewrite Ep in H1.
  destruct (sr_cline_data c1 d _ _ t line f H1 Hlim Hv) as (c2 & E2 & H2 & L2). rewrite E2 in Ef.
  destruct (sr_iter_ok_clen c c2 d _ _ _ _ _ _ _ Ef H2) as (c3 & E3 & H3 & L3); [discriminate|].
  exists c3. split; [exact E3|]. split; [exact H3|]. split; [rewrite L3; exact L2|exact Hr1].
Qed.

(* ---- ... of the last-chunk line: the state change into RES_HEADERS installs the raw-trailer receiver ---- *)
Lemma sr_pass_clast c d rd p u1 u2 t line : sr_cin c d rd p None RES_BODY_CHUNKED_LENGTH (Some RES_BODY_CHUNKED_LENGTH) None t ->
  skipn rd d = u1 ++ LF :: u2 -> sg_no_lf u1 = true -> p ++ u1 ++ [LF] = line ->
  (length line <= g_field_limit_hard g)%nat -> bd_rs_line_value line = 0%Z ->
  exists c', sr_iter cb g c = inr c' /\
    sr_cin c' d (rd + length u1 + 1) [] None RES_HEADERS (Some RES_HEADERS) (Some H_RESPONSE_TRAILER_DATA)
           ((sr_msg_add (Z.of_nat (length line)) t) <| t_response_progress := c_HTP_RESPONSE_TRAILER |>) /\
    skipn (rd + length u1 + 1) d = u2.
Proof.
  intros H Hs Hnl Ep Hlim Hv.
  assert (Es : c_out_state c = RES_BODY_CHUNKED_LENGTH) by apply (ri_state _ _ _ _ _ _ _ _ _ H).
  assert (Ef : rs_state_fn cb g (c_out_state c) c = rs_chunked_length_loop g (S (S (length d - rd))) c).
  { rewrite Es. cbn [rs_state_fn]. unfold rs_RES_BODY_CHUNKED_LENGTH, rs_bytes_fuel. rewrite (ri_len _ _ _ _ _ _ _ _ _ H), (ri_read _ _ _ _ _ _ _ _ _ H). reflexivity. }
  pose proof (ri_rd _ _ _ _ _ _ _ _ _ H) as Hrd.
  assert (Ln : (length u1 < S (S (length d - rd)))%nat).
  { assert (L : length (skipn rd d) = length (u1 ++ LF :: u2)) by (rewrite Hs; reflexivity). rewrite skipn_length, app_length in L. lia. }
  assert (Hsc : rs_probe_scan ((p ++ u1) ++ [LF]) = true) by (rewrite <- app_assoc, Ep; apply sr_value_scan; lia).
  destruct (sr_clen_scan_lf d None _ _ None t u2 u1 c rd p _ [LF] H Hs Hnl Hsc Ln) as (c1 & f & E1 & H1 & Hr1).
  rewrite E1 in Ef. rewrite Ep in H1.
  destruct (sr_cline_last c1 d _ _ t line f H1 Hlim Hv) as (c2 & E2 & H2). rewrite E2 in Ef.
  set (t' := (sr_msg_add (Z.of_nat (length line)) t) <| t_response_progress := c_HTP_RESPONSE_TRAILER |>) in *.
  set (rd' := (rd + length u1 + 1)%nat) in *.
  pose proof H2 as [A1 A2 A3 A4 A5 A6 A7 A8 A9 A10 A11 A12 A13 A14 A15 A16 A17].
  unfold sr_iter. rewrite Ef. rewrite (sg_live_tunnel _ A1).
  unfold rs_handle_state_change. rewrite A3, A2. cbn [res_state_eqb].
  rewrite (sr_rs_tx c2 d rd' _ _ _ _ _ t' H2), A13.
  change (t_response_progress t') with c_HTP_RESPONSE_TRAILER.
  change ((c_HTP_RESPONSE_TRAILER =? c_HTP_RESPONSE_HEADERS)%Z) with false. change ((c_HTP_RESPONSE_TRAILER =? c_HTP_RESPONSE_TRAILER)%Z) with true. cbv iota.
  unfold res_receiver_set, res_receiver_finalize_clear. rewrite A11.
  eexists. split; [reflexivity|]. split; [|exact Hr1].
  constructor; try assumption; try reflexivity; cbn; rewrite ?A2, ?A6; try reflexivity; try assumption; lia.
Qed.

(* ---- htp_tx_res_process_body_data_ex keeps out_chunked_length (PSegResRun.sr_process_body says so for out_body_data_left) ---- *)
Lemma sr_cin_tx_hooks_clen k h i data last c d rd p hdr st prev rh t : sr_cin c d rd p hdr st prev rh t ->
  sr_cin (run_tx_hooks k h i data last c) d rd p hdr st prev rh t /\
  c_out_chunked_length (run_tx_hooks k h i data last c) = c_out_chunked_length c.
Proof.
  revert c. induction k as [|k IH]; intros c H; [split; [exact H|reflexivity]|].
  cbn [run_tx_hooks]. destruct (IH (emit (bump_hook c h) (mkev h i data last None))) as [A B]; [apply (sr_cin_hook c d rd p hdr st prev rh t h i data last H)|].
  split; [exact A|rewrite B; reflexivity].
Qed.
Lemma sr_process_body_clen c d rd p hdr st prev rh t data len : sr_cin c d rd p hdr st prev rh t -> t_res_cep t = c_HTP_COMPRESSION_NONE ->
  match data with Some _ => len <> 0%nat | None => True end ->
  exists c', rs_process_body cb data len c = (ST_OK, c') /\ sr_cin c' d rd p hdr st prev rh (sr_body_add len t) /\
             c_out_chunked_length c' = c_out_chunked_length c.
Proof.
  intros H Hcep Hne. unfold rs_process_body. rewrite (ri_tx _ _ _ _ _ _ _ _ _ H). unfold tx_res_process_body_data_ex.
  rewrite (sr_tx_upd0 c d rd _ _ _ _ _ t _ H).
  set (t1 := t <| t_response_message_len ::= Z.add (Z.of_nat len) |>). set (c1 := c <| c_txs := [Some t1] |>).
  assert (H1 : sr_cin c1 d rd p hdr st prev rh t1) by (eapply sr_cin_txs; exact H).
  rewrite (sr_tx_get c1 d rd _ _ _ _ _ _ H1). change (t_res_cep t1) with (t_res_cep t). rewrite Hcep, Z.eqb_refl.
  rewrite (sr_tx_upd0 c1 d rd _ _ _ _ _ t1 _ H1).
  set (c2 := c1 <| c_txs := [Some (t1 <| t_response_entity_len ::= Z.add (Z.of_nat len) |>)] |>).
  assert (H2 : sr_cin c2 d rd p hdr st prev rh (sr_body_add len t)) by (eapply sr_cin_txs; exact H1).
  assert (Er : res_run_hook_body_data cb 0 data len c2 =
               run_data_hook cb H_RESPONSE_BODY_DATA 0 data false
                 (run_tx_hooks (t_hook_response_body (tx_get c2 0)) H_TX_RESPONSE_BODY_DATA 0 data false c2)).
  { unfold res_run_hook_body_data. rewrite (ri_tx _ _ _ _ _ _ _ _ _ H2). destruct data as [x|]; [destruct len; [contradiction|reflexivity]|reflexivity]. }
  rewrite Er. destruct (sr_cin_tx_hooks_clen (t_hook_response_body (tx_get c2 0)) H_TX_RESPONSE_BODY_DATA 0 data false c2 d rd p hdr st prev rh _ H2) as [H3 L3].
  unfold run_data_hook. rewrite (wr_run_hook_ex cb Hcb).
  eexists. split; [reflexivity|]. split; [apply sr_cin_hook; exact H3|]. exact L3.
Qed.

(* ---- RES_BODY_CHUNKED_DATA: one pass ---- *)
Lemma sr_cdata_pass c d rd t (left : nat) : sr_cin c d rd [] None RES_BODY_CHUNKED_DATA (Some RES_BODY_CHUNKED_DATA) None t ->
  t_res_cep t = c_HTP_COMPRESSION_NONE -> c_out_chunked_length c = Z.of_nat left -> (0 < left)%nat ->
  let k := Nat.min left (length d - rd) in
  match k with
  | O => sr_iter cb g c = inl (rs_set_out_status c_HTP_STREAM_DATA c, c_HTP_STREAM_DATA)
  | S _ =>
    if (k <? left)%nat then
      exists c', sr_iter cb g c = inl (rs_set_out_status c_HTP_STREAM_DATA c', c_HTP_STREAM_DATA) /\
                 sr_cin c' d (rd + k) [] None RES_BODY_CHUNKED_DATA (Some RES_BODY_CHUNKED_DATA) None (sr_body_add k t) /\
                 c_out_chunked_length c' = Z.of_nat (left - k)
    else
      exists c', sr_iter cb g c = inr c' /\
                 sr_cin c' d (rd + k) [] None RES_BODY_CHUNKED_DATA_END (Some RES_BODY_CHUNKED_DATA_END) None (sr_body_add k t)
  end.
Proof.
  intros H Hcep Hl Hpos k. pose proof H as [A1 A2 A3 A4 A5 A6 A7 A8 A9 A10 A11 A12 A13 A14 A15 A16 A17].
  assert (Ef : rs_state_fn cb g (c_out_state c) c = rs_RES_BODY_CHUNKED_DATA cb c) by (rewrite A2; reflexivity).
  assert (Ebtc : rs_bytes_to_consume c (c_out_chunked_length c) = k).
  { unfold rs_bytes_to_consume. rewrite A5, A6, Hl.
    assert (E1 : (Z.of_nat left <? 0)%Z = false) by (apply Z.ltb_ge; lia). rewrite E1.
    destruct (Z.of_nat left <=? Z.of_nat (length d - rd))%Z eqn:E2; [apply Z.leb_le in E2|apply Z.leb_gt in E2]; rewrite ?Nat2Z.id; unfold k; lia. }
  unfold rs_RES_BODY_CHUNKED_DATA in Ef. rewrite Ebtc in Ef.
  assert (Kle : (k <= left)%nat /\ (rd + k <= length d)%nat) by (unfold k; lia).
  destruct k as [|k'] eqn:Ek.
  - cbn [Nat.eqb] in Ef. unfold sr_iter. rewrite Ef. destruct (sr_exit_data cb g c d rd None _ t H) as [E _]. rewrite E. reflexivity.
  - cbn [Nat.eqb] in Ef. rewrite <- Ek in *.
    unfold rs_body_slice in Ef. rewrite A4 in Ef.
    destruct (sr_process_body_clen c d rd [] None _ _ None t (Some (firstn k (skipn (k_read (c_out c)) d))) k H Hcep ltac:(cbv beta iota; lia)) as (c1 & E1 & H1 & L1).
    rewrite E1 in Ef.
    assert (Hadv : sr_cin (rs_advance k c1) d (rd + k) [] None RES_BODY_CHUNKED_DATA (Some RES_BODY_CHUNKED_DATA) None (sr_body_add k t)).
    { apply sr_cin_advance; [exact H1|lia]. }
    set (c2 := rs_advance k c1 <| c_out_chunked_length := (c_out_chunked_length (rs_advance k c1) - Z.of_nat k)%Z |>) in *.
    assert (H2 : sr_cin c2 d (rd + k) [] None RES_BODY_CHUNKED_DATA (Some RES_BODY_CHUNKED_DATA) None (sr_body_add k t)) by (apply sr_cin_clen; exact Hadv).
    assert (L2 : c_out_chunked_length c2 = (Z.of_nat left - Z.of_nat k)%Z).
    { unfold c2. cbn [c_out_chunked_length set]. change (c_out_chunked_length (rs_advance k c1)) with (c_out_chunked_length c1). rewrite L1, Hl. reflexivity. }
    rewrite L2 in Ef.
    destruct (k <? left)%nat eqn:Elt.
    + apply Nat.ltb_lt in Elt. assert (Nz : (Z.of_nat left - Z.of_nat k =? 0)%Z = false) by (apply Z.eqb_neq; lia). rewrite Nz in Ef.
      exists c2. split; [|split; [exact H2|rewrite L2; lia]].
      unfold sr_iter. rewrite Ef. destruct (sr_exit_data cb g c2 d _ None _ _ H2) as [E _]. rewrite E. reflexivity.
    + apply Nat.ltb_ge in Elt. assert (Ez : (Z.of_nat left - Z.of_nat k =? 0)%Z = true) by (apply Z.eqb_eq; lia). rewrite Ez in Ef.
      assert (H3 : sr_cin (rs_set_state RES_BODY_CHUNKED_DATA_END c2) d (rd + k) [] None RES_BODY_CHUNKED_DATA_END (Some RES_BODY_CHUNKED_DATA) None (sr_body_add k t)) by (eapply sr_cin_state; exact H2).
      apply (sr_iter_ok cb g c _ d (rd + k)%nat [] None RES_BODY_CHUNKED_DATA_END _ None _ Ef H3). discriminate.
Qed.
End Chunked.

Section Chunked2.
Variable cb : cb_oracle.
Variable g : cfg.
Hypothesis Hcb : wr_all_ok cb.

(* ---- RES_BODY_CHUNKED_DATA_END: every byte up to the LF is consumed and counted ---- *)
Lemma sr_cend_scan_nolf d st prev : forall u c rd n t,
  sr_cin c d rd [] None st prev None t -> skipn rd d = u -> sg_no_lf u = true -> (length u < n)%nat ->
  exists c', rs_chunked_data_end_loop n c = (ST_DATA, c') /\
             sr_cin c' d (length d) [] None st prev None (sr_msg_add (Z.of_nat (length u)) t).
Proof.
  induction u as [|b u IH]; intros c rd n t H Hu Hnl Hn.
  - pose proof (sg_skipn_nil d rd Hu) as L. pose proof H as [A1 A2 A3 A4 A5 A6 A7 A8 A9 A10 A11 A12 A13 A14 A15 A16 A17].
    assert (E : rd = length d) by lia. destruct n as [|n]; [lia|].
    rewrite sr_cend_loop_S, (sr_next_none c d A5 ltac:(rewrite A6; exact E)). exists c. split; [reflexivity|].
    cbn [length Z.of_nat]. rewrite sr_msg_add_0, <- E. exact H.
  - destruct (sg_skipn_cons d rd b u Hu) as (Hnth & Hu' & Hlt). pose proof H as [A1 A2 A3 A4 A5 A6 A7 A8 A9 A10 A11 A12 A13 A14 A15 A16 A17].
    cbn [sg_no_lf forallb] in Hnl. apply andb_prop in Hnl. destruct Hnl as [Hb Hnl]. apply negb_true_iff in Hb.
    cbn [length] in Hn. destruct n as [|n]; [lia|].
    rewrite sr_cend_loop_S.
    assert (Hnth0 : nth_error d (k_read (c_out c)) = Some b) by (rewrite A6; exact Hnth).
    rewrite (sr_next_byte c d b A4 A5 Hnth0). cbv zeta.
    pose proof (sr_cin_take _ _ _ _ _ _ _ _ b H Hnth) as H1.
    rewrite (sr_otx _ d _ _ _ _ _ _ t _ H1).
    match goal with |- context [rs_nb_is ?x LF] => set (c2 := x) end.
    assert (Hnl' : rs_nb_is c2 LF = false) by (unfold rs_nb_is, rs_nb; cbn; exact Hb). rewrite Hnl'.
    assert (H2 : sr_cin c2 d (S rd) [] None st prev None (sr_msg_add 1 t)) by (unfold c2; rewrite <- sr_msg_succ; eapply sr_cin_txs; exact H1).
    destruct (IH c2 (S rd) n _ H2 Hu' Hnl ltac:(lia)) as (c' & E & H').
    exists c'. split; [exact E|].
    rewrite sr_msg_add_add in H'. replace (Z.of_nat (length (b :: u))) with (1 + Z.of_nat (length u))%Z by (cbn [length]; lia). exact H'.
Qed.
Lemma sr_cend_scan_lf d prev u2 : forall u1 c rd n t,
  sr_cin c d rd [] None RES_BODY_CHUNKED_DATA_END prev None t -> skipn rd d = u1 ++ LF :: u2 -> sg_no_lf u1 = true -> (length u1 < n)%nat ->
  exists c', rs_chunked_data_end_loop n c = (ST_OK, c') /\
             sr_cin c' d (rd + length u1 + 1) [] None RES_BODY_CHUNKED_LENGTH prev None (sr_msg_add (Z.of_nat (length u1 + 1)) t) /\
             skipn (rd + length u1 + 1) d = u2.
Proof.
  induction u1 as [|b u1 IH]; intros c rd n t H Hu Hnl Hn.
  - cbn [app] in Hu. destruct (sg_skipn_cons d rd LF u2 Hu) as (Hnth & Hu' & Hlt). pose proof H as [A1 A2 A3 A4 A5 A6 A7 A8 A9 A10 A11 A12 A13 A14 A15 A16 A17].
    destruct n as [|n]; [lia|]. rewrite sr_cend_loop_S.
    assert (Hnth0 : nth_error d (k_read (c_out c)) = Some LF) by (rewrite A6; exact Hnth).
    rewrite (sr_next_byte c d LF A4 A5 Hnth0). cbv zeta.
    pose proof (sr_cin_take _ _ _ _ _ _ _ _ LF H Hnth) as H1.
    rewrite (sr_otx _ d _ _ _ _ _ _ t _ H1).
    match goal with |- context [rs_nb_is ?x LF] => set (c2 := x) end.
    assert (Hnl' : rs_nb_is c2 LF = true) by reflexivity. rewrite Hnl'.
    eexists. split; [reflexivity|]. cbn [length]. replace (rd + 0 + 1)%nat with (S rd) by lia.
    split; [|exact Hu']. eapply sr_cin_state. unfold c2. change (Z.of_nat (0 + 1)) with 1%Z. rewrite <- sr_msg_succ. eapply sr_cin_txs. exact H1.
  - cbn [app] in Hu. destruct (sg_skipn_cons d rd b _ Hu) as (Hnth & Hu' & Hlt). pose proof H as [A1 A2 A3 A4 A5 A6 A7 A8 A9 A10 A11 A12 A13 A14 A15 A16 A17].
    cbn [sg_no_lf forallb] in Hnl. apply andb_prop in Hnl. destruct Hnl as [Hb Hnl]. apply negb_true_iff in Hb.
    cbn [length] in Hn. destruct n as [|n]; [lia|].
    rewrite sr_cend_loop_S.
    assert (Hnth0 : nth_error d (k_read (c_out c)) = Some b) by (rewrite A6; exact Hnth).
    rewrite (sr_next_byte c d b A4 A5 Hnth0). cbv zeta.
    pose proof (sr_cin_take _ _ _ _ _ _ _ _ b H Hnth) as H1.
    rewrite (sr_otx _ d _ _ _ _ _ _ t _ H1).
    match goal with |- context [rs_nb_is ?x LF] => set (c2 := x) end.
    assert (Hnl' : rs_nb_is c2 LF = false) by (unfold rs_nb_is, rs_nb; cbn; exact Hb). rewrite Hnl'.
    assert (H2 : sr_cin c2 d (S rd) [] None RES_BODY_CHUNKED_DATA_END prev None (sr_msg_add 1 t)) by (unfold c2; rewrite <- sr_msg_succ; eapply sr_cin_txs; exact H1).
    destruct (IH c2 (S rd) n _ H2 Hu' Hnl ltac:(lia)) as (c' & E & H' & Hr').
    exists c'. split; [exact E|]. cbn [length]. replace (rd + S (length u1) + 1)%nat with (S rd + length u1 + 1)%nat by lia.
    split; [|exact Hr'].
    rewrite sr_msg_add_add in H'. replace (Z.of_nat (S (length u1) + 1)) with (1 + Z.of_nat (length u1 + 1))%Z by lia. exact H'.
Qed.
(* the pass through RES_BODY_CHUNKED_DATA_END that sees the LF *)
Lemma sr_pass_cend c d rd u1 u2 t : sr_cin c d rd [] None RES_BODY_CHUNKED_DATA_END (Some RES_BODY_CHUNKED_DATA_END) None t ->
  skipn rd d = u1 ++ LF :: u2 -> sg_no_lf u1 = true ->
  exists c', sr_iter cb g c = inr c' /\
    sr_cin c' d (rd + length u1 + 1) [] None RES_BODY_CHUNKED_LENGTH (Some RES_BODY_CHUNKED_LENGTH) None (sr_msg_add (Z.of_nat (length u1 + 1)) t) /\
    skipn (rd + length u1 + 1) d = u2.
Proof.
  intros H Hs Hnl.
  assert (Es : c_out_state c = RES_BODY_CHUNKED_DATA_END) by apply (ri_state _ _ _ _ _ _ _ _ _ H).
  assert (Ef : rs_state_fn cb g (c_out_state c) c = rs_chunked_data_end_loop (S (S (length d - rd))) c).
  { rewrite Es. cbn [rs_state_fn]. unfold rs_RES_BODY_CHUNKED_DATA_END, rs_bytes_fuel. rewrite (ri_len _ _ _ _ _ _ _ _ _ H), (ri_read _ _ _ _ _ _ _ _ _ H). reflexivity. }
  pose proof (ri_rd _ _ _ _ _ _ _ _ _ H) as Hrd.
  assert (Ln : (length u1 < S (S (length d - rd)))%nat).
  { assert (L : length (skipn rd d) = length (u1 ++ LF :: u2)) by (rewrite Hs; reflexivity). rewrite skipn_length, app_length in L. lia. }
  destruct (sr_cend_scan_lf d _ u2 u1 c rd _ t H Hs Hnl Ln) as (c1 & E1 & H1 & Hr1). rewrite E1 in Ef.
  destruct (sr_iter_ok cb g c c1 d _ _ _ _ _ _ _ Ef H1) as (c2 & E2 & H2); [discriminate|].
  exists c2. split; [exact E2|]. split; [exact H2|exact Hr1].
Qed.
(* the chunk ends inside the line that ends the data *)
Lemma sr_pass_cend_partial c d rd t : sr_cin c d rd [] None RES_BODY_CHUNKED_DATA_END (Some RES_BODY_CHUNKED_DATA_END) None t ->
  sg_no_lf (skipn rd d) = true ->
  exists c', sr_iter cb g c = inl (rs_set_out_status c_HTP_STREAM_DATA c', c_HTP_STREAM_DATA) /\
    sr_mid (rs_set_out_status c_HTP_STREAM_DATA c') [] None RES_BODY_CHUNKED_DATA_END None (sr_msg_add (Z.of_nat (length d - rd)) t).
Proof.
  intros H Hnl.
  assert (Es : c_out_state c = RES_BODY_CHUNKED_DATA_END) by apply (ri_state _ _ _ _ _ _ _ _ _ H).
  assert (Ef : rs_state_fn cb g (c_out_state c) c = rs_chunked_data_end_loop (S (S (length d - rd))) c).
  { rewrite Es. cbn [rs_state_fn]. unfold rs_RES_BODY_CHUNKED_DATA_END, rs_bytes_fuel. rewrite (ri_len _ _ _ _ _ _ _ _ _ H), (ri_read _ _ _ _ _ _ _ _ _ H). reflexivity. }
  destruct (sr_cend_scan_nolf d _ _ (skipn rd d) c rd (S (S (length d - rd))) t H eq_refl Hnl) as (c1 & E1 & H1); [rewrite skipn_length; lia|].
  rewrite E1 in Ef. rewrite skipn_length in H1.
  destruct (sr_exit_data cb g c1 d _ None _ _ H1) as [EX HX].
  exists c1. split; [unfold sr_iter; rewrite Ef, EX; reflexivity|exact HX].
Qed.

(* ---- the empty line of the trailer block: htp_connp_res_receiver_finalize_clear, the RESPONSE_TRAILER hook, RES_FINALIZE ---- *)
Lemma sr_hcont_term_trailer c d rd data hdr prev t n (e lf : bool) : data = [CR; LF] \/ data = [LF] -> (e = true -> data = [CR; LF]) ->
  sr_cin c d rd data hdr RES_HEADERS prev (Some H_RESPONSE_TRAILER_DATA) t -> (length data + length (sg_olist hdr) <= g_field_limit_hard g)%nat ->
  t_response_progress (sr_flush hdr t) = c_HTP_RESPONSE_TRAILER ->
  exists c', sr_hcont cb g n e lf c = (ST_OK, c') /\ sr_cin c' d rd [] None RES_FINALIZE prev None (sr_flush hdr t).
Proof.
  intros Hd He H Hlim Hp. unfold sr_hcont.
  destruct (sr_consolidate g c d rd _ hdr _ _ _ t H Hlim) as (c1 & E1 & H1). rewrite E1. cbn [rs_dbytes].
  assert (L2 : e && (length data <? 2)%nat = false).
  { destruct e; [|reflexivity]. rewrite (He eq_refl). reflexivity. }
  rewrite L2. unfold rs_headers_line. cbv zeta.
  pose proof (sr_cin_chk c1 d rd _ _ _ _ _ _ H1) as HK.
  set (cK := if rs_has_byte c1 then match rs_cur_byte c1 (k_read (c_out c1)) with Some _ => c1 | None => rs_fault c1 end else c1) in *.
  clearbody cK.
  assert (T : forall nx, rs_is_line_terminator (g_personality g) data nx = true) by (intros nx; destruct Hd as [E|E]; subst data; [apply sr_term_crlf|apply sr_term_lf]).
  rewrite T.
  pose proof (sr_flush_header cK d rd _ _ _ _ _ _ HK) as HF.
  assert (HC : sr_cin (rs_clear_buffer (rs_flush_header cK)) d rd [] None RES_HEADERS prev (Some H_RESPONSE_TRAILER_DATA) (sr_flush hdr t)) by (eapply sr_cin_clear; exact HF).
  set (cC := rs_clear_buffer (rs_flush_header cK)) in *. clearbody cC.
  rewrite (sr_rs_tx cC d rd _ _ _ _ _ _ HC), Hp.
  change ((c_HTP_RESPONSE_TRAILER =? c_HTP_RESPONSE_HEADERS)%Z) with false. cbv iota.
  unfold rs_trailer_end, res_receiver_finalize_clear. rewrite (ri_rh _ _ _ _ _ _ _ _ _ HC).
  destruct (sr_send_data cb Hcb cC d rd _ _ _ _ _ _ true HC) as (c2 & E2 & H2 & _). rewrite E2.
  pose proof (sr_cin_rh_clear _ _ _ _ _ _ _ _ _ H2) as H3.
  set (c3 := rs_set_out (fun k => k <| k_receiver_hook := None |>) c2) in *. clearbody c3.
  rewrite (wr_run_hook cb Hcb).
  eexists. split; [reflexivity|]. eapply sr_cin_state. apply sr_cin_hook. exact H3.
Qed.

(* ---- the state change into RES_HEADERS in trailer mode is part of sr_pass_clast; a call that starts inside the block enters with the
        receiver installed ---- *)

(* ---- RES_BODY_DETERMINE with Transfer-Encoding: chunked ---- *)
Definition sr_frame_ch_ok (t : tx) : bool :=
  negb (t_request_method_number t =? c_HTP_M_CONNECT)%Z && negb (t_request_method_number t =? c_HTP_M_HEAD)%Z &&
  match rs_hdr_get_c (t_response_headers t) rs_str_transfer_encoding with
  | Some h => negb (index_of_mem_nocasenorzero (h_value h) rs_str_chunked =? -1)%Z
  | None => false
  end.
Definition sr_det_tx_ch (t : tx) : tx :=
  let t1 := match rs_hdr_get_c (t_response_headers t) rs_str_content_type with
            | Some hc => t <| t_response_content_type := Some (rs_content_type (h_value hc)) |>
            | None => t
            end in
  let t2 := t1 <| t_response_transfer_coding := c_HTP_CODING_CHUNKED |> in
  let t3 := match rs_hdr_get_c (t_response_headers t) rs_str_content_length with
            | None => t2
            | Some _ => t2 <| t_flags := flag_set (t_flags t2) c_HTP_REQUEST_SMUGGLING |>
            end in
  t3 <| t_response_progress := c_HTP_RESPONSE_BODY |>.
Definition sr_hdrs_tx_ch (t : tx) : tx := (sr_det_tx_ch t) <| t_res_cep := c_HTP_COMPRESSION_NONE |>.

Lemma sr_pass_determine_ch c d rd t : sr_cin c d rd [] None RES_BODY_DETERMINE (Some RES_BODY_DETERMINE) (Some H_RESPONSE_HEADER_DATA) t ->
  sr_frame_ch_ok t = true ->
  exists c', sr_iter cb g c = inr c' /\
    sr_cin c' d rd [] None RES_BODY_CHUNKED_LENGTH (Some RES_BODY_CHUNKED_LENGTH) None (sr_hdrs_tx_ch t).
Proof.
  intros H Hf. unfold sr_frame_ch_ok in Hf. apply andb_prop in Hf. destruct Hf as [Hf Hte].
  apply andb_prop in Hf. destruct Hf as [Hm Hhd]. apply negb_true_iff in Hm. apply negb_true_iff in Hhd.
  assert (Ef : rs_state_fn cb g (c_out_state c) c = rs_RES_BODY_DETERMINE cb c) by (rewrite (ri_state _ _ _ _ _ _ _ _ _ H); reflexivity).
  destruct (rs_hdr_get_c (t_response_headers t) rs_str_transfer_encoding) as [hte|] eqn:Ete; [|discriminate].
  unfold rs_RES_BODY_DETERMINE in Ef. rewrite (sr_rs_tx c d rd _ _ _ _ _ t H) in Ef. cbv zeta in Ef. rewrite Hm, Hhd, Ete in Ef. cbn [andb] in Ef.
  rewrite !andb_false_r in Ef. cbn [andb] in Ef.
  set (cE := if (400 <=? t_response_status_number t)%Z && (t_response_status_number t <=? 499)%Z && (0 <? c_in_content_length c)%Z &&
                (c_in_body_data_left c =? c_in_content_length c)%Z
             then match rs_hdr_get_c (t_request_headers t) rs_str_expect with
                  | Some e => if (cmp_mem_nocase (h_value e) rs_str_100_continue =? 0)%Z then c <| c_in_state := REQ_FINALIZE |> else c
                  | None => c
                  end
             else c) in Ef.
  assert (HE : sr_cin cE d rd [] None RES_BODY_DETERMINE (Some RES_BODY_DETERMINE) (Some H_RESPONSE_HEADER_DATA) t).
  { unfold cE.
    repeat match goal with
    | |- sr_cin (if ?b then _ else _) _ _ _ _ _ _ _ _ => destruct b
    | |- sr_cin (match ?x with _ => _ end) _ _ _ _ _ _ _ _ => destruct x
    end; try exact H; apply (sr_cin_ext c); try reflexivity; exact H. }
  clearbody cE.
  assert (Eif : (if (100 <=? t_response_status_number t)%Z && (t_response_status_number t <=? 199)%Z || (t_response_status_number t =? 204)%Z
                     || (t_response_status_number t =? 304)%Z then cE else cE) = cE) by (destruct (_ || _ || _); reflexivity).
  rewrite Eif in Ef. clear Eif.
  rewrite (ri_state _ _ _ _ _ _ _ _ _ HE) in Ef. cbn [res_state_eqb negb] in Ef. rewrite Hte in Ef.
  set (t1 := match rs_hdr_get_c (t_response_headers t) rs_str_content_type with
             | Some hc => t <| t_response_content_type := Some (rs_content_type (h_value hc)) |>
             | None => t
             end).
  assert (HT : exists cT, match rs_hdr_get_c (t_response_headers t) rs_str_content_type with
                          | Some h0 => rs_otx (fun t => t <| t_response_content_type := Some (rs_content_type (h_value h0)) |>) cE
                          | None => cE
                          end = cT /\ sr_cin cT d rd [] None RES_BODY_DETERMINE (Some RES_BODY_DETERMINE) (Some H_RESPONSE_HEADER_DATA) t1).
  { unfold t1. destruct (rs_hdr_get_c (t_response_headers t) rs_str_content_type) as [hc|].
    - rewrite (sr_otx cE d rd _ _ _ _ _ t _ HE). eexists. split; [reflexivity|]. eapply sr_cin_txs. exact HE.
    - exists cE. split; [reflexivity|exact HE]. }
  destruct HT as (cT & ET & HT). rewrite ET in Ef. clear ET.
  rewrite (sr_otx cT d rd _ _ _ _ _ t1 _ HT) in Ef.
  match type of Ef with context [rs_response_headers cb (rs_set_state RES_BODY_CHUNKED_LENGTH (cT <| c_txs := [Some ?tt] |>))] => set (t3 := tt) in * end.
  assert (H4 : sr_cin (rs_set_state RES_BODY_CHUNKED_LENGTH (cT <| c_txs := [Some t3] |>)) d rd [] None RES_BODY_CHUNKED_LENGTH (Some RES_BODY_DETERMINE) (Some H_RESPONSE_HEADER_DATA) t3).
  { eapply sr_cin_state. eapply sr_cin_txs. exact HT. }
  destruct (sr_response_headers cb Hcb _ d rd _ _ t3 H4) as (c5 & E5 & H5 & _). rewrite E5 in Ef.
  destruct (sr_iter_ok cb g c c5 d rd _ _ _ _ _ _ Ef H5) as (c6 & E6 & H6); [discriminate|].
  exists c6. split; [exact E6|].
  assert (Et : sr_hdrs_tx_ch t = t3 <| t_res_cep := c_HTP_COMPRESSION_NONE |>).
  { unfold sr_hdrs_tx_ch, sr_det_tx_ch, t3. cbv zeta. fold t1. destruct (rs_hdr_get_c (t_response_headers t) rs_str_content_length); reflexivity. }
  rewrite Et. exact H6.
Qed.
End Chunked2.
