(* C15 -- proofs about coq/Model/MUrlenc.v:
   A. the streaming parser equals the declarative reference for every chunking;
   B. facts about the parameter decoder (fuel, length, independence of the incoming flags,
      exactness on the '%'-free and on the well-formed fragment). *)
Require Import Htp.Model.Base Htp.Model.MUrlenc.
Local Open Scope N_scope.

(* ================================================================== the declarative reference *)

Fixpoint ue_split_on (sep : N) (s : bytes) : list bytes :=
  match s with
  | [] => [[]]
  | x :: r => if x =? sep then [] :: ue_split_on sep r
              else match ue_split_on sep r with g :: gs => (x :: g) :: gs | [] => [[x]] end
  end.

Fixpoint ue_split_first (sep : N) (s : bytes) : bytes * bytes :=
  match s with
  | [] => ([], [])
  | x :: r => if x =? sep then ([], r) else let '(a, b) := ue_split_first sep r in (x :: a, b)
  end.

(* drop only a final empty piece *)
Definition ue_pieces (sep : N) (s : bytes) : list bytes :=
  let ps := ue_split_on sep s in
  match rev ps with [] :: r => rev r | _ => ps end.

(* the raw (undecoded) name/value pairs *)
Definition ue_ref_raw (sep : N) (s : bytes) : list (bytes * bytes) :=
  map (ue_split_first ue_EQ) (ue_pieces sep s).

(* decode name, then value, append the pair: flags accumulate, the expected status is overwritten *)
Definition ue_emit (cfg : dcfg) (dec : bool) (t : list (bytes * bytes) * N * Z) (kv : bytes * bytes)
  : list (bytes * bytes) * N * Z :=
  let '(ps, fl, st) := t in
  let '(k, fl, st) := ue_dec cfg dec fl st (fst kv) in
  let '(v, fl, st) := ue_dec cfg dec fl st (snd kv) in
  (ps ++ [(k, v)], fl, st).

(* reference with the decoder side effects: pairs, tx->flags, expected status *)
Definition ue_ref_gen (cfg : dcfg) (sep : N) (dec : bool) (fl : N) (st : Z) (s : bytes) : list (bytes * bytes) * N * Z :=
  fold_left (ue_emit cfg dec) (ue_ref_raw sep s) ([], fl, st).

Definition ue_ref_full (cfg : dcfg) (s : bytes) : list (bytes * bytes) * N * Z :=
  ue_ref_gen cfg c_ue_default_separator c_ue_default_decode 0 0%Z s.

(* the reference of the property text: split on '&', drop only a final empty piece, split each piece
   at its first '=', decode both halves *)
Definition ue_ref (cfg : dcfg) (s : bytes) : list (bytes * bytes) :=
  map (fun p => let '(k, v) := ue_split_first ue_EQ p in (ud_bytes cfg k, ud_bytes cfg v)) (ue_pieces 38 s).

(* ================================================================== A.1 abstract scanner *)

Record ue_abs := mkA { am : ue_kv; anm : bytes; afld : bytes; adone : list (bytes * bytes) }.

Definition astep (sep : N) (a : ue_abs) (c : N) : ue_abs :=
  match am a with
  | UeKey => if c =? sep then mkA UeKey [] [] (adone a ++ [(afld a, [])])
             else if c =? ue_EQ then mkA UeValue (afld a) [] (adone a)
             else mkA UeKey (anm a) (afld a ++ [c]) (adone a)
  | UeValue => if c =? sep then mkA UeKey [] [] (adone a ++ [(anm a, afld a)])
               else mkA UeValue (anm a) (afld a ++ [c]) (adone a)
  end.

Definition afinal (a : ue_abs) : list (bytes * bytes) :=
  adone a ++ match am a with
             | UeKey => if ue_ne (afld a) then [(afld a, [])] else []
             | UeValue => [(anm a, afld a)]
             end.

(* ---- the abstract scanner computes the declarative split ---- *)

Fixpoint ue_dle (l : list bytes) : list bytes :=
  match l with
  | [] => []
  | x :: r => match r with [] => if ue_ne x then [x] else [] | _ :: _ => x :: ue_dle r end
  end.

Lemma ue_dle_cons x r : r <> [] -> ue_dle (x :: r) = x :: ue_dle r.
Proof. destruct r; [intros H; contradiction|reflexivity]. Qed.

Lemma ue_snoc_nonnil {A} (l : list A) x : l ++ [x] <> [].
Proof. destruct l; discriminate. Qed.

Lemma ue_dle_snoc_nil l : ue_dle (l ++ [[]]) = l.
Proof.
  induction l as [|x l IH]; [reflexivity|].
  cbn [app]. rewrite ue_dle_cons by apply ue_snoc_nonnil. rewrite IH. reflexivity.
Qed.

Lemma ue_dle_snoc_ne l x : ue_ne x = true -> ue_dle (l ++ [x]) = l ++ [x].
Proof.
  intros Hx. induction l as [|y l IH].
  - cbn. rewrite Hx. reflexivity.
  - cbn [app]. rewrite ue_dle_cons by apply ue_snoc_nonnil. rewrite IH. reflexivity.
Qed.

Lemma ue_pieces_dle sep s : ue_pieces sep s = ue_dle (ue_split_on sep s).
Proof.
  unfold ue_pieces. generalize (ue_split_on sep s) as l. intros l.
  destruct l as [|x l] using rev_ind; [reflexivity|].
  rewrite rev_app_distr. cbn [rev app]. destruct x as [|c x].
  - rewrite rev_involutive, ue_dle_snoc_nil. reflexivity.
  - rewrite ue_dle_snoc_ne; reflexivity.
Qed.

Lemma ue_split_on_nonnil sep s : exists g gs, ue_split_on sep s = g :: gs.
Proof.
  destruct s as [|x r]; [eexists; eexists; reflexivity|].
  cbn. destruct (x =? sep); [eexists; eexists; reflexivity|].
  destruct (ue_split_on sep r); eexists; eexists; reflexivity.
Qed.

Definition ue_noeq (s : bytes) : Prop := forall x, In x s -> (x =? ue_EQ) = false.

Lemma ue_sf_noeq s : ue_noeq s -> ue_split_first ue_EQ s = (s, []).
Proof.
  induction s as [|x r IH]; intros H; [reflexivity|].
  cbn. rewrite (H x (or_introl eq_refl)). rewrite IH; [reflexivity|].
  intros y Hy. apply H. right. exact Hy.
Qed.

Lemma ue_sf_app_eq nm v : ue_noeq nm -> ue_split_first ue_EQ (nm ++ ue_EQ :: v) = (nm, v).
Proof.
  induction nm as [|x r IH]; intros H.
  - cbn. reflexivity.
  - cbn [app ue_split_first]. rewrite (H x (or_introl eq_refl)). rewrite IH; [reflexivity|].
    intros y Hy. apply H. right. exact Hy.
Qed.

Lemma ue_noeq_snoc s c : ue_noeq s -> (c =? ue_EQ) = false -> ue_noeq (s ++ [c]).
Proof.
  intros H Hc x Hx. apply in_app_or in Hx. destruct Hx as [Hx|[Hx|[]]]; [apply H; exact Hx|subst; exact Hc].
Qed.

(* the piece under construction, as a prefix of the first piece of what is still to come *)
Definition ue_prepend (pre : bytes) (l : list bytes) : list bytes :=
  match l with g :: gs => (pre ++ g) :: gs | [] => [] end.

Definition ue_P (sep : N) (pre s : bytes) : list (bytes * bytes) :=
  map (ue_split_first ue_EQ) (ue_dle (ue_prepend pre (ue_split_on sep s))).

Definition apre (a : ue_abs) : bytes :=
  match am a with UeKey => afld a | UeValue => anm a ++ ue_EQ :: afld a end.

Definition ainv (a : ue_abs) : Prop :=
  match am a with UeKey => ue_noeq (afld a) | UeValue => ue_noeq (anm a) end.

Lemma ue_P_sep sep pre r : ue_P sep pre (sep :: r) = ue_split_first ue_EQ pre :: ue_P sep [] r.
Proof.
  unfold ue_P. cbn [ue_split_on]. rewrite N.eqb_refl. cbn [ue_prepend]. rewrite app_nil_r.
  destruct (ue_split_on_nonnil sep r) as (g & gs & E). rewrite E. cbn [ue_dle ue_prepend app map]. reflexivity.
Qed.

Lemma ue_P_other sep pre c r : (c =? sep) = false -> ue_P sep pre (c :: r) = ue_P sep (pre ++ [c]) r.
Proof.
  intros Hc. unfold ue_P. cbn [ue_split_on]. rewrite Hc.
  destruct (ue_split_on_nonnil sep r) as (g & gs & E). rewrite E. cbn [ue_prepend].
  rewrite <- app_assoc. reflexivity.
Qed.

Lemma afinal_P sep s : forall a, ainv a -> afinal (fold_left (astep sep) s a) = adone a ++ ue_P sep (apre a) s.
Proof.
  induction s as [|c r IH]; intros a Ha.
  - cbn [fold_left]. unfold afinal, ue_P, apre, ainv in *. cbn [ue_split_on ue_prepend].
    rewrite app_nil_r. destruct (am a).
    + cbn [ue_dle]. destruct (ue_ne (afld a)); [|reflexivity]. cbn [map]. rewrite ue_sf_noeq by exact Ha. reflexivity.
    + cbn [ue_dle]. replace (ue_ne (anm a ++ ue_EQ :: afld a)) with true by (destruct (anm a); reflexivity).
      cbn [map]. rewrite ue_sf_app_eq by exact Ha. reflexivity.
  - cbn [fold_left]. destruct (c =? sep) eqn:Es.
    + apply N.eqb_eq in Es. subst c. rewrite ue_P_sep.
      rewrite IH.
      * unfold astep, apre, ainv in *. rewrite N.eqb_refl. destruct (am a); cbn [adone am afld anm].
        -- rewrite ue_sf_noeq by exact Ha. rewrite <- app_assoc. reflexivity.
        -- rewrite ue_sf_app_eq by exact Ha. rewrite <- app_assoc. reflexivity.
      * unfold astep, ainv. rewrite N.eqb_refl. destruct (am a); cbn; intros x [].
    + rewrite ue_P_other by exact Es. rewrite IH.
      * unfold astep, apre. rewrite Es. destruct (am a) eqn:Em.
        -- destruct (c =? ue_EQ) eqn:Ee; cbn [adone am afld anm].
           ++ apply N.eqb_eq in Ee. subst c. reflexivity.
           ++ reflexivity.
        -- cbn [adone am afld anm]. rewrite <- app_assoc. reflexivity.
      * unfold astep, ainv in *. rewrite Es. destruct (am a) eqn:Em.
        -- destruct (c =? ue_EQ) eqn:Ee; cbn [am afld anm]; [exact Ha|apply ue_noeq_snoc; assumption].
        -- cbn [am anm]. exact Ha.
Qed.

Lemma ue_prepend_nil l : ue_prepend [] l = l.
Proof. destruct l; reflexivity. Qed.

Lemma afinal_ref sep s : afinal (fold_left (astep sep) s (mkA UeKey [] [] [])) = ue_ref_raw sep s.
Proof.
  rewrite afinal_P by (cbn; intros x []).
  cbn [adone app apre am afld]. unfold ue_P, ue_ref_raw. rewrite ue_prepend_nil, ue_pieces_dle. reflexivity.
Qed.

(* ================================================================== A.2 the code-shaped parser refines the abstract scanner *)

Lemma ue_dec_nil cfg dec fl st : ue_dec cfg dec fl st [] = ([], fl, st).
Proof. unfold ue_dec. destruct dec; reflexivity. Qed.

Definition ue_obs (s : ue_state) : list (bytes * bytes) * N * Z := (ue_params s, ue_flags s, ue_status s).

(* "state after the prefix p": completed raw pairs of p are emitted, the unfinished field of p is
   in the builder + the bytes scanned since startpos *)
Definition ue_R (cfg : dcfg) (t0 : list (bytes * bytes) * N * Z) (s : ue_state) (acc : bytes) (a : ue_abs) : Prop :=
  ue_complete s = false /\ ue_mode s = am a /\
  (am a = UeKey -> ue_name s = None) /\ (am a = UeValue -> ue_dflt (ue_name s) = anm a) /\
  Forall (fun p => ue_ne p = true) (ue_bb s) /\ concat (ue_bb s) ++ rev acc = afld a /\
  ue_obs s = fold_left (ue_emit cfg (ue_decode s)) (adone a) t0.

Lemma ue_ne_concat l : Forall (fun p => ue_ne p = true) l -> ue_ne (concat l) = match l with [] => false | _ => true end.
Proof. destruct l as [|p l]; [reflexivity|]. intros H; inversion H; subst. destruct p; [discriminate|reflexivity]. Qed.

Lemma ue_concat_snoc (l : list bytes) (p : bytes) : concat (l ++ [p]) = concat l ++ p.
Proof. rewrite concat_app. cbn. rewrite app_nil_r. reflexivity. Qed.

Lemma ue_field_dflt (bbs : list bytes) (p : bytes) :
  ue_dflt (fst (match bbs with
                | _ :: _ => (Some (concat (if ue_ne p then bbs ++ [p] else bbs)), @nil bytes)
                | [] => ((if ue_ne p then Some p else None), bbs)
                end)) = concat bbs ++ p.
Proof.
  destruct bbs as [|b l].
  - destruct p; reflexivity.
  - cbn [fst ue_dflt]. destruct p as [|x p]; cbn [ue_ne]; [rewrite app_nil_r; reflexivity|].
    apply ue_concat_snoc.
Qed.

Lemma ue_field_bb (bbs : list bytes) (p : bytes) :
  snd (match bbs with
       | _ :: _ => (Some (concat (if ue_ne p then bbs ++ [p] else bbs)), @nil bytes)
       | [] => ((if ue_ne p then Some p else None), bbs)
       end) = [].
Proof. destruct bbs; reflexivity. Qed.

Lemma ue_emit_snoc cfg dec l x t0 :
  fold_left (ue_emit cfg dec) (l ++ [x]) t0 = ue_emit cfg dec (fold_left (ue_emit cfg dec) l t0) x.
Proof. rewrite fold_left_app. reflexivity. Qed.

(* one field ended by a separator / '=' (last = Some c), not complete *)
Lemma ue_add_piece_R cfg t0 s acc a c :
  ue_R cfg t0 s acc a ->
  let s' := ue_add_field_piece cfg s (rev acc) (Some c) in
  let m' := match ue_mode s with
            | UeKey => if c =? ue_sep s then UeKey else UeValue
            | UeValue => UeKey end in
  (ue_mode s = UeKey -> (c =? ue_EQ) || (c =? ue_sep s) = true) ->
  (ue_mode s = UeValue -> (c =? ue_sep s) = true) ->
  ue_R cfg t0 (ue_set_mode s' m') [] (astep (ue_sep s) a c) /\ ue_sep (ue_set_mode s' m') = ue_sep s
  /\ ue_decode (ue_set_mode s' m') = ue_decode s.
Proof.
  intros (Hc & Hm & Hk & Hv & Hne & Hf & Hp) s' m' HK HV. subst s' m'.
  unfold ue_add_field_piece. rewrite Hc. cbn [ue_some orb].
  pose proof (ue_field_dflt (ue_bb s) (rev acc)) as Hfd.
  pose proof (ue_field_bb (ue_bb s) (rev acc)) as Hfb.
  destruct (match ue_bb s with _ :: _ => _ | [] => _ end) as [field bb'] eqn:Efield.
  cbn [fst snd] in Hfd, Hfb. subst bb'. rewrite Hf in Hfd.
  unfold ue_obs in Hp. unfold astep. rewrite <- Hm.
  destruct (ue_mode s) eqn:Ems.
  - (* key *)
    specialize (HK eq_refl). destruct (c =? ue_sep s) eqn:Esep.
    + cbn [orb]. rewrite orb_true_r.
      destruct (ue_dec cfg (ue_decode s) (ue_flags s) (ue_status s) (ue_dflt field)) as [[nm fl] st] eqn:Ed.
      unfold ue_R, ue_set_mode, ue_obs. cbn [ue_complete ue_mode ue_name ue_bb ue_params ue_flags ue_status ue_sep ue_decode am anm afld adone].
      repeat split; auto; try discriminate.
      rewrite ue_emit_snoc, <- Hp. unfold ue_emit. cbn [fst snd]. rewrite Hfd in Ed. rewrite Ed, ue_dec_nil. reflexivity.
    + cbn [orb]. rewrite orb_false_r in HK. rewrite HK.
      unfold ue_R, ue_set_mode, ue_obs. cbn [ue_complete ue_mode ue_name ue_bb ue_params ue_flags ue_status ue_sep ue_decode am anm afld adone].
      repeat split; auto; try discriminate.
  - (* value *)
    specialize (HV eq_refl). rewrite HV.
    destruct (ue_dec cfg (ue_decode s) (ue_flags s) (ue_status s) (ue_dflt (ue_name s))) as [[nm fl] st] eqn:Ed.
    destruct (ue_dec cfg (ue_decode s) fl st (ue_dflt field)) as [[vl fl2] st2] eqn:Ed2.
    unfold ue_R, ue_set_mode, ue_obs. cbn [ue_complete ue_mode ue_name ue_bb ue_params ue_flags ue_status ue_sep ue_decode am anm afld adone].
    repeat split; auto; try discriminate.
    rewrite ue_emit_snoc, <- Hp. unfold ue_emit. cbn [fst snd].
    rewrite (Hv (eq_sym Hm)) in Ed. rewrite Ed. rewrite Hfd in Ed2. rewrite Ed2. reflexivity.
Qed.

Lemma ue_scan_sep cfg rest : forall s acc, ue_sep (ue_scan cfg s acc rest) = ue_sep s /\ ue_decode (ue_scan cfg s acc rest) = ue_decode s.
Proof.
  assert (Hadd : forall s p l, ue_sep (ue_add_field_piece cfg s p l) = ue_sep s /\ ue_decode (ue_add_field_piece cfg s p l) = ue_decode s).
  { intros s p l. unfold ue_add_field_piece.
    destruct (ue_some l || ue_complete s).
    - destruct (match ue_bb s with _ :: _ => _ | [] => _ end) as [field bb'].
      destruct (ue_mode s).
      + destruct (ue_complete s || _); [|split; reflexivity].
        destruct (ue_some field || _); [|split; reflexivity].
        destruct (ue_dec _ _ _ _ _) as [[? ?] ?]. split; reflexivity.
      + destruct (ue_dec _ _ _ _ _) as [[? ?] ?]. destruct (ue_dec _ _ _ _ _) as [[? ?] ?]. split; reflexivity.
    - destruct (ue_ne p); split; reflexivity. }
  induction rest as [|c r IH]; intros s acc.
  - cbn [ue_scan]. apply Hadd.
  - cbn [ue_scan]. destruct (ue_mode s).
    + destruct ((c =? ue_EQ) || (c =? ue_sep s)); [|apply IH].
      destruct (IH (ue_set_mode (ue_add_field_piece cfg s (rev acc) (Some c)) (if c =? ue_sep s then UeKey else UeValue)) []) as [H1 H2].
      rewrite H1, H2. unfold ue_set_mode. cbn [ue_sep ue_decode]. apply Hadd.
    + destruct (c =? ue_sep s); [|apply IH].
      destruct (IH (ue_set_mode (ue_add_field_piece cfg s (rev acc) (Some c)) UeKey) []) as [H1 H2].
      rewrite H1, H2. unfold ue_set_mode. cbn [ue_sep ue_decode]. apply Hadd.
Qed.

Lemma ue_scan_R cfg t0 rest : forall s acc a,
  ue_R cfg t0 s acc a -> ue_R cfg t0 (ue_scan cfg s acc rest) [] (fold_left (astep (ue_sep s)) rest a).
Proof.
  induction rest as [|c r IH]; intros s acc a HR.
  - destruct HR as (Hc & Hm & Hk & Hv & Hne & Hf & Hp).
    cbn [ue_scan fold_left]. unfold ue_add_field_piece. rewrite Hc. cbn [ue_some orb].
    destruct (ue_ne (rev acc)) eqn:En.
    + unfold ue_R, ue_obs in *. cbn [ue_complete ue_mode ue_name ue_bb ue_params ue_flags ue_status ue_decode].
      repeat split; auto.
      * apply Forall_app; split; [exact Hne|repeat constructor; exact En].
      * rewrite concat_app; cbn. rewrite !app_nil_r. exact Hf.
    + unfold ue_R. repeat split; auto. cbn [rev]. rewrite app_nil_r.
      destruct (rev acc); [rewrite app_nil_r in Hf; exact Hf|discriminate].
  - cbn [ue_scan fold_left]. pose proof HR as (Hc & Hm & Hk & Hv & Hne & Hf & Hp).
    destruct (ue_mode s) eqn:Ems.
    + destruct ((c =? ue_EQ) || (c =? ue_sep s)) eqn:Ed.
      * pose proof (ue_add_piece_R cfg t0 s acc a c HR) as H. cbn zeta in H. rewrite Ems in H.
        destruct H as (HR' & Hs' & _); [intros _; exact Ed|discriminate|].
        apply IH in HR'. rewrite Hs' in HR'. exact HR'.
      * apply orb_false_iff in Ed as [E1 E2].
        assert (Ha : am a = UeKey) by congruence.
        apply IH. unfold astep. rewrite Ha, E1, E2.
        unfold ue_R in *. cbn [am anm afld adone]. repeat split; auto; try discriminate.
        cbn [rev]. rewrite app_assoc, Hf. reflexivity.
    + destruct (c =? ue_sep s) eqn:Ed.
      * pose proof (ue_add_piece_R cfg t0 s acc a c HR) as H. cbn zeta in H. rewrite Ems in H.
        destruct H as (HR' & Hs' & _); [discriminate|intros _; exact Ed|].
        apply IH in HR'. rewrite Hs' in HR'. exact HR'.
      * assert (Ha : am a = UeValue) by congruence.
        apply IH. unfold astep. rewrite Ha, Ed.
        unfold ue_R in *. cbn [am anm afld adone]. repeat split; auto; try discriminate.
        cbn [rev]. rewrite app_assoc, Hf. reflexivity.
Qed.

Lemma ue_fold_R cfg t0 chunks : forall s a,
  ue_R cfg t0 s [] a ->
  ue_R cfg t0 (fold_left (ue_parse_partial cfg) chunks s) [] (fold_left (astep (ue_sep s)) (concat chunks) a)
  /\ ue_sep (fold_left (ue_parse_partial cfg) chunks s) = ue_sep s
  /\ ue_decode (fold_left (ue_parse_partial cfg) chunks s) = ue_decode s.
Proof.
  induction chunks as [|ch chs IH]; intros s a H; [split; [exact H|split; reflexivity]|].
  cbn [fold_left concat]. rewrite fold_left_app.
  pose proof (ue_scan_sep cfg ch s []) as [Hs Hd].
  destruct (IH (ue_parse_partial cfg s ch) (fold_left (astep (ue_sep s)) ch a)) as (H1 & H2 & H3).
  - apply ue_scan_R. exact H.
  - unfold ue_parse_partial in *. rewrite Hs in H1, H2. rewrite Hd in H3. split; [exact H1|split; assumption].
Qed.

Lemma ue_finalize_R cfg t0 s a :
  ue_R cfg t0 s [] a -> ue_obs (ue_finalize cfg s) = fold_left (ue_emit cfg (ue_decode s)) (afinal a) t0.
Proof.
  intros (Hc & Hm & Hk & Hv & Hne & Hf & Hp). unfold ue_finalize, ue_parse_partial. cbn [ue_scan rev].
  unfold ue_add_field_piece, ue_set_complete. cbn [ue_complete ue_mode ue_bb ue_name ue_params ue_flags ue_status ue_sep ue_decode ue_some orb ue_ne].
  cbn [rev] in Hf. rewrite app_nil_r in Hf.
  pose proof (ue_ne_concat (ue_bb s) Hne) as Hnc. rewrite Hf in Hnc.
  unfold afinal. rewrite <- Hm. unfold ue_obs in Hp.
  destruct (ue_bb s) as [|b l] eqn:Ebb; destruct (ue_mode s) eqn:Ems; rewrite Hnc.
  - (* no builder, key, empty field: nothing is added *)
    cbn [ue_some orb]. rewrite app_nil_r. unfold ue_obs. cbn [ue_params ue_flags ue_status]. exact Hp.
  - (* no builder, value *)
    destruct (ue_dec cfg (ue_decode s) (ue_flags s) (ue_status s) (ue_dflt (ue_name s))) as [[nm fl] st] eqn:Ed.
    destruct (ue_dec cfg (ue_decode s) fl st (ue_dflt None)) as [[vl fl2] st2] eqn:Ed2.
    unfold ue_obs. cbn [ue_params ue_flags ue_status].
    rewrite ue_emit_snoc, <- Hp. unfold ue_emit. cbn [fst snd].
    rewrite (Hv (eq_sym Hm)) in Ed. rewrite Ed. cbn in Hf. rewrite <- Hf. cbn [ue_dflt] in Ed2. rewrite Ed2. reflexivity.
  - (* builder, key *)
    cbn [ue_some orb].
    destruct (ue_dec cfg (ue_decode s) (ue_flags s) (ue_status s) (ue_dflt (Some (concat (b :: l))))) as [[nm fl] st] eqn:Ed.
    unfold ue_obs. cbn [ue_params ue_flags ue_status].
    rewrite ue_emit_snoc, <- Hp. unfold ue_emit. cbn [fst snd ue_dflt] in *. rewrite Hf in Ed. rewrite Ed, ue_dec_nil. reflexivity.
  - (* builder, value *)
    destruct (ue_dec cfg (ue_decode s) (ue_flags s) (ue_status s) (ue_dflt (ue_name s))) as [[nm fl] st] eqn:Ed.
    destruct (ue_dec cfg (ue_decode s) fl st (ue_dflt (Some (concat (b :: l))))) as [[vl fl2] st2] eqn:Ed2.
    unfold ue_obs. cbn [ue_params ue_flags ue_status].
    rewrite ue_emit_snoc, <- Hp. unfold ue_emit. cbn [fst snd ue_dflt] in *.
    rewrite (Hv (eq_sym Hm)) in Ed. rewrite Ed. rewrite Hf in Ed2. rewrite Ed2. reflexivity.
Qed.

(* a freshly created parser (any separator, either decode setting, any tx flags) *)
Definition ue_fresh (s : ue_state) : Prop :=
  ue_mode s = UeKey /\ ue_name s = None /\ ue_bb s = [] /\ ue_complete s = false /\ ue_params s = [].

Theorem ue_run_state_ref cfg s0 chunks :
  ue_fresh s0 ->
  ue_obs (ue_run_state cfg s0 chunks) = ue_ref_gen cfg (ue_sep s0) (ue_decode s0) (ue_flags s0) (ue_status s0) (concat chunks).
Proof.
  intros (Hm & Hn & Hb & Hc & Hp). unfold ue_run_state, ue_ref_gen.
  rewrite <- afinal_ref.
  destruct (ue_fold_R cfg ([], ue_flags s0, ue_status s0) chunks s0 (mkA UeKey [] [] [])) as (HR & Hs & Hd).
  - unfold ue_R, ue_obs. cbn [am anm afld adone fold_left rev]. rewrite Hb, Hp. repeat split; auto; discriminate.
  - rewrite (ue_finalize_R _ _ _ _ HR). rewrite Hd. reflexivity.
Qed.
