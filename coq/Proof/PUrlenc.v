(* C15 -- proofs about coq/Model/MUrlenc.v:
   A. the streaming parser equals the declarative reference for every chunking;
   B. facts about the parameter decoder (fuel, length, independence of the incoming flags,
      exactness on the '%'-free and on the well-formed fragment). *)
Require Import Htp.Model.Base Htp.Model.MUrlenc.
Local Open Scope N_scope.

(* ================================================================== the declarative reference *)

Fixpoint ue_split_on (sep : N) (s : bytes) : list bytes :=
  match s with
  | [] => [[]]
  | x :: r => if x =? sep then [] :: ue_split_on sep r
              else match ue_split_on sep r with g :: gs => (x :: g) :: gs | [] => [[x]] end
  end.

Fixpoint ue_split_first (sep : N) (s : bytes) : bytes * bytes :=
  match s with
  | [] => ([], [])
  | x :: r => if x =? sep then ([], r) else let '(a, b) := ue_split_first sep r in (x :: a, b)
  end.

(* drop only a final empty piece *)
Definition ue_pieces (sep : N) (s : bytes) : list bytes :=
  let ps := ue_split_on sep s in
  match rev ps with [] :: r => rev r | _ => ps end.

(* the raw (undecoded) name/value pairs *)
Definition ue_ref_raw (sep : N) (s : bytes) : list (bytes * bytes) :=
  map (ue_split_first ue_EQ) (ue_pieces sep s).

(* decode name, then value, append the pair: flags accumulate, the expected status is overwritten *)
Definition ue_emit (cfg : dcfg) (dec : bool) (t : list (bytes * bytes) * N * Z) (kv : bytes * bytes)
  : list (bytes * bytes) * N * Z :=
  let '(ps, fl, st) := t in
  let '(k, fl, st) := ue_dec cfg dec fl st (fst kv) in
  let '(v, fl, st) := ue_dec cfg dec fl st (snd kv) in
  (ps ++ [(k, v)], fl, st).

(* reference with the decoder side effects: pairs, tx->flags, expected status *)
Definition ue_ref_gen (cfg : dcfg) (sep : N) (dec : bool) (fl : N) (st : Z) (s : bytes) : list (bytes * bytes) * N * Z :=
  fold_left (ue_emit cfg dec) (ue_ref_raw sep s) ([], fl, st).

Definition ue_ref_full (cfg : dcfg) (s : bytes) : list (bytes * bytes) * N * Z :=
  ue_ref_gen cfg c_ue_default_separator c_ue_default_decode 0 0%Z s.

(* the reference of the property text: split on '&', drop only a final empty piece, split each piece
   at its first '=', decode both halves *)
Definition ue_ref (cfg : dcfg) (s : bytes) : list (bytes * bytes) :=
  map (fun p => let '(k, v) := ue_split_first ue_EQ p in (ud_bytes cfg k, ud_bytes cfg v)) (ue_pieces 38 s).

(* ================================================================== A.1 abstract scanner *)

Record ue_abs := mkA { am : ue_kv; anm : bytes; afld : bytes; adone : list (bytes * bytes) }.

Definition astep (sep : N) (a : ue_abs) (c : N) : ue_abs :=
  match am a with
  | UeKey => if c =? sep then mkA UeKey [] [] (adone a ++ [(afld a, [])])
             else if c =? ue_EQ then mkA UeValue (afld a) [] (adone a)
             else mkA UeKey (anm a) (afld a ++ [c]) (adone a)
  | UeValue => if c =? sep then mkA UeKey [] [] (adone a ++ [(anm a, afld a)])
               else mkA UeValue (anm a) (afld a ++ [c]) (adone a)
  end.

Definition afinal (a : ue_abs) : list (bytes * bytes) :=
  adone a ++ match am a with
             | UeKey => if ue_ne (afld a) then [(afld a, [])] else []
             | UeValue => [(anm a, afld a)]
             end.

(* ---- the abstract scanner computes the declarative split ---- *)

Fixpoint ue_dle (l : list bytes) : list bytes :=
  match l with
  | [] => []
  | x :: r => match r with [] => if ue_ne x then [x] else [] | _ :: _ => x :: ue_dle r end
  end.

Lemma ue_dle_cons x r : r <> [] -> ue_dle (x :: r) = x :: ue_dle r.
Proof. destruct r; [intros H; contradiction|reflexivity]. Qed.

Lemma ue_snoc_nonnil {A} (l : list A) x : l ++ [x] <> [].
Proof. destruct l; discriminate. Qed.

Lemma ue_dle_snoc_nil l : ue_dle (l ++ [[]]) = l.
Proof.
  induction l as [|x l IH]; [reflexivity|].
  cbn [app]. rewrite ue_dle_cons by apply ue_snoc_nonnil. rewrite IH. reflexivity.
Qed.

Lemma ue_dle_snoc_ne l x : ue_ne x = true -> ue_dle (l ++ [x]) = l ++ [x].
Proof.
  intros Hx. induction l as [|y l IH].
  - cbn. rewrite Hx. reflexivity.
  - cbn [app]. rewrite ue_dle_cons by apply ue_snoc_nonnil. rewrite IH. reflexivity.
Qed.

Lemma ue_pieces_dle sep s : ue_pieces sep s = ue_dle (ue_split_on sep s).
Proof.
  unfold ue_pieces. generalize (ue_split_on sep s) as l. intros l.
  destruct l as [|x l] using rev_ind; [reflexivity|].
  rewrite rev_app_distr. cbn [rev app]. destruct x as [|c x].
  - rewrite rev_involutive, ue_dle_snoc_nil. reflexivity.
  - rewrite ue_dle_snoc_ne; reflexivity.
Qed.

Lemma ue_split_on_nonnil sep s : exists g gs, ue_split_on sep s = g :: gs.
Proof.
  destruct s as [|x r]; [eexists; eexists; reflexivity|].
  cbn. destruct (x =? sep); [eexists; eexists; reflexivity|].
  destruct (ue_split_on sep r); eexists; eexists; reflexivity.
Qed.

Definition ue_noeq (s : bytes) : Prop := forall x, In x s -> (x =? ue_EQ) = false.

Lemma ue_sf_noeq s : ue_noeq s -> ue_split_first ue_EQ s = (s, []).
Proof.
  induction s as [|x r IH]; intros H; [reflexivity|].
  cbn. rewrite (H x (or_introl eq_refl)). rewrite IH; [reflexivity|].
  intros y Hy. apply H. right. exact Hy.
Qed.

Lemma ue_sf_app_eq nm v : ue_noeq nm -> ue_split_first ue_EQ (nm ++ ue_EQ :: v) = (nm, v).
Proof.
  induction nm as [|x r IH]; intros H.
  - cbn. reflexivity.
  - cbn [app ue_split_first]. rewrite (H x (or_introl eq_refl)). rewrite IH; [reflexivity|].
    intros y Hy. apply H. right. exact Hy.
Qed.

Lemma ue_noeq_snoc s c : ue_noeq s -> (c =? ue_EQ) = false -> ue_noeq (s ++ [c]).
Proof.
  intros H Hc x Hx. apply in_app_or in Hx. destruct Hx as [Hx|[Hx|[]]]; [apply H; exact Hx|subst; exact Hc].
Qed.

(* the piece under construction, as a prefix of the first piece of what is still to come *)
Definition ue_prepend (pre : bytes) (l : list bytes) : list bytes :=
  match l with g :: gs => (pre ++ g) :: gs | [] => [] end.

Definition ue_P (sep : N) (pre s : bytes) : list (bytes * bytes) :=
  map (ue_split_first ue_EQ) (ue_dle (ue_prepend pre (ue_split_on sep s))).

Definition apre (a : ue_abs) : bytes :=
  match am a with UeKey => afld a | UeValue => anm a ++ ue_EQ :: afld a end.

Definition ainv (a : ue_abs) : Prop :=
  match am a with UeKey => ue_noeq (afld a) | UeValue => ue_noeq (anm a) end.

Lemma ue_P_sep sep pre r : ue_P sep pre (sep :: r) = ue_split_first ue_EQ pre :: ue_P sep [] r.
Proof.
  unfold ue_P. cbn [ue_split_on]. rewrite N.eqb_refl. cbn [ue_prepend]. rewrite app_nil_r.
  destruct (ue_split_on_nonnil sep r) as (g & gs & E). rewrite E. cbn [ue_dle ue_prepend app map]. reflexivity.
Qed.

Lemma ue_P_other sep pre c r : (c =? sep) = false -> ue_P sep pre (c :: r) = ue_P sep (pre ++ [c]) r.
Proof.
  intros Hc. unfold ue_P. cbn [ue_split_on]. rewrite Hc.
  destruct (ue_split_on_nonnil sep r) as (g & gs & E). rewrite E. cbn [ue_prepend].
  rewrite <- app_assoc. reflexivity.
Qed.

Lemma afinal_P sep s : forall a, ainv a -> afinal (fold_left (astep sep) s a) = adone a ++ ue_P sep (apre a) s.
Proof.
  induction s as [|c r IH]; intros a Ha.
  - cbn [fold_left]. unfold afinal, ue_P, apre, ainv in *. cbn [ue_split_on ue_prepend].
    rewrite app_nil_r. destruct (am a).
    + cbn [ue_dle]. destruct (ue_ne (afld a)); [|reflexivity]. cbn [map]. rewrite ue_sf_noeq by exact Ha. reflexivity.
    + cbn [ue_dle]. replace (ue_ne (anm a ++ ue_EQ :: afld a)) with true by (destruct (anm a); reflexivity).
      cbn [map]. rewrite ue_sf_app_eq by exact Ha. reflexivity.
  - cbn [fold_left]. destruct (c =? sep) eqn:Es.
    + apply N.eqb_eq in Es. subst c. rewrite ue_P_sep.
      rewrite IH.
      * unfold astep, apre, ainv in *. rewrite N.eqb_refl. destruct (am a); cbn [adone am afld anm].
        -- rewrite ue_sf_noeq by exact Ha. rewrite <- app_assoc. reflexivity.
        -- rewrite ue_sf_app_eq by exact Ha. rewrite <- app_assoc. reflexivity.
      * unfold astep, ainv. rewrite N.eqb_refl. destruct (am a); cbn; intros x [].
    + rewrite ue_P_other by exact Es. rewrite IH.
      * unfold astep, apre. rewrite Es. destruct (am a) eqn:Em.
        -- destruct (c =? ue_EQ) eqn:Ee; cbn [adone am afld anm].
           ++ apply N.eqb_eq in Ee. subst c. reflexivity.
           ++ reflexivity.
        -- cbn [adone am afld anm]. rewrite <- app_assoc. reflexivity.
      * unfold astep, ainv in *. rewrite Es. destruct (am a) eqn:Em.
        -- destruct (c =? ue_EQ) eqn:Ee; cbn [am afld anm]; [exact Ha|apply ue_noeq_snoc; assumption].
        -- cbn [am anm]. exact Ha.
Qed.

Lemma ue_prepend_nil l : ue_prepend [] l = l.
Proof. destruct l; reflexivity. Qed.

Lemma afinal_ref sep s : afinal (fold_left (astep sep) s (mkA UeKey [] [] [])) = ue_ref_raw sep s.
Proof.
  rewrite afinal_P by (cbn; intros x []).
  cbn [adone app apre am afld]. unfold ue_P, ue_ref_raw. rewrite ue_prepend_nil, ue_pieces_dle. reflexivity.
Qed.

(* ================================================================== A.2 the code-shaped parser refines the abstract scanner *)

Lemma ue_dec_nil cfg dec fl st : ue_dec cfg dec fl st [] = ([], fl, st).
Proof. unfold ue_dec. destruct dec; reflexivity. Qed.

Definition ue_obs (s : ue_state) : list (bytes * bytes) * N * Z := (ue_params s, ue_flags s, ue_status s).

(* "state after the prefix p": completed raw pairs of p are emitted, the unfinished field of p is
   in the builder + the bytes scanned since startpos *)
Definition ue_R (cfg : dcfg) (t0 : list (bytes * bytes) * N * Z) (s : ue_state) (acc : bytes) (a : ue_abs) : Prop :=
  ue_complete s = false /\ ue_mode s = am a /\
  (am a = UeKey -> ue_name s = None) /\ (am a = UeValue -> ue_dflt (ue_name s) = anm a) /\
  Forall (fun p => ue_ne p = true) (ue_bb s) /\ concat (ue_bb s) ++ rev acc = afld a /\
  ue_obs s = fold_left (ue_emit cfg (ue_decode s)) (adone a) t0.

Lemma ue_ne_concat l : Forall (fun p => ue_ne p = true) l -> ue_ne (concat l) = match l with [] => false | _ => true end.
Proof. destruct l as [|p l]; [reflexivity|]. intros H; inversion H; subst. destruct p; [discriminate|reflexivity]. Qed.

Lemma ue_concat_snoc (l : list bytes) (p : bytes) : concat (l ++ [p]) = concat l ++ p.
Proof. rewrite concat_app. cbn. rewrite app_nil_r. reflexivity. Qed.

Lemma ue_field_dflt (bbs : list bytes) (p : bytes) :
  ue_dflt (fst (match bbs with
                | _ :: _ => (Some (concat (if ue_ne p then bbs ++ [p] else bbs)), @nil bytes)
                | [] => ((if ue_ne p then Some p else None), bbs)
                end)) = concat bbs ++ p.
Proof.
  destruct bbs as [|b l].
  - destruct p; reflexivity.
  - cbn [fst ue_dflt]. destruct p as [|x p]; cbn [ue_ne]; [rewrite app_nil_r; reflexivity|].
    apply ue_concat_snoc.
Qed.

Lemma ue_field_bb (bbs : list bytes) (p : bytes) :
  snd (match bbs with
       | _ :: _ => (Some (concat (if ue_ne p then bbs ++ [p] else bbs)), @nil bytes)
       | [] => ((if ue_ne p then Some p else None), bbs)
       end) = [].
Proof. destruct bbs; reflexivity. Qed.

Lemma ue_emit_snoc cfg dec l x t0 :
  fold_left (ue_emit cfg dec) (l ++ [x]) t0 = ue_emit cfg dec (fold_left (ue_emit cfg dec) l t0) x.
Proof. rewrite fold_left_app. reflexivity. Qed.

(* one field ended by a separator / '=' (last = Some c), not complete *)
Lemma ue_add_piece_R cfg t0 s acc a c :
  ue_R cfg t0 s acc a ->
  let s' := ue_add_field_piece cfg s (rev acc) (Some c) in
  let m' := match ue_mode s with
            | UeKey => if c =? ue_sep s then UeKey else UeValue
            | UeValue => UeKey end in
  (ue_mode s = UeKey -> (c =? ue_EQ) || (c =? ue_sep s) = true) ->
  (ue_mode s = UeValue -> (c =? ue_sep s) = true) ->
  ue_R cfg t0 (ue_set_mode s' m') [] (astep (ue_sep s) a c) /\ ue_sep (ue_set_mode s' m') = ue_sep s
  /\ ue_decode (ue_set_mode s' m') = ue_decode s.
Proof.
  intros (Hc & Hm & Hk & Hv & Hne & Hf & Hp) s' m' HK HV. subst s' m'.
  unfold ue_add_field_piece. rewrite Hc. cbn [ue_some orb].
  pose proof (ue_field_dflt (ue_bb s) (rev acc)) as Hfd.
  pose proof (ue_field_bb (ue_bb s) (rev acc)) as Hfb.
  destruct (match ue_bb s with _ :: _ => _ | [] => _ end) as [field bb'] eqn:Efield.
  cbn [fst snd] in Hfd, Hfb. subst bb'. rewrite Hf in Hfd.
  unfold ue_obs in Hp. unfold astep. rewrite <- Hm.
  destruct (ue_mode s) eqn:Ems.
  - (* key *)
    specialize (HK eq_refl). destruct (c =? ue_sep s) eqn:Esep.
    + cbn [orb]. rewrite orb_true_r.
      destruct (ue_dec cfg (ue_decode s) (ue_flags s) (ue_status s) (ue_dflt field)) as [[nm fl] st] eqn:Ed.
      unfold ue_R, ue_set_mode, ue_obs. cbn [ue_complete ue_mode ue_name ue_bb ue_params ue_flags ue_status ue_sep ue_decode am anm afld adone].
      repeat split; auto; try discriminate.
      rewrite ue_emit_snoc, <- Hp. unfold ue_emit. cbn [fst snd]. rewrite Hfd in Ed. rewrite Ed, ue_dec_nil. reflexivity.
    + cbn [orb]. rewrite orb_false_r in HK. rewrite HK.
      unfold ue_R, ue_set_mode, ue_obs. cbn [ue_complete ue_mode ue_name ue_bb ue_params ue_flags ue_status ue_sep ue_decode am anm afld adone].
      repeat split; auto; try discriminate.
  - (* value *)
    specialize (HV eq_refl). rewrite HV.
    destruct (ue_dec cfg (ue_decode s) (ue_flags s) (ue_status s) (ue_dflt (ue_name s))) as [[nm fl] st] eqn:Ed.
    destruct (ue_dec cfg (ue_decode s) fl st (ue_dflt field)) as [[vl fl2] st2] eqn:Ed2.
    unfold ue_R, ue_set_mode, ue_obs. cbn [ue_complete ue_mode ue_name ue_bb ue_params ue_flags ue_status ue_sep ue_decode am anm afld adone].
    repeat split; auto; try discriminate.
    rewrite ue_emit_snoc, <- Hp. unfold ue_emit. cbn [fst snd].
    rewrite (Hv (eq_sym Hm)) in Ed. rewrite Ed. rewrite Hfd in Ed2. rewrite Ed2. reflexivity.
Qed.

Lemma ue_scan_sep cfg rest : forall s acc, ue_sep (ue_scan cfg s acc rest) = ue_sep s /\ ue_decode (ue_scan cfg s acc rest) = ue_decode s.
Proof.
  assert (Hadd : forall s p l, ue_sep (ue_add_field_piece cfg s p l) = ue_sep s /\ ue_decode (ue_add_field_piece cfg s p l) = ue_decode s).
  { intros s p l. unfold ue_add_field_piece.
    destruct (ue_some l || ue_complete s).
    - destruct (match ue_bb s with _ :: _ => _ | [] => _ end) as [field bb'].
      destruct (ue_mode s).
      + destruct (ue_complete s || _); [|split; reflexivity].
        destruct (ue_some field || _); [|split; reflexivity].
        destruct (ue_dec _ _ _ _ _) as [[? ?] ?]. split; reflexivity.
      + destruct (ue_dec _ _ _ _ _) as [[? ?] ?]. destruct (ue_dec _ _ _ _ _) as [[? ?] ?]. split; reflexivity.
    - destruct (ue_ne p); split; reflexivity. }
  induction rest as [|c r IH]; intros s acc.
  - cbn [ue_scan]. apply Hadd.
  - cbn [ue_scan]. destruct (ue_mode s).
    + destruct ((c =? ue_EQ) || (c =? ue_sep s)); [|apply IH].
      destruct (IH (ue_set_mode (ue_add_field_piece cfg s (rev acc) (Some c)) (if c =? ue_sep s then UeKey else UeValue)) []) as [H1 H2].
      rewrite H1, H2. unfold ue_set_mode. cbn [ue_sep ue_decode]. apply Hadd.
    + destruct (c =? ue_sep s); [|apply IH].
      destruct (IH (ue_set_mode (ue_add_field_piece cfg s (rev acc) (Some c)) UeKey) []) as [H1 H2].
      rewrite H1, H2. unfold ue_set_mode. cbn [ue_sep ue_decode]. apply Hadd.
Qed.

Lemma ue_scan_R cfg t0 rest : forall s acc a,
  ue_R cfg t0 s acc a -> ue_R cfg t0 (ue_scan cfg s acc rest) [] (fold_left (astep (ue_sep s)) rest a).
Proof.
  induction rest as [|c r IH]; intros s acc a HR.
  - destruct HR as (Hc & Hm & Hk & Hv & Hne & Hf & Hp).
    cbn [ue_scan fold_left]. unfold ue_add_field_piece. rewrite Hc. cbn [ue_some orb].
    destruct (ue_ne (rev acc)) eqn:En.
    + unfold ue_R, ue_obs in *. cbn [ue_complete ue_mode ue_name ue_bb ue_params ue_flags ue_status ue_decode].
      repeat split; auto.
      * apply Forall_app; split; [exact Hne|repeat constructor; exact En].
      * rewrite concat_app; cbn. rewrite !app_nil_r. exact Hf.
    + unfold ue_R. repeat split; auto. cbn [rev]. rewrite app_nil_r.
      destruct (rev acc); [rewrite app_nil_r in Hf; exact Hf|discriminate].
  - cbn [ue_scan fold_left]. pose proof HR as (Hc & Hm & Hk & Hv & Hne & Hf & Hp).
    destruct (ue_mode s) eqn:Ems.
    + destruct ((c =? ue_EQ) || (c =? ue_sep s)) eqn:Ed.
      * pose proof (ue_add_piece_R cfg t0 s acc a c HR) as H. cbn zeta in H. rewrite Ems in H.
        destruct H as (HR' & Hs' & _); [intros _; exact Ed|discriminate|].
        apply IH in HR'. rewrite Hs' in HR'. exact HR'.
      * apply orb_false_iff in Ed as [E1 E2].
        assert (Ha : am a = UeKey) by congruence.
        apply IH. unfold astep. rewrite Ha, E1, E2.
        unfold ue_R in *. cbn [am anm afld adone]. repeat split; auto; try discriminate.
        cbn [rev]. rewrite app_assoc, Hf. reflexivity.
    + destruct (c =? ue_sep s) eqn:Ed.
      * pose proof (ue_add_piece_R cfg t0 s acc a c HR) as H. cbn zeta in H. rewrite Ems in H.
        destruct H as (HR' & Hs' & _); [discriminate|intros _; exact Ed|].
        apply IH in HR'. rewrite Hs' in HR'. exact HR'.
      * assert (Ha : am a = UeValue) by congruence.
        apply IH. unfold astep. rewrite Ha, Ed.
        unfold ue_R in *. cbn [am anm afld adone]. repeat split; auto; try discriminate.
        cbn [rev]. rewrite app_assoc, Hf. reflexivity.
Qed.

Lemma ue_fold_R cfg t0 chunks : forall s a,
  ue_R cfg t0 s [] a ->
  ue_R cfg t0 (fold_left (ue_parse_partial cfg) chunks s) [] (fold_left (astep (ue_sep s)) (concat chunks) a)
  /\ ue_sep (fold_left (ue_parse_partial cfg) chunks s) = ue_sep s
  /\ ue_decode (fold_left (ue_parse_partial cfg) chunks s) = ue_decode s.
Proof.
  induction chunks as [|ch chs IH]; intros s a H; [split; [exact H|split; reflexivity]|].
  cbn [fold_left concat]. rewrite fold_left_app.
  pose proof (ue_scan_sep cfg ch s []) as [Hs Hd].
  destruct (IH (ue_parse_partial cfg s ch) (fold_left (astep (ue_sep s)) ch a)) as (H1 & H2 & H3).
  - apply ue_scan_R. exact H.
  - unfold ue_parse_partial in *. rewrite Hs in H1, H2. rewrite Hd in H3. split; [exact H1|split; assumption].
Qed.

Lemma ue_finalize_R cfg t0 s a :
  ue_R cfg t0 s [] a -> ue_obs (ue_finalize cfg s) = fold_left (ue_emit cfg (ue_decode s)) (afinal a) t0.
Proof.
  intros (Hc & Hm & Hk & Hv & Hne & Hf & Hp). unfold ue_finalize, ue_parse_partial. cbn [ue_scan rev].
  unfold ue_add_field_piece, ue_set_complete. cbn [ue_complete ue_mode ue_bb ue_name ue_params ue_flags ue_status ue_sep ue_decode ue_some orb ue_ne].
  cbn [rev] in Hf. rewrite app_nil_r in Hf.
  pose proof (ue_ne_concat (ue_bb s) Hne) as Hnc. rewrite Hf in Hnc.
  unfold afinal. rewrite <- Hm. unfold ue_obs in Hp.
  destruct (ue_bb s) as [|b l] eqn:Ebb; destruct (ue_mode s) eqn:Ems; rewrite ?Hnc.
  - (* no builder, key, empty field: nothing is added *)
    cbn [ue_some orb]. rewrite app_nil_r. unfold ue_obs. cbn [ue_params ue_flags ue_status]. exact Hp.
  - (* no builder, value *)
    destruct (ue_dec cfg (ue_decode s) (ue_flags s) (ue_status s) (ue_dflt (ue_name s))) as [[nm fl] st] eqn:Ed.
    destruct (ue_dec cfg (ue_decode s) fl st (ue_dflt None)) as [[vl fl2] st2] eqn:Ed2.
    unfold ue_obs. cbn [ue_params ue_flags ue_status].
    rewrite ue_emit_snoc, <- Hp. unfold ue_emit. cbn [fst snd].
    rewrite (Hv (eq_sym Hm)) in Ed. rewrite Ed. cbn in Hf. rewrite <- Hf. cbn [ue_dflt] in Ed2. rewrite Ed2. reflexivity.
  - (* builder, key *)
    cbn [ue_some orb].
    destruct (ue_dec cfg (ue_decode s) (ue_flags s) (ue_status s) (ue_dflt (Some (concat (b :: l))))) as [[nm fl] st] eqn:Ed.
    unfold ue_obs. cbn [ue_params ue_flags ue_status].
    rewrite ue_emit_snoc, <- Hp. unfold ue_emit. cbn [fst snd ue_dflt] in *. rewrite Hf in Ed. rewrite Ed, ue_dec_nil. reflexivity.
  - (* builder, value *)
    destruct (ue_dec cfg (ue_decode s) (ue_flags s) (ue_status s) (ue_dflt (ue_name s))) as [[nm fl] st] eqn:Ed.
    destruct (ue_dec cfg (ue_decode s) fl st (ue_dflt (Some (concat (b :: l))))) as [[vl fl2] st2] eqn:Ed2.
    unfold ue_obs. cbn [ue_params ue_flags ue_status].
    rewrite ue_emit_snoc, <- Hp. unfold ue_emit. cbn [fst snd ue_dflt] in *.
    rewrite (Hv (eq_sym Hm)) in Ed. rewrite Ed. rewrite Hf in Ed2. rewrite Ed2. reflexivity.
Qed.

(* a freshly created parser (any separator, either decode setting, any tx flags) *)
Definition ue_fresh (s : ue_state) : Prop :=
  ue_mode s = UeKey /\ ue_name s = None /\ ue_bb s = [] /\ ue_complete s = false /\ ue_params s = [].

Theorem ue_run_state_ref cfg s0 chunks :
  ue_fresh s0 ->
  ue_obs (ue_run_state cfg s0 chunks) = ue_ref_gen cfg (ue_sep s0) (ue_decode s0) (ue_flags s0) (ue_status s0) (concat chunks).
Proof.
  intros (Hm & Hn & Hb & Hc & Hp). unfold ue_run_state, ue_ref_gen.
  rewrite <- afinal_ref.
  destruct (ue_fold_R cfg ([], ue_flags s0, ue_status s0) chunks s0 (mkA UeKey [] [] [])) as (HR & Hs & Hd).
  - unfold ue_R, ue_obs. cbn [am anm afld adone fold_left rev]. rewrite Hb, Hp. repeat split; auto; discriminate.
  - rewrite (ue_finalize_R _ _ _ _ HR). rewrite Hd. reflexivity.
Qed.

(* ================================================================== B. the parameter decoder *)

Lemma ud_decode_u_indep cfg fl fl' a b c d : snd (ud_decode_u cfg fl a b c d) = snd (ud_decode_u cfg fl' a b c d).
Proof. unfold ud_decode_u. destruct (ud_x2c a b =? 0); reflexivity. Qed.

Ltac ud_pct_cases H :=
  repeat match type of H with
         | context [match ud_handling_of ?c with _ => _ end] => destruct (ud_handling_of c)
         | context [ud_decode_u ?a ?b ?c ?d ?e ?f] => destruct (ud_decode_u a b c d e f)
         | context [if ?b then _ else _] => destruct b
         end.

(* every pass that continues the loop consumes at least one byte *)
Lemma ud_pct_shrinks cfg fl st r1 fl' st' a : ud_pct cfg fl st r1 = (fl', st', a) ->
  match a with UdByte _ r' => (length r' <= length r1)%nat | UdSkip r' => (length r' <= length r1)%nat | UdStuck => True end.
Proof.
  unfold ud_pct, ud_mark_invalid. intros H.
  destruct r1 as [|h1 [|h2 r3]]; [| |destruct r3 as [|h3 [|h4 [|h5 r6]]]];
    ud_pct_cases H; inversion H; subst; cbn [length]; auto; lia.
Qed.

(* what is written and where reading resumes does not depend on the incoming flags / status *)
Lemma ud_pct_act_indep cfg fl st fl' st' r1 : snd (ud_pct cfg fl st r1) = snd (ud_pct cfg fl' st' r1).
Proof.
  unfold ud_pct, ud_mark_invalid.
  destruct r1 as [|h1 [|h2 r3]]; [| |destruct r3 as [|h3 [|h4 [|h5 r6]]]];
    repeat match goal with
           | |- context [match ud_handling_of ?c with _ => _ end] => destruct (ud_handling_of c)
           | |- context [if ?b then _ else _] => destruct b
           end; try reflexivity;
    pose proof (ud_decode_u_indep cfg fl fl' h2 h3 h4 h5) as Hi;
    try (pose proof (ud_decode_u_indep cfg (N.lor fl c_HTP_URLEN_INVALID_ENCODING) (N.lor fl' c_HTP_URLEN_INVALID_ENCODING) h2 h3 h4 h5) as Hi2);
    repeat match goal with
           | |- context [ud_decode_u ?a ?b ?c ?d ?e ?f] => destruct (ud_decode_u a b c d e f)
           end; cbn [snd] in *; congruence.
Qed.

Lemma ud_fuel_sufficient cfg len : forall fuel fl st out rest,
  (length rest < fuel)%nat -> ud_loop fuel cfg len fl st out rest <> None.
Proof.
  induction fuel as [|fuel IH]; intros fl st out rest Hf; [lia|].
  destruct rest as [|c r1]; [discriminate|]. cbn [length] in Hf. cbn [ud_loop].
  destruct (c =? ud_PCT).
  - destruct (ud_pct cfg fl st r1) as [[f1 s1] a1] eqn:E1. pose proof (ud_pct_shrinks _ _ _ _ _ _ _ E1) as Hs.
    destruct a1 as [b r'|r'|]; [| |discriminate].
    + destruct (b =? 0); [destruct (d_nul_enc_term cfg); [discriminate|]|]; apply IH; lia.
    + apply IH. lia.
  - destruct (c =? ud_PLUS); [apply IH; lia|].
    destruct (c =? 0); [destruct (d_nul_raw_term cfg); [discriminate|]|]; apply IH; lia.
Qed.

Lemma ud_loop_length cfg len : forall fuel fl st out rest b f t,
  ud_loop fuel cfg len fl st out rest = Some (b, f, t) ->
  (length out + length rest <= len)%nat -> (length b <= len)%nat.
Proof.
  induction fuel as [|fuel IH]; intros fl st out rest b f t H Hl; [discriminate|].
  destruct rest as [|c r1].
  - cbn in H. inversion H; subst. rewrite rev_length. cbn in Hl. lia.
  - cbn [length] in Hl. cbn [ud_loop] in H.
    destruct (c =? ud_PCT).
    + destruct (ud_pct cfg fl st r1) as [[f1 s1] a1] eqn:E1. pose proof (ud_pct_shrinks _ _ _ _ _ _ _ E1) as Hs.
      destruct a1 as [b' r'|r'|].
      * destruct (b' =? 0); [destruct (d_nul_enc_term cfg)|].
        -- inversion H; subst. rewrite rev_length. lia.
        -- eapply IH; [exact H|]. cbn [length]. lia.
        -- eapply IH; [exact H|]. cbn [length]. lia.
      * eapply IH; [exact H|]. lia.
      * inversion H; subst. rewrite app_length, rev_length, repeat_length. lia.
    + destruct (c =? ud_PLUS); [eapply IH; [exact H|]; cbn [length]; lia|].
      destruct (c =? 0); [destruct (d_nul_raw_term cfg)|].
      * inversion H; subst. rewrite rev_length. lia.
      * eapply IH; [exact H|]. cbn [length]. lia.
      * eapply IH; [exact H|]. cbn [length]. lia.
Qed.

Definition ud_ofst (r : option (bytes * N * Z)) : option bytes := option_map (fun x => fst (fst x)) r.

Lemma ud_loop_bytes_indep cfg len : forall fuel fl st fl' st' out rest,
  ud_ofst (ud_loop fuel cfg len fl st out rest) = ud_ofst (ud_loop fuel cfg len fl' st' out rest).
Proof.
  induction fuel as [|fuel IH]; intros fl st fl' st' out rest; [reflexivity|].
  destruct rest as [|c r1]; [reflexivity|]. cbn [ud_loop].
  destruct (c =? ud_PCT).
  - pose proof (ud_pct_act_indep cfg fl st fl' st' r1) as Hi.
    destruct (ud_pct cfg fl st r1) as [[f1 s1] a1]. destruct (ud_pct cfg fl' st' r1) as [[f2 s2] a2].
    cbn [snd] in Hi. subst a2.
    destruct a1 as [b r'|r'|]; [| apply IH | reflexivity].
    destruct (b =? 0); [destruct (d_nul_enc_term cfg); [reflexivity|]|]; apply IH.
  - destruct (c =? ud_PLUS); [apply IH|].
    destruct (c =? 0); [destruct (d_nul_raw_term cfg); [reflexivity|]|]; apply IH.
Qed.

(* the unwrapping in ud_urldecode_from never takes the out-of-fuel branch *)
Lemma ud_from_loop cfg fl st s :
  ud_loop (S (length s)) cfg (length s) fl st [] s = Some (ud_urldecode_from cfg fl st s).
Proof.
  unfold ud_urldecode_from.
  destruct (ud_loop (S (length s)) cfg (length s) fl st [] s) eqn:E; [reflexivity|].
  exfalso. revert E. apply ud_fuel_sufficient. lia.
Qed.

Theorem ud_from_bytes cfg fl st s : fst (fst (ud_urldecode_from cfg fl st s)) = ud_bytes cfg s.
Proof.
  unfold ud_bytes, ud_urldecode_ex.
  pose proof (ud_loop_bytes_indep cfg (length s) (S (length s)) fl st 0 0%Z [] s) as H.
  rewrite !ud_from_loop in H. cbn in H. congruence.
Qed.

Theorem ud_length_from cfg fl st s : (length (fst (fst (ud_urldecode_from cfg fl st s))) <= length s)%nat.
Proof.
  pose proof (ud_from_loop cfg fl st s) as H.
  destruct (ud_urldecode_from cfg fl st s) as [[b f] t]. cbn [fst].
  eapply ud_loop_length; [exact H|]. cbn. lia.
Qed.

Theorem ud_length cfg s : (length (ud_bytes cfg s) <= length s)%nat.
Proof. apply ud_length_from. Qed.

(* ================================================================== C. the theorems of the property *)

Definition ue_decb (cfg : dcfg) (dec : bool) (b : bytes) : bytes := if dec then ud_bytes cfg b else b.

Lemma ue_dec_bytes cfg dec fl st b : fst (fst (ue_dec cfg dec fl st b)) = ue_decb cfg dec b.
Proof. unfold ue_dec, ue_decb. destruct dec; [apply ud_from_bytes|reflexivity]. Qed.

Lemma ue_emit_params cfg dec : forall raws ps fl st,
  fst (fst (fold_left (ue_emit cfg dec) raws (ps, fl, st)))
  = ps ++ map (fun kv => (ue_decb cfg dec (fst kv), ue_decb cfg dec (snd kv))) raws.
Proof.
  induction raws as [|kv raws IH]; intros ps fl st.
  - cbn. rewrite app_nil_r. reflexivity.
  - cbn [fold_left map]. unfold ue_emit at 2.
    pose proof (ue_dec_bytes cfg dec fl st (fst kv)) as H1.
    destruct (ue_dec cfg dec fl st (fst kv)) as [[k f1] s1]. cbn [fst] in H1.
    pose proof (ue_dec_bytes cfg dec f1 s1 (snd kv)) as H2.
    destruct (ue_dec cfg dec f1 s1 (snd kv)) as [[v f2] s2]. cbn [fst] in H2.
    rewrite IH, <- app_assoc. subst. reflexivity.
Qed.

Lemma ue_init_fresh : ue_fresh ue_init.
Proof. repeat split. Qed.

(* what htp_urlenp_create leaves in the parser, as regenerated from /repo *)
Lemma ue_default_separator_is_amp : c_ue_default_separator = 38.
Proof. reflexivity. Qed.
Lemma ue_default_decode_on : c_ue_default_decode = true.
Proof. reflexivity. Qed.

(* pairs + flags + expected status, every configuration, every chunking *)
Theorem ue_chunking_full cfg chunks : ue_run_full cfg chunks = ue_ref_full cfg (concat chunks).
Proof.
  unfold ue_run_full, ue_ref_full.
  pose proof (ue_run_state_ref cfg ue_init chunks ue_init_fresh) as H. unfold ue_obs in H. exact H.
Qed.

Theorem ue_chunking cfg chunks : ue_run cfg chunks = ue_ref cfg (concat chunks).
Proof.
  unfold ue_run.
  pose proof (ue_run_state_ref cfg ue_init chunks ue_init_fresh) as H. unfold ue_obs in H.
  apply (f_equal (fun x => fst (fst x))) in H. cbn [fst] in H. rewrite H.
  unfold ue_ref_gen. rewrite ue_emit_params. cbn [app].
  unfold ue_ref_raw, ue_ref. rewrite map_map.
  change (ue_sep ue_init) with c_ue_default_separator. rewrite ue_default_separator_is_amp.
  apply map_ext. intros p. destruct (ue_split_first ue_EQ p) as [k v]. reflexivity.
Qed.

Theorem ue_split_invariant cfg c1 c2 : concat c1 = concat c2 -> ue_run cfg c1 = ue_run cfg c2.
Proof. intros H. rewrite !ue_chunking, H. reflexivity. Qed.

Theorem ue_split_invariant_full cfg c1 c2 : concat c1 = concat c2 -> ue_run_full cfg c1 = ue_run_full cfg c2.
Proof. intros H. rewrite !ue_chunking_full, H. reflexivity. Qed.

(* any separator, either setting of decode_url_encoding *)
Theorem ue_chunking_with cfg sep dec chunks :
  ue_run_with cfg sep dec chunks = ue_ref_gen cfg sep dec 0 0%Z (concat chunks).
Proof.
  unfold ue_run_with.
  match goal with |- context [ue_run_state cfg ?s0 chunks] => pose proof (ue_run_state_ref cfg s0 chunks) as H end.
  unfold ue_obs in H. apply H. repeat split.
Qed.

(* one whole chunk = htp_urlenp_parse_complete *)
Lemma ue_parse_complete_run cfg s0 data : ue_parse_complete cfg s0 data = ue_run_state cfg s0 [data].
Proof. reflexivity. Qed.

(* pairs of the reference: count and shape *)
Lemma ue_ref_length cfg s : length (ue_ref cfg s) = length (ue_pieces 38 s).
Proof. unfold ue_ref. apply map_length. Qed.

(* the query string through the request-line hook: no parser for an absent/empty query *)
Theorem ue_tx_query_spec cfg q fl st :
  ue_tx_query cfg q fl st =
  match q with
  | None => ([], fl, st)
  | Some [] => ([], fl, st)
  | Some q =>
      let '(ps, fl', st') := ue_ref_gen cfg c_ue_default_separator c_ue_default_decode fl st q in
      (map (fun nv => (c_ue_SOURCE_QUERY_STRING, fst nv, snd nv)) ps, fl', st')
  end.
Proof.
  destruct q as [[|c q]|]; try reflexivity.
  unfold ue_tx_query. cbn [length Nat.eqb].
  rewrite ue_parse_complete_run.
  pose proof (ue_run_state_ref cfg (ue_create fl st) [c :: q]) as H. unfold ue_obs in H.
  cbn [concat] in H. rewrite app_nil_r in H.
  change (ue_sep (ue_create fl st)) with c_ue_default_separator in H.
  change (ue_decode (ue_create fl st)) with c_ue_default_decode in H.
  change (ue_flags (ue_create fl st)) with fl in H. change (ue_status (ue_create fl st)) with st in H.
  rewrite <- H by (repeat split). reflexivity.
Qed.

Theorem ue_tx_body_spec cfg chunks fl st :
  ue_tx_body cfg chunks fl st =
  let '(ps, fl', st') := ue_ref_gen cfg c_ue_default_separator c_ue_default_decode fl st (concat chunks) in
  (map (fun nv => (c_ue_SOURCE_BODY, fst nv, snd nv)) ps, fl', st').
Proof.
  unfold ue_tx_body.
  pose proof (ue_run_state_ref cfg (ue_create fl st) chunks) as H. unfold ue_obs in H.
  change (ue_sep (ue_create fl st)) with c_ue_default_separator in H.
  change (ue_decode (ue_create fl st)) with c_ue_default_decode in H.
  change (ue_flags (ue_create fl st)) with fl in H. change (ue_status (ue_create fl st)) with st in H.
  rewrite <- H by (repeat split). reflexivity.
Qed.

Theorem ue_tx_split_invariant cfg q c1 c2 : concat c1 = concat c2 -> ue_tx cfg q (Some c1) = ue_tx cfg q (Some c2).
Proof.
  intros H. unfold ue_tx. destruct (ue_tx_query cfg q 0 0%Z) as [[p1 fl] st].
  rewrite !ue_tx_body_spec, H. reflexivity.
Qed.

(* ================================================================== D. exactness of output, flags and status on two fragments *)

Definition ud_plus (cfg : dcfg) (c : N) : N := if (c =? ud_PLUS) && d_plusspace cfg then 32 else c.

Fixpoint ud_until_nul (s : bytes) : bytes :=
  match s with [] => [] | c :: r => if c =? 0 then [] else c :: ud_until_nul r end.

Definition ud_has_nul (s : bytes) : bool := existsb (fun c => c =? 0) s.
Definition ud_nopct (s : bytes) : bool := forallb (fun c => negb (c =? ud_PCT)) s.

Lemma ud_unwanted_idem st u : ud_unwanted (ud_unwanted st u) u = ud_unwanted st u.
Proof. unfold ud_unwanted. destruct (Z.eqb (Z.of_nat u) c_ue_UNWANTED_IGNORE); reflexivity. Qed.

Lemma ud_lor_idem fl x : N.lor (N.lor fl x) x = N.lor fl x.
Proof. rewrite <- N.lor_assoc, N.lor_diag. reflexivity. Qed.

Lemma ud_plus_plus cfg c : (c =? ud_PLUS) = true -> ud_plus cfg c = if d_plusspace cfg then 32 else c.
Proof. intros H. unfold ud_plus. rewrite H. reflexivity. Qed.
Lemma ud_plus_other cfg c : (c =? ud_PLUS) = false -> ud_plus cfg c = c.
Proof. intros H. unfold ud_plus. rewrite H. reflexivity. Qed.

(* D.1 no '%' in the input: '+' per configuration, raw NUL flagged, truncation iff nul_raw_terminates *)
Lemma ud_loop_nopct cfg len : forall fuel fl st out rest,
  (length rest < fuel)%nat -> ud_nopct rest = true ->
  ud_loop fuel cfg len fl st out rest =
  Some (rev out ++ map (ud_plus cfg) (if d_nul_raw_term cfg then ud_until_nul rest else rest),
        (if ud_has_nul rest then N.lor fl c_HTP_URLEN_RAW_NUL else fl),
        (if ud_has_nul rest then ud_unwanted st (d_nul_raw_unwanted cfg) else st)).
Proof.
  induction fuel as [|fuel IH]; intros fl st out rest Hf Hn; [lia|].
  destruct rest as [|c r1].
  - cbn. destruct (d_nul_raw_term cfg); rewrite app_nil_r; reflexivity.
  - cbn [length] in Hf. cbn [ud_nopct forallb] in Hn. apply andb_true_iff in Hn as [Hc Hn].
    apply negb_true_iff in Hc. cbn [ud_loop]. rewrite Hc.
    change (ud_has_nul (c :: r1)) with ((c =? 0) || ud_has_nul r1).
    change (ud_until_nul (c :: r1)) with (if c =? 0 then [] else c :: ud_until_nul r1).
    destruct (c =? ud_PLUS) eqn:Ep.
    + assert (Hz : (c =? 0) = false) by (apply N.eqb_eq in Ep; subst; reflexivity).
      rewrite IH by (try lia; exact Hn). rewrite Hz. cbn [orb rev].
      destruct (d_nul_raw_term cfg); cbn [map]; rewrite <- app_assoc; rewrite (ud_plus_plus cfg c Ep); reflexivity.
    + destruct (c =? 0) eqn:Ez.
      * cbn [orb]. destruct (d_nul_raw_term cfg) eqn:Et.
        -- cbn [map]. rewrite app_nil_r. reflexivity.
        -- rewrite IH by (try lia; exact Hn). rewrite ?Et. cbn [rev map]. rewrite <- app_assoc.
           rewrite (ud_plus_other cfg c Ep). cbn [app].
           destruct (ud_has_nul r1); rewrite ?ud_lor_idem, ?ud_unwanted_idem; reflexivity.
      * rewrite IH by (try lia; exact Hn). cbn [orb rev].
        destruct (d_nul_raw_term cfg); cbn [map]; rewrite <- app_assoc; rewrite (ud_plus_other cfg c Ep); reflexivity.
Qed.

Theorem ud_nopct_spec cfg fl st s :
  ud_nopct s = true ->
  ud_urldecode_from cfg fl st s =
  (map (ud_plus cfg) (if d_nul_raw_term cfg then ud_until_nul s else s),
   (if ud_has_nul s then N.lor fl c_HTP_URLEN_RAW_NUL else fl),
   (if ud_has_nul s then ud_unwanted st (d_nul_raw_unwanted cfg) else st)).
Proof.
  intros H. pose proof (ud_from_loop cfg fl st s) as E.
  rewrite ud_loop_nopct in E by (try lia; exact H). cbn [rev app] in E. inversion E. reflexivity.
Qed.

(* D.2 well-formed input: every '%' is followed by two hexadecimal digits that do not encode NUL,
   no raw NUL: the output is the textbook percent-decoding, no flag is raised, the expected status
   is untouched -- for every configuration (a hex digit is not 'u', so %u decoding never applies) *)
Definition ud_hexval (c : N) : N := if c <=? 57 then c - 48 else if c <=? 70 then c - 55 else c - 87.

Fixpoint ud_wfb (s : bytes) : bool :=
  match s with
  | [] => true
  | c :: r =>
      if c =? ud_PCT then
        match r with
        | a :: b :: r' => c_isxdigit a && c_isxdigit b && negb (16 * ud_hexval a + ud_hexval b =? 0) && ud_wfb r'
        | _ => false
        end
      else negb (c =? 0) && ud_wfb r
  end.

Fixpoint ud_ref_decode (plus : bool) (s : bytes) : bytes :=
  match s with
  | [] => []
  | c :: r =>
      if c =? ud_PCT then
        match r with
        | a :: b :: r' => (16 * ud_hexval a + ud_hexval b) :: ud_ref_decode plus r'
        | _ => c :: ud_ref_decode plus r
        end
      else (if (c =? ud_PLUS) && plus then 32 else c) :: ud_ref_decode plus r
  end.

Lemma ud_xdigit_sweep :
  forallb (fun a => implb (c_isxdigit a) ((ud_x2c_digit a =? ud_hexval a) && (ud_hexval a <? 16)
                                          && negb (a =? ud_LC_U) && negb (a =? ud_UC_U))) all_bytes = true.
Proof. vm_compute. reflexivity. Qed.

Lemma ud_xdigit_facts a : c_isxdigit a = true ->
  ud_x2c_digit a = ud_hexval a /\ ud_hexval a < 16 /\ (a =? ud_LC_U) = false /\ (a =? ud_UC_U) = false.
Proof.
  intros Hx.
  assert (Hb : a < 256).
  { destruct (N.ltb_spec a 256) as [H|H]; [exact H|].
    unfold c_isxdigit, tbool in Hx. rewrite tget_overflow in Hx by (vm_compute; intros E; apply H; exact E || lia).
    discriminate. }
  pose proof (byte_sweep _ ud_xdigit_sweep a Hb) as H. cbn beta in H. rewrite Hx in H. cbn [implb] in H.
  apply andb_true_iff in H as [H H4]. apply andb_true_iff in H as [H H3]. apply andb_true_iff in H as [H1 H2].
  apply N.eqb_eq in H1. apply N.ltb_lt in H2. apply negb_true_iff in H3. apply negb_true_iff in H4. auto.
Qed.

Lemma ud_x2c_hex a b : c_isxdigit a = true -> c_isxdigit b = true -> ud_x2c a b = 16 * ud_hexval a + ud_hexval b.
Proof.
  intros Ha Hb. destruct (ud_xdigit_facts a Ha) as (E1 & L1 & _). destruct (ud_xdigit_facts b Hb) as (E2 & L2 & _).
  unfold ud_x2c. rewrite E1, E2.
  rewrite (N.mod_small (ud_hexval a * 16) 256) by lia. rewrite N.mod_small by lia. lia.
Qed.

Lemma ud_loop_wf cfg len : forall fuel fl st out rest,
  (length rest < fuel)%nat -> ud_wfb rest = true ->
  ud_loop fuel cfg len fl st out rest = Some (rev out ++ ud_ref_decode (d_plusspace cfg) rest, fl, st).
Proof.
  induction fuel as [|fuel IH]; intros fl st out rest Hf Hw; [lia|].
  destruct rest as [|c r1]; [cbn; rewrite app_nil_r; reflexivity|].
  cbn [length] in Hf. cbn [ud_wfb] in Hw. cbn [ud_loop ud_ref_decode].
  destruct (c =? ud_PCT) eqn:Ec.
  - destruct r1 as [|a [|b r3]]; try discriminate.
    apply andb_true_iff in Hw as [Hw Hr]. apply andb_true_iff in Hw as [Hw Hz]. apply andb_true_iff in Hw as [Ha Hb].
    destruct (ud_xdigit_facts a Ha) as (_ & _ & U1 & U2).
    unfold ud_pct. rewrite U1, U2. cbn [orb]. rewrite andb_false_r. rewrite Ha, Hb. cbn [andb].
    rewrite ud_x2c_hex by assumption. apply negb_true_iff in Hz. rewrite Hz.
    rewrite IH by (try exact Hr; cbn [length] in *; lia). cbn [rev]. rewrite <- app_assoc. reflexivity.
  - apply andb_true_iff in Hw as [Hz Hr]. apply negb_true_iff in Hz.
    destruct (c =? ud_PLUS) eqn:Ep.
    + rewrite IH by (try exact Hr; lia). cbn [rev andb]. rewrite <- app_assoc.
      destruct (d_plusspace cfg); reflexivity.
    + rewrite Hz. rewrite IH by (try exact Hr; lia). cbn [rev andb]. rewrite <- app_assoc. reflexivity.
Qed.

Theorem ud_wellformed_spec cfg fl st s :
  ud_wfb s = true -> ud_urldecode_from cfg fl st s = (ud_ref_decode (d_plusspace cfg) s, fl, st).
Proof.
  intros H. pose proof (ud_from_loop cfg fl st s) as E.
  rewrite ud_loop_wf in E by (try lia; exact H). cbn [rev app] in E. inversion E. reflexivity.
Qed.

(* D.3 flags are only ever added *)
Lemma ud_lor_sub fl x : N.land fl (N.lor fl x) = fl.
Proof. apply N.bits_inj. intros n. rewrite N.land_spec, N.lor_spec. destruct (N.testbit fl n); reflexivity. Qed.

Definition ud_sub (f g : N) : Prop := N.land f g = f.
Lemma ud_sub_refl f : ud_sub f f. Proof. apply N.land_diag. Qed.
Lemma ud_sub_lor f g x : ud_sub f g -> ud_sub f (N.lor g x).
Proof.
  unfold ud_sub. intros H. apply N.bits_inj. intros n. rewrite N.land_spec, N.lor_spec.
  apply (f_equal (fun v => N.testbit v n)) in H. rewrite N.land_spec in H.
  destruct (N.testbit f n), (N.testbit g n); cbn in *; congruence.
Qed.

Lemma ud_decode_u_sub cfg fl a b c d f : ud_sub f fl -> ud_sub f (fst (ud_decode_u cfg fl a b c d)).
Proof.
  intros H. unfold ud_decode_u. destruct (ud_x2c a b =? 0); cbn [fst]; [apply ud_sub_lor; exact H|].
  destruct ((ud_x2c a b =? 255) && (ud_x2c c d <=? 239)); [apply ud_sub_lor|]; exact H.
Qed.

Lemma ud_pct_sub cfg fl st r1 f : ud_sub f fl -> ud_sub f (fst (fst (ud_pct cfg fl st r1))).
Proof.
  intros H. unfold ud_pct, ud_mark_invalid.
  destruct r1 as [|h1 [|h2 r3]]; [| |destruct r3 as [|h3 [|h4 [|h5 r6]]]];
    repeat match goal with
           | |- context [match ud_handling_of ?c with _ => _ end] => destruct (ud_handling_of c)
           | |- context [if ?b then _ else _] => destruct b
           end; cbn [fst]; try (apply ud_sub_lor; exact H); try exact H.
  all: try (pose proof (ud_decode_u_sub cfg fl h2 h3 h4 h5 f H) as Hd; destruct (ud_decode_u cfg fl h2 h3 h4 h5); exact Hd).
  all: pose proof (ud_decode_u_sub cfg (N.lor fl c_HTP_URLEN_INVALID_ENCODING) h2 h3 h4 h5 f (ud_sub_lor _ _ _ H)) as Hd;
       destruct (ud_decode_u cfg (N.lor fl c_HTP_URLEN_INVALID_ENCODING) h2 h3 h4 h5); exact Hd.
Qed.

Lemma ud_loop_flags_mono cfg len : forall fuel fl st out rest b g t f,
  ud_loop fuel cfg len fl st out rest = Some (b, g, t) -> ud_sub f fl -> ud_sub f g.
Proof.
  induction fuel as [|fuel IH]; intros fl st out rest b g t f H Hs; [discriminate|].
  destruct rest as [|c r1]; [cbn in H; inversion H; subst; exact Hs|].
  cbn [ud_loop] in H. destruct (c =? ud_PCT).
  - pose proof (ud_pct_sub cfg fl st r1 f Hs) as Hp.
    destruct (ud_pct cfg fl st r1) as [[f1 s1] a1]. cbn [fst] in Hp.
    destruct a1 as [b' r'|r'|].
    + destruct (b' =? 0); [destruct (d_nul_enc_term cfg)|].
      * inversion H; subst. apply ud_sub_lor. exact Hp.
      * eapply IH; [exact H|]. apply ud_sub_lor. exact Hp.
      * eapply IH; [exact H|]. exact Hp.
    + eapply IH; [exact H|]. exact Hp.
    + inversion H; subst. exact Hp.
  - destruct (c =? ud_PLUS); [eapply IH; [exact H|exact Hs]|].
    destruct (c =? 0); [destruct (d_nul_raw_term cfg)|].
    + inversion H; subst. apply ud_sub_lor. exact Hs.
    + eapply IH; [exact H|]. apply ud_sub_lor. exact Hs.
    + eapply IH; [exact H|exact Hs].
Qed.

Theorem ud_flags_monotone cfg fl st s : N.land fl (snd (fst (ud_urldecode_from cfg fl st s))) = fl.
Proof.
  pose proof (ud_from_loop cfg fl st s) as H. destruct (ud_urldecode_from cfg fl st s) as [[b g] t]. cbn [fst snd].
  exact (ud_loop_flags_mono _ _ _ _ _ _ _ _ _ _ _ H (ud_sub_refl fl)).
Qed.

(* ================================================================== E. token-level specification of the decoder
   A greedy tokeniser (what construct starts at this position, and how many bytes it spans under the
   configured handling), an interpretation of each token, and the theorem that the code-shaped loop is
   "interpret the tokens in order, stop at a terminating NUL". From it: every flag is raised exactly
   when a token of the corresponding kind occurs before the decoding stops (both directions). *)

Inductive ud_tok :=
| UtLit (c : N)                      (* any byte other than '%', '+', NUL *)
| UtPlus
| UtRawNul
| UtPct (a b : N)                    (* '%' a b, both hexadecimal digits *)
| UtPctU (h1 h2 h3 h4 : N)           (* '%' 'u'|'U' and four hexadecimal digits, %u decoding enabled *)
| UtBadHex (a b : N)                 (* '%' and two more bytes that are not both hexadecimal digits *)
| UtBadU (h1 h2 h3 h4 : N)           (* '%' 'u'|'U' and four more bytes that are not all hexadecimal digits *)
| UtBadUShort                        (* '%' 'u'|'U' x with fewer than four bytes after the u *)
| UtBadShort.                        (* '%' with fewer than two bytes after it *)

(* which construct starts the string *)
Definition ud_classify (cfg : dcfg) (s : bytes) : option ud_tok :=
  match s with
  | [] => None
  | c :: r1 =>
      if c =? ud_PCT then
        match r1 with
        | h1 :: h2 :: r3 =>
            if (d_u_decode cfg) && ((h1 =? ud_LC_U) || (h1 =? ud_UC_U)) then
              match r3 with
              | h3 :: h4 :: h5 :: _ =>
                  if c_isxdigit h2 && c_isxdigit h3 && c_isxdigit h4 && c_isxdigit h5
                  then Some (UtPctU h2 h3 h4 h5) else Some (UtBadU h2 h3 h4 h5)
              | _ => Some UtBadUShort
              end
            else if c_isxdigit h1 && c_isxdigit h2 then Some (UtPct h1 h2) else Some (UtBadHex h1 h2)
        | _ => Some UtBadShort
        end
      else if c =? ud_PLUS then Some UtPlus
      else if c =? 0 then Some UtRawNul
      else Some (UtLit c)
  end.

(* how many input bytes the construct spans: a malformed escape is consumed whole only when it is
   decoded anyway (PROCESS_INVALID); otherwise only its '%' is, and scanning resumes right after it *)
Definition ud_tok_span (cfg : dcfg) (t : ud_tok) : nat :=
  match t with
  | UtLit _ | UtPlus | UtRawNul => 1
  | UtPct _ _ => 3
  | UtPctU _ _ _ _ => 6
  | UtBadHex _ _ => match ud_handling_of cfg with UdProcess => 3 | _ => 1 end
  | UtBadU _ _ _ _ => match ud_handling_of cfg with UdProcess => 6 | _ => 1 end
  | UtBadUShort | UtBadShort => 1
  end%nat.

Fixpoint ud_lex (fuel : nat) (cfg : dcfg) (s : bytes) : list ud_tok :=
  match fuel with
  | O => []
  | S fuel => match ud_classify cfg s with
              | None => []
              | Some t => t :: ud_lex fuel cfg (skipn (ud_tok_span cfg t) s)
              end
  end.

(* the byte a %uHHHH escape stands for: the low byte of an overlong form, else the best-fit mapping *)
Definition ud_u_byte (cfg : dcfg) (h1 h2 h3 h4 : N) : N :=
  if ud_x2c h1 h2 =? 0 then ud_x2c h3 h4
  else ud_bestfit_find t_bestfit_1252 (ud_x2c h1 h2) (ud_x2c h3 h4) (d_replacement cfg).

(* the byte a malformed escape contributes *)
Definition ud_bad_out (cfg : dcfg) (processed : option N) : option N :=
  match ud_handling_of cfg with
  | UdRemove => None
  | UdPreserve => Some ud_PCT
  | UdProcess => match processed with Some b => Some b | None => Some ud_PCT end
  | UdNoCase => Some ud_PCT
  end.

(* the byte a token contributes (None: nothing is written) *)
Definition ud_tok_out (cfg : dcfg) (t : ud_tok) : option N :=
  match t with
  | UtLit c => Some c
  | UtPlus => Some (if d_plusspace cfg then 32 else ud_PLUS)
  | UtRawNul => Some 0
  | UtPct a b => Some (ud_x2c a b)
  | UtPctU h1 h2 h3 h4 => Some (ud_u_byte cfg h1 h2 h3 h4)
  | UtBadHex a b => ud_bad_out cfg (Some (ud_x2c a b))
  | UtBadU h1 h2 h3 h4 => ud_bad_out cfg (Some (ud_u_byte cfg h1 h2 h3 h4))
  | UtBadUShort | UtBadShort => ud_bad_out cfg None
  end.

Definition ud_tok_is_bad (t : ud_tok) : bool :=
  match t with UtBadHex _ _ | UtBadU _ _ _ _ | UtBadUShort | UtBadShort => true | _ => false end.
Definition ud_tok_is_escape (t : ud_tok) : bool :=
  match t with UtLit _ | UtPlus | UtRawNul => false | _ => true end.
(* the token goes through decode_u_encoding_params *)
Definition ud_tok_u_digits (cfg : dcfg) (t : ud_tok) : option (N * N * N * N) :=
  match t with
  | UtPctU h1 h2 h3 h4 => Some (h1, h2, h3, h4)
  | UtBadU h1 h2 h3 h4 => match ud_handling_of cfg with UdProcess => Some (h1, h2, h3, h4) | _ => None end
  | _ => None
  end.
Definition ud_tok_encoded_nul (cfg : dcfg) (t : ud_tok) : bool :=
  ud_tok_is_escape t && match ud_tok_out cfg t with Some b => b =? 0 | None => false end.
Definition ud_tok_overlong (cfg : dcfg) (t : ud_tok) : bool :=
  match ud_tok_u_digits cfg t with Some (h1, h2, _, _) => ud_x2c h1 h2 =? 0 | None => false end.
Definition ud_tok_halffull (cfg : dcfg) (t : ud_tok) : bool :=
  match ud_tok_u_digits cfg t with
  | Some (h1, h2, h3, h4) => negb (ud_x2c h1 h2 =? 0) && (ud_x2c h1 h2 =? 255) && (ud_x2c h3 h4 <=? 239)
  | None => false
  end.
Definition ud_tok_is_u (t : ud_tok) : bool :=
  match t with UtPctU _ _ _ _ | UtBadU _ _ _ _ | UtBadUShort => true | _ => false end.

(* decoding stops at this token (its byte is not written) *)
Definition ud_tok_stops (cfg : dcfg) (t : ud_tok) : bool :=
  match t with
  | UtRawNul => d_nul_raw_term cfg
  | _ => ud_tok_encoded_nul cfg t && d_nul_enc_term cfg
  end.

Definition ud_bflag (b : bool) (f : N) : N := if b then f else 0.

(* the flags one token raises *)
Definition ud_tok_flags (cfg : dcfg) (t : ud_tok) : N :=
  N.lor (ud_bflag (ud_tok_is_bad t) c_HTP_URLEN_INVALID_ENCODING)
 (N.lor (ud_bflag (ud_tok_overlong cfg t) c_HTP_URLEN_OVERLONG_U)
 (N.lor (ud_bflag (ud_tok_halffull cfg t) c_HTP_URLEN_HALF_FULL_RANGE)
 (N.lor (ud_bflag (ud_tok_encoded_nul cfg t) c_HTP_URLEN_ENCODED_NUL)
        (ud_bflag (match t with UtRawNul => true | _ => false end) c_HTP_URLEN_RAW_NUL)))).

(* the expected-status writes of one token, in code order *)
Definition ud_tok_status (cfg : dcfg) (st : Z) (t : ud_tok) : Z :=
  let st := if ud_tok_is_u t then ud_unwanted st (d_u_unwanted cfg) else st in
  let st := if ud_tok_is_bad t then ud_unwanted st (d_inv_unwanted cfg) else st in
  let st := if ud_tok_encoded_nul cfg t then ud_unwanted st (d_nul_enc_unwanted cfg) else st in
  match t with UtRawNul => ud_unwanted st (d_nul_raw_unwanted cfg) | _ => st end.

(* interpret the tokens in order; stop at a terminating NUL *)
Fixpoint ud_eval (cfg : dcfg) (fl : N) (st : Z) (out : bytes) (ts : list ud_tok) : bytes * N * Z :=
  match ts with
  | [] => (rev out, fl, st)
  | t :: ts =>
      let fl := N.lor fl (ud_tok_flags cfg t) in
      let st := ud_tok_status cfg st t in
      if ud_tok_stops cfg t then (rev out, fl, st)
      else ud_eval cfg fl st (match ud_tok_out cfg t with Some b => b :: out | None => out end) ts
  end.

(* the tokens that are interpreted: up to and including the first one that stops the decoding *)
Fixpoint ud_live (cfg : dcfg) (ts : list ud_tok) : list ud_tok :=
  match ts with
  | [] => []
  | t :: ts => if ud_tok_stops cfg t then [t] else t :: ud_live cfg ts
  end.

Lemma ud_decode_u_flags cfg fl a b c d :
  ud_decode_u cfg fl a b c d =
  (N.lor fl (N.lor (ud_bflag (ud_x2c a b =? 0) c_HTP_URLEN_OVERLONG_U)
                   (ud_bflag (negb (ud_x2c a b =? 0) && (ud_x2c a b =? 255) && (ud_x2c c d <=? 239)) c_HTP_URLEN_HALF_FULL_RANGE)),
   ud_u_byte cfg a b c d).
Proof.
  unfold ud_decode_u, ud_u_byte, ud_bflag. destruct (ud_x2c a b =? 0); cbn [negb andb snd].
  - rewrite N.lor_0_r. reflexivity.
  - destruct ((ud_x2c a b =? 255) && (ud_x2c c d <=? 239)); cbn [snd]; rewrite ?N.lor_0_l, ?N.lor_0_r; reflexivity.
Qed.

Ltac ud_tok_unfold :=
  unfold ud_tok_flags, ud_tok_status, ud_tok_stops, ud_tok_out, ud_tok_encoded_nul, ud_tok_overlong, ud_tok_halffull,
         ud_tok_u_digits, ud_tok_is_bad, ud_tok_is_u, ud_tok_is_escape, ud_bad_out, ud_tok_span, ud_mark_invalid.

Lemma ud_loop_step cfg len fuel fl st out rest t :
  ud_handling_of cfg <> UdNoCase ->
  ud_classify cfg rest = Some t ->
  ud_loop (S fuel) cfg len fl st out rest =
  (let fl' := N.lor fl (ud_tok_flags cfg t) in
   let st' := ud_tok_status cfg st t in
   if ud_tok_stops cfg t then Some (rev out, fl', st')
   else ud_loop fuel cfg len fl' st' (match ud_tok_out cfg t with Some b => b :: out | None => out end)
                (skipn (ud_tok_span cfg t) rest)).
Proof.
  intros Hh Hc. destruct rest as [|c r1]; [discriminate|].
  cbn [ud_classify] in Hc. cbn [ud_loop]. cbn zeta.
  destruct (c =? ud_PCT) eqn:Ec.
  - assert (Hlor : forall x y, N.lor (N.lor fl x) y = N.lor fl (N.lor x y)) by (intros; symmetry; apply N.lor_assoc).
    unfold ud_pct. destruct (ud_handling_of cfg) eqn:Eh; [| | |contradiction].
    all: destruct r1 as [|h1 [|h2 r3]];
      [| |destruct ((d_u_decode cfg) && ((h1 =? ud_LC_U) || (h1 =? ud_UC_U)));
          [destruct r3 as [|h3 [|h4 [|h5 r6]]]; [| | |destruct (c_isxdigit h2 && c_isxdigit h3 && c_isxdigit h4 && c_isxdigit h5)]
          |destruct (c_isxdigit h1 && c_isxdigit h2)]].
    all: inversion Hc; subst t; clear Hc.
    all: repeat ud_tok_unfold; rewrite ?Eh; rewrite ?ud_decode_u_flags;
      change (ud_PCT =? 0) with false; cbn [ud_bflag andb negb orb skipn fst snd].
    all: repeat match goal with
             | |- context [?b =? 0] => destruct (b =? 0) eqn:?
             end;
      cbn [ud_bflag andb negb orb skipn fst snd];
      try destruct (d_nul_enc_term cfg);
      rewrite ?N.lor_0_r, ?N.lor_0_l; rewrite <- ?N.lor_assoc; rewrite ?N.lor_0_r, ?N.lor_0_l; reflexivity.
  - destruct (c =? ud_PLUS) eqn:Ep.
    + inversion Hc; subst t. ud_tok_unfold. cbn. rewrite N.lor_0_r.
      apply N.eqb_eq in Ep. subst c. reflexivity.
    + destruct (c =? 0) eqn:Ez; inversion Hc; subst t; ud_tok_unfold; cbn.
      * apply N.eqb_eq in Ez. subst c. destruct (d_nul_raw_term cfg); reflexivity.
      * rewrite N.lor_0_r. reflexivity.
Qed.

Lemma ud_classify_some cfg c r : exists t, ud_classify cfg (c :: r) = Some t.
Proof.
  cbn [ud_classify]. destruct (c =? ud_PCT).
  - destruct r as [|h1 [|h2 r3]]; try (eexists; reflexivity).
    destruct ((d_u_decode cfg) && ((h1 =? ud_LC_U) || (h1 =? ud_UC_U))).
    + destruct r3 as [|h3 [|h4 [|h5 r6]]]; try (eexists; reflexivity).
      destruct (c_isxdigit h2 && c_isxdigit h3 && c_isxdigit h4 && c_isxdigit h5); eexists; reflexivity.
    + destruct (c_isxdigit h1 && c_isxdigit h2); eexists; reflexivity.
  - destruct (c =? ud_PLUS); [eexists; reflexivity|]. destruct (c =? 0); eexists; reflexivity.
Qed.

Lemma ud_tok_span_pos cfg t : (1 <= ud_tok_span cfg t)%nat.
Proof. destruct t; cbn [ud_tok_span]; try lia; destruct (ud_handling_of cfg); lia. Qed.

Lemma ud_loop_eval cfg len : ud_handling_of cfg <> UdNoCase -> forall fuel fl st out rest,
  (length rest < fuel)%nat ->
  ud_loop fuel cfg len fl st out rest = Some (ud_eval cfg fl st out (ud_lex fuel cfg rest)).
Proof.
  intros Hh. induction fuel as [|fuel IH]; intros fl st out rest Hf; [lia|].
  destruct rest as [|c r1]; [reflexivity|].
  destruct (ud_classify_some cfg c r1) as [t Ht].
  rewrite (ud_loop_step cfg len fuel fl st out (c :: r1) t Hh Ht). cbn zeta.
  cbn [ud_lex]. rewrite Ht. cbn [ud_eval].
  destruct (ud_tok_stops cfg t); [reflexivity|].
  apply IH. rewrite skipn_length. pose proof (ud_tok_span_pos cfg t). cbn [length] in *. lia.
Qed.

(* all tokens of a string *)
Definition ud_tokens (cfg : dcfg) (s : bytes) : list ud_tok := ud_lex (S (length s)) cfg s.

Theorem ud_token_spec cfg fl st s :
  ud_handling_of cfg <> UdNoCase ->
  ud_urldecode_from cfg fl st s = ud_eval cfg fl st [] (ud_tokens cfg s).
Proof.
  intros Hh. pose proof (ud_from_loop cfg fl st s) as E.
  rewrite (ud_loop_eval cfg (length s) Hh) in E by lia. inversion E. reflexivity.
Qed.

(* ---- each flag is raised exactly when a token of its kind is interpreted ---- *)
Definition ud_has (fl f : N) : bool := N.testbit fl (N.log2 f).

Lemma ud_eval_flags cfg : forall ts fl st out,
  snd (fst (ud_eval cfg fl st out ts)) = fold_left (fun f t => N.lor f (ud_tok_flags cfg t)) (ud_live cfg ts) fl.
Proof.
  induction ts as [|t ts IH]; intros fl st out; [reflexivity|].
  cbn [ud_eval ud_live]. destruct (ud_tok_stops cfg t); [reflexivity|]. cbn [fold_left]. apply IH.
Qed.

Lemma ud_fold_has cfg f : forall l fl,
  ud_has (fold_left (fun g t => N.lor g (ud_tok_flags cfg t)) l fl) f
  = ud_has fl f || existsb (fun t => ud_has (ud_tok_flags cfg t) f) l.
Proof.
  induction l as [|t l IH]; intros fl; [cbn; rewrite orb_false_r; reflexivity|].
  cbn [fold_left existsb]. rewrite IH. unfold ud_has. rewrite N.lor_spec, orb_assoc. reflexivity.
Qed.

Lemma ud_has_bflag b g f : ud_has (ud_bflag b g) f = b && ud_has g f.
Proof. destruct b; [reflexivity|]. unfold ud_has, ud_bflag. rewrite N.bits_0. reflexivity. Qed.

Lemma ud_tok_flags_has cfg t f :
  ud_has (ud_tok_flags cfg t) f =
  (ud_tok_is_bad t && ud_has c_HTP_URLEN_INVALID_ENCODING f)
  || ((ud_tok_overlong cfg t && ud_has c_HTP_URLEN_OVERLONG_U f)
  || ((ud_tok_halffull cfg t && ud_has c_HTP_URLEN_HALF_FULL_RANGE f)
  || ((ud_tok_encoded_nul cfg t && ud_has c_HTP_URLEN_ENCODED_NUL f)
  || ((match t with UtRawNul => true | _ => false end) && ud_has c_HTP_URLEN_RAW_NUL f)))).
Proof.
  unfold ud_tok_flags. unfold ud_has at 1. rewrite !N.lor_spec. fold (ud_has (ud_bflag (ud_tok_is_bad t) c_HTP_URLEN_INVALID_ENCODING) f).
  change (N.testbit ?x (N.log2 f)) with (ud_has x f). rewrite !ud_has_bflag. reflexivity.
Qed.

Definition ud_out_flags (cfg : dcfg) (s : bytes) : N := snd (fst (ud_urldecode_ex cfg s)).
Definition ud_live_tokens (cfg : dcfg) (s : bytes) : list ud_tok := ud_live cfg (ud_tokens cfg s).

Lemma ud_out_flags_has cfg s f : ud_handling_of cfg <> UdNoCase ->
  ud_has (ud_out_flags cfg s) f = existsb (fun t => ud_has (ud_tok_flags cfg t) f) (ud_live_tokens cfg s).
Proof.
  intros Hh. unfold ud_out_flags, ud_urldecode_ex. rewrite (ud_token_spec cfg 0 0%Z s Hh).
  rewrite ud_eval_flags, ud_fold_has. reflexivity.
Qed.

Lemma ud_existsb_ext_in {A} (f g : A -> bool) l : (forall x, In x l -> f x = g x) -> existsb f l = existsb g l.
Proof.
  induction l as [|a l IH]; intros H; [reflexivity|]. cbn. rewrite (H a (or_introl eq_refl)), IH; [reflexivity|].
  intros x Hx. apply H. right. exact Hx.
Qed.

Ltac ud_flag_tac :=
  intros cfg s Hh; rewrite (ud_out_flags_has cfg s _ Hh); apply ud_existsb_ext_in; intros t _;
  rewrite ud_tok_flags_has;
  repeat match goal with |- context [ud_has ?a ?b] => let v := eval vm_compute in (ud_has a b) in change (ud_has a b) with v end;
  rewrite ?andb_false_r, ?andb_true_r, ?orb_false_r, ?orb_false_l; reflexivity.

Theorem ud_flag_invalid_iff : forall cfg s, ud_handling_of cfg <> UdNoCase ->
  ud_has (ud_out_flags cfg s) c_HTP_URLEN_INVALID_ENCODING = existsb ud_tok_is_bad (ud_live_tokens cfg s).
Proof. ud_flag_tac. Qed.
Theorem ud_flag_overlong_iff : forall cfg s, ud_handling_of cfg <> UdNoCase ->
  ud_has (ud_out_flags cfg s) c_HTP_URLEN_OVERLONG_U = existsb (ud_tok_overlong cfg) (ud_live_tokens cfg s).
Proof. ud_flag_tac. Qed.
Theorem ud_flag_halffull_iff : forall cfg s, ud_handling_of cfg <> UdNoCase ->
  ud_has (ud_out_flags cfg s) c_HTP_URLEN_HALF_FULL_RANGE = existsb (ud_tok_halffull cfg) (ud_live_tokens cfg s).
Proof. ud_flag_tac. Qed.
Theorem ud_flag_encoded_nul_iff : forall cfg s, ud_handling_of cfg <> UdNoCase ->
  ud_has (ud_out_flags cfg s) c_HTP_URLEN_ENCODED_NUL = existsb (ud_tok_encoded_nul cfg) (ud_live_tokens cfg s).
Proof. ud_flag_tac. Qed.
Theorem ud_flag_raw_nul_iff : forall cfg s, ud_handling_of cfg <> UdNoCase ->
  ud_has (ud_out_flags cfg s) c_HTP_URLEN_RAW_NUL
  = existsb (fun t => match t with UtRawNul => true | _ => false end) (ud_live_tokens cfg s).
Proof. ud_flag_tac. Qed.
