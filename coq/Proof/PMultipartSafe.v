(* C14 (a): the array-level multipart matcher never makes an out-of-range access and never runs out
   of fuel, for every state reachable from mp_init by any sequence of chunks. The part layer (mp_hd,
   mp_hb) is irrelevant here: only the matcher fields are constrained. *)
Require Import Htp.Model.Base Htp.Model.MBstr Htp.Model.MMultipart.
Require Import Lia.

(* matcher fields other than the part layer *)
Definition mp_mt (s : mp_state) :=
  (mps_boundary s, mps_state s, mps_mpos s, mps_bpieces s, mps_cand s, mps_cr s, mps_fault s).

Lemma mt_shd s d l : mp_mt (mp_shd s d l) = mp_mt s.
Proof. reflexivity. Qed.
Lemma mt_sflag s f : mp_mt (mp_sflag s f) = mp_mt s.
Proof. reflexivity. Qed.
Lemma mt_fold_shd r s : mp_mt (fold_left (fun a x => mp_shd a x false) r s) = mp_mt s.
Proof. revert s. induction r as [|x r IH]; intros s; cbn [fold_left]; [reflexivity|]. rewrite IH. apply mt_shd. Qed.

Ltac mt_fields H :=
  unfold mp_mt in H; injection H; clear H; intros.

Lemma rd_some d i : i < length d -> exists c, mp_rd d i = Some c.
Proof.
  intros H. unfold mp_rd. destruct (nth_error d i) eqn:E; [eauto|].
  apply nth_error_None in E. lia.
Qed.
Lemma slice_some d a n : a + n <= length d -> mp_slice d a n = Some (firstn n (skipn a d)).
Proof. intros H. unfold mp_slice. destruct (a + n <=? length d) eqn:E; [reflexivity|]. apply Nat.leb_gt in E. lia. Qed.
Lemma sub_some a b : b <= a -> mp_sub a b = Some (a - b).
Proof. intros H. unfold mp_sub. destruct (b <=? a) eqn:E; [reflexivity|]. apply Nat.leb_gt in E. lia. Qed.

(* the condition under which process_aside cannot fault *)
Definition mp_cand_ok (s : mp_state) : Prop :=
  match mps_bpieces s with [] => True | b :: _ => mps_cand s <= length b end.

Lemma process_aside_ok s m :
  mp_cand_ok s ->
  exists s1, mp_process_aside s m = MpOk s1 /\
    mps_bpieces s1 = [] /\ mps_cr s1 = false /\ mps_boundary s1 = mps_boundary s /\ mps_state s1 = mps_state s /\
    mps_mpos s1 = mps_mpos s /\ mps_cand s1 = mps_cand s /\ mps_fault s1 = mps_fault s.
Proof.
  intros Hc. unfold mp_process_aside, mp_cand_ok in *. cbv zeta.
  destruct (m || match mpl_mode (mps_pl s) with MpLine => true | MpData => false end) eqn:Em.
  - set (s1 := if negb m && mps_cr s then mp_set_cr (mp_shd s [CR] false) false else mp_set_cr s false).
    assert (H1 : mps_bpieces s1 = mps_bpieces s /\ mps_cr s1 = false /\ mps_boundary s1 = mps_boundary s /\
                 mps_state s1 = mps_state s /\ mps_mpos s1 = mps_mpos s /\ mps_cand s1 = mps_cand s /\ mps_fault s1 = mps_fault s).
    { subst s1. destruct (negb m && mps_cr s); cbn; repeat split; reflexivity. }
    destruct H1 as (Hb & Hcr & Hbd & Hst & Hmp & Hcd & Hf).
    rewrite Hb, Hcd. destruct (mps_bpieces s) as [|b rest] eqn:Eb.
    + exists s1. repeat split; assumption.
    + destruct (negb m) eqn:Enm.
      * rewrite slice_some by lia. rewrite sub_some by lia. rewrite slice_some by lia.
        eexists. split; [reflexivity|].
        cbn [mp_set_bpieces mps_bpieces mps_cr mps_boundary mps_state mps_mpos mps_cand mps_fault].
        cbn [skipn]. match goal with |- context [fold_left ?f rest ?s0] => pose proof (mt_fold_shd rest s0) as Hm end.
        rewrite !mt_shd in Hm. mt_fields Hm.
        repeat split; congruence.
      * (* matched: trim LF / CRLF of the first piece *)
        destruct (0 <? mps_cand s) eqn:E0.
        -- apply Nat.ltb_lt in E0.
           destruct (rd_some b (mps_cand s - 1)) as [c Hc1]; [lia|]. rewrite Hc1.
           set (l1 := if (c =? LF)%N then mps_cand s - 1 else mps_cand s).
           assert (Hl1 : l1 <= mps_cand s) by (subst l1; destruct (c =? LF)%N; lia).
           destruct ((l1 <? mps_cand s) && (0 <? l1)) eqn:E1.
           ++ apply andb_true_iff in E1. destruct E1 as [_ E1]. apply Nat.ltb_lt in E1.
              destruct (rd_some b (l1 - 1)) as [c2 Hc2]; [lia|]. rewrite Hc2.
              rewrite slice_some by (cbn; destruct (c2 =? CR)%N; lia).
              eexists. split; [reflexivity|]. cbn. repeat split; assumption.
           ++ rewrite slice_some by (cbn; lia).
              eexists. split; [reflexivity|]. cbn. repeat split; assumption.
        -- destruct ((mps_cand s <? mps_cand s) && (0 <? mps_cand s)) eqn:E1.
           ++ apply andb_true_iff in E1. destruct E1 as [E1 _]. apply Nat.ltb_lt in E1. lia.
           ++ rewrite slice_some by (cbn; lia).
              eexists. split; [reflexivity|]. cbn. repeat split; assumption.
  - set (s1 := if mps_cr s then mp_set_cr (mp_shd s [CR] false) false else s).
    eexists. split; [reflexivity|].
    cbn [mp_set_bpieces mps_bpieces mps_cr mps_boundary mps_state mps_mpos mps_cand mps_fault].
    pose proof (mt_fold_shd (mps_bpieces s1) s1) as Hm. mt_fields Hm.
    assert (HH : mps_boundary s1 = mps_boundary s /\ mps_state s1 = mps_state s /\ mps_mpos s1 = mps_mpos s /\
                 mps_cand s1 = mps_cand s /\ mps_fault s1 = mps_fault s).
    { subst s1. destruct (mps_cr s); cbn; repeat split; reflexivity. }
    destruct HH as (? & ? & ? & ? & ?).
    repeat split; try congruence.
    (* cr: the no-match data-mode branch leaves cr_aside = 0 *)
    subst s1. destruct (mps_cr s) eqn:Ecr; cbn in *; congruence.
Qed.

(* ------------------------------------------------------------------ invariants *)
(* between calls *)
Definition mp_inv (s : mp_state) : Prop :=
  mps_fault s = false /\ 2 < length (mps_boundary s) /\ mp_cand_ok s /\
  (mps_state s <> MpsBoundary -> mps_bpieces s = []) /\
  (mps_state s = MpsBoundary -> mps_mpos s < length (mps_boundary s) /\ (mps_bpieces s = [] -> mps_cand s = 0)).

(* at label STATE_SWITCH, without the "a byte is available" part *)
Definition mp_sw0 (data : bytes) (s : mp_state) (pos sp drp : nat) : Prop :=
  mps_fault s = false /\ 2 < length (mps_boundary s) /\
  sp <= pos /\ pos <= length data /\ drp <= pos /\
  (mps_state s <> MpsBoundary -> mps_bpieces s = []) /\
  (mps_state s = MpsBoundary ->
     sp <= drp /\ mps_mpos s < length (mps_boundary s) /\ (mps_bpieces s = [] -> mps_cand s + sp = drp) /\ mp_cand_ok s).
Definition mp_sw (data : bytes) (s : mp_state) (pos sp drp : nat) : Prop :=
  mp_sw0 data s pos sp drp /\ (mps_state s <> MpsBoundary -> pos < length data).

(* termination measure of the switch executions *)
Definition mp_w (st : mp_pstate) : nat :=
  match st with MpsData => 0 | MpsBoundary => 1 | MpsIsLast2 => 3 | MpsIsLast1 => 3 | MpsEatLws => 1 | MpsEatLwsCr => 2 | MpsInit => 0 end.
Definition mp_x (st : mp_pstate) (pos sp drp : nat) : nat :=
  match st with MpsData | MpsBoundary => Nat.max drp sp | _ => pos end.
Definition mp_M (data : bytes) (s : mp_state) (pos sp drp : nat) : nat :=
  4 * (length data - mp_x (mps_state s) pos sp drp) + mp_w (mps_state s).

(* ------------------------------------------------------------------ case STATE_DATA *)
Lemma data_loop_spec n : forall data s pos sp drp,
  pos + n = length data -> sp <= pos -> drp <= pos ->
  mps_fault s = false -> 2 < length (mps_boundary s) ->
  mps_state s = MpsData -> mps_bpieces s = [] -> (mps_cr s = true -> sp < pos \/ 0 < n) ->
  match mp_data_loop n data s pos sp drp with
  | MpBreak s' p' sp' d' => p' = length data /\ mp_inv s'
  | MpGoto s' p' sp' d' => mp_sw0 data s' p' sp' d' /\ mps_state s' = MpsBoundary /\ Nat.max drp sp < d' /\ sp' = sp /\ d' <= length data
  | _ => False
  end.
Proof.
  induction n as [|n IH]; intros data s pos sp drp Hn Hsp Hdrp Hf Hb Hst Hbp Hcr; cbn [mp_data_loop].
  - rewrite sub_some by lia.
    assert (Hk : (if mps_cr s then 1 else 0) <= pos - sp).
    { destruct (mps_cr s); [|lia]. destruct (Hcr eq_refl); lia. }
    rewrite sub_some by exact Hk. rewrite slice_some by lia.
    split; [lia|]. unfold mp_inv, mp_cand_ok. cbn. rewrite Hbp, Hst.
    repeat split; try assumption; try congruence; intros; congruence.
  - destruct (rd_some data pos) as [c Hc]; [lia|]. rewrite Hc.
    destruct (c =? CR)%N eqn:Ecr.
    + destruct (pos + 1 =? length data) eqn:El.
      * apply Nat.eqb_eq in El.
        apply IH; cbn; try assumption; try lia.
      * apply Nat.eqb_neq in El.
        destruct (rd_some data (pos + 1)) as [c2 Hc2]; [lia|]. rewrite Hc2.
        destruct (c2 =? LF)%N.
        -- rewrite sub_some by lia. unfold mp_sw0, mp_cand_ok. cbn. rewrite Hbp.
           repeat split; try assumption; try lia; try congruence; intros; try congruence; lia.
        -- apply IH; cbn; try assumption; try lia. all: try (intros; congruence).
    + destruct (c =? LF)%N.
      * rewrite sub_some by lia. unfold mp_sw0, mp_cand_ok. cbn. rewrite Hbp.
        repeat split; try assumption; try lia; try congruence; intros; try congruence; lia.
      * apply IH; try lia; destruct (mps_cr s); cbn; try assumption; intros; congruence.
Qed.

(* ------------------------------------------------------------------ case STATE_BOUNDARY *)
Lemma boundary_matched_spec data s pos sp drp :
  mps_fault s = false -> 2 < length (mps_boundary s) -> mp_cand_ok s ->
  sp <= drp -> drp < pos -> pos <= length data ->
  match mp_boundary_matched data s pos sp drp with
  | MpRet s' => mp_inv s' /\ mps_state s' = MpsIsLast2
  | MpGoto s' p' sp' d' => mp_sw data s' p' sp' d' /\ mps_state s' = MpsIsLast2 /\ p' = pos
  | _ => False
  end.
Proof.
  intros Hf Hb Hc Hsd Hdp Hpl. unfold mp_boundary_matched.
  destruct (process_aside_ok s true Hc) as (s1 & E & Hbp1 & Hcr1 & Hbd1 & Hst1 & Hmp1 & Hcd1 & Hf1).
  rewrite E. rewrite sub_some by lia.
  set (dlen := drp - sp).
  assert (Hd1 : exists dl1, (if 0 <? dlen then match mp_rd data (sp + dlen - 1) with
                             | Some c => Some (if (c =? LF)%N then dlen - 1 else dlen) | None => None end
                             else Some dlen) = Some dl1 /\ dl1 <= dlen).
  { destruct (0 <? dlen) eqn:E0.
    - apply Nat.ltb_lt in E0. destruct (rd_some data (sp + dlen - 1)) as [c Hc1]; [subst dlen; lia|].
      rewrite Hc1. eexists; split; [reflexivity|]. destruct (c =? LF)%N; lia.
    - eexists; split; [reflexivity|]. lia. }
  destruct Hd1 as (dl1 & E1 & Hdl1). rewrite E1.
  assert (Hd2 : exists dl2, (if 0 <? dl1 then match mp_rd data (sp + dl1 - 1) with
                             | Some c => Some (if (c =? CR)%N then dl1 - 1 else dl1) | None => None end
                             else Some dl1) = Some dl2 /\ dl2 <= dl1).
  { destruct (0 <? dl1) eqn:E0.
    - apply Nat.ltb_lt in E0. destruct (rd_some data (sp + dl1 - 1)) as [c Hc1]; [subst dlen; lia|].
      rewrite Hc1. eexists; split; [reflexivity|]. destruct (c =? CR)%N; lia.
    - eexists; split; [reflexivity|]. lia. }
  destruct Hd2 as (dl2 & E2 & Hdl2). rewrite E2.
  rewrite slice_some by (subst dlen; lia).
  cbv zeta.
  destruct (length data <=? pos) eqn:El.
  - unfold mp_inv, mp_cand_ok. cbn. rewrite Hbp1.
    repeat split; try congruence; intros; try congruence.
  - apply Nat.leb_gt in El. unfold mp_sw, mp_sw0, mp_cand_ok. cbn. rewrite Hbp1.
    repeat split; try congruence; try lia; intros; try congruence.
Qed.

Lemma bnd_loop_spec n : forall data s pos sp drp,
  pos + n = length data -> mp_sw0 data s pos sp drp -> mps_state s = MpsBoundary ->
  match mp_bnd_loop n data s pos sp drp with
  | MpBreak s' p' sp' d' => p' = length data /\ mp_inv s'
  | MpGoto s' p' sp' d' =>
      mp_sw data s' p' sp' d' /\
      ((mps_state s' = MpsData /\ Nat.max d' sp' = drp) \/ (mps_state s' = MpsIsLast2 /\ drp < p'))
  | MpRet s' => mp_inv s'
  | MpErr => False
  end.
Proof.
  induction n as [|n IH]; intros data s pos sp drp Hn Hsw Hst; cbn [mp_bnd_loop];
    destruct Hsw as (Hf & Hb & Hsp & Hpl & Hdp & Hnb & HB); destruct (HB Hst) as (Hsd & Hmp & Hcs & Hco).
  - rewrite sub_some by lia. rewrite slice_some by lia.
    split; [lia|]. unfold mp_inv, mp_cand_ok. cbn. rewrite Hst.
    repeat split; try assumption; try congruence.
    + unfold mp_cand_ok in Hco. destruct (mps_bpieces s) as [|b r] eqn:Eb; cbn.
      * rewrite firstn_length, skipn_length. specialize (Hcs eq_refl). lia.
      * exact Hco.
    + intros HH. destruct (mps_bpieces s); discriminate HH.
  - destruct (rd_some data pos) as [c Hc]; [lia|]. rewrite Hc.
    destruct (rd_some (mps_boundary s ++ [0%N]) (mps_mpos s)) as [bc Hbc]; [rewrite app_length; cbn; lia|]. rewrite Hbc.
    destruct (negb (c =? bc)%N).
    + destruct (process_aside_ok s false Hco) as (s1 & E & Hbp1 & Hcr1 & Hbd1 & Hst1 & Hmp1 & Hcd1 & Hf1).
      rewrite E. destruct (mpl_mode (mps_pl s1)).
      * rewrite sub_some by lia. rewrite slice_some by lia.
        unfold mp_sw, mp_sw0. cbn. rewrite Hbp1.
        split; [|left; split; [reflexivity|lia]].
        repeat split; try congruence; try lia; intros; try congruence; lia.
      * unfold mp_sw, mp_sw0. cbn. rewrite Hbp1.
        split; [|left; split; [reflexivity|lia]].
        repeat split; try congruence; try lia; intros; try congruence; lia.
    + cbn [mp_set_mpos mps_mpos mps_boundary].
      destruct (S (mps_mpos s) =? length (mps_boundary s)) eqn:Em.
      * pose proof (boundary_matched_spec data (mp_set_mpos s (S (mps_mpos s))) (pos + 1) sp drp) as HM.
        cbn in HM. specialize (HM Hf Hb Hco Hsd). 
        destruct (mp_boundary_matched data (mp_set_mpos s (S (mps_mpos s))) (pos + 1) sp drp) eqn:EM;
          try (exfalso; apply HM; lia).
        -- assert (HM' := HM ltac:(lia) ltac:(lia)). destruct HM' as (H1 & H2 & H3).
           split; [exact H1|]. right. split; [exact H2|lia].
        -- apply HM; lia.
      * apply Nat.eqb_neq in Em.
        apply IH; [lia| |exact Hst].
        unfold mp_sw0. cbn. rewrite Hst.
        repeat split; try assumption; try lia; intros; try congruence; try lia.
Qed.

(* ------------------------------------------------------------------ the single-byte states *)
Definition mp_is_single (st : mp_pstate) : Prop :=
  st = MpsIsLast2 \/ st = MpsIsLast1 \/ st = MpsEatLws \/ st = MpsEatLwsCr.

Lemma single_spec data s pos sp drp :
  mp_sw data s pos sp drp -> mp_is_single (mps_state s) ->
  match mp_single data s pos sp drp with
  | MpBreak s' p' sp' d' =>
      mp_sw0 data s' p' sp' d' /\ mps_state s' <> MpsBoundary /\ mps_state s' <> MpsInit /\
      mp_M data s' p' sp' d' < mp_M data s pos sp drp
  | _ => False
  end.
Proof.
  intros ((Hf & Hb & Hsp & Hpl & Hdp & Hnb & HB) & Hlt) Hs. unfold mp_single.
  assert (Hns : mps_state s <> MpsBoundary) by (destruct Hs as [H|[H|[H|H]]]; rewrite H; discriminate).
  specialize (Hlt Hns). specialize (Hnb Hns).
  destruct (rd_some data pos) as [c Hc]; [lia|]. rewrite Hc.
  unfold mp_M.
  destruct Hs as [H|[H|[H|H]]]; rewrite H.
  - destruct (c =? mp_DASH)%N; unfold mp_sw0; cbn -[Nat.mul]; rewrite ?H; cbn [mp_x mp_w];
      repeat split; try assumption; try lia; try discriminate; intros; try congruence.
  - destruct (c =? mp_DASH)%N; unfold mp_sw0; cbn -[Nat.mul]; rewrite ?H; cbn [mp_x mp_w];
      repeat split; try assumption; try lia; try discriminate; intros; try congruence.
  - destruct (c =? CR)%N; [|destruct (c =? LF)%N; [|destruct (htp_is_lws c)]]; unfold mp_sw0; cbn -[Nat.mul]; rewrite ?H; cbn [mp_x mp_w];
      repeat split; try assumption; try lia; try discriminate; intros; try congruence.
  - destruct (c =? LF)%N; unfold mp_sw0; cbn -[Nat.mul]; rewrite ?H; cbn [mp_x mp_w];
      repeat split; try assumption; try lia; try discriminate; intros; try congruence.
Qed.

Lemma sw0_inv_at_end data s pos sp drp :
  mp_sw0 data s pos sp drp -> mps_state s <> MpsBoundary -> mp_inv s.
Proof.
  intros (Hf & Hb & Hsp & Hpl & Hdp & Hnb & HB) Hns. unfold mp_inv, mp_cand_ok.
  rewrite (Hnb Hns). repeat split; try assumption; intros; congruence.
Qed.

(* ------------------------------------------------------------------ the switch *)
Lemma switch_ok fuel : forall data s pos sp drp,
  mp_sw data s pos sp drp -> mps_state s <> MpsInit -> mp_M data s pos sp drp < fuel ->
  exists s', mp_switch fuel data s pos sp drp = MpOk s' /\ mp_inv s'.
Proof.
  induction fuel as [|fuel IH]; intros data s pos sp drp Hsw Hni HM; [lia|].
  cbn [mp_switch].
  destruct (mps_state s) eqn:Est; try congruence.
  - (* STATE_DATA *)
    destruct Hsw as ((Hf & Hb & Hsp & Hpl & Hdp & Hnb & HB) & Hlt).
    assert (Hns : mps_state s <> MpsBoundary) by (rewrite Est; discriminate).
    pose proof (data_loop_spec (length data - pos) data s pos sp drp) as HD.
    specialize (HD ltac:(lia) Hsp Hdp Hf Hb Est (Hnb Hns)).
    specialize (HD ltac:(intros _; right; specialize (Hlt Hns); lia)).
    destruct (mp_data_loop (length data - pos) data s pos sp drp) as [s' p' sp' d'|s' p' sp' d'|s'|]; try contradiction.
    + destruct HD as (H0 & H1 & H2 & H3 & H4).
      apply IH; [split; [exact H0|intros; congruence]|rewrite H1; discriminate|].
      unfold mp_M in *. rewrite H1. rewrite Est in HM. cbn in *. subst sp'. lia.
    + destruct HD as (H0 & H1). subst p'. rewrite Nat.ltb_irrefl. eauto.
  - (* STATE_BOUNDARY *)
    destruct Hsw as (Hsw0 & Hlt).
    pose proof (bnd_loop_spec (length data - pos) data s pos sp drp) as HD.
    destruct Hsw0 as (Hf & Hb & Hsp & Hpl & Hdp & Hnb & HB).
    specialize (HD ltac:(lia) ltac:(unfold mp_sw0; tauto) Est).
    destruct (HB Est) as (Hsd & _).
    destruct (mp_bnd_loop (length data - pos) data s pos sp drp) as [s' p' sp' d'|s' p' sp' d'|s'|]; try contradiction.
    + destruct HD as (H0 & [(H1 & H2)|(H1 & H2)]).
      * apply IH; [exact H0|rewrite H1; discriminate|].
        unfold mp_M in *. rewrite H1. rewrite Est in HM. cbn in *. lia.
      * apply IH; [exact H0|rewrite H1; discriminate|].
        destruct H0 as ((_ & _ & _ & Hp' & _) & _).
        unfold mp_M in *. rewrite H1. rewrite Est in HM. cbn in *. lia.
    + destruct HD as (H0 & H1). subst p'. rewrite Nat.ltb_irrefl. eauto.
    + eauto.
  - pose proof (single_spec data s pos sp drp Hsw ltac:(unfold mp_is_single; rewrite Est; tauto)) as HS.

    destruct (mp_single data s pos sp drp) as [s' p' sp' d'|s' p' sp' d'|s'|]; try contradiction.
    destruct HS as (H0 & H1 & H2 & H3).
    destruct (p' <? length data) eqn:El.
    + apply Nat.ltb_lt in El. apply IH; [split; [exact H0|intros; exact El]|exact H2|lia].
    + eexists; split; [reflexivity|]. eapply sw0_inv_at_end; eauto.
  - pose proof (single_spec data s pos sp drp Hsw ltac:(unfold mp_is_single; rewrite Est; tauto)) as HS.

    destruct (mp_single data s pos sp drp) as [s' p' sp' d'|s' p' sp' d'|s'|]; try contradiction.
    destruct HS as (H0 & H1 & H2 & H3).
    destruct (p' <? length data) eqn:El.
    + apply Nat.ltb_lt in El. apply IH; [split; [exact H0|intros; exact El]|exact H2|lia].
    + eexists; split; [reflexivity|]. eapply sw0_inv_at_end; eauto.
  - pose proof (single_spec data s pos sp drp Hsw ltac:(unfold mp_is_single; rewrite Est; tauto)) as HS.

    destruct (mp_single data s pos sp drp) as [s' p' sp' d'|s' p' sp' d'|s'|]; try contradiction.
    destruct HS as (H0 & H1 & H2 & H3).
    destruct (p' <? length data) eqn:El.
    + apply Nat.ltb_lt in El. apply IH; [split; [exact H0|intros; exact El]|exact H2|lia].
    + eexists; split; [reflexivity|]. eapply sw0_inv_at_end; eauto.
  - pose proof (single_spec data s pos sp drp Hsw ltac:(unfold mp_is_single; rewrite Est; tauto)) as HS.

    destruct (mp_single data s pos sp drp) as [s' p' sp' d'|s' p' sp' d'|s'|]; try contradiction.
    destruct HS as (H0 & H1 & H2 & H3).
    destruct (p' <? length data) eqn:El.
    + apply Nat.ltb_lt in El. apply IH; [split; [exact H0|intros; exact El]|exact H2|lia].
    + eexists; split; [reflexivity|]. eapply sw0_inv_at_end; eauto.
Qed.

(* ------------------------------------------------------------------ one call, finalize, reachability *)
Definition mp_inv' (s : mp_state) : Prop := mp_inv s /\ mps_state s <> MpsInit.

Lemma parse_r_ok s data :
  mp_inv s -> mps_state s <> MpsInit -> exists s', mp_parse_r s data = MpOk s' /\ mp_inv s'.
Proof.
  intros Hi Hni. unfold mp_parse_r.
  destruct (0 <? length data) eqn:El; [|eauto].
  apply Nat.ltb_lt in El.
  destruct Hi as (Hf & Hb & Hc & Hnb & HB).
  apply switch_ok; [| exact Hni |].
  - unfold mp_sw, mp_sw0. split; [|intros; lia].
    split; [exact Hf|]. split; [exact Hb|]. split; [lia|]. split; [lia|]. split; [lia|]. split; [exact Hnb|].
    intros HS. destruct (HB HS) as (H1 & H2). split; [lia|]. split; [exact H1|]. split; [|exact Hc].
    intros Hp. rewrite (H2 Hp). reflexivity.
  - unfold mp_M. destruct (mps_state s); cbn; lia.
Qed.

Lemma finalize_r_ok s : mp_inv s -> exists s', mp_finalize_r s = MpOk s' /\ mps_fault s' = false.
Proof.
  intros (Hf & Hb & Hc & Hnb & HB). unfold mp_finalize_r.
  destruct (mpl_cur (mps_pl s)); [|eexists; split; [reflexivity|exact Hf]].
  destruct (process_aside_ok s false Hc) as (s1 & E & Hbp1 & Hcr1 & Hbd1 & Hst1 & Hmp1 & Hcd1 & Hf1).
  rewrite E. destruct (mpl_cur (mps_pl s1)); eexists; (split; [reflexivity|]); cbn; congruence.
Qed.

(* the state never becomes STATE_INIT again: every transition of the model assigns one of the six
   other states; proved as part of a combined invariant on the observable result of a call *)
Lemma data_loop_state n : forall data s pos sp drp,
  mps_state s <> MpsInit ->
  match mp_data_loop n data s pos sp drp with
  | MpBreak s' _ _ _ | MpGoto s' _ _ _ | MpRet s' => mps_state s' <> MpsInit
  | MpErr => True
  end.
Proof.
  induction n as [|n IH]; intros data s pos sp drp Hs; cbn [mp_data_loop].
  - destruct (mp_sub pos sp); [|exact I]. destruct (mp_sub _ _); [|exact I]. destruct (mp_slice _ _ _); [|exact I]. exact Hs.
  - destruct (mp_rd data pos); [|exact I].
    destruct (n0 =? CR)%N.
    + destruct (pos + 1 =? length data); [apply IH; exact Hs|].
      destruct (mp_rd data (pos + 1)); [|exact I].
      destruct (n1 =? LF)%N; [destruct (mp_sub _ _); [cbn; discriminate|exact I]|apply IH; exact Hs].
    + destruct (n0 =? LF)%N; [destruct (mp_sub _ _); [cbn; discriminate|exact I]|].
      apply IH. destruct (mps_cr s); exact Hs.
Qed.

Lemma process_aside_state s m s1 : mp_process_aside s m = MpOk s1 -> mps_state s1 = mps_state s.
Proof.
  unfold mp_process_aside. cbv zeta.
  destruct (m || _).
  - set (s0 := if negb m && mps_cr s then _ else _).
    assert (H0 : mps_state s0 = mps_state s) by (subst s0; destruct (negb m && mps_cr s); reflexivity).
    destruct (mps_bpieces s0) as [|b rest]; [intros H; injection H as <-; exact H0|].
    destruct (negb m).
    + destruct (mp_slice b 0 _); [|discriminate]. destruct (mp_sub _ _); [|discriminate].
      destruct (mp_slice b _ _); [|discriminate]. intros H; injection H as <-.
      cbn [mp_set_bpieces mps_state].
      match goal with |- context [fold_left ?f rest ?x] => pose proof (mt_fold_shd rest x) as Hm end.
      rewrite !mt_shd in Hm. mt_fields Hm. congruence.
    + destruct (if 0 <? mps_cand s0 then _ else _); [|discriminate].
      destruct (if (n <? mps_cand s0) && (0 <? n) then _ else _); [|discriminate].
      destruct (mp_slice b 0 n0); [|discriminate]. intros H; injection H as <-. exact H0.
  - intros H; injection H as <-. cbn [mp_set_bpieces mps_state].
    match goal with |- context [fold_left ?f ?r ?x] => pose proof (mt_fold_shd r x) as Hm end.
    mt_fields Hm. destruct (mps_cr s); cbn in *; congruence.
Qed.

Lemma bnd_loop_state n : forall data s pos sp drp,
  mps_state s <> MpsInit ->
  match mp_bnd_loop n data s pos sp drp with
  | MpBreak s' _ _ _ | MpGoto s' _ _ _ | MpRet s' => mps_state s' <> MpsInit
  | MpErr => True
  end.
Proof.
  induction n as [|n IH]; intros data s pos sp drp Hs; cbn [mp_bnd_loop].
  - destruct (mp_sub _ _); [|exact I]. destruct (mp_slice _ _ _); [|exact I]. exact Hs.
  - destruct (mp_rd data pos); [|exact I]. destruct (mp_rd _ _); [|exact I].
    destruct (negb _).
    + destruct (mp_process_aside s false); try exact I.
      destruct (mpl_mode _).
      * destruct (mp_sub _ _); [|exact I]. destruct (mp_slice _ _ _); [|exact I]. cbn; discriminate.
      * cbn; discriminate.
    + destruct (_ =? _).
      * unfold mp_boundary_matched. destruct (mp_process_aside _ true); try exact I.
        destruct (mp_sub _ _); [|exact I].
        destruct (if 0 <? n2 then _ else _); [|exact I].
        destruct (if 0 <? n3 then _ else _); [|exact I].
        destruct (mp_slice _ _ _); [|exact I]. cbv zeta.
        destruct (length data <=? pos + 1); cbn; discriminate.
      * apply IH. exact Hs.
Qed.

Lemma switch_state fuel : forall data s pos sp drp s',
  mps_state s <> MpsInit -> mp_switch fuel data s pos sp drp = MpOk s' -> mps_state s' <> MpsInit.
Proof.
  induction fuel as [|fuel IH]; intros data s pos sp drp s' Hs; cbn [mp_switch]; [discriminate|].
  assert (HC : match (match mps_state s with
             | MpsInit => MpRet s
             | MpsData => mp_data_loop (length data - pos) data s pos sp drp
             | MpsBoundary => mp_bnd_loop (length data - pos) data s pos sp drp
             | _ => mp_single data s pos sp drp
             end) with
          | MpBreak s' _ _ _ | MpGoto s' _ _ _ | MpRet s' => mps_state s' <> MpsInit
          | MpErr => True end).
  { destruct (mps_state s) eqn:Est; try congruence.
    - apply data_loop_state; congruence.
    - apply bnd_loop_state; congruence.
    - unfold mp_single. destruct (mp_rd data pos); [|exact I]. rewrite Est. destruct (n =? mp_DASH)%N; cbn; discriminate.
    - unfold mp_single. destruct (mp_rd data pos); [|exact I]. rewrite Est. destruct (n =? mp_DASH)%N; cbn; discriminate.
    - unfold mp_single. destruct (mp_rd data pos); [|exact I]. rewrite Est.
      destruct (n =? CR)%N; [cbn; discriminate|]. destruct (n =? LF)%N; [cbn; discriminate|].
      destruct (htp_is_lws n); cbn; congruence.
    - unfold mp_single. destruct (mp_rd data pos); [|exact I]. rewrite Est. destruct (n =? LF)%N; cbn; discriminate. }
  destruct (match mps_state s with MpsInit => _ | _ => _ end) as [s1 p1 sp1 d1|s1 p1 sp1 d1|s1|]; try discriminate.
  - apply IH; exact HC.
  - destruct (p1 <? length data); [apply IH; exact HC|]. intros H; injection H as <-; exact HC.
  - intros H; injection H as <-; exact HC.
Qed.

Lemma parse_r_inv' s data s' : mp_inv' s -> mp_parse_r s data = MpOk s' -> mp_inv' s'.
Proof.
  intros (Hi & Hni) E. destruct (parse_r_ok s data Hi Hni) as (s2 & E2 & Hi2).
  rewrite E in E2. injection E2 as <-. split; [exact Hi2|].
  unfold mp_parse_r in E. destruct (0 <? length data); [|injection E as <-; exact Hni].
  eapply switch_state; eauto.
Qed.

Lemma parse_inv' s data : mp_inv' s -> mp_inv' (mp_parse s data).
Proof.
  intros Hi. unfold mp_parse.
  destruct Hi as (Hi & Hni). pose proof Hi as (Hf & _). rewrite Hf.
  destruct (parse_r_ok s data Hi Hni) as (s2 & E2 & Hi2). rewrite E2.
  apply (parse_r_inv' s data s2); [split; assumption|exact E2].
Qed.

Lemma init_inv' b f : mp_inv' (mp_init_flags b f).
Proof.
  unfold mp_inv', mp_inv, mp_cand_ok, mp_init_flags. cbn.
  repeat split; try reflexivity; try lia; try discriminate; intros; try reflexivity; lia.
Qed.

Lemma fold_parse_inv' chunks : forall s, mp_inv' s -> mp_inv' (fold_left mp_parse chunks s).
Proof. induction chunks as [|c r IH]; intros s H; cbn [fold_left]; [exact H|]. apply IH. apply parse_inv'. exact H. Qed.

(* C14 (a) *)
Theorem mp_never_faults : forall boundary flags chunks,
  let st := fold_left mp_parse chunks (mp_init_flags boundary flags) in
  mps_fault st = false /\
  (forall data, exists st', mp_parse_r st data = MpOk st') /\
  (exists st', mp_finalize_r st = MpOk st') /\
  mps_fault (mp_finalize st) = false.
Proof.
  intros b f chunks st.
  pose proof (fold_parse_inv' chunks _ (init_inv' b f)) as (Hi & Hni). fold st in Hi, Hni.
  pose proof Hi as (Hf & _).
  split; [exact Hf|]. split; [|split].
  - intros data. destruct (parse_r_ok st data Hi Hni) as (s' & E & _). eauto.
  - destruct (finalize_r_ok st Hi) as (s' & E & _). eauto.
  - unfold mp_finalize. rewrite Hf. destruct (finalize_r_ok st Hi) as (s' & E & Hf'). rewrite E. exact Hf'.
Qed.
