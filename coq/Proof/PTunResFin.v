(* C16, response side: the end of a response whose request side is NOT complete (the request side of a CONNECT exchange waits for
   this very response).  htp_tx_state_response_complete_ex wraps the response up in every case -- progress COMPLETE, the last (empty)
   RESPONSE_BODY_DATA call, RESPONSE_COMPLETE, htp_tx_finalize (which does nothing: the request side is not complete), out_tx detached,
   out_state = RES_IDLE -- and returns HTP_DATA_OTHER afterwards in the two yield situations (the request side waits in DATA_OTHER on
   this transaction; out_data_other_at_tx_end after a refused CONNECT), HTP_OK otherwise.  This file is the only one that unfolds
   htp_tx_state_response_complete_ex. *)
Require Import Htp.Model.Base Htp.Model.MBstr Htp.Model.MConnTypes Htp.Model.MTxCommon Htp.Model.MResLine Htp.Model.MTxRes.
Require Import Htp.Model.MReq Htp.Model.MRes Htp.Model.MConnp.
Require Import Htp.Spec.SWire Htp.Proof.PWire Htp.Proof.PWireHdr Htp.Proof.PWireBlock Htp.Proof.PWireConn Htp.Proof.PWireExch.
Require Import Htp.Proof.PWireRun Htp.Proof.PWirePres Htp.Proof.PWireGlue Htp.Proof.PSeg Htp.Proof.PSegLine Htp.Proof.PSegHdr Htp.Proof.PSegGen Htp.Proof.PSegRun.
Require Import Htp.Proof.PSegFold Htp.Proof.PSegRes Htp.Proof.PSegResLine Htp.Proof.PSegResHdr Htp.Proof.PSegResGen Htp.Proof.PSegResRun.
Require Import Htp.Proof.PTunBase Htp.Proof.PTunSegMid Htp.Proof.PTunRes Htp.Proof.PTunResLine Htp.Proof.PTunResHdr Htp.Proof.PTunResRun Htp.Proof.PTunResTail.

(* the response side after the response to transaction number tr_k w (slot s), the request side as the frame says *)
Record tr_after (w : tr_world) (c : connp) (s : option tx) : Prop := mk_tr_after {
  tf_status : sg_live (c_out_status c);
  tf_state : c_out_state c = RES_IDLE;
  tf_buf : sg_olist (k_buf (c_out c)) = [];
  tf_hdr : k_header (c_out c) = None;
  tf_rh : k_receiver_hook (c_out c) = None;
  tf_otx : c_out_tx c = None;
  tf_next : c_out_next_tx_index c = S (tr_k w);
  tf_txs : c_txs c = tw_pre w ++ s :: tw_post w;
  tf_shift : c_txs_shifted c = 0%nat;
  tf_rq : tn_rq c = tw_rq w;
  tf_other : c_out_data_other_at_tx_end c = false }.
Lemma tr_after_finish w c s : tr_after w c s -> tn_stable (c_in (tw_rq w)) -> tr_after w (tn_fin c) s.
Proof.
  intros [A1 A2 A3 A4 A5 A6 A7 A8 A9 A10 A11] S. destruct (tr_forget_out c) as (F1 & F2 & F3).
  constructor; rewrite ?F1, ?F2, ?F3; try assumption. apply tn_rq_fin_stable; assumption.
Qed.

(* the transaction when its response is complete: the last (empty) RESPONSE_BODY_DATA call is made unless the response is known to have no body *)
Definition tn_tcomplete (t : tx) : tx :=
  if (t_response_transfer_coding t =? c_HTP_CODING_NO_BODY)%Z then t <| t_response_progress := c_HTP_RESPONSE_COMPLETE |> else sr_tcomplete t.

Section Fin.
Variable cb : cb_oracle.
Variable g : cfg.
Hypothesis Hcb : wr_all_ok cb.
Context {w : tr_world}.
Notation tr_cin := (tr_cinw w).

(* does the response side yield to the request side at the end of this transaction? *)
Definition tr_waits : bool :=
  (c_in_status (tw_rq w) =? c_HTP_STREAM_DATA_OTHER)%Z && match c_in_tx (tw_rq w) with Some a => (a =? tr_k w)%nat | None => false end.
Definition tr_yields : bool := tr_waits || tw_other w.

Record tr_comp (c c' : connp) (s : option tx) : Prop := mk_tr_comp {
  tc_txs : c_txs c' = tw_pre w ++ s :: tw_post w;
  tc_out : c_out c' = c_out c;
  tc_status : c_out_status c' = c_out_status c;
  tc_prev : c_out_state_previous c' = c_out_state_previous c;
  tc_state : c_out_state c' = RES_IDLE;
  tc_otx : c_out_tx c' = None;
  tc_next : c_out_next_tx_index c' = S (tr_k w);
  tc_shift : c_txs_shifted c' = 0%nat;
  tc_rq : tn_rq c' = tw_rq w;
  tc_other : c_out_data_other_at_tx_end c' = tr_waits && tw_other w }.

Lemma tr_response_complete_open c d rd p prev t : tr_cin c d rd p None RES_FINALIZE prev None t ->
  t_res_cep t = c_HTP_COMPRESSION_NONE ->
  (t_response_progress t =? c_HTP_RESPONSE_COMPLETE)%Z = false -> (t_request_progress t =? c_HTP_REQUEST_COMPLETE)%Z = false ->
  exists c', rs_response_complete cb g c = (if tr_yields then ST_DATA_OTHER else ST_OK, c') /\ tr_comp c c' (Some (tn_tcomplete t)).
Proof.
  intros H0 Hcep Hprog Hreq. rename c into c0.
  unfold rs_response_complete. rewrite (ti_tx _ _ _ _ _ _ _ _ _ H0). unfold tx_state_response_complete_ex.
  rewrite (tr_tx_get c0 d _ _ _ _ _ _ _ H0), Hprog. cbn [negb].
  rewrite (tr_tx_upd0 c0 d _ _ _ _ _ _ t _ H0).
  set (t1 := t <| t_response_progress := c_HTP_RESPONSE_COMPLETE |>). set (c1 := c0 <| c_txs := tr_txs w t1 |>).
  assert (H1 : tr_cin c1 d rd p None RES_FINALIZE prev None t1) by (eapply tr_cin_txs; exact H0).
  rewrite (tr_tx_get c1 d _ _ _ _ _ _ _ H1). change (t_response_transfer_coding t1) with (t_response_transfer_coding t).
  (* the last RESPONSE_BODY_DATA call *)
  assert (HB : exists c2, (if negb (t_response_transfer_coding t =? c_HTP_CODING_NO_BODY)%Z then snd (tx_res_process_body_data_ex cb (tr_k w) None 0 c1) else c1) = c2 /\
                 tr_cin c2 d rd p None RES_FINALIZE prev None (tn_tcomplete t) /\
                 c_out c2 = c_out c0 /\ c_out_status c2 = c_out_status c0 /\ c_out_state_previous c2 = c_out_state_previous c0).
  { unfold tn_tcomplete. destruct (t_response_transfer_coding t =? c_HTP_CODING_NO_BODY)%Z; cbn [negb].
    - exists c1. split; [reflexivity|]. split; [exact H1|]. repeat split.
    - assert (Epb : tx_res_process_body_data_ex cb (tr_k w) None 0 c1 = rs_process_body cb None 0 c1) by (unfold rs_process_body; rewrite (ti_tx _ _ _ _ _ _ _ _ _ H1); reflexivity).
      rewrite Epb. destruct (tr_process_body cb Hcb c1 d _ p None _ _ None t1 None 0 H1 Hcep I) as (c2 & E2 & H2 & _). rewrite E2. cbn [snd].
      exists c2. split; [reflexivity|]. split; [exact H2|].
      revert E2. unfold rs_process_body. rewrite (ti_tx _ _ _ _ _ _ _ _ _ H1). unfold tx_res_process_body_data_ex.
      rewrite (tr_tx_upd0 c1 d _ _ _ _ _ _ t1 _ H1).
      match goal with |- context [tx_get ?x (tr_k w)] => set (cA := x) end.
      assert (HA : tr_cin cA d rd p None RES_FINALIZE prev None (t1 <| t_response_message_len ::= Z.add (Z.of_nat 0) |>)) by (eapply tr_cin_txs; exact H1).
      rewrite (tr_tx_get cA d _ _ _ _ _ _ _ HA). change (t_res_cep (t1 <| t_response_message_len ::= Z.add (Z.of_nat 0) |>)) with (t_res_cep t). rewrite Hcep, Z.eqb_refl.
      rewrite (tr_tx_upd0 cA d _ _ _ _ _ _ _ _ HA).
      match goal with |- context [res_run_hook_body_data cb (tr_k w) None 0 ?x] => set (cB := x) end.
      unfold res_run_hook_body_data. change (c_out_tx cB) with (c_out_tx c1). rewrite (ti_tx _ _ _ _ _ _ _ _ _ H1).
      unfold run_data_hook. rewrite (wr_run_hook_ex cb Hcb). intros E. inversion E.
      assert (G : forall k x, c_out (run_tx_hooks k H_TX_RESPONSE_BODY_DATA (tr_k w) None false x) = c_out x /\
                              c_out_status (run_tx_hooks k H_TX_RESPONSE_BODY_DATA (tr_k w) None false x) = c_out_status x /\
                              c_out_state_previous (run_tx_hooks k H_TX_RESPONSE_BODY_DATA (tr_k w) None false x) = c_out_state_previous x).
      { induction k as [|k IH]; intros x; [repeat split|]. cbn [run_tx_hooks]. destruct (IH (emit (bump_hook x H_TX_RESPONSE_BODY_DATA) (mkev H_TX_RESPONSE_BODY_DATA (tr_k w) None false None))) as (G1 & G2 & G3).
        rewrite G1, G2, G3. repeat split. }
      cbn [wr_hook_ev emit bump_hook c_out c_out_status c_out_state_previous set].
      destruct (G (t_hook_response_body (tx_get cB (tr_k w))) cB) as (G1 & G2 & G3). cbn. rewrite G1, G2, G3. repeat split. }
  destruct HB as (c2 & E2 & H2 & O2 & S2 & P2). rewrite E2. clear E2.
  rewrite (wr_run_hook cb Hcb). unfold res_receiver_finalize_clear.
  set (c3 := wr_hook_ev H_RESPONSE_COMPLETE (tr_k w) None false c2).
  assert (H3 : tr_cin c3 d rd p None RES_FINALIZE prev None (tn_tcomplete t)) by (apply tr_cin_hook; exact H2).
  rewrite (ti_rh _ _ _ _ _ _ _ _ _ H3). cbv zeta. cbn [negb andb].
  (* htp_tx_finalize: the transaction is not complete *)
  assert (Rq : t_request_progress (tn_tcomplete t) = t_request_progress t) by (unfold tn_tcomplete; destruct (t_response_transfer_coding t =? c_HTP_CODING_NO_BODY)%Z; reflexivity).
  assert (Efin : forall cx, tx_slot cx (tr_k w) = Some (tn_tcomplete t) -> tx_finalize cb g (tr_k w) cx = (ST_OK, cx)).
  { intros cx Hx. unfold tx_finalize. rewrite Hx. unfold tx_is_complete. rewrite Rq, Hreq. reflexivity. }
  pose proof (tr_cin_slot _ _ _ _ _ _ _ _ _ H3) as Sl3.
  assert (O3 : c_out c3 = c_out c0) by exact O2. assert (S3 : c_out_status c3 = c_out_status c0) by exact S2.
  assert (P3 : c_out_state_previous c3 = c_out_state_previous c0) by exact P2.
  destruct (tn_rq_proj _ _ (ti_intx _ _ _ _ _ _ _ _ _ H3)) as (Q1 & _ & _ & _ & Q5 & _).
  rewrite Q1, Q5, (ti_tx _ _ _ _ _ _ _ _ _ H3), (ti_other _ _ _ _ _ _ _ _ _ H3).
  unfold tr_yields, tr_waits.
  destruct ((c_in_status (tw_rq w) =? c_HTP_STREAM_DATA_OTHER)%Z && match c_in_tx (tw_rq w) with Some a => (a =? tr_k w)%nat | None => false end) eqn:Ey; cbn [orb andb].
  - rewrite (Efin c3 Sl3). eexists. split; [reflexivity|].
    destruct H3 as [B1 B2 B3 B4 B5 B6 B7 B8 B9 B10 B11 B12 B13 B14 B15 B16 B17 B18].
    constructor; cbn [c_txs c_out c_out_status c_out_state_previous c_out_state c_out_tx c_out_next_tx_index c_txs_shifted c_out_data_other_at_tx_end set]; try assumption; try reflexivity.
    unfold tr_waits. rewrite Ey. exact B17.
  - destruct (tw_other w) eqn:Eo.
    + match goal with |- context [tx_finalize cb g (tr_k w) ?x] => rewrite (Efin x Sl3) end. eexists. split; [reflexivity|].
      destruct H3 as [B1 B2 B3 B4 B5 B6 B7 B8 B9 B10 B11 B12 B13 B14 B15 B16 B17 B18].
      constructor; cbn [c_txs c_out c_out_status c_out_state_previous c_out_state c_out_tx c_out_next_tx_index c_txs_shifted c_out_data_other_at_tx_end set]; try assumption; try reflexivity.
      unfold tr_waits. rewrite Ey. reflexivity.
    + rewrite (Efin c3 Sl3). eexists. split; [reflexivity|].
      destruct H3 as [B1 B2 B3 B4 B5 B6 B7 B8 B9 B10 B11 B12 B13 B14 B15 B16 B17 B18].
      constructor; cbn [c_txs c_out c_out_status c_out_state_previous c_out_state c_out_tx c_out_next_tx_index c_txs_shifted c_out_data_other_at_tx_end set]; try assumption; try reflexivity.
      unfold tr_waits. rewrite Ey. cbn [andb]. rewrite B17. exact Eo.
Qed.

(* ---- RES_FINALIZE at the end of the chunk: the response is complete, the call returns HTP_STREAM_DATA either way ---- *)
Lemma tr_finalize_end c d t f : tr_cin c d (length d) [] None RES_FINALIZE (Some RES_FINALIZE) None t ->
  t_res_cep t = c_HTP_COMPRESSION_NONE ->
  (t_response_progress t =? c_HTP_RESPONSE_COMPLETE)%Z = false -> (t_request_progress t =? c_HTP_REQUEST_COMPLETE)%Z = false ->
  tr_waits && tw_other w = false ->
  exists cF, rs_res_loop cb g (2 + f) false c = (cF, c_HTP_STREAM_DATA) /\ tr_after w cF (Some (tn_tcomplete t)) /\
             k_read (c_out cF) = length d /\ c_out_status cF = c_HTP_STREAM_DATA.
Proof.
  intros H Hcep Hprog Hreq Hoth. pose proof H as [A1 A2 A3 A4 A5 A6 A7 A8 A9 A10 A11 A12 A13 A14 A15 A16 A17 A18].
  assert (Ef : rs_state_fn cb g (c_out_state c) c = rs_response_complete cb g (rs_set_out (fun k => k <| k_next_byte := None |>) c)).
  { rewrite A2. cbn [rs_state_fn]. unfold rs_RES_FINALIZE, rs_closed. rewrite (sg_live_closed _ A1). cbn [negb].
    rewrite (sr_peek c d A4 A5), A6.
    assert (Nn : nth_error d (length d) = None) by (apply nth_error_None; lia). rewrite Nn. reflexivity. }
  set (c0 := rs_set_out (fun k => k <| k_next_byte := None |>) c) in *.
  assert (H0 : tr_cin c0 d (length d) [] None RES_FINALIZE (Some RES_FINALIZE) None t) by (apply tr_cin_next; exact H).
  destruct (tr_response_complete_open c0 d _ _ _ t H0 Hcep Hprog Hreq) as (c1 & E1 & [B1 B2 B3 B4 B5 B6 B7 B8 B9 B10]). rewrite E1 in Ef.
  destruct H0 as [C1 C2 C3 C4 C5 C6 C7 C8 C9 C10 C11 C12 C13 C14 C15 C16 C17 C18].
  apply app_eq_nil in C9. destruct C9 as [Cb _].
  change (2 + f)%nat with (S (S f)). rewrite (sr_loop_S cb g).
  destruct tr_yields.
  - (* the response side yields: HTP_DATA_OTHER with nothing left in the chunk is HTP_STREAM_DATA *)
    unfold sr_iter. rewrite Ef. unfold rs_res_exit. rewrite B2, C5, C6, Nat.leb_refl.
    eexists. split; [reflexivity|]. split; [|split; [cbn; rewrite B2; exact C6|reflexivity]].
    constructor; cbn [rs_set_out_status c_out_status c_out_state c_out c_out_tx c_out_next_tx_index c_txs c_txs_shifted c_out_data_other_at_tx_end set];
      rewrite ?B2; try assumption; try (right; reflexivity). rewrite B10. exact Hoth.
  - (* normal completion: RES_IDLE follows and finds the chunk exhausted *)
    unfold sr_iter at 1. rewrite Ef, B3, (sg_live_tunnel _ C1).
    unfold rs_handle_state_change. rewrite B4, C3, B5. cbn [res_state_eqb].
    rewrite (sr_loop_S cb g). unfold sr_iter. cbn [c_out_state set]. rewrite B5. cbn [rs_state_fn]. unfold rs_RES_IDLE, rs_has_byte.
    cbn [c_out set]. rewrite B2, C5, C6, Nat.ltb_irrefl. cbn [negb].
    unfold rs_res_exit, res_receiver_send_data. cbn [c_out set]. rewrite B2, C11. cbn [snd].
    eexists. split; [reflexivity|]. split; [|split; [cbn; rewrite B2; exact C6|reflexivity]].
    constructor; cbn [rs_set_out_status c_out_status c_out_state c_out c_out_tx c_out_next_tx_index c_txs c_txs_shifted c_out_data_other_at_tx_end set];
      rewrite ?B2; try assumption; try (right; reflexivity). rewrite B10. exact Hoth.
Qed.
End Fin.
